/-
C09 helper development: the writer without a callback (`Model/WriterNC.lean`) refines the general
model — every macro step is a non-empty run of model steps — and is itself deadlock free.
-/
import IrVerif.Lemmas.WriterNLive
import IrVerif.Model.WriterNC
namespace IrVerif.WriterN

theorem run_append {cfg : Cfg} : ∀ (l1 l2 : List Label) {s s1 s2 : State},
    run cfg s l1 = some s1 → run cfg s1 l2 = some s2 → run cfg s (l1 ++ l2) = some s2
  | [], _, s, s1, s2, h1, h2 => by simp [run] at h1; subst h1; simpa using h2
  | l :: ls, l2, s, s1, s2, h1, h2 => by
      simp only [run, List.cons_append] at h1 ⊢
      split at h1
      · simp at h1
      · rename_i s' hs'
        exact run_append ls l2 h1 h2

theorem fuse_run {cfg : Cfg} {i : Nat} : ∀ (k : Nat) {s s' : State}, fuse cfg i k s = some s' →
    ∃ m, run cfg s (List.replicate m (.task i)) = some s'
  | 0, s, s', h => by simp [fuse] at h; subst h; exact ⟨0, rfl⟩
  | k + 1, s, s', h => by
      simp only [fuse] at h
      split at h
      · split at h
        · cases hst : step cfg s (.task i) with
          | none => rw [hst] at h; simp at h
          | some s1 =>
              rw [hst] at h; simp only [Option.bind_some] at h
              obtain ⟨m, hm⟩ := fuse_run k h
              refine ⟨m + 1, ?_⟩
              simp only [List.replicate_succ, run, hst]; exact hm
        · simp at h; subst h; exact ⟨0, rfl⟩
      · simp at h; subst h; exact ⟨0, rfl⟩

/-- a macro step is a non-empty schedule of the general model -/
theorem stepNC_run {cfg : Cfg} {s s' : State} {l : Label} (h : stepNC cfg s l = some s') :
    ∃ ls, ls ≠ [] ∧ run cfg s ls = some s' := by
  have one : ∀ {l' : Label}, step cfg s l' = some s' → ∃ ls, ls ≠ [] ∧ run cfg s ls = some s' := by
    intro l' h'; exact ⟨[l'], by simp, by simp [run, h']⟩
  cases l with
  | owner q c => exact one (l' := .owner q c) h
  | take q => exact one (l' := .take q) h
  | exit q => exact one (l' := .exit q) h
  | task i =>
      simp only [stepNC] at h
      split at h
      · -- tAcq
        cases hst : step cfg s (.task i) with
        | none => rw [hst] at h; simp at h
        | some s1 =>
            rw [hst] at h; simp only [Option.bind_some] at h
            split at h
            · simp at h; subst h; exact ⟨[.task i], by simp, by simp [run, hst]⟩
            · obtain ⟨m, hm⟩ := fuse_run 3 h
              exact ⟨.task i :: List.replicate m (.task i), by simp, by simp only [run, hst]; exact hm⟩
      · -- cbAcqIn
        rename_i hp
        simp only [fuse, hp, isCbPc, if_true] at h
        cases hst : step cfg s (.task i) with
        | none => rw [hst] at h; simp at h
        | some s1 =>
            rw [hst] at h; simp only [Option.bind_some] at h
            obtain ⟨m, hm⟩ := fuse_run 2 h
            exact ⟨.task i :: List.replicate m (.task i), by simp, by simp only [run, hst]; exact hm⟩
      · rename_i hp
        simp only [fuse, hp, isCbPc, if_true] at h
        cases hst : step cfg s (.task i) with
        | none => rw [hst] at h; simp at h
        | some s1 =>
            rw [hst] at h; simp only [Option.bind_some] at h
            obtain ⟨m, hm⟩ := fuse_run 2 h
            exact ⟨.task i :: List.replicate m (.task i), by simp, by simp only [run, hst]; exact hm⟩
      · simp at h
      · exact one h

theorem reachable_run {cfg : Cfg} : ∀ (ls : List Label) {s s' : State}, Reachable cfg s →
    run cfg s ls = some s' → Reachable cfg s'
  | [], s, s', hr, h => by simp [run] at h; subst h; exact hr
  | l :: ls, s, s', hr, h => by
      simp only [run] at h
      split at h
      · simp at h
      · rename_i s1 hs1; exact reachable_run ls (.step l hr hs1) h

theorem reachableNC_reachable {cfg : Cfg} {s : State} (h : ReachableNC cfg s) : Reachable cfg s := by
  induction h with
  | init => exact .init
  | step l _ hst ih =>
      obtain ⟨ls, _, hr⟩ := stepNC_run hst
      exact reachable_run ls ih hr

/-- every schedule of the writer without a callback is (after expansion) a schedule of the model -/
theorem runNC_run {cfg : Cfg} : ∀ (ls : List Label) {s s' : State}, runNC cfg s ls = some s' →
    ∃ ls', ls.length ≤ ls'.length ∧ run cfg s ls' = some s'
  | [], s, s', h => by simp [runNC] at h; subst h; exact ⟨[], by simp, rfl⟩
  | l :: ls, s, s', h => by
      simp only [runNC] at h
      split at h
      · simp at h
      · rename_i s1 hs1
        obtain ⟨l1, hne, h1⟩ := stepNC_run hs1
        obtain ⟨l2, hlen, h2⟩ := runNC_run ls h
        refine ⟨l1 ++ l2, ?_, run_append l1 l2 h1 h2⟩
        have : 0 < l1.length := List.length_pos_iff.2 hne
        simp only [List.length_cons, List.length_append]; omega

/-! ### at the synchronisation points of the writer without a callback no callback lock is held -/

/-- program counters a task can be observed at -/
def goodPc (cfg : Cfg) (i : Nat) (p : Pc) : Prop :=
  p ≠ .cbBody ∧ (p = .cbAcqIn → (cfg.pool (cfg.poolOf i)).innerCb = true)

structure NCInv (cfg : Cfg) (s : State) : Prop where
  cb : s.cbLock = false
  cbin : ∀ q, s.cbIn.getD q false = false
  good : ∀ i p, s.tasks[i]? = some p → goodPc cfg i p

theorem NCInv_init (cfg : Cfg) : NCInv cfg (init cfg) := by
  refine ⟨rfl, fun q => ?_, fun i p h => ?_⟩
  · simp only [init, List.getD_eq_getElem?_getD, List.getElem?_replicate]; split <;> rfl
  · simp only [init, List.getElem?_replicate] at h
    split at h
    · simp at h; subst h; exact ⟨by simp, by simp⟩
    · simp at h

theorem getD_setB (l : List Bool) (a q : Nat) (b : Bool) :
    (l.set a b).getD q false = if q = a ∧ a < l.length then b else l.getD q false := by
  simp only [List.getD_eq_getElem?_getD, List.getElem?_set]
  by_cases h : a = q
  · subst h
    by_cases h2 : a < l.length
    · simp [h2]
    · simp [h2]
  · have : ¬ q = a := fun e => h e.symm
    simp [h, this]

theorem getD_set_false {l : List Bool} (h : ∀ q, l.getD q false = false) (a q : Nat) :
    (l.set a false).getD q false = false := by
  rw [getD_setB]; split
  · rfl
  · exact h q

theorem good_set {cfg : Cfg} {ts : List Pc} {i : Nat} {x : Pc} (hx : goodPc cfg i x)
    (h : ∀ k p, ts[k]? = some p → goodPc cfg k p) : ∀ k p, (ts.set i x)[k]? = some p → goodPc cfg k p := by
  intro k p hk
  simp only [List.getElem?_set] at hk
  split at hk
  · rename_i e; subst e
    split at hk
    · simp at hk; subst hk; exact hx
    · simp at hk
  · exact h k p hk

theorem good_plain {cfg : Cfg} {i : Nat} {x : Pc} (h1 : x ≠ .cbBody) (h2 : x ≠ .cbAcqIn) :
    goodPc cfg i x := ⟨h1, fun e => absurd e h2⟩

theorem finishTask_good {cfg : Cfg} {s : State} {i : Nat} {ok : Bool}
    (h : ∀ k p, s.tasks[k]? = some p → goodPc cfg k p) :
    ∀ k p, (finishTask cfg s i ok).tasks[k]? = some p → goodPc cfg k p := by
  unfold finishTask
  split
  · exact good_set (good_plain (by simp [firstPc]) (by simp [firstPc]))
      (good_set (good_plain (by simp) (by simp)) h)
  · exact good_set (good_plain (by simp) (by simp)) h

theorem finishTask_cb (cfg : Cfg) (s : State) (i : Nat) (ok : Bool) :
    (finishTask cfg s i ok).cbLock = s.cbLock ∧ (finishTask cfg s i ok).cbIn = s.cbIn := by
  unfold finishTask; split <;> exact ⟨rfl, rfl⟩

/-- steps of the model outside the callback section keep `NCInv` -/
theorem NCInv_step_other {cfg : Cfg} {s s' : State} {l : Label} (hI : NCInv cfg s)
    (hst : StepRel cfg s l s')
    (hl : ∀ i, l = .task i → s.tasks[i]? ≠ some .tAcq ∧ s.tasks[i]? ≠ some .cbAcqIn ∧
      s.tasks[i]? ≠ some .cbAcq) : NCInv cfg s' := by
  cases hst with
  | submit q c k j P hP hk hj => exact ⟨hI.cb, hI.cbin, hI.good⟩
  | collect q c j ok P hP hm hjj hf =>
      unfold collectOne
      cases ok
      · simp only [Bool.false_eq_true, if_false]; split <;> exact ⟨hI.cb, hI.cbin, hI.good⟩
      · simp only [if_true]; split <;> exact ⟨hI.cb, hI.cbin, hI.good⟩
  | joinRoot q c e P hP hm hex hpar => exact ⟨hI.cb, hI.cbin, hI.good⟩
  | joinSub q c e P jp hP hm hex hpar => exact ⟨hI.cb, hI.cbin, hI.good⟩
  | takeSerial q j rest P hP hq hidle hsub =>
      exact ⟨hI.cb, hI.cbin, good_set (good_plain (by simp [firstPc]) (by simp [firstPc])) hI.good⟩
  | takeSub q j rest P q' hP hq hidle hsub => exact ⟨hI.cb, hI.cbin, hI.good⟩
  | exit q P hP hq hsd hidle => exact ⟨hI.cb, hI.cbin, hI.good⟩
  | cbAcqIn i hi hlk => exact absurd hi (hl i rfl).2.1
  | cbAcq i hi hlk => exact absurd hi (hl i rfl).2.2
  | cbFail i hi hf => exact absurd rfl (hI.good i _ hi).1
  | cbOk i hi hf => exact absurd rfl (hI.good i _ hi).1
  | tAcq i hi hlk => exact absurd hi (hl i rfl).1
  | bTry i p hi hp =>
      unfold budgetTry
      split
      · split
        · exact ⟨hI.cb, hI.cbin, good_set (good_plain (by simp) (by simp)) hI.good⟩
        · exact ⟨hI.cb, hI.cbin, good_set (good_plain (by simp) (by simp)) hI.good⟩
      · split
        · exact ⟨hI.cb, hI.cbin, good_set (good_plain (by simp) (by simp)) hI.good⟩
        · exact ⟨hI.cb, hI.cbin, good_set (good_plain (by simp) (by simp)) hI.good⟩
  | writeFail i hi hf => exact ⟨hI.cb, hI.cbin, good_set (good_plain (by simp) (by simp)) hI.good⟩
  | writeOk i hi hf => exact ⟨hI.cb, hI.cbin, good_set (good_plain (by simp) (by simp)) hI.good⟩
  | bRel i ok hi =>
      unfold budgetRelease
      have hw : ∀ k p, (s.tasks.map wake)[k]? = some p → goodPc cfg k p := by
        intro k p hk
        simp only [List.getElem?_map, Option.map_eq_some_iff] at hk
        obtain ⟨p0, hp0, rfl⟩ := hk
        have := hI.good k p0 hp0
        cases p0 <;> first | exact this | exact good_plain (by simp [wake]) (by simp [wake])
      refine ⟨?_, ?_, finishTask_good hw⟩
      · rw [(finishTask_cb cfg _ i ok).1]; exact hI.cb
      · rw [(finishTask_cb cfg _ i ok).2]; exact hI.cbin

/-- the state when the (empty) callback section of tensor `i` has been left -/
def cbDone (cfg : Cfg) (t : State) (i : Nat) : State :=
  { t with log := t.log ++ [i], cbLock := false
           cbIn := if (cfg.pool (cfg.poolOf i)).innerCb then t.cbIn.set (cfg.poolOf i) false else t.cbIn
           tasks := t.tasks.set i .bAcq }

theorem cbFails_false {cfg : Cfg} (hnc : ncb cfg = true) (i : Nat) : cfg.cbFails i = false := by
  by_cases h : i < cfg.n
  · simp only [ncb, List.all_eq_true, List.mem_range] at hnc
    simpa using hnc i h
  · simp only [Cfg.cbFails, Cfg.n] at h ⊢
    simp [List.getD_eq_getElem?_getD, List.getElem?_eq_none (Nat.le_of_not_gt h)]
    rfl

theorem fuse_stop {cfg : Cfg} {i : Nat} {s : State} {p : Pc} (hi : s.tasks[i]? = some p)
    (hp : isCbPc p = false) (k : Nat) : fuse cfg i k s = some s := by
  cases k with
  | zero => rfl
  | succ k => simp [fuse, hi, hp]

theorem fuse_body {cfg : Cfg} (hnc : ncb cfg = true) {i : Nat} {t : State}
    (hi : t.tasks[i]? = some .cbBody) (k : Nat) : fuse cfg i (k + 1) t = some (cbDone cfg t i) := by
  have hlt := getElem?_lt hi
  have h1 : step cfg t (.task i) = some (cbDone cfg t i) := by
    simp [step, stepTask, hi, cbFails_false hnc i, cbDone]
  simp only [fuse, hi, isCbPc, if_true, h1, Option.bind_some]
  exact fuse_stop (p := .bAcq) (by simp [cbDone, hlt]) rfl k

theorem fuse_acq {cfg : Cfg} (hnc : ncb cfg = true) {i : Nat} {t : State}
    (hi : t.tasks[i]? = some .cbAcq) (hcb : t.cbLock = false) (k : Nat) :
    fuse cfg i (k + 2) t =
      some (cbDone cfg { t with cbLock := true, tasks := t.tasks.set i .cbBody } i) := by
  have hlt := getElem?_lt hi
  have h1 : step cfg t (.task i) = some { t with cbLock := true, tasks := t.tasks.set i .cbBody } := by
    simp [step, stepTask, hi, hcb]
  simp only [fuse, hi, isCbPc, if_true, h1, Option.bind_some]
  exact fuse_body hnc (t := { t with cbLock := true, tasks := t.tasks.set i .cbBody })
    (by show (t.tasks.set i Pc.cbBody)[i]? = some Pc.cbBody; simp [hlt]) k

theorem fuse_acqIn {cfg : Cfg} (hnc : ncb cfg = true) {i : Nat} {t : State}
    (hi : t.tasks[i]? = some .cbAcqIn) (hin : t.cbIn.getD (cfg.poolOf i) false = false)
    (hcb : t.cbLock = false) (k : Nat) :
    fuse cfg i (k + 3) t =
      some (cbDone cfg { t with cbIn := t.cbIn.set (cfg.poolOf i) true, cbLock := true
                                tasks := (t.tasks.set i .cbAcq).set i .cbBody } i) := by
  have hlt := getElem?_lt hi
  have h1 : step cfg t (.task i) =
      some { t with cbIn := t.cbIn.set (cfg.poolOf i) true, tasks := t.tasks.set i .cbAcq } := by
    have hin' : t.cbIn[cfg.poolOf i]?.getD false = false := by simpa [List.getD_eq_getElem?_getD] using hin
    simp [step, stepTask, hi, hin']
  simp only [fuse, hi, isCbPc, if_true, h1, Option.bind_some]
  exact fuse_acq hnc (t := { t with cbIn := t.cbIn.set (cfg.poolOf i) true, tasks := t.tasks.set i .cbAcq })
    (by show (t.tasks.set i Pc.cbAcq)[i]? = some Pc.cbAcq; simp [hlt]) hcb k

/-- `NCInv` after the callback section, from the facts about the state before it -/
theorem NCInv_cbDone {cfg : Cfg} {t : State} {i : Nat} (ts : List Pc)
    (hcbin : ∀ q, q ≠ cfg.poolOf i → t.cbIn.getD q false = false)
    (hown : (cfg.pool (cfg.poolOf i)).innerCb = false → t.cbIn.getD (cfg.poolOf i) false = false)
    (htasks : t.tasks.set i .bAcq = ts.set i .bAcq)
    (hgood : ∀ k p, ts[k]? = some p → goodPc cfg k p) : NCInv cfg (cbDone cfg t i) := by
  refine ⟨rfl, fun q => ?_, ?_⟩
  · simp only [cbDone]
    split
    · rw [getD_setB]
      split
      · rfl
      · rename_i hq
        by_cases e : q = cfg.poolOf i
        · subst e
          simp only [true_and, Nat.not_lt] at hq
          simp [List.getD_eq_getElem?_getD, List.getElem?_eq_none hq]
        · exact hcbin q e
    · rename_i hic
      by_cases e : q = cfg.poolOf i
      · subst e; exact hown (by simpa using hic)
      · exact hcbin q e
  · simp only [cbDone, htasks]
    exact good_set (good_plain (by simp) (by simp)) hgood

/-- the state after the tensor lock was taken -/
def entered (cfg : Cfg) (s : State) (i : Nat) : State :=
  { s with tLocks := s.tLocks.set (cfg.obj i) true, tasks := s.tasks.set i (afterT cfg (cfg.poolOf i)) }

/-- what a step of the writer without a callback does, per program counter -/
theorem stepNC_task {cfg : Cfg} (hnc : ncb cfg = true) {s : State} (hI : NCInv cfg s) (i : Nat) :
    (step cfg s (.task i) = none → stepNC cfg s (.task i) = none) ∧
    (∀ s1, step cfg s (.task i) = some s1 → ∃ s', stepNC cfg s (.task i) = some s' ∧ NCInv cfg s') := by
  cases hp : s.tasks[i]? with
  | none => simp [step, stepTask, stepNC, hp]
  | some p =>
    have hlt := getElem?_lt hp
    have other : p ≠ .tAcq → p ≠ .cbAcqIn → p ≠ .cbAcq → p ≠ .cbBody →
        stepNC cfg s (.task i) = step cfg s (.task i) := by
      intro h1 h2 h3 h4
      cases p <;> simp_all [stepNC]
    by_cases e1 : p = .tAcq
    · subst e1
      by_cases hlk : s.tLocks.getD (cfg.obj i) false = true
      · have : step cfg s (.task i) = none := by
          simp only [step, stepTask, hp, hlk, if_true]
        simp [stepNC, hp, this]
      · have hlk' : s.tLocks.getD (cfg.obj i) false = false := by simpa using hlk
        have hst : step cfg s (.task i) = some (entered cfg s i) := by
          simp only [step, stepTask, hp, hlk', entered]; rfl
        refine ⟨fun h => by rw [hst] at h; simp at h, fun s1 h1 => ?_⟩
        simp only [stepNC, hp, hst, Option.bind_some]
        by_cases hic : (cfg.pool (cfg.poolOf i)).innerCb = true
        · have ha : afterT cfg (cfg.poolOf i) = .cbAcqIn := by simp [afterT, hic]
          have hti : (entered cfg s i).tasks[i]? = some .cbAcqIn := by
            show (s.tasks.set i (afterT cfg (cfg.poolOf i)))[i]? = _
            rw [ha]; simp [hlt]
          split
          · refine ⟨_, rfl, hI.cb, hI.cbin, ?_⟩
            show ∀ k p, (s.tasks.set i (afterT cfg (cfg.poolOf i)))[k]? = some p → goodPc cfg k p
            rw [ha]
            exact good_set ⟨by simp, fun _ => hic⟩ hI.good
          · refine ⟨_, fuse_acqIn hnc (k := 0) hti (hI.cbin _) hI.cb, ?_⟩
            refine NCInv_cbDone s.tasks (fun q hq => ?_) (fun h => by rw [hic] at h; simp at h)
              (by simp [entered]) hI.good
            show ((entered cfg s i).cbIn.set (cfg.poolOf i) true).getD q false = false
            rw [getD_setB]; simp [hq]; exact hI.cbin q
        · have ha : afterT cfg (cfg.poolOf i) = .cbAcq := by simp [afterT, hic]
          have hti : (entered cfg s i).tasks[i]? = some .cbAcq := by
            show (s.tasks.set i (afterT cfg (cfg.poolOf i)))[i]? = _
            rw [ha]; simp [hlt]
          split
          · refine ⟨_, rfl, hI.cb, hI.cbin, ?_⟩
            show ∀ k p, (s.tasks.set i (afterT cfg (cfg.poolOf i)))[k]? = some p → goodPc cfg k p
            rw [ha]
            exact good_set (good_plain (by simp) (by simp)) hI.good
          · refine ⟨_, fuse_acq hnc (k := 1) hti hI.cb, ?_⟩
            exact NCInv_cbDone s.tasks (fun q _ => hI.cbin q) (fun _ => hI.cbin _) (by simp [entered]) hI.good
    · by_cases e2 : p = .cbAcqIn
      · subst e2
        have hic := (hI.good i _ hp).2 rfl
        have hf := fuse_acqIn hnc (k := 0) hp (hI.cbin _) hI.cb
        refine ⟨fun h => ?_, fun _ _ => ⟨_, by simp only [stepNC, hp]; exact hf, ?_⟩⟩
        · have hfree := hI.cbin (cfg.poolOf i)
          simp only [step, stepTask, hp, hfree] at h
          simp at h
        · refine NCInv_cbDone s.tasks (fun q hq => ?_) (fun h => by rw [hic] at h; simp at h)
            (by simp) hI.good
          simp only; rw [getD_setB]; simp [hq]; exact hI.cbin q
      · by_cases e3 : p = .cbAcq
        · subst e3
          have hf := fuse_acq hnc (k := 1) hp hI.cb
          refine ⟨fun h => ?_, fun _ _ => ⟨_, by simp only [stepNC, hp]; exact hf, ?_⟩⟩
          · simp only [step, stepTask, hp, hI.cb] at h
            simp at h
          · exact NCInv_cbDone s.tasks (fun q _ => hI.cbin q) (fun _ => hI.cbin _) (by simp) hI.good
        · have e4 : p ≠ .cbBody := (hI.good i p hp).1
          rw [other e1 e2 e3 e4]
          refine ⟨id, fun s1 h1 => ⟨s1, h1, ?_⟩⟩
          refine NCInv_step_other hI (stepRel_of_step h1) (fun k hk => ?_)
          cases hk
          rw [hp]
          exact ⟨by simpa using e1, by simpa using e2, by simpa using e3⟩

theorem stepNC_other {cfg : Cfg} {s : State} {l : Label} (hl : ∀ i, l ≠ .task i) :
    stepNC cfg s l = step cfg s l := by
  cases l with
  | task i => exact absurd rfl (hl i)
  | _ => rfl

theorem NCInv_stepNC {cfg : Cfg} (hnc : ncb cfg = true) {s s' : State} {l : Label}
    (hI : NCInv cfg s) (hst : stepNC cfg s l = some s') : NCInv cfg s' := by
  by_cases hl : ∃ i, l = .task i
  · obtain ⟨i, rfl⟩ := hl
    obtain ⟨h0, h1⟩ := stepNC_task hnc hI i
    cases hs : step cfg s (.task i) with
    | none => rw [h0 hs] at hst; simp at hst
    | some s1 =>
        obtain ⟨s'', e, hI'⟩ := h1 s1 hs
        rw [e] at hst; cases hst; exact hI'
  · have hl' : ∀ i, l ≠ .task i := fun i e => hl ⟨i, e⟩
    rw [stepNC_other hl'] at hst
    refine NCInv_step_other hI (stepRel_of_step hst) (fun i e => absurd e (hl' i))

theorem reachableNC_NCInv {cfg : Cfg} (hnc : ncb cfg = true) {s : State} (h : ReachableNC cfg s) :
    NCInv cfg s := by
  induction h with
  | init => exact NCInv_init cfg
  | step l _ hst ih => exact NCInv_stepNC hnc ih hst

/-- a label enabled in the model is enabled in the writer without a callback (and conversely) -/
theorem enabledNC_iff {cfg : Cfg} (hnc : ncb cfg = true) {s : State} (hI : NCInv cfg s) (l : Label) :
    (stepNC cfg s l).isSome = (step cfg s l).isSome := by
  by_cases hl : ∃ i, l = .task i
  · obtain ⟨i, rfl⟩ := hl
    obtain ⟨h0, h1⟩ := stepNC_task hnc hI i
    cases hs : step cfg s (.task i) with
    | none => rw [h0 hs]
    | some s1 => obtain ⟨s'', e, _⟩ := h1 s1 hs; rw [e]; rfl
  · rw [stepNC_other (fun i e => hl ⟨i, e⟩)]

end IrVerif.WriterN

/-
Lemmas/SemInputs.lean — rewriting graph input lists without changing the non-initializer inputs
(RemoveInitializersFromInputsPass, AddInitializersToInputsPass) preserves the denotation.
-/
import IrVerif.Model.Passes
import IrVerif.Lemmas.Sem
namespace IrVerif.Passes
open IrVerif.Sem
variable {Val : Type}

/-- the rewrite keeps the inputs a caller has to supply (count and order) -/
def KeepsFree (f : List VId → List VId → List VId) : Prop :=
  ∀ inputs ids, (f inputs ids).filter (fun v => !ids.contains v) = inputs.filter (fun v => !ids.contains v)

theorem keepsFree_remove : KeepsFree removeInitsFromInputs := by
  intro inputs ids
  simp [removeInitsFromInputs, List.filter_filter]

theorem keepsFree_add : KeepsFree addInitsToInputs := by
  intro inputs ids
  simp only [addInitsToInputs, List.filter_append, List.filter_filter]
  have : List.filter (fun a => (!ids.contains a) && !inputs.contains a) ids = [] := by
    apply List.filter_eq_nil_iff.2
    intro a ha
    simp [ha]
  rw [this, List.append_nil]

mutual
theorem mapInputsG_sound (I : Interp Val) (f : List VId → List VId → List VId) (hf : KeepsFree f) :
    ∀ (g : Graph) (ρ : Env Val), evalG I (mapInputsG f g) ρ = evalG I g ρ
  | .mk inputs outputs inits nodes, ρ => by
    funext xs
    simp only [mapInputsG, evalG, hf inputs (inits.map Prod.fst)]
    apply List.map_congr_left
    intro v _
    exact mapInputsNodes_sound I f hf nodes _ v
theorem mapInputsNodes_sound (I : Interp Val) (f : List VId → List VId → List VId) (hf : KeepsFree f) :
    ∀ (ns : List Node) (ρ : Env Val) (v : VId),
    evalNodes I (mapInputsNodes f ns) ρ v = evalNodes I ns ρ v
  | [], _, _ => by simp [mapInputsNodes]
  | n :: ns, ρ, v => by
    simp only [mapInputsNodes, evalNodes]
    rw [mapInputsN_sound I f hf n ρ]
    exact mapInputsNodes_sound I f hf ns _ v
theorem mapInputsN_sound (I : Interp Val) (f : List VId → List VId → List VId) (hf : KeepsFree f) :
    ∀ (n : Node) (ρ : Env Val), evalN I (mapInputsN f n) ρ = evalN I n ρ
  | .mk op attrs ins outs bodies, ρ => by
    simp only [mapInputsN, evalN, mapInputsBodies_sound I f hf bodies ρ]
theorem mapInputsBodies_sound (I : Interp Val) (f : List VId → List VId → List VId) (hf : KeepsFree f) :
    ∀ (bs : List Graph) (ρ : Env Val), evalBodies I (mapInputsBodies f bs) ρ = evalBodies I bs ρ
  | [], _ => by simp [mapInputsBodies, evalBodies]
  | b :: bs, ρ => by
    simp only [mapInputsBodies, evalBodies, mapInputsG_sound I f hf b ρ, mapInputsBodies_sound I f hf bs ρ]
end

end IrVerif.Passes

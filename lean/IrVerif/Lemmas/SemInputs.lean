/-
Lemmas/SemInputs.lean — rewriting graph input lists without changing the non-initializer inputs
(RemoveInitializersFromInputsPass, AddInitializersToInputsPass) preserves the denotation.
-/
import IrVerif.Model.Passes
import IrVerif.Lemmas.Sem
namespace IrVerif.Passes
open IrVerif.Sem
variable {Val : Type}

/-- the rewrite keeps the inputs a caller has to supply (count and order) -/
def KeepsFree (f : List VId → List VId → List VId) : Prop :=
  ∀ inputs ids, (f inputs ids).filter (fun v => !ids.contains v) = inputs.filter (fun v => !ids.contains v)

theorem keepsFree_remove : KeepsFree removeInitsFromInputs := by
  intro inputs ids
  simp [removeInitsFromInputs, List.filter_filter]

theorem keepsFree_add : KeepsFree addInitsToInputs := by
  intro inputs ids
  simp only [addInitsToInputs, List.filter_append, List.filter_filter]
  have : List.filter (fun a => (!ids.contains a) && !inputs.contains a) ids = [] := by
    apply List.filter_eq_nil_iff.2
    intro a ha
    simp [ha]
  rw [this, List.append_nil]

theorem mapInputsTop_sound (I : Interp Val) (f : List VId → List VId → List VId) (hf : KeepsFree f) :
    ∀ (g : Graph) (ρ : Env Val), evalG I (mapInputsTop f g) ρ = evalG I g ρ
  | .mk inputs outputs inits nodes, ρ => by
    funext xs
    simp only [mapInputsTop, evalG, hf inputs (inits.map Prod.fst)]

end IrVerif.Passes

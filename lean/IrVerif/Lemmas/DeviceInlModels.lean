/-
C19 — the complete `InlinePass` (`Model/DeviceInl.lean`): every model of the world is still `ModelOK` after
the pass.

`inlineCall` appends the nodes it creates to the flat list of EVERY model that owns the graph being edited, not
only to model `m`; a created node carries configurations registered on `m`.  So the statement needs: what is
registered on `m` is registered on every model of the world (`hsub`; trivial for a world with one model).
Without it the statement is false (two models sharing the main graph, the second without registrations).

The invariant `MJ` is threaded through the same functions as `WJ` (`Lemmas/DeviceInlPass.lean`): the
registrations of every model are unchanged and every node listed by a model exists.
-/
import IrVerif.Lemmas.DeviceInlAxes
namespace IrVerif.Device

/-- the registrations of every model are `L` (in order), every node a model lists exists -/
structure MJ (L : List (List CId)) (w : World) : Prop where
  hcf : w.models.map (·.cfgs) = L
  hin : ∀ ms ∈ w.models, ∀ n ∈ ms.nodes, n < w.nodes.length

/-- the heap of nodes does not shrink, the models are untouched -/
theorem MJ.step {L : List (List CId)} {w w' : World} (h : MJ L w)
    (hlen : w.nodes.length ≤ w'.nodes.length) (hm : w'.models = w.models) : MJ L w' := by
  refine ⟨by rw [hm]; exact h.hcf, ?_⟩
  intro ms hms n hn
  rw [hm] at hms
  exact Nat.lt_of_lt_of_le (h.hin ms hms n hn) hlen

/-- the flat lists of the models rewritten: registrations kept, every listed node old or existing -/
theorem MJ.mapModels {L : List (List CId)} {w w' : World} (h : MJ L w) (f : ModelS → ModelS)
    (hf : ∀ x, (f x).cfgs = x.cfgs)
    (hlen : w.nodes.length ≤ w'.nodes.length) (hm : w'.models = w.models.map f)
    (hnodes : ∀ x, ∀ n ∈ (f x).nodes, n ∈ x.nodes ∨ n < w'.nodes.length) : MJ L w' := by
  refine ⟨?_, ?_⟩
  · rw [hm, List.map_map, ← h.hcf]
    apply List.map_congr_left
    intro x _
    exact hf x
  · intro ms hms n hn
    rw [hm, List.mem_map] at hms
    obtain ⟨x, hx, rfl⟩ := hms
    rcases hnodes x n hn with h1 | h1
    · exact Nat.lt_of_lt_of_le (h.hin x hx n h1) hlen
    · exact h1

/-- the invariant of a cloner / forwarding state: `MJ` and every recorded new node exists -/
def MJn (L : List (List CId)) (w : World) (nn : List NId) : Prop :=
  MJ L w ∧ ∀ n ∈ nn, n < w.nodes.length

theorem rauwAll_len : ∀ (pairs : List (VId × VId)) (w : World),
    (rauwAll w pairs).nodes.length = w.nodes.length ∧ (rauwAll w pairs).models = w.models := by
  intro pairs
  induction pairs with
  | nil => intro w; exact ⟨rfl, rfl⟩
  | cons p rest ih =>
    intro w
    obtain ⟨old, new⟩ := p
    simp only [rauwAll]
    obtain ⟨a, b⟩ := ih { w with nodes := w.nodes.map (rauwNode old new) }
    refine ⟨?_, b⟩
    rw [a]
    simp

/-! ### the inliner's cloner -/

def RecOKm (L : List (List CId)) (rec : ICl → GId → Option (ICl × GId)) : Prop :=
  ∀ st g st' g', rec st g = some (st', g') → MJn L st.w st.newNodes → MJn L st'.w st'.newNodes

theorem cloneOrGetO_MJ {L : List (List CId)} {st st' : ICl} {v : VId}
    (hc : cloneOrGetO st v = some st') (h : MJn L st.w st.newNodes) : MJn L st'.w st'.newNodes := by
  unfold cloneOrGetO at hc
  split at hc
  · cases hc; exact h
  · cases hc
  · simp only [Option.some.injEq] at hc
    subst hc
    exact ⟨h.1.step (Nat.le_refl _) rfl, h.2⟩

theorem cloneValsO_MJ {L : List (List CId)} : ∀ (vs : List VId) (st st' : ICl),
    cloneValsO st vs = some st' → MJn L st.w st.newNodes → MJn L st'.w st'.newNodes := by
  intro vs
  induction vs with
  | nil => intro st st' hc h; simp only [cloneValsO, Option.some.injEq] at hc; subst hc; exact h
  | cons v rest ih =>
    intro st st' hc h
    simp only [cloneValsO] at hc
    cases h1 : cloneOrGetO st v with
    | none => simp [h1] at hc
    | some st1 =>
      simp only [h1] at hc
      exact ih st1 st' hc (cloneOrGetO_MJ h1 h)

theorem cloneSubgraphsO_MJ {L : List (List CId)} {rec : ICl → GId → Option (ICl × GId)}
    (hrec : RecOKm L rec) : ∀ (gs : List GId) (st st' : ICl) (subs : List GId),
    cloneSubgraphsO rec st gs = some (st', subs) → MJn L st.w st.newNodes → MJn L st'.w st'.newNodes := by
  intro gs
  induction gs with
  | nil =>
    intro st st' subs hc h
    simp only [cloneSubgraphsO, Option.some.injEq, Prod.mk.injEq] at hc
    obtain ⟨rfl, _⟩ := hc
    exact h
  | cons g rest ih =>
    intro st st' subs hc h
    simp only [cloneSubgraphsO] at hc
    cases hr : rec st g with
    | none => simp [hr] at hc
    | some r =>
      obtain ⟨st1, g1⟩ := r
      simp only [hr] at hc
      cases hr2 : cloneSubgraphsO rec st1 rest with
      | none => simp [hr2] at hc
      | some r2 =>
        obtain ⟨st2, subs2⟩ := r2
        simp only [hr2, Option.map_some, Option.some.injEq, Prod.mk.injEq] at hc
        obtain ⟨rfl, _⟩ := hc
        exact ih st1 st2 subs2 hr2 (hrec st g st1 g1 hr h)

theorem cloneNodeO_MJ {L : List (List CId)} {rec : ICl → GId → Option (ICl × GId)}
    (hrec : RecOKm L rec) {st st' : ICl} {n k : NId}
    (hc : cloneNodeO rec st n = some (st', k)) (h : MJn L st.w st.newNodes) : MJn L st'.w st'.newNodes := by
  unfold cloneNodeO at hc
  simp only at hc
  cases hci : cloneInputsO st.vm (st.w.node n).inputs with
  | none => simp [hci] at hc
  | some ins =>
    simp only [hci] at hc
    cases hs : cloneSubgraphsO rec st (st.w.node n).subgraphs with
    | none => simp [hs] at hc
    | some r =>
      obtain ⟨st1, subs⟩ := r
      simp only [hs] at hc
      split at hc
      · cases hc
      · simp only [Option.some.injEq, Prod.mk.injEq] at hc
        obtain ⟨rfl, _⟩ := hc
        have h1 := cloneSubgraphsO_MJ hrec _ _ _ _ hs h
        obtain ⟨a, _, c, _⟩ := renameOuts_same (cnOuts st1.w (st.w.node n))
          (cnWorld st1.w (st.w.node n) ins st1.vm subs, st1.used)
        have hl : (renameOuts (cnWorld st1.w (st.w.node n) ins st1.vm subs, st1.used)
            (cnOuts st1.w (st.w.node n))).1.nodes.length = st1.w.nodes.length + 1 := by
          rw [a]; simp [cnWorld]
        refine ⟨h1.1.step (by rw [hl]; omega) (by rw [c]; rfl), ?_⟩
        intro x hx
        have hx' : x ∈ st1.newNodes ++ [st1.w.nodes.length] := hx
        rw [List.mem_append, List.mem_singleton] at hx'
        show x < (renameOuts (cnWorld st1.w (st.w.node n) ins st1.vm subs, st1.used)
            (cnOuts st1.w (st.w.node n))).1.nodes.length
        rw [hl]
        rcases hx' with hx' | hx'
        · exact Nat.lt_succ_of_lt (h1.2 x hx')
        · rw [hx']; exact Nat.lt_succ_self _

theorem cloneNodesO_MJ {L : List (List CId)} {rec : ICl → GId → Option (ICl × GId)}
    (hrec : RecOKm L rec) : ∀ (ns : List NId) (st st' : ICl) (acc res : List NId),
    cloneNodesO rec st ns acc = some (st', res) → MJn L st.w st.newNodes → MJn L st'.w st'.newNodes := by
  intro ns
  induction ns with
  | nil =>
    intro st st' acc res hc h
    simp only [cloneNodesO, Option.some.injEq, Prod.mk.injEq] at hc
    obtain ⟨rfl, _⟩ := hc
    exact h
  | cons n rest ih =>
    intro st st' acc res hc h
    simp only [cloneNodesO] at hc
    cases h1 : cloneNodeO rec st n with
    | none => simp [h1] at hc
    | some r =>
      obtain ⟨st1, k⟩ := r
      simp only [h1] at hc
      exact ih st1 st' _ res hc (cloneNodeO_MJ hrec h1 h)

theorem cloneGraphBodyO_MJ {L : List (List CId)} {rec : ICl → GId → Option (ICl × GId)}
    (hrec : RecOKm L rec) {st st' : ICl} {g g' : GId}
    (hc : cloneGraphBodyO rec st g = some (st', g')) (h : MJn L st.w st.newNodes) :
    MJn L st'.w st'.newNodes := by
  unfold cloneGraphBodyO at hc
  simp only at hc
  cases h0 : cloneValsO st ((st.w.graph g).inputs ++ (st.w.graph g).inits) with
  | none => simp [h0] at hc
  | some st0 =>
    simp only [h0] at hc
    cases h1 : cloneNodesO rec st0 (st.w.graph g).nodes [] with
    | none => simp [h1] at hc
    | some r =>
      obtain ⟨st2, ns⟩ := r
      simp only [h1] at hc
      cases h2 : optAll ((st2.t.outsOf g).map (oget st2.vm)) with
      | none => simp [h2] at hc
      | some outs' =>
        simp only [h2, Option.some.injEq, Prod.mk.injEq] at hc
        obtain ⟨rfl, _⟩ := hc
        have := cloneNodesO_MJ hrec _ _ _ _ _ h1 (cloneValsO_MJ _ _ _ h0 h)
        exact ⟨this.1.step (Nat.le_refl _) rfl, this.2⟩

theorem cloneGraphOF_MJ (L : List (List CId)) : ∀ (f : Nat), RecOKm L (cloneGraphOF f) := by
  intro f
  induction f with
  | zero => intro st g st' g' hc _; simp [cloneGraphOF] at hc
  | succ f ih =>
    intro st g st' g' hc h
    simp only [cloneGraphOF] at hc
    exact cloneGraphBodyO_MJ ih hc h

theorem fwdOutsO_MJ {L : List (List CId)} (vm : OMap) : ∀ (outs : List VId) (st st' : Fwd),
    fwdOutsO vm st outs = some st' → MJn L st.w st.nodes →
    MJn L st'.w st'.nodes ∧ st.w.nodes.length ≤ st'.w.nodes.length := by
  intro outs
  induction outs with
  | nil =>
    intro st st' hc h; simp only [fwdOutsO, Option.some.injEq] at hc; subst hc
    exact ⟨h, Nat.le_refl _⟩
  | cons o rest ih =>
    intro st st' hc h
    simp only [fwdOutsO] at hc
    cases hv : oget vm o with
    | none => simp [hv] at hc
    | some val =>
      simp only [hv] at hc
      split at hc
      · exact ih { st with outvals := st.outvals ++ [val] } _ hc h
      · obtain ⟨a, _, c, _⟩ := renameOuts_same [st.w.values.length] ({ st.w with
            values := st.w.values ++ [({ name := (st.w.value o).name, shape := (st.w.value val).shape } : ValueS)],
            nodes := st.w.nodes ++ [{ inputs := [some val], outputs := [st.w.values.length], dev := [], subgraphs := [] }] },
            st.used)
        have hl : (renameOuts ({ st.w with
            values := st.w.values ++ [({ name := (st.w.value o).name, shape := (st.w.value val).shape } : ValueS)],
            nodes := st.w.nodes ++ [{ inputs := [some val], outputs := [st.w.values.length], dev := [], subgraphs := [] }] },
            st.used) [st.w.values.length]).1.nodes.length = st.w.nodes.length + 1 := by
          rw [a]; simp
        have := ih _ _ hc ?_
        · refine ⟨this.1, Nat.le_trans ?_ this.2⟩
          show st.w.nodes.length ≤ _
          rw [hl]; omega
        · refine ⟨h.1.step (by rw [hl]; omega) (by rw [c]), ?_⟩
          intro x hx
          have hx' : x ∈ st.nodes ++ [st.w.nodes.length] := hx
          rw [List.mem_append, List.mem_singleton] at hx'
          show x < _
          rw [hl]
          rcases hx' with hx' | hx'
          · exact Nat.lt_succ_of_lt (h.2 x hx')
          · rw [hx']; exact Nat.lt_succ_self _

theorem removeNode_MJ {L : List (List CId)} {w : World} (h : MJ L w)
    (g : GId) (n : NId) (safe : Bool) : MJ L (removeNode w g n safe).1 := by
  unfold removeNode
  simp only
  split
  · exact h
  · split
    · exact h
    · refine MJ.mapModels h _ ?_ ?_ rfl ?_
      · intro x; split <;> rfl
      · simp [World.setNode, World.setGraph]
      · intro x k hk
        left
        split at hk
        · exact (List.mem_filter.mp hk).1
        · exact hk

/-! ### the pass -/

theorem inlineCall_MJ {L : List (List CId)} {fuel : Nat} {st st' : IState} {g : GId} {c : NId}
    {f : GId} {tops : List NId} (hc : inlineCall fuel st g c f = some (st', tops)) (h : MJ L st.w) :
    MJ L st'.w := by
  unfold inlineCall at hc
  simp only at hc
  split at hc
  · cases hc
  split at hc
  · cases hc
  cases h1 : cloneNodesO (cloneGraphOF fuel)
      { w := st.w, t := st.t, vm := (zipPadO (st.w.graph f).inputs (st.w.node c).inputs).reverse, used := st.used,
        subst := st.subst ++ (st.w.node c).inputs.filterMap id } (st.w.graph f).nodes [] with
  | none => simp [h1] at hc
  | some r =>
    obtain ⟨cl, tops0⟩ := r
    simp only [h1] at hc
    have hcl : MJn L cl.w cl.newNodes :=
      cloneNodesO_MJ (cloneGraphOF_MJ L fuel) _ _ _ _ _ h1 ⟨h, by intro x hx; simp at hx⟩
    cases h2 : fwdOutsO cl.vm (Fwd.mk cl.w cl.used ((tops0.map (fun k => (cl.w.node k).outputs)).flatten) [] [])
        (cl.t.outsOf f) with
    | none => simp [h2] at hc
    | some fw =>
      simp only [h2] at hc
      obtain ⟨hfw, hle⟩ := fwdOutsO_MJ (L := L) _ _ _ _ h2 ⟨hcl.1, by intro x hx; simp at hx⟩
      have hle : cl.w.nodes.length ≤ fw.w.nodes.length := hle
      split at hc
      · cases hc
      generalize hr : removeNode _ g c true = r at hc
      obtain ⟨w4, res⟩ := r
      cases res with
      | raised => simp at hc
      | ok =>
        simp only [Option.some.injEq, Prod.mk.injEq] at hc
        obtain ⟨rfl, _⟩ := hc
        have hw4 : w4 = (w4, Res.ok).1 := rfl
        rw [hw4, ← hr]
        apply removeNode_MJ
        obtain ⟨a, _, c', _⟩ := copyInfo_same ((st.w.node c).outputs.zip fw.outvals) fw.w
        obtain ⟨ra, rb⟩ := rauwAll_len ((st.w.node c).outputs.zip fw.outvals)
          (copyInfo fw.w ((st.w.node c).outputs.zip fw.outvals))
        have hlen2 : (rauwAll (copyInfo fw.w ((st.w.node c).outputs.zip fw.outvals))
            ((st.w.node c).outputs.zip fw.outvals)).nodes.length = fw.w.nodes.length := by
          rw [ra, a]
        have h3 : MJ L (rauwAll (copyInfo fw.w ((st.w.node c).outputs.zip fw.outvals))
            ((st.w.node c).outputs.zip fw.outvals)) :=
          hfw.1.step (by rw [hlen2]; exact Nat.le_refl _) (by rw [rb, c'])
        refine MJ.mapModels h3 _ ?_ ?_ rfl ?_
        · intro x; split <;> rfl
        · exact Nat.le_refl _
        · intro x k hk
          split at hk
          · have hk' : k ∈ x.nodes ++ (cl.newNodes ++ fw.nodes) := hk
            rw [List.mem_append, List.mem_append] at hk'
            rcases hk' with hk' | hk' | hk'
            · exact Or.inl hk'
            · right
              show k < (rauwAll (copyInfo fw.w ((st.w.node c).outputs.zip fw.outvals))
                ((st.w.node c).outputs.zip fw.outvals)).nodes.length
              rw [hlen2]
              exact Nat.lt_of_lt_of_le (hcl.2 k hk') hle
            · right
              show k < (rauwAll (copyInfo fw.w ((st.w.node c).outputs.zip fw.outvals))
                ((st.w.node c).outputs.zip fw.outvals)).nodes.length
              rw [hlen2]
              exact hfw.2 k hk'
          · exact Or.inl hk

def RecOKj (L : List (List CId)) (rec : IState → GId → Option IState) : Prop :=
  ∀ st g st', rec st g = some st' → MJ L st.w → MJ L st'.w

theorem inlSubs_MJ {L : List (List CId)} {rec : IState → GId → Option IState}
    (hrec : RecOKj L rec) : ∀ (gs : List GId) (st st' : IState),
    inlSubs rec st gs = some st' → MJ L st.w → MJ L st'.w := by
  intro gs
  induction gs with
  | nil => intro st st' hc h; simp only [inlSubs, Option.some.injEq] at hc; subst hc; exact h
  | cons g rest ih =>
    intro st st' hc h
    simp only [inlSubs] at hc
    cases h1 : rec st g with
    | none => simp [h1] at hc
    | some st1 =>
      simp only [h1] at hc
      exact ih st1 st' hc (hrec st g st1 h1 h)

theorem inlNodes_MJ {L : List (List CId)} {rec : IState → GId → Option IState}
    (hrec : RecOKj L rec) (fuel : Nat) (g : GId) : ∀ (k : Nat) (st st' : IState) (ns : List NId),
    inlNodes rec fuel g k st ns = some st' → MJ L st.w → MJ L st'.w := by
  intro k
  induction k with
  | zero => intro st st' ns hc _; simp [inlNodes] at hc
  | succ k ih =>
    intro st st' ns hc h
    cases ns with
    | nil => simp only [inlNodes, Option.some.injEq] at hc; subst hc; exact h
    | cons n rest =>
      simp only [inlNodes] at hc
      cases hcal : st.t.calleeOf n with
      | some f =>
        simp only [hcal] at hc
        cases h1 : inlineCall fuel st g n f with
        | none => simp [h1] at hc
        | some r =>
          obtain ⟨st1, tops⟩ := r
          simp only [h1] at hc
          exact ih st1 st' _ hc (inlineCall_MJ h1 h)
      | none =>
        simp only [hcal] at hc
        cases h1 : inlSubs rec st (st.w.node n).subgraphs with
        | none => simp [h1] at hc
        | some st1 =>
          simp only [h1] at hc
          exact ih st1 st' _ hc (inlSubs_MJ hrec _ _ _ h1 h)

theorem inlGraphF_MJ (L : List (List CId)) (fuel : Nat) : ∀ (d : Nat), RecOKj L (inlGraphF fuel d) := by
  intro d
  induction d with
  | zero => intro st g st' hc _; simp [inlGraphF] at hc
  | succ d ih =>
    intro st g st' hc h
    simp only [inlGraphF] at hc
    exact inlNodes_MJ ih fuel g fuel _ _ _ hc h

theorem inlFuncs_MJ {L : List (List CId)} (fuel : Nat) : ∀ (fs : List GId) (st st' : IState),
    inlFuncs fuel st fs = some st' → MJ L st.w → MJ L st'.w := by
  intro fs
  induction fs with
  | nil => intro st st' hc h; simp only [inlFuncs, Option.some.injEq] at hc; subst hc; exact h
  | cons f rest ih =>
    intro st st' hc h
    simp only [inlFuncs] at hc
    split at hc
    · exact ih st st' hc h
    · cases h1 : inlGraphF fuel fuel st f with
      | none => simp [h1] at hc
      | some st1 =>
        simp only [h1] at hc
        exact ih st1 st' hc (inlGraphF_MJ L fuel fuel st f st1 h1 h)

theorem map_cfgs_set (ms : List ModelS) (m : MId) (x : ModelS) (hx : x.cfgs = (ms.getD m {}).cfgs) :
    (ms.set m x).map (·.cfgs) = ms.map (·.cfgs) := by
  apply List.ext_getElem?
  intro i
  simp only [List.getElem?_map, List.getElem?_set]
  by_cases hi : m = i
  · subst hi
    by_cases hm : m < ms.length
    · simp [hm, hx, List.getD_eq_getElem?_getD]
    · simp [hm]
  · simp [hi]

theorem dropFuncs_MJ {L : List (List CId)} {m : MId} {w : World} (h : MJ L w) (inl : List GId) :
    MJ L (dropFuncs w m inl) := by
  unfold dropFuncs
  simp only [World.setModel]
  refine ⟨?_, ?_⟩
  · show (w.models.set m _).map (·.cfgs) = L
    refine Eq.trans (map_cfgs_set w.models m _ ?_) h.hcf
    rfl
  · intro ms hms n hn
    show n < w.nodes.length
    have hms' : ms ∈ w.models.set m _ := hms
    rcases List.mem_or_eq_of_mem_set hms' with h1 | h1
    · exact h.hin ms h1 n hn
    · subst h1
      have hn' := (List.mem_filter.mp hn).1
      rcases model_mem_or_default w m with h2 | h2
      · exact h.hin _ h2 n hn'
      · rw [h2] at hn'; simp at hn'

/-- `inlinePass` keeps the invariant -/
theorem inlinePass_MJ {L : List (List CId)} {m : MId} {fuel : Nat} {w : World} {t : ITab} {r : IOut}
    (hc : inlinePass fuel w m t = some r) (h : MJ L w) : MJ L r.w := by
  unfold inlinePass at hc
  simp only at hc
  cases h1 : inlGraphF fuel fuel { w := w, t := t } (w.model m).graph with
  | none => simp [h1] at hc
  | some st1 =>
    simp only [h1] at hc
    cases h2 : inlFuncs fuel st1 (w.model m).funcs with
    | none => simp [h2] at hc
    | some st2 =>
      simp only [h2, Option.some.injEq] at hc
      subst hc
      exact dropFuncs_MJ (inlFuncs_MJ fuel _ _ _ h2 (inlGraphF_MJ L fuel fuel _ _ _ h1 h)) _

theorem MJ_of_DevOK {w : World} (h : DevOK w) : MJ (w.models.map (·.cfgs)) w :=
  ⟨rfl, fun ms hms n hn => ((h.2 ms hms).1 n hn).1⟩

/-- what is registered on model `m` is registered on every model of the world -/
def RegShared (w : World) (m : MId) : Prop :=
  ∀ ms ∈ w.models, ∀ c ∈ (w.model m).cfgs, c ∈ ms.cfgs

instance (w : World) (m : MId) : Decidable (RegShared w m) := by unfold RegShared; infer_instance

/-- a world with at most one model satisfies `RegShared` -/
theorem RegShared_of_single (w : World) (m : MId) (h1 : w.models.length ≤ 1) : RegShared w m := by
  intro ms hms c hc
  rcases model_mem_or_default w m with h2 | h2
  · match hw : w.models, h1, hms, h2 with
    | [x], _, hms, h2 =>
      simp only [List.mem_singleton] at hms h2
      rw [hms, ← h2]; exact hc
    | [], _, hms, _ => simp at hms
  · rw [h2] at hc; simp at hc

/-- **after the pass every model of the world is still `ModelOK`**, provided the registrations of `m` are
    shared by every model (false without: `inlineCall` lists the created nodes on every model owning the graph) -/
theorem inlinePass_models {w : World} (h : DevOK w) (m : MId) (hreg : HeapReg w m) (hsub : RegShared w m)
    (t : ITab) (fuel : Nat) (r : IOut) (hr : inlinePass fuel w m t = some r) :
    ∀ ms ∈ r.w.models, ModelOK r.w ms := by
  have hj := inlinePass_WJ hr (WJ_of_DevOK h m hreg)
  have hm := inlinePass_MJ hr (MJ_of_DevOK h)
  intro ms hms
  have hc : ms.cfgs ∈ r.w.models.map (·.cfgs) := List.mem_map.mpr ⟨ms, hms, rfl⟩
  rw [hm.hcf, List.mem_map] at hc
  obtain ⟨ms0, hms0, he⟩ := hc
  obtain ⟨_, b0, c0⟩ := h.2 ms0 hms0
  have hcfg : ∀ c, r.w.cfg c = w.cfg c := by intro c; simp only [World.cfg, hj.hcfgs]
  refine ⟨?_, ?_, ?_⟩
  · intro n hn
    refine ⟨hm.hin ms hms n hn, ?_⟩
    intro nc hnc
    rw [← he]
    exact hsub ms0 hms0 _ ((hj.node n).2 nc hnc).1
  · intro c hc
    rw [← he] at hc
    rw [hj.hcfgs, hcfg]
    exact b0 c hc
  · rw [← he]
    simp only [hcfg]
    exact c0

/-- the one-model case -/
theorem inlinePass_models_single {w : World} (h : DevOK w) (m : MId) (hreg : HeapReg w m)
    (h1 : w.models.length ≤ 1) (t : ITab) (fuel : Nat) (r : IOut) (hr : inlinePass fuel w m t = some r) :
    ∀ ms ∈ r.w.models, ModelOK r.w ms :=
  inlinePass_models h m hreg (RegShared_of_single w m h1) t fuel r hr

end IrVerif.Device

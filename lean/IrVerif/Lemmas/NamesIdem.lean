/-
C15 part B: on a world that already satisfies the postcondition the pass changes nothing.
-/
import IrVerif.Lemmas.NamesNodes
namespace IrVerif.Names

/-- pairwise different, truthy names on a list of ids -/
structure InjT (f : Nat → Option String) (L : List Nat) : Prop where
  inj : ∀ a ∈ L, ∀ b ∈ L, a ≠ b → f a ≠ f b
  named : ∀ a ∈ L, truthy (f a) = true

theorem InjT.mono {f : Nat → Option String} {L L' : List Nat} (h : InjT f L) (sub : ∀ x ∈ L', x ∈ L) : InjT f L' :=
  ⟨fun a ha b hb => h.inj a (sub a ha) b (sub b hb), fun a ha => h.named a (sub a ha)⟩

theorem bodyVis_sub : ∀ (t : Tr) (V : List Nat), ∀ x ∈ V, x ∈ bodyVis t V := by
  intro t
  induction t with
  | nil => intro V x h; exact h
  | node n ins outs subs rest ihs ihr =>
    intro V x h
    simp only [bodyVis]
    exact ihr _ x (ihs _ x (List.mem_append_left _ h))
  | graph g isG ins outs body rest _ ihr =>
    intro V x h
    simp only [bodyVis]
    exact ihr _ x h

/-- the value side of a state in which nothing needs fixing -/
structure SGood (w : World) (st : FixSt) (V : List Nat) : Prop where
  world : st.toWorld = w
  nr : st.raised = false
  top_iff : ∀ s, s ∈ topOf st.vstack ↔ ∃ u ∈ V, w.vname u = some s
  seen : ∀ u ∈ V, u ∈ st.seen

/-- everything the stable run keeps -/
structure Same (st st' : FixSt) : Prop where
  world : st'.toWorld = st.toWorld
  modified : st'.modified = st.modified
  raised : st'.raised = st.raised

theorem Same.refl (st : FixSt) : Same st st := ⟨rfl, rfl, rfl⟩
theorem Same.trans {a b c : FixSt} (h1 : Same a b) (h2 : Same b c) : Same a c :=
  ⟨h2.world.trans h1.world, h2.modified.trans h1.modified, h2.raised.trans h1.raised⟩

theorem processValue_stable {w : World} {st : FixSt} {V : List Nat} (good : SGood w st V) (v : Nat)
    (hsc : v ∈ st.seen → v ∈ V) (hinj : InjT w.vname (V ++ [v])) :
    Same st (processValue st v) ∧ SGood w (processValue st v) (V ++ [v])
    ∧ (∀ x, x ∈ (processValue st v).seen ↔ (x ∈ st.seen ∨ x = v))
    ∧ (processValue st v).vstack.tail = st.vstack.tail := by
  have hw : st.vname = w.vname := by rw [← good.world]
  unfold processValue
  rw [if_neg (by simp [good.nr])]
  by_cases hv : v ∈ st.seen
  · have : st.seen.contains v = true := by simpa using hv
    rw [if_pos this]
    refine ⟨Same.refl st, ⟨good.world, good.nr, ?_, ?_⟩, fun x => ⟨Or.inl, fun h => h.elim id (fun e => e ▸ hv)⟩, rfl⟩
    · intro s; rw [good.top_iff s]
      simp only [List.mem_append, List.mem_singleton]
      exact ⟨fun ⟨u, hu, hs⟩ => ⟨u, Or.inl hu, hs⟩, fun ⟨u, hu, hs⟩ => ⟨u, hu.elim id (fun e => e ▸ hsc hv), hs⟩⟩
    · intro u hu
      simp only [List.mem_append, List.mem_singleton] at hu
      exact hu.elim (good.seen u) (fun e => e ▸ hv)
  · have : st.seen.contains v = false := by simpa using hv
    rw [if_neg (by simp [hv])]
    have hvV : v ∉ V := fun h => hv (good.seen v h)
    have ht : truthy (st.vname v) = true := by rw [hw]; exact hinj.named v (by simp)
    obtain ⟨s, hs, hsne⟩ := truthy_iff.mp ht
    have hnot : s ∉ topOf st.vstack := by
      intro hin
      obtain ⟨u, hu, hus⟩ := (good.top_iff s).mp hin
      have : u ≠ v := fun e => hvV (e ▸ hu)
      exact hinj.inj u (by simp [hu]) v (by simp) this (by rw [hus, ← hw, hs])
    have hc : (topOf st.vstack).contains s = false := by simpa using hnot
    rw [if_neg (by simp [ht])]
    simp only [hs, Option.getD_some, hc, Bool.not_false, if_true]
    refine ⟨⟨rfl, rfl, rfl⟩, ⟨good.world, good.nr, ?_, ?_⟩, ?_, by rw [pushTop_eq]; rfl⟩
    · intro s'
      rw [pushTop_eq]
      show s' ∈ s :: topOf st.vstack ↔ _
      rw [List.mem_cons, good.top_iff s']
      simp only [List.mem_append, List.mem_singleton]
      constructor
      · rintro (rfl | ⟨u, hu, h⟩)
        · exact ⟨v, Or.inr rfl, by rw [← hw, hs]⟩
        · exact ⟨u, Or.inl hu, h⟩
      · rintro ⟨u, hu | rfl, h⟩
        · exact Or.inr ⟨u, hu, h⟩
        · rw [← hw, hs] at h; exact Or.inl (Option.some.inj h).symm
    · intro u hu
      simp only [List.mem_append, List.mem_singleton] at hu
      show u ∈ v :: st.seen
      exact hu.elim (fun h => List.mem_cons_of_mem _ (good.seen u h)) (fun e => e ▸ List.mem_cons_self)
    · intro x
      show x ∈ v :: st.seen ↔ _
      rw [List.mem_cons]; exact ⟨fun h => h.elim Or.inr Or.inl, fun h => h.elim Or.inr Or.inl⟩

theorem processValues_stable {w : World} : ∀ (vs : List Nat) {st : FixSt} {V S : List Nat}, SGood w st V →
    (∀ x, x ∈ st.seen ↔ x ∈ S) → (∀ v ∈ vs, v ∈ S → v ∈ V) → InjT w.vname (V ++ vs) →
    Same st (processValues st vs) ∧ SGood w (processValues st vs) (V ++ vs)
    ∧ (∀ x, x ∈ (processValues st vs).seen ↔ x ∈ S ++ vs)
    ∧ (processValues st vs).vstack.tail = st.vstack.tail
  | [], st, V, S, good, hS, _, _ => by
    simp only [processValues, List.foldl_nil, List.append_nil]
    exact ⟨Same.refl st, good, hS, trivial⟩
  | v :: vs, st, V, S, good, hS, hsc, hinj => by
    obtain ⟨s1, g1, e1, t1⟩ := processValue_stable good v (fun h => hsc v List.mem_cons_self ((hS v).mp h))
      (hinj.mono (fun x hx => by
        simp only [List.mem_append, List.mem_singleton] at hx
        simp only [List.mem_append, List.mem_cons]
        exact hx.elim Or.inl (fun e => Or.inr (Or.inl e))))
    have hS1 : ∀ x, x ∈ (processValue st v).seen ↔ x ∈ S ++ [v] := by
      intro x; rw [e1 x, hS x]; simp
    obtain ⟨s2, g2, e2, t2⟩ := processValues_stable vs g1 hS1
      (fun u hu h => by
        simp only [List.mem_append, List.mem_singleton] at h ⊢
        exact h.elim (fun h => Or.inl (hsc u (List.mem_cons_of_mem _ hu) h)) Or.inr)
      (by simpa [List.append_assoc] using hinj)
    have e : processValues st (v :: vs) = processValues (processValue st v) vs := by simp [processValues]
    rw [e]
    refine ⟨s1.trans s2, by simpa [List.append_assoc] using g2, ?_, t2.trans t1⟩
    intro x; rw [e2 x]; simp [List.append_assoc]


/-- the node side: the innermost node-name set is the set of names of the nodes `N` visited in
this graph -/
def NTop (w : World) (st : FixSt) (N : List Nat) : Prop :=
  ∀ s, s ∈ topOf st.nstack ↔ ∃ n ∈ N, w.nname n = some s

theorem fixNodeName_stable {w : World} {st : FixSt} (hw : st.toWorld = w) (hnr : st.raised = false)
    {N : List Nat} (ntop : NTop w st N) {n : Nat} (hn : n ∉ N) (hinj : InjT w.nname (N ++ [n])) :
    ∃ s, fixNodeName st n = { st with nstack := pushTop st.nstack s } ∧ NTop w (fixNodeName st n) (N ++ [n]) := by
  have hwn : st.nname = w.nname := by rw [← hw]
  have ht : truthy (st.nname n) = true := by rw [hwn]; exact hinj.named n (by simp)
  obtain ⟨s, hs, hsne⟩ := truthy_iff.mp ht
  have hnot : s ∉ topOf st.nstack := by
    intro hin
    obtain ⟨m, hm, hms⟩ := (ntop s).mp hin
    have : m ≠ n := fun e => hn (e ▸ hm)
    exact hinj.inj m (by simp [hm]) n (by simp) this (by rw [hms, ← hwn, hs])
  have hc : (topOf st.nstack).contains s = false := by simpa using hnot
  have e : fixNodeName st n = { st with nstack := pushTop st.nstack s } := by
    unfold fixNodeName
    rw [if_neg (by simp [hnr])]
    dsimp only
    rw [if_neg (by simp [ht])]
    simp only [hs, Option.getD_some, hc, Bool.not_false, if_true]
  refine ⟨s, e, ?_⟩
  rw [e]
  intro s'
  show s' ∈ topOf (pushTop st.nstack s) ↔ _
  rw [pushTop_eq]
  show s' ∈ s :: topOf st.nstack ↔ _
  rw [List.mem_cons, ntop s']
  simp only [List.mem_append, List.mem_singleton]
  constructor
  · rintro (rfl | ⟨m, hm, h⟩)
    · exact ⟨n, Or.inr rfl, by rw [← hwn, hs]⟩
    · exact ⟨m, Or.inl hm, h⟩
  · rintro ⟨m, hm | rfl, h⟩
    · exact Or.inr ⟨m, hm, h⟩
    · rw [← hwn, hs] at h; exact Or.inl (Option.some.inj h).symm

theorem enterGraph_stable {w : World} (iv : Nat → List Nat) (hiv : ∀ g u, u ∈ (w.dicts g).map (·.2) ↔ u ∈ iv g)
    {st : FixSt} {V S : List Nat} (good : SGood w st V) (hS : ∀ x, x ∈ st.seen ↔ x ∈ S)
    (g : Nat) (isG : Bool) (ins outs bouts : List Nat)
    (hsc : ∀ v ∈ gvals iv g isG ins outs bouts, v ∈ S → v ∈ V) (hinj : InjT w.vname (V ++ gvals iv g isG ins outs bouts)) :
    Same st (enterGraph st g isG ins outs bouts) ∧ SGood w (enterGraph st g isG ins outs bouts) (V ++ gvals iv g isG ins outs bouts)
    ∧ (∀ x, x ∈ (enterGraph st g isG ins outs bouts).seen ↔ x ∈ S ++ gvals iv g isG ins outs bouts)
    ∧ (enterGraph st g isG ins outs bouts).vstack.tail = st.vstack := by
  rw [enterGraph_eq good.nr]
  have good0 : SGood w (pushScope st) V := ⟨good.world, good.nr, good.top_iff, good.seen⟩
  have hg : ∀ v, v ∈ gvals iv g isG ins outs bouts ↔ (v ∈ ins ∨ v ∈ outs ∨ (isG = true ∧ v ∈ iv g) ∨ v ∈ bouts) := by
    intro v; unfold gvals; cases isG <;> simp
  obtain ⟨s1, g1, e1, t1⟩ := processValues_stable ins good0 (S := S) hS
    (fun v hv h => hsc v ((hg v).mpr (Or.inl hv)) h)
    (hinj.mono (fun x hx => by
      simp only [List.mem_append] at hx ⊢
      exact hx.elim Or.inl (fun h => Or.inr ((hg x).mpr (Or.inl h)))))
  obtain ⟨s2, g2, e2, t2⟩ := processValues_stable outs g1 e1
    (fun v hv h => by
      simp only [List.mem_append] at h ⊢
      exact h.elim (fun h => Or.inl (hsc v ((hg v).mpr (Or.inr (Or.inl hv))) h)) Or.inr)
    (hinj.mono (fun x hx => by
      simp only [List.mem_append] at hx ⊢
      rcases hx with (hx | hx) | hx
      · exact Or.inl hx
      · exact Or.inr ((hg x).mpr (Or.inl hx))
      · exact Or.inr ((hg x).mpr (Or.inr (Or.inl hx)))))
  have s0 : Same st (pushScope st) := ⟨rfl, rfl, rfl⟩
  -- initializers, uniformly
  have step3 : ∃ X : List Nat, (∀ x, x ∈ X ↔ (isG = true ∧ x ∈ iv g)) ∧
      Same (processValues (processValues (pushScope st) ins) outs)
        (if isG = true then
          processValues (processValues (processValues (pushScope st) ins) outs)
            (((processValues (processValues (pushScope st) ins) outs).dicts g).map (·.2))
        else processValues (processValues (pushScope st) ins) outs)
      ∧ SGood w (if isG = true then
          processValues (processValues (processValues (pushScope st) ins) outs)
            (((processValues (processValues (pushScope st) ins) outs).dicts g).map (·.2))
        else processValues (processValues (pushScope st) ins) outs) (V ++ ins ++ outs ++ X)
      ∧ (∀ x, x ∈ (if isG = true then
          processValues (processValues (processValues (pushScope st) ins) outs)
            (((processValues (processValues (pushScope st) ins) outs).dicts g).map (·.2))
        else processValues (processValues (pushScope st) ins) outs).seen ↔ x ∈ S ++ ins ++ outs ++ X)
      ∧ (if isG = true then
          processValues (processValues (processValues (pushScope st) ins) outs)
            (((processValues (processValues (pushScope st) ins) outs).dicts g).map (·.2))
        else processValues (processValues (pushScope st) ins) outs).vstack.tail
          = (processValues (processValues (pushScope st) ins) outs).vstack.tail := by
    cases isG with
    | false =>
      refine ⟨[], fun x => by simp, ?_⟩
      simp only [Bool.false_eq_true, if_false, List.append_nil]
      exact ⟨Same.refl _, g2, e2, trivial⟩
    | true =>
      simp only [if_true]
      have hd : (processValues (processValues (pushScope st) ins) outs).dicts g = w.dicts g := by
        rw [← g2.world]
      have hdict : ∀ u, u ∈ ((processValues (processValues (pushScope st) ins) outs).dicts g).map (·.2) ↔ u ∈ iv g := by
        intro u; rw [hd]; exact hiv g u
      obtain ⟨s3, g3, e3, t3⟩ := processValues_stable
        (((processValues (processValues (pushScope st) ins) outs).dicts g).map (·.2)) g2 e2
        (fun v hv h => by
          simp only [List.mem_append] at h ⊢
          rcases h with (h | h) | h
          · exact Or.inl (Or.inl (hsc v ((hg v).mpr (Or.inr (Or.inr (Or.inl ⟨rfl, (hdict v).mp hv⟩)))) h))
          · exact Or.inl (Or.inr h)
          · exact Or.inr h)
        (hinj.mono (fun x hx => by
          simp only [List.mem_append] at hx ⊢
          rcases hx with ((hx | hx) | hx) | hx
          · exact Or.inl hx
          · exact Or.inr ((hg x).mpr (Or.inl hx))
          · exact Or.inr ((hg x).mpr (Or.inr (Or.inl hx)))
          · exact Or.inr ((hg x).mpr (Or.inr (Or.inr (Or.inl ⟨rfl, (hdict x).mp hx⟩))))))
      exact ⟨_, fun x => by rw [hdict x]; simp, s3, g3, e3, t3⟩
  obtain ⟨X, hX, s3, g3, e3, t3⟩ := step3
  obtain ⟨s4, g4, e4, t4⟩ := processValues_stable bouts g3 e3
    (fun v hv h => by
      simp only [List.mem_append] at h ⊢
      rcases h with ((h | h) | h) | h
      · exact Or.inl (Or.inl (Or.inl (hsc v ((hg v).mpr (Or.inr (Or.inr (Or.inr hv)))) h)))
      · exact Or.inl (Or.inl (Or.inr h))
      · exact Or.inl (Or.inr h)
      · exact Or.inr h)
    (hinj.mono (fun x hx => by
      simp only [List.mem_append] at hx ⊢
      rcases hx with (((hx | hx) | hx) | hx) | hx
      · exact Or.inl hx
      · exact Or.inr ((hg x).mpr (Or.inl hx))
      · exact Or.inr ((hg x).mpr (Or.inr (Or.inl hx)))
      · exact Or.inr ((hg x).mpr (Or.inr (Or.inr (Or.inl ((hX x).mp hx)))))
      · exact Or.inr ((hg x).mpr (Or.inr (Or.inr (Or.inr hx))))))
  refine ⟨s0.trans (s1.trans (s2.trans (s3.trans s4))), ⟨g4.world, g4.nr, ?_, ?_⟩, ?_, by rw [t4, t3, t2, t1]; rfl⟩
  · intro s; rw [g4.top_iff s]
    simp only [List.mem_append, hg, hX, or_assoc]
  · intro u hu; refine g4.seen u ?_
    simp only [List.mem_append, hg, or_assoc] at hu
    simp only [List.mem_append, hX, or_assoc]; exact hu
  · intro x; rw [e4 x]
    simp only [List.mem_append, hg, hX, or_assoc]

/-- conclusion of the stable run over a list of items -/
structure Stable (w : World) (st st' : FixSt) (V' S' N' : List Nat) : Prop where
  same : Same st st'
  good : SGood w st' V'
  seenEq : ∀ x, x ∈ st'.seen ↔ x ∈ S'
  mono : ∀ x ∈ st.seen, x ∈ st'.seen
  vtail : st'.vstack.tail = st.vstack.tail
  ntop : NTop w st' N'
  ntail : st'.nstack.tail = st.nstack.tail

theorem runTr_stable {w : World} (iv : Nat → List Nat) (hiv : ∀ g u, u ∈ (w.dicts g).map (·.2) ↔ u ∈ iv g) :
    ∀ (t : Tr) {st : FixSt} {V S N : List Nat}, SGood w st V → (∀ x, x ∈ st.seen ↔ x ∈ S) →
      scopedB iv t S V = true → InjT w.vname (bodyVis t V) → (∀ L ∈ allScopes iv t V, InjT w.vname L) →
      NTop w st N → (allNodes t).Nodup → (∀ n ∈ allNodes t, n ∉ N) →
      InjT w.nname (N ++ bodyNodes t) → (∀ L ∈ allNodeScopes t, InjT w.nname L) →
      Stable w st (runTr t st) (bodyVis t V) (seenAfter iv t S) (N ++ bodyNodes t) := by
  intro t
  induction t with
  | nil =>
    intro st V S N good hS _ _ _ ntop _ _ _ _
    simp only [runTr, bodyVis, seenAfter, bodyNodes, List.append_nil]
    exact ⟨Same.refl st, good, hS, fun _ h => h, rfl, ntop, rfl⟩
  | node n ins outs subs rest ihs ihr =>
    intro st V S N good hS hsc hinj hscopes ntop hnd hfresh hninj hnscopes
    simp only [scopedB, Bool.and_eq_true] at hsc
    obtain ⟨⟨hsc1, hsc2⟩, hsc3⟩ := hsc
    simp only [allNodes, List.nodup_cons, List.mem_append, not_or, List.nodup_append] at hnd
    obtain ⟨⟨hn_s, hn_r⟩, hnd_s, hnd_r, hdisj⟩ := hnd
    simp only [runTr, visitNode, bodyVis, seenAfter, bodyNodes, allScopes, allNodeScopes] at hinj hscopes hninj hnscopes ⊢
    have hnN : n ∉ N := hfresh n (by simp [allNodes])
    -- the node name
    obtain ⟨s, e1, ntop1⟩ := fixNodeName_stable good.world good.nr ntop hnN
      (hninj.mono (fun x hx => by
        simp only [List.mem_append, List.mem_singleton] at hx
        simp only [List.mem_append, List.mem_cons]
        exact hx.elim Or.inl (fun e => Or.inr (Or.inl e))))
    have good1 : SGood w (fixNodeName st n) V := by
      rw [e1]; exact ⟨good.world, good.nr, good.top_iff, good.seen⟩
    have hS1 : ∀ x, x ∈ (fixNodeName st n).seen ↔ x ∈ S := by rw [e1]; exact hS
    -- its values
    obtain ⟨s2, g2, e2, t2⟩ := processValues_stable (nodeVals ins outs) good1 hS1 (all_imp hsc1)
      (hinj.mono (fun x hx => bodyVis_sub rest _ x (bodyVis_sub subs _ x hx)))
    have n2 := processValues_NEq (nodeVals ins outs) (fixNodeName st n)
    have ntop2 : NTop w (processValues (fixNodeName st n) (nodeVals ins outs)) (N ++ [n]) := by
      intro s'; rw [n2.nstack]; exact ntop1 s'
    -- the graphs it holds
    have r3 := ihs g2 e2 hsc2 (hinj.mono (fun x hx => bodyVis_sub rest _ x hx))
      (fun L hL => hscopes L (List.mem_append_left _ hL)) ntop2 hnd_s
      (fun m hm => by
        simp only [List.mem_append, List.mem_singleton, not_or]
        exact ⟨hfresh m (by simp [allNodes, hm]), fun e => hn_s (e ▸ hm)⟩)
      (hninj.mono (fun x hx => by
        simp only [List.mem_append, List.mem_singleton] at hx
        simp only [List.mem_append, List.mem_cons]
        rcases hx with (hx | hx) | hx
        · exact Or.inl hx
        · exact Or.inr (Or.inl hx)
        · exact Or.inr (Or.inr (Or.inl hx))))
      (fun L hL => hnscopes L (List.mem_append_left _ hL))
    -- the following nodes
    have r4 := ihr r3.good r3.seenEq hsc3 hinj (fun L hL => hscopes L (List.mem_append_right _ hL)) r3.ntop hnd_r
      (fun m hm => by
        simp only [List.mem_append, List.mem_singleton, not_or]
        exact ⟨⟨hfresh m (by simp [allNodes, hm]), fun e => hn_r (e ▸ hm)⟩,
          fun h => hdisj m (bodyNodes_sub_allNodes subs m h) m hm rfl⟩)
      (hninj.mono (fun x hx => by
        simp only [List.mem_append, List.mem_singleton] at hx
        simp only [List.mem_append, List.mem_cons]
        rcases hx with ((hx | hx) | hx) | hx
        · exact Or.inl hx
        · exact Or.inr (Or.inl hx)
        · exact Or.inr (Or.inr (Or.inl hx))
        · exact Or.inr (Or.inr (Or.inr hx))))
      (fun L hL => hnscopes L (List.mem_append_right _ hL))
    have s1 : Same st (fixNodeName st n) := by rw [e1]; exact ⟨rfl, rfl, rfl⟩
    refine ⟨s1.trans (s2.trans (r3.same.trans r4.same)), r4.good, r4.seenEq, ?_, ?_, ?_, ?_⟩
    · intro x hx
      refine r4.mono x (r3.mono x ((e2 x).mpr (List.mem_append_left _ ((hS1 x).mp ?_))))
      rw [e1]; exact hx
    · rw [r4.vtail, r3.vtail, t2, e1]
    · have := r4.ntop
      simpa [List.append_assoc] using this
    · rw [r4.ntail, r3.ntail, n2.nstack, e1, pushTop_eq]; rfl
  | graph g isG ins outs body rest ihb ihr =>
    intro st V S N good hS hsc hinj hscopes ntop hnd hfresh hninj hnscopes
    simp only [scopedB, Bool.and_eq_true] at hsc
    obtain ⟨⟨hsc1, hsc2⟩, hsc3⟩ := hsc
    simp only [allNodes, List.nodup_append] at hnd
    obtain ⟨hnd_b, hnd_r, hdisj⟩ := hnd
    simp only [runTr, bodyVis, seenAfter, bodyNodes, allScopes, allNodeScopes] at hinj hscopes hninj hnscopes ⊢
    have hL0 := hscopes _ List.mem_cons_self
    have hV1 : InjT w.vname (V ++ gvals iv g isG ins outs (bodyOuts body)) := hL0.mono (bodyVis_sub body _)
    -- entered twice
    obtain ⟨s1, g1, e1, t1⟩ := enterGraph_stable iv hiv good hS g isG ins outs (bodyOuts body) (all_imp hsc1) hV1
    obtain ⟨s2, g2, e2, t2⟩ := enterGraph_stable iv hiv g1 e1 g isG ins outs (bodyOuts body)
      (fun v hv _ => List.mem_append_right _ hv)
      (hV1.mono (fun x hx => by
        simp only [List.mem_append] at hx ⊢
        rcases hx with (hx | hx) | hx
        · exact Or.inl hx
        · exact Or.inr hx
        · exact Or.inr hx))
    have g2' : SGood w (enterGraph (enterGraph st g isG ins outs (bodyOuts body)) g isG ins outs (bodyOuts body)) (V ++ gvals iv g isG ins outs (bodyOuts body)) :=
      ⟨g2.world, g2.nr, fun s => by
        rw [g2.top_iff s]
        simp only [List.mem_append]
        exact ⟨fun ⟨u, hu, h⟩ => ⟨u, hu.elim id Or.inr, h⟩, fun ⟨u, hu, h⟩ => ⟨u, Or.inl hu, h⟩⟩,
       fun u hu => g2.seen u (List.mem_append_left _ hu)⟩
    have e2' : ∀ x, x ∈ (enterGraph (enterGraph st g isG ins outs (bodyOuts body)) g isG ins outs (bodyOuts body)).seen ↔ x ∈ S ++ gvals iv g isG ins outs (bodyOuts body) := by
      intro x; rw [e2 x]; simp only [List.mem_append]; exact ⟨fun h => h.elim id Or.inr, Or.inl⟩
    obtain ⟨_, k1, _, _⟩ := enterGraph_nodes good.nr g isG ins outs (bodyOuts body)
    obtain ⟨_, k2, _, _⟩ := enterGraph_nodes g1.nr g isG ins outs (bodyOuts body)
    have ntop2 : NTop w (enterGraph (enterGraph st g isG ins outs (bodyOuts body)) g isG ins outs (bodyOuts body)) [] := by
      intro s; rw [k2]; simp [topOf]
    -- the body
    have r3 := ihb g2' e2' hsc2 hL0 (fun L hL => hscopes L (List.mem_cons_of_mem _ (List.mem_append_left _ hL)))
      ntop2 hnd_b (fun m _ => by simp)
      (by simpa using hnscopes _ List.mem_cons_self)
      (fun L hL => hnscopes L (List.mem_cons_of_mem _ (List.mem_append_left _ hL)))
    -- left twice
    have x4 := exitGraph_eq r3.good.nr
    have nr4 : (exitGraph (runTr body (enterGraph (enterGraph st g isG ins outs (bodyOuts body)) g isG ins outs (bodyOuts body)))).raised = false := by
      rw [x4]; exact r3.good.nr
    have x5 := exitGraph_eq nr4
    have hv5 : (exitGraph (exitGraph (runTr body (enterGraph (enterGraph st g isG ins outs (bodyOuts body)) g isG ins outs (bodyOuts body))))).vstack = st.vstack := by
      rw [x5, x4]; show (List.tail (List.tail _)) = _; rw [r3.vtail, t2, t1]
    have hn5 : (exitGraph (exitGraph (runTr body (enterGraph (enterGraph st g isG ins outs (bodyOuts body)) g isG ins outs (bodyOuts body))))).nstack = st.nstack := by
      rw [x5, x4]; show (List.tail (List.tail _)) = _; rw [r3.ntail, k2, k1]; rfl
    have same5 : Same (runTr body (enterGraph (enterGraph st g isG ins outs (bodyOuts body)) g isG ins outs (bodyOuts body)))
        (exitGraph (exitGraph (runTr body (enterGraph (enterGraph st g isG ins outs (bodyOuts body)) g isG ins outs (bodyOuts body))))) := by
      rw [x5, x4]; exact ⟨rfl, rfl, rfl⟩
    have seen5 : (exitGraph (exitGraph (runTr body (enterGraph (enterGraph st g isG ins outs (bodyOuts body)) g isG ins outs (bodyOuts body))))).seen
        = (runTr body (enterGraph (enterGraph st g isG ins outs (bodyOuts body)) g isG ins outs (bodyOuts body))).seen := by
      rw [x5, x4]
    have mono5 : ∀ x ∈ st.seen, x ∈ (exitGraph (exitGraph (runTr body (enterGraph (enterGraph st g isG ins outs (bodyOuts body)) g isG ins outs (bodyOuts body))))).seen := by
      intro x hx
      rw [seen5]
      exact r3.mono x ((e2 x).mpr (List.mem_append_left _ (List.mem_append_left _ ((hS x).mp hx))))
    have good5 : SGood w (exitGraph (exitGraph (runTr body (enterGraph (enterGraph st g isG ins outs (bodyOuts body)) g isG ins outs (bodyOuts body))))) V :=
      ⟨same5.world.trans r3.good.world, same5.raised.trans r3.good.nr, fun s => by rw [hv5]; exact good.top_iff s,
       fun u hu => mono5 u (good.seen u hu)⟩
    have hS5 : ∀ x, x ∈ (exitGraph (exitGraph (runTr body (enterGraph (enterGraph st g isG ins outs (bodyOuts body)) g isG ins outs (bodyOuts body))))).seen
        ↔ x ∈ seenAfter iv body (S ++ gvals iv g isG ins outs (bodyOuts body)) := by
      rw [seen5]; exact r3.seenEq
    have ntop5 : NTop w (exitGraph (exitGraph (runTr body (enterGraph (enterGraph st g isG ins outs (bodyOuts body)) g isG ins outs (bodyOuts body))))) N := by
      intro s; rw [hn5]; exact ntop s
    -- the following sibling graphs
    have r6 := ihr good5 hS5 hsc3 hinj (fun L hL => hscopes L (List.mem_cons_of_mem _ (List.mem_append_right _ hL)))
      ntop5 hnd_r (fun m hm => hfresh m (by simp [allNodes, hm])) hninj
      (fun L hL => hnscopes L (List.mem_cons_of_mem _ (List.mem_append_right _ hL)))
    refine ⟨s1.trans (s2.trans (r3.same.trans (same5.trans r6.same))), r6.good, r6.seenEq,
      fun x hx => r6.mono x (mono5 x hx), by rw [r6.vtail, hv5], r6.ntop, by rw [r6.ntail, hn5]⟩


/-- one `_fix_graph_names` call on a world that already satisfies the postcondition -/
theorem fixTop_stable {w : World} {t : Top} (iv : Nat → List Nat) (hiv : ∀ g u, u ∈ (w.dicts g).map (·.2) ↔ u ∈ iv g)
    (hsc : scopedB iv t.tr [] [] = true) (hv : ∀ L ∈ allScopes iv t.tr [], InjT w.vname L)
    (hnd : (allNodes t.body).Nodup) (hn : ∀ L ∈ allNodeScopes t.tr, InjT w.nname L) :
    (fixTop w t).toWorld = w ∧ (fixTop w t).modified = false ∧ (fixTop w t).raised = false := by
  simp only [Top.tr, scopedB, Bool.and_eq_true] at hsc
  simp only [Top.tr, allScopes, allNodeScopes, List.append_nil] at hv hn
  have good0 : SGood w (topInit w t) [] := ⟨rfl, rfl, fun s => by simp [topInit, topOf], fun u hu => by simp at hu⟩
  have hL0 := hv _ List.mem_cons_self
  obtain ⟨s1, g1, e1, _⟩ := enterGraph_stable iv hiv good0 (S := []) (fun x => by simp [topInit])
    t.gid t.isGraph t.ins t.outs (bodyOuts t.body) (fun v _ h => by simp at h) (hL0.mono (bodyVis_sub t.body _))
  obtain ⟨_, k1, _, _⟩ := enterGraph_nodes (st := topInit w t) rfl t.gid t.isGraph t.ins t.outs (bodyOuts t.body)
  have ntop1 : NTop w (enterGraph (topInit w t) t.gid t.isGraph t.ins t.outs (bodyOuts t.body)) [] := by
    intro s; rw [k1]; simp [topOf]
  have r2 := runTr_stable iv hiv t.body g1 e1 hsc.1.2 hL0 (fun L hL => hv L (List.mem_cons_of_mem _ hL)) ntop1 hnd
    (fun m _ => by simp) (by simpa using hn _ List.mem_cons_self) (fun L hL => hn L (List.mem_cons_of_mem _ hL))
  rw [fixTop_eq, exitGraph_eq r2.good.nr]
  have s02 := s1.trans r2.same
  exact ⟨s02.world, s02.modified, s02.raised⟩

end IrVerif.Names

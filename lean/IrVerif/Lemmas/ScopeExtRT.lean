/-
Round trip of a reloadable EXTENDED model: the lock-step induction of `Lemmas/ScopeReplMain.lean` (`rt2_graph`)
redone for `deserGraphE` on the proto written by `serGraphE`, with the extension state: the images of the emitted
values carry the source metadata / annotation (written and read once).
-/
import IrVerif.Lemmas.ScopeExtRTPre
import IrVerif.Lemmas.ScopeExtDevTr
namespace IrVerif.Scope

theorem tableLt_of_RS2 {V : Nat → ValueS} {s : Store} {A : Assoc} (hrs : RS V s A) {T : Table} (h : TblIn A T) :
    TableLt s (mapT A T) := by
  intro e he
  simp only [mapT, List.mem_map] at he
  obtain ⟨e0, he0, rfl⟩ := he
  exact hrs.sig_lt (h e0 he0)

theorem sig_of_zip_range (A : Assoc) (ins : List Nat) (b : Nat)
    (h : ins.map (sig A) = List.range' b ins.length) :
    ∀ v ∈ ins, ∃ i, ∃ hi : i < ins.length, ins[i] = v ∧ sig A v = b + i := by
  intro v hv
  obtain ⟨i, hi, rfl⟩ := List.getElem_of_mem hv
  refine ⟨i, hi, rfl, ?_⟩
  have h1 : (ins.map (sig A))[i]? = (List.range' b ins.length)[i]? := by rw [h]
  rw [List.getElem?_map, List.getElem?_eq_getElem hi, List.getElem?_range' (by omega)] at h1
  simp at h1
  omega

set_option maxRecDepth 4000 in
mutual
theorem rtE_graph (V : Nat → ValueS) (x : Ext) (td : TData) (ver : Option Int) (hwf : ExtWF x) :
    ∀ (g : GraphT) (s : Store) (xs : Ext) (A : Assoc) (outer : List Table) (q : GraphE) (ws : Writes),
      serGraphE V x td ver g = .ok (q, ws) → (replG V outer g).ok → (replG V outer g).new.Nodup →
      extG V x outer g →
      (∀ v ∈ (replG V outer g).new, v ∉ A.map (·.1)) → (∀ T ∈ outer, TblIn A T) → RS V s A → Fresh s →
      ExtFresh s xs →
      ∃ (s' : Store) (x' : Ext) (g' : GraphT) (B : Assoc),
        deserGraphE s xs (outer.map (mapT A)) q = .ok (s', x', g') ∧ RS V s' (A ++ B) ∧ s.nv ≤ s'.nv ∧
        B.map (·.1) = (replG V outer g).new ∧ TreeRelG V (A ++ B) g g' ∧
        Fresh s' ∧ Prim s.nv s s' ∧ InfoOK2 V s' (A ++ B) (emitG V g) ∧
        ConstOK2 V td s' (A ++ B) (allInitsG g) ∧
        ExtFresh s' x' ∧ XKeep s.nv xs x' ∧ (∀ e ∈ B, s.nv ≤ e.2) ∧
        MetaOKk x x' (A ++ B) (emitG V g) ∧ QuantOKk x x' (A ++ B) (emitQG V g) ∧
        s.nn ≤ s'.nn ∧ (∀ k, k < s.nn → x'.devs k = xs.devs k) ∧ DevTrG V x' s'.nn (A ++ B) outer g q g'
  | .mk gid ins inits nodes outs, s, xs, A, outer, q, ws, hser, hok, hnd, hext, hnew, hO, hrs, hfr, hxf => by
    obtain ⟨qIn, seen1, qInit, seen2, nps, qNodes, vis2, ws2, qOut, seen3, _, _, hq1, hq2, hn, hq3, rfl⟩ :=
      xserGraph_inv hser
    simp only [replG] at hok hnd hnew ⊢
    simp only [extG] at hext
    generalize hri : replInits V outs (tblIns V ins) inits = ri at hok hnd hnew hext ⊢
    generalize hrd : replDecl V ri.tbl (nodes.flatMap (liveOuts V)) = rd at hok hnd hnew hext ⊢
    generalize hrn : replNs V outer rd.tbl nodes = rn at hok hnd hnew hext ⊢
    generalize hro : replOuts V rn.tbl outs = ro at hok hnd hnew hext ⊢
    obtain ⟨hQC, hC3, hextN⟩ := hext
    obtain ⟨hins_n, hkn, okI, okD, okN, okO⟩ := hok
    rw [List.nodup_append] at hnd
    obtain ⟨hnd4, hndO, hdisjO⟩ := hnd
    rw [List.nodup_append] at hnd4
    obtain ⟨hnd3, hndN, hdisjN⟩ := hnd4
    rw [List.nodup_append] at hnd3
    obtain ⟨hnd2, hndD, hdisjD⟩ := hnd3
    rw [List.nodup_append] at hnd2
    obtain ⟨hndI, hndRI, hdisjI⟩ := hnd2
    have newA : ∀ v, v ∈ ins ∨ v ∈ ri.new ∨ v ∈ rd.new ∨ v ∈ rn.new ∨ v ∈ ro.new → v ∉ A.map (·.1) :=
      fun v hv => hnew v (by
        simp only [List.mem_append]
        rcases hv with hv | hv | hv | hv | hv
        · exact .inl (.inl (.inl (.inl hv)))
        · exact .inl (.inl (.inl (.inr hv)))
        · exact .inl (.inl (.inr hv))
        · exact .inl (.inr hv)
        · exact .inr hv)
    have okI' : (replInits V outs (tblIns V ins) inits).ok := by rw [hri]; exact okI
    have hbase := replInits_base V outs inits _ okI'
    have hcases := replInits_cases V outs inits _ okI' hkn
    rw [hri] at hcases
    have hvn : (inits.map (·.2)).Nodup := values_nodup_of_names (fun kv hkv => (hbase kv hkv).1) hkn
    have okD' : (replDecl V ri.tbl (nodes.flatMap (liveOuts V))).ok := by rw [hrd]; exact okD
    obtain ⟨hdnew, hLn, hdlook⟩ := replDecl_new V _ _ okD'
    rw [hrd] at hdnew hdlook
    -- the value_info list of the proto
    have hvis1 := mem_xserInits_vi V x td (ins.map fun v => (V v).name)
    have hvis2 := fun e => mem_xserNodes_vi V x td ver true outs e nodes nps qNodes vis2 ws2 hn
    have htensE := xserInits_tensors V x td (ins.map fun v => (V v).name) inits
    generalize hLdef : (serInitsE V x td (ins.map fun v => (V v).name) inits).1 ++ vis2 = LE at *
    generalize hQdef : qIn ++ qInit ++ qNodes ++ qOut = Q at *
    have hvi0 : eraseVT (vinfoTableE LE) = vinfoTable (LE.map VInfoE.erase) := eraseVT_vinfoTableE LE
    generalize hvi : eraseVT (vinfoTableE LE) = vi at hvi0
    -- phase 1: inputs
    obtain ⟨r1, hi1⟩ := rt_inputs V ins s A hrs hndI (fun v hv => newA v (.inl hv)) hins_n
    obtain ⟨q1, hnv1, hids⟩ := deserInputs_spec s (ins.map (viOf V))
    simp only [List.length_map] at hids hnv1
    have p1 := deserInputs_prim s.nv (ins.map (viOf V)) s (Nat.le_refl _)
    have f1 := q1.fresh hfr
    have ok1 := inputTable_ok s (ins.map (viOf V))
    have htbl1 := rt2_inputTable V A ins (List.range' s.nv ins.length) (by simp) hndI (fun v hv => newA v (.inl hv))
    have hk1 : (A ++ ins.zip (List.range' s.nv ins.length)).map (·.1) = A.map (·.1) ++ ins := by
      rw [List.map_append, keys_zip _ _ (by simp)]
    have hsig1 := sig_zip A ins (List.range' s.nv ins.length) (by simp) hndI (fun v hv => newA v (.inl hv))
    have hzge : ∀ e ∈ ins.zip (List.range' s.nv ins.length), s.nv ≤ e.2 := by
      intro e he
      have := List.of_mem_zip he
      have h2 := this.2
      rw [List.mem_range'_1] at h2
      exact h2.1
    generalize hA1 : A ++ ins.zip (List.range' s.nv ins.length) = A1 at *
    generalize hs1 : (deserInputs s (ins.map (viOf V))).1 = s1 at *
    have hT1 : TblIn A1 (tblIns V ins) := tblIn_tblIns V A1 ins (fun v hv => by rw [hk1]; simp [hv])
    have hinsA1 : ∀ v ∈ ins, v ∈ A1.map (·.1) := fun v hv => by rw [hk1]; simp [hv]
    -- phase 1, extended
    have hc1 : deserInputs s ((ins.map (viOfE V x)).map VInfoE.erase) = (s1, List.range' s.nv ins.length) := by
      rw [map_viOfE_erase]; exact Prod.ext hs1 hids
    obtain ⟨x1, h1E, hx1k, hx1n, hx1f⟩ := inputsE_bridge (quantTable Q) _ s xs s1 _ hc1 hxf
    have hin1 : ∀ v ∈ ins, x1.vmeta (sig A1 v) = normM (x.vmeta v) ∧
        x1.quant (sig A1 v) = quantOf (quantTable Q) (nm V v) := by
      intro v hv
      obtain ⟨i, hi, rfl, hsv⟩ := sig_of_zip_range A1 ins s.nv hsig1 v hv
      have := hx1n i (by simpa using hi)
      rw [hsv]
      simpa [viOfE, normM] using this
    -- phase 2: initializers
    have hconst : ∀ kv ∈ inits, (V kv.2).const ≠ none := fun kv hkv => (hbase kv hkv).2.2
    have htens := serInits_tensors V td (ins.map fun v => (V v).name) inits hconst
    have hmk : ∀ kv ∈ inits, (mkT V td kv).name = kv.1 := by
      intro kv hkv
      have := nm_of_name (hbase kv hkv).1
      unfold mkT
      split <;> simp [this]
    have h2 := rt2_inits V vi outs (mkT V td) inits s1 A1 (tblIns V ins) hmk r1 hT1 okI' hvn
      (by
        rw [hri]
        intro v hv
        rw [hk1, List.mem_append]
        rintro (h | h)
        · exact newA v (.inr (.inl hv)) h
        · exact hdisjI v h v hv rfl)
    rw [hri] at h2
    obtain ⟨B2, e2t, r2, e2v, k2, t2, m2, l2, c1, c2, c3, c4, _, c6, c7⟩ := h2
    generalize hs2 : (deserInits s1 (mapT A1 (tblIns V ins)) vi (inits.map (mkT V td))).1 = s2 at *
    have hk2 : ∀ v, v ∈ (A1 ++ B2).map (·.1) ↔ v ∈ A.map (·.1) ∨ v ∈ ins ∨ v ∈ ri.new := by
      intro v
      rw [List.map_append, List.mem_append, hk1, List.mem_append, k2]
      constructor
      · rintro ((h | h) | h)
        · exact .inl h
        · exact .inr (.inl h)
        · exact .inr (.inr h)
      · rintro (h | h | h)
        · exact .inl (.inl h)
        · exact .inl (.inr h)
        · exact .inr h
    have hc2 : deserInits s1 (mapT A1 (tblIns V ins)) (eraseVT (vinfoTableE LE)) (inits.map (mkT V td)) =
        (s2, mapT (A1 ++ B2) ri.tbl, inits.map fun kv => sig (A1 ++ B2) kv.2) := by
      rw [hvi]; exact Prod.ext hs2 (Prod.ext e2t e2v)
    obtain ⟨x2, h2E, ns2⟩ := initsE_bridge (vinfoTableE LE) (quantTable Q) _ s1 x1 _ s2 _ _ hc2 hx1f
    -- phase 3: declare the node outputs
    have h3 := rt2_declNodes V vi nodes (eraseNs nps) s2 (A1 ++ B2) ri.tbl
      (xserNodes_outputs V x td ver true outs nodes nps qNodes vis2 ws2 hn) r2 t2
      okD' (by rw [hrd]; exact hndD)
      (by
        rw [hrd]
        intro v hv
        rw [hk2]
        rintro (h | h | h)
        · exact newA v (.inr (.inr (.inl hv))) h
        · exact hdisjD v (by simp [h]) v hv rfl
        · exact hdisjD v (by simp [h]) v hv rfl)
    rw [hrd] at h3
    obtain ⟨B3, s3, e3, r3, k3, t3, l3, i3, g3⟩ := h3
    have p3 := declareNodes_prim s2.nv vi (eraseNs nps) s2 _ s3 _ (Nat.le_refl _) e3
    obtain ⟨x3, h3E, ns3⟩ := declE_bridge (vinfoTableE LE) (quantTable Q) nps s2 x2 _ s3 _ (by rw [hvi]; exact e3) ns2.fresh
    have hnotA2 : ∀ v, v ∈ rd.new → v ∉ (A1 ++ B2).map (·.1) := by
      intro v hv
      rw [hk2]
      rintro (h | h | h)
      · exact newA v (.inr (.inr (.inl hv))) h
      · exact hdisjD v (by simp [h]) v hv rfl
      · exact hdisjD v (by simp [h]) v hv rfl
    have hnotA1 : ∀ v, v ∈ ri.new → v ∉ A1.map (·.1) := by
      intro v hv
      rw [hk1, List.mem_append]
      rintro (h | h)
      · exact newA v (.inr (.inl hv)) h
      · exact hdisjI v h v hv rfl
    generalize hA3 : A1 ++ B2 ++ B3 = A3 at e3 r3 i3 t3 h3E
    have hk3 : ∀ v, v ∈ A3.map (·.1) ↔ v ∈ A.map (·.1) ∨ v ∈ ins ∨ v ∈ ri.new ∨ v ∈ rd.new := by
      intro v
      rw [← hA3, List.map_append, List.mem_append, hk2, k3]
      constructor
      · rintro ((h | h | h) | h)
        · exact .inl h
        · exact .inr (.inl h)
        · exact .inr (.inr (.inl h))
        · exact .inr (.inr (.inr h))
      · rintro (h | h | h | h)
        · exact .inl (.inl h)
        · exact .inl (.inr (.inl h))
        · exact .inl (.inr (.inr h))
        · exact .inr h
    have hAA3 : ∀ v, v ∈ A.map (·.1) → v ∈ A3.map (·.1) := fun v hv => (hk3 v).mpr (.inl hv)
    have hO3 : ∀ T ∈ outer, TblIn A3 T := fun T hT e he => hAA3 _ (hO T hT e he)
    have hlev : outer.map (mapT A) = outer.map (mapT A3) := by
      rw [← hA3, ← hA1, List.append_assoc, List.append_assoc]
      exact (maps_extend _ hO).symm
    rw [hids, htbl1] at ok1
    obtain ⟨q2, ok2, _, _⟩ := deserInits_spec vi (inits.map (mkT V td)) s1 (mapT A1 (tblIns V ins)) s.nv ok1 q1.nv_le
    rw [hs2] at q2 ok2
    rw [e2t] at ok2
    have f2 := q2.fresh f1
    have le2 : s.nv ≤ s2.nv := Nat.le_trans q1.nv_le q2.nv_le
    have f3 : Fresh s3 := ((declareNodes_spec vi (eraseNs nps) s2 _ s.nv s3 _ ok2 le2 e3).1).fresh f2
    have hnn3 : s3.nn = s.nn := by
      rw [((declareNodes_spec vi (eraseNs nps) s2 _ s.nv s3 _ ok2 le2 e3).1).nn_eq, q2.nn_eq, q1.nn_eq]
    have hd3 : x3.devs = xs.devs := by
      rw [declareNodesE_devs _ _ _ _ _ _ _ _ _ h3E, devs_of_initsE h2E, devs_of_inputsE h1E]
    -- the extension state after the definition phases
    have le1 : s.nv ≤ s1.nv := q1.nv_le
    have le12 : s1.nv ≤ s2.nv := q2.nv_le
    have hsig13 : ∀ v ∈ ins, sig A3 v = sig A1 v := fun v hv => by
      rw [← hA3, List.append_assoc]; exact sig_append_of_mem (hinsA1 v hv)
    have hIn3 : ∀ v ∈ ins, x3.vmeta (sig A3 v) = normM (x.vmeta v) ∧
        x3.quant (sig A3 v) = quantOf (quantTable Q) (nm V v) := by
      intro v hv
      have hlt := r1.sig_lt (hinsA1 v hv)
      rw [hsig13 v hv, ns3.vmeta _ (Nat.lt_of_lt_of_le hlt le12), ns3.quant _ (Nat.lt_of_lt_of_le hlt le12),
        ns2.vmeta _ hlt, ns2.quant _ hlt]
      exact hin1 v hv
    have hNew3 : ∀ v, v ∈ ri.new ∨ v ∈ rd.new → x3.vmeta (sig A3 v) = metaOf (vinfoTableE LE) (nm V v) ∧
        x3.quant (sig A3 v) = quantOf (quantTable Q) (nm V v) := by
      intro v hv
      rcases hv with hv | hv
      · have hm2 : v ∈ (A1 ++ B2).map (·.1) := (hk2 v).mpr (.inr (.inr hv))
        have hB2 : v ∈ B2.map (·.1) := by rw [k2]; exact hv
        have hmem := sig_append_new (hnotA1 v hv) hB2
        have hge := c4 _ hmem
        have hlt := r2.sig_lt hm2
        obtain ⟨n, hn1, hn2, hn3⟩ := ns2.new _ hge hlt
        have hname : (V v).name = some n := by rw [← r2.sig_name hm2]; exact hn1
        have e23 : sig A3 v = sig (A1 ++ B2) v := by rw [← hA3]; exact sig_append_of_mem hm2
        rw [e23, ns3.vmeta _ hlt, ns3.quant _ hlt, nm_of_name hname]
        exact ⟨hn2, hn3⟩
      · have hm3 : v ∈ A3.map (·.1) := (hk3 v).mpr (.inr (.inr (.inr hv)))
        have hB3 : v ∈ B3.map (·.1) := by rw [k3]; exact hv
        have hmem := sig_append_new (hnotA2 v hv) hB3
        rw [hA3] at hmem
        have hge := g3 _ hmem
        have hlt := r3.sig_lt hm3
        obtain ⟨n, hn1, hn2, hn3⟩ := ns3.new _ hge hlt
        have hname : (V v).name = some n := by rw [← r3.sig_name hm3]; exact hn1
        rw [nm_of_name hname]
        exact ⟨hn2, hn3⟩
    -- where the entries of the scope after the definition phases come from
    have hrdmem : ∀ e ∈ rd.tbl, (e.2 ∈ ins ∧ e.1 = nm V e.2) ∨ ((e.2 ∈ ri.new ∨ e.2 ∈ rd.new) ∧ e.1 = nm V e.2) := by
      intro e he
      have h1 := replDecl_tbl_mem V (nodes.flatMap (liveOuts V)) ri.tbl e (by rw [hrd]; exact he)
      rw [hrd] at h1
      rcases h1 with h1 | ⟨h1, h1'⟩
      · have h2 := replInits_tbl_mem V outs inits (tblIns V ins) e (by rw [hri]; exact h1)
        rw [hri] at h2
        rcases h2 with h2 | ⟨h2, h2'⟩
        · simp only [tblIns, List.mem_reverse, List.mem_map] at h2
          obtain ⟨v, hv, rfl⟩ := h2
          exact .inl ⟨hv, rfl⟩
        · exact .inr ⟨.inl h2', (nm_of_name (hbase e h2).1).symm⟩
      · exact .inr ⟨.inr h1, h1'⟩
    have hTQ3 : TblQ x3 A3 (quantTable Q) rd.tbl := by
      intro e he
      rcases hrdmem e he with ⟨h, hn'⟩ | ⟨h, hn'⟩
      · rw [hn']; exact (hIn3 _ h).2
      · rw [hn']; exact (hNew3 _ h).2
    have hTM3 : TblM x3 A3 (vinfoTableE LE) ins rd.tbl := by
      intro e he hI
      rcases hrdmem e he with ⟨h, _⟩ | ⟨h, hn'⟩
      · exact absurd h hI
      · rw [hn']; exact (hNew3 _ h).1
    -- phase 4: the nodes
    have okN' : (replNs V outer rd.tbl nodes).ok := by rw [hrn]; exact okN
    have h4 := rtE_nodes V x td ver hwf nodes s3 x3 A3 rd.tbl outer true outs (vinfoTableE LE) (quantTable Q) ins
      nps qNodes vis2 ws2 hn okN' (by rw [hrn]; exact hndN) hextN
      (by
        rw [hrn]
        intro v hv hm
        rcases (hk3 v).mp hm with h | h | h | h
        · exact newA v (.inr (.inr (.inr (.inl hv)))) h
        · exact hdisjN v (by simp [h]) v hv rfl
        · exact hdisjN v (by simp [h]) v hv rfl
        · exact hdisjN v (by simp [h]) v hv rfl)
      t3 hO3 r3 f3 ns3.fresh hTQ3 hTM3
    rw [hrn] at h4
    obtain ⟨s4, x4, nts, B4, e4, r4, l4, k4, t4, tr4, f4, p4, io4, co4, xf4, xk4, ge4, tq4, tm4, mo4, qo4, lq4,
      nn4, fr4, dt4⟩ := h4
    have hk4 : ∀ v, v ∈ (A3 ++ B4).map (·.1) ↔ v ∈ A.map (·.1) ∨ v ∈ ins ∨ v ∈ ri.new ∨ v ∈ rd.new ∨ v ∈ rn.new := by
      intro v
      rw [List.map_append, List.mem_append, hk3, k4]
      constructor
      · rintro ((h | h | h | h) | h)
        · exact .inl h
        · exact .inr (.inl h)
        · exact .inr (.inr (.inl h))
        · exact .inr (.inr (.inr (.inl h)))
        · exact .inr (.inr (.inr (.inr h)))
      · rintro (h | h | h | h | h)
        · exact .inl (.inl h)
        · exact .inl (.inr (.inl h))
        · exact .inl (.inr (.inr (.inl h)))
        · exact .inl (.inr (.inr (.inr h)))
        · exact .inr h
    -- phase 5: graph outputs
    have okO' : (replOuts V rn.tbl outs).ok := by rw [hro]; exact okO
    have h5 := rt2_outputs V outs s4 (A3 ++ B4) rn.tbl r4 t4 okO' (by rw [hro]; exact hndO)
      (by
        rw [hro]
        intro v hv hm
        rcases (hk4 v).mp hm with h | h | h | h | h
        · exact newA v (.inr (.inr (.inr (.inr hv)))) h
        · exact hdisjO v (by simp [h]) v hv rfl
        · exact hdisjO v (by simp [h]) v hv rfl
        · exact hdisjO v (by simp [h]) v hv rfl
        · exact hdisjO v (by simp [h]) v hv rfl)
    rw [hro] at h5
    obtain ⟨B5, e5, r5, k5, m5, l5, g5, o4, o5, o6, o7, o8⟩ := h5
    have hsplit := replOuts_split V rn.tbl outs okO'
    rw [hro] at hsplit
    -- the scope after the definition phases binds every new definition under its name
    have hT3 : ∀ v, v ∈ ri.new ∨ v ∈ rd.new → rd.tbl.lookup (nm V v) = some v := by
      intro v hv
      rcases hv with hv | hv
      · have hm := replInits_new_sub V outs inits (tblIns V ins) v (by rw [hri]; exact hv)
        simp only [List.mem_map] at hm
        obtain ⟨kv, hkv, rfl⟩ := hm
        rcases hcases kv hkv with ⟨_, _, h3, _⟩ | h
        · rw [nm_of_name (hbase kv hkv).1, ← hrd]
          exact replDecl_mono V _ _ okD' _ _ h3
        · exact absurd rfl (hdisjI kv.2 (tblIns_lookup_some V ins _ _ h).1 kv.2 hv)
      · exact hdlook v hv
    have hT3n : ∀ v, v ∈ ri.new ∨ v ∈ rd.new → rn.tbl.lookup (nm V v) = some v := fun v hv => by
      rw [← hrn]; exact replNs_lookup_mono V outer nodes rd.tbl _ _ (hT3 v hv)
    have htruthy : ∀ v, v ∈ ri.new ∨ v ∈ rd.new → nameTruthy (V v).name = true := by
      intro v hv
      rcases hv with hv | hv
      · have hm := replInits_new_sub V outs inits (tblIns V ins) v (by rw [hri]; exact hv)
        simp only [List.mem_map] at hm
        obtain ⟨kv, hkv, rfl⟩ := hm
        simp [nameTruthy, (hbase kv hkv).1, (hbase kv hkv).2.1]
      · rw [hdnew, List.mem_filter] at hv; exact hv.2
    -- every value_info entry was written for a new definition that has something to say
    have hLE : ∀ e ∈ LE, ∃ u, (u ∈ ri.new ∨ (u ∈ rd.new ∧ u ∉ outs)) ∧ e = viOfE V x u ∧
        shouldCreateE (V u) (x.vmeta u) = true := by
      intro e he
      rw [← hLdef, List.mem_append] at he
      rcases he with he | he
      · rw [hvis1] at he
        obtain ⟨kv', hkv', hsc, hnin, rfl⟩ := he
        refine ⟨kv'.2, .inl ?_, rfl, hsc⟩
        rcases hcases kv' hkv' with ⟨h1, _⟩ | h
        · exact h1
        · exfalso
          apply hnin
          obtain ⟨hm, hnm⟩ := tblIns_lookup_some V ins _ _ h
          exact List.mem_map.mpr ⟨kv'.2, hm, rfl⟩
      · rw [hvis2] at he
        obtain ⟨n, hn', u, hu0, hugo, hsc, rfl⟩ := he
        have hut : nameTruthy (V u).name = true := by
          simp only [shouldCreateE, Bool.and_eq_true] at hsc; exact hsc.2
        refine ⟨u, .inr ⟨?_, hugo⟩, rfl, hsc⟩
        rw [hdnew, List.mem_filter]
        refine ⟨?_, hut⟩
        simp only [List.mem_flatMap]
        obtain ⟨i, g, a, b, c⟩ := n
        exact ⟨_, hn', truthy_mem_stripTrailing V u b hu0 hut⟩
    have hLEinj : ∀ v, rn.tbl.lookup (nm V v) = some v → ∀ e ∈ LE, e.name = nm V v →
        e = viOfE V x v ∧ shouldCreateE (V v) (x.vmeta v) = true := by
      intro v hv e he hname
      obtain ⟨u, hu, rfl, hsc⟩ := hLE e he
      have h1 := hT3n u (hu.imp id And.left)
      have hname' : nm V u = nm V v := hname
      rw [hname', hv] at h1
      have : v = u := Option.some.inj h1
      subst this
      exact ⟨rfl, hsc⟩
    have hentry : ∀ v, v ∈ ri.new ∨ (v ∈ rd.new ∧ v ∉ outs) → shouldCreateE (V v) (x.vmeta v) = true →
        viOfE V x v ∈ LE := by
      intro v hv hsc
      rw [← hLdef, List.mem_append]
      rcases hv with hv | ⟨hv, hvo⟩
      · left
        have hm := replInits_new_sub V outs inits (tblIns V ins) v (by rw [hri]; exact hv)
        simp only [List.mem_map] at hm
        obtain ⟨kv, hkv, rfl⟩ := hm
        rw [hvis1]
        refine ⟨kv, hkv, hsc, ?_, rfl⟩
        rcases hcases kv hkv with ⟨_, hln, _, _⟩ | h
        · intro hm
          simp only [List.mem_map] at hm
          obtain ⟨u, hu0, hname⟩ := hm
          have : nm V u = kv.1 := by simp [nm, hname, (hbase kv hkv).1]
          exact tblIns_lookup_none V ins _ hln u hu0 this
        · exact absurd rfl (hdisjI kv.2 (tblIns_lookup_some V ins _ _ h).1 kv.2 hv)
      · right
        rw [hvis2]
        have hv' := hv
        rw [hdnew, List.mem_filter] at hv'
        obtain ⟨hvf, _⟩ := hv'
        simp only [List.mem_flatMap] at hvf
        obtain ⟨n, hn', hvn'⟩ := hvf
        obtain ⟨i, g, a, b, c⟩ := n
        exact ⟨_, hn', v, stripTrailing_sub V b v hvn', hvo, hsc, rfl⟩
    have hvtEntry : ∀ v, v ∈ ri.new ∨ (v ∈ rd.new ∧ v ∉ outs) → shouldCreateE (V v) (x.vmeta v) = true →
        (vinfoTableE LE).lookup (nm V v) = some ((V v).info.emit, ssSorted (x.vmeta v)) := by
      intro v hv hsc
      have hb := hT3n v (hv.imp id And.left)
      exact vinfoTableE_lookup_some LE _ _ _
        (fun e he hname => by
          obtain ⟨rfl, _⟩ := hLEinj v hb e he hname
          exact ⟨rfl, rfl⟩)
        ⟨_, hentry v hv hsc, rfl⟩
    have hvtNone : ∀ v, rn.tbl.lookup (nm V v) = some v → shouldCreateE (V v) (x.vmeta v) = false →
        (vinfoTableE LE).lookup (nm V v) = none := by
      intro v hb hsc
      exact vinfoTableE_lookup_none LE _ (fun e he hname => by
        have := (hLEinj v hb e he hname).2
        rw [hsc] at this; cases this)
    have hmetaEq : ∀ v, v ∈ ri.new ∨ (v ∈ rd.new ∧ v ∉ outs) →
        metaOf (vinfoTableE LE) (nm V v) = normM (x.vmeta v) := by
      intro v hv
      cases hsc : shouldCreateE (V v) (x.vmeta v) with
      | true => exact metaOf_of_lookup (hvtEntry v hv hsc)
      | false =>
        rw [metaOf_of_none (hvtNone v (hT3n v (hv.imp id And.left)) hsc),
          shouldCreateE_false_meta hsc (htruthy v (hv.imp id And.left)), normM_nil]
    have hmetaDisj : ∀ v, rn.tbl.lookup (nm V v) = some v →
        metaOf (vinfoTableE LE) (nm V v) = [] ∨ metaOf (vinfoTableE LE) (nm V v) = normM (x.vmeta v) := by
      intro v hb
      by_cases hex : ∃ e ∈ LE, e.name = nm V v
      · right
        obtain ⟨e, he, hname⟩ := hex
        obtain ⟨rfl, _⟩ := hLEinj v hb e he hname
        exact metaOf_of_lookup (vinfoTableE_lookup_some LE _ _ _
          (fun e' he' hname' => by
            obtain ⟨rfl, _⟩ := hLEinj v hb e' he' hname'
            exact ⟨rfl, rfl⟩) ⟨_, he, rfl⟩)
      · left
        exact metaOf_of_none (vinfoTableE_lookup_none LE _ (fun e he hname => hex ⟨e, he, hname⟩))
    have hviLook : ∀ n, vi.lookup n = ((vinfoTableE LE).lookup n).map (·.1) := by
      intro n
      rw [← hvi]
      generalize vinfoTableE LE = vt
      induction vt with
      | nil => rfl
      | cons a r ih =>
        obtain ⟨k, i, m⟩ := a
        simp only [eraseVT, List.map_cons, List.lookup_cons] at ih ⊢
        split
        · rfl
        · exact ih
    -- phase 5, extended
    have hinsA3 : ∀ v ∈ ins, v ∈ A3.map (·.1) := fun v hv => (hk3 v).mpr (.inr (.inl hv))
    have hronotA : ∀ v, v ∈ ro.new → v ∉ (A3 ++ B4).map (·.1) := by
      intro v hv hm
      rcases (hk4 v).mp hm with h | h | h | h | h
      · exact newA v (.inr (.inr (.inr (.inr hv)))) h
      · exact hdisjO v (by simp [h]) v hv rfl
      · exact hdisjO v (by simp [h]) v hv rfl
      · exact hdisjO v (by simp [h]) v hv rfl
      · exact hdisjO v (by simp [h]) v hv rfl
    have h45' : ∀ v, v ∈ (A3 ++ B4).map (·.1) → sig (A3 ++ B4 ++ B5) v = sig (A3 ++ B4) v := fun v hv =>
      sig_append_of_mem hv
    generalize hs5 : (deserOutputs s4 (mapT (A3 ++ B4) rn.tbl) (outs.map (viOf V))).1 = s5 at *
    have hc5 : deserOutputs s4 (mapT (A3 ++ B4) rn.tbl) ((outs.map (viOfE V x)).map VInfoE.erase) =
        (s5, outs.map (sig (A3 ++ B4 ++ B5))) := by
      rw [map_viOfE_erase]; exact Prod.ext hs5 e5
    have h5E := outsE_bridge (mapT (A3 ++ B4) rn.tbl) (outs.map (viOfE V x)) s4 x4 s5 _ hc5
    have om := outsE_meta V x (sig (A3 ++ B4 ++ B5)) hwf outs s4 x4 (mapT (A3 ++ B4) rn.tbl) (by rw [h5E]) xf4
      (tableLt_of_RS2 r4 t4)
      (fun a ha b hb he => by rw [r5.sig_inj (m5 a ha) (m5 b hb) he])
      (fun v hv => by
        rcases hsplit v hv with hb | ⟨_, hvnew⟩
        · have hmem := t4.lookup hb
          rw [h45' v hmem]
          by_cases hvi : v ∈ ins
          · right
            have hm3 := hinsA3 v hvi
            rw [sig_append_of_mem hm3, xk4.vmeta _ (r3.sig_lt hm3)]
            exact (hIn3 v hvi).1
          · rw [tm4 _ (lookup_mem_tbl hb) hvi]
            exact hmetaDisj v hb
        · left
          have hB5 : v ∈ B5.map (·.1) := by rw [k5]; exact hvnew
          have := g5 _ (sig_append_new (hronotA v hvnew) hB5)
          exact (xf4 _ this).1)
    generalize hx5 : (deserOutputsE s4 x4 (mapT (A3 ++ B4) rn.tbl) (outs.map (viOfE V x))).2.1 = x5 at h5E om
    have hd5 : x5.devs = x4.devs := devs_of_outputsE h5E
    have hnn5 : s5.nn = s4.nn := by rw [← hs5]; exact deserOutputs_nn _ _ _
    rw [h5E] at om
    simp only at om
    obtain ⟨om1, om2, om3, om4⟩ := om
    -- phase 6: the graph object
    have hrunE : deserGraphE s xs (outer.map (mapT A))
        (GraphE.mk (ins.map (viOfE V x)) (serInitsE V x td (ins.map fun v => (V v).name) inits).2.1 LE nps
          (outs.map (viOfE V x)) Q) =
        .ok ((mkGraph s5 (List.range' s.nv ins.length) (outs.map (sig (A3 ++ B4 ++ B5))) nts
              (inits.map fun kv => sig (A1 ++ B2) kv.2)).1, x5,
            (mkGraph s5 (List.range' s.nv ins.length) (outs.map (sig (A3 ++ B4 ++ B5))) nts
              (inits.map fun kv => sig (A1 ++ B2) kv.2)).2) :=
      deserGraphE_assemble s xs _ _ _ LE nps _ Q s1 x1 _ h1E s2 x2 _ _
        (by rw [map_viOfE_erase, htbl1, htensE, htens]; exact h2E) s3 x3 _ h3E s4 x4 _ nts
        (by rw [hlev]; exact e4) s5 x5 _ h5E
    have hrun := deserGraphE_erase (GraphE.mk (ins.map (viOfE V x))
      (serInitsE V x td (ins.map fun v => (V v).name) inits).2.1 LE nps (outs.map (viOfE V x)) Q) s xs
      (outer.map (mapT A))
    rw [hrunE] at hrun
    simp only [dropX] at hrun
    generalize hA5 : A3 ++ B4 ++ B5 = A5 at *
    obtain ⟨c1', c2', _⟩ := mkGraph_fst_counters s5 (List.range' s.nv ins.length) (outs.map (sig A5)) nts
      (inits.map fun kv => sig (A1 ++ B2) kv.2)
    have hnames6 : ∀ w, ((mkGraph s5 (List.range' s.nv ins.length) (outs.map (sig A5)) nts
        (inits.map fun kv => sig (A1 ++ B2) kv.2)).1.vals w).name = (s5.vals w).name := by
      intro w; rw [mkGraph_cell]
    have hsnd6 := mkGraph_snd s5 (List.range' s.nv ins.length) (outs.map (sig A5)) nts
      (inits.map fun kv => sig (A1 ++ B2) kv.2)
    have p6 := mkGraph_prim s5.nv s5 (List.range' s.nv ins.length) (outs.map (sig A5)) nts
      (inits.map fun kv => sig (A1 ++ B2) kv.2)
    generalize hmg : mkGraph s5 (List.range' s.nv ins.length) (outs.map (sig A5)) nts
      (inits.map fun kv => sig (A1 ++ B2) kv.2) = mg at hrun hrunE c1' c2' hnames6 hsnd6 p6
    obtain ⟨s6, g6⟩ := mg
    simp only at c1' c2' hnames6 hsnd6 p6 hrun hrunE
    have hAfull : A ++ (ins.zip (List.range' s.nv ins.length) ++ B2 ++ B3 ++ B4 ++ B5) = A5 := by
      rw [← hA5, ← hA3, ← hA1]; simp [List.append_assoc]
    have r6 : RS V s6 A5 := r5.same_nv c1' hnames6
    have hk5 : ∀ v, v ∈ A5.map (·.1) ↔ v ∈ (A3 ++ B4).map (·.1) ∨ v ∈ ro.new := by
      intro v; rw [← hA5, List.map_append, List.mem_append, k5]
    have h45 : ∀ v, v ∈ (A3 ++ B4).map (·.1) → sig A5 v = sig (A3 ++ B4) v := fun v hv => by
      rw [← hA5]; exact sig_append_of_mem hv
    have h35 : ∀ v, v ∈ A3.map (·.1) → sig A5 v = sig A3 v := fun v hv => by
      rw [h45 v (mem_keys_append hv)]; exact sig_append_of_mem hv
    have hinitA2 : ∀ kv ∈ inits, kv.2 ∈ (A1 ++ B2).map (·.1) := m2
    have hinitA3 : ∀ kv ∈ inits, kv.2 ∈ A3.map (·.1) := fun kv hkv => by
      rw [← hA3]; exact mem_keys_append (m2 kv hkv)
    have hA2A5 : ∀ v, v ∈ (A1 ++ B2).map (·.1) → sig A5 v = sig (A1 ++ B2) v := by
      intro v hv
      rw [h35 v (by rw [← hA3]; exact mem_keys_append hv), ← hA3]
      exact sig_append_of_mem hv
    have hTL := tablesLt_of_RS2 hrs outer hO
    obtain ⟨f6, _⟩ := deserGraph_struct _ s _ s6 g6 hfr hTL hrun.symm
    have pfull := deserGraph_prim _ s _ s6 g6 hfr hTL hrun.symm
    have hA35 : ∀ v, v ∈ A3.map (·.1) → v ∈ A5.map (·.1) := fun v hv => (hk5 v).mpr (.inl (mem_keys_append hv))
    have hframe46 : ∀ d, d < s4.nv → (∀ o ∈ outs, sig A5 o ≠ d) → (s6.vals d).info = (s4.vals d).info := by
      intro d hlt hd
      rw [(p6.cell d (Nat.lt_of_lt_of_le hlt l5)).1, o4 d hlt hd]
    have hconst46 : ∀ d, d < s4.nv → (s6.vals d).const = (s4.vals d).const := by
      intro d hd
      rw [(p6.cell d (Nat.lt_of_lt_of_le hd l5)).2, o5 d hd]
    have htens46 : ∀ t, t < s4.nt → s6.tens t = s4.tens t := by
      intro t ht
      rw [p6.tens t (by rw [o7]; exact ht), o6]
    have hnotout : ∀ v, v ∈ (A3 ++ B4).map (·.1) → v ∉ outs → ∀ o ∈ outs, sig A5 o ≠ sig (A3 ++ B4) v := by
      intro v hmem hvo o ho heq
      rw [← h45 v hmem] at heq
      have := r5.sig_inj (m5 o ho) ((hk5 v).mpr (.inl hmem)) heq
      exact hvo (this ▸ ho)
    -- extension state: frames from the start of the run to its end
    have l3' : s2.nv ≤ s3.nv := l3
    have le3 : s.nv ≤ s3.nv := Nat.le_trans le2 l3
    have hgeB : ∀ e ∈ ins.zip (List.range' s.nv ins.length) ++ B2 ++ B3 ++ B4 ++ B5, s.nv ≤ e.2 := by
      intro e he
      simp only [List.mem_append] at he
      rcases he with (((he | he) | he) | he) | he
      · exact hzge e he
      · exact Nat.le_trans le1 (c4 e he)
      · exact Nat.le_trans le2 (g3 e he)
      · exact Nat.le_trans le3 (ge4 e he)
      · exact Nat.le_trans le3 (Nat.le_trans l4 (g5 e he))
    have houtnotA : ∀ v ∈ outs, v ∉ A.map (·.1) := by
      intro v hv
      rcases hsplit v hv with hb | ⟨_, hvnew⟩
      · have hmem := lookup_mem_tbl hb
        rcases replNs_tbl_mem V outer nodes rd.tbl _ (by rw [hrn]; exact hmem) with h | h
        · rcases hrdmem _ h with ⟨h', _⟩ | ⟨h' | h', _⟩
          · exact newA v (.inl h')
          · exact newA v (.inr (.inl h'))
          · exact newA v (.inr (.inr (.inl h')))
        · rw [hrn] at h; exact newA v (.inr (.inr (.inr (.inl h))))
      · exact newA v (.inr (.inr (.inr (.inr hvnew))))
    have houtge : ∀ v ∈ outs, s.nv ≤ sig A5 v := by
      intro v hv
      have hB : v ∈ (ins.zip (List.range' s.nv ins.length) ++ B2 ++ B3 ++ B4 ++ B5).map (·.1) := by
        have := m5 v hv
        rw [← hAfull, List.map_append, List.mem_append] at this
        rcases this with h | h
        · exact absurd h (houtnotA v hv)
        · exact h
      have := sig_append_new (houtnotA v hv) hB
      rw [hAfull] at this
      exact hgeB _ this
    have xk5 : XKeep s.nv xs x5 := by
      have k1 : XKeep s.nv xs x1 := ⟨fun d hd => (hx1k d hd).1, fun d hd => (hx1k d hd).2⟩
      have k2' : XKeep s.nv x1 x2 := ns2.keep.weaken le1
      have k3' : XKeep s.nv x2 x3 := ns3.keep.weaken le2
      have k4' : XKeep s.nv x3 x4 := xk4.weaken le3
      have k5' : XKeep s.nv x4 x5 := ⟨fun d hd => om2 d (fun v hv he => by have := houtge v hv; omega),
        fun d _ => by rw [om3]⟩
      exact (((k1.trans k2').trans k3').trans k4').trans k5'
    have hquiet := extNs_quiet V x outer nodes rd.tbl hextN
    have hroleNames : ∀ v ∈ qcRoles V ins inits nodes outs, (V v).name ≠ none := by
      intro v hv
      simp only [qcRoles, List.mem_append, List.mem_filter, List.mem_map] at hv
      rcases hv with ((hv | ⟨kv, hkv, rfl⟩) | ⟨_, ht⟩) | hv
      · exact hins_n v hv
      · rw [(hbase kv hkv).1]; simp
      · exact ne_none_of_truthy ht
      · exact replOuts_names V rn.tbl outs okO' v hv
    have hqOf := quantOf_roles V x td ver hwf ins inits nodes outs qIn seen1 qInit seen2 nps qNodes vis2 ws2 qOut seen3
      hq1 hq2 hn hq3 hQC hquiet hroleNames (fun kv hkv => (hbase kv hkv).1)
    rw [hQdef] at hqOf
    -- the annotation of every role value, at the end of phase 4
    have hq4 : ∀ v, v ∈ ins ∨ v ∈ ri.new ∨ v ∈ rd.new → x4.quant (sig A5 v) = quantOf (quantTable Q) (nm V v) := by
      intro v hv
      have hm3 : v ∈ A3.map (·.1) := (hk3 v).mpr (.inr hv)
      rw [h35 v hm3, xk4.quant _ (r3.sig_lt hm3)]
      rcases hv with hv | hv | hv
      · exact (hIn3 v hv).2
      · exact (hNew3 v (.inl hv)).2
      · exact (hNew3 v (.inr hv)).2
    have hm4 : ∀ v, v ∈ ins ∨ v ∈ ri.new ∨ v ∈ rd.new → v ∉ outs → x5.vmeta (sig A5 v) = normM (x.vmeta v) := by
      intro v hv hvo
      have hm3 : v ∈ A3.map (·.1) := (hk3 v).mpr (.inr hv)
      have hno := hnotout v (mem_keys_append hm3) hvo
      rw [sig_append_of_mem hm3] at hno
      rw [h35 v hm3, om2 _ hno, xk4.vmeta _ (r3.sig_lt hm3)]
      rcases hv with hv | hv | hv
      · exact (hIn3 v hv).1
      · rw [(hNew3 v (.inl hv)).1]; exact hmetaEq v (.inl hv)
      · rw [(hNew3 v (.inr hv)).1]; exact hmetaEq v (.inr ⟨hv, hvo⟩)
    have hrole : ∀ v, v ∈ ins ∨ v ∈ inits.map (·.2) ∨ v ∈ rd.new ∨ v ∈ outs → v ∈ qcRoles V ins inits nodes outs := by
      intro v hv
      simp only [qcRoles, List.mem_append]
      rcases hv with hv | hv | hv | hv
      · exact .inl (.inl (.inl hv))
      · exact .inl (.inl (.inr hv))
      · exact .inl (.inr (by rw [← hdnew]; exact hv))
      · exact .inr hv
    have hinitcls : ∀ kv ∈ inits, kv.2 ∈ ins ∨ kv.2 ∈ ri.new := by
      intro kv hkv
      rcases hcases kv hkv with ⟨h1, _⟩ | h
      · exact .inr h1
      · exact .inl (tblIns_lookup_some V ins _ _ h).1
    refine ⟨s6, x5, g6, ins.zip (List.range' s.nv ins.length) ++ B2 ++ B3 ++ B4 ++ B5, hrunE, by rw [hAfull]; exact r6, ?_, ?_, ?_,
      f6, pfull, ?_, ?_, ?_, xk5, hgeB, ?_, ?_, ?_, ?_, ?_⟩
    · rw [c1']
      have := q1.nv_le
      have := q2.nv_le
      omega
    · simp only [List.map_append, keys_zip _ _ (show ins.length = (List.range' s.nv ins.length).length by simp), k2, k3, k4, k5]
    · rw [hAfull, hsnd6]
      simp only [TreeRelG]
      refine ⟨?_, fun v hv => hA35 v (hinsA3 v hv), ?_, fun kv hkv => hA35 _ (hinitA3 kv hkv), ?_, trivial, m5⟩
      · refine (Eq.trans (List.map_congr_left (fun v hv => ?_)) hsig1).symm
        rw [h35 v (hinsA3 v hv), ← hA3, List.append_assoc A1 B2 B3]
        exact sig_append_of_mem (hinsA1 v hv)
      · -- the initializer dict
        have hnm : ∀ kv ∈ inits, ((s5.vals (sig (A1 ++ B2) kv.2)).name).getD "" = kv.1 := by
          intro kv hkv
          have hmem : kv.2 ∈ A5.map (·.1) := hA35 _ (hinitA3 kv hkv)
          have := r5.sig_name hmem
          rw [hA2A5 _ (hinitA2 kv hkv)] at this
          rw [this, (hbase kv hkv).1]
          rfl
        unfold mkGraphInits
        rw [initDict_fresh]
        · simp only [List.nil_append, List.map_map]
          apply List.map_congr_left
          intro kv hkv
          simp only [Function.comp]
          have e := hnm kv hkv
          rw [show ((setOwner (setOwner s5 s5.ng (fun c => { c with isIn := true }) (List.range' s.nv ins.length)) s5.ng
              (fun c => { c with isOut := true }) (outs.map (sig A5))).vals
              (sig (A1 ++ B2) kv.2)).name = (s5.vals _).name from
            (setOwner_name _ _ (fun c => { c with isOut := true }) (fun _ => rfl) _ _).trans
              (setOwner_name _ _ (fun c => { c with isIn := true }) (fun _ => rfl) _ _)]
          rw [e, hA2A5 _ (hinitA2 kv hkv)]
        · simp only [List.map_nil, List.nil_append, List.map_map]
          have : (inits.map ((fun x => (((setOwner (setOwner s5 s5.ng (fun c => { c with isIn := true })
              (List.range' s.nv ins.length)) s5.ng (fun c => { c with isOut := true }) (outs.map (sig A5))).vals x).name).getD "") ∘
              fun kv => sig (A1 ++ B2) kv.2)) = inits.map (·.1) := by
            apply List.map_congr_left
            intro kv hkv
            simp only [Function.comp]
            rw [show ((setOwner (setOwner s5 s5.ng (fun c => { c with isIn := true }) (List.range' s.nv ins.length)) s5.ng
                (fun c => { c with isOut := true }) (outs.map (sig A5))).vals
                (sig (A1 ++ B2) kv.2)).name = (s5.vals _).name from
              (setOwner_name _ _ (fun c => { c with isOut := true }) (fun _ => rfl) _ _).trans
                (setOwner_name _ _ (fun c => { c with isIn := true }) (fun _ => rfl) _ _)]
            exact hnm kv hkv
          rw [this]
          exact hkn
      · have := TreeRelNs.mono V (A3 ++ B4) B5 nodes nts tr4
        rw [hA5] at this
        exact TreeRelNs_setGraph V _ _ nodes nts this
    · -- the information of every emitted value
      rw [hAfull]
      -- values defined before the nodes were processed: input, initializer, named node output
      have hdefs : ∀ v, v ∈ ins ∨ v ∈ ri.new ∨ v ∈ rd.new → v ∉ outs →
          (s6.vals (sig A5 v)).info = (V v).info.emit := by
        intro v hv hvo
        have hmem3 : v ∈ A3.map (·.1) := (hk3 v).mpr (.inr hv)
        have hlt3 := r3.sig_lt hmem3
        rw [h35 v hmem3]
        have hno := hnotout v (mem_keys_append hmem3) hvo
        rw [sig_append_of_mem hmem3] at hno
        rw [hframe46 _ (Nat.lt_of_lt_of_le hlt3 l4) hno, (p4.cell _ hlt3).1]
        rcases hv with hvi' | hvni | hvl
        · -- a graph input
          have hm1 := hinsA1 v hvi'
          have e13 : sig A3 v = sig A1 v := by
            rw [← hA3, List.append_assoc]; exact sig_append_of_mem hm1
          rw [e13, (p3.cell _ (Nat.lt_of_lt_of_le (r1.sig_lt hm1) l2)).1, c3 _ (r1.sig_lt hm1)]
          exact hi1 v hvi'
        · -- an initializer of its own: the value_info entry carries its information
          have hm := replInits_new_sub V outs inits (tblIns V ins) v (by rw [hri]; exact hvni)
          simp only [List.mem_map] at hm
          obtain ⟨kv, hkv, rfl⟩ := hm
          have hm2 : kv.2 ∈ (A1 ++ B2).map (·.1) := hinitA2 kv hkv
          have e23 : sig A3 kv.2 = sig (A1 ++ B2) kv.2 := by
            rw [← hA3]; exact sig_append_of_mem hm2
          rw [e23, (p3.cell _ (r2.sig_lt hm2)).1, c1 kv hkv hvni]
          have hknm : nm V kv.2 = kv.1 := nm_of_name (hbase kv hkv).1
          have hkt : nameTruthy (V kv.2).name = true := by simp [nameTruthy, (hbase kv hkv).1, (hbase kv hkv).2.1]
          rcases hcases kv hkv with ⟨_, hln, _, hinfo⟩ | h
          · obtain ⟨hty, hsh⟩ := hinfo hvo
            have hscE : shouldCreateE (V kv.2) (x.vmeta kv.2) = true := by
              simp only [shouldCreateE, presentE, Info.present, Bool.and_eq_true, Bool.or_eq_true]
              exact ⟨.inl (.inl (by simpa [Option.isSome_iff_ne_none] using hty)), hkt⟩
            have hlook : vi.lookup kv.1 = some (V kv.2).info.emit := by
              rw [hviLook, ← hknm, hvtEntry kv.2 (.inl hvni) hscE]; rfl
            simp only [initInfo, hlook]
            exact emit_orTensor hty hsh
          · exact absurd rfl (hdisjI kv.2 (tblIns_lookup_some V ins _ _ h).1 kv.2 hvni)
        · -- a named node output that is not a graph output
          have hvl' := hvl
          rw [hdnew, List.mem_filter] at hvl'
          obtain ⟨hvf, ht⟩ := hvl'
          rw [i3 v hvl]
          cases hsc : shouldCreateE (V v) (x.vmeta v) with
          | true =>
            have hlook : vi.lookup (nm V v) = some (V v).info.emit := by
              rw [hviLook, hvtEntry v (.inr ⟨hvl, hvo⟩) hsc]; rfl
            simp only [declInfo, hlook]
          | false =>
            have hlook : vi.lookup (nm V v) = none := by
              rw [hviLook, hvtNone v (hT3n v (.inr hvl)) hsc]; rfl
            simp only [declInfo, hlook]
            have hnp : (V v).info.present = false := by
              simp only [shouldCreateE, presentE, ht, Bool.and_true, Bool.or_eq_false_iff] at hsc
              exact hsc.1
            exact (emit_of_not_present hnp).symm
      -- values created while the nodes were processed
      have hB4 : ∀ w, w ∈ emitSubNs V nodes →
          w ∉ outs → (s6.vals (sig A5 w)).info = (V w).info.emit := by
        intro w hw hwo
        obtain ⟨hmem, hinfo⟩ := io4 w hw
        rw [h45 w hmem, hframe46 _ (r4.sig_lt hmem) (hnotout w hmem hwo)]
        exact hinfo
      intro v hv
      by_cases hvo : v ∈ outs
      · -- a graph output takes what its output entry says
        refine ⟨m5 v hvo, ?_⟩
        have hlt5 : sig A5 v < s5.nv := r5.sig_lt (m5 v hvo)
        rw [(p6.cell _ hlt5).1]
        exact o8 v hvo
      · simp only [emitG, List.mem_append] at hv
        rcases hv with (((hv | hv) | hv) | hv) | hv
        · exact ⟨hA35 v (hinsA3 v hv), hdefs v (.inl hv) hvo⟩
        · simp only [List.mem_map] at hv
          obtain ⟨kv, hkv, rfl⟩ := hv
          refine ⟨hA35 _ (hinitA3 kv hkv), ?_⟩
          rcases hcases kv hkv with ⟨h1, _⟩ | h
          · exact hdefs kv.2 (.inr (.inl h1)) hvo
          · exact hdefs kv.2 (.inl (tblIns_lookup_some V ins _ _ h).1) hvo
        · have hvl : v ∈ rd.new := by rw [hdnew]; exact hv
          exact ⟨hA35 v ((hk3 v).mpr (.inr (.inr (.inr hvl)))), hdefs v (.inr (.inr hvl)) hvo⟩
        · exact absurd hv hvo
        · exact ⟨(hk5 v).mpr (.inl (io4 v hv).1), hB4 v hv hvo⟩
    · -- the initializer tensors
      rw [hAfull]
      intro kv hkv
      simp only [allInitsG, List.mem_append] at hkv
      rcases hkv with hkv | hkv
      · refine ⟨hA35 _ (hinitA3 kv hkv), hconst kv hkv, fun t ht => ?_⟩
        obtain ⟨t', h1, h2, h3⟩ := c2 kv hkv
        have hm2 := hinitA2 kv hkv
        have hlt2 := r2.sig_lt hm2
        refine ⟨t', ?_, ?_, ?_, ?_⟩
        · rw [hA2A5 _ hm2, hconst46 _ (Nat.lt_of_lt_of_le hlt2 (Nat.le_trans l3 l4)),
            (p4.cell _ (Nat.lt_of_lt_of_le hlt2 l3)).2, (p3.cell _ hlt2).2]
          exact h1
        · have := p3.nt_le
          have := p4.nt_le
          have := p6.nt_le
          rw [o7] at this
          omega
        · rw [htens46 t' (Nat.lt_of_lt_of_le h2 (Nat.le_trans p3.nt_le p4.nt_le)),
            p4.tens t' (Nat.lt_of_lt_of_le h2 p3.nt_le), p3.tens t' h2, h3]
        · simp only [Store.tdata]
          rw [htens46 t' (Nat.lt_of_lt_of_le h2 (Nat.le_trans p3.nt_le p4.nt_le)),
            p4.tens t' (Nat.lt_of_lt_of_le h2 p3.nt_le), p3.tens t' h2, h3]
          simp [mkT, ht]
      · obtain ⟨hmem, hne, hc⟩ := co4 kv hkv
        refine ⟨(hk5 _).mpr (.inl hmem), hne, fun t ht => ?_⟩
        obtain ⟨t', h1, h2, h3, h4⟩ := hc t ht
        refine ⟨t', ?_, ?_, ?_, ?_⟩
        · rw [h45 _ hmem, hconst46 _ (r4.sig_lt hmem)]; exact h1
        · have := p6.nt_le
          rw [o7] at this
          omega
        · rw [htens46 t' h2]; exact h3
        · simp only [Store.tdata] at h4 ⊢
          rw [htens46 t' h2]; exact h4
    · -- the extension state is fresh above the allocation counter
      intro d hd
      exact om4 d (by rw [c1'] at hd; exact hd)
    · -- metadata of every emitted value
      rw [hAfull]
      intro v hv
      by_cases hvo : v ∈ outs
      · exact ⟨m5 v hvo, om1 v hvo⟩
      · simp only [emitG, List.mem_append] at hv
        rcases hv with (((hv | hv) | hv) | hv) | hv
        · exact ⟨hA35 v (hinsA3 v hv), hm4 v (.inl hv) hvo⟩
        · simp only [List.mem_map] at hv
          obtain ⟨kv, hkv, rfl⟩ := hv
          refine ⟨hA35 _ (hinitA3 kv hkv), ?_⟩
          rcases hinitcls kv hkv with h | h
          · exact hm4 kv.2 (.inl h) hvo
          · exact hm4 kv.2 (.inr (.inl h)) hvo
        · have hvl : v ∈ rd.new := by rw [hdnew]; exact hv
          exact ⟨hA35 v ((hk3 v).mpr (.inr (.inr (.inr hvl)))), hm4 v (.inr (.inr hvl)) hvo⟩
        · exact absurd hv hvo
        · obtain ⟨hm, he⟩ := mo4 v hv
          exact ⟨(hk5 v).mpr (.inl hm), by rw [h45 v hm, om2 _ (hnotout v hm hvo)]; exact he⟩
    · -- annotation of every value whose annotation the serializer looks at
      rw [hAfull]
      intro v hv
      simp only [emitQG, List.mem_append] at hv
      rcases hv with (((hv | hv) | hv) | hv) | hv
      · exact ⟨hA35 v (hinsA3 v hv), by rw [om3, hq4 v (.inl hv), hqOf v (hrole v (.inl hv))]⟩
      · have hv' := hv
        simp only [List.mem_map] at hv'
        obtain ⟨kv, hkv, rfl⟩ := hv'
        refine ⟨hA35 _ (hinitA3 kv hkv), ?_⟩
        rw [om3, ← hqOf kv.2 (hrole _ (.inr (.inl hv)))]
        rcases hinitcls kv hkv with h | h
        · exact hq4 kv.2 (.inl h)
        · exact hq4 kv.2 (.inr (.inl h))
      · by_cases ht : nameTruthy (V v).name = true
        · have hvl : v ∈ rd.new := by rw [hdnew, List.mem_filter]; exact ⟨hv, ht⟩
          exact ⟨hA35 v ((hk3 v).mpr (.inr (.inr (.inr hvl)))),
            by rw [om3, hq4 v (.inr (.inr hvl)), hqOf v (hrole v (.inr (.inr (.inl hvl))))]⟩
        · have hf : nameTruthy (V v).name = false := by simpa using ht
          obtain ⟨hm, he⟩ := lq4 v hv hf
          have hxq : x.quant v = none := by
            simp only [List.mem_flatMap] at hv
            obtain ⟨n, hn', hvn'⟩ := hv
            obtain ⟨i, g, a, b, c⟩ := n
            exact hquiet _ hn' v (stripTrailing_sub V b v hvn') hf
          exact ⟨(hk5 v).mpr (.inl hm), by rw [om3, h45 v hm, he, hxq]; rfl⟩
      · refine ⟨m5 v hv, ?_⟩
        rcases hsplit v hv with hb | ⟨_, hvnew⟩
        · have hmem := t4.lookup hb
          rw [om3, h45 v hmem, tq4 _ (lookup_mem_tbl hb)]
          exact hqOf v (hrole v (.inr (.inr (.inr hv))))
        · have hB5 : v ∈ B5.map (·.1) := by rw [k5]; exact hvnew
          have hmem5 := sig_append_new (hronotA v hvnew) hB5
          rw [hA5] at hmem5
          rw [om3, (xf4 _ (g5 _ hmem5)).2, hC3 v hvnew]
          rfl
      · obtain ⟨hm, he⟩ := qo4 v hv
        exact ⟨(hk5 v).mpr (.inl hm), by rw [om3, h45 v hm]; exact he⟩
    · -- the node counter
      rw [c2', hnn5, ← hnn3]; exact nn4
    · -- the device configurations of the nodes that were there before
      intro k hk
      rw [hd5, fr4 k (by rw [hnn3]; exact hk), hd3]
    · -- the trace of the device configurations
      rw [hAfull, hsnd6]
      simp only [DevTrG]
      rw [hri, hrd]
      apply DevTrNs_setGraph
      have := DevTrNs.mono (x' := x5) (hi' := s6.nn) B5 (by rw [c2', hnn5]; exact Nat.le_refl _)
        (fun k _ => by rw [hd5]) outer rd.tbl nodes nps nts dt4
      rw [hA5] at this
      exact this
theorem rtE_nodes (V : Nat → ValueS) (x : Ext) (td : TData) (ver : Option Int) (hwf : ExtWF x) :
    ∀ (nodes : List NodeT) (s : Store) (xs : Ext) (A : Assoc) (T : Table) (outer : List Table) (annot : Bool)
      (gouts : List Nat) (vt : List (Name × Info × SS)) (qt : List (Name × SS)) (I : List Nat)
      (nps : List NodeE) (qs : List QuantP) (vis : List VInfoE) (ws : Writes),
      serNodesE V x td ver annot gouts nodes = .ok (nps, qs, vis, ws) → (replNs V outer T nodes).ok →
      (replNs V outer T nodes).new.Nodup → extNs V x outer T nodes →
      (∀ v ∈ (replNs V outer T nodes).new, v ∉ A.map (·.1)) →
      TblIn A T → (∀ T' ∈ outer, TblIn A T') → RS V s A → Fresh s → ExtFresh s xs →
      TblQ xs A qt T → TblM xs A vt I T →
      ∃ (s' : Store) (x' : Ext) (nts : List NodeT) (B : Assoc),
        deserNodesE s xs (mapT A T) (outer.map (mapT A)) vt qt nps =
          .ok (s', x', mapT (A ++ B) (replNs V outer T nodes).tbl, nts) ∧
        RS V s' (A ++ B) ∧ s.nv ≤ s'.nv ∧ B.map (·.1) = (replNs V outer T nodes).new ∧
        TblIn (A ++ B) (replNs V outer T nodes).tbl ∧
        TreeRelNs V (A ++ B) nodes nts ∧ Fresh s' ∧ Prim s.nv s s' ∧
        InfoOK2 V s' (A ++ B) (emitSubNs V nodes) ∧
        ConstOK2 V td s' (A ++ B) (allInitsNs nodes) ∧
        ExtFresh s' x' ∧ XKeep s.nv xs x' ∧ (∀ e ∈ B, s.nv ≤ e.2) ∧
        TblQ x' (A ++ B) qt (replNs V outer T nodes).tbl ∧ TblM x' (A ++ B) vt I (replNs V outer T nodes).tbl ∧
        MetaOKk x x' (A ++ B) (emitSubNs V nodes) ∧ QuantOKk x x' (A ++ B) (emitQSubNs V nodes) ∧
        (∀ v ∈ nodes.flatMap (liveOuts V), nameTruthy (V v).name = false →
          v ∈ (A ++ B).map (·.1) ∧ x'.quant (sig (A ++ B) v) = none) ∧
        s.nn ≤ s'.nn ∧ (∀ k, k < s.nn → x'.devs k = xs.devs k) ∧ DevTrNs V x' s'.nn (A ++ B) outer T nodes nps nts
  | [], s, xs, A, T, outer, annot, gouts, vt, qt, I, nps, qs, vis, ws, hser, _, _, _, _, hT, _, hrs, hfr, hxf, hTQ, hTM => by
    simp only [serNodesE, Except.ok.injEq, Prod.mk.injEq] at hser
    obtain ⟨rfl, _, _⟩ := hser
    exact ⟨s, xs, [], [], by simp [deserNodesE, replNs], by simpa using hrs, Nat.le_refl _, by simp [replNs],
      by simpa [replNs] using hT, by simp [TreeRelNs], hfr, Prim.refl _ _, by simp [InfoOK2, emitSubNs],
      by simp [ConstOK2, allInitsNs], hxf, XKeep.refl _ _, by simp, by simpa [replNs] using hTQ,
      by simpa [replNs] using hTM, by simp [MetaOKk, emitSubNs], by simp [QuantOKk, emitQSubNs], by simp,
      Nat.le_refl _, fun _ _ => rfl, by simp only [DevTrNs]⟩
  | n :: rest, s, xs, A, T, outer, annot, gouts, vt, qt, I, nps, qs, vis, ws, hser, hok, hnd, hext, hnew, hT, hO, hrs,
      hfr, hxf, hTQ, hTM => by
    obtain ⟨np, q1, vi1, ws1, nps', qs', vis', ws2, h1, h2, rfl, _, _⟩ := xserNodes_inv hser
    simp only [replNs] at hok hnd hnew ⊢
    simp only [extNs] at hext
    rw [List.nodup_append] at hnd
    obtain ⟨s1, x1, n', B1, e1, r1, l1, k1, t1, tr1, f1, p1, io1, co1, xf1, xk1, ge1, tq1, tm1, mo1, qo1, lq1,
      nn1, fr1, dt1⟩ :=
      rtE_node V x td ver hwf n s xs A T outer annot gouts vt qt I np q1 vi1 ws1 h1
        hok.1 hnd.1 hext.1 (fun v hv => hnew v (by simp [hv])) hT hO hrs hfr hxf hTQ hTM
    have hO1 : ∀ T' ∈ outer, TblIn (A ++ B1) T' := fun T' hT' => (hO T' hT').append _
    obtain ⟨s2, x2, nts, B2, e2, r2, l2, k2, t2, tr2, f2, p2, io2, co2, xf2, xk2, ge2, tq2, tm2, mo2, qo2, lq2,
      nn2, fr2, dt2⟩ :=
      rtE_nodes V x td ver hwf rest s1 x1 (A ++ B1) (replN V outer T n).tbl outer annot gouts vt qt I nps' qs' vis' ws2
        h2 hok.2 hnd.2.1 hext.2
        (fun v hv hm => by
          rw [List.map_append, List.mem_append, k1] at hm
          rcases hm with hm | hm
          · exact hnew v (by simp [hv]) hm
          · exact hnd.2.2 v hm v hv rfl)
        t1 hO1 r1 f1 xf1 tq1 tm1
    rw [maps_extend B1 hO] at e2
    refine ⟨s2, x2, n' :: nts, B1 ++ B2, ?_, by simpa [List.append_assoc] using r2, Nat.le_trans l1 l2, ?_, ?_, ?_, f2,
      p1.trans (p2.weaken l1), ?_, ?_, xf2, xk1.trans (xk2.weaken l1), ?_, ?_, ?_, ?_, ?_, ?_, Nat.le_trans nn1 nn2,
      fun k hk => by rw [fr2 k (Nat.lt_of_lt_of_le hk nn1), fr1 k hk], ?_⟩
    · simp only [deserNodesE, e1, e2, List.append_assoc]
    · simp [k1, k2]
    · rw [← List.append_assoc]; exact t2
    · simp only [TreeRelNs]
      rw [← List.append_assoc]
      exact ⟨TreeRelN.mono V (A ++ B1) B2 n n' tr1, tr2⟩
    · rw [← List.append_assoc]
      have io1' := io1.step (B := B2) r1 p2
      intro v hv
      simp only [emitSubNs, List.mem_append] at hv
      rcases hv with hv | hv
      · exact io1' v hv
      · exact io2 v hv
    · rw [← List.append_assoc]
      have co1' := co1.step (B := B2) r1 p2
      intro kv hkv
      simp only [allInitsNs, List.mem_append] at hkv
      rcases hkv with hkv | hkv
      · exact co1' kv hkv
      · exact co2 kv hkv
    · intro e he
      simp only [List.mem_append] at he
      rcases he with he | he
      · exact ge1 e he
      · exact Nat.le_trans l1 (ge2 e he)
    · rw [← List.append_assoc]; exact tq2
    · rw [← List.append_assoc]; exact tm2
    · rw [← List.append_assoc]
      have mo1' := mo1.step (B := B2) r1 xk2
      intro v hv
      simp only [emitSubNs, List.mem_append] at hv
      rcases hv with hv | hv
      · exact mo1' v hv
      · exact mo2 v hv
    · rw [← List.append_assoc]
      have qo1' := qo1.step (B := B2) r1 xk2
      intro v hv
      simp only [emitQSubNs, List.mem_append] at hv
      rcases hv with hv | hv
      · exact qo1' v hv
      · exact qo2 v hv
    · rw [← List.append_assoc]
      intro v hv hf
      simp only [List.flatMap_cons, List.mem_append] at hv
      rcases hv with hv | hv
      · obtain ⟨hm, he⟩ := lq1 v hv hf
        exact ⟨mem_keys_append hm, by rw [sig_append_of_mem hm, xk2.quant _ (r1.sig_lt hm)]; exact he⟩
      · exact lq2 v hv hf
    · rw [← List.append_assoc]
      simp only [DevTrNs]
      exact ⟨DevTrN.mono B2 nn2 fr2 outer T n np n' dt1, dt2⟩
theorem rtE_node (V : Nat → ValueS) (x : Ext) (td : TData) (ver : Option Int) (hwf : ExtWF x) :
    ∀ (n : NodeT) (s : Store) (xs : Ext) (A : Assoc) (T : Table) (outer : List Table) (annot : Bool)
      (gouts : List Nat) (vt : List (Name × Info × SS)) (qt : List (Name × SS)) (I : List Nat)
      (np : NodeE) (qs : List QuantP) (vis : List VInfoE) (ws : Writes),
      serNodeE V x td ver annot gouts n = .ok (np, qs, vis, ws) → (replN V outer T n).ok →
      (replN V outer T n).new.Nodup → extN V x outer T n →
      (∀ v ∈ (replN V outer T n).new, v ∉ A.map (·.1)) →
      TblIn A T → (∀ T' ∈ outer, TblIn A T') → RS V s A → Fresh s → ExtFresh s xs →
      TblQ xs A qt T → TblM xs A vt I T →
      ∃ (s' : Store) (x' : Ext) (n' : NodeT) (B : Assoc),
        deserNodeE s xs (mapT A T) (outer.map (mapT A)) vt qt np =
          .ok (s', x', mapT (A ++ B) (replN V outer T n).tbl, n') ∧
        RS V s' (A ++ B) ∧ s.nv ≤ s'.nv ∧ B.map (·.1) = (replN V outer T n).new ∧
        TblIn (A ++ B) (replN V outer T n).tbl ∧
        TreeRelN V (A ++ B) n n' ∧ Fresh s' ∧ Prim s.nv s s' ∧
        InfoOK2 V s' (A ++ B) (emitSubN V n) ∧
        ConstOK2 V td s' (A ++ B) (allInitsN n) ∧
        ExtFresh s' x' ∧ XKeep s.nv xs x' ∧ (∀ e ∈ B, s.nv ≤ e.2) ∧
        TblQ x' (A ++ B) qt (replN V outer T n).tbl ∧ TblM x' (A ++ B) vt I (replN V outer T n).tbl ∧
        MetaOKk x x' (A ++ B) (emitSubN V n) ∧ QuantOKk x x' (A ++ B) (emitQSubN V n) ∧
        (∀ v ∈ liveOuts V n, nameTruthy (V v).name = false →
          v ∈ (A ++ B).map (·.1) ∧ x'.quant (sig (A ++ B) v) = none) ∧
        s.nn ≤ s'.nn ∧ (∀ k, k < s.nn → x'.devs k = xs.devs k) ∧ DevTrN V x' s'.nn (A ++ B) outer T n np n'
  | .mk i g ins outs subs, s, xs, A, T, outer, annot, gouts, vt, qt, I, np, qs, vis, ws, hser, hok, hnd, hext, hnew, hT,
      hO, hrs, hfr, hxf, hTQ, hTM => by
    obtain ⟨gps, ds, hs, _, _, rfl, _, _⟩ := xserNode_inv hser
    simp only [replN] at hok hnd hnew ⊢
    simp only [extN] at hext
    obtain ⟨_, hextG⟩ := hext
    obtain ⟨okR, houtn, hlook, okG⟩ := hok
    rw [List.nodup_append] at hnd
    obtain ⟨hnd12, hndG, hdisjG⟩ := hnd
    rw [List.nodup_append] at hnd12
    obtain ⟨hndR, hndE, hdisjE⟩ := hnd12
    -- inputs
    obtain ⟨B1, s1, e1, r1, k1, t1, l1, m1, g1⟩ := rt2_resolveInputs V (eraseVT vt) outer ins s A T hrs hT hO okR hndR
      (fun v hv => hnew v (by simp [hv]))
    have f1 : Fresh s1 := by
      have := resolveInputs_fresh (outer.map (mapT A)) (eraseVT vt) (ins.map (inName V)) s (mapT A T) hfr
      rw [e1] at this; exact this
    have p1 : Prim s.nv s s1 := by
      have := resolveInputs_prim s.nv (outer.map (mapT A)) (eraseVT vt) (ins.map (inName V)) s (mapT A T) (Nat.le_refl _)
      rw [e1] at this; exact this
    obtain ⟨x1, e1E, ns1⟩ := resolveE_bridge (outer.map (mapT A)) vt qt (ins.map (inName V)) s xs (mapT A T) s1 _ _ e1 hxf
    have hnn1 : s1.nn = s.nn := nn_of_resolve e1
    have hd1 : x1.devs = xs.devs := devs_of_resolveE e1E
    have htr := replRes_truthy V outer ins T okR
    have hresmem := replRes_tbl_mem V outer ins T
    generalize hT1 : (replRes V outer T ins).tbl = T1 at *
    have hnotAB1 : ∀ v ∈ stripTrailing V outs, ¬ nameTruthy (V v).name = true → v ∉ (A ++ B1).map (·.1) := by
      intro v hv hf hm
      have hvE : v ∈ (stripTrailing V outs).filter (fun v => !nameTruthy (V v).name) :=
        List.mem_filter.mpr ⟨hv, by simpa using hf⟩
      rw [List.map_append, List.mem_append, k1] at hm
      rcases hm with hm | hm
      · exact hnew v (by simp [hvE]) hm
      · exact hdisjE v hm v hvE rfl
    -- outputs
    obtain ⟨B2, s2, e2, r2, k2, l2, fr2, io2, g2, tn2, nt2⟩ := rt2_lookupOutputs V (mapT (A ++ B1) T1)
      (stripTrailing V outs) s1 (A ++ B1) r1 houtn hndE
      (fun v hv ht => ⟨by rw [lookup_mapT, hlook v hv ht]; rfl, t1.lookup (hlook v hv ht)⟩)
      hnotAB1
    have f2 : Fresh s2 := ((lookupOutputs_spec _ _ _ _ _ e2).1).fresh f1
    have hnn2 : s2.nn = s1.nn := ((lookupOutputs_spec _ _ _ _ _ e2).1).nn_eq
    have p2 : Prim s1.nv s1 s2 := ⟨fun v hv => by rw [fr2 v hv]; exact ⟨rfl, rfl⟩, by rw [nt2]; exact Nat.le_refl _,
      fun t _ => by rw [tn2]⟩
    -- nested graphs
    have hT12 : TblIn (A ++ B1 ++ B2) T1 := t1.append _
    have hO12 : ∀ T' ∈ T1 :: outer, TblIn (A ++ B1 ++ B2) T' := by
      intro T' hT'
      simp only [List.mem_cons] at hT'
      rcases hT' with rfl | hT'
      · exact hT12
      · exact ((hO T' hT').append _).append _
    obtain ⟨s3, x3, gts, B3, e3, r3, l3, k3, tr3, f3, p3, io3, co3, xf3, xk3, ge3, mo3, qo3, nn3, fr3, dt3⟩ :=
      rtE_subs V x td ver hwf subs s2 x1 (A ++ B1 ++ B2) (T1 :: outer) gps ws hs okG hndG hextG
        (fun v hv hm => by
          rw [List.map_append, List.mem_append, k2, List.map_append, List.mem_append, k1] at hm
          rcases hm with (hm | hm) | hm
          · exact hnew v (by simp [hv]) hm
          · exact hdisjG v (by simp [hm]) v hv rfl
          · exact hdisjG v (by simp [hm]) v hv rfl)
        hO12 r2 f2 (ns1.fresh.mono l2)
    have hscopes : (T1 :: outer).map (mapT (A ++ B1 ++ B2)) = mapT (A ++ B1) T1 :: outer.map (mapT A) := by
      simp only [List.map_cons]
      rw [mapT_extend B2 t1, List.append_assoc, maps_extend (B1 ++ B2) hO]
    rw [hscopes] at e3
    have hLkeys : ∀ v ∈ stripTrailing V outs, v ∈ (A ++ B1 ++ B2).map (·.1) := by
      intro v hv
      by_cases ht : nameTruthy (V v).name = true
      · exact mem_keys_append (t1.lookup (hlook v hv ht))
      · rw [List.map_append, List.mem_append, k2]
        exact .inr (List.mem_filter.mpr ⟨hv, by simpa using ht⟩)
    -- the node object
    have pm := mkNode_prim s3.nv s3 (ins.map (Option.map (sig (A ++ B1)))) ((stripTrailing V outs).map (sig (A ++ B1 ++ B2))) gts
    have r4 : RS V (mkNode s3 (ins.map (Option.map (sig (A ++ B1)))) ((stripTrailing V outs).map (sig (A ++ B1 ++ B2))) gts).1
        (A ++ B1 ++ B2 ++ B3) :=
      r3.same_nv (mkNode_fst_nv _ _ _ _) (fun w => (mkNode_keeps _ _ _ _ w).1)
    have f4 : Fresh (mkNode s3 (ins.map (Option.map (sig (A ++ B1)))) ((stripTrailing V outs).map (sig (A ++ B1 ++ B2))) gts).1 := by
      apply mkNode_fresh _ _ _ _ f3
      · intro v hv
        simp only [List.mem_map] at hv
        obtain ⟨o, ho, he⟩ := hv
        cases o with
        | none => simp at he
        | some w =>
          simp only [Option.map_some, Option.some.injEq] at he
          subst he
          exact Nat.lt_of_lt_of_le (r1.sig_lt (m1 w ho)) (Nat.le_trans l2 l3)
      · intro v hv
        simp only [List.mem_map] at hv
        obtain ⟨w, hw, rfl⟩ := hv
        exact Nat.lt_of_lt_of_le (r2.sig_lt (hLkeys w hw)) l3
    have hB : A ++ (B1 ++ B2 ++ B3) = A ++ B1 ++ B2 ++ B3 := by simp [List.append_assoc]
    have le12 : s.nv ≤ s2.nv := Nat.le_trans l1 l2
    -- extension state
    have xk13 : XKeep s1.nv x1 x3 := xk3.weaken l2
    have xkall : XKeep s.nv xs (x3.setDevs s3.nn (ds.map (deserDevR (mapT (A ++ B1) T1 :: outer.map (mapT A))))) :=
      (ns1.keep.trans (xk13.weaken l1)).trans (XKeep.setDevs _ _ _ _)
    have hnewfacts : ∀ e ∈ T1, e ∈ T ∨
        (x3.quant (sig (A ++ B1 ++ B2 ++ B3) e.2) = quantOf qt e.1 ∧
         x3.vmeta (sig (A ++ B1 ++ B2 ++ B3) e.2) = metaOf vt e.1) := by
      intro e he
      rcases hresmem e he with h | ⟨h1, h2⟩
      · exact .inl h
      · right
        have hB1 : e.2 ∈ B1.map (·.1) := by rw [k1]; exact h1
        have hnA : e.2 ∉ A.map (·.1) := hnew e.2 (by simp [h1])
        have hm1 : e.2 ∈ (A ++ B1).map (·.1) := by rw [List.map_append, List.mem_append]; exact .inr hB1
        have hmem := sig_append_new hnA hB1
        have hge := g1 _ hmem
        have hlt := r1.sig_lt hm1
        obtain ⟨n, hn1, hn2, hn3⟩ := ns1.new _ hge hlt
        have hname : (V e.2).name = some n := by rw [← r1.sig_name hm1]; exact hn1
        have hsg : sig (A ++ B1 ++ B2 ++ B3) e.2 = sig (A ++ B1) e.2 := by
          rw [List.append_assoc (A ++ B1)]; exact sig_append_of_mem hm1
        rw [hsg, xk13.quant _ hlt, xk13.vmeta _ hlt, h2, nm_of_name hname]
        exact ⟨hn3, hn2⟩
    refine ⟨(mkNode s3 (ins.map (Option.map (sig (A ++ B1)))) ((stripTrailing V outs).map (sig (A ++ B1 ++ B2))) gts).1,
      x3.setDevs s3.nn (ds.map (deserDevR (mapT (A ++ B1) T1 :: outer.map (mapT A)))),
      (mkNode s3 (ins.map (Option.map (sig (A ++ B1)))) ((stripTrailing V outs).map (sig (A ++ B1 ++ B2))) gts).2,
      B1 ++ B2 ++ B3, ?_, by rw [hB]; exact r4, ?_, ?_, ?_, ?_, f4,
      ((p1.trans (p2.weaken l1)).trans (p3.weaken (Nat.le_trans l1 l2))).trans (pm.weaken (Nat.le_trans l1 (Nat.le_trans l2 l3))),
      ?_, ?_, ?_, xkall, ?_, ?_, ?_, ?_, ?_, ?_, ?_, ?_, ?_⟩
    · simp only [deserNodeE, e1E, e2, e3, hB]
      rw [mapT_extend B3 hT12, mapT_extend B2 t1]
    · rw [mkNode_fst_nv]; exact Nat.le_trans l1 (Nat.le_trans l2 l3)
    · simp [k1, k2, k3, liveOuts]
    · rw [hB]; exact hT12.append _
    · rw [mkNode_snd, hB]
      simp only [TreeRelN]
      refine ⟨?_, fun v hv => mem_keys_append (mem_keys_append (m1 v hv)), ?_, ?_, tr3⟩
      · apply List.map_congr_left
        intro o ho
        cases o with
        | none => rfl
        | some v =>
          simp only [Option.map_some, Option.some.injEq]
          rw [List.append_assoc (A ++ B1), sig_append_of_mem (m1 v ho)]
      · rw [map_sig_append hLkeys]
      · intro v hv
        exact mem_keys_append (hLkeys v hv)
    · rw [hB]
      intro v hv
      simp only [emitSubN] at hv
      obtain ⟨hm, hi⟩ := io3 v hv
      refine ⟨hm, ?_⟩
      rw [(pm.cell _ (r3.sig_lt hm)).1]; exact hi
    · rw [hB]
      have := co3.prim r3 pm
      simpa [allInitsN] using this
    · intro d hd
      rw [mkNode_fst_nv] at hd
      exact xf3 d hd
    · intro e he
      simp only [List.mem_append] at he
      rcases he with (he | he) | he
      · exact g1 e he
      · exact Nat.le_trans l1 (g2 e he)
      · exact Nat.le_trans le12 (ge3 e he)
    · rw [hB]
      intro e he
      rcases hnewfacts e he with h | h
      · have hm := hT e h
        have hsg : sig (A ++ B1 ++ B2 ++ B3) e.2 = sig A e.2 := by
          rw [List.append_assoc, List.append_assoc]; exact sig_append_of_mem hm
        rw [hsg]
        show x3.quant (sig A e.2) = _
        rw [xk13.quant _ (Nat.lt_of_lt_of_le (hrs.sig_lt hm) l1), ns1.quant _ (hrs.sig_lt hm)]
        exact hTQ e h
      · exact h.1
    · rw [hB]
      intro e he hI
      rcases hnewfacts e he with h | h
      · have hm := hT e h
        have hsg : sig (A ++ B1 ++ B2 ++ B3) e.2 = sig A e.2 := by
          rw [List.append_assoc, List.append_assoc]; exact sig_append_of_mem hm
        rw [hsg]
        show x3.vmeta (sig A e.2) = _
        rw [xk13.vmeta _ (Nat.lt_of_lt_of_le (hrs.sig_lt hm) l1), ns1.vmeta _ (hrs.sig_lt hm)]
        exact hTM e h hI
      · exact h.2
    · rw [hB]
      intro v hv
      simp only [emitSubN] at hv
      exact mo3 v hv
    · rw [hB]
      intro v hv
      simp only [emitQSubN] at hv
      exact qo3 v hv
    · rw [hB]
      intro v hv hf
      simp only [liveOuts] at hv
      have hnt : ¬ nameTruthy (V v).name = true := by simp [hf]
      have hB2 : v ∈ B2.map (·.1) := by
        rw [k2]; exact List.mem_filter.mpr ⟨hv, by simp [hf]⟩
      have hm2 : v ∈ (A ++ B1 ++ B2).map (·.1) := hLkeys v hv
      have hmem := sig_append_new (hnotAB1 v hv hnt) hB2
      have hge := g2 _ hmem
      have hlt := r2.sig_lt hm2
      refine ⟨mem_keys_append hm2, ?_⟩
      rw [sig_append_of_mem hm2]
      show x3.quant _ = none
      rw [xk3.quant _ hlt]
      exact (ns1.fresh _ hge).2
    · rw [mkNode_fst_nn, ← hnn1, ← hnn2]
      exact Nat.le_succ_of_le nn3
    · intro k hk
      have hk2 : k < s2.nn := by rw [hnn2, hnn1]; exact hk
      simp only [Ext.setDevs]
      rw [if_neg (Nat.ne_of_lt (Nat.lt_of_lt_of_le hk2 nn3)), fr3 k hk2, hd1]
    · rw [hB, mkNode_snd, mkNode_fst_nn]
      simp only [DevTrN]
      rw [hT1]
      have e1' : mapT (A ++ B1 ++ B2 ++ B3) T1 = mapT (A ++ B1) T1 := by
        rw [List.append_assoc (A ++ B1)]; exact mapT_extend _ t1
      have e2' : outer.map (mapT (A ++ B1 ++ B2 ++ B3)) = outer.map (mapT A) := by
        rw [List.append_assoc, List.append_assoc]; exact maps_extend _ hO
      refine ⟨⟨Nat.lt_succ_self _, hT12.append _, fun T' hT' => (hO12 T' (List.mem_cons_of_mem _ hT')).append _, ?_⟩,
        DevTrGs.frame (Nat.le_succ _) (fun k hk => ?_) _ _ _ _ dt3⟩
      · rw [e1', e2']
        simp only [Ext.setDevs, if_true]
      · simp only [Ext.setDevs]
        rw [if_neg (Nat.ne_of_lt hk)]
theorem rtE_subs (V : Nat → ValueS) (x : Ext) (td : TData) (ver : Option Int) (hwf : ExtWF x) :
    ∀ (subs : List GraphT) (s : Store) (xs : Ext) (A : Assoc) (scopes : List Table) (gps : List GraphE) (ws : Writes),
      serSubsE V x td ver subs = .ok (gps, ws) → (replGs V scopes subs).ok → (replGs V scopes subs).new.Nodup →
      extGs V x scopes subs →
      (∀ v ∈ (replGs V scopes subs).new, v ∉ A.map (·.1)) → (∀ T ∈ scopes, TblIn A T) → RS V s A → Fresh s →
      ExtFresh s xs →
      ∃ (s' : Store) (x' : Ext) (gts : List GraphT) (B : Assoc),
        deserSubsE s xs (scopes.map (mapT A)) gps = .ok (s', x', gts) ∧ RS V s' (A ++ B) ∧ s.nv ≤ s'.nv ∧
        B.map (·.1) = (replGs V scopes subs).new ∧ TreeRelGs V (A ++ B) subs gts ∧
        Fresh s' ∧ Prim s.nv s s' ∧ InfoOK2 V s' (A ++ B) (emitGs V subs) ∧
        ConstOK2 V td s' (A ++ B) (allInitsGs subs) ∧
        ExtFresh s' x' ∧ XKeep s.nv xs x' ∧ (∀ e ∈ B, s.nv ≤ e.2) ∧
        MetaOKk x x' (A ++ B) (emitGs V subs) ∧ QuantOKk x x' (A ++ B) (emitQGs V subs) ∧
        s.nn ≤ s'.nn ∧ (∀ k, k < s.nn → x'.devs k = xs.devs k) ∧ DevTrGs V x' s'.nn (A ++ B) scopes subs gps gts
  | [], s, xs, A, scopes, gps, ws, hser, _, _, _, _, _, hrs, hfr, hxf => by
    simp only [serSubsE, Except.ok.injEq, Prod.mk.injEq] at hser
    obtain ⟨rfl, _⟩ := hser
    exact ⟨s, xs, [], [], by simp [deserSubsE], by simpa using hrs, Nat.le_refl _, by simp [replGs],
      by simp [TreeRelGs], hfr, Prim.refl _ _, by simp [InfoOK2, emitGs], by simp [ConstOK2, allInitsGs],
      hxf, XKeep.refl _ _, by simp, by simp [MetaOKk, emitGs], by simp [QuantOKk, emitQGs],
      Nat.le_refl _, fun _ _ => rfl, by simp only [DevTrGs]⟩
  | g :: rest, s, xs, A, scopes, gps, ws, hser, hok, hnd, hext, hnew, hO, hrs, hfr, hxf => by
    obtain ⟨gp, ws1, gps', ws2, h1, h2, rfl⟩ := xserSubs_inv hser
    simp only [replGs] at hok hnd hnew ⊢
    simp only [extGs] at hext
    rw [List.nodup_append] at hnd
    obtain ⟨s1, x1, g', B1, e1, r1, l1, k1, tr1, f1, p1, io1, co1, xf1, xk1, ge1, mo1, qo1, nn1, fr1, dt1⟩ :=
      rtE_graph V x td ver hwf g s xs A scopes gp ws1 h1 hok.1 hnd.1 hext.1
        (fun v hv => hnew v (by simp [hv])) hO hrs hfr hxf
    have hO1 : ∀ T ∈ scopes, TblIn (A ++ B1) T := fun T hT => (hO T hT).append _
    obtain ⟨s2, x2, gts, B2, e2, r2, l2, k2, tr2, f2, p2, io2, co2, xf2, xk2, ge2, mo2, qo2, nn2, fr2, dt2⟩ :=
      rtE_subs V x td ver hwf rest s1 x1 (A ++ B1) scopes gps' ws2 h2 hok.2 hnd.2.1 hext.2
        (fun v hv hm => by
          rw [List.map_append, List.mem_append, k1] at hm
          rcases hm with hm | hm
          · exact hnew v (by simp [hv]) hm
          · exact hnd.2.2 v hm v hv rfl)
        hO1 r1 f1 xf1
    rw [maps_extend B1 hO] at e2
    refine ⟨s2, x2, g' :: gts, B1 ++ B2, ?_, by simpa [List.append_assoc] using r2, Nat.le_trans l1 l2, ?_, ?_, f2,
      p1.trans (p2.weaken l1), ?_, ?_, xf2, xk1.trans (xk2.weaken l1), ?_, ?_, ?_, Nat.le_trans nn1 nn2,
      fun k hk => by rw [fr2 k (Nat.lt_of_lt_of_le hk nn1), fr1 k hk], ?_⟩
    · simp only [deserSubsE, e1, e2]
    · simp [k1, k2]
    · simp only [TreeRelGs]
      rw [← List.append_assoc]
      exact ⟨TreeRelG.mono V (A ++ B1) B2 g g' tr1, tr2⟩
    · rw [← List.append_assoc]
      have io1' := io1.step (B := B2) r1 p2
      intro v hv
      simp only [emitGs, List.mem_append] at hv
      rcases hv with hv | hv
      · exact io1' v hv
      · exact io2 v hv
    · rw [← List.append_assoc]
      have co1' := co1.step (B := B2) r1 p2
      intro kv hkv
      simp only [allInitsGs, List.mem_append] at hkv
      rcases hkv with hkv | hkv
      · exact co1' kv hkv
      · exact co2 kv hkv
    · intro e he
      simp only [List.mem_append] at he
      rcases he with he | he
      · exact ge1 e he
      · exact Nat.le_trans l1 (ge2 e he)
    · rw [← List.append_assoc]
      have mo1' := mo1.step (B := B2) r1 xk2
      intro v hv
      simp only [emitGs, List.mem_append] at hv
      rcases hv with hv | hv
      · exact mo1' v hv
      · exact mo2 v hv
    · rw [← List.append_assoc]
      have qo1' := qo1.step (B := B2) r1 xk2
      intro v hv
      simp only [emitQGs, List.mem_append] at hv
      rcases hv with hv | hv
      · exact qo1' v hv
      · exact qo2 v hv
    · rw [← List.append_assoc]
      simp only [DevTrGs]
      exact ⟨DevTrG.mono B2 nn2 fr2 scopes g gp g' dt1, dt2⟩
end

end IrVerif.Scope

/-
The normalisation half of the rounding specification of the narrow float conversions of C04
(`Model/PyTensor.lean`): `bitLen m` is the position of the leading bit, hence `roundQ` is the
exponent of the unit in the last place of a NORMALISED significand (`2^mb <= r <= 2^(mb+1)`, the
upper end being the rounding carry) or the subnormal exponent `qmin` (`r <= 2^mb`), and the
assembled pattern `(q - qmin) * 2^mb + r` DECODES (`decF8`) to `r * 2^q`.
-/
import IrVerif.Model.PyTensor
namespace IrVerif.PyTensor

/-! ## the leading bit -/

theorem bitLenF_zero (fuel : Nat) : bitLenF fuel 0 = 0 := by
  cases fuel <;> simp [bitLenF]

theorem bitLenF_spec : ∀ (fuel m : Nat), m ≤ fuel → 0 < m →
    2 ^ (bitLenF fuel m - 1) ≤ m ∧ m < 2 ^ bitLenF fuel m ∧ 1 ≤ bitLenF fuel m
  | 0, m, h, hm => by omega
  | fuel + 1, m, h, hm => by
    have hne : m ≠ 0 := by omega
    simp only [bitLenF, hne, if_false]
    by_cases h2 : m / 2 = 0
    · have h1 : m = 1 := by omega
      subst h1
      have h0 : bitLenF fuel (1 / 2) = 0 := by
        have : (1 : Nat) / 2 = 0 := by decide
        rw [this]; exact bitLenF_zero fuel
      rw [h0]; decide
    · obtain ⟨a, b, c⟩ := bitLenF_spec fuel (m / 2) (by omega) (by omega)
      generalize bitLenF fuel (m / 2) = L at *
      have e1 : 1 + L - 1 = (L - 1) + 1 := by omega
      have e2 : 2 ^ (1 + L) = 2 ^ L * 2 := by rw [Nat.add_comm, Nat.pow_succ]
      have e3 : 2 ^ L = 2 ^ (L - 1) * 2 := by rw [← Nat.pow_succ]; congr 1; omega
      rw [e1, Nat.pow_succ, e2]
      refine ⟨by omega, by omega, by omega⟩

/-- `bitLen m` is the bit length: `2^(bitLen m - 1) <= m < 2^(bitLen m)` for `m > 0` -/
theorem bitLen_spec (m : Nat) (hm : 0 < m) :
    2 ^ (bitLen m - 1) ≤ m ∧ m < 2 ^ bitLen m ∧ 1 ≤ bitLen m :=
  bitLenF_spec m m (Nat.le_refl m) hm

/-! ## the rounded significand is normalised -/

theorem rne_step_bounds (m s : Nat) :
    m / 2 ^ s ≤ (if m % 2 ^ s > 2 ^ (s - 1) ∨ (m % 2 ^ s = 2 ^ (s - 1) ∧ m / 2 ^ s % 2 = 1) then m / 2 ^ s + 1 else m / 2 ^ s) ∧
    (if m % 2 ^ s > 2 ^ (s - 1) ∨ (m % 2 ^ s = 2 ^ (s - 1) ∧ m / 2 ^ s % 2 = 1) then m / 2 ^ s + 1 else m / 2 ^ s) ≤ m / 2 ^ s + 1 := by
  split <;> omega

/-- normal range: the leading bit of the input is at or above the smallest normal exponent -/
theorem roundR_normal (mb : Nat) (qmin : Int) (m : Nat) (e : Int) (hm : 0 < m)
    (hn : qmin ≤ e + bitLen m - 1 - mb) :
    roundQ mb qmin m e = e + bitLen m - 1 - mb ∧
    2 ^ mb ≤ roundR mb qmin m e ∧ roundR mb qmin m e ≤ 2 ^ (mb + 1) := by
  obtain ⟨hlo, hhi, hL⟩ := bitLen_spec m hm
  have hq : roundQ mb qmin m e = e + bitLen m - 1 - mb := by simp only [roundQ]; omega
  refine ⟨hq, ?_⟩
  simp only [roundR, hq]
  generalize bitLen m = L at *
  by_cases hc : e + (L : Int) - 1 - mb ≤ e
  · simp only [hc, if_true]
    obtain ⟨t, ht⟩ : ∃ t : Nat, (e - (e + (L : Int) - 1 - mb)).toNat = t := ⟨_, rfl⟩
    rw [ht]
    have h1 : mb = (L - 1) + t := by omega
    have h2 : mb + 1 = L + t := by omega
    have p1 : 2 ^ mb = 2 ^ (L - 1) * 2 ^ t := by rw [← Nat.pow_add, ← h1]
    have p2 : 2 ^ (mb + 1) = 2 ^ L * 2 ^ t := by rw [← Nat.pow_add, ← h2]
    rw [p1, p2]
    exact ⟨Nat.mul_le_mul_right _ hlo, Nat.mul_le_mul_right _ (Nat.le_of_lt hhi)⟩
  · simp only [hc, if_false]
    obtain ⟨s, hs⟩ : ∃ s : Nat, (e + (L : Int) - 1 - mb - e).toNat = s := ⟨_, rfl⟩
    rw [hs]
    have hb := rne_step_bounds m s
    have h1 : L - 1 = mb + s := by omega
    have h2 : L = (mb + 1) + s := by omega
    have p1 : 2 ^ (L - 1) = 2 ^ mb * 2 ^ s := by rw [← Nat.pow_add, ← h1]
    have p2 : 2 ^ L = 2 ^ (mb + 1) * 2 ^ s := by rw [← Nat.pow_add, ← h2]
    have hpos : 0 < 2 ^ s := Nat.two_pow_pos s
    have f1 : 2 ^ mb ≤ m / 2 ^ s := (Nat.le_div_iff_mul_le hpos).2 (by rw [← p1]; exact hlo)
    have f2 : m / 2 ^ s < 2 ^ (mb + 1) := (Nat.div_lt_iff_lt_mul hpos).2 (by rw [← p2]; exact hhi)
    omega

/-- subnormal range: the unit in the last place is the smallest subnormal `2^qmin` -/
theorem roundR_subnormal (mb : Nat) (qmin : Int) (m : Nat) (e : Int) (hm : 0 < m)
    (hn : e + bitLen m - 1 - mb < qmin) :
    roundQ mb qmin m e = qmin ∧ roundR mb qmin m e ≤ 2 ^ mb := by
  obtain ⟨hlo, hhi, hL⟩ := bitLen_spec m hm
  have hq : roundQ mb qmin m e = qmin := by simp only [roundQ]; omega
  refine ⟨hq, ?_⟩
  simp only [roundR, hq]
  generalize bitLen m = L at *
  by_cases hc : qmin ≤ e
  · simp only [hc, if_true]
    obtain ⟨t, ht⟩ : ∃ t : Nat, (e - qmin).toNat = t := ⟨_, rfl⟩
    rw [ht]
    have h1 : L + t ≤ mb := by omega
    have p1 : m * 2 ^ t ≤ 2 ^ L * 2 ^ t := Nat.mul_le_mul_right _ (Nat.le_of_lt hhi)
    have p2 : 2 ^ L * 2 ^ t ≤ 2 ^ mb := by
      rw [← Nat.pow_add]; exact Nat.pow_le_pow_right (by decide) h1
    omega
  · simp only [hc, if_false]
    obtain ⟨s, hs⟩ : ∃ s : Nat, (qmin - e).toNat = s := ⟨_, rfl⟩
    rw [hs]
    have hb := rne_step_bounds m s
    have h1 : L ≤ mb + s := by omega
    have hpos : 0 < 2 ^ s := Nat.two_pow_pos s
    have p1 : 2 ^ L ≤ 2 ^ mb * 2 ^ s := by
      rw [← Nat.pow_add]; exact Nat.pow_le_pow_right (by decide) h1
    have f2 : m / 2 ^ s < 2 ^ mb := (Nat.div_lt_iff_lt_mul hpos).2 (by omega)
    omega

/-- the two ranges together, in the form the decoding argument uses: with `d = q - qmin` the
    exponent field before the hidden bit is added, the pattern is `d * 2^mb + r`, `r <= 2^(mb+1)`,
    and `r` carries the hidden bit as soon as `d > 0` -/
theorem roundU_fields (mb : Nat) (qmin : Int) (m : Nat) (e : Int) (hm : 0 < m) :
    ∃ d : Nat, roundU mb qmin m e = d * 2 ^ mb + roundR mb qmin m e ∧
      roundQ mb qmin m e = qmin + d ∧ roundR mb qmin m e ≤ 2 ^ (mb + 1) ∧
      (0 < d → 2 ^ mb ≤ roundR mb qmin m e) ∧
      (129 ≤ e + bitLen m - 1 → mb = 0 → qmin = -126 → 256 ≤ d * 2 ^ mb + roundR mb qmin m e) := by
  refine ⟨(roundQ mb qmin m e - qmin).toNat, rfl, ?_, ?_, ?_, ?_⟩
  · have : qmin ≤ roundQ mb qmin m e := by simp only [roundQ]; omega
    omega
  · by_cases hn : qmin ≤ e + bitLen m - 1 - mb
    · exact (roundR_normal mb qmin m e hm hn).2.2
    · have := (roundR_subnormal mb qmin m e hm (by omega)).2
      have : 2 ^ mb ≤ 2 ^ (mb + 1) := Nat.pow_le_pow_right (by decide) (by omega)
      omega
  · intro hd
    by_cases hn : qmin ≤ e + bitLen m - 1 - mb
    · exact (roundR_normal mb qmin m e hm hn).2.1
    · have := (roundR_subnormal mb qmin m e hm (by omega)).1
      omega
  · intro h1 h2 h3
    subst h2 h3
    have hn := roundR_normal 0 (-126) m e hm (by omega)
    have := hn.1
    have := hn.2.1
    simp only [Nat.pow_zero] at *
    omega

/-! ## the assembled pattern decodes to `r * 2^q`

One lemma per format: the fields of `sign + (d * 2^mb + r)` are read back with `omega` from the
bounds of `roundU_fields` (for ALL inputs: `d` and `r` stay variables); the decoded value is
`.fin neg r q`, or `.fin neg 2^mb (q + 1)` after a rounding carry, or the zero of the format. -/


theorem decFields_eq (eb mb : Nat) (bias : Int) (p : Nat) (neg : Bool)
    (h1 : p / 2 ^ (eb + mb) % 2 = (if neg then 1 else 0)) :
    decFields eb mb bias p =
      if p / 2 ^ mb % 2 ^ eb = 0 then (if p % 2 ^ mb = 0 then .zero neg else .fin neg (p % 2 ^ mb) (1 - bias - mb))
      else .fin neg (2 ^ mb + p % 2 ^ mb) ((p / 2 ^ mb % 2 ^ eb : Nat) - bias - mb) := by
  cases neg <;> simp [decFields, h1]

theorem dec_enc_e4m3fn (neg : Bool) (m : Nat) (e : Int) (hm : 0 < m) (hfin : roundU 3 (-9) m e ≤ 0x7E) :
    (roundR 3 (-9) m e = 0 → decF8 .e4m3fn (encF8 .e4m3fn (.fin neg m e)) = .zero neg) ∧
    (roundR 3 (-9) m e ≠ 0 → ∃ m' e', decF8 .e4m3fn (encF8 .e4m3fn (.fin neg m e)) = .fin neg m' e' ∧
      roundQ 3 (-9) m e ≤ e' ∧ m' * 2 ^ (e' - roundQ 3 (-9) m e).toNat = roundR 3 (-9) m e) := by
  obtain ⟨d, hU, hQ, hr1, hr2, _⟩ := roundU_fields 3 (-9) m e hm
  simp only [encF8, if_pos hfin]
  rw [hU] at hfin ⊢; rw [hQ]
  generalize roundR 3 (-9) m e = r at *
  have hs : sgn8 neg / 128 % 2 = (if neg then 1 else 0) ∧ sgn8 neg % 128 = 0 ∧ sgn8 neg ≤ 128 := by
    cases neg <;> decide
  generalize sgn8 neg = S at *
  have hd := decFields_eq 4 3 7 (S + (d * 2 ^ 3 + r)) neg (by omega)
  have hnn : ¬ (S + (d * 2 ^ 3 + r)) % 128 = 0x7F := by omega
  simp only [decF8, if_neg hnn, hd]
  constructor
  · intro h0
    rw [if_pos (by omega), if_pos (by omega)]
  · intro h0
    by_cases ha : r < 8
    · refine ⟨r, -9, ?_, by omega, ?_⟩
      · rw [if_pos (by omega), if_neg (by omega)]
        congr 1; omega
      · have : ((-9 : Int) - (-9 + (d : Int))).toNat = 0 := by omega
        rw [this]; omega
    · by_cases hb : r < 16
      · refine ⟨r, -9 + d, ?_, by omega, ?_⟩
        · rw [if_neg (by omega)]
          congr 1 <;> omega
        · have : ((-9 + (d : Int)) - (-9 + (d : Int))).toNat = 0 := by omega
          rw [this]; omega
      · refine ⟨8, -9 + d + 1, ?_, by omega, ?_⟩
        · rw [if_neg (by omega)]
          congr 1 <;> omega
        · have : ((-9 + (d : Int) + 1) - (-9 + (d : Int))).toNat = 1 := by omega
          rw [this]; omega


theorem dec_enc_e5m2 (neg : Bool) (m : Nat) (e : Int) (hm : 0 < m) (hfin : roundU 2 (-16) m e ≤ 0x7B) :
    (roundR 2 (-16) m e = 0 → decF8 .e5m2 (encF8 .e5m2 (.fin neg m e)) = .zero neg) ∧
    (roundR 2 (-16) m e ≠ 0 → ∃ m' e', decF8 .e5m2 (encF8 .e5m2 (.fin neg m e)) = .fin neg m' e' ∧
      roundQ 2 (-16) m e ≤ e' ∧ m' * 2 ^ (e' - roundQ 2 (-16) m e).toNat = roundR 2 (-16) m e) := by
  obtain ⟨d, hU, hQ, hr1, hr2, _⟩ := roundU_fields 2 (-16) m e hm
  have hmin : min (roundU 2 (-16) m e) 0x7C = roundU 2 (-16) m e := by omega
  simp only [encF8, hmin]
  rw [hU] at hfin ⊢; rw [hQ]
  generalize roundR 2 (-16) m e = r at *
  have hs : sgn8 neg / 128 % 2 = (if neg then 1 else 0) ∧ sgn8 neg % 128 = 0 ∧ sgn8 neg ≤ 128 := by
    cases neg <;> decide
  generalize sgn8 neg = S at *
  have hd := decFields_eq 5 2 15 (S + (d * 2 ^ 2 + r)) neg (by omega)
  have hn1 : ¬ (S + (d * 2 ^ 2 + r)) % 128 = 0x7C := by omega
  have hn2 : ¬ (S + (d * 2 ^ 2 + r)) % 128 > 0x7C := by omega
  simp only [decF8, if_neg hn1, if_neg hn2, hd]
  constructor
  · intro h0
    rw [if_pos (by omega), if_pos (by omega)]
  · intro h0
    by_cases ha : r < 4
    · refine ⟨r, -16, ?_, by omega, ?_⟩
      · rw [if_pos (by omega), if_neg (by omega)]
        congr 1; omega
      · have : ((-16 : Int) - (-16 + (d : Int))).toNat = 0 := by omega
        rw [this]; omega
    · by_cases hb : r < 8
      · refine ⟨r, -16 + d, ?_, by omega, ?_⟩
        · rw [if_neg (by omega)]
          congr 1 <;> omega
        · have : ((-16 + (d : Int)) - (-16 + (d : Int))).toNat = 0 := by omega
          rw [this]; omega
      · refine ⟨4, -16 + d + 1, ?_, by omega, ?_⟩
        · rw [if_neg (by omega)]
          congr 1 <;> omega
        · have : ((-16 + (d : Int) + 1) - (-16 + (d : Int))).toNat = 1 := by omega
          rw [this]; omega

theorem dec_enc_e2m1 (neg : Bool) (m : Nat) (e : Int) (hm : 0 < m) (hfin : roundU 1 (-1) m e ≤ 7) :
    (roundR 1 (-1) m e = 0 → decF8 .e2m1 (encF8 .e2m1 (.fin neg m e)) = .zero neg) ∧
    (roundR 1 (-1) m e ≠ 0 → ∃ m' e', decF8 .e2m1 (encF8 .e2m1 (.fin neg m e)) = .fin neg m' e' ∧
      roundQ 1 (-1) m e ≤ e' ∧ m' * 2 ^ (e' - roundQ 1 (-1) m e).toNat = roundR 1 (-1) m e) := by
  obtain ⟨d, hU, hQ, hr1, hr2, _⟩ := roundU_fields 1 (-1) m e hm
  have hmin : min (roundU 1 (-1) m e) 7 = roundU 1 (-1) m e := by omega
  simp only [encF8, hmin]
  rw [hU] at hfin ⊢; rw [hQ]
  generalize roundR 1 (-1) m e = r at *
  have hs : (if neg then 8 else 0) / 8 % 2 = (if neg then 1 else 0) ∧ (if neg then 8 else 0) % 8 = 0 ∧ (if neg then 8 else 0) ≤ 8 := by
    cases neg <;> decide
  generalize (if neg then 8 else 0) = S at *
  have hd := decFields_eq 2 1 1 (S + (d * 2 ^ 1 + r)) neg (by omega)
  simp only [decF8, hd]
  constructor
  · intro h0
    rw [if_pos (by omega), if_pos (by omega)]
  · intro h0
    by_cases ha : r < 2
    · refine ⟨r, -1, ?_, by omega, ?_⟩
      · rw [if_pos (by omega), if_neg (by omega)]
        congr 1; omega
      · have : ((-1 : Int) - (-1 + (d : Int))).toNat = 0 := by omega
        rw [this]; omega
    · by_cases hb : r < 4
      · refine ⟨r, -1 + d, ?_, by omega, ?_⟩
        · rw [if_neg (by omega)]
          congr 1 <;> omega
        · have : ((-1 + (d : Int)) - (-1 + (d : Int))).toNat = 0 := by omega
          rw [this]; omega
      · refine ⟨2, -1 + d + 1, ?_, by omega, ?_⟩
        · rw [if_neg (by omega)]
          congr 1 <;> omega
        · have : ((-1 + (d : Int) + 1) - (-1 + (d : Int))).toNat = 1 := by omega
          rw [this]; omega

theorem dec_enc_e4m3fnuz (neg : Bool) (m : Nat) (e : Int) (hm : 0 < m) (hfin : roundU 3 (-10) m e ≤ 0x7F) :
    (roundR 3 (-10) m e = 0 → decF8 .e4m3fnuz (encF8 .e4m3fnuz (.fin neg m e)) = .zero false) ∧
    (roundR 3 (-10) m e ≠ 0 → ∃ m' e', decF8 .e4m3fnuz (encF8 .e4m3fnuz (.fin neg m e)) = .fin neg m' e' ∧
      roundQ 3 (-10) m e ≤ e' ∧ m' * 2 ^ (e' - roundQ 3 (-10) m e).toNat = roundR 3 (-10) m e) := by
  obtain ⟨d, hU, hQ, hr1, hr2, _⟩ := roundU_fields 3 (-10) m e hm
  have hle : ¬ roundU 3 (-10) m e > 0x7F := by omega
  simp only [encF8, if_neg hle]
  rw [hU] at hfin ⊢; rw [hQ]
  generalize roundR 3 (-10) m e = r at *
  have hs : sgn8 neg / 128 % 2 = (if neg then 1 else 0) ∧ sgn8 neg % 128 = 0 ∧ sgn8 neg ≤ 128 := by
    cases neg <;> decide
  generalize sgn8 neg = S at *
  constructor
  · intro h0
    rw [if_pos (by omega)]
    rfl
  · intro h0
    rw [if_neg (by omega)]
    have hd := decFields_eq 4 3 8 (S + (d * 2 ^ 3 + r)) neg (by omega)
    have hnn : ¬ (S + (d * 2 ^ 3 + r)) = 0x80 := by omega
    simp only [decF8, if_neg hnn, hd]
    by_cases ha : r < 8
    · refine ⟨r, -10, ?_, by omega, ?_⟩
      · rw [if_pos (by omega), if_neg (by omega)]
        congr 1; omega
      · have : ((-10 : Int) - (-10 + (d : Int))).toNat = 0 := by omega
        rw [this]; omega
    · by_cases hb : r < 16
      · refine ⟨r, -10 + d, ?_, by omega, ?_⟩
        · rw [if_neg (by omega)]
          congr 1 <;> omega
        · have : ((-10 + (d : Int)) - (-10 + (d : Int))).toNat = 0 := by omega
          rw [this]; omega
      · refine ⟨8, -10 + d + 1, ?_, by omega, ?_⟩
        · rw [if_neg (by omega)]
          congr 1 <;> omega
        · have : ((-10 + (d : Int) + 1) - (-10 + (d : Int))).toNat = 1 := by omega
          rw [this]; omega

theorem dec_enc_e5m2fnuz (neg : Bool) (m : Nat) (e : Int) (hm : 0 < m) (hfin : roundU 2 (-17) m e ≤ 0x7F) :
    (roundR 2 (-17) m e = 0 → decF8 .e5m2fnuz (encF8 .e5m2fnuz (.fin neg m e)) = .zero false) ∧
    (roundR 2 (-17) m e ≠ 0 → ∃ m' e', decF8 .e5m2fnuz (encF8 .e5m2fnuz (.fin neg m e)) = .fin neg m' e' ∧
      roundQ 2 (-17) m e ≤ e' ∧ m' * 2 ^ (e' - roundQ 2 (-17) m e).toNat = roundR 2 (-17) m e) := by
  obtain ⟨d, hU, hQ, hr1, hr2, _⟩ := roundU_fields 2 (-17) m e hm
  have hle : ¬ roundU 2 (-17) m e > 0x7F := by omega
  simp only [encF8, if_neg hle]
  rw [hU] at hfin ⊢; rw [hQ]
  generalize roundR 2 (-17) m e = r at *
  have hs : sgn8 neg / 128 % 2 = (if neg then 1 else 0) ∧ sgn8 neg % 128 = 0 ∧ sgn8 neg ≤ 128 := by
    cases neg <;> decide
  generalize sgn8 neg = S at *
  constructor
  · intro h0
    rw [if_pos (by omega)]
    rfl
  · intro h0
    rw [if_neg (by omega)]
    have hd := decFields_eq 5 2 16 (S + (d * 2 ^ 2 + r)) neg (by omega)
    have hnn : ¬ (S + (d * 2 ^ 2 + r)) = 0x80 := by omega
    simp only [decF8, if_neg hnn, hd]
    by_cases ha : r < 4
    · refine ⟨r, -17, ?_, by omega, ?_⟩
      · rw [if_pos (by omega), if_neg (by omega)]
        congr 1; omega
      · have : ((-17 : Int) - (-17 + (d : Int))).toNat = 0 := by omega
        rw [this]; omega
    · by_cases hb : r < 8
      · refine ⟨r, -17 + d, ?_, by omega, ?_⟩
        · rw [if_neg (by omega)]
          congr 1 <;> omega
        · have : ((-17 + (d : Int)) - (-17 + (d : Int))).toNat = 0 := by omega
          rw [this]; omega
      · refine ⟨4, -17 + d + 1, ?_, by omega, ?_⟩
        · rw [if_neg (by omega)]
          congr 1 <;> omega
        · have : ((-17 + (d : Int) + 1) - (-17 + (d : Int))).toNat = 1 := by omega
          rw [this]; omega

theorem dec_enc_e8m0 (m : Nat) (e : Int) (hm : 0 < m) (hfin : roundU 0 (-126) m e ≤ 0xFE) :
    (roundR 0 (-126) m e = 0 → decF8 .e8m0 (encF8 .e8m0 (.fin false m e)) = .fin false 1 (-127)) ∧
    (roundR 0 (-126) m e ≠ 0 → ∃ m' e', decF8 .e8m0 (encF8 .e8m0 (.fin false m e)) = .fin false m' e' ∧
      roundQ 0 (-126) m e ≤ e' ∧ m' * 2 ^ (e' - roundQ 0 (-126) m e).toNat = roundR 0 (-126) m e) := by
  obtain ⟨d, hU, hQ, hr1, hr2, hbig⟩ := roundU_fields 0 (-126) m e hm
  rw [← hU] at hbig
  have hle : ¬ e + bitLen m - 1 ≥ 129 := fun h => by have := hbig h rfl rfl; omega
  simp only [encF8, if_neg hle]
  rw [hU] at hfin ⊢; rw [hQ]
  generalize roundR 0 (-126) m e = r at *
  simp only [Nat.pow_zero, Nat.mul_one, Nat.zero_add, Nat.pow_one] at *
  have hnn : ¬ (d + r) % 256 = 0xFF := by omega
  simp only [decF8, if_neg hnn]
  constructor
  · intro h0
    congr 1; omega
  · intro h0
    by_cases hb : r < 2
    · refine ⟨1, -126 + d, ?_, by omega, ?_⟩
      · congr 1; omega
      · have : ((-126 + (d : Int)) - (-126 + (d : Int))).toNat = 0 := by omega
        rw [this]; omega
    · refine ⟨1, -126 + d + 1, ?_, by omega, ?_⟩
      · congr 1; omega
      · have : ((-126 + (d : Int) + 1) - (-126 + (d : Int))).toNat = 1 := by omega
        rw [this]; omega

/-- the finite values `decode64` / `decode32` produce have a non-zero significand -/
theorem decode64_fin_pos {b : Nat} {neg : Bool} {m : Nat} {e : Int} (h : decode64 b = .fin neg m e) : 0 < m := by
  simp only [decode64] at h
  split at h
  · split at h <;> cases h
  · split at h
    · split at h
      · cases h
      · rename_i hf; injection h with _ h2 _; omega
    · injection h with _ h2 _
      have := Nat.two_pow_pos 52
      omega

theorem decode32_fin_pos {b : Nat} {neg : Bool} {m : Nat} {e : Int} (h : decode32 b = .fin neg m e) : 0 < m := by
  simp only [decode32] at h
  split at h
  · split at h <;> cases h
  · split at h
    · split at h
      · cases h
      · rename_i hf; injection h with _ h2 _; omega
    · injection h with _ h2 _
      have := Nat.two_pow_pos 23
      omega

end IrVerif.PyTensor

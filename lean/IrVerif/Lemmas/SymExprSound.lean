/-
C16: everything the parser accepts has a derivation tree of the documented grammar (so texts
outside the grammar raise), with the tree's meaning as the parse result.
-/
import IrVerif.Lemmas.SymExprParse
set_option linter.unusedSimpArgs false
namespace IrVerif.SymExpr

theorem addOpOf_some {ts ts' : List Tok} {o : BinOp} (h : addOpOf ts = some (o, ts')) :
    ∃ ao : AddOp, ts = ao.tok :: ts' ∧ o = ao.bin := by
  rcases ts with _ | ⟨t, r⟩
  · simp [addOpOf] at h
  · rcases t with _ | _ | op | _ | _ | _ <;> try (simp [addOpOf, mulOpOf] at h)
    cases op <;> simp [addOpOf] at h
    · exact ⟨.plus, by simp [AddOp.tok, h.2], by simp [AddOp.bin, h.1]⟩
    · exact ⟨.minus, by simp [AddOp.tok, h.2], by simp [AddOp.bin, h.1]⟩

theorem mulOpOf_some {ts ts' : List Tok} {o : BinOp} (h : mulOpOf ts = some (o, ts')) :
    ∃ mo : MulOp, ts = mo.tok :: ts' ∧ o = mo.bin := by
  rcases ts with _ | ⟨t, r⟩
  · simp [mulOpOf] at h
  · rcases t with _ | _ | op | _ | _ | _ <;> try (simp [addOpOf, mulOpOf] at h)
    cases op <;> simp [mulOpOf] at h
    · exact ⟨.star, by simp [MulOp.tok, h.2], by simp [MulOp.bin, h.1]⟩
    · exact ⟨.slash, by simp [MulOp.tok, h.2], by simp [MulOp.bin, h.1]⟩
    · exact ⟨.dslash, by simp [MulOp.tok, h.2], by simp [MulOp.bin, h.1]⟩
    · exact ⟨.percent, by simp [MulOp.tok, h.2], by simp [MulOp.bin, h.1]⟩

theorem applyFn_fn1' (f : Fn1) (args : List Expr) :
    applyFn f.name args = match args with
      | [a] => some (.un f.un a)
      | _ => none := by
  cases f <;> rcases args with _ | ⟨a, _ | ⟨b, rest⟩⟩ <;> simp [applyFn, Fn1.name, Fn1.un]

theorem applyFn_fn2' (f : Fn2) (args : List Expr) :
    applyFn f.name args = match args with
      | [a, b] => some (.bin .mod a b)
      | _ => none := by
  cases f <;> rcases args with _ | ⟨a, _ | ⟨b, _ | ⟨c, rest⟩⟩⟩ <;> simp [applyFn, Fn2.name]

/-- what the function table accepts -/
theorem applyFn_some {name : String} {args : List Expr} {e : Expr} (h : applyFn name args = some e) :
    (∃ fn : FnN, name = fn.name ∧ e = fn.apply args) ∨
    (∃ fn : Fn1, name = fn.name ∧ ∃ a, args = [a] ∧ e = .un fn.un a) ∨
    (∃ fn : Fn2, name = fn.name ∧ ∃ a b, args = [a, b] ∧ e = .bin .mod a b) := by
  by_cases h_max : name = "max"
  · subst h_max
    left
    refine ⟨.max, rfl, ?_⟩
    have h' := applyFn_fnN .max args
    simp only [FnN.name] at h'
    rw [h'] at h
    exact (Option.some.inj h).symm
  by_cases h_Max : name = "Max"
  · subst h_Max
    left
    refine ⟨.Max, rfl, ?_⟩
    have h' := applyFn_fnN .Max args
    simp only [FnN.name] at h'
    rw [h'] at h
    exact (Option.some.inj h).symm
  by_cases h_min : name = "min"
  · subst h_min
    left
    refine ⟨.min, rfl, ?_⟩
    have h' := applyFn_fnN .min args
    simp only [FnN.name] at h'
    rw [h'] at h
    exact (Option.some.inj h).symm
  by_cases h_Min : name = "Min"
  · subst h_Min
    left
    refine ⟨.Min, rfl, ?_⟩
    have h' := applyFn_fnN .Min args
    simp only [FnN.name] at h'
    rw [h'] at h
    exact (Option.some.inj h).symm
  by_cases h_floor : name = "floor"
  · subst h_floor
    right; left
    have h' := applyFn_fn1' .floor args
    simp only [Fn1.name] at h'
    rw [h'] at h
    rcases args with _ | ⟨a, _ | ⟨b, rest⟩⟩ <;> simp at h
    exact ⟨.floor, rfl, a, rfl, h.symm⟩
  by_cases h_ceiling : name = "ceiling"
  · subst h_ceiling
    right; left
    have h' := applyFn_fn1' .ceiling args
    simp only [Fn1.name] at h'
    rw [h'] at h
    rcases args with _ | ⟨a, _ | ⟨b, rest⟩⟩ <;> simp at h
    exact ⟨.ceiling, rfl, a, rfl, h.symm⟩
  by_cases h_sqrt : name = "sqrt"
  · subst h_sqrt
    right; left
    have h' := applyFn_fn1' .sqrt args
    simp only [Fn1.name] at h'
    rw [h'] at h
    rcases args with _ | ⟨a, _ | ⟨b, rest⟩⟩ <;> simp at h
    exact ⟨.sqrt, rfl, a, rfl, h.symm⟩
  by_cases h_abs : name = "Abs"
  · subst h_abs
    right; left
    have h' := applyFn_fn1' .abs args
    simp only [Fn1.name] at h'
    rw [h'] at h
    rcases args with _ | ⟨a, _ | ⟨b, rest⟩⟩ <;> simp at h
    exact ⟨.abs, rfl, a, rfl, h.symm⟩
  by_cases h_sign : name = "sign"
  · subst h_sign
    right; left
    have h' := applyFn_fn1' .sign args
    simp only [Fn1.name] at h'
    rw [h'] at h
    rcases args with _ | ⟨a, _ | ⟨b, rest⟩⟩ <;> simp at h
    exact ⟨.sign, rfl, a, rfl, h.symm⟩
  by_cases h_mod : name = "mod"
  · subst h_mod
    right; right
    have h' := applyFn_fn2' .mod args
    simp only [Fn2.name] at h'
    rw [h'] at h
    rcases args with _ | ⟨a, _ | ⟨b, _ | ⟨c, rest⟩⟩⟩ <;> simp at h
    exact ⟨.mod, rfl, a, b, rfl, h.symm⟩
  by_cases h_Mod : name = "Mod"
  · subst h_Mod
    right; right
    have h' := applyFn_fn2' .Mod args
    simp only [Fn2.name] at h'
    rw [h'] at h
    rcases args with _ | ⟨a, _ | ⟨b, _ | ⟨c, rest⟩⟩⟩ <;> simp at h
    exact ⟨.Mod, rfl, a, b, rfl, h.symm⟩
  simp [applyFn, *] at h


theorem argsTail_sem_nil {d : D .argsTail} (h : (d.sem : List Expr) = []) : d = .atNil := by
  cases d with
  | atNil => rfl
  | atCons e tl => simp [D.sem] at h

theorem argsTail_sem_single {d : D .argsTail} {b : Expr} (h : (d.sem : List Expr) = [b]) :
    ∃ db : D .expr, d = .atCons db .atNil ∧ (db.sem : Expr) = b := by
  cases d with
  | atNil => simp [D.sem] at h
  | atCons e tl =>
    simp only [D.sem, List.cons.injEq] at h
    exact ⟨e, by rw [argsTail_sem_nil h.2], h.1⟩

/-- shape of one step of `parseUnary` -/
theorem parseUnary_step (f : Nat) (ts : List Tok) :
    (∃ ts', ts = .op .minus :: ts' ∧
      parseUnary (f + 1) ts = match parseUnary f ts' with
        | some (e, r) => some (.un .neg e, r)
        | none => none) ∨
    parseUnary (f + 1) ts = parsePower f ts := by
  rcases ts with _ | ⟨t, ts'⟩
  · right; rfl
  · rcases t with _ | _ | o | _ | _ | _ <;> try (right; rfl)
    cases o <;> try (right; rfl)
    left; exact ⟨ts', rfl, rfl⟩

theorem headPow_cases (r : List Tok) : (∃ ts', r = .op .dstar :: ts') ∨ headIs isPow r = false := by
  rcases r with _ | ⟨t, ts'⟩
  · right; rfl
  · rcases t with _ | _ | o | _ | _ | _ <;> try (right; rfl)
    cases o <;> try (right; rfl)
    left; exact ⟨ts', rfl⟩

/-- shape of one step of `argsLoop` -/
theorem argsLoop_step (f : Nat) (acc : List Expr) (ts : List Tok) :
    (∃ ts', ts = .comma :: ts' ∧
      argsLoop (f + 1) acc ts = match parseExpr f ts' with
        | some (a, r) => argsLoop f (acc ++ [a]) r
        | none => none) ∨
    argsLoop (f + 1) acc ts = some (acc, ts) := by
  rcases ts with _ | ⟨t, ts'⟩
  · right; rfl
  · rcases t with _ | _ | _ | _ | _ | _ <;> try (right; rfl)
    left; exact ⟨ts', rfl, rfl⟩

def notRP : List Tok → Prop
  | .rparen :: _ => False
  | _ => True

/-- `parsePrimary_call` for any argument text that does not start with `)` (also the empty one) -/
theorem parsePrimary_call' (f : Nat) (name : String) (ts : List Tok) (h : notRP ts) :
    parsePrimary (f + 1) (.ident name :: .lparen :: ts) =
      match parseExpr f ts with
      | some (a, r) =>
        match argsLoop f [a] r with
        | some (args, .rparen :: r') =>
          match applyFn name args with
          | some e => some (e, r')
          | none => none
        | _ => none
      | none => none := by
  rcases ts with _ | ⟨t, ts⟩
  · rfl
  · rcases t with _ | _ | _ | _ | _ | _ <;> first | rfl | simp [notRP] at h

/-- shape of one step of `parsePrimary` -/
theorem parsePrimary_step (f : Nat) (ts : List Tok) :
    parsePrimary (f + 1) ts = none ∨
    (∃ n ts', ts = .num n :: ts' ∧ parsePrimary (f + 1) ts = some (.num n, ts')) ∨
    (∃ s ts', ts = .ident s :: ts' ∧ okPrim ts' ∧ parsePrimary (f + 1) ts = some (.sym s, ts')) ∨
    (∃ s r, ts = .ident s :: .lparen :: .rparen :: r ∧
      parsePrimary (f + 1) ts = match applyFn s [] with
        | some e => some (e, r)
        | none => none) ∨
    (∃ s ts', ts = .ident s :: .lparen :: ts' ∧ notRP ts' ∧
      parsePrimary (f + 1) ts = match parseExpr f ts' with
        | some (a, r) =>
          match argsLoop f [a] r with
          | some (args, .rparen :: r') =>
            match applyFn s args with
            | some e => some (e, r')
            | none => none
          | _ => none
        | none => none) ∨
    (∃ ts', ts = .lparen :: ts' ∧
      parsePrimary (f + 1) ts = match parseExpr f ts' with
        | some (e, .rparen :: r) => some (e, r)
        | _ => none) := by
  rcases ts with _ | ⟨t, ts'⟩
  · left; rfl
  · rcases t with n | s | o | _ | _ | _
    · right; left; exact ⟨n, ts', rfl, rfl⟩
    · rcases ts' with _ | ⟨t2, ts''⟩
      · right; right; left; exact ⟨s, [], rfl, rfl, rfl⟩
      · rcases t2 with _ | _ | _ | _ | _ | _
        case lparen =>
          rcases ts'' with _ | ⟨t3, ts3⟩
          · right; right; right; right; left
            exact ⟨s, [], rfl, trivial, parsePrimary_call' f s [] trivial⟩
          · rcases t3 with _ | _ | _ | _ | _ | _
            case rparen => right; right; right; left; exact ⟨s, ts3, rfl, rfl⟩
            all_goals
              right; right; right; right; left
              exact ⟨s, _, rfl, trivial, parsePrimary_call' f s _ trivial⟩
        all_goals
          right; right; left
          exact ⟨s, _, rfl, rfl, rfl⟩
    · left; rfl
    · right; right; right; right; right; exact ⟨ts', rfl, rfl⟩
    · left; rfl
    · left; rfl


/-- what each parsing function returns is a derivation of the consumed prefix -/
structure Sound (f : Nat) : Prop where
  expr : ∀ ts e r, parseExpr f ts = some (e, r) →
    ∃ d : D .expr, ts = d.flatten ++ r ∧ (d.sem : Expr) = e
  exprLoop : ∀ acc ts e r, exprLoop f acc ts = some (e, r) →
    ∃ d : D .exprTail, ts = d.flatten ++ r ∧ (d.sem : Expr → Expr) acc = e
  term : ∀ ts e r, parseTerm f ts = some (e, r) →
    ∃ d : D .term, ts = d.flatten ++ r ∧ (d.sem : Expr) = e
  termLoop : ∀ acc ts e r, termLoop f acc ts = some (e, r) →
    ∃ d : D .termTail, ts = d.flatten ++ r ∧ (d.sem : Expr → Expr) acc = e
  unary : ∀ ts e r, parseUnary f ts = some (e, r) →
    ∃ d : D .unary, ts = d.flatten ++ r ∧ (d.sem : Expr) = e
  power : ∀ ts e r, parsePower f ts = some (e, r) →
    ∃ d : D .power, ts = d.flatten ++ r ∧ (d.sem : Expr) = e
  primary : ∀ ts e r, parsePrimary f ts = some (e, r) →
    ∃ d : D .primary, ts = d.flatten ++ r ∧ (d.sem : Expr) = e
  args : ∀ acc ts as r, argsLoop f acc ts = some (as, r) →
    ∃ d : D .argsTail, ts = d.flatten ++ r ∧ as = acc ++ (d.sem : List Expr)

theorem sound_zero : Sound 0 := by
  constructor <;> intros <;> simp_all [parseExpr, exprLoop, parseTerm, termLoop, parseUnary,
    parsePower, parsePrimary, argsLoop]

theorem sound_succ (f : Nat) (ih : Sound f) : Sound (f + 1) := by
  constructor
  · -- parseExpr
    intro ts e r h
    simp only [parseExpr] at h
    cases h1 : parseTerm f ts with
    | none => simp [h1] at h
    | some p =>
      obtain ⟨l, r1⟩ := p
      simp only [h1] at h
      obtain ⟨dt, ht, hst⟩ := ih.term ts l r1 h1
      obtain ⟨dl, hl, hsl⟩ := ih.exprLoop l r1 e r h
      refine ⟨.expr dt dl, ?_, ?_⟩
      · simp [D.flatten, ht, hl]
      · simp only [D.sem, hst, hsl]
  · -- exprLoop
    intro acc ts e r h
    simp only [exprLoop] at h
    cases h0 : addOpOf ts with
    | none =>
      simp only [h0, Option.some.injEq, Prod.mk.injEq] at h
      exact ⟨.etNil, by simp [D.flatten, h.2], by simp [D.sem, h.1]⟩
    | some p =>
      obtain ⟨o, ts'⟩ := p
      simp only [h0] at h
      obtain ⟨ao, hao, hob⟩ := addOpOf_some h0
      cases h1 : parseTerm f ts' with
      | none => simp [h1] at h
      | some q =>
        obtain ⟨rt, ts''⟩ := q
        simp only [h1] at h
        obtain ⟨dt, ht, hst⟩ := ih.term ts' rt ts'' h1
        obtain ⟨dl, hl, hsl⟩ := ih.exprLoop _ ts'' e r h
        refine ⟨.etCons ao dt dl, ?_, ?_⟩
        · simp [D.flatten, hao, ht, hl]
        · simp only [D.sem, hst, ← hob, hsl]
  · -- parseTerm
    intro ts e r h
    simp only [parseTerm] at h
    cases h1 : parseUnary f ts with
    | none => simp [h1] at h
    | some p =>
      obtain ⟨l, r1⟩ := p
      simp only [h1] at h
      obtain ⟨du, hu, hsu⟩ := ih.unary ts l r1 h1
      obtain ⟨dl, hl, hsl⟩ := ih.termLoop l r1 e r h
      refine ⟨.term du dl, ?_, ?_⟩
      · simp [D.flatten, hu, hl]
      · simp only [D.sem, hsu, hsl]
  · -- termLoop
    intro acc ts e r h
    simp only [termLoop] at h
    cases h0 : mulOpOf ts with
    | none =>
      simp only [h0, Option.some.injEq, Prod.mk.injEq] at h
      exact ⟨.ttNil, by simp [D.flatten, h.2], by simp [D.sem, h.1]⟩
    | some p =>
      obtain ⟨o, ts'⟩ := p
      simp only [h0] at h
      obtain ⟨mo, hmo, hob⟩ := mulOpOf_some h0
      cases h1 : parseUnary f ts' with
      | none => simp [h1] at h
      | some q =>
        obtain ⟨rt, ts''⟩ := q
        simp only [h1] at h
        obtain ⟨du, hu, hsu⟩ := ih.unary ts' rt ts'' h1
        obtain ⟨dl, hl, hsl⟩ := ih.termLoop _ ts'' e r h
        refine ⟨.ttCons mo du dl, ?_, ?_⟩
        · simp [D.flatten, hmo, hu, hl]
        · simp only [D.sem, hsu, ← hob, hsl]
  · -- parseUnary
    intro ts e r h
    rcases parseUnary_step f ts with ⟨ts', hts, hstep⟩ | hstep
    · rw [hstep] at h
      cases h1 : parseUnary f ts' with
      | none => simp [h1] at h
      | some p =>
        obtain ⟨e', r'⟩ := p
        simp only [h1, Option.some.injEq, Prod.mk.injEq] at h
        obtain ⟨du, hu, hsu⟩ := ih.unary ts' e' r' h1
        refine ⟨.neg du, ?_, ?_⟩
        · simp [D.flatten, hts, hu, h.2]
        · simp only [D.sem, hsu, h.1]
    · rw [hstep] at h
      obtain ⟨dp, hp, hsp⟩ := ih.power ts e r h
      exact ⟨.upow dp, by simp [D.flatten, hp], by simp only [D.sem, hsp]⟩
  · -- parsePower
    intro ts e r h
    cases h1 : parsePrimary f ts with
    | none => simp [parsePower, h1] at h
    | some p =>
      obtain ⟨b, r1⟩ := p
      obtain ⟨db, hb, hsb⟩ := ih.primary ts b r1 h1
      rcases headPow_cases r1 with ⟨ts', hr1⟩ | hno
      · subst hr1
        simp only [parsePower, h1] at h
        cases h2 : parseUnary f ts' with
        | none => simp [h2] at h
        | some q =>
          obtain ⟨e', r'⟩ := q
          simp only [h2, Option.some.injEq, Prod.mk.injEq] at h
          obtain ⟨du, hu, hsu⟩ := ih.unary ts' e' r' h2
          refine ⟨.pow db du, ?_, ?_⟩
          · simp [D.flatten, hb, hu, h.2]
          · simp only [D.sem, hsb, hsu, h.1]
      · rw [parsePower_noPow f ts b r1 h1 hno] at h
        simp only [Option.some.injEq, Prod.mk.injEq] at h
        exact ⟨.prim db, by simp [D.flatten, hb, h.2], by simp only [D.sem, hsb, h.1]⟩
  · -- parsePrimary
    intro ts e r h
    rcases parsePrimary_step f ts with hn | ⟨n, ts', hts, hs⟩ | ⟨s, ts', hts, _, hs⟩ |
        ⟨s, r', hts, hs⟩ | ⟨s, ts', hts, hnr, hs⟩ | ⟨ts', hts, hs⟩
    · simp [hn] at h
    · rw [hs] at h
      simp only [Option.some.injEq, Prod.mk.injEq] at h
      exact ⟨.num n, by simp [D.flatten, hts, h.2], by simp [D.sem, h.1]⟩
    · rw [hs] at h
      simp only [Option.some.injEq, Prod.mk.injEq] at h
      exact ⟨.ident s, by simp [D.flatten, hts, h.2], by simp [D.sem, h.1]⟩
    · rw [hs] at h
      cases h1 : applyFn s [] with
      | none => simp [h1] at h
      | some e' =>
        simp only [h1, Option.some.injEq, Prod.mk.injEq] at h
        rcases applyFn_some h1 with ⟨fn, hname, he⟩ | ⟨fn, _, a, ha, _⟩ | ⟨fn, _, a, b, ha, _⟩
        · refine ⟨.callN fn .argsNil, ?_, ?_⟩
          · simp [D.flatten, hts, hname, h.2]
          · simp only [D.sem, ← h.1, he]
        · simp at ha
        · simp at ha
    · rw [hs] at h
      cases h1 : parseExpr f ts' with
      | none => simp [h1] at h
      | some p =>
        obtain ⟨a, r1⟩ := p
        simp only [h1] at h
        obtain ⟨da, hda, hsa⟩ := ih.expr ts' a r1 h1
        cases h2 : argsLoop f [a] r1 with
        | none => simp [h2] at h
        | some q =>
          obtain ⟨as, r2⟩ := q
          obtain ⟨dtl, hdtl, hstl⟩ := ih.args [a] r1 as r2 h2
          rcases r2 with _ | ⟨t2, r2'⟩
          · simp [h2] at h
          · rcases t2 with _ | _ | _ | _ | _ | _
            case rparen =>
              simp only [h2] at h
              cases h3 : applyFn s as with
              | none => simp [h3] at h
              | some e' =>
                simp only [h3, Option.some.injEq, Prod.mk.injEq] at h
                rcases applyFn_some h3 with ⟨fn, hname, he⟩ | ⟨fn, hname, a', ha, he⟩ |
                    ⟨fn, hname, a', b', ha, he⟩
                · refine ⟨.callN fn (.argsCons da dtl), ?_, ?_⟩
                  · simp [D.flatten, hts, hname, hda, hdtl, h.2]
                  · simp only [D.sem, ← h.1, he, hstl, hsa, List.cons_append, List.nil_append]
                · -- one argument
                  rw [hstl] at ha
                  simp only [List.cons_append, List.nil_append, List.cons.injEq] at ha
                  have := argsTail_sem_nil ha.2
                  subst this
                  refine ⟨.call1 fn da, ?_, ?_⟩
                  · simp [D.flatten, hts, hname, hda, hdtl, h.2]
                  · simp only [D.sem, ← h.1, he, hsa, ha.1]
                · -- two arguments
                  rw [hstl] at ha
                  simp only [List.cons_append, List.nil_append, List.cons.injEq] at ha
                  obtain ⟨db, hdb, hsb⟩ := argsTail_sem_single ha.2
                  subst hdb
                  refine ⟨.call2 fn da db, ?_, ?_⟩
                  · simp [D.flatten, hts, hname, hda, hdtl, h.2]
                  · simp only [D.sem, ← h.1, he, hsa, ha.1, hsb]
            all_goals simp [h2] at h
    · rw [hs] at h
      cases h1 : parseExpr f ts' with
      | none => simp [h1] at h
      | some p =>
        obtain ⟨e', r1⟩ := p
        obtain ⟨de, hde, hse⟩ := ih.expr ts' e' r1 h1
        rcases r1 with _ | ⟨t1, r1'⟩
        · simp [h1] at h
        · rcases t1 with _ | _ | _ | _ | _ | _
          case rparen =>
            simp only [h1, Option.some.injEq, Prod.mk.injEq] at h
            refine ⟨.paren de, ?_, ?_⟩
            · simp [D.flatten, hts, hde, h.2]
            · simp only [D.sem, hse, h.1]
          all_goals simp [h1] at h
  · -- argsLoop
    intro acc ts as r h
    rcases argsLoop_step f acc ts with ⟨ts', hts, hstep⟩ | hstep
    · rw [hstep] at h
      cases h1 : parseExpr f ts' with
      | none => simp [h1] at h
      | some p =>
        obtain ⟨a, r1⟩ := p
        simp only [h1] at h
        obtain ⟨da, hda, hsa⟩ := ih.expr ts' a r1 h1
        obtain ⟨dtl, hdtl, hstl⟩ := ih.args _ r1 as r h
        refine ⟨.atCons da dtl, ?_, ?_⟩
        · simp [D.flatten, hts, hda, hdtl]
        · simp [D.sem, hstl, hsa]
    · rw [hstep] at h
      simp only [Option.some.injEq, Prod.mk.injEq] at h
      exact ⟨.atNil, by simp [D.flatten, h.2], by simp [D.sem, h.1]⟩

theorem sound_all : ∀ f, Sound f
  | 0 => sound_zero
  | f + 1 => sound_succ f (sound_all f)

/-- whatever `parseTokens` accepts is a sentence of the grammar, parsed to its meaning -/
theorem parseTokens_sound {ts : List Tok} {e : Expr} (h : parseTokens ts = some e) :
    ∃ d : D .expr, d.flatten = ts ∧ (d.sem : Expr) = e := by
  simp only [parseTokens] at h
  cases h1 : parseExpr (fuelFor ts) ts with
  | none => simp [h1] at h
  | some p =>
    obtain ⟨e', r⟩ := p
    rcases r with _ | ⟨t, r'⟩
    · simp only [h1, Option.some.injEq] at h
      obtain ⟨d, hd, hs⟩ := (sound_all _).expr ts e' [] h1
      exact ⟨d, by simpa using hd.symm, by rw [hs, h]⟩
    · simp [h1] at h

end IrVerif.SymExpr

/-
Kernel, stage 3: the initializer mapping and value names.
-/
import IrVerif.Lemmas.KernelOwn
namespace IrVerif.Kernel

theorem mem_dictDel (l : List (String × Nat)) (k k' : String) (u : Nat) :
    (k', u) ∈ dictDel l k ↔ k' ≠ k ∧ (k', u) ∈ l := by
  simp [dictDel, List.mem_filter, and_comm]

theorem keys_dictDel (l : List (String × Nat)) (k : String) (h : (l.map Prod.fst).Nodup) :
    ((dictDel l k).map Prod.fst).Nodup := by
  unfold dictDel
  exact List.Nodup.sublist (List.Sublist.map _ List.filter_sublist) h

theorem keys_unique (l : List (String × Nat)) (k : String) (u u' : Nat) (hn : (l.map Prod.fst).Nodup)
    (h1 : (k, u) ∈ l) (h2 : (k, u') ∈ l) : u = u' := by
  induction l with
  | nil => simp at h1
  | cons a as ih =>
    simp at hn h1 h2
    obtain ⟨hn1, hn2⟩ := hn
    rcases h1 with h1 | h1 <;> rcases h2 with h2 | h2
    · rw [← h1] at h2; cases h2; rfl
    · subst h1; exact absurd h2 (hn1 u')
    · subst h2; exact absurd h1 (hn1 u)
    · exact ih hn2 h1 h2

theorem lookupInit_some (l : List (String × Nat)) (k : String) (old : Nat) (h : lookupInit l k = some old) :
    (k, old) ∈ l := by
  unfold lookupInit at h
  cases hf : l.find? (fun p => p.1 = k) with
  | none => simp [hf] at h
  | some p =>
    simp [hf] at h
    have h1 := List.find?_some hf
    have h2 := List.mem_of_find?_eq_some hf
    simp at h1
    cases p; simp_all

theorem lookupInit_none (l : List (String × Nat)) (k : String) (h : lookupInit l k = none) (u : Nat) :
    (k, u) ∉ l := by
  unfold lookupInit at h
  simp at h
  intro hm
  exact h k u hm rfl

theorem lookupInit_of_mem (l : List (String × Nat)) (k : String) (u : Nat) (hn : (l.map Prod.fst).Nodup)
    (hm : (k, u) ∈ l) : lookupInit l k = some u := by
  cases h : lookupInit l k with
  | none => exact absurd hm (lookupInit_none l k h u)
  | some old => rw [keys_unique l k u old hn hm (lookupInit_some l k old h)]

theorem mem_dictSet (l : List (String × Nat)) (k k' : String) (v u : Nat) :
    (k', u) ∈ dictSet l k v ↔ (k' = k ∧ u = v) ∨ (k' ≠ k ∧ (k', u) ∈ l) := by
  unfold dictSet
  split
  · rename_i hany
    simp only [List.mem_map]
    constructor
    · rintro ⟨p, hp, he⟩
      split at he
      · cases he; exact Or.inl ⟨rfl, rfl⟩
      · rename_i hne; subst he; exact Or.inr ⟨hne, hp⟩
    · rintro (⟨h1, h2⟩ | ⟨h1, h2⟩)
      · subst h1 h2
        simp at hany
        obtain ⟨b, hab⟩ := hany
        exact ⟨(k', b), hab, by simp⟩
      · exact ⟨(k', u), h2, by simp [h1]⟩
  · rename_i hany
    simp at hany
    simp only [List.mem_append, List.mem_singleton, Prod.mk.injEq]
    constructor
    · rintro (h | ⟨h1, h2⟩)
      · exact Or.inr ⟨fun e => hany u (e ▸ h), h⟩
      · exact Or.inl ⟨h1, h2⟩
    · rintro (⟨h1, h2⟩ | ⟨h1, h2⟩)
      · exact Or.inr ⟨h1, h2⟩
      · exact Or.inl h2

theorem keys_dictSet (l : List (String × Nat)) (k : String) (v : Nat) (hn : (l.map Prod.fst).Nodup) :
    ((dictSet l k v).map Prod.fst).Nodup := by
  unfold dictSet
  split
  · have : (l.map (fun p => if p.1 = k then (k, v) else p)).map Prod.fst = l.map Prod.fst := by
      simp only [List.map_map]
      apply List.map_congr_left
      intro p _; simp; split <;> simp_all
    rw [this]; exact hn
  · rename_i hany
    simp at hany
    simp [List.nodup_append, hn]
    intro a b hab hc
    subst hc
    exact hany b hab


/-- the record of an initializer after it left the mapping -/
def clearedInit (x : ValueS) : ValueS :=
  { x with isInit := false, graph := if owned { x with isInit := false } then x.graph else none }

@[simp] theorem clearedInit_flag (k : IOKind) (x : ValueS) : ioFlag k (clearedInit x) = ioFlag k x := by
  cases k <;> rfl
@[simp] theorem clearedInit_isInit (x : ValueS) : (clearedInit x).isInit = false := rfl
@[simp] theorem clearedInit_name (x : ValueS) : (clearedInit x).name = x.name := rfl
@[simp] theorem clearedInit_producer (x : ValueS) : (clearedInit x).producer = x.producer := rfl
@[simp] theorem clearedInit_index (x : ValueS) : (clearedInit x).index = x.index := rfl
@[simp] theorem clearedInit_uses (x : ValueS) : (clearedInit x).uses = x.uses := rfl
theorem clearedInit_graph (x : ValueS) :
    (clearedInit x).graph = if (x.isIn || x.isOut) then x.graph else none := by
  simp [clearedInit, owned]
theorem owned_clearedInit (x : ValueS) : owned (clearedInit x) = (x.isIn || x.isOut) := by
  simp [clearedInit, owned]

theorem flag_imp_inout (k : IOKind) (x : ValueS) (h : ioFlag k x = true) : (x.isIn || x.isOut) = true := by
  cases k <;> simp_all [ioFlag]

theorem unsetInit_val (w : World) (old u : Nat) :
    (unsetInit w old).val u = if u = old then clearedInit (w.val old) else w.val u := by
  simp [unsetInit, clearedInit]
theorem unsetInit_gr (w : World) (old g : Nat) : (unsetInit w old).gr g = w.gr g := rfl
theorem unsetInit_node (w : World) (old n : Nat) : (unsetInit w old).node n = w.node n := rfl

theorem initDel_gr (w : World) (g : Nat) (key : String) (old : Nat)
    (hl : lookupInit (w.gr g).inits key = some old) (g' : Nat) :
    (initDel w g key).gr g' =
      if g' = g then { w.gr g with inits := dictDel (w.gr g).inits key } else w.gr g' := by
  simp [initDel, hl, unsetInit_gr]

theorem initDel_val (w : World) (g : Nat) (key : String) (old : Nat)
    (hl : lookupInit (w.gr g).inits key = some old) (u : Nat) :
    (initDel w g key).val u = if u = old then clearedInit (w.val old) else w.val u := by
  simp [initDel, hl, unsetInit_val]

theorem initDel_node (w : World) (g : Nat) (key : String) (n : Nat) : (initDel w g key).node n = w.node n := by
  unfold initDel; split <;> rfl

theorem ioList_inits (k : IOKind) (r : GraphS) (l : List (String × Nat)) :
    ioList k { r with inits := l } = ioList k r := by cases k <;> rfl
theorem ioCnt_inits (k : IOKind) (r : GraphS) (l : List (String × Nat)) :
    ioCnt k { r with inits := l } = ioCnt k r := by cases k <;> rfl

theorem initDel_I_own (w : World) (g : Nat) (key : String) (h : I_own w) (hk : I_key w) :
    I_own (initDel w g key) := by
  cases hl : lookupInit (w.gr g).inits key with
  | none => simp [initDel, hl]; exact I_own_bump h
  | some old =>
    have hmem := lookupInit_some _ _ _ hl
    obtain ⟨hoi, hog⟩ := h.init_mem g key old hmem
    have hlist : ∀ k' g', ioList k' ((initDel w g key).gr g') = ioList k' (w.gr g') := by
      intro k' g'; rw [initDel_gr _ _ _ _ hl]; split
      · subst_vars; exact ioList_inits _ _ _
      · rfl
    have hcnt : ∀ k' g', ioCnt k' ((initDel w g key).gr g') = ioCnt k' (w.gr g') := by
      intro k' g'; rw [initDel_gr _ _ _ _ hl]; split
      · subst_vars; exact ioCnt_inits _ _ _
      · rfl
    constructor
    · intro k' g' u; rw [hlist, hcnt]; exact h.cnt k' g' u
    · intro k' g' u hm
      rw [hlist] at hm
      obtain ⟨hf, hg⟩ := h.io_mem k' g' u hm
      rw [initDel_val _ _ _ _ hl]
      split
      · subst_vars
        refine ⟨by simpa using hf, ?_⟩
        rw [clearedInit_graph, if_pos (flag_imp_inout _ _ hf)]; exact hg
      · exact ⟨hf, hg⟩
    · intro k' u hf
      rw [initDel_val _ _ _ _ hl] at hf ⊢
      simp only [hlist]
      split at hf
      · subst_vars
        simp at hf
        obtain ⟨g', hg', hm⟩ := h.io_flag k' _ hf
        refine ⟨g', ?_, hm⟩
        simp only [if_true]
        rw [clearedInit_graph, if_pos (flag_imp_inout _ _ hf)]; exact hg'
      · rename_i hne; simp only [hne, if_false]
        exact h.io_flag k' u hf
    · intro g' key' u hm
      rw [initDel_gr _ _ _ _ hl] at hm
      have hm' : (key', u) ∈ (w.gr g').inits ∧ (g' = g → key' ≠ key) := by
        split at hm
        · subst_vars; simp [mem_dictDel] at hm; exact ⟨hm.2, fun _ => hm.1⟩
        · rename_i hne; exact ⟨hm, fun e => absurd e hne⟩
      obtain ⟨hi, hg⟩ := h.init_mem g' key' u hm'.1
      rw [initDel_val _ _ _ _ hl]
      split
      · subst_vars
        -- old is stored under `key` and under `key'` in graphs g, g'
        have hgg : g' = g := by rw [hog] at hg; exact (Option.some.inj hg).symm
        subst hgg
        have h1 := (hk.name g' key _ hmem).1
        have h2 := (hk.name g' key' _ hm'.1).1
        rw [h1] at h2
        exact absurd (Option.some.inj h2).symm (hm'.2 rfl)
      · exact ⟨hi, hg⟩
    · intro u hf
      rw [initDel_val _ _ _ _ hl] at hf ⊢
      split at hf
      · simp at hf
      · rename_i hne; simp only [hne, if_false]
        obtain ⟨g', key', hg', hm⟩ := h.init_flag u hf
        refine ⟨g', key', hg', ?_⟩
        rw [initDel_gr _ _ _ _ hl]
        split
        · subst_vars
          simp [mem_dictDel]
          refine ⟨?_, hm⟩
          intro hkk; subst hkk
          exact hne (keys_unique _ _ _ _ (hk.keys g') hm hmem)
        · exact hm
    · intro u g' hgr
      rw [initDel_val _ _ _ _ hl] at hgr ⊢
      split at hgr
      · subst_vars; simp only [if_true]
        rw [clearedInit_graph] at hgr
        rw [owned_clearedInit]
        split at hgr
        · assumption
        · simp at hgr
      · rename_i hne; simp only [hne, if_false]; exact h.graph_owned u g' hgr


theorem setNamePlain_val (w : World) (v : Nat) (s : Option String) (u : Nat) :
    (setNamePlain w v s).val u = if u = v then { w.val v with name := s } else w.val u := by
  have h1 : (noteOwner (w.setVal v { w.val v with name := s }) v s).val u =
      if u = v then { w.val v with name := s } else w.val u := by simp
  unfold setNamePlain; simp only []; split
  · exact h1
  · exact h1
theorem setNamePlain_gr (w : World) (v : Nat) (s : Option String) (g : Nat) :
    (setNamePlain w v s).gr g = w.gr g := by
  have h1 : (noteOwner (w.setVal v { w.val v with name := s }) v s).gr g = w.gr g := by simp
  unfold setNamePlain; simp only []; split
  · exact h1
  · exact h1
theorem setNamePlain_node (w : World) (v : Nat) (s : Option String) (n : Nat) :
    (setNamePlain w v s).node n = w.node n := by
  have h1 : (noteOwner (w.setVal v { w.val v with name := s }) v s).node n = w.node n := by simp
  unfold setNamePlain; simp only []; split
  · exact h1
  · exact h1

theorem initOK_iff (w : World) (g : Nat) (key : String) (v : Nat) :
    initOK w g key v = true ↔
      key ≠ "" ∧ (falsy (w.val v).name = true ∨ (w.val v).name = some key) ∧ (w.val v).producer = none ∧
      ((w.val v).graph = none ∨ (w.val v).graph = some g) ∧
      (falsy (w.val v).name = true → (w.val v).isInit = false ∧ constLocked w v = false) := by
  simp [initOK]
  constructor
  · rintro ⟨⟨⟨⟨h1, h2⟩, h3⟩, h4⟩, h5⟩
    refine ⟨h1, h2, h3, h4, ?_⟩
    intro hf; rcases h5 with h5 | h5
    · simp [hf] at h5
    · exact h5
  · rintro ⟨h1, h2, h3, h4, h5⟩
    refine ⟨⟨⟨⟨h1, h2⟩, h3⟩, h4⟩, ?_⟩
    by_cases hf : falsy (w.val v).name = true
    · exact Or.inr (h5 hf)
    · exact Or.inl (by simpa using hf)

theorem initPut_gr (w : World) (g : Nat) (key : String) (v : Nat) (hok : initOK w g key v = true) (g' : Nat) :
    (initPut w g key v).gr g' =
      if g' = g then { w.gr g with inits := dictSet (w.gr g).inits key v } else w.gr g' := by
  simp only [initPut, hok, if_true]
  have h1 : ∀ g', (if falsy (w.val v).name = true then setNamePlain w v (some key) else w).gr g' = w.gr g' := by
    intro g'; split
    · exact setNamePlain_gr _ _ _ _
    · rfl
  simp only [h1]
  cases hl : lookupInit (w.gr g).inits key <;> simp [unsetInit_gr, h1] <;> split <;> rfl

theorem initPut_val (w : World) (g : Nat) (key : String) (v : Nat) (hok : initOK w g key v = true) (u : Nat) :
    (initPut w g key v).val u =
      if u = v then { w.val v with name := some key, isInit := true, graph := some g }
      else if lookupInit (w.gr g).inits key = some u then clearedInit (w.val u) else w.val u := by
  obtain ⟨-, hnm, -, -, -⟩ := (initOK_iff w g key v).1 hok
  simp only [initPut, hok, if_true]
  have h1 : ∀ g', (if falsy (w.val v).name = true then setNamePlain w v (some key) else w).gr g' = w.gr g' := by
    intro g'; split
    · exact setNamePlain_gr _ _ _ _
    · rfl
  have h2 : ∀ u, (if falsy (w.val v).name = true then setNamePlain w v (some key) else w).val u =
      if u = v then { w.val v with name := some key } else w.val u := by
    intro u; split
    · exact setNamePlain_val _ _ _ _
    · rename_i hf
      rcases hnm with hnm | hnm
      · exact absurd hnm hf
      · split
        · subst_vars; rw [← hnm]
        · rfl
  simp only [h1]
  cases hl : lookupInit (w.gr g).inits key with
  | none =>
    by_cases huv : u = v
    · subst huv; simp [h2]
    · simp [h2, huv]
  | some old =>
    by_cases huv : u = v
    · subst huv
      by_cases huo : old = u
      · subst huo; simp [unsetInit_val, h2, clearedInit]
      · have : ¬ u = old := fun e => huo e.symm
        simp [unsetInit_val, h2, huo, this]
    · by_cases huo : u = old
      · subst huo; simp [unsetInit_val, h2, huv]
      · have : ¬ old = u := fun e => huo e.symm
        simp [unsetInit_val, h2, huv, huo, this]

theorem initPut_node (w : World) (g : Nat) (key : String) (v : Nat) (n : Nat) :
    (initPut w g key v).node n = w.node n := by
  unfold initPut
  split
  · have h1 : ∀ n, (if falsy (w.val v).name = true then setNamePlain w v (some key) else w).node n = w.node n := by
      intro n; split
      · exact setNamePlain_node _ _ _ _
      · rfl
    simp only []
    split <;> simp [unsetInit_node, h1]
  · rfl

theorem initPut_I_own (w : World) (g : Nat) (key : String) (v : Nat) (h : I_own w) (hk : I_key w) :
    I_own (initPut w g key v) := by
  by_cases hok : initOK w g key v = true
  · obtain ⟨hkey, hnm, hprod, hgr, hfi⟩ := (initOK_iff w g key v).1 hok
    have hlist : ∀ k' g', ioList k' ((initPut w g key v).gr g') = ioList k' (w.gr g') := by
      intro k' g'; rw [initPut_gr _ _ _ _ hok]; split
      · subst_vars; exact ioList_inits _ _ _
      · rfl
    have hcnt : ∀ k' g', ioCnt k' ((initPut w g key v).gr g') = ioCnt k' (w.gr g') := by
      intro k' g'; rw [initPut_gr _ _ _ _ hok]; split
      · subst_vars; exact ioCnt_inits _ _ _
      · rfl
    -- `v` is stored (if at all) under `key` in `g`
    have hvkey : ∀ g' key', (key', v) ∈ (w.gr g').inits → g' = g ∧ key' = key := by
      intro g' key' hm
      obtain ⟨hi, hg⟩ := h.init_mem g' key' v hm
      obtain ⟨hn, hne⟩ := hk.name g' key' v hm
      have hnf : ¬ falsy (w.val v).name = true := by
        intro hf; have := hfi hf; simp [hi] at this
      rcases hnm with hnm | hnm
      · exact absurd hnm hnf
      · rw [hn] at hnm
        refine ⟨?_, Option.some.inj hnm⟩
        rcases hgr with hgr | hgr <;> rw [hg] at hgr
        · simp at hgr
        · exact Option.some.inj hgr
    constructor
    · intro k' g' u; rw [hlist, hcnt]; exact h.cnt k' g' u
    · intro k' g' u hm
      rw [hlist] at hm
      obtain ⟨hf, hg⟩ := h.io_mem k' g' u hm
      rw [initPut_val _ _ _ _ hok]
      split
      · subst_vars
        refine ⟨by cases k' <;> simpa [ioFlag] using hf, ?_⟩
        simp
        rcases hgr with hgr | hgr <;> rw [hg] at hgr
        · simp at hgr
        · exact (Option.some.inj hgr).symm
      · split
        · refine ⟨by simpa using hf, ?_⟩
          rw [clearedInit_graph, if_pos (flag_imp_inout _ _ hf)]; exact hg
        · exact ⟨hf, hg⟩
    · intro k' u hf
      rw [initPut_val _ _ _ _ hok] at hf ⊢
      simp only [hlist]
      by_cases huv : u = v
      · subst huv
        simp only [if_true] at hf ⊢
        have hf' : ioFlag k' (w.val u) = true := by cases k' <;> simpa [ioFlag] using hf
        obtain ⟨g', hg', hm⟩ := h.io_flag k' u hf'
        have : g' = g := by
          rcases hgr with hgr | hgr <;> rw [hg'] at hgr
          · simp at hgr
          · exact Option.some.inj hgr
        subst this
        exact ⟨g', rfl, hm⟩
      · simp only [huv, if_false] at hf ⊢
        split at hf
        · simp at hf
          obtain ⟨g', hg', hm⟩ := h.io_flag k' u hf
          refine ⟨g', ?_, hm⟩
          rename_i hl; simp only [hl, if_true]
          rw [clearedInit_graph, if_pos (flag_imp_inout _ _ hf)]; exact hg'
        · rename_i hl; simp only [hl, if_false]
          exact h.io_flag k' u hf
    · intro g' key' u hm
      rw [initPut_gr _ _ _ _ hok] at hm
      rw [initPut_val _ _ _ _ hok]
      by_cases hg : g' = g
      · subst hg
        simp [mem_dictSet] at hm
        rcases hm with ⟨rfl, rfl⟩ | ⟨hne, hm⟩
        · simp
        · have huv : u ≠ v := by
            intro e; subst e
            exact hne (hvkey g' key' hm).2
          obtain ⟨hi, hgu⟩ := h.init_mem g' key' u hm
          simp only [huv, if_false]
          split
          · rename_i hl
            have := lookupInit_some _ _ _ hl
            have h1 := (hk.name g' key u this).1
            have h2 := (hk.name g' key' u hm).1
            rw [h1] at h2
            exact absurd (Option.some.inj h2).symm hne
          · exact ⟨hi, hgu⟩
      · simp only [hg, if_false] at hm
        obtain ⟨hi, hgu⟩ := h.init_mem g' key' u hm
        have huv : u ≠ v := by
          intro e; subst e
          exact hg (hvkey g' key' hm).1
        simp only [huv, if_false]
        split
        · rename_i hl
          have := lookupInit_some _ _ _ hl
          obtain ⟨-, hgu'⟩ := h.init_mem g key u this
          rw [hgu] at hgu'
          exact absurd (Option.some.inj hgu') hg
        · exact ⟨hi, hgu⟩
    · intro u hf
      rw [initPut_val _ _ _ _ hok] at hf ⊢
      by_cases huv : u = v
      · subst huv
        refine ⟨g, key, by simp, ?_⟩
        rw [initPut_gr _ _ _ _ hok]; simp [mem_dictSet]
      · simp only [huv, if_false] at hf ⊢
        split at hf
        · simp at hf
        · rename_i hl
          simp only [hl, if_false]
          obtain ⟨g', key', hg', hm⟩ := h.init_flag u hf
          refine ⟨g', key', hg', ?_⟩
          rw [initPut_gr _ _ _ _ hok]
          split
          · subst_vars
            simp [mem_dictSet]
            refine Or.inr ⟨?_, hm⟩
            intro e; subst e
            exact hl (lookupInit_of_mem _ _ _ (hk.keys g') hm)
          · exact hm
    · intro u g' hgu
      rw [initPut_val _ _ _ _ hok] at hgu ⊢
      by_cases huv : u = v
      · simp only [huv, if_true]; simp [owned]
      · simp only [huv, if_false] at hgu ⊢
        split at hgu
        · rename_i hl; simp only [hl, if_true]
          rw [clearedInit_graph] at hgu
          rw [owned_clearedInit]
          split at hgu
          · assumption
          · simp at hgu
        · rename_i hl; simp only [hl, if_false]; exact h.graph_owned u g' hgu
  · simp [initPut, hok]; exact I_own_bump h

theorem initPut_I_key (w : World) (g : Nat) (key : String) (v : Nat) (h : I_own w) (hk : I_key w) :
    I_key (initPut w g key v) := by
  by_cases hok : initOK w g key v = true
  · obtain ⟨hkey, hnm, hprod, hgr, hfi⟩ := (initOK_iff w g key v).1 hok
    have hvkey : ∀ g' key', (key', v) ∈ (w.gr g').inits → key' = key := by
      intro g' key' hm
      obtain ⟨hi, hg⟩ := h.init_mem g' key' v hm
      obtain ⟨hn, hne⟩ := hk.name g' key' v hm
      have hnf : ¬ falsy (w.val v).name = true := by
        intro hf; have := hfi hf; simp [hi] at this
      rcases hnm with hnm | hnm
      · exact absurd hnm hnf
      · rw [hn] at hnm; exact Option.some.inj hnm
    constructor
    · intro g' key' u hm
      rw [initPut_gr _ _ _ _ hok] at hm
      rw [initPut_val _ _ _ _ hok]
      have hm' : (key' = key ∧ u = v ∧ g' = g) ∨ (key', u) ∈ (w.gr g').inits := by
        split at hm
        · subst_vars; simp [mem_dictSet] at hm
          rcases hm with ⟨h1, h2⟩ | ⟨-, h2⟩
          · exact Or.inl ⟨h1, h2, rfl⟩
          · exact Or.inr h2
        · exact Or.inr hm
      rcases hm' with ⟨rfl, rfl, rfl⟩ | hm'
      · simp [hkey]
      · obtain ⟨hn, hne⟩ := hk.name g' key' u hm'
        by_cases huv : u = v
        · subst huv; simp only [if_true]
          exact ⟨by simp [hvkey g' key' hm'], hne⟩
        · simp only [huv, if_false]
          split
          · exact ⟨by simpa using hn, hne⟩
          · exact ⟨hn, hne⟩
    · intro g'
      rw [initPut_gr _ _ _ _ hok]
      split
      · subst_vars; exact keys_dictSet _ _ _ (hk.keys _)
      · exact hk.keys g'
  · simp [initPut, hok]; exact I_key_bump hk

theorem initPut_I_root (w : World) (g : Nat) (key : String) (v : Nat) (h : I_root w) :
    I_root (initPut w g key v) := by
  by_cases hok : initOK w g key v = true
  · obtain ⟨hkey, hnm, hprod, hgr, hfi⟩ := (initOK_iff w g key v).1 hok
    intro u
    rw [initPut_val _ _ _ _ hok]
    split
    · subst_vars; intro _; exact hprod
    · split
      · intro hf; apply h u
        rcases hf with hf | hf
        · exact Or.inl (by simpa [clearedInit] using hf)
        · simp at hf
      · exact h u
  · simp [initPut, hok]; exact I_root_bump h

theorem initDel_I_key (w : World) (g : Nat) (key : String) (hk : I_key w) : I_key (initDel w g key) := by
  cases hl : lookupInit (w.gr g).inits key with
  | none => simp [initDel, hl]; exact I_key_bump hk
  | some old =>
    constructor
    · intro g' key' u hm
      rw [initDel_gr _ _ _ _ hl] at hm
      have hm' : (key', u) ∈ (w.gr g').inits := by
        split at hm
        · subst_vars; simp [mem_dictDel] at hm; exact hm.2
        · exact hm
      rw [initDel_val _ _ _ _ hl]
      split
      · subst_vars; simpa using hk.name g' key' _ hm'
      · exact hk.name g' key' u hm'
    · intro g'
      rw [initDel_gr _ _ _ _ hl]
      split
      · subst_vars; exact keys_dictDel _ _ (hk.keys _)
      · exact hk.keys g'

theorem initDel_I_root (w : World) (g : Nat) (key : String) (h : I_root w) : I_root (initDel w g key) := by
  cases hl : lookupInit (w.gr g).inits key with
  | none => simp [initDel, hl]; exact I_root_bump h
  | some old =>
    intro u
    rw [initDel_val _ _ _ _ hl]
    split
    · subst_vars
      intro hf; apply h u
      rcases hf with hf | hf
      · exact Or.inl (by simpa [clearedInit] using hf)
      · simp at hf
    · exact h u


/-! ### frames of the initializer primitives -/

theorem initPut_I_use (w : World) (g : Nat) (key : String) (v : Nat) (h : I_use w) : I_use (initPut w g key v) := by
  by_cases hok : initOK w g key v = true
  · apply I_use_congr _ _ h
    · intro u; rw [initPut_val _ _ _ _ hok]; split
      · subst_vars; rfl
      · split <;> simp
    · intro n; rw [initPut_node]
  · simp [initPut, hok]; exact I_use_bump h

theorem initPut_I_prod (w : World) (g : Nat) (key : String) (v : Nat) (h : I_prod w) :
    I_prod (initPut w g key v) := by
  by_cases hok : initOK w g key v = true
  · apply I_prod_congr _ _ h
    · intro u; rw [initPut_val _ _ _ _ hok]; split
      · subst_vars; exact ⟨rfl, rfl⟩
      · split <;> simp
    · intro n; rw [initPut_node]
  · simp [initPut, hok]; exact I_prod_bump h

theorem initPut_I_node (w : World) (g : Nat) (key : String) (v : Nat) (h : I_node w) :
    I_node (initPut w g key v) := by
  by_cases hok : initOK w g key v = true
  · apply I_node_congr _ _ h
    · intro n; rw [initPut_node]
    · intro g'; rw [initPut_gr _ _ _ _ hok]; split
      · subst_vars; rfl
      · rfl
  · simp [initPut, hok]; exact I_node_bump h

theorem initDel_I_use (w : World) (g : Nat) (key : String) (h : I_use w) : I_use (initDel w g key) := by
  cases hl : lookupInit (w.gr g).inits key with
  | none => simp [initDel, hl]; exact I_use_bump h
  | some old =>
    apply I_use_congr _ _ h
    · intro u; rw [initDel_val _ _ _ _ hl]; split
      · subst_vars; simp
      · rfl
    · intro n; rw [initDel_node]

theorem initDel_I_prod (w : World) (g : Nat) (key : String) (h : I_prod w) : I_prod (initDel w g key) := by
  cases hl : lookupInit (w.gr g).inits key with
  | none => simp [initDel, hl]; exact I_prod_bump h
  | some old =>
    apply I_prod_congr _ _ h
    · intro u; rw [initDel_val _ _ _ _ hl]; split
      · subst_vars; simp
      · exact ⟨rfl, rfl⟩
    · intro n; rw [initDel_node]

theorem initDel_I_node (w : World) (g : Nat) (key : String) (h : I_node w) : I_node (initDel w g key) := by
  cases hl : lookupInit (w.gr g).inits key with
  | none => simp [initDel, hl]; exact I_node_bump h
  | some old =>
    apply I_node_congr _ _ h
    · intro n; rw [initDel_node]
    · intro g'; rw [initDel_gr _ _ _ _ hl]; split
      · subst_vars; rfl
      · rfl

/-! ### plain renaming -/

theorem setNamePlain_I_use (w : World) (v : Nat) (s : Option String) (h : I_use w) : I_use (setNamePlain w v s) := by
  apply I_use_congr _ _ h
  · intro u; rw [setNamePlain_val]; split
    · subst_vars; rfl
    · rfl
  · intro n; rw [setNamePlain_node]

theorem setNamePlain_I_prod (w : World) (v : Nat) (s : Option String) (h : I_prod w) :
    I_prod (setNamePlain w v s) := by
  apply I_prod_congr _ _ h
  · intro u; rw [setNamePlain_val]; split
    · subst_vars; exact ⟨rfl, rfl⟩
    · exact ⟨rfl, rfl⟩
  · intro n; rw [setNamePlain_node]

theorem setNamePlain_I_root (w : World) (v : Nat) (s : Option String) (h : I_root w) :
    I_root (setNamePlain w v s) := by
  apply I_root_congr _ h
  intro u; rw [setNamePlain_val]; split
  · subst_vars; exact ⟨rfl, rfl, rfl⟩
  · exact ⟨rfl, rfl, rfl⟩

theorem setNamePlain_I_own (w : World) (v : Nat) (s : Option String) (h : I_own w) :
    I_own (setNamePlain w v s) := by
  apply I_own_congr _ _ h
  · intro u; rw [setNamePlain_val]; split
    · subst_vars; exact ⟨rfl, rfl, rfl, rfl⟩
    · exact ⟨rfl, rfl, rfl, rfl⟩
  · intro g; rw [setNamePlain_gr]; exact ⟨rfl, rfl, rfl, rfl, rfl⟩

theorem setNamePlain_I_node (w : World) (v : Nat) (s : Option String) (h : I_node w) :
    I_node (setNamePlain w v s) := by
  apply I_node_congr _ _ h
  · intro n; rw [setNamePlain_node]
  · intro g; rw [setNamePlain_gr]

/-- renaming a value that is not an initializer keeps every initializer under its name -/
theorem setNamePlain_I_key (w : World) (v : Nat) (s : Option String) (h : I_own w) (hk : I_key w)
    (hv : (w.val v).isInit = false) : I_key (setNamePlain w v s) := by
  constructor
  · intro g key u hm
    rw [setNamePlain_gr] at hm
    rw [setNamePlain_val]
    split
    · subst_vars
      have := (h.init_mem g key _ hm).1
      simp [hv] at this
    · exact hk.name g key u hm
  · intro g; rw [setNamePlain_gr]; exact hk.keys g

end IrVerif.Kernel

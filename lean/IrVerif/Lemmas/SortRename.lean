/-
C12 — determinism: the result of the sort is equivariant under any injective renaming of node
identities and of graph identities, i.e. it depends only on the structure of the tree and on the
current node order, never on which identities (creation indices, addresses) the objects carry.
-/
import IrVerif.Lemmas.SortPos

namespace IrVerif.Sort
open List

mutual
/-- rename node ids by `σ` and graph ids by `τ` everywhere in a node tree -/
def renN (σ τ : Nat → Nat) : MNode → MNode
  | .mk i ins subs => .mk (σ i) (ins.map (Option.map σ)) (renGs σ τ subs)
def renGs (σ τ : Nat → Nat) : List (Nat × List MNode) → List (Nat × List MNode)
  | [] => []
  | (k, ns) :: gs => (τ k, renNs σ τ ns) :: renGs σ τ gs
def renNs (σ τ : Nat → Nat) : List MNode → List MNode
  | [] => []
  | n :: ns => renN σ τ n :: renNs σ τ ns
end

def renG (σ τ : Nat → Nat) (g : MGraph) : MGraph := (τ g.1, renNs σ τ g.2)

def renEnt (σ τ : Nat → Nat) (e : Ent) : Ent :=
  ⟨σ e.id, τ e.gid, e.inputs.map (Option.map σ), e.subNodes.map σ⟩

/-- renaming of a result / of the list of current orders -/
def renOrders (σ τ : Nat → Nat) (r : List (Nat × List Nat)) : List (Nat × List Nat) :=
  r.map (fun gc => (τ gc.1, gc.2.map σ))

variable (σ τ : Nat → Nat)

theorem renNs_ids (ns : List MNode) : (renNs σ τ ns).map MNode.id = (ns.map MNode.id).map σ := by
  induction ns with
  | nil => simp [renNs]
  | cons n ns ih => cases n; simp [renNs, renN, MNode.id, ih]

theorem subNodeIds_ren (gs : List MGraph) :
    subNodeIds (renGs σ τ gs) = (subNodeIds gs).map σ := by
  induction gs with
  | nil => simp [renGs, subNodeIds]
  | cons g gs ih =>
    obtain ⟨k, ns⟩ := g
    simp only [subNodeIds, renGs, List.flatMap_cons, List.map_append] at *
    rw [ih, renNs_ids]

mutual
theorem entsN_ren : ∀ (k : Nat) (n : MNode),
    entsN (τ k) (renN σ τ n) = (entsN k n).map (renEnt σ τ)
  | k, .mk i ins subs => by
    simp only [renN, entsN, List.map_cons, renEnt, subNodeIds_ren, entsGs_ren subs]
theorem entsGs_ren : ∀ gs : List (Nat × List MNode),
    entsGs (renGs σ τ gs) = (entsGs gs).map (renEnt σ τ)
  | [] => by simp [renGs, entsGs]
  | (k, ns) :: gs => by
    simp only [renGs, entsGs, List.map_append, entsNs_ren k ns, entsGs_ren gs]
theorem entsNs_ren : ∀ (k : Nat) (ns : List MNode),
    entsNs (τ k) (renNs σ τ ns) = (entsNs k ns).map (renEnt σ τ)
  | _, [] => by simp [renNs, entsNs]
  | k, n :: ns => by
    simp only [renNs, entsNs, List.map_append, entsN_ren k n, entsNs_ren k ns]
end

theorem nodesOf_ren (g : MGraph) : nodesOf (renG σ τ g) = (nodesOf g).map (renEnt σ τ) :=
  entsNs_ren σ τ g.1 g.2

mutual
theorem subgraphsN_ren : ∀ n : MNode,
    subgraphsN (renN σ τ n) = (subgraphsN n).map (renG σ τ)
  | .mk i ins subs => by simp only [renN, subgraphsN, subgraphsGs_ren subs]
theorem subgraphsGs_ren : ∀ gs : List (Nat × List MNode),
    subgraphsGs (renGs σ τ gs) = (subgraphsGs gs).map (renG σ τ)
  | [] => by simp [renGs, subgraphsGs]
  | (k, ns) :: gs => by
    simp only [renGs, subgraphsGs, List.map_append, List.map_cons, subgraphsNs_ren ns,
      subgraphsGs_ren gs, renG]
theorem subgraphsNs_ren : ∀ ns : List MNode,
    subgraphsNs (renNs σ τ ns) = (subgraphsNs ns).map (renG σ τ)
  | [] => by simp [renNs, subgraphsNs]
  | n :: ns => by
    simp only [renNs, subgraphsNs, List.map_append, subgraphsN_ren n, subgraphsNs_ren ns]
end

theorem graphsOf_ren (g : MGraph) : graphsOf (renG σ τ g) = renOrders σ τ (graphsOf g) := by
  simp only [graphsOf, allGraphs, renOrders, List.map_cons, List.map_map]
  rw [show (renG σ τ g).2 = renNs σ τ g.2 from rfl, subgraphsNs_ren, List.map_map]
  congr 1
  · simp [orderOf, renG, renNs_ids]
  · apply List.map_congr_left
    intro h _
    simp [orderOf, renG, renNs_ids]

variable {σ τ}

theorem indexOfId_ren (hσ : Function.Injective σ) (U : List Ent) (p : Nat) :
    indexOfId (U.map (renEnt σ τ)) (σ p) = indexOfId U p := by
  unfold indexOfId
  rw [List.findIdx?_map]
  congr 1
  funext e
  simp only [Function.comp, renEnt]
  by_cases h : e.id = p
  · simp [h]
  · have : σ e.id ≠ σ p := fun hc => h (hσ hc)
    simp [h, this]

theorem predsOfEnt_ren (hσ : Function.Injective σ) (U : List Ent) (e : Ent) :
    predsOfEnt (U.map (renEnt σ τ)) (renEnt σ τ e) = predsOfEnt U e := by
  simp only [predsOfEnt, renEnt, List.filterMap_map]
  congr 1
  · apply List.filterMap_congr
    intro o _
    cases o with
    | none => rfl
    | some a => simp [Function.comp, indexOfId_ren (τ := τ) hσ U a]
  · apply List.filterMap_congr
    intro a _
    simp [Function.comp, indexOfId_ren (τ := τ) hσ U a]

theorem predsAt_ren (hσ : Function.Injective σ) (U : List Ent) :
    predsAt (U.map (renEnt σ τ)) = predsAt U := by
  funext i
  simp only [predsAt, List.getElem?_map]
  cases h : U[i]? with
  | none => rfl
  | some e => simp [predsOfEnt_ren (τ := τ) hσ U e]

theorem bucket_ren (hτ : Function.Injective τ) (U : List Ent) (out : List Nat) (k : Nat) :
    bucket (U.map (renEnt σ τ)) out (τ k) = (bucket U out k).map σ := by
  simp only [bucket, List.getElem?_map]
  rw [show (fun i => Option.map (renEnt σ τ) U[i]?) = (fun i => Option.map (renEnt σ τ) ((fun i => U[i]?) i)) from rfl,
    ← List.map_filterMap, List.filter_map, List.map_map, List.map_map]
  congr 1
  apply List.filter_congr
  intro e _
  simp only [Function.comp, renEnt]
  by_cases h : e.gid = k
  · simp [h]
  · have : τ e.gid ≠ τ k := fun hc => h (hτ hc)
    simp [h, this]

theorem appendMove_ren (hσ : Function.Injective σ) (l : List Nat) (x : Nat) :
    appendMove (l.map σ) (σ x) = (appendMove l x).map σ := by
  unfold appendMove
  rw [List.getLast?_map]
  by_cases h : l.getLast? = some x
  · simp [h]
  · have : Option.map σ l.getLast? ≠ some (σ x) := by
      intro hc
      cases hl : l.getLast? with
      | none => simp [hl] at hc
      | some y => simp [hl] at hc; exact h (by rw [hl, hσ hc])
    rw [if_neg h, if_neg this, List.map_append, List.map_erase hσ]
    simp

theorem relink_ren (hσ : Function.Injective σ) (cur xs : List Nat) :
    relink (cur.map σ) (xs.map σ) = (relink cur xs).map σ := by
  induction xs generalizing cur with
  | nil => simp [relink]
  | cons x xs ih =>
    simp only [relink, List.map_cons, List.foldl_cons] at *
    rw [appendMove_ren hσ, ih]

theorem sharedGraph_ren (hσ : Function.Injective σ) (U : List Ent) :
    sharedGraph (U.map (renEnt σ τ)) = sharedGraph U := by
  unfold sharedGraph
  have : (U.map (renEnt σ τ)).map Ent.id = (U.map Ent.id).map σ := by
    simp [List.map_map, Function.comp, renEnt]
  rw [this]
  by_cases h : (U.map Ent.id).Nodup
  · have h2 : ((U.map Ent.id).map σ).Nodup := (List.nodup_map_iff hσ).2 h
    rw [decide_eq_true h, decide_eq_true h2]
  · have h2 : ¬ ((U.map Ent.id).map σ).Nodup := fun hc => h ((List.nodup_map_iff hσ).1 hc)
    rw [decide_eq_false h, decide_eq_false h2]

/-- **equivariance of the whole sort** under injective renaming of node and graph identities -/
theorem sortModel_ren (hσ : Function.Injective σ) (hτ : Function.Injective τ) (g : MGraph) :
    sortModel (renG σ τ g) = (sortModel g).map (renOrders σ τ) := by
  simp only [sortModel, nodesOf_ren, List.length_map, predsAt_ren (τ := τ) hσ, graphsOf_ren,
    sharedGraph_ren (τ := τ) hσ]
  split
  · rfl
  split
  · rfl
  · simp only [Option.map_some, renOrders, List.map_map]
    congr 1
    apply List.map_congr_left
    intro gc _
    simp only [Function.comp]
    rw [bucket_ren hτ, relink_ren hσ]

end IrVerif.Sort

/-
Helper development for C13_closed_outer (allow_outer_scope_values = True): a node input that the
cloner passes through unchanged is, at that moment, neither bound in the value map nor a pending
output of a graph being cloned — so it is not an input, initializer or node output of the graph
being cloned (nor of an enclosing one): it is a genuine outer-scope value.
-/
import IrVerif.Lemmas.CloneSim
namespace IrVerif.Clone

/-- `v` is known to the cloner: bound in the value map or announced as a pending node output -/
def Cov (s : St) (v : Nat) : Prop := (s.vm.lookup v).isSome = true ∨ v ∈ s.pend
def CovLe (s s' : St) : Prop := ∀ v, Cov s v → Cov s' v

theorem CovLe.refl (s : St) : CovLe s s := fun _ h => h
theorem CovLe.trans {a b c : St} (h1 : CovLe a b) (h2 : CovLe b c) : CovLe a c :=
  fun v h => h2 v (h1 v h)

/-- invariant of this layer (`n0` = heap size when the cloner was created) -/
structure KC (n0 : Nat) (s : St) : Prop where
  k : K s
  len : n0 ≤ s.w.length
  ran : ∀ p ∈ s.vm, n0 ≤ p.2
  /-- every node cell made by this cloner is in `_created_nodes` -/
  allc : ∀ (i : Nat) (ns : NodeS), n0 ≤ i → s.w[i]? = some (.node ns) → i ∈ s.created

/-- the pre-existing inputs of node `n` were unknown to the cloner in state `s` -/
def NodeAvoids (n0 : Nat) (s : St) (w : World) (n : Nat) : Prop :=
  ∃ ns, cNode w n = some ns ∧ ∀ v, some v ∈ ns.inputs → v < n0 → ¬ Cov s v

def CGoodAt (n0 : Nat) (m : M α) (s : St) (Q : α → St → Prop) : Prop :=
  ∀ a, (m s).1 = .ok a → KC n0 (m s).2 ∧ CoreLe s.w (m s).2.w ∧ CovLe s (m s).2 ∧
    (∃ ext, (m s).2.created = s.created ++ ext ∧ ∀ n ∈ ext, NodeAvoids n0 s (m s).2.w n) ∧
    Q a (m s).2

theorem CoreLe.length_le {w1 w2 : World} (h : CoreLe w1 w2) : w1.length ≤ w2.length := by
  rcases Nat.lt_or_ge w2.length w1.length with hlt | hge
  · exfalso
    have : w2.length < w1.length := hlt
    obtain ⟨c, hc⟩ : ∃ c, coreAt w1 w2.length = some c := by
      unfold coreAt; rw [List.getElem?_eq_getElem this]; exact ⟨_, rfl⟩
    have := coreAt_lt (h _ _ hc)
    omega
  · exact hge

section
variable {n0 : Nat}

theorem CGoodAt.pure {a : α} {s : St} {Q : α → St → Prop} (hK : KC n0 s) (hQ : Q a s) :
    CGoodAt n0 (Pure.pure a : M α) s Q := by
  intro b hb; cases hb
  exact ⟨hK, CoreLe.refl _, CovLe.refl _, ⟨[], by simp; rfl, by simp⟩, hQ⟩

theorem CGoodAt.fail {e : Err} {s : St} {Q : α → St → Prop} : CGoodAt n0 (Clone.fail e : M α) s Q := by
  intro b hb; cases hb
theorem CGoodAt.raise {why : String} {s : St} {Q : α → St → Prop} :
    CGoodAt n0 (Clone.raise why : M α) s Q := CGoodAt.fail

theorem NodeAvoids.mono {s s0 : St} {w w' : World} {n : Nat} (h : NodeAvoids n0 s w n)
    (hle : CoreLe w w') (hc : CovLe s0 s) : NodeAvoids n0 s0 w' n := by
  obtain ⟨ns, a, b⟩ := h
  exact ⟨ns, cNode_mono hle a, fun v hv hlt hcov => b v hv hlt (hc v hcov)⟩

theorem CGoodAt.bind {m : M α} {f : α → M β} {s : St} {Q : α → St → Prop} {R : β → St → Prop}
    (hm : CGoodAt n0 m s Q)
    (hf : ∀ a s1, KC n0 s1 → CoreLe s.w s1.w → CovLe s s1 → Q a s1 → CGoodAt n0 (f a) s1 R) :
    CGoodAt n0 (m >>= f) s R := by
  show CGoodAt n0 (M.bind m f) s R
  unfold CGoodAt M.bind
  intro b hb
  rcases hms : m s with ⟨r, s1⟩
  rw [hms] at hb
  cases r with
  | error e => cases hb
  | ok a =>
    have := hm a (by rw [hms])
    rw [hms] at this
    obtain ⟨k1, l1, c1, ⟨e1, he1, ha1⟩, q1⟩ := this
    obtain ⟨k2, l2, c2, ⟨e2, he2, ha2⟩, q2⟩ := hf a s1 k1 l1 c1 q1 b hb
    refine ⟨k2, l1.trans l2, c1.trans c2, ⟨e1 ++ e2, by rw [he2, he1, List.append_assoc], ?_⟩, q2⟩
    intro n hn
    rcases List.mem_append.mp hn with h | h
    · exact (ha1 n h).mono l2 (CovLe.refl _)
    · exact (ha2 n h).mono (CoreLe.refl _) c1

theorem CGoodAt.mono {m : M α} {s : St} {Q R : α → St → Prop} (hm : CGoodAt n0 m s Q)
    (h : ∀ a s1, KC n0 s1 → CoreLe s.w s1.w → CovLe s s1 → Q a s1 → R a s1) : CGoodAt n0 m s R := by
  intro a ha
  obtain ⟨k, l, c, e, q⟩ := hm a ha
  exact ⟨k, l, c, e, h a _ k l c q⟩

macro "cbind " h:term " with " a:ident s1:ident hK:ident hl:ident hc:ident hq:ident : tactic =>
  `(tactic| (refine CGoodAt.bind $h ?_; intro $a $s1 $hK $hl $hc $hq))

/-! ### steps that leave the cloner's bookkeeping alone and make no node cell -/

/-- `m` run from `s` keeps value map, pending set and created list, and every node cell afterwards
    was a node cell before or is a created node -/
def QuietAt (m : M α) (s : St) : Prop :=
  (m s).2.vm = s.vm ∧ (m s).2.pend = s.pend ∧ (m s).2.created = s.created ∧
  ∀ (i : Nat) (ns : NodeS), (m s).2.w[i]? = some (.node ns) →
    (∃ ns0, s.w[i]? = some (.node ns0)) ∨ i ∈ s.created

theorem QuietAt.pure {a : α} {s : St} : QuietAt (Pure.pure a : M α) s :=
  ⟨rfl, rfl, rfl, fun _ ns h => .inl ⟨ns, h⟩⟩
theorem QuietAt.fail {e : Err} {s : St} : QuietAt (Clone.fail e : M α) s :=
  ⟨rfl, rfl, rfl, fun _ ns h => .inl ⟨ns, h⟩⟩
theorem QuietAt.raise {why : String} {s : St} : QuietAt (Clone.raise why : M α) s := QuietAt.fail
theorem QuietAt.unsupported {why : String} {s : St} : QuietAt (Clone.unsupported why : M α) s :=
  QuietAt.fail

theorem QuietAt.bind {m : M α} {f : α → M β} {s : St} (hm : QuietAt m s)
    (hf : ∀ a, (m s).1 = .ok a → QuietAt (f a) (m s).2) : QuietAt (m >>= f) s := by
  show QuietAt (M.bind m f) s
  unfold QuietAt at hm
  unfold QuietAt M.bind
  rcases hms : m s with ⟨r, s1⟩
  rw [hms] at hm hf
  obtain ⟨a1, a2, a3, a4⟩ := hm
  cases r with
  | error e => exact ⟨a1, a2, a3, a4⟩
  | ok a =>
    obtain ⟨b1, b2, b3, b4⟩ := hf a rfl
    simp only at a1 a2 a3 a4 b1 b2 b3 b4 ⊢
    refine ⟨b1.trans a1, b2.trans a2, b3.trans a3, ?_⟩
    intro i ns h
    rcases b4 i ns h with ⟨ns0, h0⟩ | h0
    · exact a4 i ns0 h0
    · exact .inr (a3 ▸ h0)

def Cell.isNode : Cell → Bool
  | .node _ => true
  | _ => false

theorem QuietAt.alloc {s : St} {c : Cell} (hc : c.isNode = false) : QuietAt (Clone.alloc c) s := by
  refine ⟨rfl, rfl, rfl, ?_⟩
  intro i ns h
  simp only [Clone.alloc] at h
  rcases Nat.lt_or_ge i s.w.length with hlt | hge
  · rw [List.getElem?_append_left hlt] at h; exact .inl ⟨ns, h⟩
  · rw [List.getElem?_append_right hge] at h
    have : i - s.w.length = 0 := by
      rcases Nat.eq_zero_or_pos (i - s.w.length) with h0 | h0
      · exact h0
      · rw [List.getElem?_eq_none (by simp; omega)] at h; cases h
    rw [this] at h
    simp at h
    subst h
    cases hc

theorem QuietAt.setCell {s : St} {i : Nat} {c : Cell} (hc : c.isNode = false ∨ i ∈ s.created) :
    QuietAt (Clone.setCell i c) s := by
  refine ⟨rfl, rfl, rfl, ?_⟩
  intro j ns h
  simp only [Clone.setCell] at h
  rw [List.getElem?_set] at h
  split at h
  · next hij =>
    subst hij
    split at h
    · cases h
      rcases hc with hc | hc
      · cases hc
      · exact .inr hc
    · cases h
  · exact .inl ⟨ns, h⟩

theorem QuietAt.readVal {s : St} {i : Nat} : QuietAt (Clone.readVal i) s := by
  unfold QuietAt Clone.readVal; split <;> exact ⟨rfl, rfl, rfl, fun _ ns h => .inl ⟨ns, h⟩⟩
theorem QuietAt.readNode {s : St} {i : Nat} : QuietAt (Clone.readNode i) s := by
  unfold QuietAt Clone.readNode; split <;> exact ⟨rfl, rfl, rfl, fun _ ns h => .inl ⟨ns, h⟩⟩
theorem QuietAt.readGraph {s : St} {i : Nat} : QuietAt (Clone.readGraph i) s := by
  unfold QuietAt Clone.readGraph; split <;> exact ⟨rfl, rfl, rfl, fun _ ns h => .inl ⟨ns, h⟩⟩
theorem QuietAt.readType {s : St} {i : Nat} : QuietAt (Clone.readType i) s := by
  unfold QuietAt Clone.readType; split <;> exact ⟨rfl, rfl, rfl, fun _ ns h => .inl ⟨ns, h⟩⟩
theorem QuietAt.readShape {s : St} {i : Nat} : QuietAt (Clone.readShape i) s := by
  unfold QuietAt Clone.readShape; split <;> exact ⟨rfl, rfl, rfl, fun _ ns h => .inl ⟨ns, h⟩⟩
theorem QuietAt.readDict {s : St} {i : Nat} : QuietAt (Clone.readDict i) s := by
  unfold QuietAt Clone.readDict; split <;> exact ⟨rfl, rfl, rfl, fun _ ns h => .inl ⟨ns, h⟩⟩
theorem QuietAt.readAttr {s : St} {i : Nat} : QuietAt (Clone.readAttr i) s := by
  unfold QuietAt Clone.readAttr; split <;> exact ⟨rfl, rfl, rfl, fun _ ns h => .inl ⟨ns, h⟩⟩

theorem QuietAt.created_eq {m : M α} {s : St} (h : QuietAt m s) : (m s).2.created = s.created := h.2.2.1

theorem QuietAt.forM' {α : Type} {f : α → M Unit} : ∀ (l : List α) (s : St),
    (∀ a ∈ l, ∀ s1, s1.created = s.created → QuietAt (f a) s1) → QuietAt (Clone.forM' f l) s
  | [], s, _ => QuietAt.pure
  | a :: as, s, h => by
    unfold Clone.forM'
    have h1 := h a List.mem_cons_self s rfl
    refine QuietAt.bind h1 (fun _ _ => ?_)
    exact QuietAt.forM' as _ (fun a' ha' s1 hs1 =>
      h a' (List.mem_cons_of_mem _ ha') s1 (hs1.trans h1.created_eq))

theorem QuietAt.mapM' {α β : Type} {f : α → M β} : ∀ (l : List α) (s : St),
    (∀ a ∈ l, ∀ s1, s1.created = s.created → QuietAt (f a) s1) → QuietAt (Clone.mapM' f l) s
  | [], s, _ => QuietAt.pure
  | a :: as, s, h => by
    unfold Clone.mapM'
    have h1 := h a List.mem_cons_self s rfl
    refine QuietAt.bind h1 (fun _ _ => ?_)
    refine QuietAt.bind (QuietAt.mapM' as _ (fun a' ha' s1 hs1 =>
      h a' (List.mem_cons_of_mem _ ha') s1 (hs1.trans h1.created_eq))) (fun _ _ => QuietAt.pure)

/-- a quiet step that satisfies the simulation spec also satisfies this layer's spec -/
theorem CGoodAt.ofQuiet {m : M α} {s : St} {Q : α → St → Prop} (hK : KC n0 s)
    (hs : SGoodAt m s Q) (hq : QuietAt m s) : CGoodAt n0 m s Q := by
  intro a ha
  obtain ⟨k, l, q⟩ := hs a ha
  obtain ⟨q1, q2, q3, q4⟩ := hq
  refine ⟨⟨k, Nat.le_trans hK.len l.length_le, by rw [q1]; exact hK.ran, ?_⟩, l, ?_, ⟨[], by simp [q3], by simp⟩, q⟩
  · intro i ns hi h
    rw [q3]
    rcases q4 i ns h with ⟨ns0, h0⟩ | h0
    · exact hK.allc i ns0 hi h0
    · exact h0
  · intro v hv
    unfold Cov at *
    rw [q1, q2]; exact hv

end

macro "qstep" : tactic => `(tactic| first
  | exact QuietAt.pure | exact QuietAt.raise | exact QuietAt.unsupported | exact QuietAt.fail
  | exact QuietAt.readVal | exact QuietAt.readNode | exact QuietAt.readGraph | exact QuietAt.readType
  | exact QuietAt.readShape | exact QuietAt.readDict | exact QuietAt.readAttr
  | exact QuietAt.alloc rfl | exact QuietAt.setCell (.inl rfl)
  | (refine QuietAt.bind ?_ (fun _ _ => ?_))
  | split)

theorem copyShape_quiet (o : Option Nat) (s : St) : QuietAt (copyShape o) s := by
  cases o <;> unfold copyShape <;> repeat' qstep
theorem copyType_quiet (o : Option Nat) (s : St) : QuietAt (copyType o) s := by
  cases o <;> unfold copyType <;> repeat' qstep
theorem copyProps_quiet (o : Nat) (s : St) : QuietAt (copyProps o) s := by
  unfold copyProps; repeat' qstep
theorem copyMeta_quiet (o : Nat) (s : St) : QuietAt (copyMeta o) s := by
  unfold copyMeta; repeat' qstep
theorem addUse_quiet (v n i : Nat) (s : St) : QuietAt (addUse v n i) s := by
  unfold addUse; repeat' qstep
theorem addUses_quiet (n : Nat) : ∀ (l : List (Option Nat)) (i : Nat) (s : St), QuietAt (addUses n i l) s
  | [], _, _ => QuietAt.pure
  | none :: rest, i, s => by unfold addUses; exact addUses_quiet n rest (i + 1) s
  | some v :: rest, i, s => by
    unfold addUses
    exact QuietAt.bind (addUse_quiet v n i s) (fun _ _ => addUses_quiet n rest (i + 1) _)
theorem setProducer_quiet (n v : Nat) (s : St) : QuietAt (setProducer n v) s := by
  unfold setProducer; repeat' qstep
theorem checkInput_quiet (g v : Nat) (s : St) : QuietAt (checkInput g v) s := by
  unfold checkInput; repeat' qstep
theorem checkOwned_quiet (g v : Nat) (s : St) : QuietAt (checkOwned g v) s := by
  unfold checkOwned; repeat' qstep
theorem checkNamed_quiet (v : Nat) (s : St) : QuietAt (checkNamed v) s := by
  unfold checkNamed; repeat' qstep
theorem checkNodeFree_quiet (g v : Nat) (s : St) : QuietAt (checkNodeFree g v) s := by
  unfold checkNodeFree; repeat' qstep
theorem checkInitEntry_quiet (e : String × Nat) (s : St) : QuietAt (checkInitEntry e) s := by
  unfold checkInitEntry; repeat' qstep
theorem setValueOwner_quiet (g : Nat) (f : ValueS → ValueS) (v : Nat) (s : St) :
    QuietAt (setValueOwner g f v) s := by
  unfold setValueOwner; repeat' qstep
theorem initEntries_quiet : ∀ (l : List Nat) (acc : List (String × Nat)) (s : St),
    QuietAt (initEntries acc l) s
  | [], _, _ => by unfold initEntries; exact QuietAt.pure
  | v :: rest, acc, s => by
    unfold initEntries
    refine QuietAt.bind QuietAt.readVal (fun _ _ => ?_)
    split
    · exact QuietAt.raise
    · exact initEntries_quiet rest _ _
theorem allOutputs_quiet : ∀ (l : List Nat) (s : St), QuietAt (allOutputs l) s
  | [], _ => QuietAt.pure
  | n :: ns, s => by
    unfold allOutputs
    refine QuietAt.bind QuietAt.readNode (fun _ _ => ?_)
    exact QuietAt.bind (allOutputs_quiet ns _) (fun _ _ => QuietAt.pure)

theorem setNodeGraph_quiet (g n : Nat) (s : St) (hn : n ∈ s.created) : QuietAt (setNodeGraph g n) s := by
  unfold setNodeGraph
  refine QuietAt.bind QuietAt.readNode (fun ns h1 => ?_)
  have e1 : (readNode n s).2 = s := by
    unfold readNode; split <;> rfl
  rw [e1]
  have hq := QuietAt.forM' (f := checkNamed) ns.outputs s (fun v _ s1 _ => checkNamed_quiet v s1)
  refine QuietAt.bind hq (fun _ _ => ?_)
  exact QuietAt.setCell (.inr (by rw [hq.created_eq]; exact hn))

/-- quiet from every state whose created list is `C` -/
def QuietC (C : List Nat) (m : M α) : Prop := ∀ s, s.created = C → QuietAt m s

theorem QuietC.of {C : List Nat} {m : M α} (h : ∀ s, QuietAt m s) : QuietC C m := fun s _ => h s

theorem QuietC.bind {C : List Nat} {m : M α} {f : α → M β} (hm : QuietC C m)
    (hf : ∀ a, QuietC C (f a)) : QuietC C (m >>= f) := by
  intro s hs
  have h1 := hm s hs
  exact QuietAt.bind h1 (fun a _ => hf a _ (h1.created_eq.trans hs))

theorem QuietC.forM' {C : List Nat} {α : Type} {f : α → M Unit} (l : List α)
    (h : ∀ a ∈ l, QuietC C (f a)) : QuietC C (Clone.forM' f l) := by
  intro s hs
  exact QuietAt.forM' l s (fun a ha s1 hs1 => h a ha s1 (hs1.trans hs))

theorem mkGraph_quietC (C : List Nat) (src : GraphS) (inputs outputs nodes inits : List Nat)
    (hn : ∀ n ∈ nodes, n ∈ C) : QuietC C (mkGraph src inputs outputs nodes inits) := by
  unfold mkGraph
  refine QuietC.bind (QuietC.of (initEntries_quiet _ _)) (fun entries => ?_)
  refine QuietC.bind (QuietC.of (copyProps_quiet _)) (fun _ => ?_)
  refine QuietC.bind (QuietC.of (copyMeta_quiet _)) (fun _ => ?_)
  refine QuietC.bind (QuietC.of (fun _ => QuietAt.alloc rfl)) (fun g => ?_)
  refine QuietC.bind (QuietC.forM' _ (fun v _ => QuietC.of (checkInput_quiet g v))) (fun _ => ?_)
  refine QuietC.bind (QuietC.forM' _ (fun v _ => QuietC.of (setValueOwner_quiet g _ v))) (fun _ => ?_)
  refine QuietC.bind (QuietC.forM' _ (fun v _ => QuietC.of (checkOwned_quiet g v))) (fun _ => ?_)
  refine QuietC.bind (QuietC.forM' _ (fun v _ => QuietC.of (setValueOwner_quiet g _ v))) (fun _ => ?_)
  refine QuietC.bind (QuietC.forM' _ (fun v _ => QuietC.of (checkOwned_quiet g v))) (fun _ => ?_)
  refine QuietC.bind (QuietC.forM' _ (fun v _ => QuietC.of (setValueOwner_quiet g _ v))) (fun _ => ?_)
  refine QuietC.bind (QuietC.forM' _ (fun e _ => QuietC.of (checkInitEntry_quiet e))) (fun _ => ?_)
  refine QuietC.bind (QuietC.forM' _ (fun v _ => QuietC.of (checkNamed_quiet v))) (fun _ => ?_)
  refine QuietC.bind (QuietC.forM' _ (fun v _ => QuietC.of (checkNodeFree_quiet g v))) (fun _ => ?_)
  refine QuietC.bind (QuietC.forM' _ (fun n hnm s hs => setNodeGraph_quiet g n s (hs ▸ hn n hnm))) (fun _ => ?_)
  exact QuietC.of (fun _ => QuietAt.pure)

/-! ### the bookkeeping steps -/

section
variable {n0 : Nat}

theorem QuietAt.vmGet {s : St} {v : Nat} : QuietAt (Clone.vmGet v) s :=
  ⟨rfl, rfl, rfl, fun _ ns h => .inl ⟨ns, h⟩⟩
theorem QuietAt.getVm {s : St} : QuietAt Clone.getVm s :=
  ⟨rfl, rfl, rfl, fun _ ns h => .inl ⟨ns, h⟩⟩
theorem QuietAt.pendHas {s : St} {v : Nat} : QuietAt (Clone.pendHas v) s :=
  ⟨rfl, rfl, rfl, fun _ ns h => .inl ⟨ns, h⟩⟩

theorem lookup_cons_isSome {vm : List (Nat × Nat)} {a b v : Nat} (h : (vm.lookup v).isSome = true) :
    (((a, b) :: vm).lookup v).isSome = true := by
  rw [List.lookup_cons]
  cases hva : (v == a) with
  | true => rfl
  | false => exact h

theorem vmSet_cov {s : St} {a b : Nat} (hK : KC n0 s) (hab : ValSim s.w a b) (hb : n0 ≤ b) :
    CGoodAt n0 (Clone.vmSet a b) s (fun _ s1 => s1.w = s.w ∧ (s1.vm.lookup a).isSome = true) := by
  intro _ _
  refine ⟨⟨?_, hK.len, ?_, hK.allc⟩, CoreLe.refl _, ?_, ⟨[], by simp [Clone.vmSet], by simp⟩, rfl, ?_⟩
  · intro p hp
    simp only [Clone.vmSet, List.mem_cons] at hp
    rcases hp with h | h
    · subst h; exact hab
    · exact hK.k p h
  · intro p hp
    simp only [Clone.vmSet, List.mem_cons] at hp
    rcases hp with h | h
    · subst h; exact hb
    · exact hK.ran p h
  · intro v hv
    rcases hv with h | h
    · exact .inl (lookup_cons_isSome h)
    · exact .inr h
  · simp [Clone.vmSet, List.lookup_cons]

theorem pendAdd_cov {s : St} (vs : List Nat) (hK : KC n0 s) :
    CGoodAt n0 (Clone.pendAdd vs) s (fun _ s1 => s1.w = s.w ∧ ∀ v ∈ vs, Cov s1 v) := by
  intro _ _
  refine ⟨⟨hK.k, hK.len, hK.ran, hK.allc⟩, CoreLe.refl _, ?_, ⟨[], by simp [Clone.pendAdd], by simp⟩, rfl, ?_⟩
  · intro v hv
    rcases hv with h | h
    · exact .inl h
    · exact .inr (by simp [Clone.pendAdd]; exact .inl h)
  · intro v hv
    exact .inr (by simp [Clone.pendAdd]; exact .inr hv)

theorem pendDiscard_cov {s : St} (o : Nat) (hK : KC n0 s) (hb : (s.vm.lookup o).isSome = true) :
    CGoodAt n0 (Clone.pendDiscard o) s (fun _ s1 => s1.w = s.w) := by
  intro _ _
  refine ⟨⟨hK.k, hK.len, hK.ran, hK.allc⟩, CoreLe.refl _, ?_, ⟨[], by simp [Clone.pendDiscard], by simp⟩, rfl⟩
  intro v hv
  rcases hv with h | h
  · exact .inl h
  · by_cases hvo : v = o
    · subst hvo; exact .inl hb
    · exact .inr (by simp [Clone.pendDiscard]; exact ⟨h, hvo⟩)

theorem allocNode_cov {s : St} (c : NodeS) (hK : KC n0 s)
    (hav : ∀ v, some v ∈ c.inputs → v < n0 → ¬ Cov s v) :
    CGoodAt n0 (allocNode c) s (fun r s1 => coreAt s1.w r = some (Cell.node c).core ∧ r ∈ s1.created) := by
  intro a ha
  have hs := allocNode_sim c hK.k a ha
  have e : allocNode c s = (.ok s.w.length, { s with w := s.w ++ [.node c], created := s.created ++ [s.w.length] }) := rfl
  rw [e] at ha hs ⊢
  simp only at ha hs ⊢
  cases ha
  obtain ⟨k, l, q⟩ := hs
  refine ⟨⟨k, by simp; have := hK.len; omega, hK.ran, ?_⟩, l, fun v hv => hv, ⟨[s.w.length], rfl, ?_⟩, q, by simp⟩
  · intro i ns hi h
    rcases Nat.lt_or_ge i s.w.length with hlt | hge
    · rw [List.getElem?_append_left hlt] at h
      exact List.mem_append_left _ (hK.allc i ns hi h)
    · have : i = s.w.length := by
        have := lt_of_getElem? h
        simp at this; omega
      subst this; simp
  · intro n hn
    simp only [List.mem_singleton] at hn
    subst hn
    refine ⟨{ c with graph := none }, cNode_ofCore q, ?_⟩
    exact hav

/-! ### values, inputs, attributes, nodes -/

theorem cloneOrGetValue_cov {s : St} (v : Nat) (hK : KC n0 s) :
    CGoodAt n0 (cloneOrGetValue v) s (fun r s1 => ValSim s1.w v r ∧ Cov s1 v) := by
  unfold cloneOrGetValue
  cbind (CGoodAt.ofQuiet hK (SGoodAt.vmGet hK.k) QuietAt.vmGet) with o s1 hK1 hl1 hc1 hq1
  obtain ⟨rfl, rfl⟩ := hq1
  cases hlk : s1.vm.lookup v with
  | some v' =>
    exact CGoodAt.pure hK1 ⟨hK1.k (v, v') (mem_of_lookup hlk), .inl (by rw [hlk]; rfl)⟩
  | none =>
    simp only
    cbind (CGoodAt.ofQuiet hK1 (SGoodAt.readVal hK1.k) QuietAt.readVal) with vs s2 hK2 hl2 hc2 hq2
    obtain ⟨rfl, hvs⟩ := hq2
    cbind (CGoodAt.ofQuiet hK2 (copyShape_sim vs.shape hK2.k) (copyShape_quiet _ _)) with sh s3 hK3 hl3 hc3 hsh
    cbind (CGoodAt.ofQuiet hK3 (copyType_sim vs.type hK3.k) (copyType_quiet _ _)) with ty s4 hK4 hl4 hc4 hty
    cbind (CGoodAt.ofQuiet hK4 (copyProps_sim vs.props hK4.k) (copyProps_quiet _ _)) with pr s5 hK5 hl5 hc5 hpr
    cbind (CGoodAt.ofQuiet hK5 (copyMeta_sim vs.mstore hK5.k) (copyMeta_quiet _ _)) with me s6 hK6 hl6 hc6 hme
    cbind (CGoodAt.ofQuiet hK6 (SGoodAt.alloc _ hK6.k) (QuietAt.alloc rfl)) with v' s7 hK7 hl7 hc7 hv'
    have hle27 : CoreLe s2.w s7.w := hl3.trans (hl4.trans (hl5.trans (hl6.trans hl7)))
    have hsim : ValSim s7.w v v' :=
      valSim_of_copy (cVal_mono hle27 (cVal_of hvs)) (cVal_ofCore hv'.2.1) rfl rfl rfl
        (optType_mono' (hl5.trans (hl6.trans hl7)) hty)
        (optShape_mono' (hl4.trans (hl5.trans (hl6.trans hl7))) hsh)
        (cDictPair_mono (f := fun d => { data := d.data, invalid := [] }) (hl6.trans hl7) hpr)
        (cDictPair_mono (f := fun d => { data := d.data, invalid := d.invalid }) hl7 hme)
    have hv'n : n0 ≤ v' := by rw [hv'.1]; exact hK6.len
    cbind (vmSet_cov hK7 hsim hv'n) with u s8 hK8 hl8 hc8 hq8
    exact CGoodAt.pure hK8 ⟨by rw [hq8.1]; exact hsim, .inl hq8.2⟩

theorem pendHas_cov {s : St} (v : Nat) (hK : KC n0 s) :
    CGoodAt n0 (Clone.pendHas v) s (fun b s1 => s1 = s ∧ b = s.pend.contains v) := by
  intro b hb
  simp only [Clone.pendHas, Except.ok.injEq] at hb
  exact ⟨hK, CoreLe.refl _, CovLe.refl _, ⟨[], by simp [Clone.pendHas], by simp⟩, rfl, hb.symm⟩

theorem mapInputs_cov {allow : Bool} : ∀ (l : List (Option Nat)) (s : St), KC n0 s →
    CGoodAt n0 (mapInputs allow l) s (fun r s1 => s1 = s ∧ All2 (RefSim s.w) l r ∧
      ∀ v, some v ∈ r → v < n0 → ¬ Cov s v)
  | [], s, hK => CGoodAt.pure hK ⟨rfl, .nil, by simp⟩
  | none :: rest, s, hK => by
    unfold mapInputs
    cbind (mapInputs_cov rest s hK) with r s1 hK1 hl1 hc1 hq1
    obtain ⟨rfl, hq1, hav⟩ := hq1
    refine CGoodAt.pure hK1 ⟨rfl, .cons (.inl rfl) hq1, ?_⟩
    intro v hv
    rcases List.mem_cons.mp hv with h | h
    · cases h
    · exact hav v h
  | some v :: rest, s, hK => by
    unfold mapInputs
    cbind (CGoodAt.ofQuiet hK (SGoodAt.vmGet hK.k) QuietAt.vmGet) with o s1 hK1 hl1 hc1 hq1
    obtain ⟨rfl, rfl⟩ := hq1
    cases hlk : s1.vm.lookup v with
    | some v' =>
      simp only
      cbind (mapInputs_cov rest s1 hK1) with r s2 hK2 hl2 hc2 hq2
      obtain ⟨rfl, hq2, hav⟩ := hq2
      refine CGoodAt.pure hK2 ⟨rfl, .cons (.inr ⟨v, v', rfl, rfl, hK2.k (v, v') (mem_of_lookup hlk)⟩) hq2, ?_⟩
      intro x hx hlt
      rcases List.mem_cons.mp hx with h | h
      · cases h
        have := hK2.ran (v, v') (mem_of_lookup hlk)
        simp at this; omega
      · exact hav x h hlt
    | none =>
      simp only
      split
      · cbind (pendHas_cov v hK1) with b s1' hK1' hl1' hc1' hq1'
        obtain ⟨rfl, hb⟩ := hq1'
        split
        · exact CGoodAt.raise
        · next hnb =>
          cbind (mapInputs_cov rest s1' hK1') with r s2 hK2 hl2 hc2 hq2
          obtain ⟨rfl, hq2, hav⟩ := hq2
          refine CGoodAt.pure hK2 ⟨rfl, .cons (.inl rfl) hq2, ?_⟩
          intro x hx hlt
          rcases List.mem_cons.mp hx with h | h
          · cases h
            intro hcov
            rcases hcov with hc | hc
            · rw [hlk] at hc; cases hc
            · apply hnb; rw [hb]; simpa using hc
          · exact hav x h hlt
      · exact CGoodAt.raise

end

/-- `s'` extends `s`: larger heap with the same cores, more known values, more created nodes -/
structure Ext (s s' : St) : Prop where
  core : CoreLe s.w s'.w
  cov : CovLe s s'
  created : ∃ ext, s'.created = s.created ++ ext

theorem Ext.trans {a b c : St} (h1 : Ext a b) (h2 : Ext b c) : Ext a c := by
  obtain ⟨e1, he1⟩ := h1.created
  obtain ⟨e2, he2⟩ := h2.created
  exact ⟨h1.core.trans h2.core, h1.cov.trans h2.cov, ⟨e1 ++ e2, by rw [he2, he1, List.append_assoc]⟩⟩

theorem Ext.mem_created {s s' : St} (h : Ext s s') {n : Nat} (hn : n ∈ s.created) : n ∈ s'.created := by
  obtain ⟨e, he⟩ := h.created
  rw [he]; exact List.mem_append_left _ hn

/-- `CGoodAt` with the extension packaged -/
theorem CGoodAt.ext {m : M α} {s : St} {Q : α → St → Prop} (hm : CGoodAt n0 m s Q) :
    CGoodAt n0 m s (fun a s1 => Q a s1 ∧ Ext s s1) := by
  intro a ha
  obtain ⟨k, l, c, ⟨e, he, hav⟩, q⟩ := hm a ha
  exact ⟨k, l, c, ⟨e, he, hav⟩, q, ⟨l, c, ⟨e, he⟩⟩⟩

section
variable {n0 : Nat}

theorem mapM'_cov {α β : Type} {f : α → M β} {R : α → β → St → Prop}
    (hR : ∀ a b s s', R a b s → Ext s s' → R a b s') :
    ∀ (l : List α) (s : St), KC n0 s → (∀ a ∈ l, ∀ s1, KC n0 s1 → CGoodAt n0 (f a) s1 (R a)) →
      CGoodAt n0 (mapM' f l) s (fun r s1 => All2 (fun a b => R a b s1) l r)
  | [], s, hK, _ => CGoodAt.pure hK .nil
  | a :: as, s, hK, hf => by
    unfold mapM'
    cbind (hf a List.mem_cons_self s hK) with b s1 hK1 hl1 hc1 hb
    cbind (mapM'_cov hR as s1 hK1 (fun a' ha' s2 hK2 => hf a' (List.mem_cons_of_mem _ ha') s2 hK2)).ext
      with bs s2 hK2 hl2 hc2 hbs
    exact CGoodAt.pure hK2 (.cons (hR _ _ _ _ hb hbs.2) hbs.1)

theorem cloneAttr_cov {rec : Nat → M Nat}
    (hrec : ∀ g s, KC n0 s → CGoodAt n0 (rec g) s (fun g' s1 => GraphSim s1.w g g'))
    (key : String) (a : Nat) {s : St} (hK : KC n0 s) :
    CGoodAt n0 (cloneAttr rec key a) s (fun r s1 => AttrSim s1.w (key, a) r) := by
  unfold cloneAttr
  cbind (CGoodAt.ofQuiet hK (SGoodAt.readAttr hK.k) QuietAt.readAttr) with as s1 hK1 hl1 hc1 hq1
  obtain ⟨rfl, ha⟩ := hq1
  split
  · next g hg =>
    cbind (hrec g s1 hK1) with g' s2 hK2 hl2 hc2 hg'
    cbind (CGoodAt.ofQuiet hK2 (SGoodAt.alloc _ hK2.k) (QuietAt.alloc rfl)) with a' s3 hK3 hl3 hc3 ha'
    exact CGoodAt.pure hK3 (.graph key a a' as g g' (cAttr_mono (hl2.trans hl3) (cAttr_of ha)) hg
      (cAttr_ofCore ha'.2.1) (hg'.mono hl3))
  · next gs hg =>
    cbind (mapM'_cov (R := fun g g' s => GraphSim s.w g g') (fun _ _ _ _ h he => h.mono he.core) gs s1 hK1
      (fun g _ s2 hK2 => hrec g s2 hK2)) with gs' s2 hK2 hl2 hc2 hgs'
    cbind (CGoodAt.ofQuiet hK2 (SGoodAt.alloc _ hK2.k) (QuietAt.alloc rfl)) with a' s3 hK3 hl3 hc3 ha'
    exact CGoodAt.pure hK3 (.graphs key a a' as gs gs' (cAttr_mono (hl2.trans hl3) (cAttr_of ha)) hg
      (cAttr_ofCore ha'.2.1) (graphsSim_of_all2 (All2.mono (fun _ _ h => GraphSim.mono hl3 h) hgs')))
  · next h1 h2 =>
    refine CGoodAt.pure hK1 (.shared key a as (cAttr_of ha) ?_)
    cases hv : as.v with
    | plain p => rfl
    | ref p => rfl
    | graph g => exact absurd hv (h1 g)
    | graphs gs => exact absurd hv (h2 gs)

theorem cloneOutput_cov {s : St} (i o : Nat) (hK : KC n0 s) :
    CGoodAt n0 (cloneOutput i o) s (fun r s1 => ValSim s1.w o r) := by
  unfold cloneOutput
  cbind (CGoodAt.ofQuiet hK (SGoodAt.readVal hK.k) QuietAt.readVal) with vs s2 hK2 hl2 hc2 hq2
  obtain ⟨rfl, hvs⟩ := hq2
  cbind (CGoodAt.ofQuiet hK2 (copyShape_sim vs.shape hK2.k) (copyShape_quiet _ _)) with sh s3 hK3 hl3 hc3 hsh
  cbind (CGoodAt.ofQuiet hK3 (copyType_sim vs.type hK3.k) (copyType_quiet _ _)) with ty s4 hK4 hl4 hc4 hty
  cbind (CGoodAt.ofQuiet hK4 (copyProps_sim vs.props hK4.k) (copyProps_quiet _ _)) with pr s5 hK5 hl5 hc5 hpr
  cbind (CGoodAt.ofQuiet hK5 (copyMeta_sim vs.mstore hK5.k) (copyMeta_quiet _ _)) with me s6 hK6 hl6 hc6 hme
  cbind (CGoodAt.ofQuiet hK6 (SGoodAt.alloc _ hK6.k) (QuietAt.alloc rfl)) with v' s7 hK7 hl7 hc7 hv'
  have hle27 : CoreLe s2.w s7.w := hl3.trans (hl4.trans (hl5.trans (hl6.trans hl7)))
  have hsim : ValSim s7.w o v' :=
    valSim_of_copy (cVal_mono hle27 (cVal_of hvs)) (cVal_ofCore hv'.2.1) rfl rfl rfl
      (optType_mono' (hl5.trans (hl6.trans hl7)) hty)
      (optShape_mono' (hl4.trans (hl5.trans (hl6.trans hl7))) hsh)
      (cDictPair_mono (f := fun d => { data := d.data, invalid := [] }) (hl6.trans hl7) hpr)
      (cDictPair_mono (f := fun d => { data := d.data, invalid := d.invalid }) hl7 hme)
  have hv'n : n0 ≤ v' := by rw [hv'.1]; exact hK6.len
  cbind (vmSet_cov hK7 hsim hv'n) with u s8 hK8 hl8 hc8 hq8
  cbind (pendDiscard_cov o hK8 hq8.2) with u2 s9 hK9 hl9 hc9 hq9
  exact CGoodAt.pure hK9 (by rw [hq9, hq8.1]; exact hsim)

end

section
variable {n0 : Nat}

theorem cloneOutputs_cov : ∀ (os : List Nat) (i : Nat) (s : St), KC n0 s →
    CGoodAt n0 (cloneOutputs i os) s (fun r s1 => All2 (ValSim s1.w) os r)
  | [], i, s, hK => by unfold cloneOutputs; exact CGoodAt.pure hK .nil
  | o :: os, i, s, hK => by
    unfold cloneOutputs
    cbind (cloneOutput_cov i o hK) with o' s1 hK1 hl1 hc1 ho'
    cbind (cloneOutputs_cov os (i + 1) s1 hK1) with rest s2 hK2 hl2 hc2 hrest
    exact CGoodAt.pure hK2 (.cons (ho'.mono hl2) hrest)

theorem forM'_quiet_cov {α : Type} {f : α → M Unit} (l : List α) {s : St} (hK : KC n0 s)
    (hs : ∀ a ∈ l, ∀ s1, K s1 → SGoodAt (f a) s1 (fun _ _ => True)) (hq : ∀ a s1, QuietAt (f a) s1) :
    CGoodAt n0 (forM' f l) s (fun _ _ => True) :=
  CGoodAt.ofQuiet hK (forM'_sim l s hK.k hs) (QuietAt.forM' l s (fun a _ s1 _ => hq a s1))

/-- like `CGoodAt`, but the created nodes avoid what was known in an earlier anchor state `A` -/
def CGoodAtA (n0 : Nat) (A : St) (m : M α) (s : St) (Q : α → St → Prop) : Prop :=
  ∀ a, (m s).1 = .ok a → KC n0 (m s).2 ∧ CoreLe s.w (m s).2.w ∧ CovLe s (m s).2 ∧
    (∃ ext, (m s).2.created = s.created ++ ext ∧ ∀ n ∈ ext, NodeAvoids n0 A (m s).2.w n) ∧
    Q a (m s).2

theorem CGoodAt.toA {A : St} {m : M α} {s : St} {Q : α → St → Prop} (h : CGoodAt n0 m s Q)
    (hA : CovLe A s) : CGoodAtA n0 A m s Q := by
  intro a ha
  obtain ⟨k, l, c, ⟨e, he, hav⟩, q⟩ := h a ha
  exact ⟨k, l, c, ⟨e, he, fun n hn => (hav n hn).mono (CoreLe.refl _) hA⟩, q⟩

theorem CGoodAtA.self {m : M α} {s : St} {Q : α → St → Prop} (h : CGoodAtA n0 s m s Q) :
    CGoodAt n0 m s Q := h

theorem CGoodAtA.pure {A : St} {a : α} {s : St} {Q : α → St → Prop} (hK : KC n0 s) (hQ : Q a s) :
    CGoodAtA n0 A (Pure.pure a : M α) s Q := by
  intro b hb; cases hb
  exact ⟨hK, CoreLe.refl _, CovLe.refl _, ⟨[], by simp; rfl, by simp⟩, hQ⟩

theorem CGoodAtA.bind {A : St} {m : M α} {f : α → M β} {s : St} {Q : α → St → Prop}
    {R : β → St → Prop} (hm : CGoodAtA n0 A m s Q)
    (hf : ∀ a s1, KC n0 s1 → CoreLe s.w s1.w → CovLe s s1 → Q a s1 → CGoodAtA n0 A (f a) s1 R) :
    CGoodAtA n0 A (m >>= f) s R := by
  show CGoodAtA n0 A (M.bind m f) s R
  unfold CGoodAtA M.bind
  intro b hb
  rcases hms : m s with ⟨r, s1⟩
  rw [hms] at hb
  cases r with
  | error e => cases hb
  | ok a =>
    have := hm a (by rw [hms])
    rw [hms] at this
    obtain ⟨k1, l1, c1, ⟨e1, he1, ha1⟩, q1⟩ := this
    obtain ⟨k2, l2, c2, ⟨e2, he2, ha2⟩, q2⟩ := hf a s1 k1 l1 c1 q1 b hb
    refine ⟨k2, l1.trans l2, c1.trans c2, ⟨e1 ++ e2, by rw [he2, he1, List.append_assoc], ?_⟩, q2⟩
    intro n hn
    rcases List.mem_append.mp hn with h | h
    · exact (ha1 n h).mono l2 (CovLe.refl _)
    · exact ha2 n h

macro "abind " h:term " with " a:ident s1:ident hK:ident hl:ident hc:ident hq:ident : tactic =>
  `(tactic| (refine CGoodAtA.bind $h ?_; intro $a $s1 $hK $hl $hc $hq))

theorem allocNode_covA {A s : St} (c : NodeS) (hK : KC n0 s)
    (hav : ∀ v, some v ∈ c.inputs → v < n0 → ¬ Cov A v) :
    CGoodAtA n0 A (allocNode c) s
      (fun r s1 => coreAt s1.w r = some (Cell.node c).core ∧ r ∈ s1.created) := by
  intro a ha
  have hs := allocNode_sim c hK.k a ha
  have e : allocNode c s = (.ok s.w.length, { s with w := s.w ++ [.node c], created := s.created ++ [s.w.length] }) := rfl
  rw [e] at ha hs ⊢
  simp only at ha hs ⊢
  cases ha
  obtain ⟨k, l, q⟩ := hs
  refine ⟨⟨k, by simp; have := hK.len; omega, hK.ran, ?_⟩, l, fun v hv => hv, ⟨[s.w.length], rfl, ?_⟩, q, by simp⟩
  · intro i ns hi h
    rcases Nat.lt_or_ge i s.w.length with hlt | hge
    · rw [List.getElem?_append_left hlt] at h
      exact List.mem_append_left _ (hK.allc i ns hi h)
    · have : i = s.w.length := by
        have := lt_of_getElem? h
        simp at this; omega
      subst this; simp
  · intro n hn
    simp only [List.mem_singleton] at hn
    subst hn
    exact ⟨{ c with graph := none }, cNode_ofCore q, hav⟩

theorem cloneNode_cov {allow : Bool} {rec : Nat → M Nat}
    (hrec : ∀ g s, KC n0 s → CGoodAt n0 (rec g) s (fun g' s1 => GraphSim s1.w g g'))
    (n : Nat) {s : St} (hK : KC n0 s) :
    CGoodAt n0 (cloneNode allow rec n) s (fun r s1 => NodeSim s1.w n r ∧ r ∈ s1.created) := by
  apply CGoodAtA.self
  unfold cloneNode
  abind ((CGoodAt.ofQuiet hK (SGoodAt.readNode hK.k) QuietAt.readNode).toA (CovLe.refl _))
    with ns s1 hK1 hl1 hc1 hq1
  obtain ⟨rfl, hns⟩ := hq1
  abind ((mapInputs_cov ns.inputs s1 hK1).toA (CovLe.refl _)) with ins s2 hK2 hl2 hc2 hins
  obtain ⟨rfl, hins, havoid⟩ := hins
  abind ((mapM'_cov (R := fun ka r s => AttrSim s.w ka r) (fun _ _ _ _ h he => h.mono he.core) ns.attrs s2 hK2
    (fun ka _ s3 hK3 => cloneAttr_cov hrec ka.1 ka.2 hK3)).toA (CovLe.refl _)) with attrs s3 hK3 hl3 hc3 hattrs
  abind ((CGoodAt.ofQuiet hK3 (copyProps_sim ns.props hK3.k) (copyProps_quiet _ _)).toA hc3)
    with pr s4 hK4 hl4 hc4 hpr
  abind ((CGoodAt.ofQuiet hK4 (copyMeta_sim ns.mstore hK4.k) (copyMeta_quiet _ _)).toA (hc3.trans hc4))
    with me s5 hK5 hl5 hc5 hme
  abind ((cloneOutputs_cov ns.outputs 0 s5 hK5).toA (hc3.trans (hc4.trans hc5))) with outs s6 hK6 hl6 hc6 houts
  abind ((CGoodAt.ofQuiet hK6 (SGoodAt.getVm hK6.k) QuietAt.getVm).toA (hc3.trans (hc4.trans (hc5.trans hc6))))
    with vm s7 hK7 hl7 hc7 hq7
  obtain ⟨rfl, rfl⟩ := hq7
  abind ((CGoodAt.ofQuiet hK7 (SGoodAt.bookkeeping (m := checkSpecs allow ns s7.vm) hK7.k
    (fun s => by rw [checkSpecs_state]; exact ⟨rfl, rfl⟩))
    (by unfold QuietAt; rw [checkSpecs_state]; exact ⟨rfl, rfl, rfl, fun _ ns h => .inl ⟨ns, h⟩⟩)).toA
    (hc3.trans (hc4.trans (hc5.trans hc6)))) with u0 s7' hK7' hl7' hc7' hq7'
  abind (allocNode_covA _ hK7' havoid) with n' s8 hK8 hl8 hc8 hn'
  have hc28 : CovLe s2 s8 := hc3.trans (hc4.trans (hc5.trans (hc6.trans (hc7'.trans hc8))))
  abind ((forM'_quiet_cov outs hK8 (fun v _ s9 hK9 => setProducer_sim n' v hK9)
    (fun v s9 => setProducer_quiet n' v s9)).ext.toA hc28) with u s9 hK9 hl9 hc9 hq9
  abind (((CGoodAt.ofQuiet hK9 (addUses_sim n' ins 0 s9 hK9.k) (addUses_quiet n' ins 0 s9)).ext).toA
    (hc28.trans hc9)) with u2 s10 hK10 hl10 hc10 hq10
  have l2 : CoreLe s2.w s10.w := hl3.trans (hl4.trans (hl5.trans (hl6.trans (hl7'.trans (hl8.trans (hl9.trans hl10))))))
  have l3 : CoreLe s3.w s10.w := hl4.trans (hl5.trans (hl6.trans (hl7'.trans (hl8.trans (hl9.trans hl10)))))
  have l4 : CoreLe s4.w s10.w := hl5.trans (hl6.trans (hl7'.trans (hl8.trans (hl9.trans hl10))))
  have l5 : CoreLe s5.w s10.w := hl6.trans (hl7'.trans (hl8.trans (hl9.trans hl10)))
  have l7 : CoreLe s7.w s10.w := hl7'.trans (hl8.trans (hl9.trans hl10))
  have l8 : CoreLe s8.w s10.w := hl9.trans hl10
  have hattrs' : All2 (AttrSim s10.w) ns.attrs attrs :=
    All2.mono (R := fun (ka : String × Nat) r => AttrSim s3.w ka r) (fun _ _ h => AttrSim.mono l3 h) hattrs
  have hmem : n' ∈ s10.created := hq10.2.mem_created (hq9.2.mem_created hn'.2)
  refine CGoodAtA.pure hK10 ⟨NodeSim.mk n n' _ _ attrs (cNode_mono l2 (cNode_of hns))
    (cNode_mono l8 (cNode_ofCore hn'.1)) rfl rfl rfl rfl rfl rfl
    (All2.mono (fun _ _ h => RefSim.mono l2 h) hins) (All2.mono (fun _ _ h => ValSim.mono l7 h) houts)
    (attrsSim_of_all2 hattrs') rfl ?_ ?_ (remapDev_simP (pairsSim_append (ioMap_pairs
      (All2.mono (fun _ _ h => RefSim.mono l2 h) hins) (All2.mono (fun _ _ h => ValSim.mono l7 h) houts))
      (fun p hp => .inr ((hK7.k p hp).mono l7))) ns.dev), hmem⟩
  · obtain ⟨d, a, b⟩ := hpr
    exact ⟨d, _, cDict_mono l4 a, cDict_mono l4 b, rfl⟩
  · obtain ⟨d, a, b⟩ := hme
    exact ⟨d, _, cDict_mono l5 a, cDict_mono l5 b, rfl, rfl⟩

end

/-! ### graphs -/

/-- outputs of the listed nodes -/
def outsOf (w : World) (nodes : List Nat) : List Nat :=
  nodes.flatMap fun n => match cNode w n with
    | some x => x.outputs
    | none => []

/-- `v` is defined at the top level of graph `gs`: an input, an initializer or a node output -/
def DefTop (w : World) (gs : GraphS) (v : Nat) : Prop :=
  v ∈ gs.inputs ∨ v ∈ gs.inits.map (·.2) ∨ v ∈ outsOf w gs.nodes

/-- the nodes created after the first `k` ones have no pre-existing input satisfying `P` -/
def CreatedAvoid (n0 k : Nat) (s : St) (P : Nat → Prop) : Prop :=
  ∀ n ∈ s.created.drop k, ∃ ns, cNode s.w n = some ns ∧ ∀ v, some v ∈ ns.inputs → v < n0 → ¬ P v

def KeepsCreated (m : M α) : Prop := ∀ s, (m s).2.created = s.created

theorem KeepsCreated.bind {m : M α} {f : α → M β} (hm : KeepsCreated m) (hf : ∀ a, KeepsCreated (f a)) :
    KeepsCreated (m >>= f) := by
  intro s
  show (M.bind m f s).2.created = s.created
  unfold M.bind
  have h1 := hm s
  rcases hms : m s with ⟨r, s1⟩
  rw [hms] at h1
  cases r with
  | error e => exact h1
  | ok a => exact (hf a s1).trans h1

theorem KeepsCreated.ofQuiet {m : M α} (h : ∀ s, QuietAt m s) : KeepsCreated m := fun s => (h s).created_eq

theorem cloneOrGetValue_keeps (v : Nat) : KeepsCreated (cloneOrGetValue v) := by
  unfold cloneOrGetValue
  refine KeepsCreated.bind (KeepsCreated.ofQuiet (fun _ => QuietAt.vmGet)) (fun o => ?_)
  cases o with
  | some v' => exact fun _ => rfl
  | none =>
    refine KeepsCreated.bind (KeepsCreated.ofQuiet (fun _ => QuietAt.readVal)) (fun vs => ?_)
    refine KeepsCreated.bind (KeepsCreated.ofQuiet (copyShape_quiet _)) (fun _ => ?_)
    refine KeepsCreated.bind (KeepsCreated.ofQuiet (copyType_quiet _)) (fun _ => ?_)
    refine KeepsCreated.bind (KeepsCreated.ofQuiet (copyProps_quiet _)) (fun _ => ?_)
    refine KeepsCreated.bind (KeepsCreated.ofQuiet (copyMeta_quiet _)) (fun _ => ?_)
    refine KeepsCreated.bind (KeepsCreated.ofQuiet (fun _ => QuietAt.alloc rfl)) (fun _ => ?_)
    refine KeepsCreated.bind (fun _ => rfl) (fun _ => fun _ => rfl)

theorem mapM'_keeps {α β : Type} {f : α → M β} (h : ∀ a, KeepsCreated (f a)) :
    ∀ l : List α, KeepsCreated (mapM' f l)
  | [] => fun _ => rfl
  | a :: as => by
    unfold mapM'
    exact KeepsCreated.bind (h a) (fun _ => KeepsCreated.bind (mapM'_keeps h as) (fun _ => fun _ => rfl))

section
variable {n0 : Nat}

theorem allOutputs_cov : ∀ (l : List Nat) (s : St), KC n0 s →
    CGoodAt n0 (allOutputs l) s (fun r s1 => s1 = s ∧ r = outsOf s.w l)
  | [], s, hK => CGoodAt.pure hK ⟨rfl, rfl⟩
  | n :: ns, s, hK => by
    unfold allOutputs
    cbind (CGoodAt.ofQuiet hK (SGoodAt.readNode hK.k) QuietAt.readNode) with x s1 hK1 hl1 hc1 hq1
    obtain ⟨rfl, hx⟩ := hq1
    cbind (allOutputs_cov ns s1 hK1) with r s2 hK2 hl2 hc2 hq2
    obtain ⟨rfl, rfl⟩ := hq2
    refine CGoodAt.pure hK2 ⟨rfl, ?_⟩
    simp [outsOf, cNode_of hx]

theorem QuietAt.getMapped {s : St} {v : Nat} : QuietAt (Clone.getMapped v) s := by
  unfold Clone.getMapped
  refine QuietAt.bind QuietAt.vmGet (fun o _ => ?_)
  cases o <;> first | exact QuietAt.pure | exact QuietAt.raise

/-- expose which nodes a step created -/
theorem CGoodAt.expose {m : M α} {s : St} {Q : α → St → Prop} (hm : CGoodAt n0 m s Q) :
    CGoodAt n0 m s (fun a s1 => Q a s1 ∧ Ext s s1 ∧
      ∃ ext, s1.created = s.created ++ ext ∧ ∀ n ∈ ext, NodeAvoids n0 s s1.w n) := by
  intro a ha
  obtain ⟨k, l, c, ⟨e, he, hav⟩, q⟩ := hm a ha
  exact ⟨k, l, c, ⟨e, he, hav⟩, q, ⟨l, c, ⟨e, he⟩⟩, ⟨e, he, hav⟩⟩

theorem All2.left_forall {α β : Type} {R : α → β → Prop} {P : α → Prop} (h : ∀ a b, R a b → P a) :
    ∀ {l : List α} {l' : List β}, All2 R l l' → ∀ a ∈ l, P a
  | _, _, .nil => by simp
  | _, _, .cons r rs => by
    intro a ha
    rcases List.mem_cons.mp ha with rfl | ha
    · exact h _ _ r
    · exact All2.left_forall h rs a ha

theorem CGoodAt.ofQuietK {m : M α} {s : St} {Q : α → St → Prop} (hK : KC n0 s)
    (hs : SGoodAt m s Q) (hq : QuietAt m s) :
    CGoodAt n0 m s (fun a s1 => Q a s1 ∧ s1.created = s.created) := by
  intro a ha
  obtain ⟨k, l, c, e, q⟩ := CGoodAt.ofQuiet hK hs hq a ha
  exact ⟨k, l, c, e, q, hq.created_eq⟩

theorem CGoodAt.keeps {m : M α} {s : St} {Q : α → St → Prop} (hm : CGoodAt n0 m s Q)
    (hk : KeepsCreated m) : CGoodAt n0 m s (fun a s1 => Q a s1 ∧ s1.created = s.created) := by
  intro a ha
  obtain ⟨k, l, c, e, q⟩ := hm a ha
  exact ⟨k, l, c, e, q, hk s⟩

theorem cloneGraphStep_cov {allow : Bool} {rec : Nat → M Nat}
    (hrec : ∀ g s, KC n0 s → CGoodAt n0 (rec g) s (fun g' s1 => GraphSim s1.w g g'))
    (g : Nat) {s : St} (hK : KC n0 s) :
    CGoodAt n0 (cloneGraphStep allow rec g) s (fun g' s1 => GraphSim s1.w g g' ∧
      ∃ gs, cGraph s.w g = some gs ∧ CreatedAvoid n0 s.created.length s1 (DefTop s.w gs)) := by
  unfold cloneGraphStep
  cbind (CGoodAt.ofQuiet hK (SGoodAt.readGraph hK.k) QuietAt.readGraph) with gs s1 hK1 hl1 hc1 hq1
  obtain ⟨rfl, hgs⟩ := hq1
  cbind (mapM'_cov (R := fun v r s => ValSim s.w v r ∧ Cov s v)
    (fun _ _ _ _ h he => ⟨h.1.mono he.core, he.cov _ h.2⟩) gs.inputs s1 hK1
    (fun v _ s2 hK2 => cloneOrGetValue_cov v hK2)).keeps (mapM'_keeps cloneOrGetValue_keeps _)
    with inputs s2 hK2 hl2 hc2 hin
  obtain ⟨hin, hcr2⟩ := hin
  cbind (mapM'_cov (R := fun v r s => ValSim s.w v r ∧ Cov s v)
    (fun _ _ _ _ h he => ⟨h.1.mono he.core, he.cov _ h.2⟩) (gs.inits.map (fun e => e.2)) s2 hK2
    (fun v _ s3 hK3 => cloneOrGetValue_cov v hK3)).keeps (mapM'_keeps cloneOrGetValue_keeps _)
    with inits s3a hK3a hl3a hc3a hinits
  obtain ⟨hinits, hcr3a⟩ := hinits
  cbind (allOutputs_cov gs.nodes s3a hK3a) with pouts s3b hK3b hl3b hc3b hq3b
  obtain ⟨rfl, rfl⟩ := hq3b
  cbind ((pendAdd_cov (outsOf s3b.w gs.nodes) hK3b).keeps (fun _ => rfl)) with u0 s3 hK3 hl3c hc3c hq3c
  obtain ⟨⟨hw3, hpend⟩, hcr3⟩ := hq3c
  -- everything defined at the top level of this graph is known to the cloner from here on
  have hsub : ∀ v, v ∈ outsOf s1.w gs.nodes → v ∈ outsOf s3b.w gs.nodes := by
    have hle : CoreLe s1.w s3b.w := hl2.trans hl3a
    intro v hv
    unfold outsOf at hv ⊢
    rw [List.mem_flatMap] at hv ⊢
    obtain ⟨n, hn, hvn⟩ := hv
    refine ⟨n, hn, ?_⟩
    cases hc : cNode s1.w n with
    | some x => rw [cNode_mono hle hc]; rw [hc] at hvn; exact hvn
    | none => rw [hc] at hvn; cases hvn
  have hcovered : ∀ v, DefTop s1.w gs v → Cov s3 v := by
    intro v hv
    rcases hv with h | h | h
    · exact hc3c _ (hc3b _ (hc3a _ (All2.left_forall (fun _ _ h => h.2) hin v h)))
    · exact hc3c _ (hc3b _ (All2.left_forall (fun _ _ h => h.2) hinits v h))
    · exact hpend v (hsub v h)
  cbind (mapM'_cov (R := fun n r s => NodeSim s.w n r ∧ r ∈ s.created)
    (fun _ _ _ _ h he => ⟨h.1.mono he.core, he.mem_created h.2⟩) gs.nodes s3 hK3
    (fun n _ s4 hK4 => cloneNode_cov hrec n hK4)).expose with nodes s4 hK4 hl4 hc4 hnodes
  obtain ⟨hnodes, _, ext, hcr4, hav4⟩ := hnodes
  cbind ((mapM'_cov (R := fun v r s => ValSim s.w v r) (fun _ _ _ _ h he => h.mono he.core) gs.outputs s4 hK4
    (fun v _ s5 hK5 => CGoodAt.ofQuiet hK5 (getMapped_sim v hK5.k) QuietAt.getMapped)).keeps
    (mapM'_keeps (fun v => KeepsCreated.ofQuiet (fun _ => QuietAt.getMapped)) _))
    with outputs s5 hK5 hl5 hc5 hout
  obtain ⟨hout, hcr5⟩ := hout
  have hnc : ∀ n ∈ nodes, n ∈ s5.created := by
    intro n hn
    rw [hcr5]
    exact All2.right_forall (fun _ _ h => h.2) hnodes n hn
  refine (CGoodAt.ofQuietK hK5 (mkGraph_sim gs inputs outputs nodes inits hK5.k)
    (mkGraph_quietC s5.created gs inputs outputs nodes inits hnc s5 rfl)).mono ?_
  intro g' s6 _ hl6 _ ⟨⟨gs', hg', e1, e2, e3, e4, e5, e6, e7, e8, e9⟩, hcr6⟩
  have hl3 : CoreLe s2.w s3.w := hl3a.trans (hl3b.trans hl3c)
  refine ⟨.mk g g' gs gs' inits (cGraph_mono (hl2.trans (hl3.trans (hl4.trans (hl5.trans hl6)))) (cGraph_of hgs))
    hg' e1 e2 e3 ?_ ?_ e7 ?_ ?_ e8 e9, gs, cGraph_of hgs, ?_⟩
  · rw [e4]; exact All2.mono (fun _ _ h => ValSim.mono (hl3.trans (hl4.trans (hl5.trans hl6))) h.1) hin
  · exact All2.mono (fun _ _ h => ValSim.mono (hl3b.trans (hl3c.trans (hl4.trans (hl5.trans hl6)))) h.1) hinits
  · rw [e6]; exact nodesSim_of_all2 (All2.mono (fun _ _ h => NodeSim.mono (hl5.trans hl6) h.1) hnodes)
  · rw [e5]; exact All2.mono (fun _ _ h => ValSim.mono hl6 h) hout
  · intro n hn
    have hcr : s6.created = s1.created ++ ext := by
      rw [hcr6, hcr5, hcr4, hcr3]
      have : s3b.created = s1.created := by rw [hcr3a, hcr2]
      rw [this]
    rw [hcr, List.drop_left] at hn
    obtain ⟨ns, hns, hav⟩ := hav4 n hn
    exact ⟨ns, cNode_mono (hl5.trans hl6) hns, fun v hv hlt hdef => hav v hv hlt (hcovered v hdef)⟩

theorem guarded_cov {body : M Nat} {Q : Nat → St → Prop} {s : St} (hb : CGoodAt n0 body s Q) :
    CGoodAt n0 (guarded body) s Q := by
  intro a ha
  rcases hbs : body s with ⟨r, s'⟩
  cases r with
  | ok x =>
    rw [guarded_ok hbs] at ha ⊢
    have := hb x (by rw [hbs])
    rw [hbs] at this
    cases ha
    exact this
  | error e =>
    rw [guarded_err hbs] at ha
    cases ha

/-- the specification of every call of `clone_graph` (root and nested): besides the simulation,
    every node created during the call — at any depth below — has no pre-existing input that is
    defined at the top level of the graph being cloned by this call -/
theorem cloneGraph_cov {allow : Bool} : ∀ (fuel g : Nat) (s : St), KC n0 s →
    CGoodAt n0 (cloneGraph allow fuel g) s (fun g' s1 => GraphSim s1.w g g' ∧
      ∃ gs, cGraph s.w g = some gs ∧ CreatedAvoid n0 s.created.length s1 (DefTop s.w gs))
  | 0, _, _, _ => CGoodAt.fail
  | f + 1, g, s, hK =>
    guarded_cov (cloneGraphStep_cov
      (fun g' s' hK' => (cloneGraph_cov f g' s' hK').mono (fun _ _ _ _ _ h => h.1)) g hK)

end
end IrVerif.Clone

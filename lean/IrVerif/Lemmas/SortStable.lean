/-
C12 — stability of `Graph.sort` on the graph tree: a graph that is already in order keeps its
order (under well-scopedness), and a tree all of whose graphs are in order has no dependency cycle.
-/
import IrVerif.Lemmas.SortPos

namespace IrVerif.Sort
open List

theorem entsNs_append (k : Nat) (l1 l2 : List MNode) :
    entsNs k (l1 ++ l2) = entsNs k l1 ++ entsNs k l2 := by
  simp [entsNs_eq]

/-- order of entries in the universe is order of positions -/
theorem at_lt_of_before {U : List Ent} (hnd : (idsOf U).Nodup) {e1 e2 : Ent} (hb : Before U e1 e2)
    {i j : Nat} (hi : At U i e1) (hj : At U j e2) : i < j := by
  obtain ⟨A, B, rfl, h2⟩ := hb
  obtain ⟨k, hk, rfl⟩ := List.mem_iff_getElem.1 h2
  have h1 : At (A ++ e1 :: B) A.length e1 := by simp [At]
  have h2' : At (A ++ e1 :: B) (A.length + 1 + k) B[k] := by
    simp only [At]
    rw [List.getElem?_append_right (by omega)]
    have : A.length + 1 + k - A.length = k + 1 := by omega
    rw [this]; simp [hk]
  have := At.inj hnd hi h1 rfl
  have := At.inj hnd hj h2' rfl
  omega

/-- in a duplicate-free list, whatever comes after an element of the tail `l2` is in `l2` -/
theorem mem_tail_of_before {l1 l2 : List Nat} {a x y : Nat} (hnd : (l1 ++ a :: l2).Nodup)
    (hb : Before (l1 ++ a :: l2) x y) (hx : x ∈ l2) : y ∈ l2 := by
  have hlt := hb.idxOf_lt hnd
  have hy := hb.mem_right
  have hx1 : x ∉ l1 := fun hm => (List.nodup_append.1 hnd).2.2 x hm x (by simp [hx]) rfl
  have hxa : a ≠ x := by
    intro h; subst h
    exact (List.nodup_cons.1 (List.nodup_append.1 hnd).2.1).1 hx
  have hbx : (a == x) = false := by simp [hxa]
  rw [List.idxOf_append, if_neg hx1, List.idxOf_cons, hbx] at hlt
  simp only [List.mem_append, List.mem_cons] at hy
  rcases hy with hy | hy | hy
  · rw [List.idxOf_append, if_pos hy] at hlt
    have := List.idxOf_lt_length_of_mem hy
    simp at hlt; omega
  · subst hy
    have ha1 : y ∉ l1 := fun hm => (List.nodup_append.1 hnd).2.2 y hm y (by simp) rfl
    rw [List.idxOf_append, if_neg ha1, List.idxOf_cons_self] at hlt
    simp at hlt; omega
  · exact hy

/-- node ids inside one graph of the tree are distinct -/
theorem graph_ids_nodup {g h : MGraph} (hids : (idsOf (nodesOf g)).Nodup) (hh : h ∈ allGraphs g) :
    (h.2.map MNode.id).Nodup := by
  have hperm := ids_perm_Ns (ns := h.2) (fun m _ => ids_perm_N m) h.1
  have hsub : (idsOf (entsNs h.1 h.2)).Nodup :=
    List.Nodup.sublist ((graph_infix hh).sublist.map _) hids
  exact (List.nodup_append.1 (hperm.nodup_iff.1 hsub)).1

/-- **the stability core.**  In a well-scoped tree whose sort succeeds, if graph `h` is already in
    order then every node of `h` is re-linked before every later node of `h`. -/
theorem graph_stable {g : MGraph} (hids : (idsOf (nodesOf g)).Nodup) (hws : WellScoped g)
    (hlen : (kahn (nodesOf g).length (predsAt (nodesOf g))).length = (nodesOf g).length)
    {h : MGraph} (hh : h ∈ allGraphs g) (hord : OrderedG h)
    {L1 L2 : List MNode} {na : MNode} (hsplit : h.2 = L1 ++ na :: L2) {nb : MNode} (hnb : nb ∈ L2) :
    Before (kahn (nodesOf g).length (predsAt (nodesOf g)))
      (posOf (nodesOf g) na.id) (posOf (nodesOf g) nb.id) := by
  have hrun := kahn_run (predsAt_lt (nodesOf g))
  have hc := hrun.complete hlen
  have hna : na ∈ h.2 := by rw [hsplit]; simp
  have hL2 : ∀ m ∈ L2, m ∈ h.2 := fun m hm => by rw [hsplit]; simp [hm]
  have hgi : entsNs h.1 h.2 <:+: nodesOf g := graph_infix hh
  have hdecomp : entsNs h.1 h.2 =
      entsNs h.1 L1 ++ entOf h.1 na :: (entsGs na.subs ++ entsNs h.1 L2) := by
    rw [hsplit, entsNs_append]
    simp only [entsNs, entsN_cons, List.cons_append]
  have hspanL2 : entsNs h.1 L2 ⊆ nodesOf g := by
    intro e he
    apply hgi.subset
    rw [hdecomp]; simp [he]
  have heA : entOf h.1 na ∈ nodesOf g := (node_infix hh hna).subset (entOf_mem_entsN _ _)
  have hA : At (nodesOf g) (posOf (nodesOf g) na.id) (entOf h.1 na) := at_posOf hids heA
  have hcur := graph_ids_nodup hids hh
  -- the set S: positions of the entries in the spans of the nodes after `na`
  let S : Nat → Prop := fun x => ∃ e ∈ entsNs h.1 L2, At (nodesOf g) x e
  have hS : ∀ x, S x → posOf (nodesOf g) na.id < x ∧ x < (nodesOf g).length := by
    rintro x ⟨e, he, hx⟩
    refine ⟨?_, hx.lt⟩
    have hb : Before (entsNs h.1 h.2) (entOf h.1 na) e :=
      ⟨entsNs h.1 L1, entsGs na.subs ++ entsNs h.1 L2, hdecomp, by simp [he]⟩
    exact at_lt_of_before hids (hb.of_infix hgi) hA hx
  have hcl : ∀ x c, S x → c < (nodesOf g).length → x ∈ predsAt (nodesOf g) c →
      S c ∨ posOf (nodesOf g) na.id ∈ predsAt (nodesOf g) c := by
    rintro x c ⟨e, he, hx⟩ hcN hxc
    have hC := at_of_lt hcN
    set ec := (nodesOf g)[c] with hec
    have hedge : Edge (nodesOf g).length (predsAt (nodesOf g)) x c := ⟨hx.lt, hcN, hxc⟩
    obtain ⟨m, hm, hem⟩ := mem_entsNs.1 he
    have hmh : m ∈ h.2 := hL2 m hm
    have hspan_m : entsN h.1 m ⊆ entsNs h.1 L2 := (entsN_infix_entsNs hm).subset
    rcases (edge_iff hids hx hC).1 hedge with hin | hsub
    · -- `ec` uses a value produced by `e`
      rcases ent_is_node m h.1 e hem with rfl | ⟨h', hh', x', hx', rfl⟩
      · -- `e` is the node `m` of `h` itself
        have hec_in := hws h hh m hmh ec hC.mem hin
        obtain ⟨c', hc', hecc'⟩ := mem_entsNs.1 hec_in
        have hb := hord m hmh c' hc' ⟨ec, hecc', hin⟩
        -- c' lies after na
        have hcur' : (L1.map MNode.id ++ na.id :: L2.map MNode.id).Nodup := by
          have := hcur; rw [hsplit] at this; simpa using this
        have hb' : Before (L1.map MNode.id ++ na.id :: L2.map MNode.id) m.id c'.id := by
          have := hb; rw [hsplit] at this; simpa using this
        have hc'2 := mem_tail_of_before hcur' hb' (List.mem_map.2 ⟨m, hm, rfl⟩)
        obtain ⟨m2, hm2, hid2⟩ := List.mem_map.1 hc'2
        have : m2 = c' := List.inj_on_of_nodup_map hcur (hL2 m2 hm2) hc' hid2
        subst this
        exact Or.inl ⟨ec, (entsN_infix_entsNs hm2).subset hecc', hC⟩
      · -- `e` is a node of a graph nested in `m`
        have hh'g : h' ∈ allGraphs g := allGraphs_trans hh hmh hh'
        have hec_in := hws h' hh'g x' hx' ec hC.mem hin
        exact Or.inl ⟨ec, hspan_m ((subgraph_infix m h.1 h' hh').subset hec_in), hC⟩
    · -- `e` is a direct node of an attribute graph of `ec`
      rcases owner_in_span m h.1 e hem with rfl | ⟨o, ho, hoe⟩
      · -- `e` is the node `m` of `h`: `ec` owns `h`, hence `na` too
        right
        rcases mem_allGraphs.1 hh with rfl | ⟨m0, hm0, hin0⟩
        · exact absurd hsub (root_not_owned hids hmh hC.mem)
        · obtain ⟨o, ho, hall⟩ := graph_owner m0 g.1 h hin0
          have hoU : o ∈ nodesOf g := (entsN_infix_entsNs hm0).subset ho
          have : o = ec := owner_unique hids hoU hC.mem (hall m hmh) hsub
          rw [this] at hall
          exact ((edge_iff hids hA hC).2 (Or.inr (hall na hna))).2.2
      · have hoU : o ∈ nodesOf g := hspanL2 (hspan_m ho)
        have : o = ec := owner_unique hids hoU hC.mem hoe hsub
        rw [this] at ho
        exact Or.inl ⟨ec, hspan_m ho, hC⟩
  obtain ⟨l1, l2, hP⟩ := List.mem_iff_append.1 (hc _ hA.lt)
  have heB : entOf h.1 nb ∈ entsNs h.1 L2 :=
    (entsN_infix_entsNs hnb).subset (entOf_mem_entsN _ _)
  have hB : At (nodesOf g) (posOf (nodesOf g) nb.id) (entOf h.1 nb) :=
    at_posOf hids (hspanL2 heB)
  exact ⟨l1, l2, hP, hrun.stable hc _ S hS hcl hP _ ⟨_, heB, hB⟩⟩

theorem pairwise_of_before {α : Type} {R : α → α → Prop} :
    ∀ l : List α, (∀ a b, Before l a b → R a b) → l.Pairwise R := by
  intro l
  induction l with
  | nil => simp
  | cons x t ih =>
    intro h
    rw [List.pairwise_cons]
    refine ⟨fun y hy => h x y ⟨[], t, rfl, hy⟩, ih ?_⟩
    rintro a b ⟨l1, l2, rfl, hb⟩
    exact h a b ⟨x :: l1, l2, rfl, hb⟩

theorem before_map_split {α β : Type} {f : α → β} {l : List α} {x y : β}
    (h : Before (l.map f) x y) :
    ∃ L1 n L2 m, l = L1 ++ n :: L2 ∧ f n = x ∧ m ∈ L2 ∧ f m = y := by
  obtain ⟨l1, l2, heq, hy⟩ := h
  obtain ⟨L1, R, rfl, rfl, hR⟩ := List.map_eq_append_iff.1 heq
  obtain ⟨n, L2, rfl, rfl, rfl⟩ := List.map_eq_cons_iff.1 hR
  obtain ⟨m, hm, rfl⟩ := List.mem_map.1 hy
  exact ⟨L1, n, L2, m, rfl, rfl, hm, rfl⟩

theorem Before.irrefl_of_nodup {l : List Nat} (hnd : l.Nodup) {a b : Nat} (h1 : Before l a b)
    (h2 : Before l b a) : False := by
  have := h1.idxOf_lt hnd
  have := h2.idxOf_lt hnd
  omega

/-- **per-graph fixpoint, on buckets**: in a well-scoped tree whose sort succeeds, the bucket of
    a graph that is already in order is its current node sequence. -/
theorem bucket_eq_of_ordered {g : MGraph} (hids : (idsOf (nodesOf g)).Nodup)
    (hgids : (gidsOf (allGraphs g)).Nodup) (hws : WellScoped g)
    (hlen : (kahn (nodesOf g).length (predsAt (nodesOf g))).length = (nodesOf g).length)
    {h : MGraph} (hh : h ∈ allGraphs g) (hord : OrderedG h) :
    bucket (nodesOf g) (kahn (nodesOf g).length (predsAt (nodesOf g))) h.1
      = h.2.map MNode.id := by
  have hrun := kahn_run (predsAt_lt (nodesOf g))
  have hperm := bucket_perm (hrun.perm_range hlen) h.1
  rw [filter_gid_root hgids hh] at hperm
  have hcur := graph_ids_nodup hids hh
  have hnew : (bucket (nodesOf g) (kahn (nodesOf g).length (predsAt (nodesOf g))) h.1).Nodup :=
    hperm.nodup_iff.2 hcur
  let le : Nat → Nat → Prop := fun a b => (h.2.map MNode.id).idxOf a < (h.2.map MNode.id).idxOf b
  have hp1 : (h.2.map MNode.id).Pairwise le :=
    pairwise_of_before _ (fun a b hb => hb.idxOf_lt hcur)
  have hp2 : (bucket (nodesOf g) (kahn (nodesOf g).length (predsAt (nodesOf g))) h.1).Pairwise le := by
    apply pairwise_of_before
    intro a b hab
    have ha : a ∈ h.2.map MNode.id := hperm.mem_iff.1 hab.mem_left
    have hb : b ∈ h.2.map MNode.id := hperm.mem_iff.1 hab.mem_right
    show (h.2.map MNode.id).idxOf a < (h.2.map MNode.id).idxOf b
    by_contra hnlt
    rcases Nat.lt_or_ge ((h.2.map MNode.id).idxOf b) ((h.2.map MNode.id).idxOf a) with hlt | hge
    · -- b before a in the current order: then b is re-linked before a
      have hba := before_of_idxOf_lt hcur hb ha hlt
      obtain ⟨L1, nb, L2, na, hsplit, rfl, hna, rfl⟩ := before_map_split hba
      have hst := graph_stable hids hws hlen hh hord hsplit hna
      have hnb_mem : nb ∈ h.2 := by rw [hsplit]; simp
      have hna_mem : na ∈ h.2 := by rw [hsplit]; simp [hna]
      have hB : At (nodesOf g) (posOf (nodesOf g) nb.id) (entOf h.1 nb) :=
        at_posOf hids ((node_infix hh hnb_mem).subset (entOf_mem_entsN _ _))
      have hA : At (nodesOf g) (posOf (nodesOf g) na.id) (entOf h.1 na) :=
        at_posOf hids ((node_infix hh hna_mem).subset (entOf_mem_entsN _ _))
      have := bucket_before hst hB hA h.1 rfl rfl
      exact Before.irrefl_of_nodup hnew hab this
    · -- same index: a = b, impossible in a duplicate-free list
      have heq : (h.2.map MNode.id).idxOf a = (h.2.map MNode.id).idxOf b := by omega
      have hab' : a = b := by
        have h1 := List.getElem_idxOf (List.idxOf_lt_length_of_mem ha)
        have h2 := List.getElem_idxOf (List.idxOf_lt_length_of_mem hb)
        rw [← h1, ← h2]; simp [heq]
      subst hab'
      exact Before.irrefl_of_nodup hnew hab hab
  exact List.Perm.eq_of_pairwise (fun a b _ _ h1 h2 => by
    have h1' : (h.2.map MNode.id).idxOf a < (h.2.map MNode.id).idxOf b := h1
    have h2' : (h.2.map MNode.id).idxOf b < (h.2.map MNode.id).idxOf a := h2
    omega) hp2 hp1 hperm

end IrVerif.Sort

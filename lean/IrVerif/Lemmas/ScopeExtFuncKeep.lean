/-
The merged metadata along an extended deserializer run (`Model/ScopeExt.lean`): the "metadata keep" development.

* `MExt n n' x x'`: the merged metadata of `x'` is that of `x` outside of the values `[n, n')` (what a run that
  starts at allocation counter `n` and ends at `n'` does: `Ext.newNamed` / the input loop write the value that is
  being created; the graph outputs merge into a value of the graph's OWN scope table, which only binds values the
  graph created itself, or into a value that is being created);
* `TblBd b n T`: every value bound in `T` lies in `[b, n)`.

No hypothesis on the store or on the extension state is needed.  Then the representation invariant `ExtWF` and
the freshness `ExtFresh` through `deserFInputsE` / `deserFunctionE` / `deserFuncsE`.
-/
import IrVerif.Lemmas.ScopeExtFuncDefs
namespace IrVerif.Scope

/-- the merged metadata of `x'` is that of `x` outside of `[n, n')` -/
def MExt (n n' : Nat) (x x' : Ext) : Prop :=
  n ≤ n' ∧ (∀ d, d < n → x'.vmeta d = x.vmeta d) ∧ (∀ d, n' ≤ d → x'.vmeta d = x.vmeta d)

/-- every value bound in `T` lies in `[b, n)` -/
def TblBd (b n : Nat) (T : Table) : Prop := ∀ e ∈ T, b ≤ e.2 ∧ e.2 < n

theorem MExt.refl (n : Nat) (x : Ext) : MExt n n x x := ⟨Nat.le_refl _, fun _ _ => rfl, fun _ _ => rfl⟩

theorem MExt.trans {a b c : Nat} {x y z : Ext} (h1 : MExt a b x y) (h2 : MExt b c y z) : MExt a c x z :=
  ⟨Nat.le_trans h1.1 h2.1,
    fun d hd => by rw [h2.2.1 d (Nat.lt_of_lt_of_le hd h1.1), h1.2.1 d hd],
    fun d hd => by rw [h2.2.2 d hd, h1.2.2 d (Nat.le_trans h2.1 hd)]⟩

theorem MExt.mono_right {a b c : Nat} {x y : Ext} (h : MExt a b x y) (hle : b ≤ c) : MExt a c x y :=
  ⟨Nat.le_trans h.1 hle, h.2.1, fun d hd => h.2.2 d (Nat.le_trans hle hd)⟩

theorem MExt.newNamed (x : Ext) (vt : List (Name × Info × SS)) (qt : List (Name × SS)) (n : Nat) (k : Name) :
    MExt n (n + 1) x (x.newNamed vt qt n k) :=
  ⟨Nat.le_succ _, fun d hd => Ext.newNamed_vmeta_ne _ _ _ _ _ (by omega),
    fun d hd => Ext.newNamed_vmeta_ne _ _ _ _ _ (by omega)⟩

theorem TblBd.mono {b n n' : Nat} {T : Table} (h : TblBd b n T) (hle : n ≤ n') : TblBd b n' T :=
  fun e he => ⟨(h e he).1, Nat.lt_of_lt_of_le (h e he).2 hle⟩

theorem TblBd.cons {b n : Nat} {T : Table} (h : TblBd b n T) (k : Name) (hb : b ≤ n) :
    TblBd b (n + 1) ((k, n) :: T) := by
  intro e he
  simp only [List.mem_cons] at he
  rcases he with rfl | he
  · exact ⟨hb, Nat.lt_succ_self _⟩
  · exact ⟨(h e he).1, Nat.lt_succ_of_lt (h e he).2⟩

/-- metadata and annotations are fresh beyond `st'` after a run that keeps them outside of `[st.nv, st'.nv)` -/
theorem ExtFresh.ext {st st' : Store} {x x' : Ext} (h : ExtFresh st x) (q : QExt st.nv st'.nv x x')
    (m : MExt st.nv st'.nv x x') : ExtFresh st' x' := fun d hd => by
  rw [m.2.2 d hd, q.2.2 d hd]
  exact h d (Nat.le_trans m.1 hd)

/-! ### the phases of a graph -/

theorem deserInputsE_m (qt : List (Name × SS)) : ∀ (is : List VInfoE) (st : Store) (x : Ext),
    MExt st.nv (deserInputsE st x qt is).1.nv x (deserInputsE st x qt is).2.1 ∧
    (∀ v ∈ (deserInputsE st x qt is).2.2, st.nv ≤ v ∧ v < (deserInputsE st x qt is).1.nv)
  | [], st, x => ⟨MExt.refl _ _, fun v hv => by simp [deserInputsE] at hv⟩
  | i :: is, st, x => by
    simp only [deserInputsE, alloc_snd]
    have e1 : MExt st.nv (st.alloc { name := some i.name, info := i.info }).1.nv x
        ((x.merge st.nv i.mprops).annotate qt st.nv i.name) :=
      ⟨by simp, fun d hd => by rw [Ext.annotate_vmeta, Ext.merge_vmeta, if_neg (by omega)],
        fun d hd => by
          simp only [alloc_nv] at hd
          rw [Ext.annotate_vmeta, Ext.merge_vmeta, if_neg (by omega)]⟩
    obtain ⟨a, b⟩ := deserInputsE_m qt is (st.alloc { name := some i.name, info := i.info }).1
      ((x.merge st.nv i.mprops).annotate qt st.nv i.name)
    refine ⟨e1.trans a, fun v hv => ?_⟩
    simp only [List.mem_cons] at hv
    have ha := a.1
    simp only [alloc_nv] at ha
    rcases hv with rfl | hv
    · exact ⟨Nat.le_refl _, ha⟩
    · have := b v hv
      simp only [alloc_nv] at this
      exact ⟨by omega, this.2⟩

theorem deserInitsE_m (vt : List (Name × Info × SS)) (qt : List (Name × SS)) :
    ∀ (ts : List TensorP) (st : Store) (x : Ext) (tbl : Table),
      MExt st.nv (deserInitsE st x tbl vt qt ts).1.nv x (deserInitsE st x tbl vt qt ts).2.1 ∧
      (∀ b, b ≤ st.nv → TblBd b st.nv tbl →
        TblBd b (deserInitsE st x tbl vt qt ts).1.nv (deserInitsE st x tbl vt qt ts).2.2.1)
  | [], st, x, tbl => ⟨MExt.refl _ _, fun _ _ h => h⟩
  | t :: ts, st, x, tbl => by
    simp only [deserInitsE]
    by_cases hn : t.name = ""
    · simp only [hn, if_true]
      exact deserInitsE_m vt qt ts st x tbl
    · simp only [hn, if_false]
      cases hl : tbl.lookup t.name with
      | some v =>
        simp only
        exact deserInitsE_m vt qt ts
          ((st.allocTensor { name := some t.name, data := t.data, ty := t.ty, sh := t.sh }).1.modify v
            fun c => { c with const := some st.nt }) x tbl
      | none =>
        simp only
        have hnv' : (newInit (st.allocTensor { name := some t.name, data := t.data, ty := t.ty, sh := t.sh }).1
          (eraseVT vt) t st.nt).nv = st.nv + 1 := newInit_nv _ _ _ _
        obtain ⟨a, b⟩ := deserInitsE_m vt qt ts
          (newInit (st.allocTensor { name := some t.name, data := t.data, ty := t.ty, sh := t.sh }).1 (eraseVT vt) t st.nt)
          (x.newNamed vt qt st.nv t.name) ((t.name, st.nv) :: tbl)
        rw [hnv'] at a b
        exact ⟨(MExt.newNamed x vt qt st.nv t.name).trans a, fun c hc hT => b c (by omega) (hT.cons t.name hc)⟩

theorem declareOutputsE_m (vt : List (Name × Info × SS)) (qt : List (Name × SS)) :
    ∀ (ns : List Name) (st : Store) (x : Ext) (tbl : Table) (st' : Store) (x' : Ext) (tbl' : Table),
      declareOutputsE st x tbl vt qt ns = .ok (st', x', tbl') →
      MExt st.nv st'.nv x x' ∧ (∀ b, b ≤ st.nv → TblBd b st.nv tbl → TblBd b st'.nv tbl')
  | [], st, x, tbl, st', x', tbl', h => by
    simp only [declareOutputsE, Except.ok.injEq, Prod.mk.injEq] at h
    obtain ⟨rfl, rfl, rfl⟩ := h
    exact ⟨MExt.refl _ _, fun _ _ h => h⟩
  | n :: ns, st, x, tbl, st', x', tbl', h => by
    simp only [declareOutputsE] at h
    by_cases hn : n = ""
    · simp only [hn, if_true] at h
      exact declareOutputsE_m vt qt ns st x tbl st' x' tbl' h
    · simp only [hn, if_false] at h
      cases hl : tbl.lookup n with
      | some v => simp [hl] at h
      | none =>
        simp only [hl] at h
        have hnv := newNamed_nv st (eraseVT vt) n
        obtain ⟨a, b⟩ := declareOutputsE_m vt qt ns _ _ _ st' x' tbl' h
        rw [hnv] at a b
        exact ⟨(MExt.newNamed x vt qt st.nv n).trans a, fun c hc hT => b c (by omega) (hT.cons n hc)⟩

theorem declareNodesE_m (vt : List (Name × Info × SS)) (qt : List (Name × SS)) :
    ∀ (ns : List NodeE) (st : Store) (x : Ext) (tbl : Table) (st' : Store) (x' : Ext) (tbl' : Table),
      declareNodesE st x tbl vt qt ns = .ok (st', x', tbl') →
      MExt st.nv st'.nv x x' ∧ (∀ b, b ≤ st.nv → TblBd b st.nv tbl → TblBd b st'.nv tbl')
  | [], st, x, tbl, st', x', tbl', h => by
    simp only [declareNodesE, Except.ok.injEq, Prod.mk.injEq] at h
    obtain ⟨rfl, rfl, rfl⟩ := h
    exact ⟨MExt.refl _ _, fun _ _ h => h⟩
  | n :: ns, st, x, tbl, st', x', tbl', h => by
    simp only [declareNodesE] at h
    split at h
    · simp at h
    · rename_i st1 x1 tbl1 h1
      obtain ⟨a1, b1⟩ := declareOutputsE_m vt qt _ _ _ _ _ _ _ h1
      obtain ⟨a2, b2⟩ := declareNodesE_m vt qt ns st1 x1 tbl1 st' x' tbl' h
      exact ⟨a1.trans a2, fun c hc hT => b2 c (Nat.le_trans hc a1.1) (b1 c hc hT)⟩

theorem resolveInputsE_m (outer : List Table) (vt : List (Name × Info × SS)) (qt : List (Name × SS)) :
    ∀ (ns : List Name) (st : Store) (x : Ext) (top : Table),
      MExt st.nv (resolveInputsE st x top outer vt qt ns).1.nv x (resolveInputsE st x top outer vt qt ns).2.1 ∧
      (∀ b, b ≤ st.nv → TblBd b st.nv top →
        TblBd b (resolveInputsE st x top outer vt qt ns).1.nv (resolveInputsE st x top outer vt qt ns).2.2.1)
  | [], st, x, top => ⟨MExt.refl _ _, fun _ _ h => h⟩
  | n :: ns, st, x, top => by
    simp only [resolveInputsE]
    by_cases hn : n = ""
    · simp only [hn, if_true]
      exact resolveInputsE_m outer vt qt ns st x top
    · simp only [hn, if_false]
      cases hl : resolve n (top :: outer) with
      | some v =>
        simp only
        exact resolveInputsE_m outer vt qt ns st x top
      | none =>
        simp only
        have hnv := newNamed_nv st (eraseVT vt) n
        obtain ⟨a, b⟩ := resolveInputsE_m outer vt qt ns (newNamed st (eraseVT vt) n)
          (x.newNamed vt qt st.nv n) ((n, st.nv) :: top)
        rw [hnv] at a b
        exact ⟨(MExt.newNamed x vt qt st.nv n).trans a, fun c hc hT => b c (by omega) (hT.cons n hc)⟩

/-- graph outputs merge into values of the table (which lie in `[b, st.nv)`) or into values that are created -/
theorem deserOutputsE_m (tbl : Table) (b : Nat) : ∀ (os : List VInfoE) (st : Store) (x : Ext),
    b ≤ st.nv → TblBd b st.nv tbl →
    st.nv ≤ (deserOutputsE st x tbl os).1.nv ∧
    (∀ d, d < b → (deserOutputsE st x tbl os).2.1.vmeta d = x.vmeta d) ∧
    (∀ d, (deserOutputsE st x tbl os).1.nv ≤ d → (deserOutputsE st x tbl os).2.1.vmeta d = x.vmeta d)
  | [], st, x, _, _ => ⟨Nat.le_refl _, fun _ _ => rfl, fun _ _ => rfl⟩
  | o :: os, st, x, hb, hT => by
    simp only [deserOutputsE]
    cases hl : tbl.lookup o.name with
    | some v =>
      simp only
      obtain ⟨hv1, hv2⟩ := hT _ (lookup_mem _ _ _ hl)
      simp only at hv1 hv2
      obtain ⟨a, c1, c2⟩ := deserOutputsE_m tbl b os (st.modify v fun c => { c with info := o.info })
        (x.merge v o.mprops) hb hT
      have a' : st.nv ≤ (deserOutputsE (st.modify v fun c => { c with info := o.info }) (x.merge v o.mprops) tbl
        os).1.nv := a
      refine ⟨a', fun d hd => ?_, fun d hd => ?_⟩
      · rw [c1 d hd, Ext.merge_vmeta, if_neg (by omega)]
      · rw [c2 d hd, Ext.merge_vmeta, if_neg (by omega)]
    | none =>
      simp only [alloc_snd]
      obtain ⟨a, c1, c2⟩ := deserOutputsE_m tbl b os (st.alloc { name := some o.name, info := o.info }).1
        (x.merge st.nv o.mprops) (by simp only [alloc_nv]; omega) (hT.mono (by simp))
      simp only [alloc_nv] at a
      refine ⟨by omega, fun d hd => ?_, fun d hd => ?_⟩
      · rw [c1 d hd, Ext.merge_vmeta, if_neg (by omega)]
      · rw [c2 d hd, Ext.merge_vmeta, if_neg (by omega)]

/-! ### the four mutually recursive functions -/

mutual
theorem deserGraphE_mext :
    ∀ (p : GraphE) (st : Store) (x : Ext) (outer : List Table) (st' : Store) (x' : Ext) (g : GraphT),
      deserGraphE st x outer p = .ok (st', x', g) → MExt st.nv st'.nv x x'
  | .mk inputs inits vinfo nodes outputs quant, st, x, outer, st', x', g, h => by
    simp only [deserGraphE] at h
    obtain ⟨a1, b1⟩ := deserInputsE_m (quantTable quant) inputs st x
    generalize deserInputsE st x (quantTable quant) inputs = rI at h a1 b1
    obtain ⟨st1, x1, ins⟩ := rI
    simp only at h a1 b1
    have hT1 : TblBd st.nv st1.nv (inputTable (inputs.map VInfoE.erase) ins) := fun e he =>
      b1 e.2 (List.of_mem_zip (mem_inputTable_zip he)).2
    obtain ⟨a2, b2⟩ := deserInitsE_m (vinfoTableE vinfo) (quantTable quant) inits st1 x1
      (inputTable (inputs.map VInfoE.erase) ins)
    have c2 := b2 st.nv a1.1 hT1
    generalize deserInitsE st1 x1 (inputTable (inputs.map VInfoE.erase) ins) (vinfoTableE vinfo) (quantTable quant)
      inits = rA at h a2 c2
    obtain ⟨st2, x2, tbl2, initVals⟩ := rA
    simp only at h a2 c2
    split at h
    · simp at h
    · rename_i st3 x3 tbl3 h3
      obtain ⟨a3, b3⟩ := declareNodesE_m _ _ _ _ _ _ _ _ _ h3
      have c3 := b3 st.nv (Nat.le_trans a1.1 a2.1) c2
      split at h
      · simp at h
      · rename_i st4 x4 tbl4 ns h4
        obtain ⟨a4, b4⟩ := deserNodesE_mext nodes st3 x3 tbl3 outer _ _ st4 x4 tbl4 ns h4
        have le3 : st.nv ≤ st3.nv := Nat.le_trans (Nat.le_trans a1.1 a2.1) a3.1
        have c4 := b4 st.nv le3 c3
        have a14 : MExt st.nv st4.nv x x4 := ((a1.trans a2).trans a3).trans a4
        obtain ⟨a5, b5, c5⟩ := deserOutputsE_m tbl4 st.nv outputs st4 x4 a14.1 c4
        generalize deserOutputsE st4 x4 tbl4 outputs = rO at h a5 b5 c5
        obtain ⟨st5, x5, outs⟩ := rO
        simp only [Except.ok.injEq, Prod.mk.injEq] at h a5 b5 c5
        obtain ⟨rfl, rfl, _⟩ := h
        rw [(mkGraph_fst_counters st5 ins outs ns initVals).1]
        exact ⟨Nat.le_trans a14.1 a5, fun d hd => by rw [b5 d hd, a14.2.1 d hd],
          fun d hd => by rw [c5 d hd, a14.2.2 d (Nat.le_trans a5 hd)]⟩
theorem deserNodesE_mext :
    ∀ (ns : List NodeE) (st : Store) (x : Ext) (top : Table) (outer : List Table) (vt : List (Name × Info × SS))
      (qt : List (Name × SS)) (st' : Store) (x' : Ext) (top' : Table) (nts : List NodeT),
      deserNodesE st x top outer vt qt ns = .ok (st', x', top', nts) →
      MExt st.nv st'.nv x x' ∧ (∀ b, b ≤ st.nv → TblBd b st.nv top → TblBd b st'.nv top')
  | [], st, x, top, outer, vt, qt, st', x', top', nts, h => by
    simp only [deserNodesE, Except.ok.injEq, Prod.mk.injEq] at h
    obtain ⟨rfl, rfl, rfl, _⟩ := h
    exact ⟨MExt.refl _ _, fun _ _ h => h⟩
  | n :: ns, st, x, top, outer, vt, qt, st', x', top', nts, h => by
    simp only [deserNodesE] at h
    split at h
    · simp at h
    · rename_i st1 x1 top1 nt h1
      split at h
      · simp at h
      · rename_i st2 x2 top2 nts' h2
        simp only [Except.ok.injEq, Prod.mk.injEq] at h
        obtain ⟨rfl, rfl, rfl, _⟩ := h
        obtain ⟨a1, b1⟩ := deserNodeE_mext n st x top outer vt qt st1 x1 top1 nt h1
        obtain ⟨a2, b2⟩ := deserNodesE_mext ns st1 x1 top1 outer vt qt st2 x2 top2 nts' h2
        exact ⟨a1.trans a2, fun c hc hT => b2 c (Nat.le_trans hc a1.1) (b1 c hc hT)⟩
theorem deserNodeE_mext :
    ∀ (n : NodeE) (st : Store) (x : Ext) (top : Table) (outer : List Table) (vt : List (Name × Info × SS))
      (qt : List (Name × SS)) (st' : Store) (x' : Ext) (top' : Table) (nt : NodeT),
      deserNodeE st x top outer vt qt n = .ok (st', x', top', nt) →
      MExt st.nv st'.nv x x' ∧ (∀ b, b ≤ st.nv → TblBd b st.nv top → TblBd b st'.nv top')
  | .mk inputs outputs devs subs, st, x, top, outer, vt, qt, st', x', top', nt, h => by
    simp only [deserNodeE] at h
    obtain ⟨a1, b1⟩ := resolveInputsE_m outer vt qt inputs st x top
    generalize resolveInputsE st x top outer vt qt inputs = rR at h a1 b1
    obtain ⟨st1, x1, top1, ins⟩ := rR
    simp only at h a1 b1
    split at h
    · simp at h
    · rename_i st2 outs h2
      obtain ⟨q2, _⟩ := lookupOutputs_spec _ outputs _ _ _ h2
      split at h
      · simp at h
      · rename_i st3 x3 gs h3
        simp only [Except.ok.injEq, Prod.mk.injEq] at h
        obtain ⟨rfl, rfl, rfl, _⟩ := h
        have a3 := deserSubsE_mext subs st2 x1 (top1 :: outer) st3 x3 gs h3
        rw [mkNode_fst_nv]
        refine ⟨(a1.mono_right q2.nv_le).trans a3, fun c hc hT => ?_⟩
        exact (b1 c hc hT).mono (Nat.le_trans q2.nv_le a3.1)
theorem deserSubsE_mext :
    ∀ (gs : List GraphE) (st : Store) (x : Ext) (scopes : List Table) (st' : Store) (x' : Ext) (gts : List GraphT),
      deserSubsE st x scopes gs = .ok (st', x', gts) → MExt st.nv st'.nv x x'
  | [], st, x, scopes, st', x', gts, h => by
    simp only [deserSubsE, Except.ok.injEq, Prod.mk.injEq] at h
    obtain ⟨rfl, rfl, _⟩ := h
    exact MExt.refl _ _
  | g :: gs, st, x, scopes, st', x', gts, h => by
    simp only [deserSubsE] at h
    split at h
    · simp at h
    · rename_i st1 x1 gt h1
      split at h
      · simp at h
      · rename_i st2 x2 gts' h2
        simp only [Except.ok.injEq, Prod.mk.injEq] at h
        obtain ⟨rfl, rfl, _⟩ := h
        exact (deserGraphE_mext g st x scopes st1 x1 gt h1).trans (deserSubsE_mext gs st1 x1 scopes st2 x2 gts' h2)
end

/-- a graph run keeps the freshness of the extension state beyond the allocation counter -/
theorem deserGraphE_extFresh (p : GraphE) (st : Store) (x : Ext) (outer : List Table) (st' : Store) (x' : Ext)
    (g : GraphT) (hf : ExtFresh st x) (h : deserGraphE st x outer p = .ok (st', x', g)) : ExtFresh st' x' :=
  hf.ext (deserGraphE_qext p st x outer st' x' g h) (deserGraphE_mext p st x outer st' x' g h)

/-! ### functions -/

theorem deserFInputsE_nstep (vt : List (Name × Info × SS)) : ∀ (ns : List Name) (st : Store) (x : Ext),
    ExtFresh st x → NStep st (deserFInputsE st x vt ns).1 x (deserFInputsE st x vt ns).2.1 vt []
  | [], st, x, hf => NStep.same hf rfl (fun _ => rfl)
  | n :: ns, st, x, hf => by
    simp only [deserFInputsE]
    have h1 : NStep st (newNamed st (eraseVT vt) n) x (x.newNamed vt [] st.nv n) vt [] :=
      NStep.one vt [] n hf (newNamed_nv _ _ _) (newNamed_name_self _ _ _) (fun d hd => newNamed_name_lt _ _ _ d hd)
    exact h1.trans (deserFInputsE_nstep vt ns _ _ h1.fresh)

theorem deserFInputsE_wf (vt : List (Name × Info × SS)) : ∀ (ns : List Name) (st : Store) (x : Ext),
    ExtWF x → ExtWF (deserFInputsE st x vt ns).2.1
  | [], _, _, h => h
  | n :: ns, st, x, h => by
    simp only [deserFInputsE]
    exact deserFInputsE_wf vt ns _ _ (h.newNamed _ _ _ _)

theorem deserFunctionE_wf (f : FuncE) (st : Store) (x : Ext) (st' : Store) (x' : Ext) (g : GraphT)
    (hw : ExtWF x) (h : deserFunctionE st x f = .ok (st', x', g)) : ExtWF x' := by
  simp only [deserFunctionE] at h
  have w1 := deserFInputsE_wf (vinfoTableE f.vinfo) f.inputs st x hw
  generalize deserFInputsE st x (vinfoTableE f.vinfo) f.inputs = r1 at h w1
  obtain ⟨st1, x1, ins⟩ := r1
  simp only at h w1
  split at h
  · simp at h
  · rename_i st2 x2 tbl2 h2
    have w2 := declareNodesE_wf _ _ _ _ _ _ _ _ _ w1 h2
    split at h
    · simp at h
    · rename_i st3 x3 tbl3 ns h3
      have w3 := deserNodesE_wf f.nodes st2 x2 tbl2 [] _ _ st3 x3 tbl3 ns w2 h3
      split at h
      · simp at h
      · simp only [Except.ok.injEq, Prod.mk.injEq] at h
        obtain ⟨_, rfl, _⟩ := h
        exact w3

theorem deserFuncsE_wf : ∀ (fs : List FuncE) (st : Store) (x : Ext) (d : List (FId × GraphT)) (st' : Store) (x' : Ext)
    (d' : List (FId × GraphT)), ExtWF x → deserFuncsE st x d fs = .ok (st', x', d') → ExtWF x'
  | [], st, x, d, st', x', d', hw, h => by
    simp only [deserFuncsE, Except.ok.injEq, Prod.mk.injEq] at h
    obtain ⟨_, rfl, _⟩ := h
    exact hw
  | f :: fs, st, x, d, st', x', d', hw, h => by
    simp only [deserFuncsE] at h
    split at h
    · simp at h
    · rename_i st1 x1 g h1
      exact deserFuncsE_wf fs st1 x1 _ st' x' d' (deserFunctionE_wf f st x st1 x1 g hw h1) h

/-- one function run: the extension state of the values allocated before is kept, the one beyond the final
    allocation counter stays fresh -/
theorem deserFunctionE_keep (f : FuncE) (st : Store) (x : Ext) (st' : Store) (x' : Ext) (g : GraphT)
    (hf : ExtFresh st x) (h : deserFunctionE st x f = .ok (st', x', g)) :
    ExtFresh st' x' ∧ st.nv ≤ st'.nv ∧ (∀ d, d < st.nv → x'.vmeta d = x.vmeta d) ∧
    (∀ d, d < st.nv → x'.quant d = x.quant d) := by
  simp only [deserFunctionE] at h
  have s1 := deserFInputsE_nstep (vinfoTableE f.vinfo) f.inputs st x hf
  generalize deserFInputsE st x (vinfoTableE f.vinfo) f.inputs = r1 at h s1
  obtain ⟨st1, x1, ins⟩ := r1
  simp only at h s1
  split at h
  · simp at h
  · rename_i st2 x2 tbl2 h2
    have s2 := s1.trans (declareNodesE_nstep _ _ _ _ _ _ _ _ _ s1.fresh h2)
    split at h
    · simp at h
    · rename_i st3 x3 tbl3 ns h3
      have q3 := deserNodesE_qext f.nodes st2 x2 tbl2 [] _ _ st3 x3 tbl3 ns h3
      have m3 := (deserNodesE_mext f.nodes st2 x2 tbl2 [] _ _ st3 x3 tbl3 ns h3).1
      split at h
      · simp at h
      · rename_i outs _
        simp only [Except.ok.injEq, Prod.mk.injEq] at h
        obtain ⟨rfl, rfl, _⟩ := h
        have c1 := (mkGraph_fst_counters st3 ins outs ns []).1
        refine ⟨?_, by rw [c1]; exact Nat.le_trans s2.le q3.1, fun d hd => ?_, fun d hd => ?_⟩
        · intro d hd
          rw [c1] at hd
          exact s2.fresh.ext q3 m3 d hd
        · rw [m3.2.1 d (Nat.lt_of_lt_of_le hd s2.le), s2.vmeta d hd]
        · rw [q3.2.1 d (Nat.lt_of_lt_of_le hd s2.le), s2.quant d hd]

end IrVerif.Scope

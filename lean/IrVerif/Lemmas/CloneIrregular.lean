/-
When does the scope walker (`wGraph`, Model/Clone.lean) answer `irregular`?  Exactly three events
produce that answer: a pointer that names no cell ("dangling pointer"), a node output that the value
map binds already when its node is cloned, initializer names that are not pairwise different.  This
file proves that there is no other reason, and that the first one is impossible on a heap all of
whose pointer fields name cells (`closedW`, a decidable predicate, true of every heap abstracted
from live Python objects).  Core Lean only.
-/
import IrVerif.Model.Clone2
namespace IrVerif.Clone
namespace Irr

def dang : String := "dangling pointer"
def outB : String := "node output is already bound in the value map"
def namesD : String := "initializer names not distinct"

/-- the reasons the walker may give for `irregular` on heap `w` -/
def S (w : World) (why : String) : Prop :=
  why = outB ∨ why = namesD ∨ (why = dang ∧ closedW w = false)

def IrrIn (w : World) {α : Type} (r : WRes α) : Prop := ∀ why, r = .irregular why → S w why

/-- an index the walker may read: in range whenever the heap is closed -/
def P (w : World) (i : Nat) : Prop := closedW w = true → i < w.length

variable {w : World}

theorem IrrIn.ok {α : Type} (a : α) : IrrIn w (WRes.ok a) := fun _ h => by cases h
theorem IrrIn.err {α : Type} (e : Err) : IrrIn w (WRes.err e : WRes α) := fun _ h => by cases h

theorem IrrIn.bind {α β : Type} {x : WRes α} {f : α → WRes β} (hx : IrrIn w x)
    (hf : ∀ a, x = .ok a → IrrIn w (f a)) : IrrIn w (x.bind f) := by
  cases x with
  | ok a => exact hf a rfl
  | err e => exact IrrIn.err e
  | irregular why => exact fun why' h => hx why' (by simpa [WRes.bind] using h)

theorem bind_ok {α β : Type} {x : WRes α} {f : α → WRes β} {b : β} (h : x.bind f = .ok b) :
    ∃ a, x = .ok a ∧ f a = .ok b := by
  cases x with
  | ok a => exact ⟨a, rfl, h⟩
  | err e => cases h
  | irregular why => cases h

theorem closed_ptrs (hcl : closedW w = true) {i : Nat} {c : Cell} (hc : w[i]? = some c) :
    ∀ p ∈ c.ptrs, p < w.length := by
  unfold closedW at hcl
  rw [List.all_eq_true] at hcl
  have := hcl c (List.mem_of_getElem? hc)
  rw [List.all_eq_true] at this
  intro p hp
  simpa using this p hp

theorem P.ptrs {i : Nat} {c : Cell} (hc : w[i]? = some c) : ∀ p ∈ c.ptrs, P w p :=
  fun p hp hcl => closed_ptrs hcl hc p hp

theorem irr_cellBind {α : Type} {k : Cell → WRes α} {i : Nat} (hP : P w i)
    (hk : ∀ c, w[i]? = some c → IrrIn w (k c)) : IrrIn w ((wCell w i).bind k) := by
  unfold wCell
  cases h : w[i]? with
  | some c => exact hk c h
  | none =>
    intro why hw
    cases hw
    refine .inr (.inr ⟨rfl, ?_⟩)
    cases hcl : closedW w with
    | false => rfl
    | true =>
      have := hP hcl
      rw [List.getElem?_eq_none_iff] at h
      omega

theorem cellBind_ok {α : Type} {k : Cell → WRes α} {i : Nat} {a : α} (h : (wCell w i).bind k = .ok a) :
    ∃ c, w[i]? = some c ∧ k c = .ok a := by
  unfold wCell at h
  cases hc : w[i]? with
  | none => rw [hc] at h; cases h
  | some c => rw [hc] at h; exact ⟨c, rfl, h⟩

/-- a reader: looks at one cell and never answers `irregular` itself -/
theorem irr_reader {α : Type} {k : Cell → WRes α} {i : Nat} (hP : P w i)
    (hk : ∀ c why, k c ≠ .irregular why) : IrrIn w ((wCell w i).bind k) :=
  irr_cellBind hP fun c _ why h => absurd h (hk c why)

theorem irr_wVal {v : Nat} (hP : P w v) : IrrIn w (wVal w v) :=
  irr_reader hP fun c why => by cases c <;> simp
theorem irr_wNodeCell {v : Nat} (hP : P w v) : IrrIn w (wNodeCell w v) :=
  irr_reader hP fun c why => by cases c <;> simp
theorem irr_wGraphCell {v : Nat} (hP : P w v) : IrrIn w (wGraphCell w v) :=
  irr_reader hP fun c why => by cases c <;> simp
theorem irr_wAttrCell {v : Nat} (hP : P w v) : IrrIn w (wAttrCell w v) :=
  irr_reader hP fun c why => by cases c <;> simp
theorem irr_wFuncCell {v : Nat} (hP : P w v) : IrrIn w (wFuncCell w v) :=
  irr_reader hP fun c why => by cases c <;> simp
theorem irr_wModelCell {v : Nat} (hP : P w v) : IrrIn w (wModelCell w v) :=
  irr_reader hP fun c why => by cases c <;> simp
theorem irr_wDict {v : Nat} (hP : P w v) : IrrIn w (wDict w v) :=
  irr_reader hP fun c why => by cases c <;> simp
theorem irr_wShape {v : Nat} (hP : P w v) : IrrIn w (wShape w v) :=
  irr_reader hP fun c why => by cases c <;> simp
theorem irr_wType {v : Nat} (hP : P w v) : IrrIn w (wType w v) :=
  irr_reader hP fun c why => by cases c <;> simp

theorem wVal_ok {v : Nat} {vs : ValueS} (h : wVal w v = .ok vs) : w[v]? = some (.val vs) := by
  obtain ⟨c, hc, hk⟩ := cellBind_ok h
  cases c <;> simp at hk
  subst hk; exact hc
theorem wNodeCell_ok {v : Nat} {vs : NodeS} (h : wNodeCell w v = .ok vs) : w[v]? = some (.node vs) := by
  obtain ⟨c, hc, hk⟩ := cellBind_ok h
  cases c <;> simp at hk
  subst hk; exact hc
theorem wGraphCell_ok {v : Nat} {vs : GraphS} (h : wGraphCell w v = .ok vs) : w[v]? = some (.graph vs) := by
  obtain ⟨c, hc, hk⟩ := cellBind_ok h
  cases c <;> simp at hk
  subst hk; exact hc
theorem wAttrCell_ok {v : Nat} {vs : AttrS} (h : wAttrCell w v = .ok vs) : w[v]? = some (.attr vs) := by
  obtain ⟨c, hc, hk⟩ := cellBind_ok h
  cases c <;> simp at hk
  subst hk; exact hc
theorem wFuncCell_ok {v : Nat} {vs : FuncS} (h : wFuncCell w v = .ok vs) : w[v]? = some (.func vs) := by
  obtain ⟨c, hc, hk⟩ := cellBind_ok h
  cases c <;> simp at hk
  subst hk; exact hc
theorem wModelCell_ok {v : Nat} {vs : ModelS} (h : wModelCell w v = .ok vs) : w[v]? = some (.model vs) := by
  obtain ⟨c, hc, hk⟩ := cellBind_ok h
  cases c <;> simp at hk
  subst hk; exact hc

theorem irr_wOptShape {o : Option Nat} (hP : ∀ i, o = some i → P w i) : IrrIn w (wOptShape w o) := by
  cases o with
  | none => exact IrrIn.ok _
  | some i => exact irr_wShape (hP i rfl)
theorem irr_wOptType {o : Option Nat} (hP : ∀ i, o = some i → P w i) : IrrIn w (wOptType w o) := by
  cases o with
  | none => exact IrrIn.ok _
  | some i => exact irr_wType (hP i rfl)

theorem irr_wFold {α : Type} {f : α → Sc → WRes Sc} : ∀ {l : List α}, (∀ a ∈ l, ∀ A, IrrIn w (f a A)) →
    ∀ A, IrrIn w (wFold f l A)
  | [], _, A => IrrIn.ok A
  | a :: as, h, A => by
    unfold wFold
    exact IrrIn.bind (h a List.mem_cons_self A) fun A1 _ =>
      irr_wFold (fun b hb => h b (List.mem_cons_of_mem _ hb)) A1

theorem irr_wAll {α : Type} {f : α → WRes Unit} : ∀ {l : List α}, (∀ a ∈ l, IrrIn w (f a)) → IrrIn w (wAll f l)
  | [], _ => IrrIn.ok ()
  | a :: as, h => by
    unfold wAll
    exact IrrIn.bind (h a List.mem_cons_self) fun _ _ => irr_wAll (fun b hb => h b (List.mem_cons_of_mem _ hb))

/-- the pointer fields of a value cell the walker follows -/
theorem val_ptrs {v : Nat} {vs : ValueS} (hc : w[v]? = some (.val vs)) :
    (∀ i, vs.shape = some i → P w i) ∧ (∀ i, vs.type = some i → P w i) ∧ P w vs.props ∧ P w vs.mstore := by
  have hp := P.ptrs hc
  refine ⟨fun i hi => hp i ?_, fun i hi => hp i ?_, hp _ ?_, hp _ ?_⟩ <;> simp [Cell.ptrs, *]

theorem irr_wCloneOrGet {v : Nat} (hP : P w v) (A : Sc) : IrrIn w (wCloneOrGet w v A) := by
  unfold wCloneOrGet
  split
  · exact IrrIn.ok _
  · refine IrrIn.bind (irr_wVal hP) fun vs hvs => ?_
    obtain ⟨h1, h2, h3, h4⟩ := val_ptrs (wVal_ok hvs)
    refine IrrIn.bind (irr_wOptShape h1) fun _ _ => ?_
    refine IrrIn.bind (irr_wOptType h2) fun _ _ => ?_
    refine IrrIn.bind (irr_wDict h3) fun _ _ => ?_
    exact IrrIn.bind (irr_wDict h4) fun _ _ => IrrIn.ok _

theorem irr_wOutput {o : Nat} (hP : P w o) (A : Sc) : IrrIn w (wOutput w o A) := by
  unfold wOutput
  refine IrrIn.bind (irr_wVal hP) fun vs hvs => ?_
  obtain ⟨h1, h2, h3, h4⟩ := val_ptrs (wVal_ok hvs)
  refine IrrIn.bind (irr_wOptShape h1) fun _ _ => ?_
  refine IrrIn.bind (irr_wOptType h2) fun _ _ => ?_
  refine IrrIn.bind (irr_wDict h3) fun _ _ => ?_
  refine IrrIn.bind (irr_wDict h4) fun _ _ => ?_
  split
  · intro why h
    cases h
    exact .inl rfl
  · exact IrrIn.ok _

theorem irr_wMapInputs (allow : Bool) (A : Sc) : ∀ l : List (Option Nat), IrrIn w (wMapInputs allow A l)
  | [] => IrrIn.ok ()
  | none :: rest => by unfold wMapInputs; exact irr_wMapInputs allow A rest
  | some v :: rest => by
    unfold wMapInputs
    split
    · exact irr_wMapInputs allow A rest
    · split
      · split
        · exact IrrIn.err _
        · exact irr_wMapInputs allow A rest
      · exact IrrIn.err _

theorem irr_wPassthrough (A : Sc) : ∀ l : List (Option Nat), (∀ v, some v ∈ l → P w v) →
    IrrIn w (wPassthrough w A l)
  | [], _ => IrrIn.ok ()
  | none :: rest, h => by
    unfold wPassthrough
    exact irr_wPassthrough A rest fun v hv => h v (List.mem_cons_of_mem _ hv)
  | some v :: rest, h => by
    unfold wPassthrough
    have hr := irr_wPassthrough A rest fun v hv => h v (List.mem_cons_of_mem _ hv)
    split
    · exact hr
    · exact IrrIn.bind (irr_wVal (h v List.mem_cons_self)) fun _ _ => hr

theorem irr_wAttr {rec : Nat → Sc → WRes Sc} (hrec : ∀ g A, P w g → IrrIn w (rec g A)) {a : Nat}
    (hP : P w a) (A : Sc) : IrrIn w (wAttr w rec a A) := by
  unfold wAttr
  refine IrrIn.bind (irr_wAttrCell hP) fun as has => ?_
  have hp := P.ptrs (wAttrCell_ok has)
  cases hv : as.v with
  | plain p => exact IrrIn.ok _
  | ref p => exact IrrIn.ok _
  | graph g => exact hrec g A (hp g (by simp [Cell.ptrs, hv]))
  | graphs gs => exact irr_wFold (fun g hg A => hrec g A (hp g (by simp [Cell.ptrs, hv, hg]))) A

theorem irr_wNode {allow : Bool} {rec : Nat → Sc → WRes Sc} (hrec : ∀ g A, P w g → IrrIn w (rec g A))
    {n : Nat} (hP : P w n) (A : Sc) : IrrIn w (wNode w allow rec n A) := by
  unfold wNode
  refine IrrIn.bind (irr_wNodeCell hP) fun ns hns => ?_
  have hp := P.ptrs (wNodeCell_ok hns)
  refine IrrIn.bind (irr_wMapInputs allow A ns.inputs) fun _ _ => ?_
  refine IrrIn.bind (irr_wFold (fun ka hka A => irr_wAttr hrec (hp ka.2 ?_) A) A) fun A1 _ => ?_
  · simp only [Cell.ptrs, List.mem_append, List.mem_map]
    exact .inl (.inr ⟨ka, hka, rfl⟩)
  refine IrrIn.bind (irr_wDict (hp _ (by simp [Cell.ptrs]))) fun _ _ => ?_
  refine IrrIn.bind (irr_wDict (hp _ (by simp [Cell.ptrs]))) fun _ _ => ?_
  refine IrrIn.bind (irr_wFold (fun o ho A => irr_wOutput (hp o (by simp [Cell.ptrs, ho])) A) A1) fun A2 _ => ?_
  refine IrrIn.bind ?_ fun _ _ => ?_
  · split
    · exact IrrIn.err _
    · exact IrrIn.ok _
  refine IrrIn.bind (irr_wPassthrough A ns.inputs fun v hv => hp v ?_) fun _ _ => IrrIn.ok _
  simp only [Cell.ptrs, List.mem_append, List.mem_filterMap]
  exact .inl (.inl (.inl ⟨some v, hv, rfl⟩))

theorem irr_wAllOutputs : ∀ l : List Nat, (∀ n ∈ l, P w n) → IrrIn w (wAllOutputs w l)
  | [], _ => IrrIn.ok _
  | n :: ns, h => by
    unfold wAllOutputs
    refine IrrIn.bind (irr_wNodeCell (h n List.mem_cons_self)) fun _ _ => ?_
    exact IrrIn.bind (irr_wAllOutputs ns fun m hm => h m (List.mem_cons_of_mem _ hm)) fun _ _ => IrrIn.ok _

theorem irr_ite {α : Type} {c : Prop} [Decidable c] {x y : WRes α} (hx : IrrIn w x) (hy : IrrIn w y) :
    IrrIn w (if c then x else y) := by split <;> assumption

theorem irr_wMkGraph {g0 : Nat} {gs : GraphS} (hc : w[g0]? = some (.graph gs)) (A : Sc) :
    IrrIn w (wMkGraph w gs A) := by
  have hp := P.ptrs hc
  unfold wMkGraph
  refine IrrIn.bind (irr_wAll fun v _ => ?_) fun _ _ => ?_
  · split
    · exact IrrIn.err _
    · exact IrrIn.ok _
  refine IrrIn.bind ?_ fun _ _ => ?_
  · split
    · exact IrrIn.ok _
    · intro why h
      cases h
      exact .inr (.inl rfl)
  refine IrrIn.bind (irr_wDict (hp _ (by simp [Cell.ptrs]))) fun _ _ => ?_
  refine IrrIn.bind (irr_wDict (hp _ (by simp [Cell.ptrs]))) fun _ _ => ?_
  refine IrrIn.bind (irr_wAll fun v _ => irr_ite (IrrIn.err _) (irr_ite (IrrIn.err _) (IrrIn.ok _))) fun _ _ => ?_
  refine IrrIn.bind (irr_wAll fun v _ => irr_ite (IrrIn.err _) (IrrIn.ok _)) fun _ _ => ?_
  refine IrrIn.bind (irr_wAll fun v _ => irr_ite (IrrIn.err _) (IrrIn.ok _)) fun _ _ => ?_
  refine IrrIn.bind (irr_wAll fun v _ => irr_ite (IrrIn.err _) (irr_ite (IrrIn.err _) (IrrIn.ok _))) fun _ _ => ?_
  refine IrrIn.bind (irr_wAll fun v _ => irr_ite (IrrIn.err _) (IrrIn.ok _)) fun _ _ => ?_
  refine IrrIn.bind (irr_wAll fun n hn => ?_) fun _ _ => IrrIn.ok _
  refine IrrIn.bind (irr_wNodeCell (hp n (by simp [Cell.ptrs, hn]))) fun _ _ => ?_
  exact irr_wAll fun o _ => irr_ite (IrrIn.err _) (IrrIn.ok _)

theorem irr_wGraphStep {allow : Bool} {rec : Nat → Sc → WRes Sc} (hrec : ∀ g A, P w g → IrrIn w (rec g A))
    {g : Nat} (hP : P w g) (A : Sc) : IrrIn w (wGraphStep w allow rec g A) := by
  unfold wGraphStep
  refine IrrIn.bind (irr_wGraphCell hP) fun gs hgs => ?_
  have hc := wGraphCell_ok hgs
  have hp := P.ptrs hc
  refine IrrIn.bind (irr_wFold (fun v hv A => irr_wCloneOrGet (hp v (by simp [Cell.ptrs, hv])) A) A) fun A1 _ => ?_
  refine IrrIn.bind (irr_wFold (fun v hv A => irr_wCloneOrGet (hp v ?_) A) A1) fun A2 _ => ?_
  · simp only [Cell.ptrs, List.mem_append]
    exact .inl (.inl (.inr hv))
  refine IrrIn.bind (irr_wAllOutputs gs.nodes fun n hn => hp n (by simp [Cell.ptrs, hn])) fun outs _ => ?_
  refine IrrIn.bind (irr_wFold (fun n hn A => irr_wNode hrec (hp n (by simp [Cell.ptrs, hn])) A) _) fun A4 _ => ?_
  refine IrrIn.bind (irr_wAll fun v _ => irr_ite (IrrIn.ok _) (IrrIn.err _)) fun _ _ => ?_
  exact irr_wMkGraph hc A4

theorem irr_wGraph (allow : Bool) : ∀ (fuel g : Nat) (A : Sc), P w g → IrrIn w (wGraph w allow fuel g A)
  | 0, _, _, _ => IrrIn.err _
  | f + 1, g, A, hP => irr_wGraphStep (fun g' A' hP' => irr_wGraph allow f g' A' hP') hP A

theorem irr_funcVerdict (fuel f : Nat) (hP : P w f) : IrrIn w (funcVerdict fuel w f) := by
  unfold funcVerdict
  refine IrrIn.bind (irr_wFuncCell hP) fun fs hfs => ?_
  have hp := P.ptrs (wFuncCell_ok hfs)
  refine IrrIn.bind (irr_wGraph false fuel fs.graph {} (hp _ (by simp [Cell.ptrs]))) fun A1 _ => ?_
  refine irr_wFold (fun ka hka A => ?_) A1
  have hPa : P w ka.2 := hp ka.2 (by
    simp only [Cell.ptrs, List.mem_cons, List.mem_map]
    exact .inr ⟨ka, hka, rfl⟩)
  refine IrrIn.bind (irr_wAttrCell hPa) fun _ _ => ?_
  exact irr_wAttr (fun g A hg => irr_wGraph false fuel g A hg) hPa A

theorem irr_modelVerdict (fuel m : Nat) (hP : P w m) : IrrIn w (modelVerdict fuel w m) := by
  unfold modelVerdict
  refine IrrIn.bind (irr_wModelCell hP) fun ms hms => ?_
  have hp := P.ptrs (wModelCell_ok hms)
  refine IrrIn.bind (irr_wGraph false fuel ms.graph {} (hp _ (by simp [Cell.ptrs]))) fun _ _ => ?_
  refine IrrIn.bind (irr_wAll fun f hf => ?_) fun _ _ => ?_
  · exact IrrIn.bind (irr_funcVerdict fuel f (hp f (by simp [Cell.ptrs, hf]))) fun _ _ => IrrIn.ok _
  · exact irr_wDict (hp _ (by simp [Cell.ptrs]))

end Irr
end IrVerif.Clone

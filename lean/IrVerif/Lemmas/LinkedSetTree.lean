/-
The rank function that `Ranked` / `StaticRanked` (Lemmas/LinkedSetRec.lean) ask for, derived from
the decidable predicates `RWorld.acyclic` / `RWorld.acyclicStatic` / `RWorld.homedOk` of the model.
-/
import IrVerif.Lemmas.LinkedSetRec
namespace IrVerif.LinkedSet

theorem foldr_max_ge (f : Nat → Nat) : ∀ (l : List Nat) (h : Nat), h ∈ l →
    f h + 1 ≤ l.foldr (fun h m => max (f h + 1) m) 0
  | [], _, hm => by cases hm
  | x :: l, h, hm => by
      simp only [List.foldr_cons]
      rcases List.mem_cons.1 hm with rfl | hm
      · exact Nat.le_max_left _ _
      · exact Nat.le_trans (foldr_max_ge f l h hm) (Nat.le_max_right _ _)

/-- one more unit of fuel never lowers the height -/
theorem hgtG_succ_ge (kids : Nat → List Nat) (k g h : Nat) (hk : h ∈ kids g) :
    hgtG kids k h + 1 ≤ hgtG kids (k + 1) g := by
  simp only [hgtG]
  exact foldr_max_ge (hgtG kids k) (kids g) h hk

/-- a graph without subgraphs has height 0 whatever the fuel -/
theorem hgtG_leaf (kids : Nat → List Nat) (g : Nat) (hg : kids g = []) : ∀ k, hgtG kids k g = 0
  | 0 => rfl
  | k + 1 => by simp [hgtG, hg]

/-- **the height is a rank**: where the height is stable, it strictly decreases along the
    nesting -/
theorem hgtG_rank (kids : Nat → List Nat) (n : Nat) (gs : List Nat) (hs : stableG kids n gs = true)
    (hall : ∀ g, kids g ≠ [] → g ∈ gs) (g h : Nat) (hk : h ∈ kids g) :
    hgtG kids n h < hgtG kids n g := by
  have hg : g ∈ gs := hall g (by intro e; rw [e] at hk; cases hk)
  have := List.all_eq_true.1 hs g hg
  have e : hgtG kids n g = hgtG kids (n + 1) g := by simpa using this
  rw [e]
  exact hgtG_succ_ge kids n g h hk

theorem kidsOf_mem {w : RWorld} {d : Dir} {vs : List Nat} {v h : Nat} (hv : v ∈ vs)
    (hr : w.recurse v = true) (hh : h ∈ w.visit d v) : h ∈ w.kidsOf d vs := by
  simp only [RWorld.kidsOf, List.mem_flatMap, List.mem_filter]
  exact ⟨v, ⟨hv, hr⟩, hh⟩

theorem setOf_ge_empty (w : RWorld) (g : Nat) (hg : w.sets.length ≤ g) : w.setOf g = empty := by
  simp [RWorld.setOf, List.getD, List.getElem?_eq_none hg]

theorem toList_empty : toList empty = [] := by decide

/-- the dynamic nesting is ranked by the height when no graph is nested in itself -/
theorem ranked_of_acyclic {w : RWorld} {d : Dir} (ha : w.acyclic d = true) : Ranked w d (w.hgt d) := by
  intro g v hv hrec h hh
  have hk : h ∈ w.kids d g := kidsOf_mem hv hrec hh
  refine hgtG_rank (w.kids d) w.sets.length (List.range w.sets.length) ha ?_ g h hk
  intro g' hne
  apply List.mem_range.2
  apply Nat.lt_of_not_le
  intro hle
  apply hne
  simp [RWorld.kids, RWorld.kidsOf, setOf_ge_empty w g' hle, toList_empty]

theorem visit_ne_nil_mem {w : RWorld} {d : Dir} {v h : Nat} (hh : h ∈ w.visit d v) :
    v ∈ w.attrs.map (·.1) := by
  cases hl : w.attrs.lookup v with
  | none => simp [RWorld.visit, RWorld.attrsOf, hl] at hh
  | some as =>
    have := List.lookup_eq_some_iff.1 hl
    obtain ⟨l1, l2, e, _⟩ := this
    rw [e]; simp

/-- the static nesting is ranked by its height when it has no cycle -/
theorem static_ranked_of_acyclic {w : RWorld} {d : Dir} {home : Nat → Nat}
    (ha : w.acyclicStatic d home = true) : StaticRanked w d (w.shgt d home) home := by
  intro v hrec h hh
  have hv := visit_ne_nil_mem hh
  have hk : h ∈ w.skids d home (home v) :=
    kidsOf_mem (List.mem_filter.2 ⟨hv, by simp⟩) hrec hh
  refine hgtG_rank (w.skids d home) w.attrs.length (w.attrs.map (fun (p : Nat × List Attr) => home p.1)) ha ?_ _ h hk
  intro g' hne
  simp only [RWorld.skids, RWorld.kidsOf] at hne
  have : ∃ x, x ∈ ((w.attrs.map (·.1)).filter (fun v => home v == g')) := by
    cases hx : (w.attrs.map (·.1)).filter (fun v => home v == g') with
    | nil => simp [hx] at hne
    | cons x _ => exact ⟨x, by simp⟩
  obtain ⟨x, hx⟩ := this
  obtain ⟨hx1, hx2⟩ := List.mem_filter.1 hx
  obtain ⟨p, hp, rfl⟩ := List.mem_map.1 hx1
  exact List.mem_map.2 ⟨p, hp, by simpa using hx2⟩

theorem homed_of_ok {w : RWorld} {home : Nat → Nat} (h : w.homedOk home = true) : Homed w home := by
  intro g v hv
  by_cases hg : g < w.sets.length
  · have := List.all_eq_true.1 h g (List.mem_range.2 hg)
    have := List.all_eq_true.1 this v hv
    simpa using this
  · rw [setOf_ge_empty w g (Nat.le_of_not_lt hg), toList_empty] at hv
    cases hv

theorem hgtG_le (kids : Nat → List Nat) : ∀ k g, hgtG kids k g ≤ k
  | 0, _ => Nat.le_refl _
  | k + 1, g => by
      simp only [hgtG]
      generalize kids g = l
      induction l with
      | nil => simp
      | cons x l ih =>
        simp only [List.foldr_cons]
        exact Nat.max_le.2 ⟨Nat.succ_le_succ (hgtG_le kids k x), ih⟩

end IrVerif.LinkedSet

/-
Every model the extended deserializer returns satisfies the certificate of the extension state `extG`
(`Lemmas/ScopeExtRTDefs.lean`), hence `ReloadableE`.

`ext.quant v` is written once, by `Ext.annotate qt v n` when `v` is created, with the table `qt` of the graph whose
run creates `v`; so every value bound in a graph's own scope table carries `quantOf qt key` (`QT`,
`Lemmas/ScopeExtDeserQ.lean`), the graph outputs that no name of the table binds and the empty-named node outputs
are created beyond an allocation counter at which the annotations are fresh (`QFresh`) and are never annotated.
The tables of the certificate are the tables of the run (`deserGraph_tables`, `Lemmas/ScopeExtDeserTbl.lean`,
through the erasure of the extended run).
-/
import IrVerif.Lemmas.ScopeExtDeserQ
import IrVerif.Lemmas.ScopeExtDeserTbl
namespace IrVerif.Scope

/-! ### the certificate does not look at `node.graph` -/

theorem extNs_setGraph (V : Nat → ValueS) (X : Ext) (outer : List Table) (gid : Nat) : ∀ (ns : List NodeT) (T : Table),
    extNs V X outer T (ns.map (NodeT.setGraph gid)) = extNs V X outer T ns := by
  intro ns
  induction ns with
  | nil => intro T; rfl
  | cons n ns ih =>
    intro T
    obtain ⟨i, g, a, b, c⟩ := n
    simp only [List.map_cons, NodeT.setGraph, extNs, extN, replN, ih]

/-! ### graph outputs, and equally named role values -/

theorem replOuts_cases (V : Nat → ValueS) (T : Table) : ∀ (outs : List Nat), (replOuts V T outs).ok →
    ∀ v ∈ outs, T.lookup (nm V v) = some v ∨ (T.lookup (nm V v) = none ∧ v ∈ (replOuts V T outs).new)
  | [], _, v, hv => by simp at hv
  | a :: r, hok, v, hv => by
    simp only [List.mem_cons] at hv
    cases hl : T.lookup (nm V a) with
    | some u =>
      simp only [replOuts, hl] at hok ⊢
      rcases hv with rfl | hv
      · left; rw [hl, hok.2.1]
      · exact replOuts_cases V T r hok.2.2 v hv
    | none =>
      simp only [replOuts, hl] at hok ⊢
      rcases hv with rfl | hv
      · right; exact ⟨hl, by simp⟩
      · rcases replOuts_cases V T r hok.2 v hv with h | ⟨h1, h2⟩
        · left; exact h
        · right; exact ⟨h1, List.mem_cons_of_mem _ h2⟩

/-- values that are bound in the table (which holds the annotation of each key) or whose name the table does not
    bind and that carry no annotation: equal names, equal annotations -/
theorem qc_of_roles (V : Nat → ValueS) (X : Ext) (qt : List (Name × SS)) (T : Table) (L : List Nat)
    (hN : NamedV V T) (hQ : QT X qt T)
    (hR : ∀ a ∈ L, InT T a ∨ (T.lookup (nm V a) = none ∧ X.quant a = none)) :
    ∀ a ∈ L, ∀ b ∈ L, (V a).name = (V b).name → X.quant a = X.quant b := by
  intro a ha b hb hab
  have hnm : nm V a = nm V b := by simp only [nm, hab]
  rcases hR a ha with ⟨k, hk⟩ | ⟨h1, h2⟩ <;> rcases hR b hb with ⟨k', hk'⟩ | ⟨h1', h2'⟩
  · have qa := hQ _ hk
    have qb := hQ _ hk'
    simp only at qa qb
    rw [qa, qb, ← hN.nm hk, ← hN.nm hk', hnm]
  · exfalso
    have := hN.nm hk
    rw [hnm] at this
    rw [this] at h1'
    exact lookup_ne_none_of_mem _ _ _ hk h1'
  · exfalso
    have := hN.nm hk'
    rw [← hnm] at this
    rw [this] at h1
    exact lookup_ne_none_of_mem _ _ _ hk' h1
  · rw [h2, h2']

theorem mem_inputTable_zip {is : List VInfoE} {ins : List Nat} {e : Name × Nat}
    (h : e ∈ inputTable (is.map VInfoE.erase) ins) : e ∈ (is.map (·.name)).zip ins := by
  simp only [inputTable, inputNames_erase, List.mem_reverse] at h
  exact h

/-! ### the extended run satisfies the certificate -/

mutual
theorem deser_ext_graph :
    ∀ (p : GraphE) (st : Store) (x : Ext) (outer : List Table) (st' : Store) (x' : Ext) (g : GraphT),
      Fresh st → TablesLt st outer → (∀ T ∈ outer, Named st T) → QFresh st.nv x →
      deserGraphE st x outer p = .ok (st', x', g) →
      ∀ (V : Nat → ValueS) (X : Ext), NamesAgree V st' → (∀ v, st.nv ≤ v → v < st'.nv → CellAgree V st' v) →
        (∀ d, d < st'.nv → X.quant d = x'.quant d) → extG V X outer g
  | .mk inputs inits vinfo nodes outputs quant, st, x, outer, st', x', g, hf, ho, hon, hq, h, V, X, hV, hC, hX => by
    simp only [deserGraphE] at h
    -- inputs
    obtain ⟨i1, i2⟩ := deserInputsE_erase (quantTable quant) inputs st x
    obtain ⟨a1, b1⟩ := deserInputsE_q (quantTable quant) inputs st x
    have c1 := b1 hq
    have ok1 := inputTable_ok st (inputs.map VInfoE.erase)
    rw [← i1, ← i2] at ok1
    generalize deserInputsE st x (quantTable quant) inputs = rI at h i1 i2 a1 c1 ok1
    obtain ⟨st1, x1, ins⟩ := rI
    simp only at h i1 i2 a1 c1 ok1
    have h1 : deserInputs st (inputs.map VInfoE.erase) = (st1, ins) := Prod.ext i1.symm i2.symm
    have hq1 : QT x1 (quantTable quant) (inputTable (inputs.map VInfoE.erase) ins) :=
      fun e he => c1 e (mem_inputTable_zip he)
    -- initializers
    obtain ⟨j1, j2, j3⟩ := deserInitsE_erase (vinfoTableE vinfo) (quantTable quant) inits st1 x1
      (inputTable (inputs.map VInfoE.erase) ins)
    obtain ⟨a2, b2⟩ := deserInitsE_q (vinfoTableE vinfo) (quantTable quant) inits st1 x1
      (inputTable (inputs.map VInfoE.erase) ins)
    have c2 := b2 (hq.ext a1) ok1.lt hq1
    generalize deserInitsE st1 x1 (inputTable (inputs.map VInfoE.erase) ins) (vinfoTableE vinfo) (quantTable quant)
      inits = rA at h j1 j2 j3 a2 c2
    obtain ⟨st2, x2, tbl2, iv⟩ := rA
    simp only at h j1 j2 j3 a2 c2
    have h2 : deserInits st1 (inputTable (inputs.map VInfoE.erase) ins) (vinfoTable (vinfo.map VInfoE.erase)) inits =
        (st2, tbl2, iv) := by
      rw [← eraseVT_vinfoTableE]
      exact Prod.ext j1.symm (Prod.ext j2.symm j3.symm)
    split at h
    · simp at h
    · rename_i st3 x3 tbl3 h3
      have e3 := declareNodesE_erase (vinfoTableE vinfo) (quantTable quant) nodes st2 x2 tbl2
      rw [h3, eraseVT_vinfoTableE] at e3
      simp only [dropX] at e3
      obtain ⟨a3, b3⟩ := declareNodesE_q _ _ _ _ _ _ _ _ _ h3
      have c3 := b3 (hq.ext (a1.trans a2)) c2.2 c2.1
      split at h
      · simp at h
      · rename_i st4 x4 tbl4 ns h4
        have e4 := deserNodesE_erase nodes st3 x3 tbl3 outer (vinfoTableE vinfo) (quantTable quant)
        rw [h4, eraseVT_vinfoTableE] at e4
        simp only [dropX] at e4
        have hq3 : QFresh st3.nv x3 := hq.ext ((a1.trans a2).trans a3)
        have a4 := deserNodesE_qext nodes st3 x3 tbl3 outer _ _ st4 x4 tbl4 ns h4
        have c4 := deserNodesE_qt nodes st3 x3 tbl3 outer _ _ st4 x4 tbl4 ns hq3 c3.2 c3.1 h4
        have hq4 : QFresh st4.nv x4 := hq3.ext a4
        -- outputs and the graph object
        obtain ⟨o1, o2⟩ := deserOutputsE_erase tbl4 outputs st4 x4
        obtain ⟨a5, b5⟩ := deserOutputsE_q tbl4 outputs st4 x4
        generalize deserOutputsE st4 x4 tbl4 outputs = rO at h o1 o2 a5 b5
        obtain ⟨st5, x5, outs⟩ := rO
        simp only [Except.ok.injEq, Prod.mk.injEq] at h o1 o2 a5 b5
        obtain ⟨rfl, rfl, rfl⟩ := h
        have h5 : deserOutputs st4 tbl4 (outputs.map VInfoE.erase) = (st5, outs) := Prod.ext o1.symm o2.symm
        have GT := deserGraph_tables (inputs.map VInfoE.erase) inits (vinfo.map VInfoE.erase) (eraseNs nodes)
          (outputs.map VInfoE.erase) st outer hf ho hon st1 ins h1 st2 tbl2 iv h2 st3 tbl3 e3.symm st4 tbl4 ns e4.symm
          st5 outs h5 V hV hC
        rw [(mkGraph_fst_counters st5 ins outs ns iv).1] at hX
        have hX4 : ∀ d, d < st5.nv → X.quant d = x4.quant d := fun d hd => by rw [hX d hd, b5]
        have hQ4 : QT X (quantTable quant) tbl4 :=
          c4.1.of_eq (fun e he => hX4 e.2 (Nat.lt_of_lt_of_le (c4.2 e he) a5))
        have hnew : ∀ v ∈ (replOuts V tbl4 outs).new, X.quant v = none := fun v hv => by
          obtain ⟨hge, hlt⟩ := GT.outs_new.2 v hv
          rw [hX4 v hlt]
          exact hq4 v hge
        rw [mkGraph_snd]
        simp only [extG, qcRoles, flatMap_liveOuts_setGraph, replNs_setGraph, extNs_setGraph, GT.t1, GT.t2, GT.t3,
          GT.t4]
        refine ⟨?_, hnew, ?_⟩
        · apply qc_of_roles V X (quantTable quant) tbl4 _ GT.named4 hQ4
          intro a ha
          simp only [List.mem_append] at ha
          rcases ha with ((ha | ha) | ha) | ha
          · exact .inl (GT.ins_in a ha)
          · simp only [List.mem_map] at ha
            obtain ⟨e, he, rfl⟩ := ha
            exact .inl (GT.inits_in e he)
          · rw [GT.live] at ha
            exact .inl (GT.decl_in a ha)
          · rcases replOuts_cases V tbl4 outs GT.outs_ok a ha with hl | ⟨hl, hn⟩
            · exact .inl ⟨_, lookup_mem _ _ _ hl⟩
            · exact .inr ⟨hl, hnew a hn⟩
        · exact deser_ext_nodes nodes st3 x3 tbl3 outer (vinfoTableE vinfo) (quantTable quant) st.nv st4 x4 tbl4 ns
            GT.f3 GT.ok3 GT.ho3 GT.le3 GT.n3 GT.hon3 hq3 h4 GT.hdecl V X GT.hV4 GT.hCN
            (fun d hd => hX4 d (Nat.lt_of_lt_of_le hd a5))
theorem deser_ext_nodes :
    ∀ (nps : List NodeE) (st : Store) (x : Ext) (top : Table) (outer : List Table) (vt : List (Name × Info × SS))
      (qt : List (Name × SS)) (b : Nat) (st' : Store) (x' : Ext) (top' : Table) (nts : List NodeT),
      Fresh st → TblOK st b top → TablesLt st outer → b ≤ st.nv → Named st top → (∀ T ∈ outer, Named st T) →
      QFresh st.nv x → deserNodesE st x top outer vt qt nps = .ok (st', x', top', nts) →
      (∀ n ∈ eraseNs nps, ∀ y ∈ n.outputs, y ≠ "" → ∃ u, top.lookup y = some u) →
      ∀ (V : Nat → ValueS) (X : Ext), NamesAgree V st' →
        (∀ v, st.nv ≤ v → v < st'.nv → v ∉ top'.map (·.2) → CellAgree V st' v) →
        (∀ d, d < st'.nv → X.quant d = x'.quant d) → extNs V X outer top nts
  | [], st, x, top, outer, vt, qt, b, st', x', top', nts, _, _, _, _, _, _, _, h, _, V, X, _, _, _ => by
    simp only [deserNodesE, Except.ok.injEq, Prod.mk.injEq] at h
    obtain ⟨_, _, _, rfl⟩ := h
    trivial
  | n :: nps, st, x, top, outer, vt, qt, b, st', x', top', nts, hf, hok, ho, hb, hn, hon, hq, h, hdecl, V, X, hV, hC,
      hX => by
    simp only [deserNodesE] at h
    split at h
    · simp at h
    · rename_i st1 x1 top1 nt h1
      split at h
      · simp at h
      · rename_i st2 x2 top2 nts' h2
        simp only [Except.ok.injEq, Prod.mk.injEq] at h
        obtain ⟨rfl, rfl, rfl, rfl⟩ := h
        simp only [eraseNs, List.mem_cons, forall_eq_or_imp] at hdecl
        have e1 := deserNodeE_erase n st x top outer vt qt
        rw [h1] at e1
        simp only [dropX] at e1
        have e2 := deserNodesE_erase nps st1 x1 top1 outer vt qt
        rw [h2] at e2
        simp only [dropX] at e2
        obtain ⟨f1, m1, ok1, stb1⟩ := deserNode_struct _ st top outer _ b st1 top1 nt hf hok ho hb e1.symm
        obtain ⟨_, n1⟩ := deserNode_tree _ st top outer _ b st1 top1 nt hf hok ho hb hn e1.symm
        obtain ⟨_, m2, _, stb2⟩ := deserNodes_struct _ st1 top1 outer _ b st2 top2 nts' f1 ok1
          (ho.mono m1.nv_le) (Nat.le_trans hb m1.nv_le) e2.symm
        have p2 := deserNodes_prim2 st1.nv _ st1 top1 outer _ b st2 top2 nts' f1 ok1 (ho.mono m1.nv_le)
          (Nat.le_trans hb m1.nv_le) (Nat.le_refl _) e2.symm
        have hV1 : NamesAgree V st1 := fun v hv => by rw [hV v (Nat.lt_of_lt_of_le hv m2.nv_le), m2.names v hv]
        have hon1 : ∀ T ∈ outer, Named st1 T := fun T hT => named_mono (hon T hT) (ho T hT) m1.names
        have hC1 : ∀ v, st.nv ≤ v → v < st1.nv → v ∉ top1.map (·.2) → CellAgree V st1 v := fun v hge hlt hnt => by
          have hnt' : v ∉ top2.map (·.2) := by
            intro hm
            simp only [List.mem_map] at hm
            obtain ⟨e, he, rfl⟩ := hm
            rcases stb2.grow e he with h' | h'
            · exact hnt (List.mem_map_of_mem h')
            · omega
          have := hC v hge (Nat.lt_of_lt_of_le hlt m2.nv_le) hnt'
          rw [CellAgree, (p2.cell v hlt).1, (p2.cell v hlt).2] at this
          exact this
        have q2 := deserNodesE_qext nps st1 x1 top1 outer vt qt st2 x2 top2 nts' h2
        have hX1 : ∀ d, d < st1.nv → X.quant d = x1.quant d := fun d hd => by
          rw [hX d (Nat.lt_of_lt_of_le hd q2.1), q2.2.1 d hd]
        obtain ⟨a1, _, _, _⟩ := deser_repl_node _ st top outer _ b st1 top1 nt hf hok ho hb hn hon e1.symm
          hdecl.1 V hV1 hC1
        have r1 := deser_ext_node n st x top outer vt qt b st1 x1 top1 nt hf hok ho hb hn hon hq h1 hdecl.1 V X hV1
          hC1 hX1
        have r2 := deser_ext_nodes nps st1 x1 top1 outer vt qt b st2 x2 top2 nts' f1 ok1 (ho.mono m1.nv_le)
          (Nat.le_trans hb m1.nv_le) n1 hon1 (hq.ext (deserNodeE_qext n st x top outer vt qt st1 x1 top1 nt h1)) h2
          (fun n' hn' y hy hne => by
            obtain ⟨u, hu⟩ := hdecl.2 n' hn' y hy hne
            exact ⟨u, stb1.lookup y u hu⟩)
          V X hV (fun v hge hlt hnt => hC v (Nat.le_trans m1.nv_le hge) hlt hnt) hX
        simp only [extNs, a1]
        exact ⟨r1, r2⟩
theorem deser_ext_node :
    ∀ (n : NodeE) (st : Store) (x : Ext) (top : Table) (outer : List Table) (vt : List (Name × Info × SS))
      (qt : List (Name × SS)) (b : Nat) (st' : Store) (x' : Ext) (top' : Table) (nt : NodeT),
      Fresh st → TblOK st b top → TablesLt st outer → b ≤ st.nv → Named st top → (∀ T ∈ outer, Named st T) →
      QFresh st.nv x → deserNodeE st x top outer vt qt n = .ok (st', x', top', nt) →
      (∀ y ∈ (eraseN n).outputs, y ≠ "" → ∃ u, top.lookup y = some u) →
      ∀ (V : Nat → ValueS) (X : Ext), NamesAgree V st' →
        (∀ v, st.nv ≤ v → v < st'.nv → v ∉ top'.map (·.2) → CellAgree V st' v) →
        (∀ d, d < st'.nv → X.quant d = x'.quant d) → extN V X outer top nt
  | .mk inputs outputs devs subs, st, x, top, outer, vt, qt, b, st', x', top', nt, hf, hok, ho, hb, hn, hon, hq, h,
      _, V, X, hV, hC, hX => by
    simp only [deserNodeE] at h
    obtain ⟨k1, k2, k3⟩ := resolveInputsE_erase outer vt qt inputs st x top
    obtain ⟨a1, _⟩ := resolveInputsE_q outer vt qt inputs st x top
    generalize resolveInputsE st x top outer vt qt inputs = rR at h k1 k2 k3 a1
    obtain ⟨st1, x1, top1, ins⟩ := rR
    simp only at h k1 k2 k3 a1
    have hR : resolveInputs st top outer (eraseVT vt) inputs = (st1, top1, ins) :=
      Prod.ext k1.symm (Prod.ext k2.symm k3.symm)
    obtain ⟨q1, ok1, stb1, _⟩ := resolveInputs_spec outer (eraseVT vt) inputs st top b hok ho hb
    have n1 := resolveInputs_named outer (eraseVT vt) inputs st top hn hok.lt
    rw [hR] at q1 ok1 stb1 n1
    simp only at q1 ok1 stb1 n1
    have f1 := q1.fresh hf
    split at h
    · simp at h
    · rename_i st2 outs h2
      obtain ⟨q2, _, _, _, _⟩ := lookupOutputs_spec _ outputs _ _ _ h2
      have f2 := q2.fresh f1
      have hts : TablesLt st2 (top1 :: outer) :=
        TablesLt.cons (ok1.lt.mono q2.nv_le) (ho.mono (Nat.le_trans q1.nv_le q2.nv_le))
      split at h
      · simp at h
      · rename_i st3 x3 gs h3
        simp only [Except.ok.injEq, Prod.mk.injEq] at h
        obtain ⟨rfl, rfl, rfl, rfl⟩ := h
        have e3 := deserSubsE_erase subs st2 x1 (top1 :: outer)
        rw [h3] at e3
        simp only [dropX] at e3
        obtain ⟨f3, m3⟩ := deserSubs_struct _ st2 _ st3 gs f2 hts e3.symm
        have a3 := deserSubsE_qext subs st2 x1 (top1 :: outer) st3 x3 gs h3
        have hk := mkNode_keeps st3 ins outs gs
        have hnv4 := mkNode_fst_nv st3 ins outs gs
        have hV3 : NamesAgree V st3 := fun v hv => by rw [hV v (by rw [hnv4]; exact hv), (hk v).1]
        have hV2 : NamesAgree V st2 := fun v hv => by rw [hV3 v (Nat.lt_of_lt_of_le hv m3.nv_le), m3.names v hv]
        have hV1 : NamesAgree V st1 := fun v hv => by rw [hV2 v (Nat.lt_of_lt_of_le hv q2.nv_le), q2.names v hv]
        have hVst : NamesAgree V st := fun v hv => by rw [hV1 v (Nat.lt_of_lt_of_le hv q1.nv_le), q1.names v hv]
        have hOV : ∀ T ∈ outer, NamedV V T := fun T hT => NamedV.of_named (hon T hT) (ho T hT) hVst
        have RR := repl_resolveInputs V outer (eraseVT vt) hOV inputs st top (NamedV.of_named hn hok.lt hVst)
          (by rw [hR]; exact hV1)
        rw [hR] at RR
        simp only at RR
        obtain ⟨r1, _, _, r4⟩ := RR
        obtain ⟨_, _, b3, _⟩ := repl_lookupOutputs V _ r4 outputs _ _ _ h2 hV2
        have hon2 : ∀ T ∈ top1 :: outer, Named st2 T := by
          intro T hT
          simp only [List.mem_cons] at hT
          rcases hT with rfl | hT
          · exact named_mono n1 ok1.lt q2.names
          · exact named_mono (hon T hT) (ho T hT) (fun v hv => by
              rw [q2.names v (Nat.lt_of_lt_of_le hv q1.nv_le), q1.names v hv])
        rw [hnv4] at hX
        have hX3 : ∀ d, d < st3.nv → X.quant d = x3.quant d := fun d hd => by rw [hX d hd, Ext.setDevs_quant]
        have hq1 : QFresh st1.nv x1 := hq.ext a1
        have sub := deser_ext_subs subs st2 x1 (top1 :: outer) st3 x3 gs f2 hts hon2 (hq1.mono q2.nv_le) h3 V X hV3
          (fun v hge hlt => by
            have hnt : v ∉ top1.map (·.2) := by
              intro hm
              simp only [List.mem_map] at hm
              obtain ⟨e, he, rfl⟩ := hm
              have := ok1.lt e he
              have := q2.nv_le
              omega
            have := hC v (Nat.le_trans (Nat.le_trans q1.nv_le q2.nv_le) hge) (by rw [hnv4]; exact hlt) hnt
            rw [CellAgree, (hk v).2.1, (hk v).2.2.1] at this
            exact this)
          hX3
        rw [mkNode_snd]
        simp only [extN, r1]
        refine ⟨fun v hv hfalse => ?_, sub⟩
        have hm : v ∈ outs.filter (fun v => !nameTruthy (V v).name) := by
          simp only [List.mem_filter, hv, hfalse, Bool.not_false, and_self]
        obtain ⟨hge, hlt⟩ := b3.2 v hm
        rw [hX3 v (Nat.lt_of_lt_of_le hlt a3.1), a3.2.1 v hlt]
        exact hq1 v hge
theorem deser_ext_subs :
    ∀ (gps : List GraphE) (st : Store) (x : Ext) (scopes : List Table) (st' : Store) (x' : Ext) (gts : List GraphT),
      Fresh st → TablesLt st scopes → (∀ T ∈ scopes, Named st T) → QFresh st.nv x →
      deserSubsE st x scopes gps = .ok (st', x', gts) →
      ∀ (V : Nat → ValueS) (X : Ext), NamesAgree V st' → (∀ v, st.nv ≤ v → v < st'.nv → CellAgree V st' v) →
        (∀ d, d < st'.nv → X.quant d = x'.quant d) → extGs V X scopes gts
  | [], st, x, scopes, st', x', gts, _, _, _, _, h, V, X, _, _, _ => by
    simp only [deserSubsE, Except.ok.injEq, Prod.mk.injEq] at h
    obtain ⟨_, _, rfl⟩ := h
    trivial
  | gp :: gps, st, x, scopes, st', x', gts, hf, hs, hon, hq, h, V, X, hV, hC, hX => by
    simp only [deserSubsE] at h
    split at h
    · simp at h
    · rename_i st1 x1 gt h1
      split at h
      · simp at h
      · rename_i st2 x2 gts' h2
        simp only [Except.ok.injEq, Prod.mk.injEq] at h
        obtain ⟨rfl, rfl, rfl⟩ := h
        have e1 := deserGraphE_erase gp st x scopes
        rw [h1] at e1
        simp only [dropX] at e1
        have e2 := deserSubsE_erase gps st1 x1 scopes
        rw [h2] at e2
        simp only [dropX] at e2
        obtain ⟨f1, m1⟩ := deserGraph_struct _ st scopes st1 gt hf hs e1.symm
        obtain ⟨_, m2⟩ := deserSubs_struct _ st1 scopes st2 gts' f1 (hs.mono m1.nv_le) e2.symm
        have p2 := deserSubs_prim _ st1 scopes st2 gts' f1 (hs.mono m1.nv_le) e2.symm
        have hV1 : NamesAgree V st1 := fun v hv => by rw [hV v (Nat.lt_of_lt_of_le hv m2.nv_le), m2.names v hv]
        have q1 := deserGraphE_qext gp st x scopes st1 x1 gt h1
        have q2 := deserSubsE_qext gps st1 x1 scopes st2 x2 gts' h2
        have r1 := deser_ext_graph gp st x scopes st1 x1 gt hf hs hon hq h1 V X hV1
          (fun v hge hlt => by
            have := hC v hge (Nat.lt_of_lt_of_le hlt m2.nv_le)
            rw [CellAgree, (p2.cell v hlt).1, (p2.cell v hlt).2] at this
            exact this)
          (fun d hd => by rw [hX d (Nat.lt_of_lt_of_le hd q2.1), q2.2.1 d hd])
        have r2 := deser_ext_subs gps st1 x1 scopes st2 x2 gts' f1 (hs.mono m1.nv_le)
          (fun T hT => named_mono (hon T hT) (hs T hT) m1.names) (hq.ext q1) h2 V X hV
          (fun v hge hlt => hC v (Nat.le_trans m1.nv_le hge) hlt) hX
        simp only [extGs]
        exact ⟨r1, r2⟩
end

/-- **every model the extended deserializer returns satisfies the extension-state certificate** -/
theorem deserializeE_reloadableE (p : GraphE) (w : WorldE) (h : deserializeE p = .ok w) : ReloadableE w := by
  have he := deserializeE_erase p
  rw [h] at he
  simp only at he
  refine ⟨deserialize_reloadable _ _ he, ?_, deserializeE_wf p w h⟩
  simp only [deserializeE] at h
  split at h
  · simp at h
  · rename_i st x g hg
    simp only [Except.ok.injEq] at h
    subst h
    exact deser_ext_graph p {} {} [] st x g (fun _ _ => rfl) (fun _ ht => by simp at ht) (fun _ ht => by simp at ht)
      (fun _ _ => rfl) hg st.vals x (fun _ _ => rfl) (fun _ _ _ => ⟨rfl, rfl⟩) (fun _ _ => rfl)

end IrVerif.Scope

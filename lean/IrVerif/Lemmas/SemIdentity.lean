/-
Lemmas/SemIdentity.lean — IdentityEliminationPass model (`ieG`, `ieModel`) preserves the denotation.
Simulation: old environment ρ and new environment ρ' with `ρ v = ρ' (σ v)` for every value `v`.
-/
import IrVerif.Model.Passes
import IrVerif.Lemmas.SemSyntax
namespace IrVerif.Passes
open IrVerif.Sem
variable {Val : Type}

/-- the new environment read through the substitution is the old environment -/
def Rel (σ : Subst) (ρ ρ' : Env Val) : Prop := ∀ v, ρ v = ρ' (σ.app v)

/-- neither replaced values nor replacements are bound in `D` -/
def SubstOK (σ : Subst) (D : List VId) : Prop := ∀ p ∈ σ, p.1 ∉ D ∧ p.2 ∉ D

theorem SubstOK.mono {σ : Subst} {D D' : List VId} (h : SubstOK σ D) (hD : ∀ v ∈ D', v ∈ D) :
    SubstOK σ D' := fun p hp => ⟨fun h' => (h p hp).1 (hD _ h'), fun h' => (h p hp).2 (hD _ h')⟩

theorem Subst.app_nil (v : VId) : Subst.app [] v = v := by simp [Subst.app]

theorem Subst.app_cons (y x : VId) (σ : Subst) (v : VId) :
    Subst.app ((y, x) :: σ) v = if v = y then x else σ.app v := by
  simp only [Subst.app, List.lookup_cons]
  by_cases h : v = y
  · simp [h]
  · have : (v == y) = false := by simpa using h
    simp [this, h]

theorem lookup_cons_ne' {α β : Type} [BEq α] [LawfulBEq α] {v y : α} {a : β} {l : List (α × β)} (h : v ≠ y) :
    List.lookup v ((y, a) :: l) = List.lookup v l := by
  have : (v == y) = false := by simpa using h
  simp [List.lookup_cons, this]

theorem Subst.app_append' (pairs σ : Subst) (v : VId) :
    Subst.app (pairs ++ σ) v = match pairs.lookup v with
      | some z => z
      | none => σ.app v := by
  simp only [Subst.app, List.lookup_append]
  cases pairs.lookup v <;> simp

/-- `σ v` is `v` itself or a replacement -/
theorem Subst.app_cases (σ : Subst) (v : VId) : σ.app v = v ∨ ∃ p ∈ σ, p.1 = v ∧ p.2 = σ.app v := by
  induction σ with
  | nil => exact Or.inl (Subst.app_nil v)
  | cons p σ ih =>
    obtain ⟨y, x⟩ := p
    rw [Subst.app_cons]
    by_cases h : v = y
    · simp only [h, if_true]
      exact Or.inr ⟨(y, x), by simp, rfl, rfl⟩
    · simp only [h, if_false]
      rcases ih with ih | ⟨p, hp, h1, h2⟩
      · exact Or.inl ih
      · exact Or.inr ⟨p, List.mem_cons_of_mem _ hp, h1, h2⟩

theorem SubstOK.app_of_mem {σ : Subst} {D : List VId} (h : SubstOK σ D) {v : VId} (hv : v ∈ D) :
    σ.app v = v := by
  rcases Subst.app_cases σ v with h' | ⟨p, hp, h1, _⟩
  · exact h'
  · exact absurd (h1 ▸ hv) (h p hp).1

theorem SubstOK.app_not_mem {σ : Subst} {D : List VId} (h : SubstOK σ D) {v : VId} (hv : v ∉ D) :
    σ.app v ∉ D := by
  rcases Subst.app_cases σ v with h' | ⟨p, hp, _, h2⟩
  · rw [h']; exact hv
  · rw [← h2]; exact (h p hp).2

theorem Rel.bind {σ : Subst} {ρ ρ' : Env Val} (h : Rel σ ρ ρ') {vs : List VId} (hok : SubstOK σ vs)
    (rs : List (Option Val)) : Rel σ (ρ.bind vs rs) (ρ'.bind vs rs) := by
  intro v
  by_cases hv : v ∈ vs
  · rw [hok.app_of_mem hv]
    simp [Env.bind, hv]
  · rw [Env.bind_of_not_mem _ _ hv, Env.bind_of_not_mem _ _ (hok.app_not_mem hv)]
    exact h v

theorem trimNone_map (f : VId → VId) : ∀ ins : List (Option VId),
    trimNone (ins.map (Option.map f)) = (trimNone ins).map (Option.map f)
  | [] => by simp [trimNone]
  | a :: rest => by
    have ih := trimNone_map f rest
    simp only [List.map_cons, trimNone, ih]
    have h1 : (Option.map f a).isNone = a.isNone := by cases a <;> rfl
    have h2 : (List.map (Option.map f) (trimNone rest)).isEmpty = (trimNone rest).isEmpty := by
      cases trimNone rest <;> rfl
    rw [h1, h2]
    by_cases hc : (a.isNone && (trimNone rest).isEmpty) = true <;> simp [hc]

theorem Rel.args {σ : Subst} {ρ ρ' : Env Val} (h : Rel σ ρ ρ') (ins : List (Option VId)) :
    evalArgs ρ (trimNone ins) = evalArgs ρ' (trimNone (substIns σ ins)) := by
  unfold substIns
  rw [trimNone_map]
  unfold evalArgs
  rw [List.map_map]
  apply List.map_congr_left
  intro o _
  cases o with
  | none => rfl
  | some v => simp only [Function.comp, Option.map, Option.bind]; exact h v

theorem ieCandidate_some {op : OpId} {ins : List (Option VId)} {outs : List VId} {x y : VId}
    (h : ieCandidate op ins outs = some (x, y)) : isIdentityOp op = true ∧ ins = [some x] ∧ outs = [y] := by
  unfold ieCandidate at h
  split at h
  · rename_i hop
    split at h
    · simp only [Option.some.injEq, Prod.mk.injEq] at h
      obtain ⟨rfl, rfl⟩ := h
      exact ⟨hop, rfl, rfl⟩
    · simp at h
  · simp at h

theorem substIns_eq_singleton {σ : Subst} {ins : List (Option VId)} {x : VId}
    (h : substIns σ ins = [some x]) : ∃ x0, ins = [some x0] ∧ σ.app x0 = x := by
  unfold substIns at h
  match ins, h with
  | [some x0], h => exact ⟨x0, rfl, by simpa using h⟩
  | [none], h => simp at h

theorem mem_defsNodes_of_mem_outs {v : VId} {op attrs ins outs bodies} {ns : List Node} (h : v ∈ outs) :
    v ∈ defsNodes (.mk op attrs ins outs bodies :: ns) := by
  simp [defsNodes, defsN, h]

mutual
theorem ieG_sound (I : Interp Val) (ii : List VId) : ∀ (g : Graph) (σ : Subst) (ρ ρ' : Env Val),
    Rel σ ρ ρ' → SubstOK σ (defsG g) → ssaG g = true → closedG g = true → noFwdG g = true →
    evalG I g ρ = evalG I (ieG ii σ g) ρ'
  | .mk inputs outputs inits nodes, σ, ρ, ρ', hrel, hok, hs, hc, hf => by
    funext xs
    simp only [ssaG, Bool.and_eq_true] at hs
    simp only [closedG, Bool.and_eq_true, List.all_eq_true] at hc
    simp only [noFwdG] at hf
    simp only [ieG, evalG]
    have hmap : outputs.map σ.app = outputs := by
      conv => rhs; rw [← List.map_id outputs]
      apply List.map_congr_left
      intro v hv
      refine hok.app_of_mem ?_
      have := hc.1 v hv
      exact mem_topDefs_defsG (.mk inputs outputs inits nodes)
        (by simpa [topDefs, Graph.inputs, Graph.inits, Graph.nodes] using this)
    have hrel1 : Rel σ ((bindInits I ρ inits).bind
          (inputs.filter (fun v => !(inits.map Prod.fst).contains v)) (xs.map some))
        ((bindInits I ρ' inits).bind
          (inputs.filter (fun v => !(inits.map Prod.fst).contains v)) (xs.map some)) := by
      refine Rel.bind (Rel.bind hrel ?_ _) ?_ _
      · exact hok.mono (fun v hv => by simp only [defsG, List.mem_append]; exact Or.inl (Or.inr hv))
      · exact hok.mono (fun v hv => by
          simp only [defsG, List.mem_append]; exact Or.inl (Or.inl (List.mem_filter.1 hv).1))
    have key := ieNodes_sound I ii (inputs ++ inits.map Prod.fst ++ outsTop nodes) nodes σ outputs _ _ hrel1
      (hok.mono (fun v hv => by simp only [defsG, List.mem_append]; exact Or.inr hv)) hs.2 hc.2 hf
    rw [hmap] at key
    rw [key.2, List.map_map]
    apply List.map_congr_left
    intro v _
    exact key.1 v
theorem ieNodes_sound (I : Interp Val) (ii loc : List VId) : ∀ (ns : List Node) (σ : Subst) (outs0 : List VId)
    (ρ ρ' : Env Val), Rel σ ρ ρ' → SubstOK σ (defsNodes ns) → ssaNodes ns = true →
    closedNodes ns = true → noFwdNodes ns = true →
    Rel (ieNodes ii loc σ (outs0.map σ.app) ns).σ (evalNodes I ns ρ)
        (evalNodes I (ieNodes ii loc σ (outs0.map σ.app) ns).nodes ρ') ∧
    (ieNodes ii loc σ (outs0.map σ.app) ns).outs = outs0.map (ieNodes ii loc σ (outs0.map σ.app) ns).σ.app
  | [], σ, outs0, ρ, ρ', hrel, _, _, _, _ => by
    simp only [ieNodes, evalNodes]
    exact ⟨hrel, trivial⟩
  | .mk op attrs ins nouts bodies :: ns, σ, outs0, ρ, ρ', hrel, hok, hs, hc, hf => by
    have hs' := hs
    simp only [ssaNodes, ssaN, Bool.and_eq_true, disj_iff] at hs
    simp only [closedNodes, closedN, Bool.and_eq_true] at hc
    simp only [noFwdNodes, noFwdN, Bool.and_eq_true, disj_iff, Node.ins] at hf
    obtain ⟨⟨⟨⟨_, _⟩, hsb⟩, hdn⟩, hsn⟩ := hs
    obtain ⟨⟨⟨hfw, _⟩, hfb⟩, hfn⟩ := hf
    have hokn : SubstOK σ (defsNodes ns) :=
      hok.mono (fun v hv => by simp only [defsNodes, List.mem_append]; exact Or.inr hv)
    have hoko : SubstOK σ nouts :=
      hok.mono (fun v hv => mem_defsNodes_of_mem_outs hv)
    have hokb : SubstOK σ (defsBodies bodies) :=
      hok.mono (fun v hv => by simp only [defsNodes, defsN, List.mem_append]; exact Or.inl (Or.inr hv))
    -- the "keep" step, shared by two branches
    have keep : Rel σ (evalN I (.mk op attrs ins nouts bodies) ρ)
        (evalN I (.mk op attrs (substIns σ ins) nouts (ieBodies ii σ bodies)) ρ') := by
      simp only [evalN]
      rw [hrel.args ins, ieBodies_sound I ii bodies σ ρ ρ' hrel hokb hsb hc.1 hfb]
      exact Rel.bind hrel hoko _
    simp only [ieNodes]
    split
    · rename_i x y hcand
      obtain ⟨hop, hins, hout⟩ := ieCandidate_some hcand
      obtain ⟨x0, hins0, hx0⟩ := substIns_eq_singleton hins
      subst hout hins0
      split
      · -- kept
        simp only [evalNodes]
        exact ieNodes_sound I ii loc ns σ outs0 _ _ keep hokn hsn hc.2 hfn
      · -- eliminated
        simp only [evalNodes]
        have hy : y ∉ defsNodes ns := fun h => hdn y (by simp [defsN]) h
        have hx : x ∉ defsNodes ns := by
          rw [← hx0]
          refine hokn.app_not_mem (fun h => ?_)
          exact hfw x0 (by simp) (by simp only [defsNodes, List.mem_append]; exact Or.inr h)
        have hok1 : SubstOK ((y, x) :: σ) (defsNodes ns) := by
          intro p hp
          rcases List.mem_cons.1 hp with rfl | hp
          · exact ⟨hy, hx⟩
          · exact hokn p hp
        have hrel1 : Rel ((y, x) :: σ) (evalN I (.mk op attrs [some x0] [y] bodies) ρ) ρ' := by
          intro v
          rw [Subst.app_cons]
          simp only [evalN]
          by_cases hv : v = y
          · subst hv
            have hargs : evalArgs ρ (trimNone [some x0]) = [ρ x0] := by
              simp [trimNone, evalArgs]
            simp only [if_true, hargs, nodeResults, hop, List.length_singleton, beq_self_eq_true,
              Bool.and_self, if_true]
            rw [Env.bind_of_mem _ _ (by simp)]
            simp only [List.idxOf_cons_self, List.getElem?_cons_zero, Option.join_some]
            rw [← hx0]; exact hrel x0
          · simp only [hv, if_false]
            rw [Env.bind_of_not_mem _ _ (by simpa using hv)]
            exact hrel v
        have hmapeq : (outs0.map σ.app).map (fun o => if o = y then x else o) =
            outs0.map (Subst.app ((y, x) :: σ)) := by
          rw [List.map_map]
          apply List.map_congr_left
          intro o _
          simp only [Function.comp, Subst.app_cons]
          by_cases ho : o = y
          · subst ho
            rw [hoko.app_of_mem (by simp)]
          · have : σ.app o ≠ y := by
              rcases Subst.app_cases σ o with h | ⟨p, hp, _, h2⟩
              · rw [h]; exact ho
              · rw [← h2]; exact fun h => (hoko p hp).2 (by simp [h])
            simp [ho, this]
        rw [hmapeq]
        exact ieNodes_sound I ii loc ns ((y, x) :: σ) outs0 _ _ hrel1 hok1 hsn hc.2 hfn
    · simp only [evalNodes]
      exact ieNodes_sound I ii loc ns σ outs0 _ _ keep hokn hsn hc.2 hfn
theorem ieBodies_sound (I : Interp Val) (ii : List VId) : ∀ (bs : List Graph) (σ : Subst) (ρ ρ' : Env Val),
    Rel σ ρ ρ' → SubstOK σ (defsBodies bs) → ssaBodies bs = true → closedBodies bs = true →
    noFwdBodies bs = true → evalBodies I bs ρ = evalBodies I (ieBodies ii σ bs) ρ'
  | [], _, _, _, _, _, _, _, _ => by simp [ieBodies, evalBodies]
  | b :: bs, σ, ρ, ρ', hrel, hok, hs, hc, hf => by
    simp only [ssaBodies, Bool.and_eq_true] at hs
    simp only [closedBodies, Bool.and_eq_true] at hc
    simp only [noFwdBodies, Bool.and_eq_true] at hf
    simp only [ieBodies, evalBodies]
    rw [ieG_sound I ii b σ ρ ρ' hrel
          (hok.mono (fun v hv => by simp only [defsBodies, List.mem_append]; exact Or.inl hv))
          hs.1.1 hc.1 hf.1,
        ieBodies_sound I ii bs σ ρ ρ' hrel
          (hok.mono (fun v hv => by simp only [defsBodies, List.mem_append]; exact Or.inr hv))
          hs.2 hc.2 hf.2]
end

end IrVerif.Passes

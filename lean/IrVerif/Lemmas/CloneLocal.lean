/-
Walker locality: the verdict of the scope walker (`wGraph`, `funcVerdict`; Model/Clone.lean) on a
heap `w` is also its verdict on every extension `w ++ ext`, unless it is `irregular` (no claim: a
dangling pointer of `w` may point to a cell of the extension).  This is what lets the walker, which
reads the SOURCE heap, decide the clones `Model.clone` makes one after the other, each on the heap
the previous ones left.
-/
import IrVerif.Model.Clone2
import IrVerif.Lemmas.Clone
namespace IrVerif.Clone
namespace Local

/-- `r'` agrees with `r` unless `r` makes no claim, and `P` holds of what `r` answers -/
def LocP {α : Type} (r r' : WRes α) (P : α → Prop) : Prop :=
  (match r with
    | .irregular _ => True
    | _ => r' = r) ∧ ∀ a, r = .ok a → P a

theorem LocP.pure {α : Type} {a : α} {P : α → Prop} (h : P a) : LocP (.ok a) (.ok a) P :=
  ⟨rfl, fun b hb => by cases hb; exact h⟩

theorem LocP.err {α : Type} {e : Err} {P : α → Prop} : LocP (.err e) (.err e) P :=
  ⟨rfl, fun b hb => by cases hb⟩

theorem LocP.irr {α : Type} {why : String} {r' : WRes α} {P : α → Prop} : LocP (.irregular why) r' P :=
  ⟨True.intro, fun b hb => by cases hb⟩

theorem LocP.of_eq {α : Type} {r r' : WRes α} (h : r' = r) : LocP r r' (fun _ => True) := by
  subst h
  cases r' <;> exact ⟨by trivial, fun _ _ => True.intro⟩

theorem LocP.mono {α : Type} {r r' : WRes α} {P Q : α → Prop} (h : LocP r r' P) (hpq : ∀ a, P a → Q a) :
    LocP r r' Q := ⟨h.1, fun a ha => hpq a (h.2 a ha)⟩

theorem LocP.bind {α β : Type} {x x' : WRes α} {f f' : α → WRes β} {P : α → Prop} {Q : β → Prop}
    (hx : LocP x x' P) (hf : ∀ a, P a → LocP (f a) (f' a) Q) : LocP (x.bind f) (x'.bind f') Q := by
  cases x with
  | ok a =>
    obtain ⟨h1, h2⟩ := hx
    simp only at h1
    subst h1
    exact hf a (h2 a rfl)
  | err e =>
    obtain ⟨h1, _⟩ := hx
    simp only at h1
    subst h1
    exact LocP.err
  | irregular why => exact LocP.irr

theorem LocP.ok_eq {α : Type} {a : α} {r' : WRes α} {P : α → Prop} (h : LocP (.ok a) r' P) : r' = .ok a := h.1
theorem LocP.err_eq {α : Type} {e : Err} {r' : WRes α} {P : α → Prop} (h : LocP (.err e) r' P) : r' = .err e := h.1

section
variable {w : World} (ext : World)

theorem get_ext {i : Nat} {c : Cell} (h : w[i]? = some c) : (w ++ ext)[i]? = some c := by
  rw [List.getElem?_append_left (lt_of_getElem? h)]
  exact h

theorem wCellBind_loc {α : Type} (k : Cell → WRes α) (i : Nat) :
    LocP ((wCell w i).bind k) ((wCell (w ++ ext) i).bind k) (fun a => ∃ c, w[i]? = some c ∧ k c = .ok a) := by
  unfold wCell
  cases h : w[i]? with
  | none => exact LocP.irr
  | some c =>
    rw [get_ext ext h]
    show LocP (k c) (k c) _
    refine ⟨?_, fun a ha => ⟨c, rfl, ha⟩⟩
    cases k c <;> trivial

theorem wVal_loc (v : Nat) : LocP (wVal w v) (wVal (w ++ ext) v) (fun vs => w[v]? = some (.val vs)) := by
  unfold wVal
  refine (wCellBind_loc ext _ v).mono ?_
  rintro vs ⟨c, hc, hk⟩
  cases c <;> simp at hk
  subst hk
  exact hc

theorem wNodeCell_loc (v : Nat) : LocP (wNodeCell w v) (wNodeCell (w ++ ext) v) (fun vs => w[v]? = some (.node vs)) := by
  unfold wNodeCell
  refine (wCellBind_loc ext _ v).mono ?_
  rintro vs ⟨c, hc, hk⟩
  cases c <;> simp at hk
  subst hk
  exact hc

theorem wGraphCell_loc (v : Nat) : LocP (wGraphCell w v) (wGraphCell (w ++ ext) v) (fun vs => w[v]? = some (.graph vs)) := by
  unfold wGraphCell
  refine (wCellBind_loc ext _ v).mono ?_
  rintro vs ⟨c, hc, hk⟩
  cases c <;> simp at hk
  subst hk
  exact hc

theorem wAttrCell_loc (v : Nat) : LocP (wAttrCell w v) (wAttrCell (w ++ ext) v) (fun _ => True) := by
  unfold wAttrCell
  exact (wCellBind_loc ext _ v).mono fun _ _ => True.intro

theorem wFuncCell_loc (v : Nat) : LocP (wFuncCell w v) (wFuncCell (w ++ ext) v) (fun _ => True) := by
  unfold wFuncCell
  exact (wCellBind_loc ext _ v).mono fun _ _ => True.intro

theorem wModelCell_loc (v : Nat) : LocP (wModelCell w v) (wModelCell (w ++ ext) v) (fun ms => w[v]? = some (.model ms)) := by
  unfold wModelCell
  refine (wCellBind_loc ext _ v).mono ?_
  rintro vs ⟨c, hc, hk⟩
  cases c <;> simp at hk
  subst hk
  exact hc

theorem wDict_loc (v : Nat) : LocP (wDict w v) (wDict (w ++ ext) v) (fun _ => ∃ d, w[v]? = some (.dict d)) := by
  unfold wDict
  refine (wCellBind_loc ext _ v).mono ?_
  rintro vs ⟨c, hc, hk⟩
  cases c <;> simp at hk
  exact ⟨_, hc⟩

theorem wShape_loc (v : Nat) : LocP (wShape w v) (wShape (w ++ ext) v) (fun _ => True) := by
  unfold wShape
  exact (wCellBind_loc ext _ v).mono fun _ _ => True.intro

theorem wType_loc (v : Nat) : LocP (wType w v) (wType (w ++ ext) v) (fun _ => True) := by
  unfold wType
  exact (wCellBind_loc ext _ v).mono fun _ _ => True.intro

theorem wOptShape_loc (o : Option Nat) : LocP (wOptShape w o) (wOptShape (w ++ ext) o) (fun _ => True) := by
  cases o with
  | none => exact LocP.pure True.intro
  | some i => exact wShape_loc ext i

theorem wOptType_loc (o : Option Nat) : LocP (wOptType w o) (wOptType (w ++ ext) o) (fun _ => True) := by
  cases o with
  | none => exact LocP.pure True.intro
  | some i => exact wType_loc ext i

/-! ### the state of the walker: every bound value is a cell of the source heap -/

def BV (w : World) (A : Sc) : Prop := ∀ v ∈ A.bound, v < w.length
def Grow (A A' : Sc) : Prop := ∀ v ∈ A.bound, v ∈ A'.bound

theorem Grow.refl (A : Sc) : Grow A A := fun _ h => h
theorem Grow.trans {A B C : Sc} (h1 : Grow A B) (h2 : Grow B C) : Grow A C := fun v h => h2 v (h1 v h)

theorem wCloneOrGet_loc (v : Nat) (A : Sc) (hA : BV w A) :
    LocP (wCloneOrGet w v A) (wCloneOrGet (w ++ ext) v A) (fun A' => BV w A' ∧ Grow A A' ∧ v ∈ A'.bound) := by
  unfold wCloneOrGet
  split
  · next hc => exact LocP.pure ⟨hA, Grow.refl A, by simpa using hc⟩
  · refine LocP.bind (wVal_loc ext v) fun vs hvs => ?_
    refine LocP.bind (wOptShape_loc ext _) fun _ _ => ?_
    refine LocP.bind (wOptType_loc ext _) fun _ _ => ?_
    refine LocP.bind (wDict_loc ext _) fun _ _ => ?_
    refine LocP.bind (wDict_loc ext _) fun _ _ => ?_
    refine LocP.pure ⟨?_, fun x hx => List.mem_cons_of_mem _ hx, List.mem_cons_self⟩
    intro x hx
    rcases List.mem_cons.mp hx with h | h
    · rw [h]; exact lt_of_getElem? hvs
    · exact hA x h

theorem wOutput_loc (o : Nat) (A : Sc) (hA : BV w A) :
    LocP (wOutput w o A) (wOutput (w ++ ext) o A) (fun A' => BV w A' ∧ Grow A A' ∧ o ∈ A'.bound) := by
  unfold wOutput
  refine LocP.bind (wVal_loc ext o) fun vs hvs => ?_
  refine LocP.bind (wOptShape_loc ext _) fun _ _ => ?_
  refine LocP.bind (wOptType_loc ext _) fun _ _ => ?_
  refine LocP.bind (wDict_loc ext _) fun _ _ => ?_
  refine LocP.bind (wDict_loc ext _) fun _ _ => ?_
  split
  · exact LocP.irr
  · refine LocP.pure ⟨?_, fun x hx => List.mem_cons_of_mem _ hx, List.mem_cons_self⟩
    intro x hx
    rcases List.mem_cons.mp hx with h | h
    · rw [h]; exact lt_of_getElem? hvs
    · exact hA x h

theorem wPassthrough_loc (A : Sc) : ∀ l : List (Option Nat),
    LocP (wPassthrough w A l) (wPassthrough (w ++ ext) A l) (fun _ => True)
  | [] => LocP.pure True.intro
  | none :: rest => by unfold wPassthrough; exact wPassthrough_loc A rest
  | some v :: rest => by
    unfold wPassthrough
    split
    · exact wPassthrough_loc A rest
    · exact LocP.bind (wVal_loc ext v) fun _ _ => wPassthrough_loc A rest

theorem wFold_loc {α : Type} {f f' : α → Sc → WRes Sc} {Q : α → Sc → Prop}
    (hQ : ∀ a A A', Q a A → Grow A A' → Q a A')
    (hf : ∀ a A, BV w A → LocP (f a A) (f' a A) (fun A' => BV w A' ∧ Grow A A' ∧ Q a A')) :
    ∀ (l : List α) (A : Sc), BV w A →
      LocP (wFold f l A) (wFold f' l A) (fun A' => BV w A' ∧ Grow A A' ∧ ∀ a ∈ l, Q a A')
  | [], A, hA => LocP.pure ⟨hA, Grow.refl A, fun _ h => by cases h⟩
  | a :: as, A, hA => by
    unfold wFold
    refine LocP.bind (hf a A hA) ?_
    rintro A1 ⟨b1, g1, q1⟩
    refine (wFold_loc hQ hf as A1 b1).mono ?_
    rintro A' ⟨b2, g2, q2⟩
    refine ⟨b2, g1.trans g2, fun x hx => ?_⟩
    rcases List.mem_cons.mp hx with h | h
    · rw [h]; exact hQ a A1 A' q1 g2
    · exact q2 x h

theorem wAll_loc {α : Type} {f f' : α → WRes Unit} :
    ∀ (l : List α), (∀ a ∈ l, LocP (f a) (f' a) (fun _ => True)) → LocP (wAll f l) (wAll f' l) (fun _ => True)
  | [], _ => LocP.pure True.intro
  | a :: as, h => by
    unfold wAll
    exact LocP.bind (h a List.mem_cons_self) fun _ _ => wAll_loc as fun x hx => h x (List.mem_cons_of_mem _ hx)

theorem wAll_congr {α : Type} {f f' : α → WRes Unit} :
    ∀ (l : List α), (∀ a ∈ l, f' a = f a) → wAll f' l = wAll f l
  | [], _ => rfl
  | a :: as, h => by
    unfold wAll
    rw [h a List.mem_cons_self, wAll_congr as fun x hx => h x (List.mem_cons_of_mem _ hx)]

/-- what the recursive call (a nested graph) must satisfy -/
def RecLoc (w : World) (rec rec' : Nat → Sc → WRes Sc) : Prop :=
  ∀ g A, BV w A → LocP (rec g A) (rec' g A) (fun A' => BV w A' ∧ Grow A A')

theorem wAttr_loc {rec rec' : Nat → Sc → WRes Sc} (hrec : RecLoc w rec rec') (a : Nat) (A : Sc) (hA : BV w A) :
    LocP (wAttr w rec a A) (wAttr (w ++ ext) rec' a A) (fun A' => BV w A' ∧ Grow A A' ∧ True) := by
  unfold wAttr
  refine LocP.bind (wAttrCell_loc ext a) fun as _ => ?_
  cases as.v with
  | plain p => exact LocP.pure ⟨hA, Grow.refl A, True.intro⟩
  | ref p => exact LocP.pure ⟨hA, Grow.refl A, True.intro⟩
  | graph g => exact (hrec g A hA).mono fun _ ⟨a, b⟩ => ⟨a, b, True.intro⟩
  | graphs gs =>
    exact (wFold_loc (Q := fun _ _ => True) (fun _ _ _ _ _ => True.intro)
      (fun g A hA => (hrec g A hA).mono fun _ ⟨a, b⟩ => ⟨a, b, True.intro⟩) gs A hA).mono
      fun _ ⟨a, b, _⟩ => ⟨a, b, True.intro⟩

/-- the outputs of a node of the source heap are bound -/
def NQ (w : World) (n : Nat) (A : Sc) : Prop :=
  ∀ ns, w[n]? = some (.node ns) → ∀ o ∈ ns.outputs, o ∈ A.bound

theorem wNode_loc {allow : Bool} {rec rec' : Nat → Sc → WRes Sc} (hrec : RecLoc w rec rec') (n : Nat) (A : Sc)
    (hA : BV w A) :
    LocP (wNode w allow rec n A) (wNode (w ++ ext) allow rec' n A) (fun A' => BV w A' ∧ Grow A A' ∧ NQ w n A') := by
  unfold wNode
  refine LocP.bind (wNodeCell_loc ext n) fun ns hns => ?_
  refine LocP.bind (LocP.of_eq rfl) fun _ _ => ?_
  refine LocP.bind (wFold_loc (Q := fun _ _ => True) (fun _ _ _ _ _ => True.intro)
    (fun (ka : String × Nat) A hA => wAttr_loc ext hrec ka.2 A hA) ns.attrs A hA) ?_
  rintro A1 ⟨b1, g1, -⟩
  refine LocP.bind (wDict_loc ext _) fun _ _ => ?_
  refine LocP.bind (wDict_loc ext _) fun _ _ => ?_
  refine LocP.bind (wFold_loc (Q := fun o A => o ∈ A.bound) (fun _ _ _ h g => g _ h)
    (fun o A hA => wOutput_loc ext o A hA) ns.outputs A1 b1) ?_
  rintro A2 ⟨b2, g2, q2⟩
  refine LocP.bind (LocP.of_eq rfl) fun _ _ => ?_
  refine LocP.bind (wPassthrough_loc ext A ns.inputs) fun _ _ => ?_
  refine LocP.pure ⟨b2, g1.trans g2, ?_⟩
  intro ns' hns' o ho
  rw [hns] at hns'
  cases hns'
  exact q2 o ho

theorem wAllOutputs_loc : ∀ l : List Nat, LocP (wAllOutputs w l) (wAllOutputs (w ++ ext) l) (fun _ => True)
  | [] => LocP.pure True.intro
  | n :: ns => by
    unfold wAllOutputs
    exact LocP.bind (wNodeCell_loc ext n) fun _ _ => LocP.bind (wAllOutputs_loc ns) fun _ _ => LocP.pure True.intro

theorem wName_ext {v : Nat} (h : v < w.length) : wName (w ++ ext) v = wName w v := by
  unfold wName
  rw [List.getElem?_append_left h]

theorem filterMap_congr' {α β : Type} {f g : α → Option β} : ∀ (l : List α), (∀ a ∈ l, f a = g a) →
    l.filterMap f = l.filterMap g
  | [], _ => rfl
  | a :: as, h => by
    simp only [List.filterMap_cons, h a List.mem_cons_self,
      filterMap_congr' as fun x hx => h x (List.mem_cons_of_mem _ hx)]

theorem wMkGraph_loc (gs : GraphS) (A : Sc) (hA : BV w A)
    (hin : ∀ v ∈ gs.inputs, v < w.length) (hinit : ∀ v ∈ gs.inits.map (·.2), v < w.length)
    (hnodes : ∀ n ∈ gs.nodes, ∀ ns, w[n]? = some (.node ns) → ∀ o ∈ ns.outputs, o < w.length) :
    LocP (wMkGraph w gs A) (wMkGraph (w ++ ext) gs A) (fun A' => BV w A' ∧ Grow A A') := by
  unfold wMkGraph
  simp only
  refine LocP.bind (LocP.of_eq (wAll_congr _ fun v hv => by rw [wName_ext ext (hinit v hv)])) fun _ _ => ?_
  refine LocP.bind (LocP.of_eq (by rw [filterMap_congr' _ fun v hv => wName_ext ext (hinit v hv)])) fun _ _ => ?_
  refine LocP.bind (wDict_loc ext _) fun _ _ => ?_
  refine LocP.bind (wDict_loc ext _) fun _ _ => ?_
  refine LocP.bind (LocP.of_eq rfl) fun _ _ => ?_
  refine LocP.bind (LocP.of_eq rfl) fun _ _ => ?_
  refine LocP.bind (LocP.of_eq rfl) fun _ _ => ?_
  refine LocP.bind (LocP.of_eq (wAll_congr _ fun v hv => by rw [wName_ext ext (hinit v hv)])) fun _ _ => ?_
  refine LocP.bind (LocP.of_eq (wAll_congr _ fun v hv => by rw [wName_ext ext (hin v hv)])) fun _ _ => ?_
  refine LocP.bind (wAll_loc _ fun n hn => ?_) fun _ _ => ?_
  · refine LocP.bind (wNodeCell_loc ext n) fun ns hns => ?_
    exact LocP.of_eq (wAll_congr _ fun o ho => by rw [wName_ext ext (hnodes n hn ns hns o ho)])
  · exact LocP.pure ⟨hA, Grow.refl _⟩

theorem wGraphStep_loc {allow : Bool} {rec rec' : Nat → Sc → WRes Sc} (hrec : RecLoc w rec rec') (g : Nat) (A : Sc)
    (hA : BV w A) :
    LocP (wGraphStep w allow rec g A) (wGraphStep (w ++ ext) allow rec' g A) (fun A' => BV w A' ∧ Grow A A') := by
  unfold wGraphStep
  refine LocP.bind (wGraphCell_loc ext g) fun gs _ => ?_
  refine LocP.bind (wFold_loc (Q := fun v A => v ∈ A.bound) (fun _ _ _ h g => g _ h)
    (fun v A hA => wCloneOrGet_loc ext v A hA) gs.inputs A hA) ?_
  rintro A1 ⟨b1, g1, q1⟩
  refine LocP.bind (wFold_loc (Q := fun v A => v ∈ A.bound) (fun _ _ _ h g => g _ h)
    (fun v A hA => wCloneOrGet_loc ext v A hA) (gs.inits.map (·.2)) A1 b1) ?_
  rintro A2 ⟨b2, g2, q2⟩
  refine LocP.bind (wAllOutputs_loc ext gs.nodes) fun outs _ => ?_
  have b3 : BV w { A2 with pend := A2.pend ++ outs } := b2
  refine LocP.bind (wFold_loc (Q := fun n A => NQ w n A) (fun _ _ _ h g ns hns o ho => g _ (h ns hns o ho))
    (fun n A hA => wNode_loc ext hrec n A hA) gs.nodes _ b3) ?_
  rintro A4 ⟨b4, g4, q4⟩
  refine LocP.bind (LocP.of_eq rfl) fun _ _ => ?_
  have g24 : Grow A2 A4 := g4
  refine (wMkGraph_loc ext gs A4 b4 (fun v hv => b4 v (g24 v (g2 v (q1 v hv)))) (fun v hv => b4 v (g24 v (q2 v hv)))
    (fun n hn ns hns o ho => b4 o (q4 n hn ns hns o ho))).mono ?_
  rintro A5 ⟨b5, g5⟩
  exact ⟨b5, g1.trans (g2.trans (g24.trans g5))⟩

theorem wGraph_loc (allow : Bool) : ∀ (fuel : Nat), RecLoc w (wGraph w allow fuel) (wGraph (w ++ ext) allow fuel)
  | 0 => fun _ _ _ => LocP.err
  | f + 1 => fun g A hA => wGraphStep_loc ext (wGraph_loc allow f) g A hA

theorem BV.empty (w : World) : BV w {} := fun _ h => by cases h

/-- **walker locality** for `Graph.clone` / `GraphView.clone` -/
theorem cloneVerdict_loc (fuel : Nat) (allow : Bool) (g : Nat) :
    LocP (cloneVerdict fuel allow w g) (cloneVerdict fuel allow (w ++ ext) g) (fun _ => True) :=
  (wGraph_loc ext allow fuel g {} (BV.empty w)).mono fun _ _ => True.intro

/-- **walker locality** for `Function.clone` -/
theorem funcVerdict_loc (fuel : Nat) (f : Nat) :
    LocP (funcVerdict fuel w f) (funcVerdict fuel (w ++ ext) f) (fun _ => True) := by
  unfold funcVerdict
  refine LocP.bind (wFuncCell_loc ext f) fun fs _ => ?_
  refine LocP.bind (wGraph_loc ext false fuel fs.graph {} (BV.empty w)) ?_
  rintro A1 ⟨b1, -⟩
  refine (wFold_loc (Q := fun _ _ => True) (fun _ _ _ _ _ => True.intro)
    (fun (ka : String × Nat) A hA => LocP.bind (wAttrCell_loc ext ka.2) fun _ _ =>
      wAttr_loc ext (wGraph_loc ext false fuel) ka.2 A hA) fs.attrs A1 b1).mono fun _ _ => True.intro

end
end Local
end IrVerif.Clone
-- x

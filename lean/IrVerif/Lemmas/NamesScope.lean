/-
C15 part B: the scoping invariant of NameFixPass and the induction over the traversal.
-/
import IrVerif.Lemmas.NamesFix
import IrVerif.Lemmas.NamesOrder
namespace IrVerif.Names

/-- what the postcondition says about one list `L` of values that are visible together -/
structure ScopeOK (c : Cfg) (st : FixSt) (L : List Nat) : Prop where
  inj : ∀ a ∈ L, ∀ b ∈ L, a ≠ b → st.vname a ≠ st.vname b
  seen : ∀ u ∈ L, u ∈ st.seen ∧ truthy (st.vname u) = true
  kept : ∀ v ∈ L, truthy (c.orig v) = true → (∀ u ∈ L, u ≠ v → c.orig u ≠ c.orig v) → st.vname v = c.orig v
  /-- `L` is in visiting order: the first holder of a name keeps it -/
  first : FirstB c.orig st.vname L

/-- `V` = the values recorded in the innermost scope: the innermost used-name set is exactly the
set of their names -/
structure Good (c : Cfg) (st : FixSt) (V : List Nat) : Prop extends ScopeOK c st V where
  top_iff : ∀ s, s ∈ topOf st.vstack ↔ ∃ u ∈ V, st.vname u = some s

/-- names of values that were already seen do not change -/
structure Frame (st st' : FixSt) : Prop where
  names : ∀ u ∈ st.seen, st'.vname u = st.vname u
  seen : ∀ u ∈ st.seen, u ∈ st'.seen

theorem Frame.refl (st : FixSt) : Frame st st := ⟨fun _ _ => rfl, fun _ h => h⟩
theorem Frame.trans {a b c : FixSt} (h1 : Frame a b) (h2 : Frame b c) : Frame a c :=
  ⟨fun u hu => (h2.names u (h1.seen u hu)).trans (h1.names u hu), fun u hu => h2.seen u (h1.seen u hu)⟩

theorem ScopeOK.frame {c : Cfg} {st st' : FixSt} {L : List Nat} (h : ScopeOK c st L) (f : Frame st st') :
    ScopeOK c st' L := by
  have e : ∀ u ∈ L, st'.vname u = st.vname u := fun u hu => f.names u (h.seen u hu).1
  refine ⟨?_, ?_, ?_, ?_⟩
  · intro a ha b hb hab; rw [e a ha, e b hb]; exact h.inj a ha b hb hab
  · intro u hu; rw [e u hu]; exact ⟨f.seen u (h.seen u hu).1, (h.seen u hu).2⟩
  · intro v hv h1 h2; rw [e v hv]; exact h.kept v hv h1 h2
  · exact h.first.fin_eq e

theorem ScopeOK.congr {c : Cfg} {st : FixSt} {L L' : List Nat} (h : ScopeOK c st L) (e : ∀ x, x ∈ L' ↔ x ∈ L)
    (ho : ∀ v ∈ L', ∀ u ∈ before v L, u ∈ before v L' ∨ c.orig u ≠ c.orig v) :
    ScopeOK c st L' :=
  ⟨fun a ha b hb => h.inj a ((e a).mp ha) b ((e b).mp hb), fun u hu => h.seen u ((e u).mp hu),
   fun v hv h1 h2 => h.kept v ((e v).mp hv) h1 (fun u hu => h2 u ((e u).mpr hu)),
   h.first.transfer (fun v hv => (e v).mp hv) ho⟩

theorem Good.congr {c : Cfg} {st : FixSt} {V V' : List Nat} (h : Good c st V) (e : ∀ x, x ∈ V' ↔ x ∈ V)
    (ho : ∀ v ∈ V', ∀ u ∈ before v V, u ∈ before v V' ∨ c.orig u ≠ c.orig v) :
    Good c st V' :=
  { toScopeOK := h.toScopeOK.congr e ho
    top_iff := fun s => (h.top_iff s).trans
      ⟨fun ⟨u, hu, hs⟩ => ⟨u, (e u).mpr hu, hs⟩, fun ⟨u, hu, hs⟩ => ⟨u, (e u).mp hu, hs⟩⟩ }

theorem PV.frame {c : Cfg} {st st' : FixSt} {v : Nat} (h : PV c st v st') : Frame st st' := by
  refine ⟨?_, fun u hu => (h.seen_iff u).mpr (Or.inl hu)⟩
  intro u hu
  by_cases huv : u = v
  · subst huv; rw [h.noop hu]
  · exact h.others u huv

theorem PV.tail {c : Cfg} {st st' : FixSt} {v : Nat} (h : PV c st v st') : st'.vstack.tail = st.vstack.tail := by
  by_cases hv : v ∈ st.seen
  · rw [h.noop hv]
  · obtain ⟨n, _, _, _, e, _⟩ := h.fresh hv
    rw [e]; rfl

/-- one `_process_value` under the scoping rule -/
theorem processValue_Good {c : Cfg} (hc : c.OK) {st : FixSt} (inv : TInv c st) {V : List Nat}
    (good : Good c st V) {v : Nat} (hC : c.C v) (hsc : v ∈ st.seen → v ∈ V) :
    Good c (processValue st v) (V ++ [v]) := by
  have pv := processValue_PV hc inv hC
  by_cases hv : v ∈ st.seen
  · rw [pv.noop hv]
    refine good.congr (fun x => by simp only [List.mem_append, List.mem_singleton]; exact ⟨fun h => h.elim id (fun e => e ▸ hsc hv), Or.inl⟩) ?_
    intro x hx u hu
    have hxV : x ∈ V := (List.mem_append.mp hx).elim id (fun e => by simp at e; exact e ▸ hsc hv)
    rw [before_append_mem _ hxV]; exact Or.inl hu
  · obtain ⟨n, hn, hnne, hntop, hstk, hnres, hnkeep⟩ := pv.fresh hv
    have hvV : v ∉ V := fun h => hv (good.seen v h).1
    have hoth : ∀ u ∈ V, (processValue st v).vname u = st.vname u :=
      fun u hu => pv.others u (fun e => hvV (e ▸ hu))
    have htop : topOf (processValue st v).vstack = n :: topOf st.vstack := by rw [hstk]; rfl
    -- the value just processed: if its original name was not in the used set it is kept
    have hnew : truthy (c.orig v) = true → (∀ u ∈ V, c.orig u ≠ c.orig v) → (processValue st v).vname v = c.orig v := by
      intro h1 h2
      have horig : st.vname v = c.orig v := inv.unseen v hv
      obtain ⟨s, hs, hsne⟩ := truthy_iff.mp h1
      have hs' : st.vname v = some s := horig.trans hs
      have hnot : s ∉ topOf st.vstack := by
        intro hin
        obtain ⟨u, hu, hus⟩ := (good.top_iff s).mp hin
        rcases inv.j1 u with h | ⟨s', e1, e2, _⟩
        · exact h2 u hu (by rw [← h, hus, hs])
        · rw [hus] at e1; cases e1
          exact e2 (hc.res v s hC hs hsne)
      rw [hn, hnkeep s hs' hsne hnot, hs]
    refine { inj := ?_, seen := ?_, kept := ?_, first := ?_, top_iff := ?_ }
    · -- inj
      have key : ∀ a ∈ V, (processValue st v).vname a ≠ (processValue st v).vname v := by
        intro a ha e
        rw [hoth a ha, hn] at e
        exact hntop ((good.top_iff n).mpr ⟨a, ha, e⟩)
      intro a ha b hb hab
      simp only [List.mem_append, List.mem_singleton] at ha hb
      rcases ha with ha | rfl <;> rcases hb with hb | rfl
      · rw [hoth a ha, hoth b hb]; exact good.inj a ha b hb hab
      · exact key a ha
      · exact fun e => key b hb e.symm
      · exact absurd rfl hab
    · intro u hu
      simp only [List.mem_append, List.mem_singleton] at hu
      rcases hu with hu | rfl
      · rw [hoth u hu]; exact ⟨(pv.seen_iff u).mpr (Or.inl (good.seen u hu).1), (good.seen u hu).2⟩
      · exact ⟨(pv.seen_iff u).mpr (Or.inr rfl), truthy_iff.mpr ⟨n, hn, hnne⟩⟩
    · intro x hx h1 h2
      simp only [List.mem_append, List.mem_singleton] at hx
      rcases hx with hx | rfl
      · rw [hoth x hx]
        exact good.kept x hx h1 (fun u hu => h2 u (List.mem_append_left _ hu))
      · -- the value just processed: its original name was not in the used set
        have horig : st.vname x = c.orig x := inv.unseen x hv
        obtain ⟨s, hs, hsne⟩ := truthy_iff.mp h1
        have hs' : st.vname x = some s := horig.trans hs
        have hnot : s ∉ topOf st.vstack := by
          intro hin
          obtain ⟨u, hu, hus⟩ := (good.top_iff s).mp hin
          have hux : u ≠ x := fun e => hvV (e ▸ hu)
          rcases inv.j1 u with h | ⟨s', e1, e2, _⟩
          · exact h2 u (List.mem_append_left _ hu) hux (by rw [← h, hus, hs])
          · rw [hus] at e1; cases e1
            exact e2 (hc.res x s hC hs hsne)
        rw [hn, hnkeep s hs' hsne hnot, hs]
    · exact (good.first.fin_eq hoth).snoc hvV hnew
    · intro s
      rw [htop, List.mem_cons]
      simp only [List.mem_append, List.mem_singleton]
      constructor
      · rintro (rfl | h)
        · exact ⟨v, Or.inr rfl, hn⟩
        · obtain ⟨u, hu, hus⟩ := (good.top_iff s).mp h
          exact ⟨u, Or.inl hu, by rw [hoth u hu]; exact hus⟩
      · rintro ⟨u, hu | rfl, hus⟩
        · exact Or.inr ((good.top_iff s).mpr ⟨u, hu, by rw [← hoth u hu]; exact hus⟩)
        · rw [hn] at hus; exact Or.inl (Option.some.inj hus).symm

/-- what a run of steps on one level guarantees -/
structure Lvl (c : Cfg) (st st' : FixSt) (V' : List Nat) (S' : List Nat) : Prop where
  inv : TInv c st'
  good : Good c st' V'
  seenEq : ∀ x, x ∈ st'.seen ↔ x ∈ S'
  frame : Frame st st'

theorem processValues_Lvl {c : Cfg} (hc : c.OK) : ∀ (vs : List Nat) {st : FixSt} {V S : List Nat},
    TInv c st → Good c st V → (∀ x, x ∈ st.seen ↔ x ∈ S) → (∀ v ∈ vs, c.C v) →
    (∀ v ∈ vs, v ∈ S → v ∈ V) →
    Lvl c st (processValues st vs) (V ++ vs) (S ++ vs) ∧ (processValues st vs).vstack.tail = st.vstack.tail
  | [], st, V, S, inv, good, hS, _, _ => by
    simp only [processValues, List.foldl_nil, List.append_nil]
    exact ⟨⟨inv, good, hS, Frame.refl st⟩, trivial⟩
  | v :: vs, st, V, S, inv, good, hS, hC, hsc => by
    have pv := processValue_PV hc inv (hC v List.mem_cons_self)
    have g1 := processValue_Good hc inv good (hC v List.mem_cons_self)
      (fun h => hsc v List.mem_cons_self ((hS v).mp h))
    have hS1 : ∀ x, x ∈ (processValue st v).seen ↔ x ∈ S ++ [v] := by
      intro x; rw [pv.seen_iff x, hS x]; simp
    have ih := processValues_Lvl hc vs pv.inv g1 hS1 (fun u hu => hC u (List.mem_cons_of_mem _ hu))
      (fun u hu h => by
        simp only [List.mem_append, List.mem_singleton] at h ⊢
        rcases h with h | h
        · exact Or.inl (hsc u (List.mem_cons_of_mem _ hu) h)
        · exact Or.inr h)
    have e : processValues st (v :: vs) = processValues (processValue st v) vs := by
      simp [processValues]
    rw [e]
    refine ⟨⟨ih.1.inv, ?_, ?_, pv.frame.trans ih.1.frame⟩, ih.2.trans pv.tail⟩
    · simpa [List.append_assoc] using ih.1.good
    · simpa [List.append_assoc] using ih.1.seenEq


/-! ### steps that do not touch values -/

theorem InitsOk.of_eq {w w' : World} (h : InitsOk w) (e1 : w'.vname = w.vname) (e2 : w'.initOf = w.initOf)
    (e3 : w'.dicts = w.dicts) : InitsOk w' :=
  ⟨fun g k v hm => by rw [e1, e2]; exact h.key_name g k v (e3 ▸ hm), fun g => by rw [e3]; exact h.keys_nodup g,
   fun v g hv => by rw [e3]; exact h.complete v g (e2 ▸ hv)⟩

/-- two states that agree on everything values are concerned with -/
structure VEq (st st' : FixSt) : Prop where
  vname : st'.vname = st.vname
  initOf : st'.initOf = st.initOf
  dicts : st'.dicts = st.dicts
  seen : st'.seen = st.seen
  vcnt : st'.vcnt = st.vcnt
  resV : st'.resV = st.resV
  raised : st'.raised = st.raised

theorem TInv.of_VEq {c : Cfg} {st st' : FixSt} (h : TInv c st) (e : VEq st st') : TInv c st' :=
  ⟨e.raised ▸ h.nr, h.ok.of_eq e.vname e.initOf e.dicts, e.initOf ▸ h.io, e.resV ▸ h.res,
   fun u => by rw [e.vname, e.vcnt]; exact h.j1 u, fun u hu => by rw [e.vname]; exact h.unseen u (e.seen ▸ hu),
   fun u hu => by rw [e.vname]; exact h.outside u hu⟩

theorem ScopeOK.of_VEq {c : Cfg} {st st' : FixSt} {L : List Nat} (h : ScopeOK c st L) (e : VEq st st') :
    ScopeOK c st' L :=
  ⟨fun a ha b hb hab => by rw [e.vname]; exact h.inj a ha b hb hab,
   fun u hu => by rw [e.vname, e.seen]; exact h.seen u hu,
   fun v hv h1 h2 => by rw [e.vname]; exact h.kept v hv h1 h2,
   by rw [e.vname]; exact h.first⟩

theorem Good.of_VEq {c : Cfg} {st st' : FixSt} {V : List Nat} (h : Good c st V) (e : VEq st st')
    (et : topOf st'.vstack = topOf st.vstack) : Good c st' V :=
  { toScopeOK := h.toScopeOK.of_VEq e
    top_iff := fun s => by rw [et, e.vname]; exact h.top_iff s }

theorem Frame.of_VEq {st st' : FixSt} (e : VEq st st') : Frame st st' :=
  ⟨fun u _ => by rw [e.vname], fun u hu => by rw [e.seen]; exact hu⟩

theorem fixNodeName_VEq {st : FixSt} (n : Nat) :
    VEq st (fixNodeName st n) ∧ (fixNodeName st n).vstack = st.vstack := by
  unfold fixNodeName
  split
  · exact ⟨⟨rfl, rfl, rfl, rfl, rfl, rfl, rfl⟩, rfl⟩
  · dsimp only
    split
    · exact ⟨⟨rfl, rfl, rfl, rfl, rfl, rfl, rfl⟩, rfl⟩
    · split <;> exact ⟨⟨rfl, rfl, rfl, rfl, rfl, rfl, rfl⟩, rfl⟩

/-! ### entering a graph -/

/-- what the hypotheses of the traversal say about the values the call can meet -/
structure HC (c : Cfg) (t : Tr) : Prop where
  ment : ∀ v ∈ mentioned t, c.C v
  graphs : ∀ g ∈ graphsOf t, ∀ u, c.io u = some g → c.C u

theorem all_imp {vs S V : List Nat} (h : vs.all (fun v => !S.contains v || V.contains v) = true) :
    ∀ v ∈ vs, v ∈ S → v ∈ V := by
  intro v hv hS
  have := List.all_eq_true.mp h v hv
  simp only [Bool.or_eq_true, Bool.not_eq_true', List.contains_eq_mem, decide_eq_false_iff_not, decide_eq_true_eq] at this
  exact this.elim (fun h => absurd hS h) id

/-- the push of `enter_graph` -/
def pushScope (st : FixSt) : FixSt :=
  { st with vstack := topOf st.vstack :: st.vstack, nstack := [] :: st.nstack }

theorem enterGraph_eq {st : FixSt} (h : st.raised = false) (g : Nat) (isG : Bool) (ins outs bouts : List Nat) :
    enterGraph st g isG ins outs bouts =
      processValues
        (if isG = true then
          processValues (processValues (processValues (pushScope st) ins) outs)
            (((processValues (processValues (pushScope st) ins) outs).dicts g).map (·.2))
        else processValues (processValues (pushScope st) ins) outs) bouts := by
  unfold enterGraph
  rw [if_neg (by simp [h])]
  rfl

theorem enterGraph_Lvl {c : Cfg} (hc : c.OK) (iv : Nat → List Nat) (hiv : ∀ g u, u ∈ iv g ↔ c.io u = some g)
    {st : FixSt} {V S : List Nat} (inv : TInv c st) (good : Good c st V) (hS : ∀ x, x ∈ st.seen ↔ x ∈ S)
    (g : Nat) (isG : Bool) (ins outs bouts : List Nat)
    (hC1 : ∀ v ∈ ins ++ outs ++ bouts, c.C v) (hC2 : isG = true → ∀ u, c.io u = some g → c.C u)
    (hsc : ∀ v ∈ gvals iv g isG ins outs bouts, v ∈ S → v ∈ V) :
    Lvl c st (enterGraph st g isG ins outs bouts) (V ++ gvals iv g isG ins outs bouts) (S ++ gvals iv g isG ins outs bouts)
    ∧ (enterGraph st g isG ins outs bouts).vstack.tail = st.vstack := by
  rw [enterGraph_eq inv.nr]
  -- the push
  generalize hst0 : pushScope st = st0
  have e0 : VEq st st0 := by subst hst0; exact ⟨rfl, rfl, rfl, rfl, rfl, rfl, rfl⟩
  have etop : topOf st0.vstack = topOf st.vstack := by subst hst0; rfl
  have etail : st0.vstack.tail = st.vstack := by subst hst0; rfl
  have inv0 : TInv c st0 := inv.of_VEq e0
  have good0 : Good c st0 V := good.of_VEq e0 etop
  have hS0 : ∀ x, x ∈ st0.seen ↔ x ∈ S := by rw [e0.seen]; exact hS
  have hg : ∀ v, v ∈ gvals iv g isG ins outs bouts ↔ (v ∈ ins ∨ v ∈ outs ∨ (isG = true ∧ v ∈ iv g) ∨ v ∈ bouts) := by
    intro v; unfold gvals; cases isG <;> simp
  -- inputs
  obtain ⟨l1, t1⟩ := processValues_Lvl hc ins inv0 good0 hS0
    (fun v hv => hC1 v (List.mem_append_left _ (List.mem_append_left _ hv)))
    (fun v hv h => hsc v ((hg v).mpr (Or.inl hv)) h)
  -- outputs
  obtain ⟨l2, t2⟩ := processValues_Lvl hc outs l1.inv l1.good l1.seenEq
    (fun v hv => hC1 v (List.mem_append_left _ (List.mem_append_right _ hv)))
    (fun v hv h => by
      simp only [List.mem_append] at h ⊢
      exact h.elim (fun h => Or.inl (hsc v ((hg v).mpr (Or.inr (Or.inl hv))) h)) Or.inr)
  -- initializers (a snapshot read now), uniformly for both cases of `isG`
  have step3 : ∃ X : List Nat, (∀ x, x ∈ X ↔ (isG = true ∧ x ∈ iv g)) ∧
      Lvl c (processValues (processValues st0 ins) outs)
        (if isG = true then
          processValues (processValues (processValues st0 ins) outs)
            (((processValues (processValues st0 ins) outs).dicts g).map (·.2))
        else processValues (processValues st0 ins) outs) (V ++ ins ++ outs ++ X) (S ++ ins ++ outs ++ X)
      ∧ (if isG = true then
          processValues (processValues (processValues st0 ins) outs)
            (((processValues (processValues st0 ins) outs).dicts g).map (·.2))
        else processValues (processValues st0 ins) outs).vstack.tail = (processValues (processValues st0 ins) outs).vstack.tail := by
    cases isG with
    | false =>
      refine ⟨[], fun x => by simp, ?_, rfl⟩
      simp only [Bool.false_eq_true, if_false, List.append_nil]
      exact ⟨l2.inv, l2.good, l2.seenEq, Frame.refl _⟩
    | true =>
      simp only [if_true]
      have hdict : ∀ u, u ∈ ((processValues (processValues st0 ins) outs).dicts g).map (·.2) ↔ u ∈ iv g := by
        intro u
        rw [l2.inv.ok.mem_iff g u, hiv g u, l2.inv.io]
      obtain ⟨l3, t3⟩ := processValues_Lvl hc (((processValues (processValues st0 ins) outs).dicts g).map (·.2))
        l2.inv l2.good l2.seenEq (fun v hv => hC2 rfl v ((hiv g v).mp ((hdict v).mp hv)))
        (fun v hv h => by
          simp only [List.mem_append] at h ⊢
          rcases h with (h | h) | h
          · exact Or.inl (Or.inl (hsc v ((hg v).mpr (Or.inr (Or.inr (Or.inl ⟨rfl, (hdict v).mp hv⟩)))) h))
          · exact Or.inl (Or.inr h)
          · exact Or.inr h)
      exact ⟨_, fun x => by rw [hdict x]; simp, l3, t3⟩
  obtain ⟨X, hX, l3, t3⟩ := step3
  -- the outputs of the graph's own nodes
  obtain ⟨l4, t4⟩ := processValues_Lvl hc bouts l3.inv l3.good l3.seenEq
    (fun v hv => hC1 v (List.mem_append_right _ hv))
    (fun v hv h => by
      simp only [List.mem_append] at h ⊢
      rcases h with ((h | h) | h) | h
      · exact Or.inl (Or.inl (Or.inl (hsc v ((hg v).mpr (Or.inr (Or.inr (Or.inr hv)))) h)))
      · exact Or.inl (Or.inl (Or.inr h))
      · exact Or.inl (Or.inr h)
      · exact Or.inr h)
  have hY : ∀ x, x ∈ X ↔ x ∈ (if isG = true then iv g else []) := by
    intro x; rw [hX x]; cases isG <;> simp
  have hlist : V ++ gvals iv g isG ins outs bouts = (V ++ ins ++ outs) ++ (if isG = true then iv g else []) ++ bouts := by
    simp [gvals, List.append_assoc]
  refine ⟨⟨l4.inv, l4.good.congr ?_ ?_, ?_, (Frame.of_VEq e0).trans (l1.frame.trans (l2.frame.trans (l3.frame.trans l4.frame)))⟩, ?_⟩
  · intro x; simp only [List.mem_append, hg x, hX x, or_assoc]
  · -- the initializers were visited in dictionary order at that moment; different initializers of one graph
    -- had different names, so their relative order does not matter
    intro x _ u hu
    rw [hlist]
    rcases before_seg hY hu with h | ⟨h1, h2, h3⟩
    · exact Or.inl h
    · exact Or.inr (fun e => h3 (hc.inj g u x ((hiv g u).mp ((hX u).mp h1).2) ((hiv g x).mp ((hX x).mp h2).2) e))
  · intro x; rw [l4.seenEq x]; simp only [List.mem_append, hg x, hX x, or_assoc]
  · rw [t4, t3, t2, t1, etail]

/-! ### leaving a graph; the traversal -/

theorem exitGraph_eq {st : FixSt} (h : st.raised = false) :
    exitGraph st = { st with vstack := st.vstack.tail, nstack := st.nstack.tail } := by
  unfold exitGraph
  rw [if_neg (by simp [h])]

theorem exitGraph_VEq {st : FixSt} (h : st.raised = false) :
    VEq st (exitGraph st) ∧ (exitGraph st).vstack = st.vstack.tail := by
  rw [exitGraph_eq h]
  exact ⟨⟨rfl, rfl, rfl, rfl, rfl, rfl, rfl⟩, rfl⟩

theorem VEq.trans {a b c : FixSt} (h1 : VEq a b) (h2 : VEq b c) : VEq a c :=
  ⟨h2.vname.trans h1.vname, h2.initOf.trans h1.initOf, h2.dicts.trans h1.dicts, h2.seen.trans h1.seen,
   h2.vcnt.trans h1.vcnt, h2.resV.trans h1.resV, h2.raised.trans h1.raised⟩

theorem HC.node {c : Cfg} {n : Nat} {ins : List (Option Nat)} {outs : List Nat} {subs rest : Tr}
    (h : HC c (.node n ins outs subs rest)) :
    (∀ v ∈ nodeVals ins outs, c.C v) ∧ HC c subs ∧ HC c rest := by
  refine ⟨fun v hv => h.ment v (by simp [mentioned, hv]), ⟨?_, ?_⟩, ⟨?_, ?_⟩⟩
  · intro v hv; exact h.ment v (by simp [mentioned, hv])
  · intro g hg; exact h.graphs g (by simp [graphsOf, hg])
  · intro v hv; exact h.ment v (by simp [mentioned, hv])
  · intro g hg; exact h.graphs g (by simp [graphsOf, hg])

theorem bodyOuts_sub_mentioned : ∀ (t : Tr) (v : Nat), v ∈ bodyOuts t → v ∈ mentioned t := by
  intro t
  induction t with
  | nil => intro v h; simp [bodyOuts] at h
  | node n ins outs subs rest _ ihr =>
    intro v h
    simp only [bodyOuts, List.mem_append] at h
    simp only [mentioned, nodeVals, List.mem_append]
    rcases h with h | h
    · exact Or.inl (Or.inr h)
    · exact Or.inr (Or.inr (ihr v h))
  | graph g isG ins outs body rest _ ihr =>
    intro v h
    simp only [bodyOuts] at h
    simp only [mentioned, List.mem_append]
    exact Or.inr (Or.inr (ihr v h))

theorem HC.graph {c : Cfg} {g : Nat} {isG : Bool} {ins outs : List Nat} {body rest : Tr}
    (h : HC c (.graph g isG ins outs body rest)) :
    (∀ v ∈ ins ++ outs ++ bodyOuts body, c.C v) ∧ (isG = true → ∀ u, c.io u = some g → c.C u) ∧ HC c body ∧ HC c rest := by
  refine ⟨fun v hv => h.ment v ?_, fun hG => h.graphs g (by simp [graphsOf, hG]), ⟨?_, ?_⟩, ⟨?_, ?_⟩⟩
  · simp only [List.mem_append] at hv; simp only [mentioned, List.mem_append]
    rcases hv with hv | hv
    · exact Or.inl hv
    · exact Or.inr (Or.inl (bodyOuts_sub_mentioned body v hv))
  · intro v hv; exact h.ment v (by simp [mentioned, hv])
  · intro g' hg; exact h.graphs g' (by simp [graphsOf, hg])
  · intro v hv; exact h.ment v (by simp [mentioned, hv])
  · intro g' hg; exact h.graphs g' (by simp [graphsOf, hg])

/-- **the induction over the traversal**: under the scoping rule every step keeps the invariant,
and every graph that is left satisfies the postcondition on its list of visible values. -/
theorem runTr_Lvl {c : Cfg} (hc : c.OK) (iv : Nat → List Nat) (hiv : ∀ g u, u ∈ iv g ↔ c.io u = some g) :
    ∀ (t : Tr) {st : FixSt} {V S : List Nat}, TInv c st → Good c st V → (∀ x, x ∈ st.seen ↔ x ∈ S) →
      HC c t → scopedB iv t S V = true →
      Lvl c st (runTr t st) (bodyVis t V) (seenAfter iv t S)
      ∧ (runTr t st).vstack.tail = st.vstack.tail
      ∧ ∀ L ∈ allScopes iv t V, ScopeOK c (runTr t st) L := by
  intro t
  induction t with
  | nil =>
    intro st V S inv good hS _ _
    exact ⟨⟨inv, good, hS, Frame.refl st⟩, rfl, fun L hL => by simp [allScopes] at hL⟩
  | node n ins outs subs rest ihs ihr =>
    intro st V S inv good hS hC hsc
    obtain ⟨hC1, hCs, hCr⟩ := hC.node
    simp only [scopedB, Bool.and_eq_true] at hsc
    obtain ⟨⟨hsc1, hsc2⟩, hsc3⟩ := hsc
    simp only [runTr, visitNode, bodyVis, seenAfter, allScopes]
    -- the node's name, then its values
    obtain ⟨e1, ev1⟩ := fixNodeName_VEq (st := st) n
    have inv1 := inv.of_VEq e1
    have good1 : Good c (fixNodeName st n) V := good.of_VEq e1 (by rw [ev1])
    have hS1 : ∀ x, x ∈ (fixNodeName st n).seen ↔ x ∈ S := by rw [e1.seen]; exact hS
    obtain ⟨l2, t2⟩ := processValues_Lvl hc (nodeVals ins outs) inv1 good1 hS1 hC1 (all_imp hsc1)
    -- the graphs held by the node, then the following nodes
    obtain ⟨l3, t3, s3⟩ := ihs l2.inv l2.good l2.seenEq hCs hsc2
    obtain ⟨l4, t4, s4⟩ := ihr l3.inv l3.good l3.seenEq hCr hsc3
    refine ⟨⟨l4.inv, l4.good, l4.seenEq, (Frame.of_VEq e1).trans (l2.frame.trans (l3.frame.trans l4.frame))⟩, ?_, ?_⟩
    · rw [t4, t3, t2, ev1]
    · intro L hL
      rcases List.mem_append.mp hL with hL | hL
      · exact (s3 L hL).frame l4.frame
      · exact s4 L hL
  | graph g isG ins outs body rest ihb ihr =>
    intro st V S inv good hS hC hsc
    obtain ⟨hC1, hC2, hCb, hCr⟩ := hC.graph
    simp only [scopedB, Bool.and_eq_true] at hsc
    obtain ⟨⟨hsc1, hsc2⟩, hsc3⟩ := hsc
    simp only [runTr, bodyVis, seenAfter, allScopes]
    -- entered by `_iterate_subgraphs` ...
    obtain ⟨l1, t1⟩ := enterGraph_Lvl hc iv hiv inv good hS g isG ins outs (bodyOuts body) hC1 hC2 (all_imp hsc1)
    -- ... and again by the nested iterator: everything is seen already
    obtain ⟨l2, t2⟩ := enterGraph_Lvl hc iv hiv l1.inv l1.good l1.seenEq g isG ins outs (bodyOuts body) hC1 hC2
      (fun v hv _ => List.mem_append_right _ hv)
    have good2 : Good c (enterGraph (enterGraph st g isG ins outs (bodyOuts body)) g isG ins outs (bodyOuts body)) (V ++ gvals iv g isG ins outs (bodyOuts body)) :=
      l2.good.congr (fun x => by simp only [List.mem_append]; exact ⟨Or.inl, fun h => h.elim id Or.inr⟩)
        (fun x hx u hu => by rw [before_append_mem _ hx] at hu; exact Or.inl hu)
    have hS2 : ∀ x, x ∈ (enterGraph (enterGraph st g isG ins outs (bodyOuts body)) g isG ins outs (bodyOuts body)).seen ↔ x ∈ S ++ gvals iv g isG ins outs (bodyOuts body) := by
      intro x; rw [l2.seenEq x]; simp only [List.mem_append]; exact ⟨fun h => h.elim id Or.inr, Or.inl⟩
    -- the body
    obtain ⟨l3, t3, s3⟩ := ihb l2.inv good2 hS2 hCb hsc2
    -- left twice
    obtain ⟨e4, ev4⟩ := exitGraph_VEq l3.inv.nr
    have inv4 := l3.inv.of_VEq e4
    obtain ⟨e5, ev5⟩ := exitGraph_VEq inv4.nr
    have inv5 := inv4.of_VEq e5
    have e35 := e4.trans e5
    have hstk : (exitGraph (exitGraph (runTr body (enterGraph (enterGraph st g isG ins outs (bodyOuts body)) g isG ins outs (bodyOuts body))))).vstack = st.vstack := by
      rw [ev5, ev4, t3, t2, t1]
    have fr05 : Frame st (exitGraph (exitGraph (runTr body (enterGraph (enterGraph st g isG ins outs (bodyOuts body)) g isG ins outs (bodyOuts body))))) :=
      l1.frame.trans (l2.frame.trans (l3.frame.trans (Frame.of_VEq e35)))
    have good5 : Good c (exitGraph (exitGraph (runTr body (enterGraph (enterGraph st g isG ins outs (bodyOuts body)) g isG ins outs (bodyOuts body))))) V :=
      { toScopeOK := good.toScopeOK.frame fr05
        top_iff := fun s => by
          rw [hstk, good.top_iff s]
          constructor
          · rintro ⟨u, hu, hs⟩; exact ⟨u, hu, by rw [fr05.names u (good.seen u hu).1]; exact hs⟩
          · rintro ⟨u, hu, hs⟩; exact ⟨u, hu, by rw [← fr05.names u (good.seen u hu).1]; exact hs⟩ }
    have hS5 : ∀ x, x ∈ (exitGraph (exitGraph (runTr body (enterGraph (enterGraph st g isG ins outs (bodyOuts body)) g isG ins outs (bodyOuts body))))).seen
        ↔ x ∈ seenAfter iv body (S ++ gvals iv g isG ins outs (bodyOuts body)) := by
      rw [e35.seen]; exact l3.seenEq
    -- the following sibling graphs
    obtain ⟨l6, t6, s6⟩ := ihr inv5 good5 hS5 hCr hsc3
    refine ⟨⟨l6.inv, l6.good, l6.seenEq, fr05.trans l6.frame⟩, ?_, ?_⟩
    · rw [t6, hstk]
    · intro L hL
      rcases List.mem_cons.mp hL with rfl | hL
      · exact ((l3.good.toScopeOK).of_VEq e35).frame l6.frame
      · rcases List.mem_append.mp hL with hL | hL
        · exact ((s3 L hL).of_VEq e35).frame l6.frame
        · exact s6 L hL

end IrVerif.Names

/-
C14 (deepening): a weighted node count is a measure of CSE except for one kind of rewrite.
-/
import IrVerif.Model.PassFlags2
import IrVerif.Lemmas.PassFlags8
namespace IrVerif.PassFlags
open IrVerif.Sem IrVerif.Passes

theorem filter_len_mono {α : Type} (p q : α → Bool) (h : ∀ a, p a = true → q a = true) : ∀ l : List α,
    (l.filter p).length ≤ (l.filter q).length
  | [] => Nat.le_refl _
  | a :: l => by
    have ih := filter_len_mono p q h l
    simp only [List.filter_cons]
    cases hp : p a
    · simp only [Bool.false_eq_true, if_false]; split <;> (try simp only [List.length_cons]) <;> omega
    · simp only [h a hp, if_true, List.length_cons]; omega

theorem filter_len_lt {α : Type} (p q : α → Bool) (h : ∀ a, p a = true → q a = true) : ∀ (l : List α) (x : α),
    x ∈ l → p x = false → q x = true → (l.filter p).length < (l.filter q).length
  | [], _, hx, _, _ => by simp at hx
  | a :: l, x, hx, hp, hq => by
    have hm := filter_len_mono p q h l
    simp only [List.filter_cons]
    rcases List.mem_cons.1 hx with e | hx
    · subst e
      simp only [hp, hq, Bool.false_eq_true, if_false, if_true, List.length_cons]; omega
    · have ih := filter_len_lt p q h l x hx hp hq
      cases hpa : p a
      · simp only [Bool.false_eq_true, if_false]; split <;> (try simp only [List.length_cons]) <;> omega
      · simp only [h a hpa, if_true, List.length_cons]; omega

/-- keys of `pairs` not yet in the `replaced` dictionary -/
def openKeys (pairs rep : List (VId × VId)) : Nat :=
  ((pairs.map Prod.fst).filter (fun k => (rep.lookup k).isNone)).length

theorem openKeys_cons_le (pairs rep : List (VId × VId)) (e : VId × VId) :
    openKeys pairs (e :: rep) ≤ openKeys pairs rep := by
  obtain ⟨k, v⟩ := e
  apply filter_len_mono
  intro a ha
  simp only [List.lookup_cons] at ha
  split at ha
  · simp at ha
  · exact ha

theorem openKeys_cons_lt (pairs rep : List (VId × VId)) (o w z : VId) (hp : pairs.lookup o = some z)
    (hr : rep.lookup o = none) : openKeys pairs ((o, w) :: rep) < openKeys pairs rep := by
  apply filter_len_lt _ _ _ _ o
  · exact List.mem_map.2 ⟨(o, z), mem_of_lookup' hp, rfl⟩
  · simp [List.lookup_cons]
  · simp [hr]
  · intro a ha
    simp only [List.lookup_cons] at ha
    split at ha
    · simp at ha
    · exact ha

/-- an Identity node is inserted at most once per replaced value -/
theorem cseFixOuts_len (gins : List VId) (pairs : List (VId × VId)) : ∀ (outs : List VId) (rep : List (VId × VId))
    (done : List VId), (cseFixOuts gins pairs rep done outs).2.length ≤ openKeys pairs rep
  | [], _, _ => by simp [cseFixOuts]
  | o :: rest, rep, done => by
    simp only [cseFixOuts]
    cases hr : rep.lookup o with
    | some w => exact cseFixOuts_len gins pairs rest rep _
    | none =>
      cases hp : pairs.lookup o with
      | none => exact cseFixOuts_len gins pairs rest rep _
      | some z =>
        simp only
        split
        · have ih := cseFixOuts_len gins pairs rest ((o, o) :: rep) (done ++ [o])
          have := openKeys_cons_lt pairs rep o o z hp hr
          simp only [List.length_cons]; omega
        · have ih := cseFixOuts_len gins pairs rest ((o, z) :: rep) (done ++ [z])
          have := openKeys_cons_le pairs rep (o, z)
          omega

theorem cseFixOuts_wt (gins : List VId) (pairs : List (VId × VId)) : ∀ (outs : List VId) (rep : List (VId × VId))
    (done : List VId), cseW (cseFixOuts gins pairs rep done outs).2 = (cseFixOuts gins pairs rep done outs).2.length
  | [], _, _ => by simp [cseFixOuts, cseW]
  | o :: rest, rep, done => by
    simp only [cseFixOuts]
    cases hr : rep.lookup o with
    | some w => exact cseFixOuts_wt gins pairs rest rep _
    | none =>
      cases hp : pairs.lookup o with
      | none => exact cseFixOuts_wt gins pairs rest rep _
      | some z =>
        simp only
        split
        · have ih := cseFixOuts_wt gins pairs rest ((o, o) :: rep) (done ++ [o])
          simp only [cseW, List.map_cons, List.sum_cons, List.length_cons] at ih ⊢
          have : cseWt (identityNode z o) = 1 := by simp [cseWt, identityNode, isIdentityOp]
          rw [this, ih]; omega
        · exact cseFixOuts_wt gins pairs rest ((o, z) :: rep) (done ++ [z])

theorem cseFixOuts_le_nouts (gins : List VId) (nouts zs outs : List VId) :
    (cseFixOuts gins (nouts.zip zs) [] [] outs).2.length ≤ nouts.length := by
  have h := cseFixOuts_len gins (nouts.zip zs) outs [] []
  have h2 : openKeys (nouts.zip zs) [] ≤ nouts.length := by
    simp only [openKeys]
    refine Nat.le_trans (List.length_filter_le _ _) ?_
    simp only [List.length_map, List.length_zip]
    exact Nat.min_le_left _ _
  omega

theorem cseW_append (a b : List Node) : cseW (a ++ b) = cseW a + cseW b := by
  simp [cseW, List.sum_append]

/-- every elimination lowers the weighted node count, except the "stalled" ones -/
theorem cseNodes_weight (limit : Nat) (gins : List VId) : ∀ (ns tbl : List Node) (σ : Subst) (outs : List VId),
    cseW (cseNodes limit gins tbl σ outs ns).nodes + cseCnt limit gins tbl σ outs ns ≤
      cseW ns + cseStall limit gins tbl σ outs ns
  | [], _, _, _ => Nat.le_refl _
  | .mk op attrs ins nouts bodies :: ns, tbl, σ, outs => by
    have hw : cseWt (.mk op attrs (substIns σ ins) nouts (substBodies σ bodies)) = cseWt (.mk op attrs ins nouts bodies) := rfl
    by_cases hs : cseSkip limit op attrs bodies = true
    · have ih := cseNodes_weight limit gins ns tbl σ outs
      simp only [cseNodes, cseCnt, cseStall, hs, if_true, cseW, List.map_cons, List.sum_cons, hw] at ih ⊢
      omega
    · cases hf : tbl.find? (fun n1 => cseKeyMatch n1 (.mk op attrs (substIns σ ins) nouts (substBodies σ bodies))) with
      | none =>
        have ih := cseNodes_weight limit gins ns
          (tbl ++ [.mk op attrs (substIns σ ins) nouts (substBodies σ bodies)]) σ outs
        simp only [cseNodes, cseCnt, cseStall, hs, Bool.false_eq_true, if_false, hf, cseW, List.map_cons,
          List.sum_cons, hw] at ih ⊢
        omega
      | some n1 =>
        have ih := cseNodes_weight limit gins ns tbl (nouts.zip n1.outs ++ σ)
          (cseFixOuts gins (nouts.zip n1.outs) [] [] outs).1
        have hj := cseFixOuts_le_nouts gins nouts n1.outs outs
        have hwt := cseFixOuts_wt gins (nouts.zip n1.outs) outs [] []
        simp only [cseNodes, cseCnt, cseStall, hs, Bool.false_eq_true, if_false, hf, cseW_append]
        have hn : cseW (.mk op attrs ins nouts bodies :: ns) = cseWt (.mk op attrs ins nouts bodies) + cseW ns := by
          simp [cseW]
        rw [hn, hwt]
        simp only [cseWt]
        by_cases hid : (isIdentityOp op && nouts.length == 1) = true
        · simp only [hid, if_true, Bool.true_and]
          have h1 : nouts.length = 1 := by
            simp only [Bool.and_eq_true, beq_iff_eq] at hid; exact hid.2
          cases he : (cseFixOuts gins (nouts.zip n1.outs) [] [] outs).2 with
          | nil => simp only [he, List.length_nil, List.isEmpty_nil, Bool.not_true, Bool.false_eq_true, if_false] at ih hj ⊢; omega
          | cons a l =>
            simp only [he, List.length_cons, List.isEmpty_cons, Bool.not_false, if_true] at ih hj ⊢
            omega
        · simp only [hid, Bool.false_eq_true, if_false, Bool.false_and]
          omega

end IrVerif.PassFlags

import IrVerif.Lemmas.SerdeOutdup
/-! C02 deepening, E4: `WFproto p -> outdup p = p` (so `canonD = merge ∘ outdup ∘ fold` is the identity
on `WFproto`), and the deserialize-equalities of `canonD` for the stand-alone entry points (nodes,
attributes, graphs, functions). -/
namespace IrVerif.Serde
open IrVerif.Proto

/-! ### identical entries are left alone -/

theorem foldl_mdStep_replicate (vo : ValueInfoP) : ∀ (k : Nat) (d : Dict),
    (List.replicate k vo).foldl mdStep (dictUpdate d (dictOfEntries vo.metadata))
      = dictUpdate d (dictOfEntries vo.metadata)
  | 0, _ => rfl
  | k + 1, d => by
    rw [List.replicate_succ, List.foldl_cons]
    show (List.replicate k vo).foldl mdStep
      (dictUpdate (dictUpdate d (dictOfEntries vo.metadata)) (dictOfEntries vo.metadata)) = _
    rw [dictUpdate_idem _ _ (nodup_dkeys_dictOfEntries _)]
    exact foldl_mdStep_replicate vo k d

theorem unionMd_replicate (vo : ValueInfoP) (k : Nat) :
    unionMd (List.replicate (k + 1) vo) = dictOfEntries vo.metadata := by
  rw [unionMd_eq, List.replicate_succ, List.foldl_cons]
  show (List.replicate k vo).foldl mdStep (dictUpdate [] (dictOfEntries vo.metadata)) = _
  rw [foldl_mdStep_replicate, dictUpdate_nil _ (nodup_dkeys_dictOfEntries _)]

theorem entriesOfDict_dictOfEntries {es : List Entry} (h : wfEntries es = true) :
    entriesOfDict (dictOfEntries es) = es := by
  rw [dictOfEntries_of_nodup (nodupStr_iff.1 h)]
  simp [entriesOfDict, pairOf, List.map_map, Function.comp_def]

theorem outdupVI_of_cons (S : List String) {outputs : List ValueInfoP} (hc : ConsOut outputs)
    (hwf : outputs.all wfVI = true) {vo : ValueInfoP} (hvo : vo ∈ outputs) :
    outdupVI S outputs vo = vo := by
  unfold outdupVI
  split
  · rw [findVI_of_mem_cons hc hvo]
    obtain ⟨k, hk⟩ := filter_of_consOut hc hvo
    have hs : sameName outputs vo = List.replicate (k + 1) vo := hk
    have hwfvo := List.all_eq_true.1 hwf vo hvo
    simp only [wfVI, Bool.and_eq_true] at hwfvo
    simp only [hs, unionMd_replicate, entriesOfDict_dictOfEntries hwfvo.2]
  · rfl

mutual
theorem outdupAttr_of_wf (scopes : Scopes) : ∀ a : AttrP, wfAttr scopes a = true → outdupAttr a = a
  | .ref .., _ => rfl
  | .int .., _ => rfl
  | .float .., _ => rfl
  | .string .., _ => rfl
  | .ints .., _ => rfl
  | .floats .., _ => rfl
  | .strings .., _ => rfl
  | .tensor .., _ => rfl
  | .tensors .., _ => rfl
  | .graph n d g, h => by
    simp only [wfAttr] at h
    simp only [outdupAttr, outdupGraph_of_wf scopes g h]
  | .graphs n d gs, h => by
    simp only [wfAttr] at h
    simp only [outdupAttr, outdupGraphs_of_wf scopes gs h]
  | .typeProto .., _ => rfl
  | .typeProtos .., _ => rfl
  | .undefined .., _ => rfl
  | .sparse .., _ => rfl
  | .unknown .., _ => rfl

theorem outdupGraphs_of_wf (scopes : Scopes) : ∀ gs : List GraphP, wfGraphs scopes gs = true →
    outdupGraphs gs = gs
  | [], _ => rfl
  | g :: gs, h => by
    simp only [wfGraphs, Bool.and_eq_true] at h
    simp only [outdupGraphs, outdupGraph_of_wf scopes g h.1, outdupGraphs_of_wf scopes gs h.2]

theorem outdupAttrs_of_wf (scopes : Scopes) : ∀ as : List AttrP, wfAttrs scopes as = true →
    outdupAttrs as = as
  | [], _ => rfl
  | a :: as, h => by
    simp only [wfAttrs, Bool.and_eq_true] at h
    simp only [outdupAttrs, outdupAttr_of_wf scopes a h.1, outdupAttrs_of_wf scopes as h.2]

theorem outdupNode_of_wf (scopes : Scopes) : ∀ n : NodeP, wfNode scopes n = true → outdupNode n = n
  | .mk inputs outputs name opType domain overload doc attrs metadata devcfgs, h => by
    simp only [wfNode, Bool.and_eq_true] at h
    simp only [outdupNode, outdupAttrs_of_wf scopes attrs h.1.1.2]

theorem outdupNodes_of_wf (scopes : Scopes) : ∀ ns : List NodeP, wfNodes scopes ns = true →
    outdupNodes ns = ns
  | [], _ => rfl
  | n :: ns, h => by
    simp only [wfNodes, Bool.and_eq_true] at h
    simp only [outdupNodes, outdupNode_of_wf scopes n h.1, outdupNodes_of_wf scopes ns h.2]

theorem outdupGraph_of_wf (outer : Scopes) : ∀ g : GraphP, wfGraph outer g = true → outdupGraph g = g
  | .mk name doc nodes inits inputs outputs vis quant md, h => by
    obtain ⟨hw, hwn⟩ := graphWF_of_wf outer name doc nodes inits inputs outputs vis quant md h
    have e1 : outputs.map (outdupVI (scopeNames (inputs.map (·.name)) (inits.map (·.name))
        (nodeOutNames nodes)) outputs) = outputs := by
      have hid : ∀ vo ∈ outputs, outdupVI (scopeNames (inputs.map (·.name)) (inits.map (·.name))
          (nodeOutNames nodes)) outputs vo = id vo :=
        fun vo hvo => outdupVI_of_cons _ hw.consOut hw.wfOut hvo
      rw [List.map_congr_left hid, List.map_id]
    simp only [outdupGraph, outdupNodes_of_wf _ nodes hwn, e1]
end

theorem outdupFunction_of_wf (ver : Int) (f : FunctionP) (h : wfFunction ver f = true) :
    outdupFunction f = f := by
  simp only [wfFunction, Bool.and_eq_true] at h
  obtain ⟨⟨⟨⟨⟨⟨⟨⟨⟨⟨⟨⟨_, _⟩, _⟩, _⟩, hattrs⟩, _⟩, _⟩, _⟩, _⟩, _⟩, _⟩, hnodes⟩, _⟩ := h
  have e1 := outdupNodes_of_wf _ f.nodes hnodes
  have e2 := outdupAttrs_of_wf _ f.attrProtos hattrs
  cases f
  simp only [outdupFunction] at e1 e2 ⊢
  simp only [e1, e2]

theorem map_outdupFunction_of_wf (ver : Int) : ∀ fs : List FunctionP, fs.all (wfFunction ver) = true →
    fs.map outdupFunction = fs
  | [], _ => rfl
  | f :: fs, h => by
    simp only [List.all_cons, Bool.and_eq_true] at h
    simp only [List.map_cons, outdupFunction_of_wf ver f h.1, map_outdupFunction_of_wf ver fs h.2]

theorem outdupModel_of_wf (m : ModelP) (h : wfModel m = true) : outdupModel m = m := by
  simp only [wfModel, Bool.and_eq_true] at h
  obtain ⟨⟨⟨⟨⟨⟨hg, hf⟩, _⟩, _⟩, _⟩, _⟩, _⟩ := h
  have e1 := outdupGraph_of_wf [] m.graph hg
  have e2 := map_outdupFunction_of_wf m.irVersion m.functions hf
  cases m
  simp only [outdupModel] at e1 e2 ⊢
  simp only [e1, e2]

theorem canonDModel_of_wf (m : ModelP) (h : wfModel m = true) : canonDModel m = m := by
  unfold canonDModel
  rw [foldModel_of_wf m h, outdupModel_of_wf m h, mergeModel_of_wf m h]

/-! ### `canonD` and `deserialize`: graphs, functions, attributes, nodes -/

theorem desGraph_canonD (outer : Scopes) (g : GraphP) (h : wfGraph outer (canonDGraph g) = true) :
    desGraph outer (canonDGraph g) = desGraph outer g := by
  unfold canonDGraph at h ⊢
  rw [desGraph_merge outer _ h, desGraph_outdup outer _ h, desGraph_fold]

theorem desFunction_canonD (ver : Int) (f : FunctionP) (h : wfFunction ver (canonDFunction f) = true) :
    desFunction (canonDFunction f) = desFunction f := by
  unfold canonDFunction at h ⊢
  rw [desFunction_merge ver _ h, desFunction_outdup ver _ h, desFunction_fold]

theorem desAttr_canonD (scopes : Scopes) (a : AttrP) (h : wfAttr scopes (canonDAttr a) = true) :
    desAttr scopes (canonDAttr a) = desAttr scopes a := by
  unfold canonDAttr at h ⊢
  rw [desAttr_merge scopes _ h, desAttr_outdup scopes _ h, desAttr_fold]

theorem desNode_canonD (outer : Scopes) (vis : List ValueInfoP) (q : List AnnotP) (tbl : List IRValue)
    (n : NodeP) (h : wfNode (tableNames tbl :: outer) (canonDNode n) = true) :
    desNode outer vis q tbl (canonDNode n) = desNode outer vis q tbl n := by
  unfold canonDNode at h ⊢
  rw [desNode_merge outer vis q tbl _ h, desNode_outdup outer vis q tbl _ h, desNode_fold]

theorem foldNode_io (n : NodeP) : (foldNode n).inputs = n.inputs ∧ (foldNode n).outputs = n.outputs := by
  cases n; exact ⟨rfl, rfl⟩

theorem canonDNode_io (n : NodeP) :
    (canonDNode n).inputs = n.inputs ∧ (canonDNode n).outputs = n.outputs := by
  unfold canonDNode
  rw [mergeNode_inputs, mergeNode_outputs, outdupNode_inputs, outdupNode_outputs]
  exact foldNode_io n

/-- `from_proto(NodeProto)`: the stand-alone node and its canonical pre-form deserialize alike -/
theorem desNodeAlone_canonD (n : NodeP) (h : wfNodeAlone (canonDNode n) = true) :
    desNodeAlone (canonDNode n) = desNodeAlone n := by
  obtain ⟨hi, ho⟩ := canonDNode_io n
  simp only [wfNodeAlone, Bool.and_eq_true, hi, ho] at h
  obtain ⟨hnd, hwf⟩ := h
  have hdecl := declareOutputs_spec [] [] (by simp) n.outputs [] (by simp [tableNames])
    (nodupStr_iff.1 hnd)
  simp only [List.nil_append] at hdecl
  have hmapeq : (n.outputs.filter (· ≠ "")).map (newValueT [] [])
      = (n.outputs.filter (· ≠ "")).map IRValue.blank := by
    apply List.map_congr_left; intro a _; exact newValueT_nil a
  rw [hmapeq] at hdecl
  obtain ⟨refs, h1, h2⟩ := desNodeInputs_alone n.inputs ((n.outputs.filter (· ≠ "")).map IRValue.blank)
  have h2' := h2 [] (by simp)
  simp only [List.map_nil, List.append_nil, tableNames_blank] at h1 h2'
  have hsame := desNode_of_inputs [] [] [] _ _ n refs h1 h2'
  have hsame' := desNode_of_inputs [] [] [] _ _ (canonDNode n) refs (by rw [hi]; exact h1)
    (by rw [hi]; exact h2')
  have hnames : tableNames ((n.outputs.filter (· ≠ "")).map IRValue.blank
      ++ (placeholderNames (n.outputs.filter (· ≠ "")) n.inputs).map IRValue.blank)
      = n.outputs.filter (· ≠ "") ++ placeholderNames (n.outputs.filter (· ≠ "")) n.inputs := by
    rw [← List.map_append, tableNames_blank]
  simp only [desNodeAlone, ho, hdecl, bind, Except.bind]
  rw [hsame, hsame']
  exact desNode_canonD [] [] [] _ n (by rw [hnames]; exact hwf)

end IrVerif.Serde

namespace IrVerif.Serde
open IrVerif.Proto

/-! ### on the second widened domain `outdup` changes nothing that `merge` keeps:
`WFproto (merge p) -> merge (outdup p) = merge p` -/

theorem filter_of_group {outputs : List ValueInfoP} {vo : ValueInfoP}
    (hall : ∀ x ∈ outputs, x.name = vo.name → x = vo) (hvo : vo ∈ outputs) :
    ∃ k, outputs.filter (fun vi => vi.name = vo.name) = List.replicate (k + 1) vo := by
  have hall' : ∀ x ∈ outputs.filter (fun vi => vi.name = vo.name), x = vo := by
    intro x hx
    obtain ⟨hx1, hx2⟩ := List.mem_filter.1 hx
    exact hall x hx1 (by simpa using hx2)
  have hmem : vo ∈ outputs.filter (fun vi => vi.name = vo.name) := List.mem_filter.2 ⟨hvo, by simp⟩
  have hrep := List.eq_replicate_iff.2 ⟨rfl, hall'⟩
  have hlen : (outputs.filter (fun vi => vi.name = vo.name)).length ≠ 0 := by
    intro e
    rw [List.length_eq_zero_iff] at e
    rw [e] at hmem; cases hmem
  exact ⟨(outputs.filter (fun vi => vi.name = vo.name)).length - 1, by
    rw [hrep]; congr 1; simp only [List.length_replicate]; omega⟩

theorem outdupVI_of_group (S : List String) {outputs : List ValueInfoP} {vo : ValueInfoP}
    (hall : ∀ x ∈ outputs, x.name = vo.name → x = vo) (hwf : wfVI vo = true) (hvo : vo ∈ outputs) :
    outdupVI S outputs vo = vo := by
  unfold outdupVI
  split
  · have hf : findVI outputs vo.name = some vo := by
      cases hf : findVI outputs vo.name with
      | none => exact absurd (List.mem_map_of_mem hvo) (findVI_none_iff.1 hf)
      | some w =>
        obtain ⟨hw, hn⟩ := findVI_mem hf
        rw [hall w hw hn]
    rw [hf]
    obtain ⟨k, hk⟩ := filter_of_group hall hvo
    have hs : sameName outputs vo = List.replicate (k + 1) vo := hk
    simp only [wfVI, Bool.and_eq_true] at hwf
    simp only [hs, unionMd_replicate, entriesOfDict_dictOfEntries hwf.2]
  · rfl

theorem wfEntries_entriesOfDict {d : Dict} (h : (dkeys d).Nodup) : wfEntries (entriesOfDict d) = true := by
  rw [wfEntries, nodupStr_iff]
  simpa [entriesOfDict, dkeys, List.map_map, Function.comp_def] using h

theorem foldl_mdStep_same (V : Dict) (g1 : ValueInfoP) : ∀ rest : List ValueInfoP,
    (∀ x ∈ rest, dictUpdate V (dictOfEntries x.metadata) = dictUpdate V (dictOfEntries g1.metadata)) →
    rest.foldl mdStep (dictUpdate V (dictOfEntries g1.metadata)) = dictUpdate V (dictOfEntries g1.metadata)
  | [], _ => rfl
  | x :: rest, h => by
    rw [List.foldl_cons]
    have : mdStep (dictUpdate V (dictOfEntries g1.metadata)) x
        = dictUpdate V (dictOfEntries g1.metadata) := by
      show dictUpdate (dictUpdate V (dictOfEntries g1.metadata)) (dictOfEntries x.metadata) = _
      rw [← h x (by simp), dictUpdate_idem _ _ (nodup_dkeys_dictOfEntries _)]
    rw [this]
    exact foldl_mdStep_same V g1 rest (fun y hy => h y (List.mem_cons_of_mem _ hy))

section core
variable {inits : List TensorP} {inputs outputs vis : List ValueInfoP} {quant : List AnnotP}
  {outs : List String}

theorem mergeOutVI_outdup
    (hw' : GraphWF inits inputs (mOutputs inits inputs outputs vis outs) (mVis inits inputs outputs vis outs)
      quant outs) {vo : ValueInfoP} (hvo : vo ∈ outputs) :
    mergeOutVI (mDeclared inits outs) (inputs.map (·.name)) vis
        (outdupVI (scopeNames (inputs.map (·.name)) (inits.map (·.name)) outs) outputs vo)
      = mergeOutVI (mDeclared inits outs) (inputs.map (·.name)) vis vo := by
  by_cases ha : outdupApplies (scopeNames (inputs.map (·.name)) (inits.map (·.name)) outs) outputs vo = true
  · have ha0 := ha
    simp only [outdupApplies, Bool.and_eq_true, List.contains_eq_mem, decide_eq_true_eq,
      List.all_eq_true] at ha
    obtain ⟨hS, hgwf⟩ := ha
    have hwfvo : wfVI vo = true := hgwf vo (List.mem_filter.2 ⟨hvo, by simp⟩)
    have hcons : ∀ x ∈ outputs, x.name = vo.name →
        mergeOutVI (mDeclared inits outs) (inputs.map (·.name)) vis x
          = mergeOutVI (mDeclared inits outs) (inputs.map (·.name)) vis vo := by
      intro x hx hn
      apply hw'.consOut _ (List.mem_map_of_mem hx) _ (List.mem_map_of_mem hvo)
      rw [mergeOutVI_name, mergeOutVI_name, hn]
    -- (A) the entries of this name are identical
    have caseA : (∀ x ∈ outputs, x.name = vo.name → x = vo) →
        mergeOutVI (mDeclared inits outs) (inputs.map (·.name)) vis
          (outdupVI (scopeNames (inputs.map (·.name)) (inits.map (·.name)) outs) outputs vo)
        = mergeOutVI (mDeclared inits outs) (inputs.map (·.name)) vis vo := by
      intro hall
      rw [outdupVI_of_group _ hall hwfvo hvo]
    by_cases hi : vo.name ∈ inputs.map (·.name)
    · apply caseA
      intro x hx hn
      have hM : ∀ y : ValueInfoP, y.name = vo.name →
          mergeOutVI (mDeclared inits outs) (inputs.map (·.name)) vis y = y := by
        intro y hy
        have hin : (inputs.map (·.name)).contains y.name = true := by rw [hy]; simpa using hi
        have hma : mergeApplies (mDeclared inits outs) (inputs.map (·.name)) y = false := by
          simp only [mergeApplies, hin, Bool.not_true, Bool.and_false, Bool.false_and]
        simp only [mergeOutVI, hma, Bool.false_eq_true, if_false]
      rw [← hM x hn, hcons x hx hn, hM vo rfl]
    · have hd : vo.name ∈ mDeclared inits outs := by
        rcases mem_scopeNames.1 hS with h | h | h
        · exact absurd h hi
        · exact List.mem_append_left _ h.1
        · exact List.mem_append_right _ h
      obtain ⟨_, hcase⟩ := merge_at_output hw' hd hi hvo rfl
      rcases hcase with ⟨hvn, hM⟩ | ⟨vi, hvi, hwfvi, hM⟩
      · apply caseA
        intro x hx hn
        obtain ⟨_, hcase'⟩ := merge_at_output hw' hd hi hx hn
        rcases hcase' with ⟨_, hM'⟩ | ⟨vi, hvi, _, _⟩
        · rw [← hM', hcons x hx hn, hM]
        · rw [hvn] at hvi; cases hvi
      · -- (B) a `value_info` entry is united into every entry of the name
        obtain ⟨last, hlast⟩ : ∃ last, findVI outputs vo.name = some last := by
          cases hf : findVI outputs vo.name with
          | some l => exact ⟨l, rfl⟩
          | none => exact absurd (List.mem_map_of_mem hvo) (findVI_none_iff.1 hf)
        obtain ⟨hlm, hln⟩ := findVI_mem hlast
        have hMx : ∀ x ∈ outputs, x.name = vo.name →
            dictUpdate (dictOfEntries vi.metadata) (dictOfEntries x.metadata)
              = dictUpdate (dictOfEntries vi.metadata) (dictOfEntries vo.metadata) := by
          intro x hx hn
          obtain ⟨_, hcase'⟩ := merge_at_output hw' hd hi hx hn
          rcases hcase' with ⟨hvn', _⟩ | ⟨vi', hvi', _, hM'⟩
          · rw [hvi] at hvn'; cases hvn'
          · rw [hvi] at hvi'
            cases hvi'
            have e := hcons x hx hn
            rw [hM, hM'] at e
            have e' := congrArg (fun y : ValueInfoP => dictOfEntries y.metadata) e
            have hnd : ∀ g : ValueInfoP, (dkeys (dictUpdate (dictOfEntries vi.metadata)
                (dictOfEntries g.metadata))).Nodup :=
              fun g => nodup_dkeys_dictUpdate (nodup_dkeys_dictOfEntries _) _
            simpa only [dictOfEntries_entriesOfDict _ (hnd _)] using e'
        have htd := mergeOutVI_type (mDeclared inits outs) (inputs.map (·.name)) vis last
        have htd' := mergeOutVI_type (mDeclared inits outs) (inputs.map (·.name)) vis vo
        have hlt : last.type = vo.type ∧ last.doc = vo.doc := by
          have e := hcons last hlm hln
          exact ⟨by rw [← htd.1, e, htd'.1], by rw [← htd.2, e, htd'.2]⟩
        -- the union over the group, on top of the `value_info` metadata
        have hU : dictUpdate (dictOfEntries vi.metadata) (unionMd (sameName outputs vo))
            = dictUpdate (dictOfEntries vi.metadata) (dictOfEntries vo.metadata) := by
          rw [← foldl_mdStep_union]
          cases hg : sameName outputs vo with
          | nil =>
            have : vo ∈ sameName outputs vo := List.mem_filter.2 ⟨hvo, by simp⟩
            rw [hg] at this; cases this
          | cons g1 rest =>
            have hmem : ∀ x ∈ g1 :: rest, x ∈ outputs ∧ x.name = vo.name := by
              intro x hx
              rw [← hg] at hx
              obtain ⟨a, b⟩ := List.mem_filter.1 hx
              exact ⟨a, by simpa using b⟩
            rw [List.foldl_cons]
            show rest.foldl mdStep (dictUpdate (dictOfEntries vi.metadata) (dictOfEntries g1.metadata)) = _
            rw [foldl_mdStep_same _ g1 rest (fun x hx => by
              rw [hMx x (hmem x (List.mem_cons_of_mem _ hx)).1 (hmem x (List.mem_cons_of_mem _ hx)).2,
                hMx g1 (hmem g1 (by simp)).1 (hmem g1 (by simp)).2])]
            exact hMx g1 (hmem g1 (by simp)).1 (hmem g1 (by simp)).2
        have hndU := nodup_unionMd (sameName outputs vo)
        have happ : mergeApplies (mDeclared inits outs) (inputs.map (·.name))
            { last with metadata := entriesOfDict (unionMd (sameName outputs vo)) } = true := by
          simp only [mergeApplies, hln, Bool.and_eq_true, List.contains_eq_mem, decide_eq_true_eq,
            Bool.not_eq_true', decide_eq_false_iff_not]
          exact ⟨⟨hd, hi⟩, wfEntries_entriesOfDict hndU⟩
        rw [hM]
        simp only [outdupVI, ha0, if_true, hlast, mergeOutVI, happ, hln, hvi, hwfvi,
          dictOfEntries_entriesOfDict _ hndU, hU]
        cases last; cases vo
        simp_all
  · simp only [outdupVI, ha, if_false]
    rfl

end core

theorem mergeGraph_congr_outputs (name doc : String) (nodes : List NodeP) (inits : List TensorP)
    (inputs outputs outputs' vis : List ValueInfoP) (quant : List AnnotP) (md : List Entry)
    (hn : outputs'.map (·.name) = outputs.map (·.name))
    (hm : outputs'.map (mergeOutVI (inits.map (·.name) ++ nodeOutNames nodes) (inputs.map (·.name)) vis)
      = outputs.map (mergeOutVI (inits.map (·.name) ++ nodeOutNames nodes) (inputs.map (·.name)) vis)) :
    mergeGraph (.mk name doc nodes inits inputs outputs' vis quant md)
      = mergeGraph (.mk name doc nodes inits inputs outputs vis quant md) := by
  simp only [mergeGraph, hn, hm]

mutual
theorem mergeAttr_outdup (scopes : Scopes) : ∀ a : AttrP, wfAttr scopes (mergeAttr a) = true →
    mergeAttr (outdupAttr a) = mergeAttr a
  | .ref .., _ => rfl
  | .int .., _ => rfl
  | .float .., _ => rfl
  | .string .., _ => rfl
  | .ints .., _ => rfl
  | .floats .., _ => rfl
  | .strings .., _ => rfl
  | .tensor .., _ => rfl
  | .tensors .., _ => rfl
  | .graph n d g, h => by
    simp only [mergeAttr, wfAttr] at h
    simp only [outdupAttr, mergeAttr, mergeGraph_outdup scopes g h]
  | .graphs n d gs, h => by
    simp only [mergeAttr, wfAttr] at h
    simp only [outdupAttr, mergeAttr, mergeGraphs_outdup scopes gs h]
  | .typeProto .., _ => rfl
  | .typeProtos .., _ => rfl
  | .undefined .., _ => rfl
  | .sparse .., _ => rfl
  | .unknown .., _ => rfl

theorem mergeGraphs_outdup (scopes : Scopes) : ∀ gs : List GraphP, wfGraphs scopes (mergeGraphs gs) = true →
    mergeGraphs (outdupGraphs gs) = mergeGraphs gs
  | [], _ => rfl
  | g :: gs, h => by
    simp only [mergeGraphs, wfGraphs, Bool.and_eq_true] at h
    simp only [outdupGraphs, mergeGraphs, mergeGraph_outdup scopes g h.1, mergeGraphs_outdup scopes gs h.2]

theorem mergeAttrs_outdup (scopes : Scopes) : ∀ as : List AttrP, wfAttrs scopes (mergeAttrs as) = true →
    mergeAttrs (outdupAttrs as) = mergeAttrs as
  | [], _ => rfl
  | a :: as, h => by
    simp only [mergeAttrs, wfAttrs, Bool.and_eq_true] at h
    simp only [outdupAttrs, mergeAttrs, mergeAttr_outdup scopes a h.1, mergeAttrs_outdup scopes as h.2]

theorem mergeNode_outdup (scopes : Scopes) : ∀ n : NodeP, wfNode scopes (mergeNode n) = true →
    mergeNode (outdupNode n) = mergeNode n
  | .mk inputs outputs name opType domain overload doc attrs metadata devcfgs, h => by
    simp only [mergeNode, wfNode, Bool.and_eq_true] at h
    simp only [outdupNode, mergeNode, mergeAttrs_outdup scopes attrs h.1.1.2]

theorem mergeNodes_outdup (scopes : Scopes) : ∀ ns : List NodeP, wfNodes scopes (mergeNodes ns) = true →
    mergeNodes (outdupNodes ns) = mergeNodes ns
  | [], _ => rfl
  | n :: ns, h => by
    simp only [mergeNodes, wfNodes, Bool.and_eq_true] at h
    simp only [outdupNodes, mergeNodes, mergeNode_outdup scopes n h.1, mergeNodes_outdup scopes ns h.2]

theorem mergeGraph_outdup (outer : Scopes) : ∀ g : GraphP, wfGraph outer (mergeGraph g) = true →
    mergeGraph (outdupGraph g) = mergeGraph g
  | .mk name doc nodes inits inputs outputs vis quant md, h => by
    simp only [mergeGraph] at h
    obtain ⟨hw'', hwn''⟩ := graphWF_of_wf outer name doc (mergeNodes nodes) inits inputs
      (mOutputs inits inputs outputs vis (nodeOutNames nodes))
      (mVis inits inputs outputs vis (nodeOutNames nodes)) quant md h
    have hw' := hw''
    rw [nodeOutNames_mergeNodes] at hw' hwn''
    have hnodes := mergeNodes_outdup _ nodes hwn''
    have hnames : (outputs.map (outdupVI (scopeNames (inputs.map (·.name)) (inits.map (·.name))
        (nodeOutNames nodes)) outputs)).map (·.name) = outputs.map (·.name) := by
      rw [List.map_map]
      apply List.map_congr_left
      intro vo _
      exact outdupVI_name _ outputs vo
    have hmo : (outputs.map (outdupVI (scopeNames (inputs.map (·.name)) (inits.map (·.name))
          (nodeOutNames nodes)) outputs)).map
          (mergeOutVI (inits.map (·.name) ++ nodeOutNames nodes) (inputs.map (·.name)) vis)
        = outputs.map (mergeOutVI (inits.map (·.name) ++ nodeOutNames nodes) (inputs.map (·.name)) vis) := by
      rw [List.map_map]
      apply List.map_congr_left
      intro vo hvo
      exact mergeOutVI_outdup hw' hvo
    simp only [outdupGraph, mergeGraph, nodeOutNames_outdupNodes, hnodes, hnames, hmo]
end

theorem mergeFunction_outdup (ver : Int) (f : FunctionP) (h : wfFunction ver (mergeFunction f) = true) :
    mergeFunction (outdupFunction f) = mergeFunction f := by
  simp only [wfFunction, Bool.and_eq_true, mergeFunction] at h
  obtain ⟨⟨⟨⟨⟨⟨⟨⟨⟨⟨⟨⟨_, _⟩, _⟩, _⟩, hattrs⟩, _⟩, _⟩, _⟩, _⟩, _⟩, _⟩, hnodes⟩, _⟩ := h
  simp only [mergeFunction, outdupFunction, mergeNodes_outdup _ f.nodes hnodes,
    mergeAttrs_outdup _ f.attrProtos hattrs]

theorem map_mergeFunction_outdup (ver : Int) : ∀ fs : List FunctionP,
    (fs.map mergeFunction).all (wfFunction ver) = true →
    (fs.map outdupFunction).map mergeFunction = fs.map mergeFunction
  | [], _ => rfl
  | f :: fs, h => by
    simp only [List.map_cons, List.all_cons, Bool.and_eq_true] at h
    simp only [List.map_cons, mergeFunction_outdup ver f h.1, map_mergeFunction_outdup ver fs h.2]

theorem mergeModel_outdup (m : ModelP) (h : wfModel (mergeModel m) = true) :
    mergeModel (outdupModel m) = mergeModel m := by
  simp only [wfModel, Bool.and_eq_true, mergeModel] at h
  obtain ⟨⟨⟨⟨⟨⟨hg, hf⟩, _⟩, _⟩, _⟩, _⟩, _⟩ := h
  simp only [mergeModel, outdupModel, mergeGraph_outdup [] m.graph hg,
    map_mergeFunction_outdup m.irVersion m.functions hf]

/-- on the second widened domain (`WFproto (merge (fold m))`) the third canonical pre-form is the second -/
theorem canonDModel_of_wfX (m : ModelP) (h : wfModel (canonModel m) = true) :
    canonDModel m = canonModel m := by
  unfold canonDModel canonModel at *
  exact mergeModel_outdup _ h

end IrVerif.Serde

/-
C15 part B+: NameFixPass with an arbitrary name generator and with backing tensors (`fixModelX`).
Step-local invariants (no scoping hypothesis, any generator, any outcome): the initializer dictionaries stay
keyed by the current names, tensors follow the values they back; refinement to the plain model `fixModel` for
the default generator when no tensor refuses.
-/
import IrVerif.Lemmas.NamesModel
namespace IrVerif.Names

/-! ### the setter -/

theorem nameGuard_raises {w : World} {v : Nat} {new : String} (hne : w.vname v ≠ some new)
    (hg : w.nameGuard v new = true) : w.setName v new = (w, true) := by
  unfold World.nameGuard at hg
  unfold World.setName
  rw [if_neg hne]
  split at hg
  · simp at hg
  · rename_i g hio
    simp only [hio]
    simp only [Bool.or_eq_true, beq_iff_eq] at hg
    by_cases h1 : new = ""
    · simp [h1]
    · simp only [h1, if_false]
      rcases hg with hg | hg
      · exact absurd hg h1
      · simp only [hg, if_true]

/-- the guards passed: the assignment goes through and keeps the dictionaries keyed by names -/
theorem setName_guard_ok {w : World} (h : InitsOk w) (v : Nat) (new : String)
    (hg : w.nameGuard v new = false) :
    (w.setName v new).2 = false ∧ InitsOk (w.setName v new).1 ∧
    (w.setName v new).1.vname = upd w.vname v (some new) ∧ (w.setName v new).1.nname = w.nname ∧
    (w.setName v new).1.initOf = w.initOf := by
  cases hio : w.initOf v with
  | none =>
    unfold World.setName
    split
    · rename_i heq
      exact ⟨rfl, h, by rw [← heq, upd_same], rfl, rfl⟩
    · simp only [hio]
      refine ⟨by trivial, ⟨?_, h.keys_nodup, h.complete⟩, by trivial, by trivial, by trivial⟩
      intro g k u hm
      have hk := h.key_name g k u hm
      have huv : u ≠ v := by intro e; subst e; rw [hio] at hk; exact absurd hk.2.2 (by simp)
      exact ⟨by simp [upd_ne _ _ huv, hk.1], hk.2.1, hk.2.2⟩
  | some g =>
    unfold World.nameGuard at hg
    simp only [hio, Bool.or_eq_false_iff, beq_eq_false_iff_ne] at hg
    refine setName_ok h v new hg.1 ?_
    intro g' k u hio' hm huv hk
    rw [hio] at hio'
    cases hio'
    subst hk
    cases hl : (w.dicts g).lookup k with
    | none => exact (lookup_none_iff.mp hl u) hm
    | some u' =>
      have := keys_nodup_unique (h.keys_nodup g) (lookup_some_mem hl) hm
      subst this
      rw [hl] at hg
      simp only [bne_eq_false_iff_eq] at hg
      exact huv hg.2

/-- what `Value.name = new` with tensor write-through does, in every outcome -/
theorem setNameT_cases (w : TWorld) (v : Nat) (new : String) :
    ((w.setNameT v new).1 = w)
    ∨ ((w.setNameT v new).2 = false ∧ w.vname v ≠ some new ∧ w.toWorld.nameGuard v new = false
        ∧ (w.setNameT v new).1.toWorld = (w.toWorld.setName v new).1
        ∧ (w.toWorld.setName v new).2 = false
        ∧ (w.setNameT v new).1.constOf = w.constOf ∧ (w.setNameT v new).1.frozen = w.frozen
        ∧ (w.setNameT v new).1.tname = (match w.constOf v with | some t => upd w.tname t (some new) | none => w.tname))
    ∨ ((w.setNameT v new).2 = true ∧ (w.toWorld.setName v new).2 = true ∧ w.toWorld.nameGuard v new = false
        ∧ (w.setNameT v new).1.toWorld = (w.toWorld.setName v new).1
        ∧ (w.setNameT v new).1.constOf = w.constOf ∧ (w.setNameT v new).1.frozen = w.frozen) := by
  unfold TWorld.setNameT
  by_cases h1 : w.vname v = some new
  · simp [h1]
  · rw [if_neg h1]
    by_cases h2 : w.toWorld.nameGuard v new = true
    · simp [h2]
    · rw [if_neg h2]
      have h2' : w.toWorld.nameGuard v new = false := by simpa using h2
      cases hc : w.constOf v with
      | none =>
        simp only
        cases hr : (w.toWorld.setName v new).2 with
        | false => exact Or.inr (Or.inl (by simp [h1, h2', hc]))
        | true => exact Or.inr (Or.inr (by simp [h2']))
      | some t =>
        simp only
        by_cases hf : w.frozen t = true
        · simp [hf]
        · rw [if_neg hf]
          cases hr : (w.toWorld.setName v new).2 with
          | false => exact Or.inr (Or.inl (by simp [h1, h2', hc]))
          | true => exact Or.inr (Or.inr (by simp [h2']))

/-! ### predicates every elementary step preserves -/

/-- a predicate on pass states preserved by the two naming steps and indifferent to the scope stacks -/
structure StepInv (gen : NameGen) (P : FixStX → Prop) : Prop where
  pv : ∀ st v, P st → P (processValueX gen st v)
  fn : ∀ st n, P st → P (fixNodeNameX gen st n)
  stk : ∀ (st : FixStX) (vs ns : List (List String)), P st → P { st with vstack := vs, nstack := ns }

theorem processValuesX_inv {gen : NameGen} {P : FixStX → Prop} (h : StepInv gen P) :
    ∀ (vs : List Nat) (st : FixStX), P st → P (processValuesX gen st vs)
  | [], _, hp => hp
  | v :: vs, st, hp => by
    have e : processValuesX gen st (v :: vs) = processValuesX gen (processValueX gen st v) vs := by
      simp [processValuesX]
    rw [e]
    exact processValuesX_inv h vs _ (h.pv st v hp)

theorem enterGraphX_inv {gen : NameGen} {P : FixStX → Prop} (h : StepInv gen P) (st : FixStX) (g : Nat) (isG : Bool)
    (ins outs bouts : List Nat) (hp : P st) : P (enterGraphX gen st g isG ins outs bouts) := by
  unfold enterGraphX
  split
  · exact hp
  · have h0 := h.stk st (topOf st.vstack :: st.vstack) ([] :: st.nstack) hp
    have h1 := processValuesX_inv h ins _ h0
    have h2 := processValuesX_inv h outs _ h1
    refine processValuesX_inv h bouts _ ?_
    cases isG with
    | false => simpa using h2
    | true => simpa using processValuesX_inv h _ _ h2

theorem exitGraphX_inv {gen : NameGen} {P : FixStX → Prop} (h : StepInv gen P) (st : FixStX) (hp : P st) :
    P (exitGraphX st) := by
  unfold exitGraphX
  split
  · exact hp
  · exact h.stk st _ _ hp

theorem runTrX_inv {gen : NameGen} {P : FixStX → Prop} (h : StepInv gen P) :
    ∀ (t : Tr) (st : FixStX), P st → P (runTrX gen t st) := by
  intro t
  induction t with
  | nil => intro st hp; exact hp
  | node n ins outs subs rest ihs ihr =>
    intro st hp
    simp only [runTrX, visitNodeX]
    exact ihr _ (ihs _ (processValuesX_inv h _ _ (h.fn st n hp)))
  | graph g isG ins outs body rest ihb ihr =>
    intro st hp
    simp only [runTrX]
    exact ihr _ (exitGraphX_inv h _ (exitGraphX_inv h _ (ihb _
      (enterGraphX_inv h _ g isG ins outs _ (enterGraphX_inv h st g isG ins outs _ hp)))))

theorem fixTopX_inv {gen : NameGen} {P : FixStX → Prop} (h : StepInv gen P) (w : TWorld) (t : Top)
    (glog : List (Bool × Nat)) (hp : P (initX w t glog)) : P (fixTopX gen w t glog) := by
  unfold fixTopX
  exact exitGraphX_inv h _ (runTrX_inv h _ _ (enterGraphX_inv h _ _ _ _ _ _ hp))

theorem initX_tw (w : TWorld) (t : Top) (glog : List (Bool × Nat)) : (initX w t glog).tw = w := rfl

/-- a property of the world (names, dictionaries, tensors) preserved by every step is preserved by the pass, in
every outcome (also when the pass stops with an exception) -/
theorem fixModelX_inv {gen : NameGen} {Q : TWorld → Prop} (h : StepInv gen (fun st => Q st.tw)) :
    ∀ (tops : List Top) (w : TWorld) (glog : List (Bool × Nat)), Q w → Q (fixModelX gen w glog tops).w
  | [], _, _, hq => hq
  | t :: ts, w, glog, hq => by
    have h1 : Q (fixTopX gen w t glog).tw := fixTopX_inv h w t glog (by rw [initX_tw]; exact hq)
    simp only [fixModelX]
    split
    · exact h1
    · exact fixModelX_inv h ts _ _ h1

/-- what `renameToX` does to the world: nothing, or one successful `Value.name = new` -/
theorem renameToX_tw (st : FixStX) (v : Nat) (p : String) :
    ∃ new, (renameToX st v p).tw = (st.tw.setNameT v new).1 := by
  refine ⟨(findUnique p (topOf st.vstack) st.resV (st.vcnt p)).1, ?_⟩
  unfold renameToX
  simp only
  split <;> rfl

theorem processValueX_tw (gen : NameGen) (st : FixStX) (v : Nat) :
    (processValueX gen st v).tw = st.tw ∨ ∃ new, (processValueX gen st v).tw = (st.tw.setNameT v new).1 := by
  unfold processValueX
  split
  · exact Or.inl rfl
  · split
    · exact Or.inl rfl
    · split
      · exact Or.inr (renameToX_tw st v _)
      · dsimp only
        split
        · exact Or.inl rfl
        · exact Or.inr (renameToX_tw st v _)

theorem fixNodeNameX_tw (gen : NameGen) (st : FixStX) (n : Nat) :
    ∃ f, (fixNodeNameX gen st n).tw = { st.tw with nname := f } := by
  unfold fixNodeNameX
  split
  · exact ⟨st.nname, rfl⟩
  · dsimp only
    split
    · exact ⟨_, rfl⟩
    · split
      · exact ⟨st.nname, rfl⟩
      · exact ⟨_, rfl⟩

/-- world properties that one `Value.name = …` preserves and that do not mention node names -/
theorem StepInv.of_world {gen : NameGen} {Q : TWorld → Prop}
    (hset : ∀ w v new, Q w → Q (w.setNameT v new).1)
    (hn : ∀ (w : TWorld) f, Q w → Q { w with nname := f }) : StepInv gen (fun st => Q st.tw) where
  pv := fun st v hq => by
    rcases processValueX_tw gen st v with e | ⟨new, e⟩
    · show Q _; rw [e]; exact hq
    · show Q _; rw [e]; exact hset _ v new hq
  fn := fun st n hq => by
    obtain ⟨f, e⟩ := fixNodeNameX_tw gen st n
    show Q _; rw [e]; exact hn _ f hq
  stk := fun _ _ _ hq => hq

/-! ### the initializer dictionaries stay keyed by the current names -/

/-- `I_key` and the links the naming machinery must not touch -/
def KeyInv (w0 : TWorld) (w : TWorld) : Prop :=
  InitsOk w.toWorld ∧ w.initOf = w0.initOf ∧ w.constOf = w0.constOf ∧ w.frozen = w0.frozen

theorem KeyInv.step (gen : NameGen) (w0 : TWorld) : StepInv gen (fun st => KeyInv w0 st.tw) := by
  refine StepInv.of_world ?_ ?_
  · intro w v new ⟨h1, h2, h3, h4⟩
    rcases setNameT_cases w v new with e | ⟨_, _, hg, e, _, e3, e4, _⟩ | ⟨_, hr, hg, _⟩
    · rw [e]; exact ⟨h1, h2, h3, h4⟩
    · obtain ⟨_, k1, _, _, k5⟩ := setName_guard_ok h1 v new hg
      exact ⟨e ▸ k1, by rw [show (w.setNameT v new).1.initOf = (w.setNameT v new).1.toWorld.initOf from rfl, e, k5]; exact h2,
        e3.trans h3, e4.trans h4⟩
    · have := (setName_guard_ok h1 v new hg).1
      rw [hr] at this; cases this
  · intro w f ⟨h1, h2, h3, h4⟩
    exact ⟨⟨h1.key_name, h1.keys_nodup, h1.complete⟩, h2, h3, h4⟩

/-! ### tensors follow the values they back -/

/-- every tensor is untouched (and so are the names of all values it backs), or carries the current name of
one of the values it backs -/
def TensorInv (w0 : TWorld) (w : TWorld) : Prop :=
  w.constOf = w0.constOf ∧
  ∀ t, (w.tname t = w0.tname t ∧ ∀ v, w0.constOf v = some t → w.vname v = w0.vname v)
       ∨ ∃ v, w0.constOf v = some t ∧ w.tname t = w.vname v

theorem TensorInv.refl (w : TWorld) : TensorInv w w := ⟨rfl, fun _ => Or.inl ⟨rfl, fun _ _ => rfl⟩⟩

theorem TensorInv.step (gen : NameGen) (w0 : TWorld) :
    StepInv gen (fun st => TensorInv w0 st.tw ∧ InitsOk st.tw.toWorld) := by
  refine StepInv.of_world (Q := fun w => TensorInv w0 w ∧ InitsOk w.toWorld) ?_ ?_
  · intro w v new ⟨⟨hc, ht⟩, hk⟩
    rcases setNameT_cases w v new with e | ⟨_, hne, hg, e, _, e3, _, e5⟩ | ⟨_, hr, hg, _⟩
    · rw [e]; exact ⟨⟨hc, ht⟩, hk⟩
    · obtain ⟨_, k1, k3, _, _⟩ := setName_guard_ok hk v new hg
      have hv : (w.setNameT v new).1.vname = upd w.vname v (some new) := by
        show (w.setNameT v new).1.toWorld.vname = _
        rw [e, k3]
      refine ⟨⟨e3.trans hc, ?_⟩, e ▸ k1⟩
      intro t
      rw [hv, e5]
      by_cases hvt : w0.constOf v = some t
      · -- the tensor of the renamed value now carries the new name
        refine Or.inr ⟨v, hvt, ?_⟩
        have : w.constOf v = some t := by rw [hc]; exact hvt
        simp [this]
      · have htn : (match w.constOf v with | some t' => upd w.tname t' (some new) | none => w.tname) t = w.tname t := by
          rw [hc]
          cases hcv : w0.constOf v with
          | none => rfl
          | some t' =>
            have : t ≠ t' := fun e => hvt (by rw [hcv, e])
            simp [upd, this]
        rw [htn]
        rcases ht t with ⟨a, b⟩ | ⟨u, hu, hb⟩
        · refine Or.inl ⟨a, fun u hu => ?_⟩
          have : u ≠ v := fun e => hvt (e ▸ hu)
          rw [upd_ne _ _ this]; exact b u hu
        · refine Or.inr ⟨u, hu, ?_⟩
          have : u ≠ v := fun e => hvt (e ▸ hu)
          rw [upd_ne _ _ this]; exact hb
    · have := (setName_guard_ok hk v new hg).1
      rw [hr] at this; cases this
  · intro w f ⟨⟨hc, ht⟩, hk⟩
    exact ⟨⟨hc, ht⟩, ⟨hk.key_name, hk.keys_nodup, hk.complete⟩⟩

/-! ### refinement: default generator, no refusing tensor = the plain model -/

/-- no tensor that backs a value refuses a new name -/
def FixStX.NoFz (st : FixStX) : Prop := ∀ u t, st.constOf u = some t → st.frozen t = false
def TWorld.NoFz (w : TWorld) : Prop := ∀ u t, w.constOf u = some t → w.frozen t = false

/-- the tensor links and refusals are the same in two states -/
def FzEq (st st' : FixStX) : Prop := st'.frozen = st.frozen ∧ st'.constOf = st.constOf

theorem FzEq.refl (st : FixStX) : FzEq st st := ⟨rfl, rfl⟩
theorem FzEq.trans {a b c : FixStX} (h1 : FzEq a b) (h2 : FzEq b c) : FzEq a c := ⟨h2.1.trans h1.1, h2.2.trans h1.2⟩
theorem FixStX.NoFz.of_eq {st st' : FixStX} (h : st.NoFz) (e : FzEq st st') : st'.NoFz :=
  fun u t hu => by rw [e.1]; exact h u t (e.2 ▸ hu)

theorem setNameT_unfrozen (w : TWorld) (v : Nat) (new : String) (hf : ∀ t, w.constOf v = some t → w.frozen t = false) :
    (w.setNameT v new).1.toWorld = (w.toWorld.setName v new).1 ∧ (w.setNameT v new).2 = (w.toWorld.setName v new).2
    ∧ (w.setNameT v new).1.frozen = w.frozen ∧ (w.setNameT v new).1.constOf = w.constOf := by
  unfold TWorld.setNameT
  by_cases h1 : w.vname v = some new
  · have : w.toWorld.setName v new = (w.toWorld, false) := by unfold World.setName; rw [if_pos h1]
    simp [h1, this]
  · rw [if_neg h1]
    by_cases h2 : w.toWorld.nameGuard v new = true
    · rw [if_pos h2, nameGuard_raises h1 h2]; exact ⟨rfl, rfl, rfl, rfl⟩
    · rw [if_neg h2]
      cases hc : w.constOf v with
      | none => exact ⟨rfl, rfl, rfl, rfl⟩
      | some t => simp [hf t hc]

theorem renameToX_sim (st : FixStX) (v : Nat) (p : String) (hf : st.NoFz) :
    (renameToX st v p).toFixSt = renameTo st.toFixSt v p ∧ FzEq st (renameToX st v p) := by
  obtain ⟨h1, h2, h3, h4⟩ := setNameT_unfrozen st.tw v (findUnique p (topOf st.vstack) st.resV (st.vcnt p)).1 (hf v)
  unfold renameToX renameTo
  simp only []
  by_cases hr : (st.toWorld.setName v (findUnique p (topOf st.vstack) st.resV (st.vcnt p)).1).2 = true
  · have hr' : (st.tw.setNameT v (findUnique p (topOf st.vstack) st.resV (st.vcnt p)).1).2 = true := h2.trans hr
    rw [if_pos hr', if_pos hr]
    exact ⟨by simp only [h1]; rfl, h3, h4⟩
  · have hr' : ¬ (st.tw.setNameT v (findUnique p (topOf st.vstack) st.resV (st.vcnt p)).1).2 = true := by
      rw [h2]; exact hr
    rw [if_neg hr', if_neg hr]
    exact ⟨by simp only [h1]; rfl, h3, h4⟩

theorem simpleGen_v_falsy {i : Nat} {nm : Option String} (h : truthy nm = false) : simpleGen.v i nm = "v" := by
  simp [simpleGen, h]
theorem simpleGen_v_truthy {i : Nat} {nm : Option String} (h : truthy nm = true) : simpleGen.v i nm = nm.getD "" := by
  simp [simpleGen, h]
theorem simpleGen_n_falsy {i : Nat} {nm : Option String} (h : truthy nm = false) : simpleGen.n i nm = "node" := by
  simp [simpleGen, h]
theorem simpleGen_n_truthy {i : Nat} {nm : Option String} (h : truthy nm = true) : simpleGen.n i nm = nm.getD "" := by
  simp [simpleGen, h]

theorem processValueX_sim (st : FixStX) (v : Nat) (hf : st.NoFz) :
    (processValueX simpleGen st v).toFixSt = processValue st.toFixSt v
    ∧ FzEq st (processValueX simpleGen st v) := by
  unfold processValueX processValue
  by_cases hr : st.raised = true
  · simp only [if_pos hr]; exact ⟨by first | trivial | rfl, FzEq.refl _⟩
  · simp only [if_neg hr]
    by_cases hs : st.seen.contains v = true
    · simp only [if_pos hs]; exact ⟨by first | trivial | rfl, FzEq.refl _⟩
    · simp only [if_neg hs]
      by_cases ht : (!truthy (st.vname v)) = true
      · simp only [if_pos ht]
        rw [simpleGen_v_falsy (by simpa using ht)]
        exact renameToX_sim st v "v" hf
      · simp only [if_neg ht]
        by_cases hc : (!(topOf st.vstack).contains ((st.vname v).getD "")) = true
        · simp only [if_pos hc]; exact ⟨by first | trivial | rfl, ⟨rfl, rfl⟩⟩
        · simp only [if_neg hc]
          rw [simpleGen_v_truthy (by simpa using ht)]
          exact renameToX_sim st v _ hf

theorem fixNodeNameX_sim (st : FixStX) (n : Nat) :
    (fixNodeNameX simpleGen st n).toFixSt = fixNodeName st.toFixSt n
    ∧ FzEq st (fixNodeNameX simpleGen st n) := by
  unfold fixNodeNameX fixNodeName
  by_cases hr : st.raised = true
  · simp only [if_pos hr]; exact ⟨by first | trivial | rfl, FzEq.refl _⟩
  · simp only [if_neg hr]
    by_cases ht : (!truthy (st.nname n)) = true
    · simp only [if_pos ht]
      rw [simpleGen_n_falsy (by simpa using ht)]
      exact ⟨by first | trivial | rfl, ⟨rfl, rfl⟩⟩
    · simp only [if_neg ht]
      by_cases hc : (!(topOf st.nstack).contains ((st.nname n).getD "")) = true
      · simp only [if_pos hc]; exact ⟨by first | trivial | rfl, ⟨rfl, rfl⟩⟩
      · simp only [if_neg hc]
        rw [simpleGen_n_truthy (by simpa using ht)]
        exact ⟨by first | trivial | rfl, ⟨rfl, rfl⟩⟩

theorem processValuesX_sim : ∀ (vs : List Nat) (st : FixStX), st.NoFz →
    (processValuesX simpleGen st vs).toFixSt = processValues st.toFixSt vs
    ∧ FzEq st (processValuesX simpleGen st vs)
  | [], _, _ => ⟨rfl, FzEq.refl _⟩
  | v :: vs, st, hf => by
    have e1 : processValuesX simpleGen st (v :: vs) = processValuesX simpleGen (processValueX simpleGen st v) vs := by
      simp [processValuesX]
    have e2 : processValues st.toFixSt (v :: vs) = processValues (processValue st.toFixSt v) vs := by
      simp [processValues]
    obtain ⟨a, b⟩ := processValueX_sim st v hf
    obtain ⟨c, d⟩ := processValuesX_sim vs (processValueX simpleGen st v) (hf.of_eq b)
    rw [e1, e2, c, a]
    exact ⟨rfl, b.trans d⟩

theorem enterGraphX_sim (st : FixStX) (g : Nat) (isG : Bool) (ins outs bouts : List Nat) (hf : st.NoFz) :
    (enterGraphX simpleGen st g isG ins outs bouts).toFixSt = enterGraph st.toFixSt g isG ins outs bouts
    ∧ FzEq st (enterGraphX simpleGen st g isG ins outs bouts) := by
  unfold enterGraphX enterGraph
  by_cases hr : st.raised = true
  · simp only [if_pos hr]; exact ⟨by first | trivial | rfl, FzEq.refl _⟩
  · simp only [if_neg hr]
    generalize hs0 : ({ st with vstack := topOf st.vstack :: st.vstack, nstack := [] :: st.nstack } : FixStX) = s0
    have e0 : s0.toFixSt = { st.toFixSt with vstack := topOf st.vstack :: st.vstack, nstack := [] :: st.nstack } := by
      subst hs0; rfl
    have z0 : FzEq st s0 := by subst hs0; exact ⟨rfl, rfl⟩
    have f0 : s0.NoFz := hf.of_eq z0
    rw [← e0]
    obtain ⟨a1, b1⟩ := processValuesX_sim ins s0 f0
    have f1 := f0.of_eq b1
    obtain ⟨a2, b2⟩ := processValuesX_sim outs _ f1
    have f2 := f1.of_eq b2
    rw [← a1, ← a2]
    cases isG with
    | false =>
      simp only [Bool.false_eq_true, if_false]
      obtain ⟨a4, b4⟩ := processValuesX_sim bouts _ f2
      exact ⟨a4, z0.trans (b1.trans (b2.trans b4))⟩
    | true =>
      simp only [if_true]
      obtain ⟨a3, b3⟩ := processValuesX_sim
        (((processValuesX simpleGen (processValuesX simpleGen s0 ins) outs).dicts g).map (·.2)) _ f2
      have f3 := f2.of_eq b3
      obtain ⟨a4, b4⟩ := processValuesX_sim bouts _ f3
      refine ⟨?_, z0.trans (b1.trans (b2.trans (b3.trans b4)))⟩
      rw [a4, a3]

theorem exitGraphX_sim (st : FixStX) :
    (exitGraphX st).toFixSt = exitGraph st.toFixSt ∧ FzEq st (exitGraphX st) := by
  unfold exitGraphX exitGraph
  split <;> exact ⟨rfl, rfl, rfl⟩

theorem runTrX_sim : ∀ (t : Tr) (st : FixStX), st.NoFz →
    (runTrX simpleGen t st).toFixSt = runTr t st.toFixSt ∧ FzEq st (runTrX simpleGen t st) := by
  intro t
  induction t with
  | nil => intro st _; exact ⟨by first | trivial | rfl, FzEq.refl _⟩
  | node n ins outs subs rest ihs ihr =>
    intro st hf
    simp only [runTrX, runTr, visitNodeX, visitNode]
    obtain ⟨a1, b1⟩ := fixNodeNameX_sim st n
    obtain ⟨a2, b2⟩ := processValuesX_sim (nodeVals ins outs) (fixNodeNameX simpleGen st n) (hf.of_eq b1)
    obtain ⟨a3, b3⟩ := ihs (processValuesX simpleGen (fixNodeNameX simpleGen st n) (nodeVals ins outs)) ((hf.of_eq b1).of_eq b2)
    obtain ⟨a4, b4⟩ := ihr _ (((hf.of_eq b1).of_eq b2).of_eq b3)
    rw [a4, a3, a2, a1]
    exact ⟨rfl, b1.trans (b2.trans (b3.trans b4))⟩
  | graph g isG ins outs body rest ihb ihr =>
    intro st hf
    simp only [runTrX, runTr]
    obtain ⟨a1, b1⟩ := enterGraphX_sim st g isG ins outs (bodyOuts body) hf
    obtain ⟨a2, b2⟩ := enterGraphX_sim (enterGraphX simpleGen st g isG ins outs (bodyOuts body)) g isG ins outs (bodyOuts body)
      (hf.of_eq b1)
    obtain ⟨a3, b3⟩ := ihb _ ((hf.of_eq b1).of_eq b2)
    obtain ⟨a4, b4⟩ := exitGraphX_sim (runTrX simpleGen body
      (enterGraphX simpleGen (enterGraphX simpleGen st g isG ins outs (bodyOuts body)) g isG ins outs (bodyOuts body)))
    obtain ⟨a5, b5⟩ := exitGraphX_sim (exitGraphX (runTrX simpleGen body
      (enterGraphX simpleGen (enterGraphX simpleGen st g isG ins outs (bodyOuts body)) g isG ins outs (bodyOuts body))))
    have z5 := b1.trans (b2.trans (b3.trans (b4.trans b5)))
    obtain ⟨a6, b6⟩ := ihr _ (hf.of_eq z5)
    rw [a6, a5, a4, a3, a2, a1]
    exact ⟨rfl, z5.trans b6⟩

theorem fixTopX_sim (w : TWorld) (t : Top) (glog : List (Bool × Nat)) (hf : w.NoFz) :
    (fixTopX simpleGen w t glog).toFixSt = fixTop w.toWorld t ∧ (fixTopX simpleGen w t glog).tw.NoFz := by
  unfold fixTopX fixTop
  simp only []
  have e0 : (initX w t glog).toFixSt =
      { toWorld := w.toWorld, resV := (collectTr w.toWorld t.tr ([], [])).1, resN := (collectTr w.toWorld t.tr ([], [])).2 } := rfl
  have f0 : (initX w t glog).NoFz := hf
  obtain ⟨a1, b1⟩ := enterGraphX_sim (initX w t glog) t.gid t.isGraph t.ins t.outs (bodyOuts t.body) f0
  obtain ⟨a2, b2⟩ := runTrX_sim t.body _ (f0.of_eq b1)
  obtain ⟨a3, b3⟩ := exitGraphX_sim (runTrX simpleGen t.body
    (enterGraphX simpleGen (initX w t glog) t.gid t.isGraph t.ins t.outs (bodyOuts t.body)))
  rw [a3, a2, a1, e0]
  exact ⟨rfl, ((f0.of_eq b1).of_eq b2).of_eq b3⟩

/-- `fixModelX` with the default generator on a world in which no tensor that backs a value refuses a name is
`fixModel` -/
theorem fixModelX_sim : ∀ (tops : List Top) (w : TWorld) (glog : List (Bool × Nat)), w.NoFz →
    (fixModelX simpleGen w glog tops).w.toWorld = (fixModel w.toWorld tops).1
    ∧ (fixModelX simpleGen w glog tops).modified = (fixModel w.toWorld tops).2.1
    ∧ (fixModelX simpleGen w glog tops).raised = (fixModel w.toWorld tops).2.2
  | [], _, _, _ => ⟨rfl, rfl, rfl⟩
  | t :: ts, w, glog, hf => by
    obtain ⟨a, b⟩ := fixTopX_sim w t glog hf
    have hr : (fixTopX simpleGen w t glog).raised = (fixTop w.toWorld t).raised := by rw [← a]
    have hm : (fixTopX simpleGen w t glog).modified = (fixTop w.toWorld t).modified := by rw [← a]
    have hw : (fixTopX simpleGen w t glog).tw.toWorld = (fixTop w.toWorld t).toWorld := by rw [← a]; rfl
    simp only [fixModelX, fixModel]
    by_cases h : (fixTop w.toWorld t).raised = true
    · have h' : (fixTopX simpleGen w t glog).raised = true := hr.trans h
      simp only [if_pos h, if_pos h']
      exact ⟨hw, hm, by first | trivial | rfl⟩
    · have h' : ¬ (fixTopX simpleGen w t glog).raised = true := by rw [hr]; exact h
      simp only [if_neg h, if_neg h']
      obtain ⟨c1, c2, c3⟩ := fixModelX_sim ts (fixTopX simpleGen w t glog).tw (fixTopX simpleGen w t glog).glog b
      rw [hw] at c1 c2 c3
      exact ⟨c1, by rw [c2, hm], c3⟩

/-! ### objects the generator was never asked about are untouched -/

theorem setName_vname_other (w : World) {v u : Nat} (new : String) (h : u ≠ v) : (w.setName v new).1.vname u = w.vname u := by
  unfold World.setName
  repeat' split
  all_goals simp [upd, h]

/-- `Value.name = new` touches the name of `v`, the name of the tensor backing `v`, and nothing else -/
theorem setNameT_frame (w : TWorld) (v : Nat) (new : String) :
    (∀ u, u ≠ v → (w.setNameT v new).1.vname u = w.vname u)
    ∧ (w.setNameT v new).1.constOf = w.constOf
    ∧ (∀ t, w.constOf v ≠ some t → (w.setNameT v new).1.tname t = w.tname t)
    ∧ (w.setNameT v new).1.nname = w.nname := by
  have hv : ∀ u, u ≠ v → (w.toWorld.setName v new).1.vname u = w.vname u := fun u h => setName_vname_other _ new h
  have hn : (w.toWorld.setName v new).1.nname = w.nname := by
    unfold World.setName
    repeat' split
    all_goals rfl
  unfold TWorld.setNameT
  split
  · exact ⟨fun _ _ => rfl, rfl, fun _ _ => rfl, rfl⟩
  · split
    · exact ⟨fun _ _ => rfl, rfl, fun _ _ => rfl, rfl⟩
    · split
      · rename_i t hc
        split
        · exact ⟨fun _ _ => rfl, rfl, fun _ _ => rfl, rfl⟩
        · refine ⟨hv, rfl, ?_, hn⟩
          intro t' ht'
          have : t' ≠ t := fun e => ht' (by rw [hc, e])
          simp [upd, this]
      · exact ⟨hv, rfl, fun _ _ => rfl, hn⟩

/-- a value (node) the generator was never asked about has its old name, and a tensor none of whose values was
handed to the generator has its old name -/
def LogInv (w0 : TWorld) (w : TWorld) (glog : List (Bool × Nat)) : Prop :=
  (∀ v, (false, v) ∉ glog → w.vname v = w0.vname v)
  ∧ w.constOf = w0.constOf
  ∧ (∀ t, (∀ v, w0.constOf v = some t → (false, v) ∉ glog) → w.tname t = w0.tname t)
  ∧ (∀ n, (true, n) ∉ glog → w.nname n = w0.nname n)

theorem LogInv.rename {w0 : TWorld} {st : FixStX} (h : LogInv w0 st.tw st.glog) (v : Nat) (p : String) :
    LogInv w0 (renameToX st v p).tw (renameToX st v p).glog := by
  obtain ⟨h1, h2, h3, h4⟩ := h
  obtain ⟨f1, f2, f3, f4⟩ := setNameT_frame st.tw v (findUnique p (topOf st.vstack) st.resV (st.vcnt p)).1
  have hw : (renameToX st v p).tw = (st.tw.setNameT v (findUnique p (topOf st.vstack) st.resV (st.vcnt p)).1).1 := by
    unfold renameToX; simp only []; split <;> rfl
  have hl : (renameToX st v p).glog = (false, v) :: st.glog := by
    unfold renameToX; simp only []; split <;> rfl
  rw [hw, hl]
  refine ⟨?_, f2.trans h2, ?_, ?_⟩
  · intro u hu
    simp only [List.mem_cons, Prod.mk.injEq, true_and, not_or] at hu
    rw [f1 u hu.1]; exact h1 u hu.2
  · intro t ht
    have hne : st.tw.constOf v ≠ some t := by
      intro e
      exact ht v (h2 ▸ e) List.mem_cons_self
    rw [f3 t hne]
    exact h3 t (fun u hu hin => ht u hu (List.mem_cons_of_mem _ hin))
  · intro n hn
    rw [f4]
    exact h4 n (fun hin => hn (List.mem_cons_of_mem _ hin))

theorem LogInv.step (gen : NameGen) (w0 : TWorld) : StepInv gen (fun st => LogInv w0 st.tw st.glog) where
  pv := fun st v h => by
    unfold processValueX
    split
    · exact h
    · split
      · exact h
      · split
        · exact h.rename v _
        · dsimp only
          split
          · exact h
          · exact h.rename v _
  fn := fun st n h => by
    obtain ⟨h1, h2, h3, h4⟩ := h
    have key : ∀ (f : String), LogInv w0 { st.tw with nname := upd st.nname n (some f) } ((true, n) :: st.glog) := by
      intro f
      refine ⟨fun v hv => h1 v (fun hin => hv (List.mem_cons_of_mem _ hin)), h2,
        fun t ht => h3 t (fun v hv hin => ht v hv (List.mem_cons_of_mem _ hin)), ?_⟩
      intro m hm
      simp only [List.mem_cons, Prod.mk.injEq, true_and, not_or] at hm
      show upd st.nname n (some f) m = w0.nname m
      rw [upd_ne _ _ hm.1]; exact h4 m hm.2
    unfold fixNodeNameX
    split
    · exact ⟨h1, h2, h3, h4⟩
    · dsimp only
      split
      · exact key _
      · split
        · exact ⟨h1, h2, h3, h4⟩
        · exact key _
  stk := fun _ _ _ h => h

/-- a property of the world and of the log of generator calls preserved by every step is preserved by the pass, in
every outcome -/
theorem fixModelX_inv2 {gen : NameGen} {Q : TWorld → List (Bool × Nat) → Prop} (h : StepInv gen (fun st => Q st.tw st.glog)) :
    ∀ (tops : List Top) (w : TWorld) (glog : List (Bool × Nat)), Q w glog →
      Q (fixModelX gen w glog tops).w (fixModelX gen w glog tops).glog
  | [], _, _, hq => hq
  | t :: ts, w, glog, hq => by
    have h1 : Q (fixTopX gen w t glog).tw (fixTopX gen w t glog).glog := fixTopX_inv h w t glog hq
    simp only [fixModelX]
    split
    · exact h1
    · exact fixModelX_inv2 h ts _ _ h1

end IrVerif.Names

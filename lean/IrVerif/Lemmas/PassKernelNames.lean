/-
C14 (wave 5): 'names of kept objects are kept' for kernel programs.  A frame for the NAME of a value through every
public call the four wave-5 programs issue: a value that has a name keeps exactly that name unless the call is
`Value.name = ...` for this very value.
-/
import IrVerif.Model.PassKernel2
import IrVerif.Lemmas.PassKernel
import IrVerif.Lemmas.KernelFaithful
namespace IrVerif.PassKernel
open IrVerif.Kernel IrVerif.Kernel.World

/-- every value keeps its name -/
def NE (w w' : World) : Prop := ∀ u, (w'.val u).name = (w.val u).name
/-- every value other than `x` that has a name keeps it (`x = none`: every value) -/
def NK (x : Option Nat) (w w' : World) : Prop :=
  ∀ u nm, x ≠ some u → (w.val u).name = some nm → (w'.val u).name = some nm

theorem NE.refl (w : World) : NE w w := fun _ => rfl
theorem NE.trans {a b c : World} (h1 : NE a b) (h2 : NE b c) : NE a c := fun u => (h2 u).trans (h1 u)
theorem NE.nk {w w' : World} (h : NE w w') (x : Option Nat) : NK x w w' := fun u nm _ hn => by rw [h u]; exact hn
theorem NK.refl (x : Option Nat) (w : World) : NK x w w := fun _ _ _ h => h
theorem NK.trans {x : Option Nat} {a b c : World} (h1 : NK x a b) (h2 : NK x b c) : NK x a c :=
  fun u nm hx hn => h2 u nm hx (h1 u nm hx hn)
theorem NK.weaken {w w' : World} (h : NK none w w') (x : Option Nat) : NK x w w' :=
  fun u nm _ hn => h u nm (by simp) hn

theorem foldl_NE {β : Type} (f : World → β → World) (hf : ∀ w b, NE w (f w b)) : ∀ (l : List β) (w : World), NE w (l.foldl f w)
  | [], w => NE.refl w
  | b :: l, w => (hf w b).trans (foldl_NE f hf l (f w b))
theorem foldl_NK {β : Type} (x : Option Nat) (f : World → β → World) (hf : ∀ w b, NK x w (f w b)) :
    ∀ (l : List β) (w : World), NK x w (l.foldl f w)
  | [], w => NK.refl x w
  | b :: l, w => (hf w b).trans (foldl_NK x f hf l (f w b))

theorem guardOp_NK (x : Option Nat) (bad : Bool) (kind : String) (w w' : World) (h : NK x w w') :
    NK x w (guardOp bad kind w w').1 := by
  unfold guardOp; split
  · exact NK.refl x w
  · split <;> exact h
theorem guardOp_NK' (x : Option Nat) (bad : Bool) (kind : String) (w w' : World) (h : bad = false → NK x w w') :
    NK x w (guardOp bad kind w w').1 := by
  unfold guardOp; split
  · exact NK.refl x w
  · rename_i hb
    split <;> exact h (by simpa using hb)

/-! ### primitives -/

theorem setVal_NE (w : World) (v : Nat) (r : ValueS) (h : r.name = (w.val v).name) : NE w (w.setVal v r) := by
  intro u; rw [val_setVal]; split
  · subst_vars; exact h
  · rfl
theorem setNode_NE (w : World) (n : Nat) (r : NodeS) : NE w (w.setNode n r) := fun _ => rfl
theorem setGr_NE (w : World) (g : Nat) (r : GraphS) : NE w (w.setGr g r) := fun _ => rfl
theorem bump_NE (w : World) : NE w (bump w) := fun _ => rfl
theorem noteName_NE (w : World) (g : Nat) (s : Option String) : NE w (noteName w g s) := fun u => by simp

theorem setInput_NE (w : World) (n i : Nat) (nv : Option Nat) : NE w (setInput w n i nv) := by
  unfold setInput; simp only []
  split
  · cases (w.node n).inputs.getD i none <;> cases nv <;> simp only []
    · exact setNode_NE w _ _
    · exact (setNode_NE w _ _).trans (setVal_NE _ _ _ (by rfl))
    · exact (setNode_NE w _ _).trans (setVal_NE _ _ _ (by rfl))
    · exact ((setNode_NE w _ _).trans (setVal_NE _ _ _ (by rfl))).trans (setVal_NE _ _ _ (by rfl))
  · exact bump_NE w

theorem rauwUses_NE (w : World) (v r : Nat) : NE w (rauwUses w v r) := by
  unfold rauwUses
  exact foldl_NE _ (fun w (u : Nat × Nat) => setInput_NE w u.1 u.2 (some r)) _ w

theorem detachInputs_NE (w : World) (n : Nat) : NE w (detachInputs w n) := by
  unfold detachInputs
  exact foldl_NE _ (fun w i => setInput_NE w n i none) _ w

theorem nodeUnlink_NE (w : World) (g n : Nat) : NE w (nodeUnlink w g n) := fun u => by rw [nodeUnlink_val]
theorem nodeLink_NE (w : World) (g : Nat) (a : Option Nat) (n : Nat) : NE w (nodeLink w g a n) := fun u => by rw [nodeLink_val]

theorem setIO_NE (w : World) (g : Nat) (k : IOKind) (v : Nat) : NE w (setIO w g k v) := by
  intro u
  unfold setIO; simp only [val_noteName, val_setVal, val_setGr]
  split
  · subst_vars; cases k <;> rfl
  · rfl

theorem unsetIO_NE (w : World) (g : Nat) (k : IOKind) (v : Nat) : NE w (unsetIO w g k v) := by
  intro u
  unfold unsetIO; simp only []
  split
  · rfl
  · simp only [val_setVal, val_setGr]
    split
    · subst_vars; cases k <;> rfl
    · rfl

theorem ioInsert_NE (w : World) (g : Nat) (k : IOKind) (pos v : Nat) : NE w (ioInsert w g k pos v) := by
  unfold ioInsert; split
  · exact (setIO_NE w g k v).trans (setGr_NE _ _ _)
  · exact bump_NE w

theorem ioRemoveAt_NE (w : World) (g : Nat) (k : IOKind) (pos : Nat) : NE w (ioRemoveAt w g k pos) := by
  unfold ioRemoveAt; split
  · exact bump_NE w
  · exact (setGr_NE _ _ _).trans (unsetIO_NE _ g k _)

theorem ioReplaceMany_NE (w : World) (g : Nat) (k : IOKind) (ps vs : List Nat) : NE w (ioReplaceMany w g k ps vs) := by
  unfold ioReplaceMany
  exact foldl_NE _ (fun w (p : Nat × Nat) => (ioRemoveAt_NE w g k p.1).trans (ioInsert_NE _ g k p.1 p.2)) _ w

theorem unsetInit_NE (w : World) (v : Nat) : NE w (unsetInit w v) := by
  unfold unsetInit; exact setVal_NE _ _ _ rfl

theorem initDel_NE (w : World) (g : Nat) (key : String) : NE w (initDel w g key) := by
  unfold initDel; split
  · exact bump_NE w
  · exact (unsetInit_NE w _).trans (setGr_NE _ _ _)

theorem setNamePlain_NK (w : World) (v : Nat) (s : Option String) : NK (some v) w (setNamePlain w v s) := by
  intro u nm hx hn
  rw [setNamePlain_val]; split
  · subst_vars; simp at hx
  · exact hn

theorem initPut_tail_NE (w1 : World) (g : Nat) (key : String) (v : Nat) :
    NE w1 (let w2 := match lookupInit (w1.gr g).inits key with
            | some old => unsetInit w1 old
            | none => w1
          let w3 := w2.setVal v { w2.val v with isInit := true, graph := some g }
          noteName (w3.setGr g { w3.gr g with inits := dictSet (w3.gr g).inits key v }) g (some key)) := by
  simp only []
  refine NE.trans ?_ (noteName_NE _ _ _)
  refine NE.trans ?_ (setGr_NE _ _ _)
  refine NE.trans ?_ (setVal_NE _ _ _ (by rfl))
  split
  · exact unsetInit_NE w1 _
  · exact NE.refl w1

/-- `initPut` in general: only `v` can be renamed -/
theorem initPut_NK (w : World) (g : Nat) (key : String) (v : Nat) : NK (some v) w (initPut w g key v) := by
  unfold initPut; split
  · have h1 : NK (some v) w (if falsy (w.val v).name then setNamePlain w v (some key) else w) := by
      split
      · exact setNamePlain_NK w v _
      · exact NK.refl _ w
    exact NK.trans h1 ((initPut_tail_NE _ g key v).nk _)
  · exact (bump_NE w).nk _

/-- `initPut` of a value whose name is not falsy renames nothing -/
theorem initPut_NE (w : World) (g : Nat) (key : String) (v : Nat) (hf : falsy (w.val v).name = false) :
    NE w (initPut w g key v) := by
  unfold initPut; split
  · have h1 : (if falsy (w.val v).name then setNamePlain w v (some key) else w) = w := by simp [hf]
    have := initPut_tail_NE (if falsy (w.val v).name then setNamePlain w v (some key) else w) g key v
    rw [h1] at this
    simp only [h1]
    exact this
  · exact bump_NE w

theorem allocVal_NK (w : World) (r : ValueS) : NK none w (allocVal w r).1 := by
  intro u nm _ hn
  unfold allocVal; simp only [val_setVal]
  split
  · subst_vars; rw [val_fresh w _ (Nat.le_refl _)] at hn; simp at hn
  · exact hn

theorem attachOutput_NE (w : World) (n v : Nat) : NE w (attachOutput w n v) := by
  unfold attachOutput; simp only []
  split
  · exact (setVal_NE _ _ _ (by rfl)).trans (setNode_NE _ _ _)
  · exact bump_NE w

theorem addOutput_NK (w : World) (n : Nat) : NK none w (addOutput w n) := by
  unfold addOutput
  exact (allocVal_NK w {}).trans ((attachOutput_NE _ _ _).nk _)

theorem iter_NK (x : Option Nat) (f : World → World) (hf : ∀ w, NK x w (f w)) : ∀ (k : Nat) (w : World), NK x w (iter f k w)
  | 0, w => NK.refl x w
  | k + 1, w => (hf w).trans (iter_NK x f hf k (f w))

theorem newNodeMut_NK (w : World) (opType : String) (name : Option String) (inputs : List (Option Nat))
    (numOutputs : Option Int) (outputs : Option (List Nat)) : NK none w (newNodeMut w opType name inputs numOutputs outputs) := by
  unfold newNodeMut; simp only []
  refine NK.trans ?_ ((foldl_NE _ (fun w (p : Nat × Option Nat) => setInput_NE w _ p.1 p.2) _ _).nk _)
  split
  · exact ((setNode_NE w _ _).trans (foldl_NE _ (fun w v => attachOutput_NE w _ v) _ _)).nk _
  · exact ((setNode_NE w _ _).nk _).trans (iter_NK none _ (fun w => addOutput_NK w _) _ _)

theorem registerValue_NK (w : World) (g v : Nat) : NK none w (registerValue w g v) := by
  unfold registerValue
  split
  · exact (setGr_NE _ _ _).nk _
  · rename_i hnone
    simp only []
    split
    · exact ((setGr_NE _ _ _).trans (bump_NE _)).nk _
    · intro u nm _ hn
      rw [setNamePlain_val]; split
      · subst_vars; simp only [val_setGr] at *; rw [hnone] at hn; simp at hn
      · simpa using hn

theorem registerNode_NE (w : World) (g n : Nat) : NE w (registerNode w g n) := by
  unfold registerNode; split
  · exact setGr_NE _ _ _
  · simp only []; exact (setGr_NE _ _ _).trans (setNode_NE _ _ _)

theorem assignNames_NK (w : World) (g n : Nat) : NK none w (assignNames w g n) := by
  unfold assignNames
  exact ((registerNode_NE w g n).nk _).trans (foldl_NK none _ (fun w o => registerValue_NK w g o) _ _)

theorem linkMany_NK (w : World) (g : Nat) (anchor : Option Nat) (ns : List Nat) : NK none w (linkMany w g anchor ns) := by
  unfold linkMany
  have key : ∀ (l : List Nat) (p : World × Option Nat),
      NK none p.1 (l.foldl (fun (p : World × Option Nat) n => (nodeLink (assignNames p.1 g n) g p.2 n, some n)) p).1 := by
    intro l
    induction l with
    | nil => intro p; exact NK.refl _ _
    | cons n l ih =>
      intro p
      simp only [List.foldl_cons]
      exact ((assignNames_NK p.1 g n).trans ((nodeLink_NE _ g p.2 n).nk _)).trans (ih (nodeLink (assignNames p.1 g n) g p.2 n, some n))
  exact key ns (w, anchor)

/-! ### the public calls -/

theorem rauw_NK (w : World) (v r : Nat) (rgo : Bool) : NK none w (rauw w v r rgo).1 := by
  unfold rauw; simp only []
  refine guardOp_NK _ _ _ _ _ ?_
  refine NK.trans ?_ ((rauwUses_NE _ v r).nk _)
  split
  · exact (ioReplaceMany_NE _ _ _ _ _).nk _
  · exact NK.refl _ _

theorem andThen_NK (x : Option Nat) (w : World) (r : World × Outcome) (f : World → World × Outcome) (h1 : NK x w r.1)
    (h2 : ∀ w1, NK x w w1 → NK x w (f w1).1) : NK x w (andThen r f).1 := by
  unfold andThen; split
  · exact h2 _ h1
  · exact h1

theorem rauwSeq_NK (rgo : Bool) : ∀ (ps : List (Nat × Nat)) (w : World), NK none w (rauwSeq w rgo ps).1
  | [], w => NK.refl _ w
  | (v, r) :: rest, w => by
    simp only [rauwSeq]
    exact andThen_NK none w _ _ (rauw_NK w v r rgo) (fun w1 h1 => h1.trans (rauwSeq_NK rgo rest w1))

theorem rauwMany_NK (w : World) (vs rs : List Nat) (rgo : Bool) : NK none w (rauwMany w vs rs rgo).1 := by
  unfold rauwMany; split
  · exact NK.refl _ w
  · exact rauwSeq_NK rgo _ w

theorem rauwManyExact_NK (w : World) (vs rs : List Nat) (rgo : Bool) : NK none w (rauwManyExact w vs rs rgo).1 := by
  unfold rauwManyExact; split
  · exact NK.refl _ w
  · exact guardOp_NK _ _ _ _ _ (rauwSeq_NK rgo _ w)

theorem graphRemove_NK (w : World) (g : Nat) (ns : List Nat) (safe : Bool) : NK none w (graphRemove w g ns safe).1 := by
  unfold graphRemove
  refine guardOp_NK _ _ _ _ _ ((foldl_NE _ (fun w n => ?_) _ _).nk _)
  refine NE.trans ?_ (nodeUnlink_NE _ g n)
  split
  · exact detachInputs_NE w n
  · exact NE.refl w

theorem graphInsertBefore_NK (w : World) (g a : Nat) (ns : List Nat) : NK none w (graphInsertBefore w g a ns).1 := by
  unfold graphInsertBefore
  exact guardOp_NK _ _ _ _ _ (linkMany_NK w g _ ns)

theorem newValue_NK (w : World) (name : Option String) : NK none w (newValue w name).1 := by
  unfold newValue
  exact guardOp_NK _ _ _ _ _ (allocVal_NK w _)

theorem setConst_NK (w : World) (v : Nat) (locked : Bool) : NK none w (setConst w v locked).1 := by
  unfold setConst; simp only []
  refine guardOp_NK _ _ _ _ _ ?_
  intro u nm _ hn
  rw [val_setVal]; split
  · subst_vars; exact hn
  · exact hn

theorem newNode_NK (w : World) (opType : String) (name : Option String) (inputs : List (Option Nat))
    (numOutputs : Option Int) (outputs : Option (List Nat)) :
    NK none w (newNode w opType name inputs numOutputs outputs none).1 := by
  unfold newNode
  exact guardOp_NK _ _ _ _ _ (newNodeMut_NK w opType name inputs numOutputs outputs)

theorem ioSetItem_NK (w : World) (g : Nat) (k : IOKind) (i : Int) (v : Nat) : NK none w (ioMut w g k (.setItem i v)).1 := by
  simp only [ioMut]
  refine guardOp_NK _ _ _ _ _ ?_
  unfold atPos; split
  · exact ((ioRemoveAt_NE w g k _).trans (ioInsert_NE _ g k _ v)).nk _
  · exact (bump_NE w).nk _

theorem initPop_NK (w : World) (g : Nat) (key : String) : NK none w (initMut w g (.pop key)).1 := by
  simp only [initMut]
  exact guardOp_NK _ _ _ _ _ ((initDel_NE w g key).nk _)

theorem initRegister_NK (w : World) (g v : Nat) : NK none w (initMut w g (.register v)).1 := by
  simp only [initMut]
  refine guardOp_NK' _ _ _ _ _ (fun hb => ?_)
  refine (initPut_NE w g _ v ?_).nk _
  simp only [Bool.or_eq_false_iff] at hb
  obtain ⟨⟨⟨⟨h1, h2⟩, _⟩, _⟩, _⟩ := hb
  cases hn : (w.val v).name with
  | none => simp [hn] at h1
  | some s =>
    simp only [hn, Option.getD_some, decide_eq_false_iff_not] at h2
    simp [falsy, h2]

theorem setName_NK (w : World) (v : Nat) (s : Option String) : NK (some v) w (setName w v s).1 := by
  unfold setName; simp only []
  refine guardOp_NK _ _ _ _ _ ?_
  split
  · exact NK.refl _ w
  · split
    · split
      · exact (((initDel_NE w _ _).nk _).trans (setNamePlain_NK _ v _)).trans (initPut_NK _ _ _ v)
      · exact NK.refl _ w
    · exact setNamePlain_NK w v s

/-! ### the class of calls and the frame of one call -/

/-- the calls the wave-5 programs issue, with the value they may rename: `none` = outside the class -/
def nameTarget : AnyOp → Option (Option Nat)
  | .one (.newValue _) => some none
  | .one (.setConst _ _) => some none
  | .one (.newNode _ _ _ _ _ none) => some none
  | .one (.io _ _ (.setItem _ _)) => some none
  | .one (.insertBefore _ _ _) => some none
  | .one (.setName v _) => some (some v)
  | .one (.remove _ _ _) => some none
  | .one (.rauw _ _ _) => some none
  | .one (.init _ (.register _)) => some none
  | .one (.init _ (.pop _)) => some none
  | .conv (.rauwMany _ _ _) => some none
  | .conv (.rauwManyExact _ _ _) => some none
  | _ => none

theorem stepAny_NK (w : World) (op : AnyOp) (x : Option Nat) (h : nameTarget op = some x) : NK x w (stepAny w op).1 := by
  unfold nameTarget at h
  split at h <;> simp only [Option.some.injEq, reduceCtorEq] at h <;> subst h <;> simp only [stepAny, step, stepConv]
  · exact newValue_NK w _
  · exact setConst_NK w _ _
  · exact newNode_NK w _ _ _ _ _
  · exact ioSetItem_NK w _ _ _ _
  · exact graphInsertBefore_NK w _ _ _
  · exact setName_NK w _ _
  · exact graphRemove_NK w _ _ _
  · exact rauw_NK w _ _ _
  · exact initRegister_NK w _ _
  · exact initPop_NK w _ _
  · exact rauwMany_NK w _ _ _
  · exact rauwManyExact_NK w _ _ _

end IrVerif.PassKernel

import IrVerif.Lemmas.SerdeMerge
/-! C02 deepening, E3: the mutual induction `WFproto (merge x) -> deserialize (merge x) = deserialize x`
over attributes, nodes and graphs (arbitrary nesting), then functions and models. -/
namespace IrVerif.Serde
open IrVerif.Proto

theorem wfNode_inputs {scopes : Scopes} : ∀ {n : NodeP}, wfNode scopes n = true →
    n.inputs.all (fun s => s.isEmpty || (resolve scopes s).isSome) = true
  | .mk inputs outputs name opType domain overload doc attrs metadata devcfgs, h => by
    simp only [wfNode, Bool.and_eq_true] at h
    exact h.1.1.1.1.1

theorem mergeApplies_of_ne {D I : List String} {vis : List ValueInfoP} {vo : ValueInfoP}
    (h : mergeOutVI D I vis vo ≠ vo) : mergeApplies D I vo = true := by
  cases ha : mergeApplies D I vo with
  | true => rfl
  | false => exact absurd (by simp [mergeOutVI, ha]) h

mutual
theorem desAttr_merge (scopes : Scopes) : ∀ a : AttrP, wfAttr scopes (mergeAttr a) = true →
    desAttr scopes (mergeAttr a) = desAttr scopes a
  | .ref .., _ => rfl
  | .int .., _ => rfl
  | .float .., _ => rfl
  | .string .., _ => rfl
  | .ints .., _ => rfl
  | .floats .., _ => rfl
  | .strings .., _ => rfl
  | .tensor .., _ => rfl
  | .tensors .., _ => rfl
  | .graph n d g, h => by
    simp only [mergeAttr, wfAttr] at h
    simp only [mergeAttr, desAttr, desGraph_merge scopes g h]
  | .graphs n d gs, h => by
    simp only [mergeAttr, wfAttr] at h
    simp only [mergeAttr, desAttr, desGraphs_merge scopes gs h]
  | .typeProto .., _ => rfl
  | .typeProtos .., _ => rfl
  | .undefined .., _ => rfl
  | .sparse .., _ => rfl
  | .unknown .., _ => rfl

theorem desGraphs_merge (scopes : Scopes) : ∀ gs : List GraphP, wfGraphs scopes (mergeGraphs gs) = true →
    desGraphs scopes (mergeGraphs gs) = desGraphs scopes gs
  | [], _ => rfl
  | g :: gs, h => by
    simp only [mergeGraphs, wfGraphs, Bool.and_eq_true] at h
    simp only [mergeGraphs, desGraphs, desGraph_merge scopes g h.1, desGraphs_merge scopes gs h.2]

theorem desAttrs_merge (scopes : Scopes) : ∀ as : List AttrP, wfAttrs scopes (mergeAttrs as) = true →
    desAttrs scopes (mergeAttrs as) = desAttrs scopes as
  | [], _ => rfl
  | a :: as, h => by
    simp only [mergeAttrs, wfAttrs, Bool.and_eq_true] at h
    simp only [mergeAttrs, desAttrs, desAttr_merge scopes a h.1, desAttrs_merge scopes as h.2]

theorem desAttrsLast_merge (scopes : Scopes) : ∀ as : List AttrP, wfAttrs scopes (mergeAttrs as) = true →
    desAttrsLast scopes (mergeAttrs as) = desAttrsLast scopes as
  | [], _ => rfl
  | a :: as, h => by
    simp only [mergeAttrs, wfAttrs, Bool.and_eq_true] at h
    simp only [mergeAttrs, desAttrsLast, mergeAttr_name, mergeAttrs_any, desAttr_merge scopes a h.1,
      desAttrsLast_merge scopes as h.2]

theorem desNode_merge (outer : Scopes) (vis : List ValueInfoP) (q : List AnnotP) (tbl : List IRValue) :
    ∀ n : NodeP, wfNode (tableNames tbl :: outer) (mergeNode n) = true →
    desNode outer vis q tbl (mergeNode n) = desNode outer vis q tbl n
  | .mk inputs outputs name opType domain overload doc attrs metadata devcfgs, h => by
    simp only [mergeNode, wfNode, Bool.and_eq_true] at h
    obtain ⟨⟨⟨⟨⟨hin, _⟩, _⟩, hattrs⟩, _⟩, _⟩ := h
    simp only [mergeNode, desNode, mergeAttrs_names, desNodeInputs_wf outer vis q tbl inputs hin, bind,
      Except.bind, desAttrsLast_merge (tableNames tbl :: outer) attrs hattrs]

theorem desNodes_merge (outer : Scopes) (vis : List ValueInfoP) (q : List AnnotP) :
    ∀ (nodes : List NodeP) (tbl : List IRValue),
    wfNodes (tableNames tbl :: outer) (mergeNodes nodes) = true →
    desNodes outer vis q (mergeNodes nodes) tbl = desNodes outer vis q nodes tbl
  | [], _, _ => rfl
  | n :: ns, tbl, h => by
    simp only [mergeNodes, wfNodes, Bool.and_eq_true] at h
    simp only [mergeNodes, desNodes, desNode_merge outer vis q tbl n h.1]
    cases hd : desNode outer vis q tbl n with
    | error e => rfl
    | ok r =>
      obtain ⟨x, t1⟩ := r
      have hin := wfNode_inputs h.1
      rw [mergeNode_inputs] at hin
      have ht : t1 = tbl := desNode_ok_tbl outer vis q tbl t1 n x hin hd
      simp only [bind, Except.bind, ht, desNodes_merge outer vis q ns tbl h.2]

theorem desGraph_merge (outer : Scopes) : ∀ g : GraphP, wfGraph outer (mergeGraph g) = true →
    desGraph outer (mergeGraph g) = desGraph outer g
  | .mk name doc nodes inits inputs outputs vis quant md, h => by
    simp only [mergeGraph] at h ⊢
    obtain ⟨hw'', hwn''⟩ := graphWF_of_wf outer name doc (mergeNodes nodes) inits inputs
      (mOutputs inits inputs outputs vis (nodeOutNames nodes))
      (mVis inits inputs outputs vis (nodeOutNames nodes)) quant md h
    have hw' := hw''
    have hwn' := hwn''
    rw [nodeOutNames_mergeNodes] at hw' hwn'
    -- the unmerged graph satisfies everything the closed form needs
    have hw0 : GraphWF0 inits inputs outputs vis (nodeOutNames nodes) := by
      refine ⟨hw'.nodupNames, hw'.nonempty, hw'.nodupInit, hw'.wfIn, ?_, ?_, hw'.wfInit⟩
      · rw [List.all_eq_true]
        intro vo hvo
        exact wfVI_of_merge _ _ _ _ (List.all_eq_true.1 hw'.wfOut _ (List.mem_map_of_mem hvo))
      · rw [List.all_eq_true]
        intro vi hvi
        by_cases hm : vi ∈ mVis inits inputs outputs vis (nodeOutNames nodes)
        · exact List.all_eq_true.1 hw'.wfVis vi hm
        · have : ¬ (!(((outputs.map (·.name)).contains vi.name
              && (mDeclared inits (nodeOutNames nodes)).contains vi.name
              && !(inputs.map (·.name)).contains vi.name) && wfVI vi)) = true := by
            intro hc
            exact hm (List.mem_filter.2 ⟨hvi, hc⟩)
          cases hwf : wfVI vi with
          | true => rfl
          | false => simp [hwf] at this
    -- names of the tables
    have hN : ∀ V, tableNames (tblPre inits inputs V quant (nodeOutNames nodes))
        = scopeNames (inputs.map (·.name)) (inits.map (·.name)) (nodeOutNames nodes) :=
      fun V => tableNames_tblPre
    -- nodes: merged nodes on the merged table, then back
    obtain ⟨xs, n0, _, _⟩ := nodes_rt outer (mVis inits inputs outputs vis (nodeOutNames nodes)) quant none
      (mergeNodes nodes) (tblPre inits inputs (mVis inits inputs outputs vis (nodeOutNames nodes)) quant
        (nodeOutNames nodes)) (by rw [hN]; exact hwn') (Or.inl rfl)
    have n1 := n0
    rw [desNodes_merge outer _ quant nodes _ (by rw [hN]; exact hwn')] at n1
    have hv : VisAgree ((outputs.map (·.name)).filter (fun n =>
          (mDeclared inits (nodeOutNames nodes)).contains n && !(inputs.map (·.name)).contains n))
        vis (mVis inits inputs outputs vis (nodeOutNames nodes)) := by
      intro n hn
      symm
      unfold mVis mergeVIs
      apply findVI_filter
      intro v hvn
      rw [hvn]
      simp only [List.mem_filter, Bool.and_eq_true, List.contains_eq_mem, decide_eq_true_eq,
        Bool.not_eq_true', decide_eq_false_iff_not] at hn
      by_cases ho : n ∈ outputs.map (·.name) <;>
        by_cases hd : n ∈ mDeclared inits (nodeOutNames nodes) <;>
        by_cases hi : n ∈ inputs.map (·.name) <;> simp_all
    have hS : ∀ s ∈ (outputs.map (·.name)).filter (fun n =>
          (mDeclared inits (nodeOutNames nodes)).contains n && !(inputs.map (·.name)).contains n),
        s ∈ tableNames (tblPre inits inputs (mVis inits inputs outputs vis (nodeOutNames nodes)) quant
          (nodeOutNames nodes)) := by
      intro s hs
      rw [hN]
      simp only [List.mem_filter, Bool.and_eq_true, List.contains_eq_mem, decide_eq_true_eq,
        Bool.not_eq_true', decide_eq_false_iff_not, mDeclared, List.mem_append] at hs
      obtain ⟨_, hd, hi⟩ := hs
      rcases hd with hd | hd
      · exact mem_scopeNames.2 (Or.inr (Or.inl ⟨hd, hi⟩))
      · exact mem_scopeNames.2 (Or.inr (Or.inr hd))
    have n2 : desNodes outer vis quant nodes
        (tblPre inits inputs (mVis inits inputs outputs vis (nodeOutNames nodes)) quant (nodeOutNames nodes))
        = .ok (xs, tblPre inits inputs (mVis inits inputs outputs vis (nodeOutNames nodes)) quant
            (nodeOutNames nodes)) := by
      rw [desNodes_congr hv outer quant nodes _ hS]; exact n1
    have hres : inputsResolvable
        (tableNames (tblPre inits inputs (mVis inits inputs outputs vis (nodeOutNames nodes)) quant
          (nodeOutNames nodes)) :: outer) nodes := by
      rw [hN]
      exact inputsResolvable_merge (inputsResolvable_of_wf hwn')
    have n3 := desNodes_indep outer vis quant _ (tblPre inits inputs vis quant (nodeOutNames nodes))
      (by rw [hN, hN]) nodes xs hres n2
    -- the closed forms
    obtain ⟨idxs, c1, c2⟩ := graph_des_closedAll outer name doc nodes inits inputs outputs vis quant md hw0 xs n3
    obtain ⟨idxs', c1', c2'⟩ := graph_des_closed outer name doc (mergeNodes nodes) inits inputs
      (mOutputs inits inputs outputs vis (nodeOutNames nodes))
      (mVis inits inputs outputs vis (nodeOutNames nodes)) quant md hw''.to0 hw''.consOut xs
      (by rw [nodeOutNames_mergeNodes]; exact n0)
    have hidx : idxs' = idxs := map_some_inj (c2'.trans c2.symm)
    rw [c1, c1', hidx, nodeOutNames_mergeNodes, ← tblFinal_merge hw']
    have hg : (mOutputs inits inputs outputs vis (nodeOutNames nodes)).map
        (gOutT (scopeNames (inputs.map (·.name)) (inits.map (·.name)) (nodeOutNames nodes)))
        = outputs.map (gOutT (scopeNames (inputs.map (·.name)) (inits.map (·.name)) (nodeOutNames nodes))) := by
      apply gOutT_merge
      intro vo _ hne
      have ha := mergeApplies_of_ne hne
      simp only [mergeApplies, Bool.and_eq_true, List.contains_eq_mem, decide_eq_true_eq,
        Bool.not_eq_true', decide_eq_false_iff_not, mDeclared, List.mem_append] at ha
      apply lookupLast_isSome
      rcases ha.1.1 with hd | hd
      · exact mem_scopeNames.2 (Or.inr (Or.inl ⟨hd, ha.1.2⟩))
      · exact mem_scopeNames.2 (Or.inr (Or.inr hd))
    rw [hg]
end

end IrVerif.Serde

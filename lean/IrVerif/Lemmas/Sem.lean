/-
Lemmas/Sem.lean — basic facts about the semantics of Model/Sem.lean:
environments, the coincidence lemma (a denotation depends only on the values it reads).
-/
import IrVerif.Model.Sem
namespace IrVerif.Sem
variable {Val : Type}

/-- two environments agree on the set `S` -/
def EqOn (S : VId → Prop) (ρ1 ρ2 : Env Val) : Prop := ∀ v, S v → ρ1 v = ρ2 v

theorem EqOn.refl (S : VId → Prop) (ρ : Env Val) : EqOn S ρ ρ := fun _ _ => rfl

theorem EqOn.mono {S T : VId → Prop} {ρ1 ρ2 : Env Val} (h : EqOn T ρ1 ρ2) (hST : ∀ v, S v → T v) :
    EqOn S ρ1 ρ2 := fun v hv => h v (hST v hv)

theorem EqOn.symm {S : VId → Prop} {ρ1 ρ2 : Env Val} (h : EqOn S ρ1 ρ2) : EqOn S ρ2 ρ1 :=
  fun v hv => (h v hv).symm

theorem EqOn.trans {S : VId → Prop} {ρ1 ρ2 ρ3 : Env Val} (h : EqOn S ρ1 ρ2) (h' : EqOn S ρ2 ρ3) :
    EqOn S ρ1 ρ3 := fun v hv => (h v hv).trans (h' v hv)

theorem Env.bind_of_mem (ρ : Env Val) {vs : List VId} (rs : List (Option Val)) {u : VId} (h : u ∈ vs) :
    ρ.bind vs rs u = (rs[vs.idxOf u]?).join := by simp [Env.bind, h]

theorem Env.bind_of_not_mem (ρ : Env Val) {vs : List VId} (rs : List (Option Val)) {u : VId} (h : u ∉ vs) :
    ρ.bind vs rs u = ρ u := by simp [Env.bind, h]

theorem EqOn.bind {S : VId → Prop} {ρ1 ρ2 : Env Val} (h : EqOn S ρ1 ρ2) (vs : List VId)
    (rs : List (Option Val)) : EqOn S (ρ1.bind vs rs) (ρ2.bind vs rs) := by
  intro v hv
  by_cases hm : v ∈ vs
  · simp [Env.bind, hm]
  · simp [Env.bind, hm, h v hv]

theorem Env.bind_map_of_mem {α : Type} (ρ : Env Val) (f : α → VId) (g : α → Option Val) :
    ∀ (l : List α) (a : α), (l.map f).Nodup → a ∈ l → ρ.bind (l.map f) (l.map g) (f a) = g a
  | [], _, _, h => by simp at h
  | b :: rest, a, hnd, h => by
    simp only [List.map_cons, List.nodup_cons, List.mem_map, not_exists, not_and] at hnd
    by_cases hab : f a = f b
    · have : a = b := by
        rcases List.mem_cons.1 h with h | h
        · exact h
        · exact absurd hab (hnd.1 a h)
      subst this
      simp [Env.bind, List.idxOf_cons_self]
    · have ha : a ∈ rest := by
        rcases List.mem_cons.1 h with h | h
        · exact absurd (by rw [h]) hab
        · exact h
      have ih := Env.bind_map_of_mem ρ f g rest a hnd.2 ha
      have hm : f a ∈ rest.map f := List.mem_map.2 ⟨a, ha, rfl⟩
      simp only [Env.bind, hm, if_true] at ih
      simp only [Env.bind, List.map_cons, List.mem_cons, hab, hm, or_true, if_true]
      have hbeq : (f b == f a) = false := by simpa using (fun h' : f b = f a => hab h'.symm)
      simp only [List.idxOf_cons, hbeq, cond_false]
      simpa using ih

theorem trimNone_prefix : ∀ ins : List (Option VId), trimNone ins <+: ins
  | [] => by simp [trimNone]
  | a :: rest => by
    have ih := trimNone_prefix rest
    rw [trimNone]
    split
    · exact List.nil_prefix
    · exact List.cons_prefix_cons.mpr ⟨rfl, ih⟩

theorem mem_of_mem_trimNone {o : Option VId} {ins : List (Option VId)} (h : o ∈ trimNone ins) : o ∈ ins :=
  (trimNone_prefix ins).subset h

theorem trimNone_idem : ∀ ins : List (Option VId), trimNone (trimNone ins) = trimNone ins
  | [] => by simp [trimNone]
  | a :: rest => by
    have ih := trimNone_idem rest
    rw [trimNone]
    split
    · simp [trimNone]
    · rename_i hne
      rw [trimNone, ih, if_neg hne]

theorem evalArgs_congr {S : VId → Prop} {ρ1 ρ2 : Env Val} (h : EqOn S ρ1 ρ2) (ins : List (Option VId))
    (hS : ∀ v ∈ ins.filterMap id, S v) : evalArgs ρ1 ins = evalArgs ρ2 ins := by
  unfold evalArgs
  apply List.map_congr_left
  intro o ho
  cases o with
  | none => rfl
  | some v =>
    simp only [Option.bind]
    exact h v (hS v (by simp [List.mem_filterMap]; exact ho))

mutual
theorem evalG_congr (I : Interp Val) : ∀ (g : Graph) (ρ1 ρ2 : Env Val),
    EqOn (· ∈ refsG g) ρ1 ρ2 → evalG I g ρ1 = evalG I g ρ2
  | .mk inputs outputs inits nodes, ρ1, ρ2, h => by
    funext xs
    simp only [evalG]
    apply List.map_congr_left
    intro v hv
    refine evalNodes_congr I nodes (· ∈ refsG (.mk inputs outputs inits nodes)) _ _ ?_ ?_ v ?_
    · intro w hw; simp [refsG, hw]
    · exact (h.bind _ _).bind _ _
    · simp [refsG, hv]
theorem evalNodes_congr (I : Interp Val) : ∀ (ns : List Node) (S : VId → Prop) (ρ1 ρ2 : Env Val),
    (∀ v ∈ refsNodes ns, S v) → EqOn S ρ1 ρ2 → EqOn S (evalNodes I ns ρ1) (evalNodes I ns ρ2)
  | [], _, _, _, _, h => by simpa [evalNodes] using h
  | n :: ns, S, ρ1, ρ2, hS, h => by
    simp only [evalNodes]
    refine evalNodes_congr I ns S _ _ (fun v hv => hS v (by simp [refsNodes, hv])) ?_
    exact evalN_congr I n S ρ1 ρ2 (fun v hv => hS v (by simp [refsNodes, hv])) h
theorem evalN_congr (I : Interp Val) : ∀ (n : Node) (S : VId → Prop) (ρ1 ρ2 : Env Val),
    (∀ v ∈ refsN n, S v) → EqOn S ρ1 ρ2 → EqOn S (evalN I n ρ1) (evalN I n ρ2)
  | .mk op attrs ins outs bodies, S, ρ1, ρ2, hS, h => by
    simp only [evalN]
    have ha : evalArgs ρ1 (trimNone ins) = evalArgs ρ2 (trimNone ins) :=
      evalArgs_congr h _ (fun v hv => hS v (by
        simp only [refsN, List.mem_append]; left
        simp only [List.mem_filterMap, id] at hv ⊢
        obtain ⟨a, ha, rfl⟩ := hv
        exact ⟨_, mem_of_mem_trimNone ha, rfl⟩))
    have hb : evalBodies I bodies ρ1 = evalBodies I bodies ρ2 :=
      evalBodies_congr I bodies ρ1 ρ2 (h.mono (fun v hv => hS v (by simp only [refsN, List.mem_append]; exact Or.inr hv)))
    rw [ha, hb]
    exact h.bind _ _
theorem evalBodies_congr (I : Interp Val) : ∀ (bs : List Graph) (ρ1 ρ2 : Env Val),
    EqOn (· ∈ refsBodies bs) ρ1 ρ2 → evalBodies I bs ρ1 = evalBodies I bs ρ2
  | [], _, _, _ => by simp [evalBodies]
  | b :: bs, ρ1, ρ2, h => by
    simp only [evalBodies]
    have h1 : evalG I b ρ1 = evalG I b ρ2 :=
      evalG_congr I b ρ1 ρ2 (h.mono (fun v hv => by simp [refsBodies, hv]))
    have h2 := evalBodies_congr I bs ρ1 ρ2 (h.mono (fun v hv => by simp [refsBodies, hv]))
    rw [h2, h1]
end

end IrVerif.Sem

/-
Soundness of the executable certificate checker `Model/ScopeCert.lean`: the Boolean re-runs `cInits` / `cDecl` /
`cRes` / `cOuts` / `cG` / `cNs` / `cN` / `cGs` compute the tables and the introduced values of the certificates
`replInits` / ... / `replGs` (`Lemmas/ScopeRepl.lean`), and `ok = true` implies the `ok` of the certificate together
with the clauses of `extG` / `extNs` / `extN` / `extGs` (`Lemmas/ScopeExtRTDefs.lean`).  `extWFB` decides `ExtWF` on
an extension state that is blank above the allocation counter, and `reloadableEB` decides `ReloadableE`.
-/
import IrVerif.Model.ScopeCert
import IrVerif.Lemmas.ScopeExtRTDefs
namespace IrVerif.Scope

/-! ### the auxiliary functions -/

theorem cnm_eq (V : Nat → ValueS) (v : Nat) : cnm V v = nm V v := rfl

theorem cTblIns_eq (V : Nat → ValueS) (ins : List Nat) : cTblIns V ins = tblIns V ins := rfl

theorem cLive_eq (V : Nat → ValueS) (n : NodeT) : cLive V n = liveOuts V n := by
  cases n; rfl

theorem cLive_eq_fun (V : Nat → ValueS) : cLive V = liveOuts V := funext (cLive_eq V)

theorem cRoles_eq (V : Nat → ValueS) (ins : List Nat) (inits : List (Name × Nat)) (nodes : List NodeT)
    (outs : List Nat) : cRoles V ins inits nodes outs = qcRoles V ins inits nodes outs := by
  simp only [cRoles, qcRoles, cLive_eq_fun]

/-! ### the non-mutual phases -/

theorem cInits_sound (V : Nat → ValueS) (gouts : List Nat) : ∀ (l : List (Name × Nat)) (T : Table),
    (cInits V gouts T l).tbl = (replInits V gouts T l).tbl ∧
    (cInits V gouts T l).new = (replInits V gouts T l).new ∧
    ((cInits V gouts T l).ok = true → (replInits V gouts T l).ok)
  | [], T => by simp [cInits, replInits]
  | (k, v) :: r, T => by
    rw [cInits, replInits]
    cases hl : T.lookup k with
    | some u =>
      obtain ⟨h1, h2, h3⟩ := cInits_sound V gouts r T
      refine ⟨h1, h2, ?_⟩
      simp only [Bool.and_eq_true, beq_iff_eq, bne_iff_ne, ne_eq, Option.isSome_iff_ne_none]
      rintro ⟨⟨⟨⟨a, b⟩, c⟩, d⟩, e⟩
      exact ⟨⟨a, b, c⟩, d, h3 e⟩
    | none =>
      obtain ⟨h1, h2, h3⟩ := cInits_sound V gouts r ((k, v) :: T)
      refine ⟨h1, by simp only [h2], ?_⟩
      simp only [Bool.and_eq_true, Bool.or_eq_true, beq_iff_eq, bne_iff_ne, ne_eq, Option.isSome_iff_ne_none,
        List.contains_iff_mem]
      rintro ⟨⟨⟨⟨a, b⟩, c⟩, d⟩, e⟩
      refine ⟨⟨a, b, c⟩, fun hn => ?_, h3 e⟩
      rcases d with d | d
      · exact absurd d hn
      · exact d

theorem cDecl_sound (V : Nat → ValueS) : ∀ (l : List Nat) (T : Table),
    (cDecl V T l).tbl = (replDecl V T l).tbl ∧
    (cDecl V T l).new = (replDecl V T l).new ∧
    ((cDecl V T l).ok = true → (replDecl V T l).ok)
  | [], T => by simp [cDecl, replDecl]
  | v :: r, T => by
    rw [cDecl, replDecl]
    by_cases ht : nameTruthy (V v).name = true
    · obtain ⟨h1, h2, h3⟩ := cDecl_sound V r ((nm V v, v) :: T)
      simp only [ht, if_true, cnm_eq]
      refine ⟨h1, by simp only [h2], ?_⟩
      simp only [Bool.and_eq_true, Option.isNone_iff_eq_none]
      rintro ⟨a, b⟩
      exact ⟨a, h3 b⟩
    · obtain ⟨h1, h2, h3⟩ := cDecl_sound V r T
      simp only [ht, if_false, Bool.false_eq_true]
      refine ⟨h1, h2, ?_⟩
      simp only [Bool.and_eq_true, Option.isSome_iff_ne_none, ne_eq]
      rintro ⟨a, b⟩
      exact ⟨a, h3 b⟩

theorem cRes_sound (V : Nat → ValueS) (outer : List Table) : ∀ (l : List (Option Nat)) (T : Table),
    (cRes V outer T l).tbl = (replRes V outer T l).tbl ∧
    (cRes V outer T l).new = (replRes V outer T l).new ∧
    ((cRes V outer T l).ok = true → (replRes V outer T l).ok)
  | [], T => by simp [cRes, replRes]
  | none :: r, T => by
    rw [cRes, replRes]
    exact cRes_sound V outer r T
  | some v :: r, T => by
    rw [cRes, replRes]
    simp only [cnm_eq]
    cases hl : resolve (nm V v) (T :: outer) with
    | some u =>
      obtain ⟨h1, h2, h3⟩ := cRes_sound V outer r T
      refine ⟨h1, h2, ?_⟩
      simp only [Bool.and_eq_true, beq_iff_eq]
      rintro ⟨⟨a, b⟩, c⟩
      exact ⟨a, b, h3 c⟩
    | none =>
      obtain ⟨h1, h2, h3⟩ := cRes_sound V outer r ((nm V v, v) :: T)
      refine ⟨h1, by simp only [h2], ?_⟩
      simp only [Bool.and_eq_true]
      rintro ⟨a, b⟩
      exact ⟨a, h3 b⟩

theorem cOuts_sound (V : Nat → ValueS) (T : Table) : ∀ (l : List Nat),
    (cOuts V T l).tbl = (replOuts V T l).tbl ∧
    (cOuts V T l).new = (replOuts V T l).new ∧
    ((cOuts V T l).ok = true → (replOuts V T l).ok)
  | [] => by simp [cOuts, replOuts]
  | v :: r => by
    obtain ⟨_, h2, h3⟩ := cOuts_sound V T r
    rw [cOuts, replOuts]
    simp only [cnm_eq]
    cases hl : T.lookup (nm V v) with
    | some u =>
      refine ⟨rfl, h2, ?_⟩
      simp only [Bool.and_eq_true, beq_iff_eq, Option.isSome_iff_ne_none, ne_eq]
      rintro ⟨⟨a, b⟩, c⟩
      exact ⟨a, b, h3 c⟩
    | none =>
      refine ⟨rfl, by simp only [h2], ?_⟩
      simp only [Bool.and_eq_true, Option.isSome_iff_ne_none, ne_eq]
      rintro ⟨a, b⟩
      exact ⟨a, h3 b⟩

theorem cOuts_tbl (V : Nat → ValueS) (T : Table) (l : List Nat) : (cOuts V T l).tbl = T := by
  cases l with
  | nil => rfl
  | cons v r =>
    rw [cOuts]
    split <;> rfl

/-! ### the mutual phases -/

mutual
theorem cG_sound (V : Nat → ValueS) (x : Ext) : ∀ (g : GraphT) (outer : List Table),
    (cG V x outer g).new = (replG V outer g).new ∧
    ((cG V x outer g).ok = true → (replG V outer g).ok ∧ extG V x outer g)
  | .mk _ ins inits nodes outs, outer => by
    obtain ⟨i1, i2, i3⟩ := cInits_sound V outs inits (tblIns V ins)
    obtain ⟨d1, d2, d3⟩ := cDecl_sound V (nodes.flatMap (liveOuts V)) (replInits V outs (tblIns V ins) inits).tbl
    obtain ⟨n1, n2, n3⟩ := cNs_sound V x outer nodes
      (replDecl V (replInits V outs (tblIns V ins) inits).tbl (nodes.flatMap (liveOuts V))).tbl
    obtain ⟨_, o2, o3⟩ := cOuts_sound V
      (replNs V outer (replDecl V (replInits V outs (tblIns V ins) inits).tbl
        (nodes.flatMap (liveOuts V))).tbl nodes).tbl outs
    simp only [cG, replG, extG, cTblIns_eq, cLive_eq_fun, cRoles_eq, i1, i2, d1, d2, n1, n2, o2, true_and]
    simp only [Bool.and_eq_true, List.all_eq_true, Bool.or_eq_true, Bool.not_eq_true', beq_eq_false_iff_ne,
      beq_iff_eq, Option.isSome_iff_ne_none, Option.isNone_iff_eq_none, ne_eq, nodupNamesB_iff]
    rintro ⟨⟨⟨⟨⟨⟨⟨a, b⟩, c⟩, d⟩, e⟩, f⟩, g⟩, h⟩
    refine ⟨⟨a, b, i3 c, d3 d, (n3 e).1, o3 f⟩, ?_, h, (n3 e).2⟩
    intro p hp q hq hpq
    rcases g p hp q hq with g | g
    · exact absurd hpq g
    · exact g
theorem cNs_sound (V : Nat → ValueS) (x : Ext) (outer : List Table) : ∀ (ns : List NodeT) (T : Table),
    (cNs V x outer T ns).tbl = (replNs V outer T ns).tbl ∧
    (cNs V x outer T ns).new = (replNs V outer T ns).new ∧
    ((cNs V x outer T ns).ok = true → (replNs V outer T ns).ok ∧ extNs V x outer T ns)
  | [], T => by simp [cNs, replNs, extNs]
  | n :: ns, T => by
    obtain ⟨a1, a2, a3⟩ := cN_sound V x outer n T
    obtain ⟨b1, b2, b3⟩ := cNs_sound V x outer ns (replN V outer T n).tbl
    simp only [cNs, replNs, extNs, a1, a2, b1, b2, true_and]
    simp only [Bool.and_eq_true]
    rintro ⟨p, q⟩
    exact ⟨⟨(a3 p).1, (b3 q).1⟩, (a3 p).2, (b3 q).2⟩
theorem cN_sound (V : Nat → ValueS) (x : Ext) (outer : List Table) : ∀ (n : NodeT) (T : Table),
    (cN V x outer T n).tbl = (replN V outer T n).tbl ∧
    (cN V x outer T n).new = (replN V outer T n).new ∧
    ((cN V x outer T n).ok = true → (replN V outer T n).ok ∧ extN V x outer T n)
  | .mk _ _ ins outs subs, T => by
    obtain ⟨r1, r2, r3⟩ := cRes_sound V outer ins T
    obtain ⟨s2, s3⟩ := cGs_sound V x subs ((replRes V outer T ins).tbl :: outer)
    simp only [cN, replN, extN, cnm_eq, r1, r2, s2, true_and]
    simp only [Bool.and_eq_true, List.all_eq_true, Bool.or_eq_true, Bool.not_eq_true', beq_iff_eq,
      Option.isSome_iff_ne_none, Option.isNone_iff_eq_none, ne_eq]
    rintro ⟨⟨⟨⟨a, b⟩, c⟩, d⟩, e⟩
    refine ⟨⟨r3 a, b, fun v hv ht => ?_, (s3 d).1⟩, fun v hv hf => ?_, (s3 d).2⟩
    · rcases c v hv with c | c
      · rw [ht] at c; exact absurd c (by decide)
      · exact c
    · rcases e v hv with e | e
      · rw [hf] at e; exact absurd e (by decide)
      · exact e
theorem cGs_sound (V : Nat → ValueS) (x : Ext) : ∀ (gs : List GraphT) (scopes : List Table),
    (cGs V x scopes gs).new = (replGs V scopes gs).new ∧
    ((cGs V x scopes gs).ok = true → (replGs V scopes gs).ok ∧ extGs V x scopes gs)
  | [], scopes => by simp [cGs, replGs, extGs]
  | g :: gs, scopes => by
    obtain ⟨a2, a3⟩ := cG_sound V x g scopes
    obtain ⟨b2, b3⟩ := cGs_sound V x gs scopes
    simp only [cGs, replGs, extGs, a2, b2, true_and]
    simp only [Bool.and_eq_true]
    rintro ⟨p, q⟩
    exact ⟨⟨(a3 p).1, (b3 q).1⟩, (a3 p).2, (b3 q).2⟩
end

/-! ### the representation invariant and the decision procedure -/

theorem extWFB_sound (n : Nat) (x : Ext) (h : extWFB n x = true)
    (hf : ∀ v, n ≤ v → x.vmeta v = [] ∧ x.quant v = none) : ExtWF x := by
  intro v
  by_cases hv : v < n
  · simp only [extWFB, List.all_eq_true, List.mem_range, Bool.and_eq_true, ssKeysNodupB, nodupNamesB_iff] at h
    obtain ⟨h1, h2⟩ := h v hv
    refine ⟨h1, fun ps hps => ?_⟩
    rw [hps] at h2
    simp only [Bool.and_eq_true, nodupNamesB_iff, Bool.not_eq_true', List.isEmpty_eq_false_iff] at h2
    exact h2
  · obtain ⟨h1, h2⟩ := hf v (Nat.le_of_not_lt hv)
    rw [h1, h2]
    exact ⟨by simp, fun _ h => by simp at h⟩

theorem reloadableEB_sound (w : WorldE) (h : reloadableEB w = true) (hf : ExtFresh w.st w.ext) : ReloadableE w := by
  simp only [reloadableEB, Bool.and_eq_true, nodupB_iff] at h
  obtain ⟨⟨h1, h2⟩, h3⟩ := h
  obtain ⟨e, s⟩ := cG_sound w.st.vals w.ext w.root []
  rw [e] at h2
  exact ⟨⟨(s h1).1, h2⟩, (s h1).2, extWFB_sound w.st.nv w.ext h3 hf⟩

/-! ### two evaluations -/

/-- two inputs named `a` that carry the same annotation: accepted -/
example : reloadableEB
    ⟨{ vals := fun _ => { name := some "a" }, nv := 2 }, { quant := fun v => if v < 2 then some [("s", "1")] else none },
      .mk 0 [0, 1] [] [] []⟩ = true := by decide +kernel

/-- two inputs named `a` with different annotations (`serialize_graph` writes one annotation per name, the
    deserializer attaches it to the value the name resolves to): rejected -/
example : reloadableEB
    ⟨{ vals := fun _ => { name := some "a" }, nv := 2 }, { quant := fun v => if v = 0 then some [("s", "1")] else none },
      .mk 0 [0, 1] [] [] []⟩ = false := by decide +kernel

end IrVerif.Scope

import IrVerif.Lemmas.ScopeSerdeBridge
/-!
The C02 bridge, second part: every IR graph C02 deserializes from a proto of the fragment `sharedS`
(`shared` + no value-level metadata_props + initializer tensors in canonical form) satisfies `GOK`, so the
serialization bridge holds on the fragment without a hypothesis on the IR.
-/
namespace IrVerif.Bridge
open IrVerif.Proto IrVerif.Serde

/-! ## types and shapes survive `serialize_value_into` -/

/-- the type / shape pair of a value is read back as written (the shape only inside a type) -/
def RT (ty : Option IRType) (sh : Option IRShape) : Prop :=
  tyOf (serTypeAndShape ty sh) = ty ∧ shOf (serTypeAndShape ty sh) = (if ty.isSome then sh else none)

theorem desShape_serShape' (S : IRShape) : desShape (serShape S) = S := by
  simp only [desShape, serShape, List.map_map]
  conv => rhs; rw [← List.map_id S]
  apply List.map_congr_left
  intro d _
  obtain ⟨v, den⟩ := d
  cases v with
  | int i => rfl
  | sym s => cases s <;> rfl

theorem RT_none : RT none none := ⟨rfl, rfl⟩

theorem RT_info (tp : TypeP) (h : wfType tp = true) : RT (tyOf tp) (shOf tp) := by
  obtain ⟨ty, sh, h1, h2, h3⟩ := type_roundtrip tp h
  have e1 : tyOf tp = ty := by simp [tyOf, h1]
  have e2 : shOf tp = sh := by simp [shOf, h2]
  obtain ⟨ty', sh', g3, g4, _⟩ := applyInfo_ok (IRValue.blank "") ⟨"", tp, "", []⟩ h
  simp only at g3 g4
  refine ⟨by rw [e1, e2, h3, e1], ?_⟩
  rw [e1, e2, h3, e2]
  cases hty : ty with
  | some t => simp
  | none =>
    -- an unset type has no shape
    simp only [Option.isSome_none, Bool.false_eq_true, if_false]
    subst hty
    cases tp with
    | unset den => simp [desTypeForShape] at h2; exact h2.symm
    | tensor e s den =>
      cases e with
      | none => simp [wfType, wfTypeSet] at h
      | some e => simp [wfType, wfTypeSet] at h; simp [desTypeForType, h] at h1
    | sparse e s den =>
      cases e with
      | none => simp [wfType, wfTypeSet] at h
      | some e => simp [wfType, wfTypeSet] at h; simp [desTypeForType, h] at h1
    | sequence e den =>
      obtain ⟨a, b, c1, _, _⟩ := type_roundtrip_set (.sequence e den) (by simpa [wfType] using h)
      rw [c1] at h1; cases h1
    | optional e den =>
      obtain ⟨a, b, c1, _, _⟩ := type_roundtrip_set (.optional e den) (by simpa [wfType] using h)
      rw [c1] at h1; cases h1
    | map den => simp [wfType, wfTypeSet] at h

theorem RT_init (dt : Int) (hv : validDType dt = true) (S : IRShape) :
    RT (some (.tensor dt "")) (some S) := by
  constructor
  · simp [serTypeAndShape, serType, serShapeInto, tyOf, desTypeForType, hv]
  · simp [serTypeAndShape, serType, serShapeInto, shOf, desTypeForShape, desShape_serShape']

theorem tyOf_fill (D : ShapeP) : ∀ t : TypeP, wfTypeSet t = true → tyOf (fillLeafShape D t) = tyOf t
  | .unset _, h => by simp [wfTypeSet] at h
  | .map _, h => by simp [wfTypeSet] at h
  | .tensor e sh den, _ => by cases sh <;> cases e <;> simp [fillLeafShape, tyOf, desTypeForType]
  | .sparse e sh den, _ => by cases sh <;> cases e <;> simp [fillLeafShape, tyOf, desTypeForType]
  | .sequence e den, h => by
    have he : wfTypeSet e = true := by simpa [wfTypeSet] using h
    have ih := tyOf_fill D e he
    obtain ⟨ty, sh, c1, _, _⟩ := type_roundtrip_set e he
    have h0 : tyOf e = some ty := by simp [tyOf, c1]
    rw [h0] at ih
    have c2 : desTypeForType (fillLeafShape D e) = .ok (some ty) := by
      cases h1 : desTypeForType (fillLeafShape D e) with
      | error x => simp [tyOf, h1] at ih
      | ok x => simp [tyOf, h1] at ih; rw [ih]
    simp [fillLeafShape, tyOf, desTypeForType, bind, Except.bind, c1, c2]
  | .optional e den, h => by
    have he : wfTypeSet e = true := by simpa [wfTypeSet] using h
    have ih := tyOf_fill D e he
    obtain ⟨ty, sh, c1, _, _⟩ := type_roundtrip_set e he
    have h0 : tyOf e = some ty := by simp [tyOf, c1]
    rw [h0] at ih
    have c2 : desTypeForType (fillLeafShape D e) = .ok (some ty) := by
      cases h1 : desTypeForType (fillLeafShape D e) with
      | error x => simp [tyOf, h1] at ih
      | ok x => simp [tyOf, h1] at ih; rw [ih]
    simp [fillLeafShape, tyOf, desTypeForType, bind, Except.bind, c1, c2]

theorem shOf_fill (D : ShapeP) : ∀ t : TypeP, wfTypeSet t = true →
    shOf (fillLeafShape D t) = (shOf t <|> some (desShape D))
  | .unset _, h => by simp [wfTypeSet] at h
  | .map _, h => by simp [wfTypeSet] at h
  | .tensor e sh den, _ => by cases sh <;> simp [fillLeafShape, shOf, desTypeForShape]
  | .sparse e sh den, _ => by cases sh <;> simp [fillLeafShape, shOf, desTypeForShape]
  | .sequence e den, h => by
    have ih := shOf_fill D e (by simpa [wfTypeSet] using h)
    simpa [fillLeafShape, shOf, desTypeForShape] using ih
  | .optional e den, h => by
    have ih := shOf_fill D e (by simpa [wfTypeSet] using h)
    simpa [fillLeafShape, shOf, desTypeForShape] using ih

/-- the value of an initializer with a value_info entry: type / shape of the entry, completed from the tensor -/
theorem RT_fill (tp : TypeP) (h : wfType tp = true) (dt : Int) (hv : validDType dt = true) (S : IRShape) :
    RT (tyOf tp <|> some (.tensor dt "")) (shOf tp <|> some S) := by
  cases tp with
  | unset den =>
    have : tyOf (.unset den) = none ∧ shOf (.unset den) = none := ⟨rfl, rfl⟩
    rw [this.1, this.2]
    simpa using RT_init dt hv S
  | map den => simp [wfType, wfTypeSet] at h
  | tensor e s den =>
    have hs : wfTypeSet (.tensor e s den) = true := by simpa [wfType] using h
    obtain ⟨ty, h1, h2⟩ := serType_fill_set _ hs S
    rw [h1]
    have hor : (some ty <|> some (IRType.tensor dt "")) = some ty := rfl
    rw [hor]
    constructor
    · show tyOf (serTypeAndShape (some ty) _) = some ty
      rw [h2, tyOf_fill _ _ hs, h1]
    · show shOf (serTypeAndShape (some ty) _) = _
      rw [h2, shOf_fill _ _ hs, desShape_serShape']
      simp
  | sparse e s den =>
    have hs : wfTypeSet (.sparse e s den) = true := by simpa [wfType] using h
    obtain ⟨ty, h1, h2⟩ := serType_fill_set _ hs S
    rw [h1]
    have hor : (some ty <|> some (IRType.tensor dt "")) = some ty := rfl
    rw [hor]
    constructor
    · show tyOf (serTypeAndShape (some ty) _) = some ty
      rw [h2, tyOf_fill _ _ hs, h1]
    · show shOf (serTypeAndShape (some ty) _) = _
      rw [h2, shOf_fill _ _ hs, desShape_serShape']
      simp
  | sequence e den =>
    have hs : wfTypeSet (.sequence e den) = true := by simpa [wfType] using h
    obtain ⟨ty, h1, h2⟩ := serType_fill_set _ hs S
    rw [h1]
    have hor : (some ty <|> some (IRType.tensor dt "")) = some ty := rfl
    rw [hor]
    constructor
    · show tyOf (serTypeAndShape (some ty) _) = some ty
      rw [h2, tyOf_fill _ _ hs, h1]
    · show shOf (serTypeAndShape (some ty) _) = _
      rw [h2, shOf_fill _ _ hs, desShape_serShape']
      simp
  | optional e den =>
    have hs : wfTypeSet (.optional e den) = true := by simpa [wfType] using h
    obtain ⟨ty, h1, h2⟩ := serType_fill_set _ hs S
    rw [h1]
    have hor : (some ty <|> some (IRType.tensor dt "")) = some ty := rfl
    rw [hor]
    constructor
    · show tyOf (serTypeAndShape (some ty) _) = some ty
      rw [h2, tyOf_fill _ _ hs, h1]
    · show shOf (serTypeAndShape (some ty) _) = _
      rw [h2, shOf_fill _ _ hs, desShape_serShape']
      simp

/-! ## every value of a deserialized graph of the fragment is `valOK` / `tensOK` -/

structure OKv (v : IRValue) : Prop where
  mp : v.mprops = []
  rt : RT v.type v.shape
  tens : tensOK v = true

theorem valOK_of_RT {v : IRValue} (hm : v.mprops = []) (hr : RT v.type v.shape) : valOK v = true := by
  simp only [valOK, hm, List.isEmpty_nil, Bool.true_and, decide_eq_true_eq]
  simp only [absInfo, absInfoV, Scope.Info.emit, serValue, serValueAs, tyOfB_eq, shOfB_eq, hr.1, hr.2,
    Option.isSome_map]
  cases v.type <;> simp

theorem OKv.val {v : IRValue} (h : OKv v) : (valOK v && tensOK v) = true := by
  simp [valOK_of_RT h.mp h.rt, h.tens]

theorem tensOK_congr {v v' : IRValue} (h1 : v'.const = v.const) (h2 : v'.name = v.name) :
    tensOK v' = tensOK v := by
  simp only [tensOK, h1, h2]

theorem tensOK_none {v : IRValue} (h : v.const = none) : tensOK v = true := by
  simp [tensOK, h]

theorem OKv_blank (n : String) : OKv (IRValue.blank n) := ⟨rfl, RT_none, rfl⟩

theorem OKv_applyInfoT {v : IRValue} {vi : ValueInfoP} (hm : v.mprops = []) (ht : tensOK v = true)
    (hw : wfType vi.type = true) (hmeta : vi.metadata = []) : OKv (applyInfoT v vi) :=
  ⟨by simp [applyInfoT, hm, hmeta, dictOfEntries, dictUpdate], RT_info vi.type hw,
    (tensOK_congr (v := v) (v' := applyInfoT v vi) rfl rfl).trans ht⟩

@[simp] theorem applyQuant_mprops (q : List AnnotP) (v : IRValue) : (applyQuant q v).mprops = v.mprops := by
  unfold applyQuant; split <;> rfl

theorem OKv_applyQuant {q : List AnnotP} {v : IRValue} (h : OKv v) : OKv (applyQuant q v) :=
  ⟨by simp [h.mp], by simpa using h.rt,
    (tensOK_congr (v := v) (v' := applyQuant q v) (by simp) (by simp)).trans h.tens⟩

/-- the tensor of a canonical initializer is written as its tokens say -/
theorem tens_irT (p : TensorP) (hw : wfTensor p = true) (hv : validDType p.dataType = true)
    (hc : normTensor p = p) :
    absT (serTensor ((irT p).setName p.name))
      = ⟨p.name, tensTok (irT p), tyTok (.tensor (dtypeOf (irT p)) ""), dimsTok (irT p).shape⟩ := by
  obtain ⟨_, h2, _, h4⟩ := irT_spec p hw
  obtain ⟨d1, d2⟩ := irT_dtype p hw hv
  rw [h4, h2, hc]
  simp [absT, irTB_eq, dtypeOf, d1, d2]

theorem OKv_setConst {v : IRValue} (h : OKv v) (p : TensorP) (hn : p.name = v.name)
    (hw : wfTensor p = true) (hv : validDType p.dataType = true) (hc : normTensor p = p) :
    OKv (setConst (irT p) v) :=
  ⟨h.mp, h.rt, by
    simp only [tensOK, setConst]
    exact decide_eq_true (by rw [← hn]; exact tens_irT p hw hv hc)⟩

theorem OKv_constFrom {inits : List TensorP} {v : IRValue} (h : OKv v)
    (hT : ∀ p ∈ inits, wfTensor p = true ∧ validDType p.dataType = true ∧ normTensor p = p) :
    OKv (constFrom inits v) := by
  unfold constFrom
  cases hf : inits.find? (fun p => p.name = v.name) with
  | none => exact h
  | some p =>
    have hp := List.mem_of_find?_eq_some hf
    have hn : p.name = v.name := by simpa using List.find?_some hf
    obtain ⟨a, b, c⟩ := hT p hp
    exact OKv_setConst h p hn a b c

theorem OKv_initValT {vis : List ValueInfoP} {q : List AnnotP} {p : TensorP}
    (hvis : ∀ vi ∈ vis, wfType vi.type = true ∧ vi.metadata = [])
    (hw : wfTensor p = true) (hv : validDType p.dataType = true) (hc : normTensor p = p) :
    OKv (initValT vis q p) := by
  have ht : ∀ w : IRValue, w.const = some (irT p) →
      tensOK ({ applyQuant q w with name := p.name } : IRValue) = true := by
    intro w hw'
    simp only [tensOK, applyQuant_const, hw', decide_eq_true_eq]
    exact tens_irT p hw hv hc
  unfold initValT
  cases hf : findVI vis p.name with
  | none =>
    refine ⟨by simp [initV0, IRValue.blank], ?_, ht _ rfl⟩
    simpa [initV0, IRValue.blank] using RT_init p.dataType hv _
  | some vi =>
    obtain ⟨a, b⟩ := hvis vi (findVI_mem hf).1
    refine ⟨by simp [fillFrom, applyInfoT, initV0, IRValue.blank, b, dictOfEntries, dictUpdate], ?_, ht _ rfl⟩
    simpa [fillFrom, applyInfoT, initV0, IRValue.blank] using RT_fill vi.type a p.dataType hv _

theorem OKv_newValueT {vis : List ValueInfoP} {q : List AnnotP} (n : String)
    (hvis : ∀ vi ∈ vis, wfType vi.type = true ∧ vi.metadata = []) : OKv (newValueT vis q n) := by
  unfold newValueT
  apply OKv_applyQuant
  cases hf : findVI vis n with
  | none => exact OKv_blank n
  | some vi =>
    obtain ⟨a, b⟩ := hvis vi (findVI_mem hf).1
    exact OKv_applyInfoT rfl rfl a b

theorem OKv_outUpd {outputs : List ValueInfoP} {v : IRValue} (h : OKv v)
    (hout : ∀ vi ∈ outputs, wfType vi.type = true ∧ vi.metadata = []) : OKv (outUpd outputs v) := by
  unfold outUpd
  cases hf : outputs.find? (fun vi => vi.name = v.name) with
  | none => exact h
  | some vo =>
    obtain ⟨a, b⟩ := hout vo (List.mem_of_find?_eq_some hf)
    exact OKv_applyInfoT h.mp h.tens a b

/-! ## indices of a deserialized graph are inside its table -/

theorem refOK_resolve (names : List String) (n : Nat) (hn : names.length = n) (s : String) :
    refOK n (if s = "" then none else Serde.resolve [names] s) = true := by
  by_cases he : s = ""
  · simp [he, refOK]
  · simp only [he, if_false, serde_resolve_one]
    cases hl : lookupLast names s with
    | none => rfl
    | some i =>
      have := lookupLast_lt hl
      simp [refOK, ← hn, this]

theorem outOK_lookup (names : List String) (n : Nat) (hn : names.length = n) (s : String) :
    outOK n (if s = "" then none else lookupLast names s) = true := by
  by_cases he : s = ""
  · simp [he, outOK]
  · simp only [he, if_false]
    cases hl : lookupLast names s with
    | none => rfl
    | some i =>
      have := lookupLast_lt hl
      simp [outOK, ← hn, this]

theorem desNodes_shape (vis : List ValueInfoP) (q : List AnnotP) (T : List IRValue) :
    ∀ (ns : List NodeP) (xs : List IRNode) (T' : List IRValue),
    wfNodes [tableNames T] ns = true → desNodes [] vis q ns T = .ok (xs, T') →
    T' = T ∧ xs.all (fun x => x.inputs.all (refOK T.length) && x.outputs.all (outOK T.length)) = true
  | [], xs, T', _, h => by
    simp only [desNodes, Except.ok.injEq, Prod.mk.injEq] at h
    obtain ⟨rfl, rfl⟩ := h
    exact ⟨rfl, rfl⟩
  | n :: ns, xs, T', hw, h => by
    simp only [wfNodes, Bool.and_eq_true] at hw
    simp only [desNodes, bind, Except.bind] at h
    split at h
    · cases h
    · rename_i r1 h1
      obtain ⟨x, T1⟩ := r1
      obtain ⟨eT, e2, e3⟩ := desNode_shape vis q T n x T1 hw.1 h1
      subst eT
      simp only at h
      split at h
      · cases h
      · rename_i r2 h2
        obtain ⟨xs2, T2⟩ := r2
        simp only [Except.ok.injEq, Prod.mk.injEq] at h
        obtain ⟨rfl, rfl⟩ := h
        obtain ⟨eT2, hall⟩ := desNodes_shape vis q T1 ns xs2 T2 hw.2 h2
        refine ⟨eT2, ?_⟩
        simp only [List.all_cons, Bool.and_eq_true, hall, and_true]
        have hlen : (tableNames T1).length = T1.length := by simp [tableNames]
        constructor
        · rw [e2, List.all_map]
          exact List.all_eq_true.2 fun s _ => refOK_resolve _ _ hlen s
        · rw [e3, List.all_map]
          exact List.all_eq_true.2 fun s _ => outOK_lookup _ _ hlen s

/-! ## `GOK` of every graph deserialized from the fragment -/

theorem gok_of_sharedS (name doc : String) (nodes : List NodeP) (inits : List TensorP)
    (inputs outputs vis : List ValueInfoP) (quant : List AnnotP) (metadata : List Entry)
    (hwf : wfGraph [] (.mk name doc nodes inits inputs outputs vis quant metadata) = true)
    (hmeta : noValueMeta (.mk name doc nodes inits inputs outputs vis quant metadata) = true)
    (hcanon : canonTensors (.mk name doc nodes inits inputs outputs vis quant metadata) = true)
    (g : IRGraph) (hg : desGraph [] (.mk name doc nodes inits inputs outputs vis quant metadata) = .ok g) :
    GOK g = true := by
  obtain ⟨hw, hwn⟩ := graphWF_of_wf [] name doc nodes inits inputs outputs vis quant metadata hwf
  have hNpre := tableNames_tblPre (inits := inits) (inputs := inputs) (vis := vis) (quant := quant)
    (outs := nodeOutNames nodes)
  have hnd := hw.nodupNames
  simp only [scopeNames] at hnd
  rw [List.nodup_append] at hnd
  obtain ⟨hndAB, hndC, hdisC⟩ := hnd
  rw [List.nodup_append] at hndAB
  obtain ⟨hndA, _hndB, _hdisB⟩ := hndAB
  have hA := desGraphInputs_eq quant inputs hw.wfIn
  have hwfT : inits.all wfTensor = true := by
    rw [List.all_eq_true]
    intro p hp
    have := List.all_eq_true.1 hw.wfInit p hp
    simp only [Bool.and_eq_true] at this
    exact this.1
  have hT := desTensors_eq inits hwfT
  have hne : ∀ p ∈ inits, p.name ≠ "" := by
    intro p hp
    apply hw.nonempty
    by_cases hin : p.name ∈ inputs.map (·.name)
    · exact mem_scopeNames.2 (Or.inl hin)
    · exact mem_scopeNames.2 (Or.inr (Or.inl ⟨List.mem_map_of_mem hp, hin⟩))
  obtain ⟨idxs, hB, hidx⟩ := desInitializers_spec vis quant hw.wfVis inits (inputs.map (inputValT quant))
    hw.wfInit hne hw.nodupInit (by rw [tableNames_inputVals]; exact hndA)
  rw [tableNames_inputVals] at hB hidx
  have hNB : tableNames ((inputs.map (inputValT quant)).map (constFrom inits)
      ++ (newInits (inputs.map (·.name)) inits).map (initValT vis quant))
      = inputs.map (·.name) ++ (inits.map (·.name)).filter (fun n => !(inputs.map (·.name)).contains n) := by
    simp only [tableNames, List.map_append, List.map_map]
    congr 1
    · apply List.map_congr_left; intro vi _; simp
    · rw [← newInits_names]
      apply List.map_congr_left; intro p _; simp
  have hC := declareAll_spec vis quant hw.wfVis nodes
    ((inputs.map (inputValT quant)).map (constFrom inits)
      ++ (newInits (inputs.map (·.name)) inits).map (initValT vis quant))
    (by intro n hn hm; rw [hNB] at hm; exact hdisC n hm n hn rfl) hndC
  have hpre : (inputs.map (inputValT quant)).map (constFrom inits)
      ++ (newInits (inputs.map (·.name)) inits).map (initValT vis quant)
      ++ (nodeOutNames nodes).map (newValueT vis quant)
      = tblPre inits inputs vis quant (nodeOutNames nodes) := rfl
  rw [hpre] at hC
  obtain ⟨xs, hD1, _, _⟩ := nodes_rt [] vis quant none nodes (tblPre inits inputs vis quant (nodeOutNames nodes))
    (by rw [hNpre]; exact hwn) (Or.inl rfl)
  have hE := desGraphOutputs_spec outputs (tblPre inits inputs vis quant (nodeOutNames nodes))
    hw.wfOut hw.consOut (by rw [hNpre]; exact hw.nodupNames)
  have hEf : (tblPre inits inputs vis quant (nodeOutNames nodes)).map (outUpd outputs)
      = tblFinal inits inputs outputs vis quant (nodeOutNames nodes) := rfl
  rw [hEf] at hE
  have hidx' : idxs.map some = inits.map (fun p => lookupLast
      (scopeNames (inputs.map (·.name)) (inits.map (·.name)) (nodeOutNames nodes)) p.name) := by
    rw [hidx, hNB]
    apply List.map_congr_left
    intro p hp
    simp only [scopeNames]
    symm
    apply lookupLast_append_left
    intro hm
    have hpAB : p.name ∈ inputs.map (·.name)
        ++ (inits.map (·.name)).filter (fun n => !(inputs.map (·.name)).contains n) := by
      by_cases hin : p.name ∈ inputs.map (·.name)
      · exact List.mem_append_left _ hin
      · refine List.mem_append_right _ (List.mem_filter.2 ⟨List.mem_map_of_mem hp, by simpa using hin⟩)
    exact hdisC _ hpAB _ hm rfl
  have hlenF : (tblFinal inits inputs outputs vis quant (nodeOutNames nodes)).length
      = (tblPre inits inputs vis quant (nodeOutNames nodes)).length := by simp [tblFinal]
  have hlenN : (scopeNames (inputs.map (·.name)) (inits.map (·.name)) (nodeOutNames nodes)).length
      = (tblFinal inits inputs outputs vis quant (nodeOutNames nodes)).length := by
    rw [← tableNames_tblFinal (inits := inits) (inputs := inputs) (outputs := outputs) (vis := vis)
      (quant := quant)]
    simp [tableNames]
  have hidxlt : ∀ i ∈ dedupNat idxs, i < (tblFinal inits inputs outputs vis quant (nodeOutNames nodes)).length := by
    intro i hi
    have hi' : i ∈ idxs := by
      clear hB hidx hidx'
      induction idxs with
      | nil => simp [dedupNat] at hi
      | cons a r ih =>
        simp only [dedupNat, List.mem_cons, List.mem_filter] at hi
        rcases hi with h1 | h1
        · simp [h1]
        · exact List.mem_cons_of_mem _ (ih h1.1)
    have : some i ∈ idxs.map some := List.mem_map_of_mem hi'
    rw [hidx'] at this
    obtain ⟨p, _, hp⟩ := List.mem_map.1 this
    have := lookupLast_lt hp
    rw [hlenN] at this
    exact this
  -- the deserialized graph
  have hgd : g = IRGraph.mk (tblFinal inits inputs outputs vis quant (nodeOutNames nodes))
      (List.range inputs.length) (dedupNat idxs) xs
      (outputs.map (gOutT (tableNames (tblPre inits inputs vis quant (nodeOutNames nodes)))))
      name doc [] (dictOfEntries metadata) := by
    simp only [desGraph, hA, hT, hB, hC, hD1, hE, bind, Except.bind, Except.ok.injEq] at hg
    exact hg.symm
  subst hgd
  -- the side conditions
  simp only [noValueMeta, GraphP.inputs, GraphP.outputs, GraphP.valueInfo, Bool.and_eq_true] at hmeta
  obtain ⟨⟨hm1, hm2⟩, hm3⟩ := hmeta
  have hIn : ∀ vi ∈ inputs, wfType vi.type = true ∧ vi.metadata = [] := by
    intro vi hvi
    have a := List.all_eq_true.1 hw.wfIn vi hvi
    have b := List.all_eq_true.1 hm1 vi hvi
    simp only [wfVI, Bool.and_eq_true] at a
    exact ⟨a.1, by simpa using b⟩
  have hOut : ∀ vi ∈ outputs, wfType vi.type = true ∧ vi.metadata = [] := by
    intro vi hvi
    have a := List.all_eq_true.1 hw.wfOut vi hvi
    have b := List.all_eq_true.1 hm2 vi hvi
    simp only [wfVI, Bool.and_eq_true] at a
    exact ⟨a.1, by simpa using b⟩
  have hVis : ∀ vi ∈ vis, wfType vi.type = true ∧ vi.metadata = [] := by
    intro vi hvi
    have a := List.all_eq_true.1 hw.wfVis vi hvi
    have b := List.all_eq_true.1 hm3 vi hvi
    simp only [wfVI, Bool.and_eq_true] at a
    exact ⟨a.1, by simpa using b⟩
  have hTs : ∀ p ∈ inits, wfTensor p = true ∧ validDType p.dataType = true ∧ normTensor p = p := by
    intro p hp
    have a := List.all_eq_true.1 hw.wfInit p hp
    have b := List.all_eq_true.1 hcanon p hp
    simp only [Bool.and_eq_true] at a
    exact ⟨a.1, a.2, by simpa using b⟩
  -- every table value is fine
  have hpreOK : ∀ v ∈ tblPre inits inputs vis quant (nodeOutNames nodes), OKv v := by
    intro v hv
    simp only [tblPre, List.mem_append, List.mem_map] at hv
    rcases hv with (⟨w, ⟨vi, hvi, rfl⟩, rfl⟩ | ⟨p, hp, rfl⟩) | ⟨n, _, rfl⟩
    · apply OKv_constFrom _ hTs
      unfold inputValT
      apply OKv_applyQuant
      obtain ⟨a, b⟩ := hIn vi hvi
      exact OKv_applyInfoT rfl rfl a b
    · have hp' : p ∈ inits := (List.mem_filter.1 hp).1
      obtain ⟨a, b, c⟩ := hTs p hp'
      exact OKv_initValT hVis a b c
    · exact OKv_newValueT n hVis
  have htblOK : ∀ v ∈ tblFinal inits inputs outputs vis quant (nodeOutNames nodes), (valOK v && tensOK v) = true := by
    intro v hv
    simp only [tblFinal, List.mem_map] at hv
    obtain ⟨x, hx, rfl⟩ := hv
    exact (OKv_outUpd (hpreOK x hx) hOut).val
  simp only [GOK, IRGraph.table, IRGraph.inputs, IRGraph.initializers, IRGraph.nodes, IRGraph.outputs,
    Bool.and_eq_true]
  refine ⟨⟨⟨⟨List.all_eq_true.2 htblOK, ?_⟩, ?_⟩, ?_⟩, ?_⟩
  · rw [List.all_eq_true]
    intro i hi
    have : i < inputs.length := List.mem_range.1 hi
    have h2 : inputs.length ≤ (tblFinal inits inputs outputs vis quant (nodeOutNames nodes)).length := by
      simp [tblFinal, tblPre]
    exact decide_eq_true (by omega)
  · rw [List.all_eq_true]
    intro i hi
    exact decide_eq_true (hidxlt i hi)
  · obtain ⟨_, hall⟩ := desNodes_shape vis quant (tblPre inits inputs vis quant (nodeOutNames nodes)) nodes xs _
      (by rw [hNpre]; exact hwn) hD1
    rw [hlenF]
    exact hall
  · rw [List.all_map, List.all_eq_true]
    intro vo hvo
    simp only [Function.comp, gOutT]
    cases hl : lookupLast (tableNames (tblPre inits inputs vis quant (nodeOutNames nodes))) vo.name with
    | some i =>
      have := lookupLast_lt hl
      rw [hNpre, hlenN] at this
      simp [goutOK, this]
    | none =>
      obtain ⟨a, b⟩ := hOut vo hvo
      have := OKv_applyInfoT (v := IRValue.blank vo.name) rfl rfl a b
      simp only [goutOK]
      exact valOK_of_RT this.mp this.rt

/-- a graph of the fragment: one input, one initializer, one node with an anonymous second output, an output -/
def exampleGraph : GraphP :=
  .mk "g" "" [.mk ["x", "w", ""] ["y", ""] "n" "Add" "" "" "" [.int "axis" "" 1] [] []]
    [{ emptyTensorP with name := "w", dataType := 1, dims := [2] }]
    [⟨"x", .tensor (some 1) (some [⟨.value 2, ""⟩]) "", "", []⟩]
    [⟨"y", .tensor (some 1) none "", "doc", []⟩] [] [] []

example : sharedS exampleGraph = true := by decide
example : shared exampleGraph = true := by decide

end IrVerif.Bridge

namespace IrVerif.Scope
open IrVerif.Proto

/-- on the fragment `sharedS` every graph C02 deserializes satisfies the hypothesis `GOK` of
    `C03_bridge_serialize_partial` -/
theorem C03_bridge_gok (p : Proto.GraphP) (h : Bridge.sharedS p = true) (g : Serde.IRGraph)
    (hg : Serde.desGraph [] p = .ok g) : Bridge.GOK g = true := by
  simp only [Bridge.sharedS, Bridge.shared, Bool.and_eq_true] at h
  cases p with
  | mk name doc nodes inits inputs outputs vis quant metadata =>
    exact Bridge.gok_of_sharedS name doc nodes inits inputs outputs vis quant metadata h.1.1.1 h.1.2 h.2 g hg

/-- **C02 bridge, both directions** (graphs without nested graphs): for every proto `p` of the decidable fragment
    `sharedS` (C02's `wfGraph`, no GRAPH / GRAPHS attributes, no value-level metadata_props, initializer tensors in
    canonical form) the Scope model deserializes `absG p` to the abstraction of C02's IR and serializes it to
    `absG` of C02's documented normal form `normGraph p` (`C02_graph`): the two models are one serde there. -/
theorem C03_bridge_serde_partial (p : Proto.GraphP) (h : Bridge.sharedS p = true) :
    ∃ g w w', Serde.desGraph [] p = .ok g ∧ Serde.serGraph [] none g = .ok (Serde.normGraph p) ∧
      deserialize (Bridge.absG p) = .ok w ∧ Bridge.coreOf w = Bridge.absIR g ∧
      serialize w = .ok (w', Bridge.absG (Serde.normGraph p)) := by
  have hs : Bridge.shared p = true := by
    simp only [Bridge.sharedS, Bool.and_eq_true] at h; exact h.1.1
  have hwf : Serde.wfGraph [] p = true := by
    simp only [Bridge.shared, Bool.and_eq_true] at hs; exact hs.1
  obtain ⟨g, w, h1, h2, h3⟩ := C03_bridge_deserialize_partial p hs
  obtain ⟨x, r1, r2⟩ := Serde.graph_rt [] none p hwf (Or.inl rfl)
  rw [h1] at r1
  cases r1
  obtain ⟨w', h4⟩ := C03_bridge_serialize_partial g none _ w (C03_bridge_gok p h g h1) r2 h3
  exact ⟨g, w, w', h1, r2, h2, h3, h4⟩

end IrVerif.Scope

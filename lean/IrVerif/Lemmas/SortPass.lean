/-
C12 — `TopologicalSortPass.call` on the full world (`passF`) against the container-level pass (`passW`):
what the naming half of `Graph.extend` does to the containers WITHOUT any hypothesis (nothing, unless it gets to the
container write), hence what `writeAll` (the restore loop of the pass, where no checking phase has passed) leaves
behind: a prefix of the requested writes, all of them unless something raised.
-/
import IrVerif.Lemmas.SortFull
import IrVerif.Lemmas.SortState

namespace IrVerif.Sort

theorem regVals_sw (k : Nat) : ∀ (os : List Nat) (r : FR),
    (os.foldl (fun r o => seqF r (fun w => regVal w k o)) r).1.sw = r.1.sw := by
  intro os
  induction os with
  | nil => intro r; rfl
  | cons o os ih =>
    intro r
    simp only [List.foldl_cons]
    rw [ih]
    unfold seqF
    split
    · rfl
    · exact (regVal_mono r.1 k o).2.1

theorem seqF_sw (r : FR) (f : FWorld → FR) : (seqF r f).1.sw = if r.2 then r.1.sw else (f r.1).1.sw := by
  unfold seqF
  split <;> simp_all

theorem nameNode_sw (w : FWorld) (k n : Nat) : (nameNode w k n).1.sw = w.sw := by
  unfold nameNode
  split
  · rfl
  · simp only
    rw [seqF_sw, regVals_sw]
    split
    · exact (regNode_mono w k n).2
    · simp only [sw_setNode]
      rw [regVals_sw]; exact (regNode_mono w k n).2

theorem nameNodes_fold_sw (k : Nat) : ∀ (xs : List Nat) (r : FR),
    (xs.foldl (fun r n => seqF r (fun w => nameNode w k n)) r).1.sw = r.1.sw := by
  intro xs
  induction xs with
  | nil => intro r; rfl
  | cons n xs ih =>
    intro r
    simp only [List.foldl_cons]
    rw [ih]
    unfold seqF
    split
    · rfl
    · exact nameNode_sw r.1 k n

theorem nameNodes_sw (w : FWorld) (k : Nat) (xs : List Nat) : (nameNodes w k xs).1.sw = w.sw := by
  unfold nameNodes
  split
  · rfl
  · exact nameNodes_fold_sw k xs (w, false)

/-- `Graph.extend` in ANY world: the container of `p.1` receives `extend(p.2)` exactly when nothing raised; otherwise
    no container changes -/
theorem extendF_sw (w : FWorld) (p : Nat × List Nat) :
    (extendF w p).1.sw = if (extendF w p).2 then w.sw else applyWrite w.sw p := by
  by_cases h : (nameNodes w p.1 p.2).2 = true
  · have e : extendF w p = nameNodes w p.1 p.2 := by simp [extendF, seqF, h]
    rw [e]; simp [h, nameNodes_sw]
  · have e : extendF w p = ({ (nameNodes w p.1 p.2).1 with sw := applyWrite (nameNodes w p.1 p.2).1.sw p }, false) := by
      simp [extendF, seqF, h]
    rw [e]; simp [nameNodes_sw]

theorem applyWrites_append (w : SWorld) (a b : List (Nat × List Nat)) :
    applyWrites w (a ++ b) = applyWrites (applyWrites w a) b := by
  simp [applyWrites, List.foldl_append]

theorem writeStep_skip : ∀ (qs : List (Nat × List Nat)) (s : WSt), s.late = true → qs.foldl writeStep s = s := by
  intro qs
  induction qs with
  | nil => intro s _; rfl
  | cons q qs ih =>
    intro s hs
    simp only [List.foldl_cons]
    rw [show writeStep s q = s by simp [writeStep, hs]]
    exact ih s hs

/-- a sequence of `Graph.extend` calls in ANY world (the restore loop of the pass): the container writes performed
    are a prefix of the requested ones -- all of them unless a call raised -- and the containers are exactly the
    result of those writes -/
theorem writeStep_fold_gen : ∀ (ws : List (Nat × List Nat)) (s : WSt), s.late = false →
    ∃ tr, (ws.foldl writeStep s).trace = s.trace ++ tr ∧ tr <+: ws ∧
      (ws.foldl writeStep s).world.sw = applyWrites s.world.sw tr ∧
      ((ws.foldl writeStep s).late = false → tr = ws) := by
  intro ws
  induction ws with
  | nil => intro s _; exact ⟨[], by simp, List.prefix_refl _, rfl, fun _ => rfl⟩
  | cons p ps ih =>
    intro s hl
    simp only [List.foldl_cons]
    have hsw := extendF_sw s.world p
    by_cases he : (extendF s.world p).2 = true
    · have hstep : writeStep s p = ⟨(extendF s.world p).1, true, s.trace⟩ := by
        simp [writeStep, hl, he]
      rw [hstep, writeStep_skip ps _ rfl]
      simp only [he, if_true] at hsw
      refine ⟨[], ?_, List.nil_prefix, ?_, ?_⟩
      · simp
      · simpa [applyWrites] using hsw
      · intro h; simp at h
    · have he' : (extendF s.world p).2 = false := by cases h : (extendF s.world p).2 <;> simp_all
      have hstep : writeStep s p = ⟨(extendF s.world p).1, false, s.trace ++ [p]⟩ := by
        simp [writeStep, hl, he']
      rw [hstep]
      obtain ⟨tr, h1, h2, h3, h4⟩ := ih ⟨(extendF s.world p).1, false, s.trace ++ [p]⟩ rfl
      simp only [he', Bool.false_eq_true, if_false] at hsw
      refine ⟨p :: tr, ?_, List.cons_prefix_cons.2 ⟨rfl, h2⟩, ?_, ?_⟩
      · rw [h1]; simp
      · rw [h3]; simp only [applyWrites, List.foldl_cons, hsw]
      · intro h; rw [h4 h]

theorem writeAll_gen (w : FWorld) (ws : List (Nat × List Nat)) :
    (writeAll w ws).trace <+: ws ∧ (writeAll w ws).world.sw = applyWrites w.sw (writeAll w ws).trace ∧
    ((writeAll w ws).late = false → (writeAll w ws).trace = ws) := by
  obtain ⟨tr, h1, h2, h3, h4⟩ := writeStep_fold_gen ws ⟨w, false, []⟩ rfl
  unfold writeAll
  simp only [List.nil_append] at h1
  rw [h1]
  exact ⟨h2, h3, h4⟩

/-- a container that no write addresses is untouched (no distinctness needed) -/
theorem applyWrites_setOf_other (w : SWorld) (ws : List (Nat × List Nat)) (k : Nat) (hk : k ∉ ws.map Prod.fst) :
    (applyWrites w ws).rw.setOf k = w.rw.setOf k := by
  induction ws generalizing w with
  | nil => rfl
  | cons p ps ih =>
    simp only [List.map_cons, List.mem_cons, not_or] at hk
    simp only [applyWrites, List.foldl_cons] at *
    rw [ih (applyWrite w p) hk.2, setOf_applyWrite_other w p k hk.1]

end IrVerif.Sort

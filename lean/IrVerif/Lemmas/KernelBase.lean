/-
Kernel: store lemmas, the well-formedness invariant `WF`, and read-after-write lemmas for the
world accessors.
-/
import IrVerif.Model.Kernel
namespace IrVerif.Kernel

/-! ## Stores -/

theorem lget_nil {α : Type} [Inhabited α] (i : Nat) : lget ([] : List α) i = default := by
  cases i <;> rfl

theorem lget_lset {α : Type} [Inhabited α] (l : List α) (i j : Nat) (x : α) :
    lget (lset l i x) j = if j = i then x else lget l j := by
  induction l generalizing i j with
  | nil =>
    induction i generalizing j with
    | zero => cases j <;> simp [lset, lget]
    | succ i ih =>
      cases j with
      | zero => simp [lset, lget]
      | succ j => simp [lset, lget, ih]
  | cons a as ih =>
    cases i with
    | zero => cases j <;> simp [lset, lget]
    | succ i =>
      cases j with
      | zero => simp [lset, lget]
      | succ j => simp [lset, lget, ih]

theorem lget_of_le {α : Type} [Inhabited α] (l : List α) (i : Nat) (h : l.length ≤ i) :
    lget l i = default := by
  induction l generalizing i with
  | nil => exact lget_nil i
  | cons a as ih =>
    cases i with
    | zero => simp at h
    | succ i => simp [lget]; exact ih i (by simpa using h)

theorem lset_length {α : Type} [Inhabited α] (l : List α) (i : Nat) (x : α) :
    (lset l i x).length = max l.length (i + 1) := by
  induction l generalizing i with
  | nil =>
    induction i with
    | zero => simp [lset]
    | succ i ih => simp [lset, ih]
  | cons a as ih =>
    cases i with
    | zero => simp [lset]
    | succ i => simp [lset, ih]

/-! ## Read-after-write -/

namespace World
@[simp] theorem val_setVal (w : World) (v u : Nat) (x : ValueS) :
    (w.setVal v x).val u = if u = v then x else w.val u := by
  simp [setVal, val, lget_lset]
@[simp] theorem node_setVal (w : World) (v n : Nat) (x : ValueS) : (w.setVal v x).node n = w.node n := rfl
@[simp] theorem gr_setVal (w : World) (v g : Nat) (x : ValueS) : (w.setVal v x).gr g = w.gr g := rfl
@[simp] theorem node_setNode (w : World) (n m : Nat) (x : NodeS) :
    (w.setNode n x).node m = if m = n then x else w.node m := by
  simp [setNode, node, lget_lset]
@[simp] theorem val_setNode (w : World) (n v : Nat) (x : NodeS) : (w.setNode n x).val v = w.val v := rfl
@[simp] theorem gr_setNode (w : World) (n g : Nat) (x : NodeS) : (w.setNode n x).gr g = w.gr g := rfl
@[simp] theorem gr_setGr (w : World) (g h : Nat) (x : GraphS) :
    (w.setGr g x).gr h = if h = g then x else w.gr h := by
  simp [setGr, gr, lget_lset]
@[simp] theorem val_setGr (w : World) (g v : Nat) (x : GraphS) : (w.setGr g x).val v = w.val v := rfl
@[simp] theorem node_setGr (w : World) (g n : Nat) (x : GraphS) : (w.setGr g x).node n = w.node n := rfl

@[simp] theorem vals_setNode (w : World) (n : Nat) (x : NodeS) : (w.setNode n x).vals = w.vals := rfl
@[simp] theorem vals_setGr (w : World) (g : Nat) (x : GraphS) : (w.setGr g x).vals = w.vals := rfl
@[simp] theorem nodes_setVal (w : World) (v : Nat) (x : ValueS) : (w.setVal v x).nodes = w.nodes := rfl
@[simp] theorem nodes_setGr (w : World) (g : Nat) (x : GraphS) : (w.setGr g x).nodes = w.nodes := rfl
@[simp] theorem graphs_setVal (w : World) (v : Nat) (x : ValueS) : (w.setVal v x).graphs = w.graphs := rfl
@[simp] theorem graphs_setNode (w : World) (n : Nat) (x : NodeS) : (w.setNode n x).graphs = w.graphs := rfl
@[simp] theorem vals_length_setVal (w : World) (v : Nat) (x : ValueS) :
    (w.setVal v x).vals.length = max w.vals.length (v + 1) := by simp [setVal, lset_length]
@[simp] theorem nodes_length_setNode (w : World) (n : Nat) (x : NodeS) :
    (w.setNode n x).nodes.length = max w.nodes.length (n + 1) := by simp [setNode, lset_length]
@[simp] theorem graphs_length_setGr (w : World) (g : Nat) (x : GraphS) :
    (w.setGr g x).graphs.length = max w.graphs.length (g + 1) := by simp [setGr, lset_length]

@[simp] theorem val_bump (w : World) (v : Nat) : (bump w).val v = w.val v := rfl
@[simp] theorem node_bump (w : World) (n : Nat) : (bump w).node n = w.node n := rfl
@[simp] theorem gr_bump (w : World) (g : Nat) : (bump w).gr g = w.gr g := rfl
@[simp] theorem vals_bump (w : World) : (bump w).vals = w.vals := rfl
@[simp] theorem nodes_bump (w : World) : (bump w).nodes = w.nodes := rfl
@[simp] theorem graphs_bump (w : World) : (bump w).graphs = w.graphs := rfl
@[simp] theorem late_bump (w : World) : (bump w).late = w.late + 1 := rfl
@[simp] theorem late_setVal (w : World) (v : Nat) (x : ValueS) : (w.setVal v x).late = w.late := rfl
@[simp] theorem late_setNode (w : World) (n : Nat) (x : NodeS) : (w.setNode n x).late = w.late := rfl
@[simp] theorem late_setGr (w : World) (g : Nat) (x : GraphS) : (w.setGr g x).late = w.late := rfl

@[simp] theorem locked_setVal (w : World) (v : Nat) (x : ValueS) : (w.setVal v x).locked = w.locked := rfl
@[simp] theorem locked_setNode (w : World) (n : Nat) (x : NodeS) : (w.setNode n x).locked = w.locked := rfl
@[simp] theorem locked_setGr (w : World) (g : Nat) (x : GraphS) : (w.setGr g x).locked = w.locked := rfl
@[simp] theorem locked_bump (w : World) : (bump w).locked = w.locked := rfl
@[simp] theorem val_noteName (w : World) (g : Nat) (s : Option String) (v : Nat) : (noteName w g s).val v = w.val v := by
  unfold noteName; split <;> rfl
@[simp] theorem node_noteName (w : World) (g : Nat) (s : Option String) (n : Nat) : (noteName w g s).node n = w.node n := by
  unfold noteName; split <;> rfl
@[simp] theorem gr_noteName (w : World) (g : Nat) (s : Option String) (h : Nat) : (noteName w g s).gr h = w.gr h := by
  unfold noteName; split <;> rfl
@[simp] theorem late_noteName (w : World) (g : Nat) (s : Option String) : (noteName w g s).late = w.late := by
  unfold noteName; split <;> rfl
@[simp] theorem locked_noteName (w : World) (g : Nat) (s : Option String) : (noteName w g s).locked = w.locked := by
  unfold noteName; split <;> rfl
@[simp] theorem vals_noteName (w : World) (g : Nat) (s : Option String) : (noteName w g s).vals = w.vals := by
  unfold noteName; split <;> rfl
@[simp] theorem nodes_noteName (w : World) (g : Nat) (s : Option String) : (noteName w g s).nodes = w.nodes := by
  unfold noteName; split <;> rfl
@[simp] theorem graphs_noteName (w : World) (g : Nat) (s : Option String) : (noteName w g s).graphs = w.graphs := by
  unfold noteName; split <;> rfl
@[simp] theorem tensors_noteName (w : World) (g : Nat) (s : Option String) : (noteName w g s).tensors = w.tensors := by
  unfold noteName; split <;> rfl
@[simp] theorem val_noteOwner (w : World) (u : Nat) (s : Option String) (v : Nat) : (noteOwner w u s).val v = w.val v := by
  unfold noteOwner; split <;> simp
@[simp] theorem node_noteOwner (w : World) (u : Nat) (s : Option String) (n : Nat) : (noteOwner w u s).node n = w.node n := by
  unfold noteOwner; split <;> simp
@[simp] theorem gr_noteOwner (w : World) (u : Nat) (s : Option String) (h : Nat) : (noteOwner w u s).gr h = w.gr h := by
  unfold noteOwner; split <;> simp
@[simp] theorem late_noteOwner (w : World) (u : Nat) (s : Option String) : (noteOwner w u s).late = w.late := by
  unfold noteOwner; split <;> simp
@[simp] theorem locked_noteOwner (w : World) (u : Nat) (s : Option String) : (noteOwner w u s).locked = w.locked := by
  unfold noteOwner; split <;> simp
@[simp] theorem vals_noteOwner (w : World) (u : Nat) (s : Option String) : (noteOwner w u s).vals = w.vals := by
  unfold noteOwner; split <;> simp
@[simp] theorem nodes_noteOwner (w : World) (u : Nat) (s : Option String) : (noteOwner w u s).nodes = w.nodes := by
  unfold noteOwner; split <;> simp
@[simp] theorem graphs_noteOwner (w : World) (u : Nat) (s : Option String) : (noteOwner w u s).graphs = w.graphs := by
  unfold noteOwner; split <;> simp
@[simp] theorem tensors_noteOwner (w : World) (u : Nat) (s : Option String) : (noteOwner w u s).tensors = w.tensors := by
  unfold noteOwner; split <;> simp

theorem val_fresh (w : World) (v : Nat) (h : w.vals.length ≤ v) : w.val v = {} := lget_of_le _ _ h
theorem node_fresh (w : World) (n : Nat) (h : w.nodes.length ≤ n) : w.node n = {} := lget_of_le _ _ h
theorem gr_fresh (w : World) (g : Nat) (h : w.graphs.length ≤ g) : w.gr g = {} := lget_of_le _ _ h
end World

/-! ## The invariant (C01) -/

/-- a value lists `(n, i)` as a use exactly when node `n` holds it at input index `i`; no use is
listed twice -/
def I_use (w : World) : Prop :=
  (∀ v n i, (n, i) ∈ (w.val v).uses ↔ (w.node n).inputs[i]? = some (some v)) ∧
  (∀ v, (w.val v).uses.Nodup)

/-- node `n` holds `v` at output position `i` exactly when `v` names `n` / `i` as producer / index;
a value that names a producer has a position -/
def I_prod (w : World) : Prop :=
  (∀ (n i v : Nat), (w.node n).outputs[i]? = some v ↔
      ((w.val v).producer = some n ∧ (w.val v).index = some (i : Int))) ∧
  (∀ v n, (w.val v).producer = some n → ∃ i : Nat, (w.val v).index = some (i : Int))

/-- graph inputs and initializers have no producing node -/
def I_root (w : World) : Prop :=
  ∀ v, ((w.val v).isIn = true ∨ (w.val v).isInit = true) → (w.val v).producer = none

end IrVerif.Kernel

namespace IrVerif.Kernel

/-- ownership: reference counters equal multiplicities; membership in a tracked collection and the
ownership flag / owning graph of the value agree in both directions; a value that names an owning
graph carries at least one flag (so a value is owned by at most one graph) -/
structure I_own (w : World) : Prop where
  cnt : ∀ k g v, lget (ioCnt k (w.gr g)) v = (ioList k (w.gr g)).count v
  io_mem : ∀ k g v, v ∈ ioList k (w.gr g) → ioFlag k (w.val v) = true ∧ (w.val v).graph = some g
  io_flag : ∀ k v, ioFlag k (w.val v) = true → ∃ g, (w.val v).graph = some g ∧ v ∈ ioList k (w.gr g)
  init_mem : ∀ g key v, (key, v) ∈ (w.gr g).inits → (w.val v).isInit = true ∧ (w.val v).graph = some g
  init_flag : ∀ v, (w.val v).isInit = true → ∃ g key, (w.val v).graph = some g ∧ (key, v) ∈ (w.gr g).inits
  graph_owned : ∀ v g, (w.val v).graph = some g → owned (w.val v) = true

/-- every initializer is stored under its current, non-empty name; keys are distinct -/
structure I_key (w : World) : Prop where
  name : ∀ g key v, (key, v) ∈ (w.gr g).inits → (w.val v).name = some key ∧ key ≠ ""
  keys : ∀ g, ((w.gr g).inits.map Prod.fst).Nodup

/-- a node names a graph exactly when that graph's node sequence contains it, once -/
structure I_node (w : World) : Prop where
  mem : ∀ n g, (w.node n).graph = some g ↔ n ∈ (w.gr g).nodes
  nodup : ∀ g, (w.gr g).nodes.Nodup


theorem I_use_bump {w : World} (h : I_use w) : I_use (bump w) := h
theorem I_prod_bump {w : World} (h : I_prod w) : I_prod (bump w) := h
theorem I_root_bump {w : World} (h : I_root w) : I_root (bump w) := h
theorem I_own_bump {w : World} (h : I_own w) : I_own (bump w) :=
  ⟨h.cnt, h.io_mem, h.io_flag, h.init_mem, h.init_flag, h.graph_owned⟩
theorem I_key_bump {w : World} (h : I_key w) : I_key (bump w) := ⟨h.name, h.keys⟩
theorem I_node_bump {w : World} (h : I_node w) : I_node (bump w) := ⟨h.mem, h.nodup⟩

end IrVerif.Kernel

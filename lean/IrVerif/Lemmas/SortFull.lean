/-
C12 — the full stateful model (`Model/SortFull.lean`): the checking phase of fix D89 makes every later check
and every name setter of the re-linking phase succeed (`writeAll_ok`), the naming half never touches the
containers, and under ownership consistency the buckets by `node.graph` are the buckets by container.
-/
import IrVerif.Lemmas.SortState
import IrVerif.Model.SortFull

namespace IrVerif.Sort
open List
open IrVerif.LinkedSet (LSet RWorld WorldWF)

/-- what the re-linking phase may change: names that were `None` (node, value, backing tensor), the name
    authorities, the containers.  Everything else is as before. -/
structure Mono (w w' : FWorld) : Prop where
  graph : ∀ n, (w'.nodes n).graph = (w.nodes n).graph
  outputs : ∀ n, (w'.nodes n).outputs = (w.nodes n).outputs
  opType : ∀ n, (w'.nodes n).opType = (w.nodes n).opType
  nname : ∀ n s, (w.nodes n).name = some s → (w'.nodes n).name = some s
  locked : ∀ v, (w'.vals v).locked = (w.vals v).locked
  owner : ∀ v, (w'.vals v).owner = (w.vals v).owner
  vname : ∀ v s, (w.vals v).name = some s → (w'.vals v).name = some s

theorem Mono.refl (w : FWorld) : Mono w w :=
  ⟨fun _ => rfl, fun _ => rfl, fun _ => rfl, fun _ _ h => h, fun _ => rfl, fun _ => rfl, fun _ _ h => h⟩

theorem Mono.trans {a b c : FWorld} (h1 : Mono a b) (h2 : Mono b c) : Mono a c :=
  ⟨fun n => (h2.graph n).trans (h1.graph n), fun n => (h2.outputs n).trans (h1.outputs n),
   fun n => (h2.opType n).trans (h1.opType n), fun n s h => h2.nname n s (h1.nname n s h),
   fun v => (h2.locked v).trans (h1.locked v), fun v => (h2.owner v).trans (h1.owner v),
   fun v s h => h2.vname v s (h1.vname v s h)⟩

theorem mono_setAuth (w : FWorld) (k : Nat) (a : AuthR) : Mono w (w.setAuth k a) :=
  ⟨fun _ => rfl, fun _ => rfl, fun _ => rfl, fun _ _ h => h, fun _ => rfl, fun _ => rfl, fun _ _ h => h⟩

theorem mono_noteNodeName (w : FWorld) (k : Nat) (s : String) : Mono w (noteNodeName w k s) :=
  mono_setAuth w k _

theorem mono_noteValName (w : FWorld) (k : Nat) (s : String) : Mono w (noteValName w k s) :=
  mono_setAuth w k _

theorem sw_setAuth (w : FWorld) (k : Nat) (a : AuthR) : (w.setAuth k a).sw = w.sw := rfl
theorem sw_setNode (w : FWorld) (n : Nat) (r : NodeR) : (w.setNode n r).sw = w.sw := rfl
theorem sw_setVal (w : FWorld) (v : Nat) (r : ValR) : (w.setVal v r).sw = w.sw := rfl

theorem mono_noteNodeNameO (w : FWorld) (ko : Option Nat) (s : String) : Mono w (noteNodeNameO w ko s) := by
  cases ko with
  | none => exact Mono.refl w
  | some k => exact mono_noteNodeName w k s

theorem mono_noteValNameO (w : FWorld) (ko : Option Nat) (s : String) : Mono w (noteValNameO w ko s) := by
  cases ko with
  | none => exact Mono.refl w
  | some k => exact mono_noteValName w k s

theorem sw_noteNodeNameO (w : FWorld) (ko : Option Nat) (s : String) : (noteNodeNameO w ko s).sw = w.sw := by
  cases ko <;> rfl
theorem sw_noteValNameO (w : FWorld) (ko : Option Nat) (s : String) : (noteValNameO w ko s).sw = w.sw := by
  cases ko <;> rfl

/-- naming a node that has no name -/
theorem mono_setNodeName (w : FWorld) (n : Nat) (r : NodeR) (hg : r.graph = (w.nodes n).graph)
    (ho : r.outputs = (w.nodes n).outputs) (hop : r.opType = (w.nodes n).opType)
    (h : (w.nodes n).name = none) : Mono w (w.setNode n r) := by
  refine ⟨?_, ?_, ?_, ?_, fun _ => rfl, fun _ => rfl, fun _ _ h => h⟩
  · intro m; simp only [FWorld.setNode]; split
    · subst_vars; exact hg
    · rfl
  · intro m; simp only [FWorld.setNode]; split
    · subst_vars; exact ho
    · rfl
  · intro m; simp only [FWorld.setNode]; split
    · subst_vars; exact hop
    · rfl
  · intro m s' hs; simp only [FWorld.setNode]; split
    · subst_vars; rw [h] at hs; cases hs
    · exact hs

/-- naming a value that has no name -/
theorem mono_setValName (w : FWorld) (v : Nat) (r : ValR) (hl : r.locked = (w.vals v).locked)
    (ho : r.owner = (w.vals v).owner) (h : (w.vals v).name = none) : Mono w (w.setVal v r) := by
  refine ⟨fun _ => rfl, fun _ => rfl, fun _ => rfl, fun _ _ h => h, ?_, ?_, ?_⟩
  · intro m; simp only [FWorld.setVal]; split
    · subst_vars; exact hl
    · rfl
  · intro m; simp only [FWorld.setVal]; split
    · subst_vars; exact ho
    · rfl
  · intro m s' hs; simp only [FWorld.setVal]; split
    · subst_vars; rw [h] at hs; cases hs
    · exact hs

theorem mono_setAuth_setNode (w : FWorld) (k : Nat) (A : AuthR) (n : Nat) (r : NodeR)
    (hg : r.graph = (w.nodes n).graph) (ho : r.outputs = (w.nodes n).outputs)
    (hop : r.opType = (w.nodes n).opType) (h : (w.nodes n).name = none) :
    Mono w ((w.setAuth k A).setNode n r) :=
  (mono_setAuth w k A).trans (mono_setNodeName (w.setAuth k A) n r hg ho hop h)

theorem mono_setAuth_setVal (w : FWorld) (k : Nat) (A : AuthR) (v : Nat) (r : ValR)
    (hl : r.locked = (w.vals v).locked) (ho : r.owner = (w.vals v).owner) (h : (w.vals v).name = none) :
    Mono w ((w.setAuth k A).setVal v r) :=
  (mono_setAuth w k A).trans (mono_setValName (w.setAuth k A) v r hl ho h)

theorem freshNode_mono (w : FWorld) (k n : Nat) (h : (w.nodes n).name = none) :
    Mono w (freshNode w k n) ∧ (freshNode w k n).sw = w.sw := by
  unfold freshNode
  refine ⟨?_, ?_⟩
  · refine Mono.trans ?_ (mono_noteNodeName _ _ _)
    refine Mono.trans ?_ (mono_noteNodeNameO _ _ _)
    exact mono_setAuth_setNode w k _ n _ rfl rfl rfl h
  · simp only [noteNodeName, sw_setAuth, sw_noteNodeNameO, sw_setNode]

theorem regNode_mono (w : FWorld) (k n : Nat) : Mono w (regNode w k n) ∧ (regNode w k n).sw = w.sw := by
  unfold regNode
  split
  · exact ⟨mono_noteNodeName w k _, rfl⟩
  · rename_i hn; exact freshNode_mono w k n hn

theorem ValR.locked_map (r : ValR) (s : Option String) (f : Option String) :
    ({ r with name := s, const := r.const.map (fun c => (c.1, f)) } : ValR).locked = r.locked := by
  unfold ValR.locked
  cases r.const with
  | none => rfl
  | some c => rfl

theorem freshVal_mono (w : FWorld) (k v : Nat) (h : (w.vals v).name = none) :
    Mono w (freshVal w k v) ∧ (freshVal w k v).sw = w.sw := by
  unfold freshVal
  refine ⟨?_, ?_⟩
  · refine Mono.trans ?_ (mono_noteValName _ _ _)
    refine Mono.trans ?_ (mono_noteValNameO _ _ _)
    exact mono_setAuth_setVal w k _ v _ (ValR.locked_map _ _ _) rfl h
  · simp only [noteValName, sw_setAuth, sw_noteValNameO, sw_setVal]

/-- `register_or_name_value`: raises only for an unnamed value whose tensor refuses a name -/
theorem regVal_mono (w : FWorld) (k v : Nat) :
    Mono w (regVal w k v).1 ∧ (regVal w k v).1.sw = w.sw ∧
    ((regVal w k v).2 = true → valNamable w v = false) := by
  unfold regVal
  split
  · exact ⟨mono_noteValName w k _, rfl, fun h => by simp at h⟩
  · rename_i hn
    split
    · rename_i hl
      exact ⟨mono_setAuth w k _, rfl, fun _ => by simp [valNamable, hn, hl]⟩
    · obtain ⟨h1, h2⟩ := freshVal_mono w k v hn
      exact ⟨h1, h2, fun h => by simp at h⟩

theorem valNamable_mono {w w' : FWorld} (h : Mono w w') {v : Nat} (hv : valNamable w v = true) :
    valNamable w' v = true := by
  simp only [valNamable, Bool.not_eq_true', Bool.and_eq_false_iff] at hv ⊢
  rcases hv with hv | hv
  · left
    cases hs : (w.vals v).name with
    | none => rw [hs] at hv; simp at hv
    | some s => rw [h.vname v s hs]; rfl
  · right; rw [h.locked v]; exact hv

theorem nodeOK_mono {w w' : FWorld} (h : Mono w w') {k n : Nat} (hn : nodeOK w k n = true) :
    nodeOK w' k n = true := by
  simp only [nodeOK, Bool.and_eq_true, List.all_eq_true] at hn ⊢
  rw [h.graph n, h.outputs n]
  exact ⟨hn.1, fun o ho => valNamable_mono h (hn.2 o ho)⟩

/-- the fold of `register_or_name_value` over outputs that can all be named -/
theorem regVals_ok (w0 : FWorld) (k : Nat) : ∀ (os : List Nat) (w : FWorld), Mono w0 w →
    (∀ o ∈ os, valNamable w0 o = true) →
    let r := os.foldl (fun r o => seqF r (fun w => regVal w k o)) (w, false)
    r.2 = false ∧ Mono w0 r.1 ∧ r.1.sw = w.sw := by
  intro os
  induction os with
  | nil => intro w hm _; exact ⟨rfl, hm, rfl⟩
  | cons o os ih =>
    intro w hm hall
    simp only [List.foldl_cons, seqF, Bool.false_eq_true, if_false]
    obtain ⟨h1, h2, h3⟩ := regVal_mono w k o
    have hnl : (regVal w k o).2 = false := by
      cases hb : (regVal w k o).2 with
      | false => rfl
      | true =>
        have := h3 hb
        rw [valNamable_mono hm (hall o (by simp))] at this
        cases this
    have := ih (regVal w k o).1 (hm.trans h1) (fun o' ho' => hall o' (List.mem_cons_of_mem _ ho'))
    simp only at this
    rw [show regVal w k o = ((regVal w k o).1, false) from Prod.ext rfl hnl]
    exact ⟨this.1, this.2.1, this.2.2.trans h2⟩

/-- `_set_node_graph_to_self_and_assign_names` on a node that passed the checking phase and already
    belongs to `k`: nothing raises, `node.graph` is what it was -/
theorem nameNode_ok {w0 w : FWorld} (hm : Mono w0 w) {k n : Nat} (hok : nodeOK w0 k n = true)
    (hg : (w0.nodes n).graph = some k) :
    (nameNode w k n).2 = false ∧ Mono w0 (nameNode w k n).1 ∧ (nameNode w k n).1.sw = w.sw := by
  have hok' := nodeOK_mono hm hok
  unfold nameNode
  simp only [hok', Bool.not_true, Bool.false_eq_true, if_false]
  obtain ⟨hr1, hr2⟩ := regNode_mono w k n
  have hall : ∀ o ∈ (w.nodes n).outputs, valNamable w0 o = true := by
    simp only [nodeOK, Bool.and_eq_true, List.all_eq_true] at hok
    rw [hm.outputs n]; exact hok.2
  obtain ⟨h1, h2, h3⟩ := regVals_ok w0 k (w.nodes n).outputs (regNode w k n) (hm.trans hr1) hall
  generalize (w.nodes n).outputs.foldl (fun r o => seqF r (fun w => regVal w k o)) (regNode w k n, false) = r at h1 h2 h3
  simp only [seqF, h1, Bool.false_eq_true, if_false]
  refine ⟨trivial, ?_, h3.trans hr2⟩
  have hgr : (r.1.nodes n).graph = some k := by rw [h2.graph n]; exact hg
  refine h2.trans ⟨?_, ?_, ?_, ?_, fun _ => rfl, fun _ => rfl, fun _ _ h => h⟩
  · intro m; simp only [FWorld.setNode]; split
    · subst_vars; exact hgr.symm
    · rfl
  · intro m; simp only [FWorld.setNode]; split
    · subst_vars; rfl
    · rfl
  · intro m; simp only [FWorld.setNode]; split
    · subst_vars; rfl
    · rfl
  · intro m s hs; simp only [FWorld.setNode]; split
    · subst_vars; exact hs
    · exact hs

theorem nameNodes_fold_ok (w0 : FWorld) (k : Nat) : ∀ (xs : List Nat) (w : FWorld), Mono w0 w →
    (∀ n ∈ xs, nodeOK w0 k n = true ∧ (w0.nodes n).graph = some k) →
    let r := xs.foldl (fun r n => seqF r (fun w => nameNode w k n)) (w, false)
    r.2 = false ∧ Mono w0 r.1 ∧ r.1.sw = w.sw := by
  intro xs
  induction xs with
  | nil => intro w hm _; exact ⟨rfl, hm, rfl⟩
  | cons n xs ih =>
    intro w hm hall
    simp only [List.foldl_cons, seqF, Bool.false_eq_true, if_false]
    obtain ⟨h1, h2, h3⟩ := nameNode_ok hm (hall n (by simp)).1 (hall n (by simp)).2
    have := ih (nameNode w k n).1 h2 (fun n' hn' => hall n' (List.mem_cons_of_mem _ hn'))
    simp only at this
    rw [show nameNode w k n = ((nameNode w k n).1, false) from Prod.ext rfl h1]
    exact ⟨this.1, this.2.1, this.2.2.trans h3⟩

/-- `Graph.extend` after the checking phase: nothing raises; only names / authorities change, and the
    container of `p.1` receives `extend(p.2)` -/
theorem extendF_ok {w0 w : FWorld} (hm : Mono w0 w) (p : Nat × List Nat)
    (hall : ∀ n ∈ p.2, nodeOK w0 p.1 n = true ∧ (w0.nodes n).graph = some p.1) :
    (extendF w p).2 = false ∧ Mono w0 (extendF w p).1 ∧ (extendF w p).1.sw = applyWrite w.sw p := by
  unfold extendF nameNodes
  have hchk : p.2.all (nodeOK w p.1) = true := by
    rw [List.all_eq_true]; intro n hn; exact nodeOK_mono hm (hall n hn).1
  simp only [hchk, Bool.not_true, Bool.false_eq_true, if_false]
  obtain ⟨h1, h2, h3⟩ := nameNodes_fold_ok w0 p.1 p.2 w hm hall
  generalize p.2.foldl (fun r n => seqF r (fun w => nameNode w p.1 n)) (w, false) = r at h1 h2 h3
  simp only [seqF, h1, Bool.false_eq_true, if_false]
  refine ⟨trivial, ?_, by rw [h3]⟩
  exact ⟨h2.graph, h2.outputs, h2.opType, h2.nname, h2.locked, h2.owner, h2.vname⟩

/-- step 6 after a passed checking phase -/
theorem writeAll_ok (w0 : FWorld) : ∀ (ws : List (Nat × List Nat)) (s : WSt), s.late = false →
    Mono w0 s.world →
    (∀ p ∈ ws, ∀ n ∈ p.2, nodeOK w0 p.1 n = true ∧ (w0.nodes n).graph = some p.1) →
    (ws.foldl writeStep s).late = false ∧ Mono w0 (ws.foldl writeStep s).world ∧
    (ws.foldl writeStep s).world.sw = applyWrites s.world.sw ws ∧
    (ws.foldl writeStep s).trace = s.trace ++ ws := by
  intro ws
  induction ws with
  | nil => intro s hl hm _; exact ⟨hl, hm, rfl, by simp⟩
  | cons p ps ih =>
    intro s hl hm hall
    obtain ⟨h1, h2, h3⟩ := extendF_ok hm p (hall p (by simp))
    have hstep : writeStep s p = ⟨(extendF s.world p).1, false, s.trace ++ [p]⟩ := by
      simp only [writeStep, hl, Bool.false_eq_true, if_false, h1]
    simp only [List.foldl_cons, hstep]
    obtain ⟨i1, i2, i3, i4⟩ := ih ⟨(extendF s.world p).1, false, s.trace ++ [p]⟩ rfl h2
      (fun q hq => hall q (List.mem_cons_of_mem _ hq))
    refine ⟨i1, i2, ?_, ?_⟩
    · rw [i3]; simp only [applyWrites, List.foldl_cons]; rw [h3]
    · rw [i4]; simp

/-! ### buckets by `node.graph` vs buckets by container -/

theorem mem_popped_sub {u : List Ent} {out : List Nat} {e : Ent}
    (he : e ∈ out.filterMap (fun i => u[i]?)) : e ∈ u := by
  obtain ⟨i, _, hi⟩ := List.mem_filterMap.1 he
  exact List.mem_of_getElem? hi

theorem bucketF_eq_bucket {w : FWorld} {u : List Ent} (hc : Consistent w u) (out : List Nat) (k : Nat) :
    bucketF w u out k = bucket u out k := by
  unfold bucketF bucket poppedIds
  rw [List.filter_map]
  congr 1
  apply List.filter_congr
  intro e he
  simp only [Function.comp, hc e (mem_popped_sub he)]
  by_cases h : e.gid = k
  · simp [h]
  · simp [h]

theorem keysF_eq_sortKeys {w : FWorld} {u : List Ent} (hc : Consistent w u) : keysF w u = sortKeys u := by
  unfold keysF sortKeys
  congr 1
  induction u with
  | nil => rfl
  | cons e es ih =>
    have he := hc e (by simp)
    simp only [List.filterMap_cons, he, List.map_cons]
    rw [ih (fun x hx => hc x (List.mem_cons_of_mem _ hx))]

theorem mem_bucketF_graph {w : FWorld} {u : List Ent} {out : List Nat} {k n : Nat}
    (h : n ∈ bucketF w u out k) : (w.nodes n).graph = some k := by
  unfold bucketF at h
  have := (List.mem_filter.1 h).2
  simpa using this

end IrVerif.Sort

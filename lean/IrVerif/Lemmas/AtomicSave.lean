/-
Helper lemmas for C08 (`Props/C08.lean`): invariants of the effect interpreter of
`Model/AtomicSave.lean`.  Core Lean only.
-/
import IrVerif.Model.AtomicSave
namespace IrVerif.AtomicSave

@[simp] theorem upd_same {α β : Type} [DecidableEq α] (f : α → β) (a : α) (b : β) : upd f a b a = b := by
  simp [upd]

theorem upd_ne {α β : Type} [DecidableEq α] (f : α → β) {a x : α} (b : β) (h : x ≠ a) :
    upd f a b x = f x := by
  simp [upd, h]

/-- Content of the file a path names (`none`: no such file). -/
def content (s : St) (p : Path) : Option Bytes := (s.fs.file p).map s.fs.data

/-- Effects that never rename onto a caller path, never touch `_valid` and never create a
mapping: everything except `os.replace`, `invalidate` and the pre-save `loadSmall`. -/
def Eff.tmpOnly : Eff → Bool
  | .replace => false
  | .invalidate _ => false
  | .loadSmall _ _ => false
  | _ => true

/-- Effects that change no file content, no permission bits and no name of a caller path. -/
def Eff.noData : Eff → Bool
  | .write _ => false
  | .openTmp => false
  | .replace => false
  | .copymode => false
  | .closeTmp => false
  | .truncate _ => false
  | .openW _ => false
  | .seekW _ _ => false
  | .writeW _ _ => false
  | .closeW _ => false
  | _ => true

/-- Well-formed initial state: every named inode is below the allocation counter, the temporary
file does not exist yet (the `mkdtemp` contract) and no handle is open. -/
structure WF (s : St) : Prop where
  named : ∀ p i, s.fs.file p = some i → i < s.fs.next
  fresh : s.fs.file .tmpFile = none
  nofd : s.fd = none
  nowfd : ∀ w, s.wfd w = none

/-- "Nothing the caller can see has changed since `s0`" — the invariant of every state before
`os.replace` and of every state of a failed save. -/
structure Old (s0 s : St) : Prop where
  user : ∀ n, s.fs.file (.user n) = s0.fs.file (.user n)
  udir : ∀ n, s.fs.isDir (.user n) = s0.fs.isDir (.user n)
  data : ∀ j, j < s0.fs.next → s.fs.data j = s0.fs.data j
  mode : ∀ j, j < s0.fs.next → s.fs.mode j = s0.fs.mode j
  next : s0.fs.next ≤ s.fs.next
  tmp : ∀ i, s.fs.file .tmpFile = some i → s0.fs.next ≤ i
  fd : ∀ i, s.fd = some i → s0.fs.next ≤ i
  wfd : ∀ w i p, s.wfd w = some (i, p) → s0.fs.next ≤ i
  valid : s.valid = s0.valid
  mapped : ∀ i, s.mapped i = s0.mapped i ∨ s.mapped i = none
  replaced : s.replaced = s0.replaced

theorem Old.refl (s : St) (h : WF s) : Old s s :=
  ⟨fun _ => rfl, fun _ => rfl, fun _ _ => rfl, fun _ _ => rfl, Nat.le_refl _,
   fun i hi => by simp [h.fresh] at hi, fun i hi => by simp [h.nofd] at hi,
   fun w i p hw => by simp [h.nowfd] at hw, rfl, fun _ => Or.inl rfl, rfl⟩

theorem old_apply (env : Env) {s0 s : St} (e : Eff) (he : e.tmpOnly = true) (h : Old s0 s) :
    Old s0 (apply env s e) := by
  cases e with
  | replace => simp [Eff.tmpOnly] at he
  | invalidate i => simp [Eff.tmpOnly] at he
  | mkdtemp =>
    exact ⟨h.user, fun n => by simp [apply, upd, h.udir], h.data, h.mode, h.next, h.tmp, h.fd, h.wfd, h.valid,
      h.mapped, h.replaced⟩
  | openTmp =>
    simp only [apply]
    split
    · rename_i i hi
      have := h.tmp i hi
      refine ⟨h.user, h.udir, fun j hj => ?_, h.mode, h.next, h.tmp, fun k hk => ?_, h.wfd, h.valid,
        h.mapped, h.replaced⟩
      · have : j ≠ i := by omega
        simp [upd, this, h.data j hj]
      · simp at hk; omega
    · refine ⟨fun n => ?_, h.udir, fun j hj => ?_, fun j hj => ?_, ?_, fun k hk => ?_, fun k hk => ?_,
        h.wfd, h.valid, h.mapped, h.replaced⟩
      · simp [upd, h.user]
      · have := h.next
        have : j ≠ s.fs.next := by omega
        simp [upd, this, h.data j hj]
      · have := h.next
        have : j ≠ s.fs.next := by omega
        simp [upd, this, h.mode j hj]
      · have := h.next; simp; omega
      · have := h.next; simp [upd] at hk; omega
      · have := h.next; simp at hk; omega
  | callback i => exact h
  | seek off => exact ⟨h.user, h.udir, h.data, h.mode, h.next, h.tmp, h.fd, h.wfd, h.valid, h.mapped, h.replaced⟩
  | write bs =>
    simp only [apply]
    split
    · rename_i i hi
      have := h.fd i hi
      refine ⟨h.user, h.udir, fun j hj => ?_, h.mode, h.next, h.tmp, h.fd, h.wfd, h.valid, h.mapped, h.replaced⟩
      have : j ≠ i := by omega
      simp [upd, this, h.data j hj]
    · exact h
  | closeTmp =>
    exact ⟨h.user, h.udir, h.data, h.mode, h.next, h.tmp, fun i hi => by simp [apply] at hi, h.wfd, h.valid,
      h.mapped, h.replaced⟩
  | release i =>
    refine ⟨h.user, h.udir, h.data, h.mode, h.next, h.tmp, h.fd, h.wfd, h.valid, fun k => ?_, h.replaced⟩
    by_cases hk : k = i
    · right; simp [apply, upd, hk]
    · simp [apply, upd, hk]; exact h.mapped k
  | copymode =>
    simp only [apply]
    split
    · rename_i d t hd ht
      have := h.tmp t ht
      refine ⟨h.user, h.udir, h.data, fun j hj => ?_, h.next, h.tmp, h.fd, h.wfd, h.valid, h.mapped, h.replaced⟩
      have : j ≠ t := by omega
      simp [upd, this, h.mode j hj]
    · exact h
  | removeTmp =>
    refine ⟨fun n => ?_, h.udir, h.data, h.mode, h.next, fun i hi => ?_, h.fd, h.wfd, h.valid, h.mapped,
      h.replaced⟩
    · simp [apply, upd, h.user]
    · simp [apply, upd] at hi
  | rmdirTmp =>
    simp only [apply]
    split
    · exact h
    · exact ⟨h.user, fun n => by simp [upd, h.udir], h.data, h.mode, h.next, h.tmp, h.fd, h.wfd, h.valid,
        h.mapped, h.replaced⟩
  | loadSmall i e => simp [Eff.tmpOnly] at he
  | truncate n =>
    simp only [apply]
    split
    · rename_i i hi
      have := h.fd i hi
      refine ⟨h.user, h.udir, fun j hj => ?_, h.mode, h.next, h.tmp, h.fd, h.wfd, h.valid, h.mapped, h.replaced⟩
      have : j ≠ i := by omega
      simp [upd, this, h.data j hj]
    · exact h
  | openW w =>
    simp only [apply]
    split
    · rename_i i hi
      have := h.tmp i hi
      refine ⟨h.user, h.udir, h.data, h.mode, h.next, h.tmp, h.fd, fun w' i' p' hw => ?_, h.valid, h.mapped,
        h.replaced⟩
      simp only [upd] at hw
      split at hw
      · simp at hw; omega
      · exact h.wfd w' i' p' hw
    · exact h
  | seekW w off =>
    simp only [apply]
    split
    · rename_i i p0 hi
      have := h.wfd w i p0 hi
      refine ⟨h.user, h.udir, h.data, h.mode, h.next, h.tmp, h.fd, fun w' i' p' hw => ?_, h.valid, h.mapped,
        h.replaced⟩
      simp only [upd] at hw
      split at hw
      · simp at hw; omega
      · exact h.wfd w' i' p' hw
    · exact h
  | writeW w bs =>
    simp only [apply]
    split
    · rename_i i p0 hi
      have := h.wfd w i p0 hi
      refine ⟨h.user, h.udir, fun j hj => ?_, h.mode, h.next, h.tmp, h.fd, fun w' i' p' hw => ?_, h.valid,
        h.mapped, h.replaced⟩
      · have : j ≠ i := by omega
        simp [upd, this, h.data j hj]
      · simp only [upd] at hw
        split at hw
        · simp at hw; omega
        · exact h.wfd w' i' p' hw
    · exact h
  | closeW w =>
    refine ⟨h.user, h.udir, h.data, h.mode, h.next, h.tmp, h.fd, fun w' i' p' hw => ?_, h.valid, h.mapped,
      h.replaced⟩
    simp only [apply, upd] at hw
    split at hw
    · simp at hw
    · exact h.wfd w' i' p' hw

/-- A failing effect never breaks `Old` (whatever the effect: a failing `os.replace` does nothing). -/
theorem old_partial (env : Env) {s0 s : St} (e : Eff) (p : Nat) (h : Old s0 s) :
    Old s0 (applyPartial env s e p) := by
  cases e <;> try exact h
  · exact old_apply env (.write _) rfl h
  · exact old_apply env (.writeW _ _) rfl h

theorem runList_cons_some (env : Env) {f : Nat → Option Nat} {n p : Nat} (h : f n = some p)
    (e : Eff) (es : List Eff) (s : St) :
    runList env f (e :: es) n s =
      ⟨[⟨e, true, applyPartial env s e p⟩], applyPartial env s e p, true⟩ := by
  simp [runList, h]

theorem runList_cons_none (env : Env) {f : Nat → Option Nat} {n : Nat} (h : f n = none)
    (e : Eff) (es : List Eff) (s : St) :
    runList env f (e :: es) n s =
      ⟨⟨e, false, apply env s e⟩ :: (runList env f es (n + 1) (apply env s e)).steps,
       (runList env f es (n + 1) (apply env s e)).final,
       (runList env f es (n + 1) (apply env s e)).faulted⟩ := by
  simp [runList, h]

/-- Generic invariant rule for a block. -/
theorem runList_inv (env : Env) (f : Nat → Option Nat) {P : St → Prop} :
    ∀ (es : List Eff) (n : Nat) (s : St), P s →
      (∀ e ∈ es, ∀ s, P s → P (apply env s e)) →
      (∀ e ∈ es, ∀ s p, P s → P (applyPartial env s e p)) →
      P (runList env f es n s).final ∧ ∀ st ∈ (runList env f es n s).steps, P st.st
  | [], _, s, hs, _, _ => by simp [runList, hs]
  | e :: es, n, s, hs, ha, hp => by
    simp only [runList]
    split
    · rename_i p _
      have := hp e (by simp) s p hs
      simp [this]
    · have h1 := ha e (by simp) s hs
      have ih := runList_inv env f es (n + 1) (apply env s e) h1
        (fun e' he' => ha e' (by simp [he'])) (fun e' he' => hp e' (by simp [he']))
      refine ⟨ih.1, ?_⟩
      intro st hst
      simp only [List.mem_cons] at hst
      rcases hst with rfl | hst
      · exact h1
      · exact ih.2 st hst

/-- A block that did not fault ran exactly like the fault-free block. -/
theorem runList_nofault (env : Env) (f : Nat → Option Nat) :
    ∀ (es : List Eff) (n : Nat) (s : St), (runList env f es n s).faulted = false →
      runList env f es n s = runList env (fun _ => none) es n s
  | [], _, _, _ => by simp [runList]
  | e :: es, n, s, h => by
    simp only [runList] at h ⊢
    cases hn : f n with
    | some p => simp [hn] at h
    | none =>
      simp only [hn] at h ⊢
      rw [runList_nofault env f es (n + 1) (apply env s e) h]

theorem runList_none_nofault (env : Env) :
    ∀ (es : List Eff) (n : Nat) (s : St), (runList env (fun _ => none) es n s).faulted = false
  | [], _, _ => by simp [runList]
  | e :: es, n, s => by
    simp only [runList]
    exact runList_none_nofault env es (n + 1) (apply env s e)

/-- The fault-free block does not depend on the starting index. -/
theorem runList_none_index (env : Env) :
    ∀ (es : List Eff) (n m : Nat) (s : St),
      runList env (fun _ => none) es n s = runList env (fun _ => none) es m s
  | [], _, _, _ => by simp [runList]
  | e :: es, n, m, s => by
    simp only [runList]
    rw [runList_none_index env es (n + 1) (m + 1)]

theorem runList_length_nofault (env : Env) (f : Nat → Option Nat) :
    ∀ (es : List Eff) (n : Nat) (s : St), (runList env f es n s).faulted = false →
      (runList env f es n s).steps.length = es.length
  | [], _, _, _ => by simp [runList]
  | e :: es, n, s, h => by
    simp only [runList] at h ⊢
    cases hn : f n with
    | some p => simp [hn] at h
    | none =>
      simp only [hn] at h ⊢
      simp only [List.length_cons]
      rw [runList_length_nofault env f es (n + 1) (apply env s e) h]

/-- Running `xs ++ ys` = running `xs`, then (unless it faulted) `ys`. -/
theorem runList_append (env : Env) (f : Nat → Option Nat) :
    ∀ (xs ys : List Eff) (n : Nat) (s : St),
      runList env f (xs ++ ys) n s =
        if (runList env f xs n s).faulted then runList env f xs n s
        else
          ⟨(runList env f xs n s).steps ++ (runList env f ys (n + xs.length) (runList env f xs n s).final).steps,
           (runList env f ys (n + xs.length) (runList env f xs n s).final).final,
           (runList env f ys (n + xs.length) (runList env f xs n s).final).faulted⟩
  | [], ys, n, s => by simp [runList]
  | x :: xs, ys, n, s => by
    cases hn : f n with
    | some p => simp [runList_cons_some env hn]
    | none =>
      simp only [List.cons_append, runList_cons_none env hn]
      rw [runList_append env f xs ys (n + 1) (apply env s x)]
      split
      · simp
      · simp [Nat.add_assoc, Nat.add_comm 1]


/-! ### Reading through `Old` -/

theorem old_content {s0 s : St} (h0 : WF s0) (h : Old s0 s) (n : String) :
    content s (.user n) = content s0 (.user n) := by
  simp only [content, h.user n]
  cases hf : s0.fs.file (.user n) with
  | none => rfl
  | some i => simp [h.data i (h0.named _ _ hf)]

theorem old_mode {s0 s : St} (h0 : WF s0) (h : Old s0 s) (n : String) :
    (s.fs.file (.user n)).map s.fs.mode = (s0.fs.file (.user n)).map s0.fs.mode := by
  simp only [h.user n]
  cases hf : s0.fs.file (.user n) with
  | none => rfl
  | some i => simp [h.mode i (h0.named _ _ hf)]

theorem old_read {s0 s : St} (h0 : WF s0) (h : Old s0 s) (i : Nat) (e : Ext)
    (hm : ∀ m, s0.mapped i = some m → s0.fs.file (.user e.path) = some m) :
    readT s i e = readT s0 i e := by
  simp only [readT, h.valid, h.user]
  cases hv : s0.valid i with
  | false => rfl
  | true =>
    simp only [if_true]
    cases hm0 : s0.mapped i with
    | none =>
      have : s.mapped i = none := by
        rcases h.mapped i with hh | hh
        · rw [hh, hm0]
        · exact hh
      simp only [this]
      cases hf : s0.fs.file (.user e.path) with
      | none => rfl
      | some m => simp [h.data m (h0.named _ _ hf)]
    | some m =>
      have hf := hm m hm0
      have hlt := h0.named _ _ hf
      rcases h.mapped i with hh | hh
      · simp [hh, hm0, h.data m hlt]
      · simp [hh, hf, h.data m hlt]

/-! ### After `os.replace`: nothing changes content or caller-visible names any more -/

structure Frozen (s1 s : St) : Prop where
  user : ∀ n, s.fs.file (.user n) = s1.fs.file (.user n)
  data : ∀ j, s.fs.data j = s1.fs.data j
  mode : ∀ j, s.fs.mode j = s1.fs.mode j
  next : s.fs.next = s1.fs.next
  fd : s.fd = s1.fd
  tmp : s1.fs.file .tmpFile = none → s.fs.file .tmpFile = none
  replaced : s.replaced = s1.replaced

theorem Frozen.refl (s : St) : Frozen s s :=
  ⟨fun _ => rfl, fun _ => rfl, fun _ => rfl, rfl, rfl, fun h => h, rfl⟩

theorem frozen_content {s1 s : St} (h : Frozen s1 s) (n : String) :
    content s (.user n) = content s1 (.user n) := by
  simp only [content, h.user n]
  cases s1.fs.file (.user n) with
  | none => rfl
  | some i => simp [h.data i]

theorem frozen_apply (env : Env) {s1 s : St} (e : Eff) (he : e.noData = true) (h : Frozen s1 s) :
    Frozen s1 (apply env s e) := by
  cases e with
  | write bs => simp [Eff.noData] at he
  | openTmp => simp [Eff.noData] at he
  | replace => simp [Eff.noData] at he
  | copymode => simp [Eff.noData] at he
  | removeTmp =>
    exact ⟨fun n => by simp [apply, upd, h.user], h.data, h.mode, h.next, h.fd,
      fun _ => by simp [apply, upd], h.replaced⟩
  | rmdirTmp =>
    simp only [apply]
    split
    · exact h
    · exact ⟨h.user, h.data, h.mode, h.next, h.fd, h.tmp, h.replaced⟩
  | closeTmp => simp [Eff.noData] at he
  | truncate n => simp [Eff.noData] at he
  | openW w => simp [Eff.noData] at he
  | seekW w o => simp [Eff.noData] at he
  | writeW w bs => simp [Eff.noData] at he
  | closeW w => simp [Eff.noData] at he
  | _ => exact ⟨h.user, h.data, h.mode, h.next, h.fd, h.tmp, h.replaced⟩

theorem frozen_partial (env : Env) {s1 s : St} (e : Eff) (p : Nat) (he : e.noData = true)
    (h : Frozen s1 s) : Frozen s1 (applyPartial env s e p) := by
  cases e <;> first | exact h | simp [Eff.noData] at he

/-! ### The shape of a run of `saveWith` -/

/-- State right after a successful `os.replace` in the run that starts at `s0`. -/
def afterReplace (env : Env) (body : List Eff) (n0 : Nat) (s0 : St) : St :=
  apply env (runList env (fun _ => none) body (n0 + 1) (apply env s0 .mkdtemp)).final .replace

theorem saveWith_fault_mkdtemp (env : Env) (body post : List Eff) {f : Nat → Option Nat} {n0 p : Nat}
    (h : f n0 = some p) (s0 : St) :
    saveWith env body post f n0 s0 = ⟨[⟨.mkdtemp, true, s0⟩], s0, true⟩ := by
  simp [saveWith, runList_cons_some env h, applyPartial]

theorem saveWith_ok_mkdtemp (env : Env) (body post : List Eff) {f : Nat → Option Nat} {n0 : Nat}
    (h : f n0 = none) (s0 : St) :
    saveWith env body post f n0 s0 =
      (let s1 := apply env s0 .mkdtemp
       let b := runList env f (body ++ [.replace]) (n0 + 1) s1
       let c := runList env f [.removeTmp, .rmdirTmp] (n0 + 1 + b.steps.length) b.final
       if b.faulted || c.faulted then ⟨⟨.mkdtemp, false, s1⟩ :: (b.steps ++ c.steps), c.final, true⟩
       else
         let d := runList env f post (n0 + 1 + b.steps.length + c.steps.length) c.final
         ⟨⟨.mkdtemp, false, s1⟩ :: (b.steps ++ c.steps ++ d.steps), d.final, d.faulted⟩) := by
  unfold saveWith
  rw [runList_cons_none env h]
  simp [runList]

theorem cleanup_tmpOnly : ∀ e ∈ [Eff.removeTmp, Eff.rmdirTmp], e.tmpOnly = true := by
  intro e he; simp at he; rcases he with rfl | rfl <;> rfl

theorem cleanup_noData : ∀ e ∈ [Eff.removeTmp, Eff.rmdirTmp], e.noData = true := by
  intro e he; simp at he; rcases he with rfl | rfl <;> rfl

/-- `Old` is kept by a whole block of `tmpOnly` effects, whatever fails. -/
theorem runList_old (env : Env) (f : Nat → Option Nat) {s0 : St} (es : List Eff)
    (hes : ∀ e ∈ es, e.tmpOnly = true) (n : Nat) (s : St) (h : Old s0 s) :
    Old s0 (runList env f es n s).final ∧ ∀ st ∈ (runList env f es n s).steps, Old s0 st.st :=
  runList_inv env f es n s h (fun e he _ hs => old_apply env e (hes e he) hs)
    (fun e _ _ p hs => old_partial env e p hs)

theorem runList_frozen (env : Env) (f : Nat → Option Nat) {s1 : St} (es : List Eff)
    (hes : ∀ e ∈ es, e.noData = true) (n : Nat) (s : St) (h : Frozen s1 s) :
    Frozen s1 (runList env f es n s).final ∧ ∀ st ∈ (runList env f es n s).steps, Frozen s1 st.st :=
  runList_inv env f es n s h (fun e he _ hs => frozen_apply env e (hes e he) hs)
    (fun e he _ p hs => frozen_partial env e p (hes e he) hs)

/-- A two-phase invariant of `saveWith`: `Pre` holds from the start until `os.replace` (kept by
every effect that is not replace / invalidate / loadSmall and by every failing effect), `Post`
holds right after the successful replace and is kept by the clean-up and `post` effects. -/
structure TwoPhase (env : Env) (body post : List Eff) (n0 : Nat) (s0 : St) (Pre Post : St → Prop) :
    Prop where
  init : Pre s0
  pre_apply : ∀ e, e.tmpOnly = true → ∀ s, Pre s → Pre (apply env s e)
  pre_partial : ∀ e p s, Pre s → Pre (applyPartial env s e p)
  at_replace : Post (afterReplace env body n0 s0)
  post_apply : ∀ e ∈ [Eff.removeTmp, Eff.rmdirTmp] ++ post, ∀ s, Post s → Post (apply env s e)
  post_partial : ∀ e ∈ [Eff.removeTmp, Eff.rmdirTmp] ++ post, ∀ s p, Post s → Post (applyPartial env s e p)

theorem runList_pre {env : Env} {body post : List Eff} {n0 : Nat} {s0 : St} {Pre Post : St → Prop}
    (tp : TwoPhase env body post n0 s0 Pre Post) (f : Nat → Option Nat) (es : List Eff)
    (hes : ∀ e ∈ es, e.tmpOnly = true) (n : Nat) (s : St) (h : Pre s) :
    Pre (runList env f es n s).final ∧ ∀ st ∈ (runList env f es n s).steps, Pre st.st :=
  runList_inv env f es n s h (fun e he s hs => tp.pre_apply e (hes e he) s hs)
    (fun e _ s p hs => tp.pre_partial e p s hs)

theorem runList_post {env : Env} {body post : List Eff} {n0 : Nat} {s0 : St} {Pre Post : St → Prop}
    (tp : TwoPhase env body post n0 s0 Pre Post) (f : Nat → Option Nat) (es : List Eff)
    (hes : ∀ e ∈ es, e ∈ [Eff.removeTmp, Eff.rmdirTmp] ++ post) (n : Nat) (s : St) (h : Post s) :
    Post (runList env f es n s).final ∧ ∀ st ∈ (runList env f es n s).steps, Post st.st :=
  runList_inv env f es n s h (fun e he s hs => tp.post_apply e (hes e he) s hs)
    (fun e he s p hs => tp.post_partial e (hes e he) s p hs)

/-- The block `body ++ [replace]`: either it faulted and every visited state (and the final one)
satisfies `Pre`, or it did not fault, the final state is `afterReplace` and every visited state
satisfies `Pre` or `Post`. -/
theorem try_block {env : Env} {body post : List Eff} {n0 : Nat} {s0 : St} {Pre Post : St → Prop}
    (tp : TwoPhase env body post n0 s0 Pre Post) (f : Nat → Option Nat)
    (hb : ∀ e ∈ body, e.tmpOnly = true) :
    ((runList env f (body ++ [.replace]) (n0 + 1) (apply env s0 .mkdtemp)).faulted = true ∧
      Pre (runList env f (body ++ [.replace]) (n0 + 1) (apply env s0 .mkdtemp)).final ∧
      ∀ st ∈ (runList env f (body ++ [.replace]) (n0 + 1) (apply env s0 .mkdtemp)).steps, Pre st.st) ∨
    ((runList env f (body ++ [.replace]) (n0 + 1) (apply env s0 .mkdtemp)).faulted = false ∧
      (runList env f (body ++ [.replace]) (n0 + 1) (apply env s0 .mkdtemp)).final =
        afterReplace env body n0 s0 ∧
      ∀ st ∈ (runList env f (body ++ [.replace]) (n0 + 1) (apply env s0 .mkdtemp)).steps,
        Pre st.st ∨ Post st.st) := by
  have h1 : Pre (apply env s0 .mkdtemp) := tp.pre_apply .mkdtemp rfl s0 tp.init
  have hbb := runList_pre tp f body hb (n0 + 1) (apply env s0 .mkdtemp) h1
  rw [runList_append env f body [.replace] (n0 + 1) (apply env s0 .mkdtemp)]
  cases hfa : (runList env f body (n0 + 1) (apply env s0 .mkdtemp)).faulted with
  | true =>
    left
    simp only [if_true]
    exact ⟨hfa, hbb.1, hbb.2⟩
  | false =>
    simp only [Bool.false_eq_true, if_false]
    have hnf := runList_nofault env f body (n0 + 1) (apply env s0 .mkdtemp) hfa
    cases hr : f (n0 + 1 + body.length) with
    | some p =>
      left
      rw [runList_cons_some env hr]
      refine ⟨rfl, ?_, ?_⟩
      · exact tp.pre_partial .replace p _ hbb.1
      · intro st hst
        simp only [List.mem_append, List.mem_singleton] at hst
        rcases hst with hst | rfl
        · exact hbb.2 st hst
        · exact tp.pre_partial .replace p _ hbb.1
    | none =>
      right
      rw [runList_cons_none env hr]
      simp only [runList, List.mem_append, List.mem_singleton]
      refine ⟨trivial, ?_, ?_⟩
      · simp only [afterReplace, ← hnf]
      · intro st hst
        rcases hst with hst | rfl
        · exact Or.inl (hbb.2 st hst)
        · right
          have := tp.at_replace
          simp only [afterReplace, ← hnf] at this
          exact this

/-- Every visited state of any run satisfies `Pre` or `Post`; so does the final state; and a run
whose `try` block faulted ends in `Pre`. -/
theorem saveWith_two_phase {env : Env} {body post : List Eff} {n0 : Nat} {s0 : St}
    {Pre Post : St → Prop} (tp : TwoPhase env body post n0 s0 Pre Post)
    (hb : ∀ e ∈ body, e.tmpOnly = true) (f : Nat → Option Nat) :
    (∀ st ∈ (saveWith env body post f n0 s0).steps, Pre st.st ∨ Post st.st) ∧
    (Pre (saveWith env body post f n0 s0).final ∨ Post (saveWith env body post f n0 s0).final) := by
  cases hf0 : f n0 with
  | some p =>
    rw [saveWith_fault_mkdtemp env body post hf0]
    refine ⟨?_, Or.inl tp.init⟩
    intro st hst
    simp only [List.mem_singleton] at hst
    subst hst
    exact Or.inl tp.init
  | none =>
    rw [saveWith_ok_mkdtemp env body post hf0]
    have h1 : Pre (apply env s0 .mkdtemp) := tp.pre_apply .mkdtemp rfl s0 tp.init
    rcases try_block tp f hb with ⟨hbf, hbo, hbs⟩ | ⟨hbf, hbe, hbs⟩
    · -- the try block faulted: everything stays Pre
      simp only [hbf, Bool.true_or, if_true]
      have hc := runList_pre tp f [.removeTmp, .rmdirTmp] cleanup_tmpOnly
        (n0 + 1 + (runList env f (body ++ [.replace]) (n0 + 1) (apply env s0 .mkdtemp)).steps.length)
        _ hbo
      refine ⟨?_, Or.inl hc.1⟩
      intro st hst
      simp only [List.mem_cons, List.mem_append] at hst
      rcases hst with rfl | hst | hst
      · exact Or.inl h1
      · exact Or.inl (hbs st hst)
      · exact Or.inl (hc.2 st hst)
    · -- replace happened
      have hfz : Post (runList env f (body ++ [.replace]) (n0 + 1) (apply env s0 .mkdtemp)).final := by
        rw [hbe]; exact tp.at_replace
      have hc := runList_post tp f [.removeTmp, .rmdirTmp] (fun e he => List.mem_append_left _ he)
        (n0 + 1 + (runList env f (body ++ [.replace]) (n0 + 1) (apply env s0 .mkdtemp)).steps.length)
        _ hfz
      simp only [hbf, Bool.false_or]
      split
      · refine ⟨?_, Or.inr hc.1⟩
        intro st hst
        simp only [List.mem_cons, List.mem_append] at hst
        rcases hst with rfl | hst | hst
        · exact Or.inl h1
        · exact hbs st hst
        · exact Or.inr (hc.2 st hst)
      · have hd := runList_post tp f post (fun e he => List.mem_append_right _ he)
          (n0 + 1 + (runList env f (body ++ [.replace]) (n0 + 1) (apply env s0 .mkdtemp)).steps.length +
            (runList env f [.removeTmp, .rmdirTmp]
              (n0 + 1 + (runList env f (body ++ [.replace]) (n0 + 1) (apply env s0 .mkdtemp)).steps.length)
              (runList env f (body ++ [.replace]) (n0 + 1) (apply env s0 .mkdtemp)).final).steps.length)
          _ hc.1
        refine ⟨?_, Or.inr hd.1⟩
        intro st hst
        simp only [List.mem_cons, List.mem_append] at hst
        rcases hst with rfl | (hst | hst) | hst
        · exact Or.inl h1
        · exact hbs st hst
        · exact Or.inr (hc.2 st hst)
        · exact Or.inr (hd.2 st hst)

/-- The `Old` / `Frozen` instance. -/
theorem twoPhase_old_frozen (env : Env) (body post : List Eff) (hp : ∀ e ∈ post, e.noData = true)
    (s0 : St) (h0 : WF s0) (n0 : Nat) :
    TwoPhase env body post n0 s0 (Old s0) (Frozen (afterReplace env body n0 s0)) where
  init := Old.refl s0 h0
  pre_apply := fun e he _ hs => old_apply env e he hs
  pre_partial := fun e p _ hs => old_partial env e p hs
  at_replace := Frozen.refl _
  post_apply := fun e he _ hs => frozen_apply env e (by
    simp only [List.mem_append] at he
    rcases he with he | he
    · exact cleanup_noData e he
    · exact hp e he) hs
  post_partial := fun e he _ p hs => frozen_partial env e p (by
    simp only [List.mem_append] at he
    rcases he with he | he
    · exact cleanup_noData e he
    · exact hp e he) hs

theorem saveWith_states (env : Env) (body post : List Eff) (hb : ∀ e ∈ body, e.tmpOnly = true)
    (hp : ∀ e ∈ post, e.noData = true) (s0 : St) (h0 : WF s0) (n0 : Nat) (f : Nat → Option Nat) :
    (∀ st ∈ (saveWith env body post f n0 s0).steps,
        Old s0 st.st ∨ Frozen (afterReplace env body n0 s0) st.st) ∧
    (Old s0 (saveWith env body post f n0 s0).final ∨
      Frozen (afterReplace env body n0 s0) (saveWith env body post f n0 s0).final) :=
  saveWith_two_phase (twoPhase_old_frozen env body post hp s0 h0 n0) hb f

/-- The fault-free run ends `Frozen` at the state right after its replace. -/
theorem saveWith_none_frozen (env : Env) (body post : List Eff) (hp : ∀ e ∈ post, e.noData = true)
    (s0 : St) (n0 : Nat) :
    Frozen (afterReplace env body n0 s0) (saveWith env body post (fun _ => none) n0 s0).final := by
  rw [saveWith_ok_mkdtemp env body post (f := fun _ => none) rfl]
  have hbf := runList_none_nofault env (body ++ [.replace]) (n0 + 1) (apply env s0 .mkdtemp)
  have hbe : (runList env (fun _ => none) (body ++ [.replace]) (n0 + 1) (apply env s0 .mkdtemp)).final
      = afterReplace env body n0 s0 := by
    rw [runList_append]
    simp [runList_none_nofault, runList, afterReplace]
  have hfz : Frozen (afterReplace env body n0 s0)
      (runList env (fun _ => none) (body ++ [.replace]) (n0 + 1) (apply env s0 .mkdtemp)).final := by
    rw [hbe]; exact Frozen.refl _
  have hc := runList_frozen env (fun _ => none) [.removeTmp, .rmdirTmp] cleanup_noData
    (n0 + 1 + (runList env (fun _ => none) (body ++ [.replace]) (n0 + 1)
      (apply env s0 .mkdtemp)).steps.length) _ hfz
  simp only [hbf, runList_none_nofault, Bool.or_self, Bool.false_eq_true, if_false]
  exact (runList_frozen env (fun _ => none) post hp _ _ hc.1).1

theorem runList_fault_in_range (env : Env) (f : Nat → Option Nat) {k p : Nat} (hk : f k = some p) :
    ∀ (es : List Eff) (n : Nat) (s : St), n ≤ k → k < n + es.length →
      (runList env f es n s).faulted = true
  | [], n, _, h1, h2 => by simp at h2; omega
  | e :: es, n, s, h1, h2 => by
    cases hn : f n with
    | some q => simp [runList_cons_some env hn]
    | none =>
      rw [runList_cons_none env hn]
      have : n ≠ k := by intro h; rw [h, hk] at hn; simp at hn
      exact runList_fault_in_range env f hk es (n + 1) _ (by omega) (by simp at h2; omega)

theorem runList_faulted_last (env : Env) (f : Nat → Option Nat) :
    ∀ (es : List Eff) (n : Nat) (s : St), (runList env f es n s).faulted = true →
      0 < (runList env f es n s).steps.length ∧
      ∃ p, f (n + (runList env f es n s).steps.length - 1) = some p
  | [], _, _, h => by simp [runList] at h
  | e :: es, n, s, h => by
    cases hn : f n with
    | some q =>
      rw [runList_cons_some env hn]
      exact ⟨by simp, q, by simpa using hn⟩
    | none =>
      rw [runList_cons_none env hn] at h ⊢
      have ih := runList_faulted_last env f es (n + 1) _ h
      refine ⟨by simp, ?_⟩
      rcases ih.2 with ⟨p, hp⟩
      refine ⟨p, ?_⟩
      simp only [List.length_cons]
      have : n + ((runList env f es (n + 1) (apply env s e)).steps.length + 1) - 1 =
          n + 1 + (runList env f es (n + 1) (apply env s e)).steps.length - 1 := by omega
      rw [this]; exact hp

/-- Exactly one fault, at or before `os.replace`: the exception leaves, everything visible is as
before, and the temporary file and directory are gone. -/
theorem saveWith_single_fault (env : Env) (body post : List Eff) (hb : ∀ e ∈ body, e.tmpOnly = true)
    (s0 : St) (h0 : WF s0) (hdir : s0.fs.isDir .tmpDir = false) (n0 : Nat) (f : Nat → Option Nat)
    (k p : Nat) (hk : f k = some p) (hone : ∀ n, n ≠ k → f n = none)
    (hlo : n0 ≤ k) (hhi : k ≤ n0 + 1 + body.length) :
    (saveWith env body post f n0 s0).faulted = true ∧
    Old s0 (saveWith env body post f n0 s0).final ∧
    (saveWith env body post f n0 s0).final.fs.file .tmpFile = none ∧
    (saveWith env body post f n0 s0).final.fs.isDir .tmpDir = false := by
  by_cases hkn : k = n0
  · subst hkn
    rw [saveWith_fault_mkdtemp env body post hk]
    exact ⟨rfl, Old.refl s0 h0, h0.fresh, hdir⟩
  · have hf0 : f n0 = none := hone n0 (fun h => hkn h.symm)
    rw [saveWith_ok_mkdtemp env body post hf0]
    have hbf := runList_fault_in_range env f hk (body ++ [.replace]) (n0 + 1) (apply env s0 .mkdtemp)
      (by omega) (by simp; omega)
    rcases try_block (twoPhase_old_frozen env body [] (by simp) s0 h0 n0) f hb with ⟨_, hbo, _⟩ | ⟨hnf, _, _⟩
    · have hlast := runList_faulted_last env f _ _ _ hbf
      rcases hlast with ⟨hpos, q, hq⟩
      have hidx : n0 + 1 + (runList env f (body ++ [.replace]) (n0 + 1) (apply env s0 .mkdtemp)).steps.length
          = k + 1 := by
        have : n0 + 1 + (runList env f (body ++ [.replace]) (n0 + 1) (apply env s0 .mkdtemp)).steps.length - 1 = k := by
          by_cases hh : n0 + 1 + (runList env f (body ++ [.replace]) (n0 + 1)
              (apply env s0 .mkdtemp)).steps.length - 1 = k
          · exact hh
          · rw [hone _ hh] at hq; simp at hq
        omega
      have hc1 : f (k + 1) = none := hone _ (by omega)
      have hc2 : f (k + 1 + 1) = none := hone _ (by omega)
      simp only [hbf, Bool.true_or, if_true, hidx]
      rw [runList_cons_none env hc1, runList_cons_none env hc2]
      simp only [runList]
      have ho1 := old_apply env .removeTmp rfl hbo
      have ho2 := old_apply env .rmdirTmp rfl ho1
      refine ⟨trivial, ho2, ?_, ?_⟩ <;> simp [apply, upd]
    · rw [hbf] at hnf; simp at hnf


/-! ### `writeAt` algebra and the bytes of a complete save -/

theorem writeAt_nil (buf : Bytes) (pos : Nat) : writeAt buf pos [] = buf := by simp [writeAt]

theorem writeAt_ne (buf : Bytes) (pos : Nat) (a : Bytes) (h : a ≠ []) :
    writeAt buf pos a =
      (buf.take pos ++ List.replicate (pos - buf.length) 0) ++ a ++ buf.drop (pos + a.length) := by
  cases a with
  | nil => exact absurd rfl h
  | cons x xs => simp [writeAt]

theorem pad_length (buf : Bytes) (pos : Nat) :
    (buf.take pos ++ List.replicate (pos - buf.length) 0).length = pos := by
  simp [List.length_take]; omega

/-- write `b` right after `a` in a file of the shape `P ++ a ++ S` -/
theorem writeAt_after (P a S b : Bytes) (hb : b ≠ []) :
    writeAt (P ++ a ++ S) (P.length + a.length) b = P ++ a ++ b ++ S.drop b.length := by
  rw [writeAt_ne _ _ _ hb]
  have h1 : List.take (P.length + a.length) (P ++ a ++ S) = P ++ a :=
    List.take_left' (by simp)
  have h2 : P.length + a.length - (P ++ a ++ S).length = 0 := by simp
  have h3 : List.drop (P.length + a.length + b.length) (P ++ a ++ S) = S.drop b.length := by
    rw [List.drop_append]
    have : List.drop (P.length + a.length + b.length) (P ++ a) = [] := by
      apply List.drop_eq_nil_of_le; simp
    rw [this]
    simp
  rw [h1, h2, h3]
  simp

theorem writeAt_append (buf : Bytes) (pos : Nat) (a b : Bytes) :
    writeAt (writeAt buf pos a) (pos + a.length) b = writeAt buf pos (a ++ b) := by
  by_cases ha : a = []
  · subst ha; simp [writeAt_nil]
  by_cases hb : b = []
  · subst hb; simp [writeAt_nil]
  have hab : a ++ b ≠ [] := by simp [ha]
  rw [writeAt_ne _ _ _ ha, writeAt_ne _ _ _ hab]
  have hp := pad_length buf pos
  generalize List.take pos buf ++ List.replicate (pos - buf.length) 0 = P at hp
  subst hp
  rw [writeAt_after _ _ _ _ hb]
  simp [List.drop_drop, Nat.add_assoc]


/-- Fault-free execution of a list of effects. -/
def applyAll (env : Env) (es : List Eff) (s : St) : St := es.foldl (apply env) s

theorem applyAll_append (env : Env) (xs ys : List Eff) (s : St) :
    applyAll env (xs ++ ys) s = applyAll env ys (applyAll env xs s) := by
  simp [applyAll, List.foldl_append]

theorem runList_none_final (env : Env) :
    ∀ (es : List Eff) (n : Nat) (s : St),
      (runList env (fun _ => none) es n s).final = applyAll env es s
  | [], _, _ => by simp [runList, applyAll]
  | e :: es, n, s => by
    simp only [runList, applyAll, List.foldl_cons]
    exact runList_none_final env es (n + 1) (apply env s e)

/-- Successive `write`s through the open handle concatenate. -/
theorem writes_spec (env : Env) (t : Nat) :
    ∀ (chunks : List Bytes) (s : St), s.fd = some t →
      (applyAll env (chunks.map .write) s).fd = some t ∧
      (applyAll env (chunks.map .write) s).fs.file = s.fs.file ∧
      (applyAll env (chunks.map .write) s).fs.data t = writeAt (s.fs.data t) s.pos chunks.flatten ∧
      (applyAll env (chunks.map .write) s).pos = s.pos + chunks.flatten.length
  | [], s, h => by simp [applyAll, h, writeAt_nil]
  | c :: cs, s, h => by
    have ih := writes_spec env t cs (apply env s (.write c)) (by simp [apply, h])
    simp only [List.map_cons, applyAll, List.foldl_cons] at ih ⊢
    refine ⟨ih.1, ?_, ?_, ?_⟩
    · rw [ih.2.1]; simp [apply, h]
    · rw [ih.2.2.1]
      simp only [apply, h, upd_same, List.flatten_cons]
      exact writeAt_append _ _ _ _
    · rw [ih.2.2.2]
      simp [apply, h, Nat.add_assoc]

theorem tensorEffs_spec (env : Env) (t : Nat) (cb : Bool) (i : Nat) (x : Tensor) (s : St)
    (h : s.fd = some t) :
    (applyAll env (tensorEffs cb i x) s).fd = some t ∧
    (applyAll env (tensorEffs cb i x) s).fs.file = s.fs.file ∧
    (applyAll env (tensorEffs cb i x) s).fs.data t = writeAt (s.fs.data t) x.off x.chunks.flatten := by
  have key : ∀ s' : St, s'.fd = some t → s'.fs = s.fs →
      (applyAll env ([.seek x.off] ++ x.chunks.map .write) s').fd = some t ∧
      (applyAll env ([.seek x.off] ++ x.chunks.map .write) s').fs.file = s.fs.file ∧
      (applyAll env ([.seek x.off] ++ x.chunks.map .write) s').fs.data t =
        writeAt (s.fs.data t) x.off x.chunks.flatten := by
    intro s' hfd hfs
    rw [applyAll_append]
    have w := writes_spec env t x.chunks (applyAll env [.seek x.off] s')
      (by simp [applyAll, apply, hfd])
    refine ⟨w.1, ?_, ?_⟩
    · rw [w.2.1]; simp [applyAll, apply, hfs]
    · rw [w.2.2.1]; simp [applyAll, apply, hfs]
  unfold tensorEffs
  cases cb with
  | false => simpa using key s h rfl
  | true =>
    simp only [if_true, List.append_assoc]
    rw [applyAll_append]
    exact key _ (by simp [applyAll, apply, h]) (by simp [applyAll, apply])

theorem writeEffs_spec (env : Env) (t : Nat) (cb : Bool) :
    ∀ (ts : List Tensor) (i : Nat) (s : St), s.fd = some t →
      (applyAll env (writeEffs cb i ts) s).fd = some t ∧
      (applyAll env (writeEffs cb i ts) s).fs.file = s.fs.file ∧
      (applyAll env (writeEffs cb i ts) s).fs.data t =
        ts.foldl (fun b x => writeAt b x.off x.chunks.flatten) (s.fs.data t)
  | [], _, s, h => by simp [writeEffs, applyAll, h]
  | x :: ts, i, s, h => by
    simp only [writeEffs, applyAll_append, List.foldl_cons]
    have h1 := tensorEffs_spec env t cb i x s h
    have ih := writeEffs_spec env t cb ts (i + 1) _ h1.1
    refine ⟨ih.1, ?_, ?_⟩
    · rw [ih.2.1, h1.2.1]
    · rw [ih.2.2, h1.2.2]

theorem releases_spec (env : Env) :
    ∀ (is : List Nat) (s : St),
      (applyAll env (is.map .release) s).fs = s.fs ∧ (applyAll env (is.map .release) s).fd = s.fd
  | [], s => by simp [applyAll]
  | i :: is, s => by
    have ih := releases_spec env is (apply env s (.release i))
    simp only [List.map_cons, applyAll, List.foldl_cons] at ih ⊢
    exact ⟨by rw [ih.1]; simp [apply], by rw [ih.2]; simp [apply]⟩

/-- State at the end of the fault-free `try` body of the serial save, just before `os.replace`:
the temporary file is the fresh inode `s0.fs.next`, it holds `image tensors`, the handle is
closed. -/
theorem tryBody_end (cfg : Cfg) (s0 : St) (h0 : WF s0) :
    (applyAll cfg.env (tryBody cfg s0) (apply cfg.env s0 .mkdtemp)).fs.file .tmpFile = some s0.fs.next ∧
    (applyAll cfg.env (tryBody cfg s0) (apply cfg.env s0 .mkdtemp)).fs.data s0.fs.next = image cfg.tensors ∧
    (applyAll cfg.env (tryBody cfg s0) (apply cfg.env s0 .mkdtemp)).fd = none := by
  unfold tryBody
  simp only [applyAll_append]
  -- open
  have ho : (applyAll cfg.env [.openTmp] (apply cfg.env s0 .mkdtemp)).fd = some s0.fs.next ∧
      (applyAll cfg.env [.openTmp] (apply cfg.env s0 .mkdtemp)).fs.file .tmpFile = some s0.fs.next ∧
      (applyAll cfg.env [.openTmp] (apply cfg.env s0 .mkdtemp)).fs.data s0.fs.next = [] := by
    simp [applyAll, apply, h0.fresh]
  generalize applyAll cfg.env [.openTmp] (apply cfg.env s0 .mkdtemp) = sa at ho
  have hw := writeEffs_spec cfg.env s0.fs.next cfg.cb cfg.tensors 0 sa ho.1
  generalize applyAll cfg.env (writeEffs cfg.cb 0 cfg.tensors) sa = sb at hw
  have hfile : sb.fs.file .tmpFile = some s0.fs.next := by rw [hw.2.1]; exact ho.2.1
  have hdata : sb.fs.data s0.fs.next = image cfg.tensors := by rw [hw.2.2, ho.2.2]; rfl
  -- close
  have hc : (applyAll cfg.env [.closeTmp] sb).fs = sb.fs ∧ (applyAll cfg.env [.closeTmp] sb).fd = none := by
    simp [applyAll, apply]
  generalize applyAll cfg.env [.closeTmp] sb = sc at hc
  have hr := releases_spec cfg.env (overwritten cfg s0) sc
  generalize applyAll cfg.env ((overwritten cfg s0).map .release) sc = sd at hr
  have hfs : sd.fs = sb.fs := by rw [hr.1, hc.1]
  have hfd : sd.fd = none := by rw [hr.2, hc.2]
  split
  · -- copymode: permission bits only
    simp only [applyAll, List.foldl_cons, List.foldl_nil, apply]
    split
    · rename_i d tt hd ht
      simp only [hfs, hfile, hdata, hfd, and_self]
    · simp only [hfs, hfile, hdata, hfd, and_self]
  · simp only [applyAll, List.foldl_nil, hfs, hfile, hdata, hfd, and_self]


/-! ### The serial save as an instance of `saveWith` -/

theorem writeEffs_tmpOnly (cb : Bool) : ∀ (ts : List Tensor) (i : Nat), ∀ e ∈ writeEffs cb i ts, e.tmpOnly = true
  | [], _, e, he => by simp [writeEffs] at he
  | x :: ts, i, e, he => by
    simp only [writeEffs, tensorEffs, List.mem_append, List.mem_map] at he
    rcases he with ((he | he) | ⟨c, _, rfl⟩) | he
    · split at he <;> simp at he; subst he; rfl
    · simp at he; subst he; rfl
    · rfl
    · exact writeEffs_tmpOnly cb ts (i + 1) e he

theorem tryBody_tmpOnly (cfg : Cfg) (s0 : St) : ∀ e ∈ tryBody cfg s0, e.tmpOnly = true := by
  intro e he
  simp only [tryBody, List.mem_append, List.mem_map, List.mem_singleton] at he
  rcases he with (((rfl | he) | rfl) | ⟨i, _, rfl⟩) | he
  · rfl
  · exact writeEffs_tmpOnly cfg.cb cfg.tensors 0 e he
  · rfl
  · rfl
  · split at he <;> simp at he; subst he; rfl

theorem postEffs_noData (cfg : Cfg) (s0 : St) : ∀ e ∈ postEffs cfg s0, e.noData = true := by
  intro e he
  simp only [postEffs, List.mem_map] at he
  rcases he with ⟨i, _, rfl⟩
  rfl

/-- The state right after the successful `os.replace` of the serial save. -/
structure Replaced (cfg : Cfg) (s0 s3 : St) : Prop where
  dest : s3.fs.file (.user cfg.env.dest) = some s0.fs.next
  bytes : s3.fs.data s0.fs.next = image cfg.tensors
  others : ∀ n, n ≠ cfg.env.dest → s3.fs.file (.user n) = s0.fs.file (.user n)
  data : ∀ j, j < s0.fs.next → s3.fs.data j = s0.fs.data j
  mode : ∀ j, j < s0.fs.next → s3.fs.mode j = s0.fs.mode j
  next : s0.fs.next ≤ s3.fs.next
  tmp : s3.fs.file .tmpFile = none
  fd : s3.fd = none
  valid : s3.valid = s0.valid
  replaced : s3.replaced = true

theorem save_afterReplace (cfg : Cfg) (s0 : St) (h0 : WF s0) (n0 : Nat) :
    Replaced cfg s0 (afterReplace cfg.env (tryBody cfg s0) n0 s0) := by
  unfold afterReplace
  rw [runList_none_final]
  have he := tryBody_end cfg s0 h0
  have ho : Old s0 (applyAll cfg.env (tryBody cfg s0) (apply cfg.env s0 .mkdtemp)) := by
    rw [← runList_none_final cfg.env (tryBody cfg s0) (n0 + 1)]
    exact (runList_old cfg.env (fun _ => none) (tryBody cfg s0) (tryBody_tmpOnly cfg s0) (n0 + 1) _
      (old_apply cfg.env .mkdtemp rfl (Old.refl s0 h0))).1
  generalize applyAll cfg.env (tryBody cfg s0) (apply cfg.env s0 .mkdtemp) = s2 at he ho
  simp only [apply, he.1]
  refine ⟨by simp [upd], he.2.1, fun n hn => ?_, ho.data, ho.mode, ho.next, by simp [upd], he.2.2,
    ho.valid, rfl⟩
  simp [upd, hn, ho.user]


/-! ### Invalidation -/

/-- After the replace: frozen file system, and `_valid` flags only ever go from true to false,
and only for overwritten tensors. -/
structure PostV (cfg : Cfg) (s0 s3 s : St) : Prop where
  frozen : Frozen s3 s
  only : ∀ i, s.valid i = false → s0.valid i = false ∨ i ∈ invalidated cfg s0
  keep : ∀ i, s0.valid i = false → s.valid i = false

theorem twoPhase_save (cfg : Cfg) (s0 : St) (h0 : WF s0) (n0 : Nat) :
    TwoPhase cfg.env (tryBody cfg s0) (postEffs cfg s0) n0 s0 (Old s0)
      (PostV cfg s0 (afterReplace cfg.env (tryBody cfg s0) n0 s0)) where
  init := Old.refl s0 h0
  pre_apply := fun e he _ hs => old_apply cfg.env e he hs
  pre_partial := fun e p _ hs => old_partial cfg.env e p hs
  at_replace := by
    have hr := save_afterReplace cfg s0 h0 n0
    exact ⟨Frozen.refl _, fun i hi => Or.inl (by rw [← hr.valid]; exact hi),
      fun i hi => by rw [hr.valid]; exact hi⟩
  post_apply := by
    intro e he s hs
    simp only [List.mem_append, List.mem_cons, List.mem_singleton, postEffs, List.mem_map,
      List.not_mem_nil, or_false] at he
    rcases he with (rfl | rfl) | ⟨j, hj, rfl⟩
    · exact ⟨frozen_apply cfg.env .removeTmp rfl hs.frozen, hs.only, hs.keep⟩
    · refine ⟨frozen_apply cfg.env .rmdirTmp rfl hs.frozen, ?_, ?_⟩
      · intro i hi; apply hs.only i; simp only [apply] at hi; split at hi <;> exact hi
      · intro i hi; simp only [apply]; split <;> exact hs.keep i hi
    · refine ⟨frozen_apply cfg.env (.invalidate j) rfl hs.frozen, ?_, ?_⟩
      · intro i hi
        by_cases hij : i = j
        · subst hij; exact Or.inr hj
        · simp [apply, upd, hij] at hi; exact hs.only i hi
      · intro i hi
        by_cases hij : i = j
        · simp [apply, upd, hij]
        · simp [apply, upd, hij]; exact hs.keep i hi
  post_partial := by
    intro e he s p hs
    simp only [List.mem_append, List.mem_cons, List.mem_singleton, postEffs, List.mem_map,
      List.not_mem_nil, or_false] at he
    rcases he with (rfl | rfl) | ⟨j, _, rfl⟩ <;> exact hs

theorem runList_late (env : Env) (f : Nat → Option Nat) :
    ∀ (es : List Eff) (n : Nat) (s : St), (∀ m, n ≤ m → f m = none) →
      runList env f es n s = runList env (fun _ => none) es n s
  | [], _, _, _ => by simp [runList]
  | e :: es, n, s, h => by
    rw [runList_cons_none env (h n (Nat.le_refl n)), runList_cons_none env (f := fun _ => none) rfl]
    rw [runList_late env f es (n + 1) _ (fun m hm => h m (by omega))]

theorem invalidates_spec (env : Env) :
    ∀ (is : List Nat) (s : St) (i : Nat), i ∈ is → (applyAll env (is.map .invalidate) s).valid i = false
  | [], _, _, h => by simp at h
  | j :: is, s, i, h => by
    simp only [List.map_cons, applyAll, List.foldl_cons]
    by_cases hi : i ∈ is
    · exact invalidates_spec env is _ i hi
    · have hij : i = j := by simpa [hi] using h
      subst hij
      have keep : ∀ (is : List Nat) (s : St), s.valid i = false →
          (List.foldl (apply env) s (is.map .invalidate)).valid i = false := by
        intro is
        induction is with
        | nil => intro s hs; simpa using hs
        | cons k ks ih =>
          intro s hs
          simp only [List.map_cons, List.foldl_cons]
          apply ih
          by_cases hk : i = k <;> simp [apply, upd, hk, hs]
      exact keep is _ (by simp [apply])


/-- With no fault after `os.replace`, a serial save either raised with everything as before, or
returned normally with every tensor of `invalidated` invalidated. -/
theorem save_final_cases (cfg : Cfg) (s0 : St) (h0 : WF s0) (n0 : Nat) (f : Nat → Option Nat)
    (hlate : ∀ m, n0 + 1 + (tryBody cfg s0).length < m → f m = none) :
    ((save cfg f n0 s0).faulted = true ∧ Old s0 (save cfg f n0 s0).final) ∨
    ((save cfg f n0 s0).faulted = false ∧
      PostV cfg s0 (afterReplace cfg.env (tryBody cfg s0) n0 s0) (save cfg f n0 s0).final ∧
      ∀ i ∈ invalidated cfg s0, (save cfg f n0 s0).final.valid i = false) := by
  have tp := twoPhase_save cfg s0 h0 n0
  unfold save
  cases hf0 : f n0 with
  | some p =>
    rw [saveWith_fault_mkdtemp _ _ _ hf0]
    exact Or.inl ⟨rfl, Old.refl s0 h0⟩
  | none =>
    rw [saveWith_ok_mkdtemp _ _ _ hf0]
    rcases try_block tp f (tryBody_tmpOnly cfg s0) with ⟨hbf, hbo, _⟩ | ⟨hbf, hbe, _⟩
    · left
      simp only [hbf, Bool.true_or, if_true]
      exact ⟨trivial, (runList_pre tp f [.removeTmp, .rmdirTmp] cleanup_tmpOnly _ _ hbo).1⟩
    · right
      have hlen := runList_length_nofault cfg.env f _ _ _ hbf
      simp only [List.length_append, List.length_singleton] at hlen
      have hc := runList_late cfg.env f [.removeTmp, .rmdirTmp]
        (n0 + 1 + (runList cfg.env f (tryBody cfg s0 ++ [.replace]) (n0 + 1)
          (apply cfg.env s0 .mkdtemp)).steps.length)
        (runList cfg.env f (tryBody cfg s0 ++ [.replace]) (n0 + 1) (apply cfg.env s0 .mkdtemp)).final
        (fun m hm => hlate m (by omega))
      have hcf : (runList cfg.env f [.removeTmp, .rmdirTmp]
          (n0 + 1 + (runList cfg.env f (tryBody cfg s0 ++ [.replace]) (n0 + 1)
            (apply cfg.env s0 .mkdtemp)).steps.length)
          (runList cfg.env f (tryBody cfg s0 ++ [.replace]) (n0 + 1)
            (apply cfg.env s0 .mkdtemp)).final).faulted = false := by
        rw [hc]; exact runList_none_nofault _ _ _ _
      simp only [hbf, hcf, Bool.or_self, Bool.false_eq_true, if_false]
      have hpost0 : PostV cfg s0 (afterReplace cfg.env (tryBody cfg s0) n0 s0)
          (runList cfg.env f (tryBody cfg s0 ++ [.replace]) (n0 + 1) (apply cfg.env s0 .mkdtemp)).final := by
        rw [hbe]; exact tp.at_replace
      have hpc := (runList_post tp f [.removeTmp, .rmdirTmp] (fun e he => List.mem_append_left _ he)
        (n0 + 1 + (runList cfg.env f (tryBody cfg s0 ++ [.replace]) (n0 + 1)
          (apply cfg.env s0 .mkdtemp)).steps.length) _ hpost0).1
      generalize (runList cfg.env f [.removeTmp, .rmdirTmp]
          (n0 + 1 + (runList cfg.env f (tryBody cfg s0 ++ [.replace]) (n0 + 1)
            (apply cfg.env s0 .mkdtemp)).steps.length)
          (runList cfg.env f (tryBody cfg s0 ++ [.replace]) (n0 + 1)
            (apply cfg.env s0 .mkdtemp)).final) = c at hpc hcf
      have hclen : c.steps.length ≥ 0 := Nat.zero_le _
      have hd := runList_late cfg.env f (postEffs cfg s0)
        (n0 + 1 + (runList cfg.env f (tryBody cfg s0 ++ [.replace]) (n0 + 1)
          (apply cfg.env s0 .mkdtemp)).steps.length + c.steps.length) c.final
        (fun m hm => hlate m (by omega))
      rw [hd]
      refine ⟨runList_none_nofault _ _ _ _, ?_, ?_⟩
      · rw [← hd]
        exact (runList_post tp f (postEffs cfg s0) (fun e he => List.mem_append_right _ he) _ _ hpc).1
      · intro i hi
        rw [runList_none_final]
        exact invalidates_spec cfg.env (invalidated cfg s0) c.final i hi


/-! ### Frame of one save; the sharded loop -/

/-- Every named inode is below the allocation counter: an invariant of every effect. -/
def Named (s : St) : Prop := ∀ p i, s.fs.file p = some i → i < s.fs.next

theorem named_apply (env : Env) (e : Eff) (s : St) (h : Named s) : Named (apply env s e) := by
  cases e with
  | openTmp =>
    simp only [apply]
    split
    · exact h
    · intro p i hp
      simp only [upd] at hp
      split at hp
      · simp at hp; simp; omega
      · have := h p i hp; simp; omega
  | replace =>
    simp only [apply]
    split
    · rename_i t ht
      intro p i hp
      simp only [upd] at hp
      split at hp
      · simp at hp
      · split at hp
        · simp at hp; subst hp; exact h _ _ ht
        · exact h p i hp
    · exact h
  | removeTmp =>
    intro p i hp
    simp only [apply, upd] at hp
    split at hp
    · simp at hp
    · exact h p i hp
  | write bs => simp only [apply]; split <;> exact h
  | copymode => simp only [apply]; split <;> exact h
  | rmdirTmp => simp only [apply]; split <;> exact h
  | truncate n => simp only [apply]; split <;> exact h
  | openW w => simp only [apply]; split <;> exact h
  | seekW w o => simp only [apply]; split <;> exact h
  | writeW w bs => simp only [apply]; split <;> exact h
  | _ => exact h

theorem named_partial (env : Env) (e : Eff) (p : Nat) (s : St) (h : Named s) :
    Named (applyPartial env s e p) := by
  cases e <;> first | exact h | exact named_apply env _ s h

/-- A predicate kept by every effect of a class `ok` (and by their failures) holds throughout
`saveWith` when `mkdtemp`, the body, `replace`, the clean-up and `post` are all in the class. -/
theorem saveWith_inv_all (env : Env) (body post : List Eff) {P : St → Prop} (ok : Eff → Bool)
    (hbody : ∀ e ∈ body, ok e = true) (hpost : ∀ e ∈ post, ok e = true)
    (hfix : ok .mkdtemp = true ∧ ok .replace = true ∧ ok .removeTmp = true ∧ ok .rmdirTmp = true)
    (ha : ∀ e, ok e = true → ∀ s, P s → P (apply env s e))
    (hp : ∀ e, ok e = true → ∀ p s, P s → P (applyPartial env s e p))
    (f : Nat → Option Nat) (n0 : Nat) (s0 : St) (h : P s0) :
    P (saveWith env body post f n0 s0).final ∧ ∀ st ∈ (saveWith env body post f n0 s0).steps, P st.st := by
  have inv : ∀ (es : List Eff), (∀ e ∈ es, ok e = true) → ∀ n s, P s →
      P (runList env f es n s).final ∧ ∀ st ∈ (runList env f es n s).steps, P st.st :=
    fun es hes n s hs => runList_inv env f es n s hs (fun e he s hs => ha e (hes e he) s hs)
      (fun e he s p hs => hp e (hes e he) p s hs)
  have hA : ∀ e ∈ [Eff.mkdtemp], ok e = true := by
    intro e he; simp at he; subst he; exact hfix.1
  have hB : ∀ e ∈ body ++ [Eff.replace], ok e = true := by
    intro e he
    simp only [List.mem_append, List.mem_singleton] at he
    rcases he with he | rfl
    · exact hbody e he
    · exact hfix.2.1
  have hC : ∀ e ∈ [Eff.removeTmp, Eff.rmdirTmp], ok e = true := by
    intro e he; simp at he; rcases he with rfl | rfl
    · exact hfix.2.2.1
    · exact hfix.2.2.2
  have ra := inv [.mkdtemp] hA n0 s0 h
  unfold saveWith
  simp only []
  split
  · exact ra
  · have rb := inv (body ++ [.replace]) hB (n0 + 1) _ ra.1
    have rc := inv [.removeTmp, .rmdirTmp] hC
      (n0 + 1 + (runList env f (body ++ [.replace]) (n0 + 1) (runList env f [.mkdtemp] n0 s0).final).steps.length)
      _ rb.1
    split
    · refine ⟨rc.1, ?_⟩
      intro st hst
      simp only [List.mem_append] at hst
      rcases hst with (hst | hst) | hst
      · exact ra.2 st hst
      · exact rb.2 st hst
      · exact rc.2 st hst
    · have rd := inv post hpost
        (n0 + 1 + (runList env f (body ++ [.replace]) (n0 + 1) (runList env f [.mkdtemp] n0 s0).final).steps.length +
          (runList env f [.removeTmp, .rmdirTmp]
            (n0 + 1 + (runList env f (body ++ [.replace]) (n0 + 1) (runList env f [.mkdtemp] n0 s0).final).steps.length)
            (runList env f (body ++ [.replace]) (n0 + 1) (runList env f [.mkdtemp] n0 s0).final).final).steps.length)
        _ rc.1
      refine ⟨rd.1, ?_⟩
      intro st hst
      simp only [List.mem_append] at hst
      rcases hst with ((hst | hst) | hst) | hst
      · exact ra.2 st hst
      · exact rb.2 st hst
      · exact rc.2 st hst
      · exact rd.2 st hst

/-- Everything the caller can see except the destination `d` is as in `s`. -/
structure KeptBut (d : String) (s st : St) : Prop where
  file : ∀ n, n ≠ d → st.fs.file (.user n) = s.fs.file (.user n)
  data : ∀ j, j < s.fs.next → st.fs.data j = s.fs.data j
  mode : ∀ j, j < s.fs.next → st.fs.mode j = s.fs.mode j
  next : s.fs.next ≤ st.fs.next

theorem keptBut_of_old {d : String} {s st : St} (h : Old s st) : KeptBut d s st :=
  ⟨fun n _ => h.user n, h.data, h.mode, h.next⟩

theorem keptBut_of_post {cfg : Cfg} {s s3 st : St} (hr : Replaced cfg s s3) (h : Frozen s3 st) :
    KeptBut cfg.env.dest s st :=
  ⟨fun n hn => by rw [h.user, hr.others n hn], fun j hj => by rw [h.data, hr.data j hj],
   fun j hj => by rw [h.mode, hr.mode j hj], by rw [h.next]; exact hr.next⟩

/-- Frame of the serial save: in every visited state and at the end, every caller path other than
the destination, and every inode that existed, is untouched. -/
theorem save_kept (cfg : Cfg) (s : St) (hs : WF s) (n : Nat) (f : Nat → Option Nat) :
    (∀ st ∈ (save cfg f n s).steps, KeptBut cfg.env.dest s st.st) ∧
    KeptBut cfg.env.dest s (save cfg f n s).final := by
  have hr := save_afterReplace cfg s hs n
  have h := saveWith_two_phase (twoPhase_save cfg s hs n) (tryBody_tmpOnly cfg s) f
  constructor
  · intro st hst
    rcases h.1 st hst with h1 | h1
    · exact keptBut_of_old h1
    · exact keptBut_of_post hr h1.frozen
  · rcases h.2 with h1 | h1
    · exact keptBut_of_old h1
    · exact keptBut_of_post hr h1.frozen

/-- Effects of the serial writer and of the handlers: they never touch the workers' handles. -/
def Eff.noW : Eff → Bool
  | .openW _ => false
  | .seekW _ _ => false
  | .writeW _ _ => false
  | .closeW _ => false
  | _ => true

theorem wfd_apply (env : Env) (e : Eff) (he : e.noW = true) (s : St) : (apply env s e).wfd = s.wfd := by
  cases e <;> first | rfl | (simp only [apply]; split <;> rfl) | simp [Eff.noW] at he

theorem wfd_partial (env : Env) (e : Eff) (he : e.noW = true) (p : Nat) (s : St) :
    (applyPartial env s e p).wfd = s.wfd := by
  cases e <;> first | rfl | exact wfd_apply env _ rfl s | simp [Eff.noW] at he

theorem writeEffs_noW (cb : Bool) : ∀ (ts : List Tensor) (i : Nat), ∀ e ∈ writeEffs cb i ts, e.noW = true
  | [], _, e, he => by simp [writeEffs] at he
  | x :: ts, i, e, he => by
    simp only [writeEffs, tensorEffs, List.mem_append, List.mem_map] at he
    rcases he with ((he | he) | ⟨c, _, rfl⟩) | he
    · split at he <;> simp at he; subst he; rfl
    · simp at he; subst he; rfl
    · rfl
    · exact writeEffs_noW cb ts (i + 1) e he

theorem tryBody_noW (cfg : Cfg) (s0 : St) : ∀ e ∈ tryBody cfg s0, e.noW = true := by
  intro e he
  simp only [tryBody, List.mem_append, List.mem_map, List.mem_singleton] at he
  rcases he with (((rfl | he) | rfl) | ⟨i, _, rfl⟩) | he
  · rfl
  · exact writeEffs_noW cfg.cb cfg.tensors 0 e he
  · rfl
  · rfl
  · split at he <;> simp at he; subst he; rfl

theorem postEffs_noW (cfg : Cfg) (s0 : St) : ∀ e ∈ postEffs cfg s0, e.noW = true := by
  intro e he
  simp only [postEffs, List.mem_map] at he
  rcases he with ⟨i, _, rfl⟩
  rfl

/-- The serial save never touches the workers' handles. -/
theorem save_wfd (cfg : Cfg) (f : Nat → Option Nat) (n0 : Nat) (s0 : St) :
    (save cfg f n0 s0).final.wfd = s0.wfd :=
  (saveWith_inv_all cfg.env (tryBody cfg s0) (postEffs cfg s0) (P := fun s => s.wfd = s0.wfd) Eff.noW
    (tryBody_noW cfg s0) (postEffs_noW cfg s0) ⟨rfl, rfl, rfl, rfl⟩
    (fun e he s h => by rw [wfd_apply cfg.env e he s]; exact h)
    (fun e he p s h => by rw [wfd_partial cfg.env e he p s]; exact h) f n0 s0 rfl).1

/-- A save that returned normally ends after its replace. -/
theorem save_ok_post (cfg : Cfg) (s0 : St) (h0 : WF s0) (n0 : Nat) (f : Nat → Option Nat)
    (hok : (save cfg f n0 s0).faulted = false) :
    PostV cfg s0 (afterReplace cfg.env (tryBody cfg s0) n0 s0) (save cfg f n0 s0).final := by
  have tp := twoPhase_save cfg s0 h0 n0
  unfold save at hok ⊢
  cases hf0 : f n0 with
  | some p => rw [saveWith_fault_mkdtemp _ _ _ hf0] at hok; simp at hok
  | none =>
    rw [saveWith_ok_mkdtemp _ _ _ hf0] at hok ⊢
    rcases try_block tp f (tryBody_tmpOnly cfg s0) with ⟨hbf, _, _⟩ | ⟨hbf, hbe, _⟩
    · simp [hbf] at hok
    · have hpost0 : PostV cfg s0 (afterReplace cfg.env (tryBody cfg s0) n0 s0)
          (runList cfg.env f (tryBody cfg s0 ++ [.replace]) (n0 + 1) (apply cfg.env s0 .mkdtemp)).final := by
        rw [hbe]; exact tp.at_replace
      have hpc := (runList_post tp f [.removeTmp, .rmdirTmp] (fun e he => List.mem_append_left _ he)
        (n0 + 1 + (runList cfg.env f (tryBody cfg s0 ++ [.replace]) (n0 + 1)
          (apply cfg.env s0 .mkdtemp)).steps.length) _ hpost0).1
      simp only [hbf, Bool.false_or] at hok ⊢
      split
      · rename_i hcf; simp [hcf] at hok
      · exact (runList_post tp f (postEffs cfg s0) (fun e he => List.mem_append_right _ he) _ _ hpc).1

theorem save_ok_wf (cfg : Cfg) (s0 : St) (h0 : WF s0) (n0 : Nat) (f : Nat → Option Nat)
    (hok : (save cfg f n0 s0).faulted = false) : WF (save cfg f n0 s0).final := by
  have hp := save_ok_post cfg s0 h0 n0 f hok
  have hr := save_afterReplace cfg s0 h0 n0
  refine ⟨?_, hp.frozen.tmp hr.tmp, by rw [hp.frozen.fd, hr.fd], by rw [save_wfd]; exact h0.nowfd⟩
  exact (saveWith_inv_all cfg.env (tryBody cfg s0) (postEffs cfg s0) (P := Named) (fun _ => true)
    (fun _ _ => rfl) (fun _ _ => rfl) ⟨rfl, rfl, rfl, rfl⟩
    (fun e _ s h => named_apply cfg.env e s h) (fun e _ p s h => named_partial cfg.env e p s h)
    f n0 s0 h0.named).1

/-- What existed before is still there, same inode, same bytes, same mode. -/
structure Kept (s0 s : St) : Prop where
  file : ∀ n i, s0.fs.file (.user n) = some i → s.fs.file (.user n) = some i
  data : ∀ j, j < s0.fs.next → s.fs.data j = s0.fs.data j
  mode : ∀ j, j < s0.fs.next → s.fs.mode j = s0.fs.mode j
  next : s0.fs.next ≤ s.fs.next

theorem Kept.refl (s : St) : Kept s s := ⟨fun _ _ h => h, fun _ _ => rfl, fun _ _ => rfl, Nat.le_refl _⟩

theorem kept_trans {d : String} {s0 s st : St} (hd : s0.fs.file (.user d) = none) (h1 : Kept s0 s)
    (h2 : KeptBut d s st) : Kept s0 st := by
  refine ⟨fun n i hn => ?_, fun j hj => ?_, fun j hj => ?_, Nat.le_trans h1.next h2.next⟩
  · have : n ≠ d := by intro h; subst h; rw [hd] at hn; simp at hn
    rw [h2.file n this]; exact h1.file n i hn
  · rw [h2.data j (Nat.lt_of_lt_of_le hj h1.next), h1.data j hj]
  · rw [h2.mode j (Nat.lt_of_lt_of_le hj h1.next), h1.mode j hj]

theorem shardLoop_kept (newMode : Nat) (cb : Bool) (f : Nat → Option Nat) (s0 : St) :
    ∀ (jobs : List (String × List Tensor)) (n : Nat) (s : St), WF s → Kept s0 s →
      (∀ j ∈ jobs, s0.fs.file (.user j.1) = none) →
      (∀ st ∈ (shardLoop newMode cb f jobs n s).steps, Kept s0 st.st) ∧
      Kept s0 (shardLoop newMode cb f jobs n s).final
  | [], _, s, _, hk, _ => by simp [shardLoop, hk]
  | (d, ts) :: rest, n, s, hs, hk, hj => by
    have hd : s0.fs.file (.user d) = none := hj (d, ts) (by simp)
    have hsv := save_kept ⟨⟨d, newMode⟩, ts, cb⟩ s hs n f
    simp only [shardLoop]
    split
    · exact ⟨fun st hst => kept_trans hd hk (hsv.1 st hst), kept_trans hd hk hsv.2⟩
    · rename_i hok
      have hok' : (save ⟨⟨d, newMode⟩, ts, cb⟩ f n s).faulted = false := by simpa using hok
      have hwf := save_ok_wf ⟨⟨d, newMode⟩, ts, cb⟩ s hs n f hok'
      have ih := shardLoop_kept newMode cb f s0 rest
        (n + (save ⟨⟨d, newMode⟩, ts, cb⟩ f n s).steps.length) _ hwf (kept_trans hd hk hsv.2)
        (fun j hjm => hj j (by simp [hjm]))
      refine ⟨?_, ih.2⟩
      intro st hst
      simp only [List.mem_append] at hst
      rcases hst with hst | hst
      · exact kept_trans hd hk (hsv.1 st hst)
      · exact ih.1 st hst


/-! ### `unload_from_model`: loading the small external tensors first -/

/-- The load phase touches neither the file system nor `_valid`. -/
structure SameFS (s0 s : St) : Prop where
  fs : s.fs = s0.fs
  fd : s.fd = s0.fd
  valid : s.valid = s0.valid
  replaced : s.replaced = s0.replaced
  wfd : s.wfd = s0.wfd

theorem loadEffs_mem : ∀ (small : List (Nat × Ext)) (e : Eff), e ∈ loadEffs small →
    (∃ i x, e = .loadSmall i x) ∨ (∃ i, e = .release i)
  | [], e, h => by simp [loadEffs] at h
  | (i, x) :: r, e, h => by
    simp only [loadEffs, List.mem_cons] at h
    rcases h with rfl | rfl | h
    · exact Or.inl ⟨i, x, rfl⟩
    · exact Or.inr ⟨i, rfl⟩
    · exact loadEffs_mem r e h

theorem load_phase (env : Env) (f : Nat → Option Nat) (small : List (Nat × Ext)) (n : Nat) (s0 : St) :
    SameFS s0 (runList env f (loadEffs small) n s0).final ∧
    ∀ st ∈ (runList env f (loadEffs small) n s0).steps, SameFS s0 st.st := by
  refine runList_inv env f (loadEffs small) n s0 ⟨rfl, rfl, rfl, rfl, rfl⟩ ?_ ?_
  · intro e he s hs
    rcases loadEffs_mem small e he with ⟨i, x, rfl⟩ | ⟨i, rfl⟩
    · exact ⟨hs.fs, hs.fd, hs.valid, hs.replaced, hs.wfd⟩
    · exact ⟨hs.fs, hs.fd, hs.valid, hs.replaced, hs.wfd⟩
  · intro e he s p hs
    rcases loadEffs_mem small e he with ⟨i, x, rfl⟩ | ⟨i, rfl⟩ <;> exact hs

theorem sameFS_wf {s0 s : St} (h0 : WF s0) (h : SameFS s0 s) : WF s :=
  ⟨by rw [h.fs]; exact h0.named, by rw [h.fs]; exact h0.fresh, by rw [h.fd]; exact h0.nofd,
   by rw [h.wfd]; exact h0.nowfd⟩

theorem sameFS_content {s0 s : St} (h : SameFS s0 s) (p : Path) : content s p = content s0 p := by
  simp [content, h.fs]

theorem tryBody_congr (cfg : Cfg) {s0 s : St} (h : s.fs = s0.fs) : tryBody cfg s = tryBody cfg s0 := by
  simp [tryBody, overwritten, h]


/-- Effects that leave the memory copies alone: everything except `loadSmall`. -/
def Eff.noLoad : Eff → Bool
  | .loadSmall _ _ => false
  | _ => true

theorem mem_apply (env : Env) (e : Eff) (he : e.noLoad = true) (s : St) : (apply env s e).mem = s.mem := by
  cases e <;> first | rfl | (simp only [apply]; split <;> rfl) | simp [Eff.noLoad] at he

theorem mem_partial (env : Env) (e : Eff) (he : e.noLoad = true) (p : Nat) (s : St) :
    (applyPartial env s e p).mem = s.mem := by
  cases e <;> first | rfl | exact mem_apply env _ rfl s

theorem tryBody_noLoad (cfg : Cfg) (s0 : St) : ∀ e ∈ tryBody cfg s0, e.noLoad = true := by
  intro e he
  have := tryBody_tmpOnly cfg s0 e he
  cases e <;> first | rfl | simp [Eff.tmpOnly] at this

theorem postEffs_noLoad (cfg : Cfg) (s0 : St) : ∀ e ∈ postEffs cfg s0, e.noLoad = true := by
  intro e he
  simp only [postEffs, List.mem_map] at he
  rcases he with ⟨i, _, rfl⟩
  rfl

/-- The save never touches the memory copies. -/
theorem save_mem (cfg : Cfg) (f : Nat → Option Nat) (n0 : Nat) (s0 : St) :
    (save cfg f n0 s0).final.mem = s0.mem ∧ ∀ st ∈ (save cfg f n0 s0).steps, st.st.mem = s0.mem :=
  saveWith_inv_all cfg.env (tryBody cfg s0) (postEffs cfg s0) (P := fun s => s.mem = s0.mem) Eff.noLoad
    (tryBody_noLoad cfg s0) (postEffs_noLoad cfg s0) ⟨rfl, rfl, rfl, rfl⟩
    (fun e he s h => by rw [mem_apply cfg.env e he s]; exact h)
    (fun e he p s h => by rw [mem_partial cfg.env e he p s]; exact h) f n0 s0 rfl

theorem readT_congr {s0 s : St} (i : Nat) (e : Ext) (hfs : s.fs = s0.fs) (hv : s.valid = s0.valid)
    (hm : s.mapped i = s0.mapped i) : readT s i e = readT s0 i e := by
  simp [readT, hfs, hv, hm]

/-- After the fault-free load phase every small tensor's memory copy is what the tensor read in
the state the phase started from (ids pairwise distinct). -/
theorem loads_spec (env : Env) (s0 : St) :
    ∀ (small : List (Nat × Ext)) (s : St), (small.map (·.1)).Nodup → s.fs = s0.fs → s.valid = s0.valid →
      (∀ p ∈ small, s.mapped p.1 = s0.mapped p.1) →
      (∀ p ∈ small, (applyAll env (loadEffs small) s).mem p.1 = readT s0 p.1 p.2) ∧
      (∀ k, k ∉ small.map (·.1) → (applyAll env (loadEffs small) s).mem k = s.mem k)
  | [], s, _, _, _, _ => by simp [loadEffs, applyAll]
  | (i, e) :: r, s, hnd, hfs, hv, hm => by
    simp only [List.map_cons, List.nodup_cons] at hnd
    have hstep : ∀ s1, s1 = apply env (apply env s (.loadSmall i e)) (.release i) →
        s1.fs = s0.fs ∧ s1.valid = s0.valid ∧ (∀ p ∈ r, s1.mapped p.1 = s0.mapped p.1) ∧
        s1.mem i = readT s0 i e ∧ (∀ k, k ≠ i → s1.mem k = s.mem k) := by
      intro s1 h1
      subst h1
      refine ⟨by simpa [apply] using hfs, by simpa [apply] using hv, ?_, ?_, ?_⟩
      · intro p hp
        have hne : p.1 ≠ i := by
          intro h; apply hnd.1; rw [← h]; exact List.mem_map_of_mem hp
        simp only [apply, upd, hne, if_false]
        exact hm p (by simp [hp])
      · simp only [apply, upd_same]
        exact readT_congr i e hfs hv (hm (i, e) (by simp))
      · intro k hk; simp [apply, upd, hk]
    have h1 := hstep _ rfl
    have ih := loads_spec env s0 r _ hnd.2 h1.1 h1.2.1 h1.2.2.1
    simp only [loadEffs, applyAll, List.foldl_cons] at ih ⊢
    constructor
    · intro p hp
      simp only [List.mem_cons] at hp
      rcases hp with rfl | hp
      · rw [ih.2 _ hnd.1]; exact h1.2.2.2.1
      · exact ih.1 p hp
    · intro k hk
      simp only [List.map_cons, List.mem_cons, not_or] at hk
      rw [ih.2 k hk.2]; exact h1.2.2.2.2 k hk.1


/-! ### What `overwritten` / `invalidated` contain; the load-first step (helper lemmas, not property theorems) -/

/-- Membership in `overwritten` means what `_write_external_data` 464-469 computes: the tensor at
that position is external and its path and the destination are the same file (same inode). -/
theorem overwritten_spec (fs : FS) (dest : String) :
    ∀ (ts : List Tensor) (b i : Nat), i ∈ overwrittenFrom fs dest b ts ↔
      ∃ t e, ts[i - b]? = some t ∧ b ≤ i ∧ t.ext = some e ∧
        sameFile fs (.user e.path) (.user dest) = true
  | [], b, i => by simp [overwrittenFrom]
  | t :: ts, b, i => by
    simp only [overwrittenFrom, List.mem_append]
    rw [overwritten_spec fs dest ts (b + 1) i]
    constructor
    · rintro (h | ⟨t', e, h1, h2, h3, h4⟩)
      · cases he : t.ext with
        | none => simp [he] at h
        | some e =>
          simp only [he] at h
          split at h
          · rename_i hs
            simp at h; subst h
            exact ⟨t, e, by simp, Nat.le_refl _, he, hs⟩
          · simp at h
      · refine ⟨t', e, ?_, by omega, h3, h4⟩
        have : i - b = (i - (b + 1)) + 1 := by omega
        rw [this]; simpa using h1
    · rintro ⟨t', e, h1, h2, h3, h4⟩
      by_cases hib : i = b
      · left
        subst hib
        simp at h1; subst h1
        simp [h3, h4]
      · right
        refine ⟨t', e, ?_, by omega, h3, h4⟩
        have : i - b = (i - (b + 1)) + 1 := by omega
        rw [this] at h1; simpa using h1

/-- Membership in `invalidated`: the tensor at that position is external, its path and the
destination were the same file before the save, and its path *is* the destination name. -/
theorem invalidated_spec (fs : FS) (dest : String) :
    ∀ (ts : List Tensor) (b i : Nat), i ∈ invalidatedFrom fs dest b ts ↔
      ∃ t e, ts[i - b]? = some t ∧ b ≤ i ∧ t.ext = some e ∧
        sameFile fs (.user e.path) (.user dest) = true ∧ e.path = dest
  | [], b, i => by simp [invalidatedFrom]
  | t :: ts, b, i => by
    simp only [invalidatedFrom, List.mem_append]
    rw [invalidated_spec fs dest ts (b + 1) i]
    constructor
    · rintro (h | ⟨t', e, h1, h2, h3, h4⟩)
      · cases he : t.ext with
        | none => simp [he] at h
        | some e =>
          simp only [he] at h
          split at h
          · rename_i hs
            simp at h; subst h
            simp only [Bool.and_eq_true, beq_iff_eq] at hs
            exact ⟨t, e, by simp, Nat.le_refl _, he, hs.1, hs.2⟩
          · simp at h
      · refine ⟨t', e, ?_, by omega, h3, h4⟩
        have : i - b = (i - (b + 1)) + 1 := by omega
        rw [this]; simpa using h1
    · rintro ⟨t', e, h1, h2, h3, h4, h5⟩
      by_cases hib : i = b
      · left
        subst hib
        simp at h1; subst h1
        rw [h5] at h4
        simp [h3, h4, h5]
      · right
        refine ⟨t', e, ?_, by omega, h3, h4, h5⟩
        have : i - b = (i - (b + 1)) + 1 := by omega
        rw [this] at h1; simpa using h1

/-- Every invalidated tensor is one of the collected (released) ones. -/
theorem invalidated_sub (fs : FS) (dest : String) (ts : List Tensor) (b i : Nat)
    (h : i ∈ invalidatedFrom fs dest b ts) : i ∈ overwrittenFrom fs dest b ts := by
  rcases (invalidated_spec fs dest ts b i).mp h with ⟨t, e, h1, h2, h3, h4, _⟩
  exact (overwritten_spec fs dest ts b i).mpr ⟨t, e, h1, h2, h3, h4⟩

/-- `small_loaded_first` (the mechanism of `unload_from_model` 1058-1065): when the load
phase completes, the memory copy of every small external tensor is what the tensor read *before*
the save started — in every later state, whatever then happens to the data file (the save never
touches the copies), for every fault assignment of the save. -/
theorem small_loaded_first (cfg : Cfg) (small : List (Nat × Ext))
    (hnd : (small.map (·.1)).Nodup) (s0 : St) (f : Nat → Option Nat)
    (hok : (runList cfg.env f (loadEffs small) 0 s0).faulted = false) :
    ∀ p ∈ small, (unload cfg small f s0).final.mem p.1 = readT s0 p.1 p.2 := by
  intro p hp
  have hl := loads_spec cfg.env s0 small s0 hnd rfl rfl (fun _ _ => rfl)
  have hfin : (runList cfg.env f (loadEffs small) 0 s0).final = applyAll cfg.env (loadEffs small) s0 := by
    rw [runList_nofault cfg.env f _ _ _ hok, runList_none_final]
  unfold unload
  simp only [hok, Bool.false_eq_true, if_false]
  rw [(save_mem cfg f _ _).1, hfin]
  exact hl.1 p hp


/-! ### Any fault at or before `os.replace` -/

/-- Some effect at or before `os.replace` fails (whatever else fails, before or after, including in
the handlers): the exception leaves and every visited state, and the final one, is `Old`. -/
theorem saveWith_early_fault (env : Env) (body post : List Eff) (hb : ∀ e ∈ body, e.tmpOnly = true)
    (s0 : St) (h0 : WF s0) (n0 : Nat) (f : Nat → Option Nat) (k p : Nat) (hk : f k = some p)
    (hlo : n0 ≤ k) (hhi : k ≤ n0 + 1 + body.length) :
    (saveWith env body post f n0 s0).faulted = true ∧ Old s0 (saveWith env body post f n0 s0).final ∧
    ∀ st ∈ (saveWith env body post f n0 s0).steps, Old s0 st.st := by
  cases hf0 : f n0 with
  | some q =>
    rw [saveWith_fault_mkdtemp env body post hf0]
    refine ⟨rfl, Old.refl s0 h0, ?_⟩
    intro st hst
    simp only [List.mem_singleton] at hst
    subst hst
    exact Old.refl s0 h0
  | none =>
    have hkn : k ≠ n0 := by intro h; rw [h, hf0] at hk; simp at hk
    rw [saveWith_ok_mkdtemp env body post hf0]
    have tp := twoPhase_old_frozen env body [] (by simp) s0 h0 n0
    have hbf := runList_fault_in_range env f hk (body ++ [.replace]) (n0 + 1) (apply env s0 .mkdtemp)
      (by omega) (by simp; omega)
    have h1 : Old s0 (apply env s0 .mkdtemp) := old_apply env .mkdtemp rfl (Old.refl s0 h0)
    rcases try_block tp f hb with ⟨_, hbo, hbs⟩ | ⟨hnf, _, _⟩
    · simp only [hbf, Bool.true_or, if_true]
      have hc := runList_old env f [.removeTmp, .rmdirTmp] cleanup_tmpOnly
        (n0 + 1 + (runList env f (body ++ [.replace]) (n0 + 1) (apply env s0 .mkdtemp)).steps.length) _ hbo
      refine ⟨trivial, hc.1, ?_⟩
      intro st hst
      simp only [List.mem_cons, List.mem_append] at hst
      rcases hst with rfl | hst | hst
      · exact h1
      · exact hbs st hst
      · exact hc.2 st hst
    · rw [hbf] at hnf; simp at hnf

theorem tryBodyWith_tmpOnly (cfg : Cfg) (s0 : St) (writer : List Eff) (hw : ∀ e ∈ writer, e.tmpOnly = true) :
    ∀ e ∈ tryBodyWith cfg s0 writer, e.tmpOnly = true := by
  intro e he
  simp only [tryBodyWith, List.mem_append, List.mem_map] at he
  rcases he with (he | ⟨i, _, rfl⟩) | he
  · exact hw e he
  · rfl
  · split at he <;> simp at he; subst he; rfl

/-- A block that did not fault met no fault index. -/
theorem runList_nofault_none (env : Env) (f : Nat → Option Nat) :
    ∀ (es : List Eff) (n : Nat) (s : St), (runList env f es n s).faulted = false →
      ∀ j, n ≤ j → j < n + es.length → f j = none
  | [], _, _, _, j, h1, h2 => by simp at h2; omega
  | e :: es, n, s, h, j, h1, h2 => by
    cases hn : f n with
    | some q => rw [runList_cons_some env hn] at h; simp at h
    | none =>
      rw [runList_cons_none env hn] at h
      by_cases hj : j = n
      · rw [hj]; exact hn
      · exact runList_nofault_none env f es (n + 1) _ h j (by omega) (by simp at h2; omega)

end IrVerif.AtomicSave

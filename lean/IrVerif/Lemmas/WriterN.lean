/-
Helper development for C09, general (nested) writer model `IrVerif.WriterN`: weighted sums over the
task list and `StepRel`, the case-by-case description of `step`.
-/
import IrVerif.Model.WriterN
namespace IrVerif.WriterN

/-! ### weighted sums over a list (tasks, pools) -/

variable {α : Type}

/-- `wsum f k l = Σ_j f (k+j) l[j]` -/
def wsum (f : Nat → α → Nat) : Nat → List α → Nat
  | _, [] => 0
  | k, p :: ps => f k p + wsum f (k + 1) ps

theorem wsum_set (f : Nat → α → Nat) : ∀ (l : List α) (k i : Nat) (p x : α),
    l[i]? = some p → wsum f k (l.set i x) + f (k + i) p = wsum f k l + f (k + i) x
  | [], _, _, _, _, h => by simp at h
  | q :: qs, k, 0, p, x, h => by
      simp at h; subst h; simp [wsum]; omega
  | q :: qs, k, i + 1, p, x, h => by
      simp at h
      have := wsum_set f qs (k + 1) i p x h
      simp only [List.set_cons_succ, wsum]
      have e : k + 1 + i = k + (i + 1) := by omega
      rw [e] at this; omega

theorem wsum_set0 (f : Nat → α → Nat) (l : List α) (i : Nat) (p x : α)
    (h : l[i]? = some p) : wsum f 0 (l.set i x) + f i p = wsum f 0 l + f i x := by
  simpa using wsum_set f l 0 i p x h

theorem wsum_map (f : Nat → α → Nat) (g : α → α) (hg : ∀ i p, f i (g p) = f i p) :
    ∀ (l : List α) (k : Nat), wsum f k (l.map g) = wsum f k l
  | [], _ => rfl
  | q :: qs, k => by simp [wsum, hg, wsum_map f g hg qs (k + 1)]

theorem wsum_replicate (f : Nat → α → Nat) (p : α) (hp : ∀ i, f i p = 0) :
    ∀ (n k : Nat), wsum f k (List.replicate n p) = 0
  | 0, _ => rfl
  | n + 1, k => by simp [List.replicate_succ, wsum, hp, wsum_replicate f p hp n (k + 1)]

theorem wsum_ge (f : Nat → α → Nat) : ∀ (l : List α) (k i : Nat) (p : α),
    l[i]? = some p → f (k + i) p ≤ wsum f k l
  | [], _, _, _, h => by simp at h
  | q :: qs, k, 0, p, h => by simp at h; subst h; simp [wsum]
  | q :: qs, k, i + 1, p, h => by
      simp at h
      have := wsum_ge f qs (k + 1) i p h
      have e : k + 1 + i = k + (i + 1) := by omega
      rw [e] at this; simp only [wsum]; omega

theorem wsum_ge0 (f : Nat → α → Nat) (l : List α) (i : Nat) (p : α) (h : l[i]? = some p) :
    f i p ≤ wsum f 0 l := by simpa using wsum_ge f l 0 i p h

/-- two distinct positions -/
theorem wsum_ge2 (f : Nat → α → Nat) : ∀ (l : List α) (k i j : Nat) (p q : α),
    i < j → l[i]? = some p → l[j]? = some q → f (k + i) p + f (k + j) q ≤ wsum f k l
  | [], _, _, _, _, _, _, h, _ => by simp at h
  | r :: rs, k, 0, j + 1, p, q, _, hi, hj => by
      simp at hi hj; subst hi
      have := wsum_ge f rs (k + 1) j q hj
      have e : k + 1 + j = k + (j + 1) := by omega
      rw [e] at this; simp only [wsum, Nat.add_zero]; omega
  | r :: rs, k, i + 1, j + 1, p, q, hij, hi, hj => by
      simp at hi hj
      have := wsum_ge2 f rs (k + 1) i j p q (by omega) hi hj
      have e1 : k + 1 + i = k + (i + 1) := by omega
      have e2 : k + 1 + j = k + (j + 1) := by omega
      rw [e1, e2] at this; simp only [wsum]; omega

theorem wsum_eq_zero (f : Nat → α → Nat) : ∀ (l : List α) (k : Nat),
    (∀ i p, l[i]? = some p → f (k + i) p = 0) → wsum f k l = 0
  | [], _, _ => rfl
  | q :: qs, k, h => by
      have h0 := h 0 q (by simp)
      have := wsum_eq_zero f qs (k + 1) (fun i p hi => by
        have := h (i + 1) p (by simpa using hi)
        have e : k + 1 + i = k + (i + 1) := by omega
        rw [e]; exact this)
      simp only [wsum]; simp at h0; omega

theorem wsum_le_of_le (f g : Nat → α → Nat) (hfg : ∀ i p, f i p ≤ g i p) :
    ∀ (l : List α) (k : Nat), wsum f k l ≤ wsum g k l
  | [], _ => Nat.le_refl _
  | q :: qs, k => by
      have := wsum_le_of_le f g hfg qs (k + 1)
      have := hfg k q
      simp only [wsum]; omega

theorem wsum_add (f g : Nat → α → Nat) :
    ∀ (l : List α) (k : Nat), wsum (fun i p => f i p + g i p) k l = wsum f k l + wsum g k l
  | [], _ => rfl
  | q :: qs, k => by
      have := wsum_add f g qs (k + 1)
      simp only [wsum]; omega

theorem wsum_le_length (f : Nat → α → Nat) (c : Nat) (hf : ∀ i p, f i p ≤ c) :
    ∀ (l : List α) (k : Nat), wsum f k l ≤ c * l.length
  | [], _ => by simp [wsum]
  | q :: qs, k => by
      have := wsum_le_length f c hf qs (k + 1)
      have := hf k q
      simp only [wsum, List.length_cons, Nat.mul_succ]; omega

/-! ### the steps, case by case -/

inductive StepRel (cfg : Cfg) (s : State) : Label → State → Prop
  | submit (q c k j : Nat) (P : PoolSt) : s.pools[q]? = some P → P.owner = .submit k →
      (cfg.pool q).jobs[k]? = some j →
      StepRel cfg s (.owner q c)
        { s with pools := s.pools.set q ({ P with
            queue := P.queue ++ [j]
            owner := if k + 1 < (cfg.pool q).jobs.length then .submit (k + 1) else .collect } : PoolSt) }
  | collect (q c j : Nat) (ok : Bool) (P : PoolSt) : s.pools[q]? = some P → P.owner = .collect →
      ((cfg.pool q).asCompleted = true ∧ j = c ∧ P.collected.contains j = false ∧
          (cfg.pool q).jobs.contains j = true
        ∨ (cfg.pool q).asCompleted = false ∧ (cfg.pool q).jobs[P.collected.length]? = some j) →
      s.futs[j]? = some (if ok then .ok else .err) →
      StepRel cfg s (.owner q c) (collectOne cfg s q P j ok)
  | joinRoot (q c : Nat) (e : Bool) (P : PoolSt) : s.pools[q]? = some P → P.owner = .join e →
      P.exited = (cfg.pool q).size → (cfg.pool q).parent = none →
      StepRel cfg s (.owner q c) { s with pools := s.pools.set q { P with owner := .closed e } }
  | joinSub (q c : Nat) (e : Bool) (P : PoolSt) (jp : Nat) : s.pools[q]? = some P →
      P.owner = .join e → P.exited = (cfg.pool q).size → (cfg.pool q).parent = some jp →
      StepRel cfg s (.owner q c)
        { s with pools := addIdle (s.pools.set q { P with owner := .closed e }) (cfg.jobc jp).pool
                 futs := s.futs.set jp (if e then .err else .ok) }
  | takeSerial (q j : Nat) (rest : List Nat) (P : PoolSt) : s.pools[q]? = some P →
      P.queue = j :: rest → P.idle ≠ 0 → (cfg.jobc j).sub = none →
      StepRel cfg s (.take q)
        { s with pools := s.pools.set q { P with queue := rest, idle := P.idle - 1 }
                 futs := s.futs.set j .running
                 tasks := s.tasks.set (cfg.jobc j).start (firstPc cfg q) }
  | takeSub (q j : Nat) (rest : List Nat) (P : PoolSt) (q' : Nat) : s.pools[q]? = some P →
      P.queue = j :: rest → P.idle ≠ 0 → (cfg.jobc j).sub = some q' →
      StepRel cfg s (.take q)
        { s with pools := createPool cfg (s.pools.set q { P with queue := rest, idle := P.idle - 1 }) q'
                 futs := s.futs.set j .running }
  | exit (q : Nat) (P : PoolSt) : s.pools[q]? = some P → P.queue = [] → P.shutdown = true →
      P.idle > 0 →
      StepRel cfg s (.exit q)
        { s with pools := s.pools.set q { P with idle := P.idle - 1, exited := P.exited + 1 } }
  | cbAcqIn (i : Nat) : s.tasks[i]? = some .cbAcqIn → s.cbIn.getD (cfg.poolOf i) false = false →
      StepRel cfg s (.task i)
        { s with cbIn := s.cbIn.set (cfg.poolOf i) true, tasks := s.tasks.set i .cbAcq }
  | cbAcq (i : Nat) : s.tasks[i]? = some .cbAcq → s.cbLock = false →
      StepRel cfg s (.task i) { s with cbLock := true, tasks := s.tasks.set i .cbBody }
  | cbFail (i : Nat) : s.tasks[i]? = some .cbBody → cfg.cbFails i = true →
      StepRel cfg s (.task i)
        (finishTask cfg { s with log := s.log ++ [i], cbLock := false
                                 cbIn := if (cfg.pool (cfg.poolOf i)).innerCb
                                   then s.cbIn.set (cfg.poolOf i) false else s.cbIn
                                 tLocks := s.tLocks.set (cfg.obj i) false } i false)
  | cbOk (i : Nat) : s.tasks[i]? = some .cbBody → cfg.cbFails i = false →
      StepRel cfg s (.task i)
        { s with log := s.log ++ [i], cbLock := false
                 cbIn := if (cfg.pool (cfg.poolOf i)).innerCb
                   then s.cbIn.set (cfg.poolOf i) false else s.cbIn
                 tasks := s.tasks.set i .bAcq }
  | tAcq (i : Nat) : s.tasks[i]? = some .tAcq → s.tLocks.getD (cfg.obj i) false = false →
      StepRel cfg s (.task i)
        { s with tLocks := s.tLocks.set (cfg.obj i) true
                 tasks := s.tasks.set i (afterT cfg (cfg.poolOf i)) }
  | bTry (i : Nat) (p : Pc) : s.tasks[i]? = some p → (p = .bAcq ∨ p = .woken) →
      StepRel cfg s (.task i) (budgetTry cfg s i)
  | writeFail (i : Nat) : s.tasks[i]? = some .write → cfg.fails i = true →
      StepRel cfg s (.task i) { s with tasks := s.tasks.set i (.bRel false) }
  | writeOk (i : Nat) : s.tasks[i]? = some .write → cfg.fails i = false →
      StepRel cfg s (.task i)
        { s with files := writeTask cfg s.files i, tasks := s.tasks.set i (.bRel true) }
  | bRel (i : Nat) (ok : Bool) : s.tasks[i]? = some (.bRel ok) →
      StepRel cfg s (.task i) (budgetRelease cfg s i ok)

theorem futDone_eq {s : State} {j : Nat} {b : Bool} (h : futDone s j = some b) :
    s.futs[j]? = some (if b then .ok else .err) := by
  unfold futDone at h
  split at h <;> simp_all

theorem stepRel_of_step {cfg : Cfg} {s s' : State} {l : Label} (h : step cfg s l = some s') :
    StepRel cfg s l s' := by
  cases l with
  | owner q c =>
      simp only [step, stepOwner] at h
      split at h
      · simp at h
      · rename_i P hP
        split at h
        · simp at h
        · rename_i k hk
          split at h
          · simp at h
          · rename_i j hj
            simp at h; subst h; exact .submit q c k j P hP hk hj
        · rename_i hm
          split at h
          · rename_i hmode
            split at h
            · simp at h
            · rename_i hc
              simp only [Option.map_eq_some_iff] at h
              obtain ⟨b, hb, rfl⟩ := h
              simp only [Bool.or_eq_true, Bool.not_eq_true', not_or, Bool.not_eq_true,
                Bool.not_eq_false] at hc
              exact .collect q c c b P hP hm (Or.inl ⟨hmode, rfl, hc.1, hc.2⟩) (futDone_eq hb)
          · rename_i hmode
            split at h
            · simp at h
            · rename_i j hj
              simp only [Option.map_eq_some_iff] at h
              obtain ⟨b, hb, rfl⟩ := h
              exact .collect q c j b P hP hm (Or.inr ⟨by simpa using hmode, hj⟩) (futDone_eq hb)
        · rename_i e he
          split at h
          · rename_i hex
            split at h
            · rename_i hpar; simp at h; subst h; exact .joinRoot q c e P hP he hex hpar
            · rename_i jp hpar; simp at h; subst h; exact .joinSub q c e P jp hP he hex hpar
          · simp at h
        · simp at h
  | take q =>
      simp only [step, stepTake] at h
      split at h
      · simp at h
      · rename_i P hP
        split at h
        · simp at h
        · rename_i j rest hq
          split at h
          · simp at h
          · rename_i hidle
            split at h
            · rename_i hsub; simp at h; subst h; exact .takeSerial q j rest P hP hq hidle hsub
            · rename_i q' hsub; simp at h; subst h; exact .takeSub q j rest P q' hP hq hidle hsub
  | exit q =>
      simp only [step, stepExit] at h
      split at h
      · simp at h
      · rename_i P hP
        split at h
        · rename_i hc
          simp at h; subst h
          simp at hc
          exact .exit q P hP hc.1.1 hc.1.2 hc.2
        · simp at h
  | task i =>
      simp only [step, stepTask] at h
      split at h
      · rename_i hp
        split at h
        · simp at h
        · rename_i hc; simp at h; subst h; exact .tAcq i hp (by simpa using hc)
      · rename_i hp
        split at h
        · simp at h
        · rename_i hc; simp at h; subst h; exact .cbAcqIn i hp (by simpa using hc)
      · rename_i hp
        split at h
        · simp at h
        · rename_i hc; simp at h; subst h; exact .cbAcq i hp (by simpa using hc)
      · rename_i hp
        split at h
        · simp at h; subst h; exact .cbFail i hp ‹_›
        · rename_i hc; simp at h; subst h; exact .cbOk i hp (by simpa using hc)
      · rename_i hp; simp at h; subst h; exact .bTry i _ hp (Or.inl rfl)
      · rename_i hp; simp at h; subst h; exact .bTry i _ hp (Or.inr rfl)
      · rename_i hp
        split at h
        · simp at h; subst h; exact .writeFail i hp ‹_›
        · rename_i hc; simp at h; subst h; exact .writeOk i hp (by simpa using hc)
      · rename_i ok hp; simp at h; subst h; exact .bRel i ok hp
      · simp at h

end IrVerif.WriterN

import IrVerif.Lemmas.SerdeGraph
/-! C02 stage B: the final table of a well-formed graph and the pieces of `serialize_graph_into`. -/
namespace IrVerif.Serde
open IrVerif.Proto

/-! ### generic list facts -/

theorem map_range_getD {α β : Type} (l : List α) (d : α) (g : α → β) (n : Nat) (h : n ≤ l.length) :
    (List.range n).map (fun i => g (l.getD i d)) = (l.take n).map g := by
  apply List.ext_getElem
  · simp [Nat.min_eq_left h]
  · intro i h1 h2
    simp only [List.length_map, List.length_range] at h1
    simp [List.getD, List.getElem?_eq_getElem (Nat.lt_of_lt_of_le h1 h)]

theorem filter_map_comm {α β : Type} (f : α → β) (p : β → Bool) (l : List α) :
    (l.filter (fun a => p (f a))).map f = (l.map f).filter p := by
  induction l with
  | nil => rfl
  | cons x xs ih =>
    simp only [List.filter_cons, List.map_cons]
    split <;> simp [ih]

/-! ### what `serValue` / `shouldCreateVI` / `quantOf` look at -/

/-- same serializable content (everything but `quant` and `const`) -/
def sameInfo (a b : IRValue) : Prop :=
  a.name = b.name ∧ a.type = b.type ∧ a.shape = b.shape ∧ a.doc = b.doc ∧ a.mprops = b.mprops

theorem serValue_congr {a b : IRValue} (h : sameInfo a b) : serValue a = serValue b := by
  obtain ⟨h1, h2, h3, h4, h5⟩ := h
  simp [serValue, serValueAs, h1, h2, h3, h4, h5]

theorem shouldCreateVI_congr {a b : IRValue} (h : sameInfo a b) : shouldCreateVI a = shouldCreateVI b := by
  obtain ⟨h1, h2, h3, h4, h5⟩ := h
  simp [shouldCreateVI, h1, h2, h4, h5]

theorem sameInfo_applyQuant (q : List AnnotP) (v : IRValue) : sameInfo (applyQuant q v) v := by
  unfold applyQuant; split <;> exact ⟨rfl, rfl, rfl, rfl, rfl⟩

theorem sameInfo_setConst (t : IRTensor) (v : IRValue) : sameInfo (setConst t v) v :=
  ⟨rfl, rfl, rfl, rfl, rfl⟩

theorem sameInfo_constFrom (ps : List TensorP) (v : IRValue) : sameInfo (constFrom ps v) v := by
  unfold constFrom; split
  · exact sameInfo_setConst _ _
  · exact ⟨rfl, rfl, rfl, rfl, rfl⟩

theorem sameInfo_trans {a b c : IRValue} (h1 : sameInfo a b) (h2 : sameInfo b c) : sameInfo a c :=
  ⟨h1.1.trans h2.1, h1.2.1.trans h2.2.1, h1.2.2.1.trans h2.2.2.1, h1.2.2.2.1.trans h2.2.2.2.1,
    h1.2.2.2.2.trans h2.2.2.2.2⟩

/-- the annotation dict a value named `n` carries -/
def quantDict (q : List AnnotP) (n : String) : Dict :=
  match findAnnot q n with
  | some a => dictOfEntries a.params
  | none => []

theorem applyQuant_quant (q : List AnnotP) (v : IRValue) (hv : v.quant = []) :
    (applyQuant q v).quant = quantDict q v.name := by
  unfold applyQuant quantDict
  split <;> simp_all

theorem findAnnot_name {q : List AnnotP} {n : String} {a : AnnotP} (h : findAnnot q n = some a) :
    a ∈ q ∧ a.tensorName = n := by
  have := findLast?_mem h
  exact ⟨this.1, by simpa using this.2⟩

/-- the annotation written for a value whose `quant` is the annotation dict of its name -/
theorem quantOf_eq (q : List AnnotP) (v : IRValue) (hq : v.quant = quantDict q v.name) :
    quantOf v = normQuantFor q [v.name] := by
  simp only [quantOf, normQuantFor, hq, quantDict, List.append_nil]
  cases hf : findAnnot q v.name with
  | none => simp
  | some a =>
    simp only [dictOfEntries_isEmpty]
    split
    · rfl
    · simp [normAnnot, normEntries, (findAnnot_name hf).2]

theorem normQuantFor_append (q : List AnnotP) (a b : List String) :
    normQuantFor q (a ++ b) = normQuantFor q a ++ normQuantFor q b := by
  induction a with
  | nil => rfl
  | cons x xs ih => simp [normQuantFor, ih]

theorem normQuantFor_cons (q : List AnnotP) (x : String) (xs : List String) :
    normQuantFor q (x :: xs) = normQuantFor q [x] ++ normQuantFor q xs := by
  simp [normQuantFor]

/-! ### the final table of a well-formed graph -/

/-- facts that `wfGraph` provides (names are those of `wfGraph`) -/
structure GraphWF (inits : List TensorP) (inputs outputs vis : List ValueInfoP) (quant : List AnnotP)
    (outs : List String) : Prop where
  nodupNames : (scopeNames (inputs.map (·.name)) (inits.map (·.name)) outs).Nodup
  nonempty : ∀ n ∈ scopeNames (inputs.map (·.name)) (inits.map (·.name)) outs, n ≠ ""
  nodupInit : (inits.map (·.name)).Nodup
  wfIn : inputs.all wfVI = true
  wfOut : outputs.all wfVI = true
  wfVis : vis.all wfVI = true
  nodupVis : (vis.map (·.name)).Nodup
  visNotIO : ∀ vi ∈ vis, vi.name ∉ inputs.map (·.name) ∧ vi.name ∉ outputs.map (·.name)
  consOut : ConsOut outputs
  wfInit : inits.all (fun t => wfTensor t && validDType t.dataType) = true
  nodupQuant : (quant.map (·.tensorName)).Nodup
  quantOK : ∀ a ∈ quant, a.tensorName ∈ scopeNames (inputs.map (·.name)) (inits.map (·.name)) outs
    ∧ a.params ≠ [] ∧ wfEntries a.params = true

variable {inits : List TensorP} {inputs outputs vis : List ValueInfoP} {quant : List AnnotP}
  {outs : List String}

theorem nodupNames_parts (hw : GraphWF inits inputs outputs vis quant outs) :
    (inputs.map (·.name)).Nodup ∧ outs.Nodup ∧
    (∀ n ∈ outs, n ∉ inputs.map (·.name) ∧ n ∉ inits.map (·.name)) := by
  have hnd := hw.nodupNames
  simp only [scopeNames] at hnd
  rw [List.nodup_append] at hnd
  obtain ⟨hAB, hC, hdisC⟩ := hnd
  rw [List.nodup_append] at hAB
  refine ⟨hAB.1, hC, ?_⟩
  intro n hn
  refine ⟨fun h => hdisC n (List.mem_append_left _ h) n hn rfl, fun h => ?_⟩
  by_cases hin : n ∈ inputs.map (·.name)
  · exact hdisC n (List.mem_append_left _ hin) n hn rfl
  · exact hdisC n (List.mem_append_right _ (List.mem_filter.2 ⟨h, by simpa using hin⟩)) n hn rfl

theorem GraphWF.nodupIn (hw : GraphWF inits inputs outputs vis quant outs) :
    (inputs.map (·.name)).Nodup := (nodupNames_parts hw).1

/-- the table after inputs, initializers and declared node outputs -/
def tblPre (inits : List TensorP) (inputs vis : List ValueInfoP) (quant : List AnnotP)
    (outs : List String) : List IRValue :=
  (inputs.map (inputValT quant)).map (constFrom inits)
    ++ (newInits (inputs.map (·.name)) inits).map (initValT vis quant)
    ++ outs.map (newValueT vis quant)

/-- the table the deserialized graph holds -/
def tblFinal (inits : List TensorP) (inputs outputs vis : List ValueInfoP) (quant : List AnnotP)
    (outs : List String) : List IRValue :=
  (tblPre inits inputs vis quant outs).map (outUpd outputs)

@[simp] theorem inputValT_name (q : List AnnotP) (vi : ValueInfoP) : (inputValT q vi).name = vi.name := by
  simp [inputValT, IRValue.blank]

theorem newInits_names (names : List String) (ps : List TensorP) :
    (newInits names ps).map (·.name) = (ps.map (·.name)).filter (fun n => !names.contains n) := by
  unfold newInits
  exact filter_map_comm (·.name) (fun n => !names.contains n) ps

theorem tableNames_tblPre : tableNames (tblPre inits inputs vis quant outs)
    = scopeNames (inputs.map (·.name)) (inits.map (·.name)) outs := by
  simp only [tblPre, tableNames, List.map_append, List.map_map, scopeNames]
  congr 1
  · congr 1
    · apply List.map_congr_left; intro vi _; simp
    · rw [← newInits_names]
      apply List.map_congr_left; intro p _; simp
  · have : (fun x : IRValue => x.name) ∘ newValueT vis quant = id := by funext n; simp
    rw [this, List.map_id]

theorem tableNames_tblFinal : tableNames (tblFinal inits inputs outputs vis quant outs)
    = scopeNames (inputs.map (·.name)) (inits.map (·.name)) outs := by
  rw [← tableNames_tblPre (vis := vis) (quant := quant)]
  simp only [tblFinal, tableNames, List.map_map]
  apply List.map_congr_left; intro v _; simp

/-- the entry of the final table found for a declared name is the (unique) member with that name -/
theorem getD_tblFinal (hw : GraphWF inits inputs outputs vis quant outs) {n : String} {i : Nat}
    (hi : lookupLast (scopeNames (inputs.map (·.name)) (inits.map (·.name)) outs) n = some i)
    {v : IRValue} (hv : v ∈ tblFinal inits inputs outputs vis quant outs) (hn : v.name = n) :
    (tblFinal inits inputs outputs vis quant outs).getD i (IRValue.blank "") = v := by
  apply getD_of_lookup _ _ hv hn
  · rw [tableNames_tblFinal]; exact hw.nodupNames
  · rw [tableNames_tblFinal]; exact hi

theorem outUpd_id {outputs : List ValueInfoP} {v : IRValue} (h : v.name ∉ outputs.map (·.name)) :
    outUpd outputs v = v := by
  unfold outUpd
  have : outputs.find? (fun vi => vi.name = v.name) = none := by
    rw [List.find?_eq_none]
    intro vi hvi hn
    have hn' : vi.name = v.name := by simpa using hn
    exact h (by rw [← hn']; exact List.mem_map_of_mem hvi)
  rw [this]

theorem find?_of_nodup {α : Type} (key : α → String) {l : List α} (h : (l.map key).Nodup) {a : α}
    (ha : a ∈ l) : l.find? (fun x => key x = key a) = some a := by
  induction l with
  | nil => cases ha
  | cons x xs ih =>
    simp only [List.map_cons, List.nodup_cons] at h
    rcases List.mem_cons.1 ha with rfl | ha
    · simp
    · have : ¬ key x = key a := by
        intro e; exact h.1 (by rw [e]; exact List.mem_map_of_mem ha)
      simp [List.find?_cons, this, ih h.2 ha]

theorem find?_of_consOut {outputs : List ValueInfoP} (h : ConsOut outputs) {vo : ValueInfoP}
    (hvo : vo ∈ outputs) : outputs.find? (fun x => x.name = vo.name) = some vo := by
  cases hf : outputs.find? (fun x => x.name = vo.name) with
  | none => exact absurd (by simp) (List.find?_eq_none.1 hf vo hvo)
  | some w =>
    have hw : w ∈ outputs := List.mem_of_find?_eq_some hf
    have hn : w.name = vo.name := by simpa using List.find?_some hf
    rw [h w hw vo hvo hn]

theorem findVI_of_mem_cons {outputs : List ValueInfoP} (h : ConsOut outputs) {vo : ValueInfoP}
    (hvo : vo ∈ outputs) : findVI outputs vo.name = some vo := by
  cases hf : findVI outputs vo.name with
  | none => exact absurd (List.mem_map_of_mem hvo) (findVI_none_iff.1 hf)
  | some w =>
    obtain ⟨hw, hn⟩ := findVI_mem hf
    rw [h w hw vo hvo hn]

theorem outUpd_of_mem {outputs : List ValueInfoP} (h : ConsOut outputs) {vo : ValueInfoP}
    (hvo : vo ∈ outputs) {v : IRValue} (hn : v.name = vo.name) :
    outUpd outputs v = applyInfoT v vo := by
  unfold outUpd
  rw [hn, find?_of_consOut h hvo]

theorem dictSet_of_mem {d : Dict} {k v : String} (hnd : (dkeys d).Nodup) (h : (k, v) ∈ d) :
    dictSet d k v = d := by
  induction d with
  | nil => cases h
  | cons x xs ih =>
    obtain ⟨k', v'⟩ := x
    simp only [dkeys, List.map_cons, List.nodup_cons] at hnd
    rcases List.mem_cons.1 h with h | h
    · cases h; simp [dictSet]
    · have hne : ¬ k' = k := by
        intro e; subst e
        exact hnd.1 (List.mem_map_of_mem (f := (·.1)) h)
      simp only [dictSet, hne, if_false]
      rw [ih (by simpa [dkeys] using hnd.2) h]

theorem dictUpdate_of_subset {d : Dict} (hnd : (dkeys d).Nodup) :
    ∀ u : Dict, (∀ x ∈ u, x ∈ d) → dictUpdate d u = d
  | [], _ => rfl
  | (k, v) :: u, h => by
    simp only [dictUpdate]
    rw [dictSet_of_mem hnd (h (k, v) (by simp))]
    exact dictUpdate_of_subset hnd u (fun x hx => h x (List.mem_cons_of_mem _ hx))

theorem mem_tblFinal_init (_hw : GraphWF inits inputs outputs vis quant outs) {p : TensorP}
    (hp : p ∈ inits) (hni : p.name ∉ inputs.map (·.name)) :
    outUpd outputs (initValT vis quant p) ∈ tblFinal inits inputs outputs vis quant outs := by
  simp only [tblFinal, tblPre]
  apply List.mem_map_of_mem
  simp only [List.mem_append]
  refine Or.inl (Or.inr (List.mem_map_of_mem ?_))
  simp only [newInits, List.mem_filter, Bool.not_eq_true', List.contains_eq_mem, decide_eq_false_iff_not]
  exact ⟨hp, hni⟩

theorem mem_tblFinal_out (_hw : GraphWF inits inputs outputs vis quant outs) {n : String}
    (hn : n ∈ outs) :
    outUpd outputs (newValueT vis quant n) ∈ tblFinal inits inputs outputs vis quant outs := by
  simp only [tblFinal, tblPre]
  apply List.mem_map_of_mem
  simp only [List.mem_append]
  exact Or.inr (List.mem_map_of_mem hn)

/-- every value of the final table carries the annotation dict of its name -/
theorem quant_tblFinal (hw : GraphWF inits inputs outputs vis quant outs) {v : IRValue}
    (hv : v ∈ tblFinal inits inputs outputs vis quant outs) : v.quant = quantDict quant v.name := by
  simp only [tblFinal, tblPre, List.mem_map, List.mem_append] at hv
  obtain ⟨w, hwm, rfl⟩ := hv
  have hout : ∀ u : IRValue, (outUpd outputs u).quant = u.quant := by
    intro u; unfold outUpd; split <;> rfl
  rw [hout, outUpd_name]
  rcases hwm with (⟨u, ⟨vi, _, rfl⟩, rfl⟩ | ⟨p, hp, rfl⟩) | ⟨n, _, rfl⟩
  · have : ∀ u : IRValue, (constFrom inits u).quant = u.quant := by
      intro u; unfold constFrom; split <;> rfl
    rw [this, constFrom_name]
    have := applyQuant_quant quant (applyInfoT (IRValue.blank vi.name) vi) rfl
    simpa [inputValT, IRValue.blank] using this
  · have hpm : p ∈ inits := by
      simp only [newInits, List.mem_filter] at hp; exact hp.1
    have hwp : wfTensor p = true := by
      have := List.all_eq_true.1 hw.wfInit p hpm
      simp only [Bool.and_eq_true] at this; exact this.1
    have hname : (irT p).name = p.name := (irT_spec p hwp).2.2.1
    simp only [initValT]
    cases hf : findVI vis p.name with
    | none =>
      have := applyQuant_quant quant (initV0 (irT p) p.dataType) rfl
      simpa [initV0, IRValue.blank, hname] using this
    | some vi =>
      have := applyQuant_quant quant
        (fillFrom (initV0 (irT p) p.dataType) (applyInfoT (initV0 (irT p) p.dataType) vi)) rfl
      simpa [initV0, fillFrom, IRValue.blank, hname] using this
  · simp only [newValueT]
    cases hf : findVI vis n with
    | none =>
      have := applyQuant_quant quant (IRValue.blank n) rfl
      simpa [IRValue.blank] using this
    | some vi =>
      have := applyQuant_quant quant (applyInfoT (IRValue.blank n) vi) rfl
      simpa [IRValue.blank] using this

/-! ### serialization pieces -/

theorem serValue_applyInfoT_blank (vi : ValueInfoP) (h : wfVI vi = true) :
    serValue (applyInfoT (IRValue.blank vi.name) vi) = normValueInfo vi := by
  simp only [wfVI, Bool.and_eq_true] at h
  have := (applyInfo_eq (IRValue.blank vi.name) vi h.1).2.1
  exact serValue_of_info vi (tyOf vi.type) (shOf vi.type) [] none this

theorem shouldCreateVI_applyInfoT_blank (vi : ValueInfoP) (h : wfVI vi = true) :
    shouldCreateVI (applyInfoT (IRValue.blank vi.name) vi) = (viHasInfo vi && !vi.name.isEmpty) := by
  simp only [wfVI, Bool.and_eq_true] at h
  have := (applyInfo_eq (IRValue.blank vi.name) vi h.1).2.2
  exact shouldCreateVI_of_info vi (tyOf vi.type) (shOf vi.type) [] none this

/-- the value of a graph input in the final table: with the output entry applied when the input is
also a graph output (pass-through) -/
def inFinal (inits : List TensorP) (outputs : List ValueInfoP) (quant : List AnnotP) (vi : ValueInfoP) :
    IRValue :=
  outUpd outputs (constFrom inits (inputValT quant vi))

@[simp] theorem inFinal_name (vi : ValueInfoP) : (inFinal inits outputs quant vi).name = vi.name := by
  simp [inFinal]

theorem mem_tblFinal_input (_hw : GraphWF inits inputs outputs vis quant outs) {vi : ValueInfoP}
    (hvi : vi ∈ inputs) :
    inFinal inits outputs quant vi ∈ tblFinal inits inputs outputs vis quant outs := by
  simp only [inFinal, tblFinal, tblPre]
  apply List.mem_map_of_mem
  simp only [List.mem_append]
  exact Or.inl (Or.inl (List.mem_map_of_mem (List.mem_map_of_mem hvi)))

theorem inFinal_const (vi : ValueInfoP) :
    (inFinal inits outputs quant vi).const = (constFrom inits (inputValT quant vi)).const := by
  unfold inFinal outUpd; split <;> rfl

/-- serializing a graph input: its own entry, or the merged entry when it is a pass-through -/
theorem serValue_inFinal (hw : GraphWF inits inputs outputs vis quant outs) {vi : ValueInfoP}
    (hvi : vi ∈ inputs) :
    serValue (inFinal inits outputs quant vi) = normInputVI outputs vi := by
  have hwfi := List.all_eq_true.1 hw.wfIn vi hvi
  have hsame : sameInfo (constFrom inits (inputValT quant vi)) (applyInfoT (IRValue.blank vi.name) vi) :=
    sameInfo_trans (sameInfo_constFrom inits _) (sameInfo_applyQuant quant _)
  unfold normInputVI
  cases hf : findVI outputs vi.name with
  | none =>
    have hno : (constFrom inits (inputValT quant vi)).name ∉ outputs.map (·.name) := by
      simp only [constFrom_name, inputValT_name]
      exact findVI_none_iff.1 hf
    rw [inFinal, outUpd_id hno, serValue_congr hsame]
    exact serValue_applyInfoT_blank vi hwfi
  | some vo =>
    obtain ⟨hvo, hn⟩ := findVI_mem hf
    have hwfo := List.all_eq_true.1 hw.wfOut vo hvo
    simp only [wfVI, Bool.and_eq_true] at hwfo
    rw [inFinal, outUpd_of_mem hw.consOut hvo (by simp [hn])]
    have h3 := (applyInfo_eq (IRValue.blank vo.name) vo hwfo.1).2.1
    have hmp : (constFrom inits (inputValT quant vi)).mprops = dictOfEntries vi.metadata := by
      rw [hsame.2.2.2.2]
      simp [applyInfoT, IRValue.blank, dictUpdate_nil _ (nodup_dkeys_dictOfEntries _)]
    simp only [serValue, serValueAs, applyInfoT, mergeVI, h3, hmp, constFrom_name, inputValT_name, hn]
    simp

theorem mem_scopeNames {a b c : List String} {n : String} :
    n ∈ scopeNames a b c ↔ n ∈ a ∨ (n ∈ b ∧ n ∉ a) ∨ n ∈ c := by
  simp [scopeNames, List.mem_filter, or_assoc]

/-- S1: the graph inputs -/
theorem ser_inputs (hw : GraphWF inits inputs outputs vis quant outs) :
    (List.range inputs.length).map
      (fun i => serValue ((tblFinal inits inputs outputs vis quant outs).getD i (IRValue.blank "")))
    = inputs.map (normInputVI outputs) := by
  rw [map_range_getD _ _ _ _ (by simp [tblFinal, tblPre])]
  have : (tblFinal inits inputs outputs vis quant outs).take inputs.length
      = ((inputs.map (inputValT quant)).map (constFrom inits)).map (outUpd outputs) := by
    simp only [tblFinal, tblPre, List.map_append, List.append_assoc]
    apply List.take_left'
    simp
  rw [this]
  simp only [List.map_map]
  apply List.map_congr_left
  intro vi hvi
  simp only [Function.comp]
  exact serValue_inFinal hw hvi

theorem findVI_none_of_output (hw : GraphWF inits inputs outputs vis quant outs) {n : String}
    (hn : n ∈ outputs.map (·.name)) : findVI vis n = none := by
  cases hf : findVI vis n with
  | none => rfl
  | some vi =>
    have := findVI_mem hf
    exact absurd (by rw [this.2]; exact hn) (hw.visNotIO vi this.1).2

/-- an initializer that is a graph output: after the output entry has been applied the value
carries exactly the info of that entry (no value_info exists for an output name) -/
theorem sameInfo_out_init (hw : GraphWF inits inputs outputs vis quant outs) {p : TensorP}
    (_hp : p ∈ inits) {vo : ValueInfoP} (hvo : vo ∈ outputs) (hpn : p.name = vo.name) :
    sameInfo (applyInfoT (initValT vis quant p) vo) (applyInfoT (IRValue.blank vo.name) vo) := by
  have hfv : findVI vis p.name = none := by
    rw [hpn]; exact findVI_none_of_output hw (List.mem_map_of_mem (f := (·.name)) hvo)
  have hmp : (initValT vis quant p).mprops = [] := by
    simp only [initValT, hfv]
    have := (sameInfo_applyQuant quant (initV0 (irT p) p.dataType)).2.2.2.2
    simpa [initV0, IRValue.blank] using this
  exact ⟨by simp [hpn, IRValue.blank], rfl, rfl, rfl, by simp [applyInfoT, hmp, IRValue.blank]⟩

/-- S2: the graph outputs -/
theorem ser_outputs (hw : GraphWF inits inputs outputs vis quant outs) :
    (outputs.map (gOutT (scopeNames (inputs.map (·.name)) (inits.map (·.name)) outs))).map
      (serGOut (tblFinal inits inputs outputs vis quant outs))
    = outputs.map (normOutputVI inputs) := by
  simp only [List.map_map]
  apply List.map_congr_left
  intro vo hvo
  simp only [Function.comp, gOutT]
  have hwf := List.all_eq_true.1 hw.wfOut vo hvo
  have hnorm : vo.name ∉ inputs.map (·.name) → normOutputVI inputs vo = normValueInfo vo := by
    intro h
    simp only [normOutputVI, findVI_none_iff.2 h]
  cases hl : lookupLast (scopeNames (inputs.map (·.name)) (inits.map (·.name)) outs) vo.name with
  | none =>
    rw [hnorm (fun h => by
      have := lookupLast_isSome (mem_scopeNames.2 (Or.inl h) :
        vo.name ∈ scopeNames (inputs.map (·.name)) (inits.map (·.name)) outs)
      rw [hl] at this; cases this)]
    exact serValue_applyInfoT_blank vo hwf
  | some i =>
    simp only [serGOut]
    have hmem := lookupLast_mem hl
    by_cases hin : vo.name ∈ inputs.map (·.name)
    · -- pass-through: the output is a graph input; the value carries the merged entry
      obtain ⟨vi, hvi, hn⟩ := List.mem_map.1 hin
      have hm := mem_tblFinal_input hw hvi
      rw [getD_tblFinal hw hl hm (by simp [hn])]
      rw [serValue_inFinal hw hvi]
      have h1 : findVI outputs vi.name = some vo := by rw [hn]; exact findVI_of_mem_cons hw.consOut hvo
      have h2 : findVI inputs vo.name = some vi := by rw [← hn]; exact findVI_of_mem hw.nodupIn hvi
      simp only [normInputVI, normOutputVI, h1, h2]
    rw [hnorm hin]
    by_cases hinit : vo.name ∈ inits.map (·.name)
    · -- constant output: the output is a (non-input) initializer
      obtain ⟨p, hp, hpn⟩ := List.mem_map.1 hinit
      have hm := mem_tblFinal_init hw hp (by rw [hpn]; exact hin)
      rw [outUpd_of_mem hw.consOut hvo (by simp [hpn])] at hm
      rw [getD_tblFinal hw hl hm (by simp [hpn])]
      rw [serValue_congr (sameInfo_out_init hw hp hvo hpn)]
      exact serValue_applyInfoT_blank vo hwf
    have hno2 := hinit
    have hout : vo.name ∈ outs := by
      rcases mem_scopeNames.1 hmem with h | h | h
      · exact absurd h hin
      · exact absurd h.1 hno2
      · exact h
    have hv := mem_tblFinal_out hw hout
    rw [outUpd_of_mem hw.consOut hvo (by simp)] at hv
    rw [getD_tblFinal hw hl hv (by simp)]
    have hnv : newValueT vis quant vo.name = applyQuant quant (IRValue.blank vo.name) := by
      simp [newValueT, findVI_none_of_output hw (List.mem_map_of_mem (f := (·.name)) hvo)]
    rw [hnv]
    have : sameInfo (applyInfoT (applyQuant quant (IRValue.blank vo.name)) vo)
        (applyInfoT (IRValue.blank vo.name) vo) := by
      have h1 := sameInfo_applyQuant quant (IRValue.blank vo.name)
      exact ⟨by simp, rfl, rfl, rfl, by simp [applyInfoT, h1.2.2.2.2]⟩
    rw [serValue_congr this]
    exact serValue_applyInfoT_blank vo hwf

/-! ### initializers -/

theorem serType_fill_set (t : TypeP) (h : wfTypeSet t = true) (S : IRShape) :
    ∃ ty, tyOf t = some ty ∧
      serTypeAndShape (some ty) (shOf t <|> some S) = fillLeafShape (serShape S) t := by
  induction t with
  | unset den => simp [wfTypeSet] at h
  | map den => simp [wfTypeSet] at h
  | tensor e sh den =>
    cases e with
    | none => simp [wfTypeSet] at h
    | some e =>
      simp only [wfTypeSet] at h
      refine ⟨.tensor e den, by simp [tyOf, desTypeForType, h], ?_⟩
      cases sh <;>
        simp [shOf, desTypeForShape, serTypeAndShape, serType, serShapeInto, fillLeafShape,
          serShape_desShape]
  | sparse e sh den =>
    cases e with
    | none => simp [wfTypeSet] at h
    | some e =>
      simp only [wfTypeSet] at h
      refine ⟨.sparse e den, by simp [tyOf, desTypeForType, h], ?_⟩
      cases sh <;>
        simp [shOf, desTypeForShape, serTypeAndShape, serType, serShapeInto, fillLeafShape,
          serShape_desShape]
  | sequence e den ih =>
    simp only [wfTypeSet] at h
    obtain ⟨ty, h1, h2⟩ := ih h
    have hty : desTypeForType e = .ok (some ty) := by
      obtain ⟨ty', sh', g1, _, _⟩ := type_roundtrip_set e h
      simp only [tyOf, g1] at h1; rw [g1, h1]
    refine ⟨.sequence ty den, by simp [tyOf, desTypeForType, hty, bind, Except.bind], ?_⟩
    have hsh : shOf (.sequence e den) = shOf e := by simp [shOf, desTypeForShape]
    rw [hsh]
    cases hs : shOf e with
    | none => rw [hs] at h2; simpa [serTypeAndShape, serType, serShapeInto, fillLeafShape] using h2
    | some s => rw [hs] at h2; simpa [serTypeAndShape, serType, serShapeInto, fillLeafShape] using h2
  | optional e den ih =>
    simp only [wfTypeSet] at h
    obtain ⟨ty, h1, h2⟩ := ih h
    have hty : desTypeForType e = .ok (some ty) := by
      obtain ⟨ty', sh', g1, _, _⟩ := type_roundtrip_set e h
      simp only [tyOf, g1] at h1; rw [g1, h1]
    refine ⟨.optional ty den, by simp [tyOf, desTypeForType, hty, bind, Except.bind], ?_⟩
    have hsh : shOf (.optional e den) = shOf e := by simp [shOf, desTypeForShape]
    rw [hsh]
    cases hs : shOf e with
    | none => rw [hs] at h2; simpa [serTypeAndShape, serType, serShapeInto, fillLeafShape] using h2
    | some s => rw [hs] at h2; simpa [serTypeAndShape, serType, serShapeInto, fillLeafShape] using h2

theorem serShape_dims (D : List Int) :
    serShape (D.map fun d => (IRDim.int d, "")) = D.map fun d => (⟨.value d, ""⟩ : DimP) := by
  simp [serShape, serDim, serDimVal, List.map_map, Function.comp_def]

/-- serializing the value of a non-input initializer: its value_info completed from the tensor -/
theorem serValue_initValT (hvis : vis.all wfVI = true) (p : TensorP)
    (hsh : (irT p).shape = p.dims) :
    serValue (initValT vis quant p) =
      (match findVI vis p.name with
       | some vi => normValueInfo (fillFromTensor vi p)
       | none => defaultVI p)
    ∧ (initValT vis quant p).type.isSome = true := by
  have hq : ∀ w : IRValue, serValue { applyQuant quant w with name := p.name } = serValue { w with name := p.name }
      ∧ ({ applyQuant quant w with name := p.name } : IRValue).type = w.type := by
    intro w
    have := sameInfo_applyQuant quant w
    exact ⟨by simp [serValue, serValueAs, this.2.1, this.2.2.1, this.2.2.2.1, this.2.2.2.2], this.2.1⟩
  unfold initValT
  cases hf : findVI vis p.name with
  | none =>
    refine ⟨?_, by rw [(hq _).2]; rfl⟩
    rw [(hq _).1]
    simp [serValue, serValueAs, initV0, IRValue.blank, serTypeAndShape, serType, serShapeInto,
      serShape_dims, defaultVI, sortEntries, hsh]
  | some vi =>
    have hvi := findVI_mem hf
    have hwt : wfType vi.type = true := by
      have := List.all_eq_true.1 hvis vi hvi.1
      simp only [wfVI, Bool.and_eq_true] at this
      exact this.1
    refine ⟨?_, ?_⟩
    · rw [(hq _).1]
      simp only [serValue, serValueAs, fillFrom, applyInfoT, initV0, IRValue.blank, normValueInfo,
        normEntries, hsh,
        dictUpdate_nil _ (nodup_dkeys_dictOfEntries _)]
      have htype : serTypeAndShape (tyOf vi.type <|> some (IRType.tensor p.dataType ""))
          (shOf vi.type <|> some (p.dims.map fun d => (IRDim.int d, "")))
          = (fillFromTensor vi p).type := by
        simp only [fillFromTensor]
        cases hvt : vi.type with
        | unset den =>
          simp [tyOf, shOf, desTypeForType, desTypeForShape, serTypeAndShape, serType, serShapeInto,
            serShape_dims, defaultVI]
        | map den => rw [hvt] at hwt; simp [wfType, wfTypeSet] at hwt
        | tensor e sh den =>
          rw [hvt] at hwt
          obtain ⟨ty, h1, h2⟩ := serType_fill_set _ (by simpa [wfType] using hwt)
            (p.dims.map fun d => (IRDim.int d, ""))
          rw [h1]; simpa [serShape_dims] using h2
        | sparse e sh den =>
          rw [hvt] at hwt
          obtain ⟨ty, h1, h2⟩ := serType_fill_set _ (by simpa [wfType] using hwt)
            (p.dims.map fun d => (IRDim.int d, ""))
          rw [h1]; simpa [serShape_dims] using h2
        | sequence e den =>
          rw [hvt] at hwt
          obtain ⟨ty, h1, h2⟩ := serType_fill_set _ (by simpa [wfType] using hwt)
            (p.dims.map fun d => (IRDim.int d, ""))
          rw [h1]; simpa [serShape_dims] using h2
        | optional e den =>
          rw [hvt] at hwt
          obtain ⟨ty, h1, h2⟩ := serType_fill_set _ (by simpa [wfType] using hwt)
            (p.dims.map fun d => (IRDim.int d, ""))
          rw [h1]; simpa [serShape_dims] using h2
      rw [htype]
      simp [fillFromTensor, hvi.2]
    · rw [(hq _).2]
      simp only [fillFrom, initV0, applyInfoT]
      cases tyOf vi.type <;> rfl

theorem applyQuant_const (q : List AnnotP) (v : IRValue) : (applyQuant q v).const = v.const := by
  unfold applyQuant; split <;> rfl

theorem initValT_const (p : TensorP) : (initValT vis quant p).const = some (irT p) := by
  unfold initValT
  simp only [applyQuant_const]
  split <;> rfl

/-- the value the final table holds for the initializer `p` -/
theorem init_elem (hw : GraphWF inits inputs outputs vis quant outs) {p : TensorP} (hp : p ∈ inits)
    {i : Nat}
    (hi : lookupLast (scopeNames (inputs.map (·.name)) (inits.map (·.name)) outs) p.name = some i) :
    ((tblFinal inits inputs outputs vis quant outs).getD i (IRValue.blank "")).name = p.name ∧
    ((tblFinal inits inputs outputs vis quant outs).getD i (IRValue.blank "")).const = some (irT p) ∧
    ((tblFinal inits inputs outputs vis quant outs).getD i (IRValue.blank "")).quant
      = quantDict quant p.name ∧
    (p.name ∉ inputs.map (·.name) →
      (tblFinal inits inputs outputs vis quant outs).getD i (IRValue.blank "")
        = outUpd outputs (initValT vis quant p)) := by
  by_cases hin : p.name ∈ inputs.map (·.name)
  · obtain ⟨vi, hvi, hvn⟩ := List.mem_map.1 hin
    have hm := mem_tblFinal_input hw hvi
    have hname : (inFinal inits outputs quant vi).name = p.name := by simp [hvn]
    have hg := getD_tblFinal hw hi hm hname
    rw [hg]
    refine ⟨hname, ?_, ?_, fun h => absurd hin h⟩
    · rw [inFinal_const]
      simp only [constFrom, inputValT_name]
      have := find?_of_nodup (·.name) hw.nodupInit hp
      rw [hvn, this]
      rfl
    · have := quant_tblFinal hw hm
      rw [this, hname]
  · have hm := mem_tblFinal_init hw hp hin
    have hg := getD_tblFinal hw hi hm (by simp)
    rw [hg]
    have hc : (outUpd outputs (initValT vis quant p)).const = some (irT p) := by
      rw [← initValT_const (vis := vis) (quant := quant) p]
      unfold outUpd; split <;> rfl
    refine ⟨by simp, hc, ?_, fun _ => rfl⟩
    have := quant_tblFinal hw hm
    rw [this]; simp

/-- S3/S4 and the names: the initializer loop of `serialize_graph_into` -/
theorem ser_inits (hw : GraphWF inits inputs outputs vis quant outs) :
    ∀ (ps : List TensorP) (idxs : List Nat), (∀ p ∈ ps, p ∈ inits) →
      idxs.map some = ps.map (fun p =>
        lookupLast (scopeNames (inputs.map (·.name)) (inits.map (·.name)) outs) p.name) →
      serInitTensors (tblFinal inits inputs outputs vis quant outs) idxs = ps.map normTensor ∧
      serInitVIs (tblFinal inits inputs outputs vis quant outs) (inputs.map (·.name)) idxs
        = normInitVIs vis outputs (inputs.map (·.name)) ps ∧
      idxs.map (fun i => ((tblFinal inits inputs outputs vis quant outs).getD i (IRValue.blank "")).name)
        = ps.map (·.name) ∧
      idxs.flatMap (fun i => quantOf ((tblFinal inits inputs outputs vis quant outs).getD i (IRValue.blank "")))
        = normQuantFor quant (ps.map (·.name))
  | [], idxs, _, h => by
    cases idxs with
    | nil => exact ⟨rfl, rfl, rfl, rfl⟩
    | cons _ _ => simp at h
  | p :: ps, idxs, hsub, h => by
    cases idxs with
    | nil => simp at h
    | cons i idxs =>
      simp only [List.map_cons, List.cons.injEq] at h
      have hp : p ∈ inits := hsub p (by simp)
      obtain ⟨e1, e2, e3, e4⟩ := init_elem hw hp h.1.symm
      obtain ⟨r1, r2, r3, r4⟩ := ser_inits hw ps idxs (fun q hq => hsub q (List.mem_cons_of_mem _ hq)) h.2
      have hwp : wfTensor p = true ∧ validDType p.dataType = true := by
        have := List.all_eq_true.1 hw.wfInit p hp
        simpa [Bool.and_eq_true] using this
      have hspec := irT_spec p hwp.1
      refine ⟨?_, ?_, ?_, ?_⟩
      · simp only [serInitTensors, e2, e1, hspec.2.2.2, hspec.2.1, r1, List.map_cons,
          List.singleton_append]
      · simp only [serInitVIs, normInitVIs, r2, e1]
        congr 1
        by_cases hin : p.name ∈ inputs.map (·.name)
        · simp [hin]
        · have hv := e4 hin
          have hne : p.name ≠ "" := by
            apply hw.nonempty
            exact mem_scopeNames.2 (Or.inr (Or.inl ⟨List.mem_map_of_mem hp, hin⟩))
          have hnee : p.name.isEmpty = false := by simpa [String.isEmpty_iff] using hne
          have hc : (inputs.map (·.name)).contains p.name = false := by simpa using hin
          rw [hv]
          simp only [hc, Bool.false_eq_true, if_false, Bool.not_false, Bool.and_true]
          cases hfo : findVI outputs p.name with
          | some vo =>
            -- constant output: the value carries the info of the output entry
            have hvo := findVI_mem hfo
            have hsame := sameInfo_out_init hw hp hvo.1 hvo.2.symm
            rw [outUpd_of_mem hw.consOut hvo.1 (by simp [hvo.2])]
            rw [shouldCreateVI_congr hsame, serValue_congr hsame,
              shouldCreateVI_applyInfoT_blank vo (List.all_eq_true.1 hw.wfOut vo hvo.1),
              serValue_applyInfoT_blank vo (List.all_eq_true.1 hw.wfOut vo hvo.1), hvo.2, hnee]
            simp only [Bool.not_false, Bool.and_true]
          | none =>
            have hno : (initValT vis quant p).name ∉ outputs.map (·.name) := by
              simp only [initValT_name]
              exact findVI_none_iff.1 hfo
            rw [outUpd_id hno]
            have hs := serValue_initValT (quant := quant) hw.wfVis p (irT_dtype p hwp.1 hwp.2).2
            have hsc : shouldCreateVI (initValT vis quant p) = true := by
              have h2 := hs.2
              simp only [shouldCreateVI, initValT_name]
              cases ht : (initValT vis quant p).type with
              | none => rw [ht] at h2; cases h2
              | some _ => simp [hne]
            rw [hsc, hs.1]
            simp only [if_true]
            cases findVI vis p.name <;> rfl
      · simp only [List.map_cons, e1, r3]
      · simp only [List.flatMap_cons, List.map_cons, r4]
        rw [normQuantFor_cons quant p.name]
        congr 1
        have := quantOf_eq quant _ (by rw [e3, e1])
        rw [this, e1]

/-! ### node outputs -/

theorem mem_outIdxs (names : List String) (outputs : List ValueInfoP) (j : Nat) :
    j ∈ outIdxs (outputs.map (gOutT names)) ↔ ∃ vo ∈ outputs, lookupLast names vo.name = some j := by
  induction outputs with
  | nil => simp [outIdxs]
  | cons vo vos ih =>
    simp only [List.map_cons, gOutT]
    cases hl : lookupLast names vo.name with
    | none =>
      simp only [outIdxs, ih, List.mem_cons, exists_eq_or_imp, hl]
      simp
    | some i =>
      simp only [outIdxs, List.mem_cons, ih, exists_eq_or_imp, hl, Option.some.injEq]
      constructor
      · rintro (h | h)
        · exact Or.inl h.symm
        · exact Or.inr h
      · rintro (h | h)
        · exact Or.inl h.symm
        · exact Or.inr h

theorem outIs_contains (hw : GraphWF inits inputs outputs vis quant outs) {n : String} {j : Nat}
    (hj : lookupLast (scopeNames (inputs.map (·.name)) (inits.map (·.name)) outs) n = some j) :
    (outIdxs (outputs.map (gOutT (scopeNames (inputs.map (·.name)) (inits.map (·.name)) outs)))).contains j
      = (outputs.map (·.name)).contains n := by
  rw [Bool.eq_iff_iff]
  simp only [List.contains_eq_mem, decide_eq_true_eq, mem_outIdxs, List.mem_map]
  constructor
  · rintro ⟨vo, hvo, hl⟩
    have h1 := lookupLast_getElem hl
    have h2 := lookupLast_getElem hj
    rw [h1] at h2
    exact ⟨vo, hvo, by simpa using h2⟩
  · rintro ⟨vo, hvo, hn⟩
    exact ⟨vo, hvo, by rw [hn]; exact hj⟩

/-- the value of a node output that is not a graph output -/
theorem nodeout_elem (hw : GraphWF inits inputs outputs vis quant outs) {n : String} (hn : n ∈ outs)
    (hno : n ∉ outputs.map (·.name)) {j : Nat}
    (hj : lookupLast (scopeNames (inputs.map (·.name)) (inits.map (·.name)) outs) n = some j) :
    (tblFinal inits inputs outputs vis quant outs).getD j (IRValue.blank "") = newValueT vis quant n := by
  have hm := mem_tblFinal_out hw hn
  rw [outUpd_id (by simpa using hno)] at hm
  exact getD_tblFinal hw hj hm (by simp)

/-- S5 and the node-output annotations -/
theorem ser_nodeouts (hw : GraphWF inits inputs outputs vis quant outs) :
    ∀ os : List String, (∀ s ∈ os, s ≠ "" → s ∈ outs) →
      nodeOutVIs (tblFinal inits inputs outputs vis quant outs)
          (outIdxs (outputs.map (gOutT (scopeNames (inputs.map (·.name)) (inits.map (·.name)) outs))))
          (os.map (fun s => if s = "" then none
            else lookupLast (scopeNames (inputs.map (·.name)) (inits.map (·.name)) outs) s))
        = normNodeVIs vis (outputs.map (·.name)) (os.filter (· ≠ "")) ∧
      nodeOutQuant (tblFinal inits inputs outputs vis quant outs)
          (outIdxs (outputs.map (gOutT (scopeNames (inputs.map (·.name)) (inits.map (·.name)) outs))))
          (os.map (fun s => if s = "" then none
            else lookupLast (scopeNames (inputs.map (·.name)) (inits.map (·.name)) outs) s))
        = normQuantFor quant ((os.filter (· ≠ "")).filter (fun n => !(outputs.map (·.name)).contains n))
  | [], _ => ⟨rfl, rfl⟩
  | s :: os, hsub => by
    obtain ⟨r1, r2⟩ := ser_nodeouts hw os (fun t ht => hsub t (List.mem_cons_of_mem _ ht))
    by_cases hs : s = ""
    · subst hs
      simp only [List.map_cons, if_true, nodeOutVIs, nodeOutQuant, r1, r2]
      simp
    · have hso : s ∈ outs := hsub s (by simp) hs
      have hsN : s ∈ scopeNames (inputs.map (·.name)) (inits.map (·.name)) outs :=
        mem_scopeNames.2 (Or.inr (Or.inr hso))
      obtain ⟨j, hj⟩ := lookupLast_exists hsN
      have hf : (s :: os).filter (· ≠ "") = s :: os.filter (· ≠ "") := by simp [hs]
      simp only [List.map_cons, hs, if_false, hj, nodeOutVIs, nodeOutQuant, r1, r2, hf,
        outIs_contains hw hj, normNodeVIs]
      by_cases hout : s ∈ outputs.map (·.name)
      · have hc : (List.map (fun x => x.name) outputs).contains s = true := by simpa using hout
        simp only [hc, if_true, List.nil_append, List.filter_cons, Bool.not_true, Bool.false_eq_true,
          if_false, and_self]
      · have hv := nodeout_elem hw hso hout hj
        have hc : (List.map (fun x => x.name) outputs).contains s = false := by simpa using hout
        simp only [hc, Bool.false_eq_true, if_false, hv, List.filter_cons, Bool.not_false, if_true]
        constructor
        · congr 1
          have hsame : sameInfo (newValueT vis quant s)
              (match findVI vis s with
               | some vi => applyInfoT (IRValue.blank s) vi
               | none => IRValue.blank s) := sameInfo_applyQuant quant _
          rw [shouldCreateVI_congr hsame, serValue_congr hsame]
          cases hfv : findVI vis s with
          | none => simp [shouldCreateVI, IRValue.blank]
          | some vi =>
            have hvi := findVI_mem hfv
            have hwf := List.all_eq_true.1 hw.wfVis vi hvi.1
            have e1 := serValue_applyInfoT_blank vi hwf
            have e2 := shouldCreateVI_applyInfoT_blank vi hwf
            rw [hvi.2] at e1 e2
            simp only [e1, e2]
            have : s.isEmpty = false := by simpa [String.isEmpty_iff] using hs
            simp [this]
        · rw [normQuantFor_cons quant s]
          congr 1
          have hm := mem_tblFinal_out hw hso
          rw [outUpd_id (by simpa using hout)] at hm
          have := quantOf_eq quant _ (quant_tblFinal hw hm)
          simpa using this

/-! ### the annotation loops (D29 fixed: `seen` = the values already annotated) -/

theorem quantOnce_spec (tbl : List IRValue) : ∀ (is seen : List Nat), is.Nodup → (∀ i ∈ is, i ∉ seen) →
    quantOnce tbl is seen =
      (is.flatMap (fun i => quantOf (tbl.getD i (IRValue.blank ""))), is.reverse ++ seen)
  | [], seen, _, _ => by simp [quantOnce]
  | i :: is, seen, hnd, hdis => by
    rw [List.nodup_cons] at hnd
    have hi : seen.contains i = false := by simpa using hdis i (by simp)
    simp only [quantOnce, hi, Bool.not_false, if_true]
    rw [quantOnce_spec tbl is (i :: seen) hnd.2
      (by intro k hk hm
          rcases List.mem_cons.1 hm with rfl | hm
          · exact hnd.1 hk
          · exact hdis k (List.mem_cons_of_mem _ hk) hm)]
    simp

theorem quantInputs_spec (tbl : List IRValue) (initNames : List String) :
    ∀ (is seen : List Nat), is.Nodup → (∀ i ∈ is, i ∉ seen) →
    quantInputs tbl initNames is seen =
      ((is.filter (fun i => !initNames.contains (tbl.getD i (IRValue.blank "")).name)).flatMap
          (fun i => quantOf (tbl.getD i (IRValue.blank ""))),
        (is.filter (fun i => !initNames.contains (tbl.getD i (IRValue.blank "")).name)).reverse ++ seen)
  | [], seen, _, _ => by simp [quantInputs]
  | i :: is, seen, hnd, hdis => by
    rw [List.nodup_cons] at hnd
    have hi : seen.contains i = false := by simpa using hdis i (by simp)
    by_cases hc : initNames.contains (tbl.getD i (IRValue.blank "")).name = true
    · simp only [quantInputs, hc, Bool.not_true, Bool.false_and, Bool.false_eq_true, if_false,
        List.filter_cons]
      exact quantInputs_spec tbl initNames is seen hnd.2
        (fun k hk => hdis k (List.mem_cons_of_mem _ hk))
    · have hc' : initNames.contains (tbl.getD i (IRValue.blank "")).name = false := by
        simpa using hc
      simp only [quantInputs, hc', hi, Bool.not_false, Bool.and_self, if_true, List.filter_cons]
      rw [quantInputs_spec tbl initNames is (i :: seen) hnd.2
        (by intro k hk hm
            rcases List.mem_cons.1 hm with rfl | hm
            · exact hnd.1 hk
            · exact hdis k (List.mem_cons_of_mem _ hk) hm)]
      simp

theorem normQuantFor_single_none {q : List AnnotP} {n : String} (h : findAnnot q n = none) :
    normQuantFor q [n] = [] := by
  simp [normQuantFor, h]

theorem filter_ne_filter {l : List String} {q : String → Bool} {n : String} (h : q n = false) :
    (l.filter (· ≠ n)).filter q = l.filter q := by
  rw [List.filter_filter]
  apply List.filter_congr
  intro m _
  by_cases hm : m = n
  · subst hm; simp [h]
  · simp [hm]

/-- the output names the output loop annotates: the first occurrences (`sn` = the names already met) of
the names that satisfy `P` -/
def qNames (P : String → Bool) : List String → List String → List String
  | [], _ => []
  | n :: ns, sn => if P n && !sn.contains n then n :: qNames P ns (n :: sn) else qNames P ns sn

theorem qNames_eq (P : String → Bool) : ∀ (l sn : List String),
    qNames P l sn = ((dedupStr l).filter (fun n => !sn.contains n)).filter P
  | [], _ => rfl
  | n :: ns, sn => by
    simp only [qNames, dedupStr]
    by_cases hc : (P n && !sn.contains n) = true
    · simp only [hc, if_true]
      simp only [Bool.and_eq_true, Bool.not_eq_true'] at hc
      rw [qNames_eq P ns (n :: sn)]
      simp only [List.filter_cons, hc.1, hc.2, Bool.not_false, if_true]
      congr 1
      rw [List.filter_filter, List.filter_filter, List.filter_filter]
      apply List.filter_congr
      intro m _
      by_cases hm : m = n
      · simp [hm]
      · simp [hm, List.contains_cons]
    · simp only [hc, Bool.false_eq_true, if_false]
      rw [qNames_eq P ns sn]
      have hq : (fun a => P a && !sn.contains a) n = false := by simpa using hc
      simp only [List.filter_filter]
      rw [List.filter_cons]
      simp only [hq, Bool.false_eq_true, if_false]
      exact (filter_ne_filter hq).symm

/-- the output loop of the annotations.  Entries may repeat a name (E4): a value is annotated once (the
`seen` list of the serializer; `sn` = the corresponding names). -/
theorem quantOutputs_spec (hw : GraphWF inits inputs outputs vis quant outs) :
    ∀ (vos : List ValueInfoP) (seen : List Nat) (sn : List String), (∀ vo ∈ vos, vo ∈ outputs) →
      (∀ vo ∈ vos, ∀ j, lookupLast (scopeNames (inputs.map (·.name)) (inits.map (·.name)) outs) vo.name
          = some j → (vo.name ∈ inputs.map (·.name) ∨ vo.name ∈ inits.map (·.name) → j ∈ seen)
            ∧ (vo.name ∉ inputs.map (·.name) → vo.name ∉ inits.map (·.name) →
                (j ∈ seen ↔ vo.name ∈ sn))) →
      quantOutputs (tblFinal inits inputs outputs vis quant outs)
          (vos.map (gOutT (scopeNames (inputs.map (·.name)) (inits.map (·.name)) outs))) seen
        = normQuantFor quant (qNames
            (fun n => !(inputs.map (·.name)).contains n && !(inits.map (·.name)).contains n)
            (vos.map (·.name)) sn)
  | [], _, _, _, _ => rfl
  | vo :: vos, seen, sn, hsub, hdis => by
    have hvo : vo ∈ outputs := hsub vo (by simp)
    have hsub' : ∀ v ∈ vos, v ∈ outputs := fun v hv => hsub v (List.mem_cons_of_mem _ hv)
    rw [List.map_cons, List.map_cons]
    simp only [gOutT, qNames]
    cases hl : lookupLast (scopeNames (inputs.map (·.name)) (inits.map (·.name)) outs) vo.name with
    | none =>
      -- a graph output nobody produces carries no annotation, and none is declared for its name
      have hnm : vo.name ∉ scopeNames (inputs.map (·.name)) (inits.map (·.name)) outs := by
        intro hm
        obtain ⟨i, hi⟩ := lookupLast_exists hm
        rw [hl] at hi; cases hi
      have hfa : findAnnot quant vo.name = none := by
        cases hf : findAnnot quant vo.name with
        | none => rfl
        | some a =>
          have := findAnnot_name hf
          exact absurd (by rw [← this.2]; exact (hw.quantOK a this.1).1) hnm
      have hq0 : quantOf (applyInfoT (IRValue.blank vo.name) vo) = [] := by
        simp [quantOf, applyInfoT, IRValue.blank]
      simp only [quantOutputs, hq0, List.nil_append]
      -- the names of `sn` play no role for the values of the scope
      have hdis' : ∀ (sn' : List String), (∀ m, m ∈ sn' ↔ m ∈ sn ∨ m = vo.name) → ∀ v ∈ vos, ∀ j,
          lookupLast (scopeNames (inputs.map (·.name)) (inits.map (·.name)) outs) v.name = some j →
          (v.name ∈ inputs.map (·.name) ∨ v.name ∈ inits.map (·.name) → j ∈ seen)
            ∧ (v.name ∉ inputs.map (·.name) → v.name ∉ inits.map (·.name) → (j ∈ seen ↔ v.name ∈ sn')) := by
        intro sn' hsn' v hv j hj
        obtain ⟨a, b⟩ := hdis v (List.mem_cons_of_mem _ hv) j hj
        refine ⟨a, fun h h' => ?_⟩
        rw [b h h', hsn']
        constructor
        · exact Or.inl
        · rintro (h1 | h1)
          · exact h1
          · exact absurd (by rw [← h1]; exact lookupLast_mem hj) hnm
      split
      · rw [quantOutputs_spec hw vos seen (vo.name :: sn) hsub'
          (hdis' (vo.name :: sn) (fun m => by simp [or_comm])),
          normQuantFor_cons quant vo.name, normQuantFor_single_none hfa]
        rfl
      · exact quantOutputs_spec hw vos seen sn hsub'
          (fun v hv j hj => hdis v (List.mem_cons_of_mem _ hv) j hj)
    | some j =>
      obtain ⟨hdin, hdout⟩ := hdis vo (by simp) j hl
      by_cases hin : vo.name ∈ inputs.map (·.name) ∨ vo.name ∈ inits.map (·.name)
      · -- pass-through / constant output: the input loop or the initializer loop annotated this
        -- value already
        have hj : seen.contains j = true := by simpa using hdin hin
        have hc1 : (!(inputs.map (·.name)).contains vo.name && !(inits.map (·.name)).contains vo.name)
            = false := by
          rcases hin with h | h
          · have : (inputs.map (·.name)).contains vo.name = true := by simpa using h
            rw [this]; rfl
          · have : (inits.map (·.name)).contains vo.name = true := by simpa using h
            rw [this]; simp
        simp only [quantOutputs, hj, Bool.not_true, Bool.false_eq_true, if_false, hc1, Bool.false_and]
        exact quantOutputs_spec hw vos seen sn hsub'
          (fun v hv k hk => hdis v (List.mem_cons_of_mem _ hv) k hk)
      · have hno2 : vo.name ∉ inits.map (·.name) := fun h => hin (Or.inr h)
        have hin : vo.name ∉ inputs.map (·.name) := fun h => hin (Or.inl h)
        have hc1 : (inputs.map (·.name)).contains vo.name = false := by simpa using hin
        have hc2 : (inits.map (·.name)).contains vo.name = false := by simpa using hno2
        have hiff := hdout hin hno2
        by_cases hjs : seen.contains j = true
        · -- a later entry of a repeated name: the value was annotated by an earlier entry
          have hsn : sn.contains vo.name = true := by simpa using hiff.1 (by simpa using hjs)
          simp only [quantOutputs, hjs, Bool.not_true, Bool.false_eq_true, if_false, hc1, hc2,
            Bool.not_false, Bool.true_and, hsn]
          exact quantOutputs_spec hw vos seen sn hsub'
            (fun v hv k hk => hdis v (List.mem_cons_of_mem _ hv) k hk)
        have hj : seen.contains j = false := by simpa using hjs
        have hsn : sn.contains vo.name = false := by
          cases hs : sn.contains vo.name with
          | false => rfl
          | true => exact absurd (by simpa using hiff.2 (by simpa using hs)) hjs
        simp only [quantOutputs, hj, Bool.not_false, if_true, hc1, hc2, Bool.and_self, hsn]
        rw [quantOutputs_spec hw vos (j :: seen) (vo.name :: sn) hsub'
          (by intro v hv k hk
              obtain ⟨a, b⟩ := hdis v (List.mem_cons_of_mem _ hv) k hk
              refine ⟨fun h => List.mem_cons_of_mem _ (a h), fun h h' => ?_⟩
              have hkj : k = j ↔ v.name = vo.name := by
                constructor
                · intro e
                  subst e
                  have h1 := lookupLast_getElem hk
                  have h2 := lookupLast_getElem hl
                  rw [h1] at h2
                  exact Option.some.inj h2
                · intro e
                  rw [e, hl] at hk
                  exact (Option.some.inj hk).symm
              simp only [List.mem_cons, hkj, b h h']),
          normQuantFor_cons quant vo.name]
        congr 1
        have hmem := lookupLast_mem hl
        have hout : vo.name ∈ outs := by
          rcases mem_scopeNames.1 hmem with h | h | h
          · exact absurd h hin
          · exact absurd h.1 hno2
          · exact h
        have hv := mem_tblFinal_out hw hout
        have hname : (outUpd outputs (newValueT vis quant vo.name)).name = vo.name := by simp
        rw [getD_tblFinal hw hl hv hname]
        have := quantOf_eq quant _ (quant_tblFinal hw hv)
        rw [this, hname]

/-! ### assembling the graph round trip -/

theorem nodupStr_all_nonempty {l : List String} (h : l.all (fun n => !n.isEmpty) = true) :
    ∀ n ∈ l, n ≠ "" := by
  intro n hn e
  have := List.all_eq_true.1 h n hn
  simp [e] at this

theorem graphWF_of_wf (outer : Scopes) (name doc : String) (nodes : List NodeP)
    (inits : List TensorP) (inputs outputs vis : List ValueInfoP) (quant : List AnnotP)
    (metadata : List Entry)
    (h : wfGraph outer (.mk name doc nodes inits inputs outputs vis quant metadata) = true) :
    GraphWF inits inputs outputs vis quant (nodeOutNames nodes) ∧
      wfNodes (scopeNames (inputs.map (·.name)) (inits.map (·.name)) (nodeOutNames nodes) :: outer) nodes
        = true := by
  simp only [wfGraph, Bool.and_eq_true] at h
  obtain ⟨⟨⟨⟨⟨⟨⟨⟨⟨⟨⟨⟨⟨h1, h2⟩, h3⟩, h4⟩, h5⟩, h6⟩, h7⟩, h8⟩, h9⟩, h11⟩, h12⟩, h13⟩, _h14⟩, h15⟩ := h
  refine ⟨⟨nodupStr_iff.1 h1, nodupStr_all_nonempty h2, nodupStr_iff.1 h3, h4, h5, h6, nodupStr_iff.1 h7,
    ?_, consOutputs_iff.1 h9, h11, nodupStr_iff.1 h12, ?_⟩, h15⟩
  · intro vi hvi
    have := List.all_eq_true.1 h8 vi hvi
    simpa using this
  · intro a ha
    have := List.all_eq_true.1 h13 a ha
    simp only [Bool.and_eq_true, List.contains_eq_mem, decide_eq_true_eq, Bool.not_eq_true',
      List.isEmpty_eq_false_iff] at this
    exact ⟨this.1.1, this.1.2, this.2⟩

theorem dedupNat_of_nodup {l : List Nat} (h : l.Nodup) : dedupNat l = l := by
  induction l with
  | nil => rfl
  | cons x xs ih =>
    rw [List.nodup_cons] at h
    simp only [dedupNat, ih h.2]
    congr 1
    rw [List.filter_eq_self]
    intro y hy
    simp only [ne_eq, decide_not, Bool.not_eq_eq_eq_not, Bool.not_true, decide_eq_false_iff_not]
    intro e; subst e; exact h.1 hy

theorem normQuantFor_map {α : Type} (q : List AnnotP) (f : α → String) (l : List α) :
    normQuantFor q (l.map f) = l.flatMap (fun x => normQuantFor q [f x]) := by
  induction l with
  | nil => rfl
  | cons x xs ih => rw [List.map_cons, normQuantFor_cons, ih]; rfl

theorem tableNames_inputVals (q : List AnnotP) (inputs : List ValueInfoP) :
    tableNames (inputs.map (inputValT q)) = inputs.map (·.name) := by
  simp [tableNames, List.map_map, Function.comp_def]

theorem getD_name_of_lookup (tbl : List IRValue) {n : String} {j : Nat}
    (h : lookupLast (tableNames tbl) n = some j) : (tbl.getD j (IRValue.blank "")).name = n := by
  have h1 := lookupLast_getElem h
  have hlt := lookupLast_lt h
  simp only [tableNames, List.length_map] at hlt
  simp only [tableNames, List.getElem?_map, List.getElem?_eq_getElem hlt, Option.map_some,
    Option.some.injEq] at h1
  simp [List.getD, List.getElem?_eq_getElem hlt, h1]

theorem lookupLast_append_left {l r : List String} {n : String} (h : n ∉ r) :
    lookupLast (l ++ r) n = lookupLast l n := by
  induction l with
  | nil => simp [lookupLast, lookupLast_none h]
  | cons x xs ih => simp only [List.cons_append, lookupLast, ih]

theorem nodup_of_map {α β : Type} (f : α → β) {l : List α} (h : (l.map f).Nodup) : l.Nodup := by
  induction l with
  | nil => simp
  | cons x xs ih =>
    simp only [List.map_cons, List.nodup_cons] at h ⊢
    exact ⟨fun hx => h.1 (List.mem_map_of_mem hx), ih h.2⟩

theorem flatMap_congr' {α β : Type} {f g : α → List β} {l : List α} (h : ∀ a ∈ l, f a = g a) :
    l.flatMap f = l.flatMap g := by
  induction l with
  | nil => rfl
  | cons x xs ih =>
    simp only [List.flatMap_cons, h x (by simp), ih (fun a ha => h a (List.mem_cons_of_mem _ ha))]

theorem graph_core (outer : Scopes) (ver : Option Int) (name doc : String) (nodes : List NodeP)
    (inits : List TensorP) (inputs outputs vis : List ValueInfoP) (quant : List AnnotP)
    (metadata : List Entry)
    (hwf : wfGraph outer (.mk name doc nodes inits inputs outputs vis quant metadata) = true)
    (hnodes : NodesOK outer vis quant nodes ver) :
    ∃ x, desGraph outer (.mk name doc nodes inits inputs outputs vis quant metadata) = .ok x ∧
      serGraph outer ver x = .ok (normGraph (.mk name doc nodes inits inputs outputs vis quant metadata)) := by
  obtain ⟨hw, hwn⟩ := graphWF_of_wf outer name doc nodes inits inputs outputs vis quant metadata hwf
  -- names
  have hNpre := tableNames_tblPre (inits := inits) (inputs := inputs) (vis := vis) (quant := quant)
    (outs := nodeOutNames nodes)
  have hNfin := tableNames_tblFinal (inits := inits) (inputs := inputs) (outputs := outputs) (vis := vis)
    (quant := quant) (outs := nodeOutNames nodes)
  have hnd := hw.nodupNames
  simp only [scopeNames] at hnd
  rw [List.nodup_append] at hnd
  obtain ⟨hndAB, hndC, hdisC⟩ := hnd
  rw [List.nodup_append] at hndAB
  obtain ⟨hndA, _hndB, _hdisB⟩ := hndAB
  -- phase A, T
  have hA := desGraphInputs_eq quant inputs hw.wfIn
  have hwfT : inits.all wfTensor = true := by
    rw [List.all_eq_true]
    intro p hp
    have := List.all_eq_true.1 hw.wfInit p hp
    simp only [Bool.and_eq_true] at this
    exact this.1
  have hT := desTensors_eq inits hwfT
  -- phase B
  have hne : ∀ p ∈ inits, p.name ≠ "" := by
    intro p hp
    apply hw.nonempty
    by_cases hin : p.name ∈ inputs.map (·.name)
    · exact mem_scopeNames.2 (Or.inl hin)
    · exact mem_scopeNames.2 (Or.inr (Or.inl ⟨List.mem_map_of_mem hp, hin⟩))
  obtain ⟨idxs, hB, hidx⟩ := desInitializers_spec vis quant hw.wfVis inits (inputs.map (inputValT quant))
    hw.wfInit hne hw.nodupInit (by rw [tableNames_inputVals]; exact hndA)
  rw [tableNames_inputVals] at hB hidx
  -- phase C
  have hNB : tableNames ((inputs.map (inputValT quant)).map (constFrom inits)
      ++ (newInits (inputs.map (·.name)) inits).map (initValT vis quant))
      = inputs.map (·.name) ++ (inits.map (·.name)).filter (fun n => !(inputs.map (·.name)).contains n) := by
    simp only [tableNames, List.map_append, List.map_map]
    congr 1
    · apply List.map_congr_left; intro vi _; simp
    · rw [← newInits_names]
      apply List.map_congr_left; intro p _; simp
  have hC := declareAll_spec vis quant hw.wfVis nodes
    ((inputs.map (inputValT quant)).map (constFrom inits)
      ++ (newInits (inputs.map (·.name)) inits).map (initValT vis quant))
    (by intro n hn hm; rw [hNB] at hm; exact hdisC n hm n hn rfl) hndC
  -- phase D
  obtain ⟨xs, hD1, hD2, hD3⟩ := hnodes (tblPre inits inputs vis quant (nodeOutNames nodes))
    (by rw [hNpre]; exact hwn)
  rw [hNpre] at hD2 hD3
  -- phase E
  have hE := desGraphOutputs_spec outputs (tblPre inits inputs vis quant (nodeOutNames nodes))
    hw.wfOut hw.consOut (by rw [hNpre]; exact hw.nodupNames)
  rw [hNpre] at hE
  refine ⟨IRGraph.mk (tblFinal inits inputs outputs vis quant (nodeOutNames nodes))
    (List.range inputs.length) (dedupNat idxs) xs
    (outputs.map (gOutT (scopeNames (inputs.map (·.name)) (inits.map (·.name)) (nodeOutNames nodes))))
    name doc [] (dictOfEntries metadata), ?_, ?_⟩
  · simp only [desGraph, hA, hT, hB, hC, bind, Except.bind]
    have : (inputs.map (inputValT quant)).map (constFrom inits)
        ++ (newInits (inputs.map (·.name)) inits).map (initValT vis quant)
        ++ (nodeOutNames nodes).map (newValueT vis quant)
        = tblPre inits inputs vis quant (nodeOutNames nodes) := rfl
    simp only [this, hD1, hE]
    rfl
  · -- serialization
    have hidx' : idxs.map some = inits.map (fun p => lookupLast
        (scopeNames (inputs.map (·.name)) (inits.map (·.name)) (nodeOutNames nodes)) p.name) := by
      rw [hidx, hNB]
      apply List.map_congr_left
      intro p hp
      simp only [scopeNames]
      symm
      apply lookupLast_append_left
      intro hm
      have hpAB : p.name ∈ inputs.map (·.name)
          ++ (inits.map (·.name)).filter (fun n => !(inputs.map (·.name)).contains n) := by
        by_cases hin : p.name ∈ inputs.map (·.name)
        · exact List.mem_append_left _ hin
        · refine List.mem_append_right _ (List.mem_filter.2 ⟨List.mem_map_of_mem hp, by simpa using hin⟩)
      exact hdisC _ hpAB _ hm rfl
    obtain ⟨s1, s2, s3, s4⟩ := ser_inits hw inits idxs (fun p hp => hp) hidx'
    have hidxnd : idxs.Nodup := by
      have : (idxs.map (fun i => ((tblFinal inits inputs outputs vis quant (nodeOutNames nodes)).getD i
          (IRValue.blank "")).name)).Nodup := by rw [s3]; exact hw.nodupInit
      exact nodup_of_map _ this
    have f_idx := dedupNat_of_nodup hidxnd
    have hlen : inputs.length ≤ (tblFinal inits inputs outputs vis quant (nodeOutNames nodes)).length := by
      simp [tblFinal, tblPre]
    have htake : (tblFinal inits inputs outputs vis quant (nodeOutNames nodes)).take inputs.length
        = inputs.map (fun vi => outUpd outputs (constFrom inits (inputValT quant vi))) := by
      simp only [tblFinal, tblPre, List.map_append, List.append_assoc, List.map_map]
      apply List.take_left'
      simp
    have f_inputNames : (List.range inputs.length).map (fun i =>
        ((tblFinal inits inputs outputs vis quant (nodeOutNames nodes)).getD i (IRValue.blank "")).name)
        = inputs.map (·.name) := by
      rw [map_range_getD _ _ (fun v : IRValue => v.name) _ hlen, htake, List.map_map]
      apply List.map_congr_left; intro vi _; simp
    -- the input loop of the annotations
    have f_qin := quantInputs_spec (tblFinal inits inputs outputs vis quant (nodeOutNames nodes))
      (inits.map (·.name)) (List.range inputs.length) [] List.nodup_range (by simp)
    have f_qin_val :
        ((List.range inputs.length).filter (fun i => !(inits.map (·.name)).contains
            ((tblFinal inits inputs outputs vis quant (nodeOutNames nodes)).getD i (IRValue.blank "")).name)).flatMap
          (fun i => quantOf ((tblFinal inits inputs outputs vis quant (nodeOutNames nodes)).getD i (IRValue.blank "")))
        = normQuantFor quant ((inputs.map (·.name)).filter (fun n => !(inits.map (·.name)).contains n)) := by
      have hmap : (List.range inputs.length).map
          (fun i => (tblFinal inits inputs outputs vis quant (nodeOutNames nodes)).getD i (IRValue.blank ""))
          = inputs.map (fun vi => outUpd outputs (constFrom inits (inputValT quant vi))) := by
        have := map_range_getD (tblFinal inits inputs outputs vis quant (nodeOutNames nodes))
          (IRValue.blank "") id inputs.length hlen
        simpa [htake] using this
      have h1 : ∀ (l : List Nat) (f : Nat → IRValue) (P : IRValue → Bool) (g : IRValue → List AnnotP),
          (l.filter (fun i => P (f i))).flatMap (fun i => g (f i)) = ((l.map f).filter P).flatMap g := by
        intro l f P g
        induction l with
        | nil => rfl
        | cons x xs ih =>
          simp only [List.filter_cons, List.map_cons]
          split <;> simp [ih]
      rw [h1 (List.range inputs.length)
        (fun i => (tblFinal inits inputs outputs vis quant (nodeOutNames nodes)).getD i (IRValue.blank ""))
        (fun v => !(inits.map (·.name)).contains v.name) quantOf, hmap]
      rw [← filter_map_comm (·.name) (fun n => !(inits.map (·.name)).contains n) inputs, normQuantFor_map]
      have h2 : (inputs.map (fun vi => outUpd outputs (constFrom inits (inputValT quant vi)))).filter
          (fun v => !(inits.map (·.name)).contains v.name)
          = (inputs.filter (fun vi => !(inits.map (·.name)).contains vi.name)).map
            (fun vi => outUpd outputs (constFrom inits (inputValT quant vi))) := by
        rw [← filter_map_comm (fun vi => outUpd outputs (constFrom inits (inputValT quant vi)))
          (fun v => !(inits.map (·.name)).contains v.name) inputs]
        simp
      rw [h2, List.flatMap_map]
      apply flatMap_congr'
      intro vi hvi
      have hvi' : vi ∈ inputs := (List.mem_filter.1 hvi).1
      have hm := mem_tblFinal_input hw hvi'
      have := quantOf_eq quant _ (quant_tblFinal hw hm)
      simpa [inFinal] using this
    -- the initializer loop of the annotations
    have hseen1 : ∀ i ∈ idxs, i ∉ ((List.range inputs.length).filter (fun i => !(inits.map (·.name)).contains
        ((tblFinal inits inputs outputs vis quant (nodeOutNames nodes)).getD i (IRValue.blank "")).name)).reverse ++ [] := by
      intro i hi hm
      simp only [List.append_nil, List.mem_reverse, List.mem_filter, Bool.not_eq_true',
        List.contains_eq_mem, decide_eq_false_iff_not] at hm
      apply hm.2
      rw [← s3]
      exact List.mem_map_of_mem (f := fun i => ((tblFinal inits inputs outputs vis quant
        (nodeOutNames nodes)).getD i (IRValue.blank "")).name) hi
    have f_qinit := quantOnce_spec (tblFinal inits inputs outputs vis quant (nodeOutNames nodes)) idxs _
      hidxnd hseen1
    -- node outputs
    have hos : ∀ s ∈ nodes.flatMap NodeP.outputs, s ≠ "" → s ∈ nodeOutNames nodes := by
      intro s hs hne'
      simp only [nodeOutNames, List.mem_filter]
      exact ⟨hs, by simpa using hne'⟩
    obtain ⟨n1, n2⟩ := ser_nodeouts hw (nodes.flatMap NodeP.outputs) hos
    have hnon : (nodes.flatMap NodeP.outputs).filter (· ≠ "") = nodeOutNames nodes := rfl
    rw [hnon] at n1 n2
    -- the output loop of the annotations
    have f_qout := quantOutputs_spec hw outputs
      (idxs.reverse ++ (((List.range inputs.length).filter (fun i => !(inits.map (·.name)).contains
        ((tblFinal inits inputs outputs vis quant (nodeOutNames nodes)).getD i (IRValue.blank "")).name)).reverse ++ []))
      [] (fun _ h => h)
      (by
        intro vo hvo j hj
        have hjname := getD_name_of_lookup (tblFinal inits inputs outputs vis quant (nodeOutNames nodes))
          (by rw [hNfin]; exact hj)
        refine ⟨fun hin0 => ?_, fun hin hno2 => ⟨fun hm => False.elim ?_, fun h => by cases h⟩⟩
        · -- a pass-through / constant output: its value was annotated by the input or the
          -- initializer loop
          simp only [List.append_nil, List.mem_append, List.mem_reverse, List.mem_filter,
            List.mem_range]
          by_cases hinit : vo.name ∈ inits.map (·.name)
          · left
            obtain ⟨p, hp, hpn⟩ := List.mem_map.1 hinit
            have : some j ∈ idxs.map some := by
              rw [hidx']
              exact List.mem_map.2 ⟨p, hp, by simp only [hpn]; exact hj⟩
            simpa using this
          · right
            have hin : vo.name ∈ inputs.map (·.name) := hin0.resolve_right hinit
            have hlt : j < inputs.length := by
              have hnB : vo.name ∉ (inits.map (·.name)).filter (fun n => !(inputs.map (·.name)).contains n)
                  ++ nodeOutNames nodes := by
                intro hm
                rcases List.mem_append.1 hm with hm | hm
                · exact hinit (List.mem_filter.1 hm).1
                · exact hdisC _ (List.mem_append_left _ hin) _ hm rfl
              have h1 : lookupLast (inputs.map (·.name)) vo.name = some j := by
                rw [← lookupLast_append_left hnB]
                simpa [scopeNames, List.append_assoc] using hj
              simpa using lookupLast_lt h1
            refine ⟨hlt, ?_⟩
            rw [hjname]
            simpa using hinit
        · simp only [List.append_nil, List.mem_append, List.mem_reverse, List.mem_filter,
            List.mem_range] at hm
          rcases hm with hm | hm
          · apply hno2
            rw [← hjname, ← s3]
            exact List.mem_map_of_mem (f := fun i => ((tblFinal inits inputs outputs vis quant
              (nodeOutNames nodes)).getD i (IRValue.blank "")).name) hm
          · apply hin
            rw [← hjname, ← f_inputNames]
            exact List.mem_map_of_mem (f := fun i => ((tblFinal inits inputs outputs vis quant
              (nodeOutNames nodes)).getD i (IRValue.blank "")).name) (List.mem_range.2 hm.1))
    have hft : ∀ l : List String, l.filter (fun n => !([] : List String).contains n) = l := by
      intro l; simp
    rw [qNames_eq, hft] at f_qout
    simp only [serGraph, hNfin, f_idx, s3, f_inputNames, f_qin, f_qinit, hD2, hD3, n1, n2, f_qout, s1,
      s2, ser_inputs hw, ser_outputs hw, bind, Except.bind, normGraph, f_qin_val, s4, normEntries,
      normQuantFor_append]

end IrVerif.Serde

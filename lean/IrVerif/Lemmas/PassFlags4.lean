/-
C14 (deepening): RemoveUnusedOpsetsPass / RemoveUnusedFunctionsPass (own transcriptions) and the honesty of
the `modified` flag of NameFixPass on C15's model of the pass.  Core Lean only.
-/
import IrVerif.Model.PassFlags2
import IrVerif.Model.Names
namespace IrVerif.PassFlags

/-! ## list facts -/

theorem filter_of_any_false {α : Type} (p : α → Bool) : ∀ l : List α,
    l.any (fun a => !p a) = false → l.filter p = l
  | [], _ => rfl
  | a :: l, h => by
    simp only [List.any_cons, Bool.or_eq_false_iff, Bool.not_eq_eq_eq_not, Bool.not_false] at h
    simp only [List.filter_cons, h.1, if_true, filter_of_any_false p l h.2]

theorem filter_lt_of_any {α : Type} (p : α → Bool) : ∀ l : List α,
    l.any (fun a => !p a) = true → (l.filter p).length < l.length
  | [], h => by simp at h
  | a :: l, h => by
    have hle := List.length_filter_le p l
    simp only [List.filter_cons]
    cases hp : p a
    · simp only [Bool.false_eq_true, if_false, List.length_cons]; omega
    · simp only [List.any_cons, hp, Bool.not_true, Bool.false_or] at h
      have := filter_lt_of_any p l h
      simp only [if_true, List.length_cons]; omega

theorem any_not_filter {α : Type} (p : α → Bool) (l : List α) :
    (l.filter p).any (fun a => !p a) = false := by
  rw [List.any_eq_false]
  intro a ha
  simp [(List.mem_filter.1 ha).2]

/-! ## RemoveUnusedOpsets -/

theorem opsetsGL_false (seed : List String) (g : OpsetGL) (h : (opsetsGL seed g).2 = false) :
    (opsetsGL seed g).1 = g := by
  cases g with
  | mk imports domains =>
    simp only [opsetsGL] at h ⊢
    rw [filter_of_any_false _ imports h]

theorem opsetsGL_idem (seed : List String) (g : OpsetGL) :
    opsetsGL seed (opsetsGL seed g).1 = ((opsetsGL seed g).1, false) := by
  cases g with
  | mk imports domains =>
    simp only [opsetsGL, List.filter_filter, Bool.and_self, any_not_filter]

theorem opsetsGL_size (seed : List String) (g : OpsetGL) :
    (opsetsGL seed g).1.imports.length ≤ g.imports.length ∧
    ((opsetsGL seed g).2 = true → (opsetsGL seed g).1.imports.length < g.imports.length) := by
  cases g with
  | mk imports domains =>
    exact ⟨List.length_filter_le _ _, fun h => filter_lt_of_any _ imports h⟩

theorem funcs_false : ∀ fs : List (String × OpsetGL), fs.any (fun f => (opsetsGL [""] f.2).2) = false →
    fs.map (fun f => (f.1, (opsetsGL [""] f.2).1)) = fs
  | [], _ => rfl
  | f :: fs, h => by
    simp only [List.any_cons, Bool.or_eq_false_iff] at h
    simp only [List.map_cons, opsetsGL_false [""] f.2 h.1, funcs_false fs h.2]

theorem funcs_idem : ∀ fs : List (String × OpsetGL),
    (fs.map (fun f => (f.1, (opsetsGL [""] f.2).1))).map (fun f => (f.1, (opsetsGL [""] f.2).1)) =
      fs.map (fun f => (f.1, (opsetsGL [""] f.2).1)) ∧
    (fs.map (fun f => (f.1, (opsetsGL [""] f.2).1))).any (fun f => (opsetsGL [""] f.2).2) = false ∧
    (fs.map (fun f => (f.1, (opsetsGL [""] f.2).1))).map Prod.fst = fs.map Prod.fst
  | [] => ⟨rfl, rfl, rfl⟩
  | f :: fs => by
    obtain ⟨h1, h2, h3⟩ := funcs_idem fs
    have hi := opsetsGL_idem [""] f.2
    refine ⟨?_, ?_, ?_⟩
    · simp only [List.map_cons, h1, hi]
    · simp only [List.map_cons, List.any_cons, hi, h2, Bool.or_self]
    · simp only [List.map_cons, h3]

theorem funcs_size : ∀ fs : List (String × OpsetGL),
    ((fs.map (fun f => (f.1, (opsetsGL [""] f.2).1))).map (fun f => f.2.imports.length)).sum ≤
      (fs.map (fun f => f.2.imports.length)).sum ∧
    (fs.any (fun f => (opsetsGL [""] f.2).2) = true →
      ((fs.map (fun f => (f.1, (opsetsGL [""] f.2).1))).map (fun f => f.2.imports.length)).sum <
        (fs.map (fun f => f.2.imports.length)).sum)
  | [] => ⟨Nat.le_refl _, fun h => by simp at h⟩
  | f :: fs => by
    obtain ⟨h1, h2⟩ := funcs_size fs
    obtain ⟨g1, g2⟩ := opsetsGL_size [""] f.2
    refine ⟨by simp only [List.map_cons, List.sum_cons]; omega, fun h => ?_⟩
    simp only [List.any_cons, Bool.or_eq_true] at h
    simp only [List.map_cons, List.sum_cons]
    rcases h with h | h
    · have := g2 h; omega
    · have := h2 h; omega

/-! ## RemoveUnusedFunctions: see Props/C14.lean (only list facts are needed) -/

end IrVerif.PassFlags

/-! ## NameFixPass: `modified = False` and no exception only if no name and no dictionary changed -/
namespace IrVerif.Names

/-- one step of the pass kept the flag down: then it was down before and the world is the same -/
def Quiet (st st' : FixSt) : Prop :=
  st'.raised = false → st'.modified = false →
    st.raised = false ∧ st.modified = false ∧ st'.toWorld = st.toWorld

theorem Quiet.refl (st : FixSt) : Quiet st st := fun h1 h2 => ⟨h1, h2, rfl⟩

theorem Quiet.trans {a b c : FixSt} (h1 : Quiet a b) (h2 : Quiet b c) : Quiet a c := by
  intro hr hm
  obtain ⟨r1, m1, w1⟩ := h2 hr hm
  obtain ⟨r2, m2, w2⟩ := h1 r1 m1
  exact ⟨r2, m2, w1.trans w2⟩

theorem renameTo_quiet (st : FixSt) (v : Nat) (p : String) : Quiet st (renameTo st v p) := by
  intro hr hm
  unfold renameTo at hr hm
  dsimp only at hr hm
  split at hr
  · simp at hr
  · next hc => rw [if_neg hc] at hm; simp at hm

theorem processValue_quiet (st : FixSt) (v : Nat) : Quiet st (processValue st v) := by
  unfold processValue
  split
  · exact Quiet.refl st
  · split
    · exact Quiet.refl st
    · split
      · exact renameTo_quiet st v "v"
      · dsimp only
        split
        · intro hr hm; exact ⟨hr, hm, rfl⟩
        · exact renameTo_quiet st v _

theorem processValues_quiet : ∀ (vs : List Nat) (st : FixSt), Quiet st (processValues st vs)
  | [], st => Quiet.refl st
  | v :: vs, st => by
    simp only [processValues, List.foldl_cons]
    exact (processValue_quiet st v).trans (processValues_quiet vs _)

theorem fixNodeName_quiet (st : FixSt) (n : Nat) : Quiet st (fixNodeName st n) := by
  unfold fixNodeName
  split
  · exact Quiet.refl st
  · split
    · intro _ hm; simp at hm
    · dsimp only
      split
      · intro hr hm; exact ⟨hr, hm, rfl⟩
      · intro _ hm; simp at hm

theorem enterGraph_quiet (st : FixSt) (g : Nat) (hi : Bool) (ins outs bouts : List Nat) :
    Quiet st (enterGraph st g hi ins outs bouts) := by
  unfold enterGraph
  split
  · exact Quiet.refl st
  · have h0 : Quiet st { st with vstack := topOf st.vstack :: st.vstack, nstack := [] :: st.nstack } :=
      fun hr hm => ⟨hr, hm, rfl⟩
    refine h0.trans ((processValues_quiet ins _).trans ((processValues_quiet outs _).trans ?_))
    cases hi
    · exact processValues_quiet bouts _
    · exact (processValues_quiet _ _).trans (processValues_quiet bouts _)

theorem exitGraph_quiet (st : FixSt) : Quiet st (exitGraph st) := by
  unfold exitGraph
  split
  · exact Quiet.refl st
  · intro hr hm; exact ⟨hr, hm, rfl⟩

theorem visitNode_quiet (st : FixSt) (n : Nat) (ins : List (Option Nat)) (outs : List Nat) :
    Quiet st (visitNode st n ins outs) :=
  (fixNodeName_quiet st n).trans (processValues_quiet _ _)

theorem runTr_quiet : ∀ (t : Tr) (st : FixSt), Quiet st (runTr t st)
  | .nil, st => Quiet.refl st
  | .node n ins outs subs rest, st => by
    simp only [runTr]
    exact (visitNode_quiet st n ins outs).trans ((runTr_quiet subs _).trans (runTr_quiet rest _))
  | .graph g isG ins outs body rest, st => by
    simp only [runTr]
    exact (enterGraph_quiet st g isG ins outs _).trans ((enterGraph_quiet _ g isG ins outs _).trans
      ((runTr_quiet body _).trans ((exitGraph_quiet _).trans ((exitGraph_quiet _).trans (runTr_quiet rest _)))))

theorem fixTop_quiet (w : World) (t : Top) (hr : (fixTop w t).raised = false)
    (hm : (fixTop w t).modified = false) : (fixTop w t).toWorld = w := by
  have h : Quiet { toWorld := w, resV := (collectTr w t.tr ([], [])).1, resN := (collectTr w t.tr ([], [])).2 }
      (fixTop w t) := by
    simp only [fixTop]
    exact (enterGraph_quiet _ _ _ _ _ _).trans ((runTr_quiet _ _).trans (exitGraph_quiet _))
  exact (h hr hm).2.2

theorem fixModel_quiet : ∀ (tops : List Top) (w : World), (fixModel w tops).2.1 = false →
    (fixModel w tops).2.2 = false → (fixModel w tops).1 = w
  | [], _, _, _ => rfl
  | t :: ts, w, hm, hr => by
    simp only [fixModel] at hm hr ⊢
    split at hm
    · next h => simp [h] at hr
    · next h =>
      simp only [h, Bool.false_eq_true, if_false] at hr ⊢
      simp only [Bool.or_eq_false_iff] at hm
      have h1 := fixTop_quiet w t (by simpa using h) hm.1
      have h2 := fixModel_quiet ts (fixTop w t).toWorld hm.2 hr
      rw [h2, h1]

end IrVerif.Names

/-
C15 part B: NameFixPass never raises (no scoping hypothesis needed), and the bridge from the
pre-pass (`collectTr`) to the reserved-name hypothesis of the invariant.
-/
import IrVerif.Lemmas.NamesScope
namespace IrVerif.Names

theorem processValues_TInv {c : Cfg} (hc : c.OK) : ∀ (vs : List Nat) {st : FixSt},
    TInv c st → (∀ v ∈ vs, c.C v) → TInv c (processValues st vs)
  | [], _, inv, _ => by simpa [processValues] using inv
  | v :: vs, st, inv, hC => by
    have pv := processValue_PV hc inv (hC v List.mem_cons_self)
    have e : processValues st (v :: vs) = processValues (processValue st v) vs := by simp [processValues]
    rw [e]
    exact processValues_TInv hc vs pv.inv (fun u hu => hC u (List.mem_cons_of_mem _ hu))

theorem pushScope_VEq (st : FixSt) : VEq st (pushScope st) := ⟨rfl, rfl, rfl, rfl, rfl, rfl, rfl⟩

theorem enterGraph_TInv {c : Cfg} (hc : c.OK) {st : FixSt} (inv : TInv c st) (g : Nat) (isG : Bool)
    (ins outs bouts : List Nat) (hC1 : ∀ v ∈ ins ++ outs ++ bouts, c.C v)
    (hC2 : isG = true → ∀ u, c.io u = some g → c.C u) :
    TInv c (enterGraph st g isG ins outs bouts) := by
  rw [enterGraph_eq inv.nr]
  have inv0 := inv.of_VEq (pushScope_VEq st)
  have inv1 := processValues_TInv hc ins inv0 (fun v hv => hC1 v (List.mem_append_left _ (List.mem_append_left _ hv)))
  have inv2 := processValues_TInv hc outs inv1 (fun v hv => hC1 v (List.mem_append_left _ (List.mem_append_right _ hv)))
  refine processValues_TInv hc bouts ?_ (fun v hv => hC1 v (List.mem_append_right _ hv))
  cases isG with
  | false => simpa using inv2
  | true =>
    simp only [if_true]
    refine processValues_TInv hc _ inv2 (fun v hv => hC2 rfl v ?_)
    rw [← inv2.io]
    exact (inv2.ok.mem_iff g v).mp hv

/-- **no exception**: every step of the traversal keeps the invariant, whatever the scoping -/
theorem runTr_TInv {c : Cfg} (hc : c.OK) : ∀ (t : Tr) {st : FixSt}, TInv c st → HC c t → TInv c (runTr t st) := by
  intro t
  induction t with
  | nil => intro st inv _; exact inv
  | node n ins outs subs rest ihs ihr =>
    intro st inv hC
    obtain ⟨hC1, hCs, hCr⟩ := hC.node
    simp only [runTr, visitNode]
    exact ihr (ihs (processValues_TInv hc _ (inv.of_VEq (fixNodeName_VEq n).1) hC1) hCs) hCr
  | graph g isG ins outs body rest ihb ihr =>
    intro st inv hC
    obtain ⟨hC1, hC2, hCb, hCr⟩ := hC.graph
    simp only [runTr]
    have i1 := enterGraph_TInv hc inv g isG ins outs (bodyOuts body) hC1 hC2
    have i2 := enterGraph_TInv hc i1 g isG ins outs (bodyOuts body) hC1 hC2
    have i3 := ihb i2 hCb
    have i4 := i3.of_VEq (exitGraph_VEq i3.nr).1
    have i5 := i4.of_VEq (exitGraph_VEq i4.nr).1
    exact ihr i5 hCr

/-! ### the pre-pass reserves every name the call can meet -/

theorem mem_truthyNames {f : Nat → Option String} {ids : List Nat} {s : String} :
    s ∈ truthyNames f ids ↔ ∃ i ∈ ids, f i = some s ∧ s ≠ "" := by
  simp only [truthyNames, List.mem_filterMap]
  constructor
  · rintro ⟨i, hi, h⟩
    split at h
    · rename_i ht
      obtain ⟨s', hs', hne⟩ := truthy_iff.mp ht
      rw [hs'] at h; cases h
      exact ⟨i, hi, hs', hne⟩
    · cases h
  · rintro ⟨i, hi, hs, hne⟩
    exact ⟨i, hi, by rw [if_pos (truthy_iff.mpr ⟨s, hs, hne⟩), hs]⟩

theorem collectTr_mono (w : World) : ∀ (t : Tr) (acc : List String × List String),
    (∀ s ∈ acc.1, s ∈ (collectTr w t acc).1) ∧ (∀ s ∈ acc.2, s ∈ (collectTr w t acc).2) := by
  intro t
  induction t with
  | nil => intro acc; exact ⟨fun _ h => h, fun _ h => h⟩
  | node n ins outs subs rest ihs ihr =>
    intro acc
    simp only [collectTr]
    constructor
    · intro s hs
      exact (ihr _).1 s ((ihs _).1 s (List.mem_append_right _ hs))
    · intro s hs
      exact (ihr _).2 s ((ihs _).2 s (List.mem_append_right _ hs))
  | graph g isG ins outs body rest ihb ihr =>
    intro acc
    simp only [collectTr]
    constructor
    · intro s hs
      exact (ihr _).1 s ((ihb _).1 s (List.mem_append_right _ hs))
    · intro s hs
      exact (ihr _).2 s ((ihb _).2 s hs)

/-- every truthy name of a value mentioned under `t`, of an initializer of a `Graph` under `t`,
and of a node under `t` is collected -/
theorem collectTr_complete (w : World) : ∀ (t : Tr) (acc : List String × List String),
    (∀ v ∈ mentioned t, ∀ s, w.vname v = some s → s ≠ "" → s ∈ (collectTr w t acc).1)
    ∧ (∀ g ∈ graphsOf t, ∀ e ∈ w.dicts g, ∀ s, w.vname e.2 = some s → s ≠ "" → s ∈ (collectTr w t acc).1)
    ∧ (∀ n ∈ allNodes t, ∀ s, w.nname n = some s → s ≠ "" → s ∈ (collectTr w t acc).2) := by
  intro t
  induction t with
  | nil => intro acc; simp [mentioned, graphsOf, allNodes]
  | node n ins outs subs rest ihs ihr =>
    intro acc
    simp only [collectTr, mentioned, graphsOf, allNodes, List.mem_append, List.mem_cons]
    refine ⟨?_, ?_, ?_⟩
    · rintro v (hv | hv | hv) s hs hne
      · apply (collectTr_mono w rest _).1
        apply (collectTr_mono w subs _).1
        exact List.mem_append_left _ (mem_truthyNames.mpr ⟨v, hv, hs, hne⟩)
      · exact (collectTr_mono w rest _).1 _ ((ihs _).1 v hv s hs hne)
      · exact (ihr _).1 v hv s hs hne
    · rintro g (hg | hg) e he s hs hne
      · exact (collectTr_mono w rest _).1 _ ((ihs _).2.1 g hg e he s hs hne)
      · exact (ihr _).2.1 g hg e he s hs hne
    · rintro m (rfl | hm | hm) s hs hne
      · apply (collectTr_mono w rest _).2
        apply (collectTr_mono w subs _).2
        exact List.mem_append_left _ (mem_truthyNames.mpr ⟨m, by simp, hs, hne⟩)
      · exact (collectTr_mono w rest _).2 _ ((ihs _).2.2 m hm s hs hne)
      · exact (ihr _).2.2 m hm s hs hne
  | graph g isG ins outs body rest ihb ihr =>
    intro acc
    simp only [collectTr, mentioned, graphsOf, allNodes, List.mem_append]
    refine ⟨?_, ?_, ?_⟩
    · rintro v ((hv | hv) | hv | hv) s hs hne
      · apply (collectTr_mono w rest _).1
        apply (collectTr_mono w body _).1
        exact List.mem_append_left _ (mem_truthyNames.mpr ⟨v, by simp [hv], hs, hne⟩)
      · apply (collectTr_mono w rest _).1
        apply (collectTr_mono w body _).1
        exact List.mem_append_left _ (mem_truthyNames.mpr ⟨v, by simp [hv], hs, hne⟩)
      · exact (collectTr_mono w rest _).1 _ ((ihb _).1 v hv s hs hne)
      · exact (ihr _).1 v hv s hs hne
    · rintro g' (hg | hg | hg) e he s hs hne
      · cases isG with
        | false => simp at hg
        | true =>
          simp only [if_true, List.mem_singleton] at hg
          subst hg
          apply (collectTr_mono w rest _).1
          apply (collectTr_mono w body _).1
          refine List.mem_append_left _ (mem_truthyNames.mpr ⟨e.2, ?_, hs, hne⟩)
          simp only [if_true, List.mem_append, List.mem_map]
          exact Or.inr ⟨e, he, rfl⟩
      · exact (collectTr_mono w rest _).1 _ ((ihb _).2.1 g' hg e he s hs hne)
      · exact (ihr _).2.1 g' hg e he s hs hne
    · rintro m (hm | hm) s hs hne
      · exact (collectTr_mono w rest _).2 _ ((ihb _).2.2 m hm s hs hne)
      · exact (ihr _).2.2 m hm s hs hne


/-! ### one `_fix_graph_names` call -/

/-- every initializer mentioned under the top-level graph / function belongs to a `Graph` under it
(initializers are not shared between the main graph and functions) -/
def Closed (io : Nat → Option Nat) (t : Top) : Prop :=
  ∀ v ∈ mentioned t.tr, ∀ g, io v = some g → g ∈ graphsOf t.tr

def topCfg (w : World) (t : Top) : Cfg :=
  { orig := w.vname
    C := fun u => u ∈ mentioned t.tr ∨ ∃ g ∈ graphsOf t.tr, w.initOf u = some g
    io := w.initOf
    resV := (collectTr w t.tr ([], [])).1 }

theorem topCfg_OK {w : World} {t : Top} (hok : InitsOk w) (hcl : Closed w.initOf t) : (topCfg w t).OK := by
  constructor
  · intro u s hC hs hne
    rcases hC with hm | ⟨g, hg, hio⟩
    · exact (collectTr_complete w t.tr ([], [])).1 u hm s hs hne
    · obtain ⟨k, hk⟩ := hok.complete u g hio
      exact (collectTr_complete w t.tr ([], [])).2.1 g hg (k, u) hk s hs hne
  · intro v g u hC hv hu
    have hg : g ∈ graphsOf t.tr := by
      rcases hC with hm | ⟨g', hg', hio⟩
      · exact hcl v hm g hv
      · have : g' = g := Option.some.inj (hio.symm.trans hv)
        exact this ▸ hg'
    exact Or.inr ⟨g, hg, hu⟩
  · intro g u v hu hv e
    obtain ⟨ku, hku⟩ := hok.complete u g hu
    obtain ⟨kv, hkv⟩ := hok.complete v g hv
    have e1 := (hok.key_name g ku u hku).1
    have e2 := (hok.key_name g kv v hkv).1
    have : ku = kv := by
      have : w.vname u = w.vname v := e
      rw [e1, e2] at this
      exact Option.some.inj this
    subst this
    exact keys_nodup_unique (hok.keys_nodup g) hku hkv

theorem topCfg_HC (w : World) (t : Top) : HC (topCfg w t) t.tr :=
  ⟨fun _ hv => Or.inl hv, fun g hg _ hu => Or.inr ⟨g, hg, hu⟩⟩

/-- the state `_fix_graph_names` starts from -/
def topInit (w : World) (t : Top) : FixSt :=
  { toWorld := w, resV := (collectTr w t.tr ([], [])).1, resN := (collectTr w t.tr ([], [])).2 }

theorem fixTop_eq (w : World) (t : Top) :
    fixTop w t = exitGraph (runTr t.body (enterGraph (topInit w t) t.gid t.isGraph t.ins t.outs (bodyOuts t.body))) := rfl

theorem topInit_TInv {w : World} (t : Top) (hok : InitsOk w) : TInv (topCfg w t) (topInit w t) :=
  ⟨rfl, hok, rfl, rfl, fun _ => Or.inl rfl, fun _ _ => rfl, fun _ _ => rfl⟩

theorem fixTop_TInv {w : World} {t : Top} (hok : InitsOk w) (hcl : Closed w.initOf t) :
    TInv (topCfg w t) (fixTop w t) := by
  have hc := topCfg_OK hok hcl
  obtain ⟨hC1, hC2, hCb, _⟩ := (topCfg_HC w t).graph
  have i1 := enterGraph_TInv hc (topInit_TInv t hok) t.gid t.isGraph t.ins t.outs (bodyOuts t.body) hC1 hC2
  have i2 := runTr_TInv hc t.body i1 hCb
  rw [fixTop_eq]
  exact i2.of_VEq (exitGraph_VEq i2.nr).1

theorem fixTop_scopes {w : World} {t : Top} (hok : InitsOk w) (hcl : Closed w.initOf t)
    (iv : Nat → List Nat) (hiv : ∀ g u, u ∈ iv g ↔ w.initOf u = some g)
    (hsc : scopedB iv t.tr [] [] = true) :
    ∀ L ∈ allScopes iv t.tr [], ScopeOK (topCfg w t) (fixTop w t) L := by
  have hc := topCfg_OK hok hcl
  obtain ⟨hC1, hC2, hCb, _⟩ := (topCfg_HC w t).graph
  have good0 : Good (topCfg w t) (topInit w t) [] :=
    { inj := fun a ha => by simp at ha, seen := fun u hu => by simp at hu, kept := fun v hv => by simp at hv
      first := FirstB.nil _ _
      top_iff := fun s => by simp [topInit, topOf] }
  obtain ⟨l1, _⟩ := enterGraph_Lvl hc iv hiv (topInit_TInv t hok) good0 (S := []) (fun x => by simp [topInit])
    t.gid t.isGraph t.ins t.outs (bodyOuts t.body) hC1 hC2 (fun v _ h => by simp at h)
  simp only [Top.tr, scopedB, Bool.and_eq_true] at hsc
  obtain ⟨l2, _, s2⟩ := runTr_Lvl hc iv hiv t.body l1.inv l1.good l1.seenEq hCb hsc.1.2
  obtain ⟨e3, _⟩ := exitGraph_VEq l2.inv.nr
  intro L hL
  rw [fixTop_eq]
  simp only [Top.tr, allScopes, List.append_nil, List.mem_cons] at hL
  rcases hL with rfl | hL
  · exact l2.good.toScopeOK.of_VEq e3
  · exact (s2 L hL).of_VEq e3


theorem closedB_iff (io : Nat → Option Nat) (t : Top) : closedB io t = true ↔ Closed io t := by
  simp only [closedB, List.all_eq_true, Closed]
  constructor
  · intro h v hv g hg
    have := h v hv
    rw [hg] at this
    simpa using this
  · intro h v hv
    cases hg : io v with
    | none => rfl
    | some g => simpa using h v hv g hg

end IrVerif.Names

/-
Helper development for the ExternalTensor lifecycle theorems of C04 (`Model/ExtLife.lean`):
the representation invariant of the object state, its preservation by every call, and the
characterisation of every read as the read of a fresh object.
-/
import IrVerif.Model.ExtLife
import IrVerif.Lemmas.TensorReprAgree
namespace IrVerif.ExtLife
open IrVerif.Pack IrVerif.TensorRepr

/-- a fresh `numpy()` on a non-empty file of a non-empty tensor is the decode step -/
theorem numpy_eq_decode (e : Ext) (bytes : List Nat) (hn : prod e.dims ≠ 0) (hb : bytes ≠ []) :
    e.numpy (some bytes) = decode e bytes := by
  unfold Ext.numpy decode
  simp only [hn, hb, if_false]
  cases e.dtype.bitwidth <;> rfl

/-- the representation invariant of the object state -/
structure Inv (e : Ext) (s : St) : Prop where
  rawNe : ∀ b, s.raw = some b → b ≠ []
  rawZero : prod e.dims = 0 → s.raw = none
  arrZero : prod e.dims = 0 → ∀ u, s.arr = some u → u = [] ∧ e.dtype.npName.isSome = true
  arrPos : prod e.dims ≠ 0 → ∀ u, s.arr = some u → ∃ b, s.raw = some b ∧ decode e b = .ok u

theorem inv_init (e : Ext) (fs : FS) (d : Nat) : Inv e (init fs d).st :=
  ⟨by simp [init], by simp [init], by simp [init], by simp [init]⟩

/-- dropping the array keeps the invariant -/
theorem inv_dropArr {e : Ext} {s : St} (h : Inv e s) : Inv e { s with arr := none } :=
  ⟨h.rawNe, h.rawZero, by simp, by simp⟩

theorem inv_load {e : Ext} {s : St} (h : Inv e s) (file : Option (List Nat)) :
    Inv e (load e file s).1 := by
  unfold load
  split
  · exact h
  split
  · exact h
  split
  · rename_i hz
    split
    · rename_i hnp
      refine ⟨h.rawNe, h.rawZero, ?_, ?_⟩
      · intro _ u hu; simp at hu; exact ⟨by simp_all, hnp⟩
      · intro hne; exact absurd hz hne
    · exact h
  · rename_i hz
    split
    · exact h
    · rename_i bytes
      split
      · exact h
      · rename_i hb
        split
        · rename_i u hu
          refine ⟨?_, ?_, ?_, ?_⟩
          · intro b hb'; simp at hb'; subst hb'; exact hb
          · intro h0; exact absurd h0 hz
          · intro h0; exact absurd h0 hz
          · intro _ u' hu'; simp at hu'; subst hu'; exact ⟨bytes, rfl, hu⟩
        · rename_i err herr
          have ha : s.arr = none := by
            cases hs : s.arr <;> simp_all
          refine ⟨?_, ?_, ?_, ?_⟩
          · intro b hb'; simp at hb'; subst hb'; exact hb
          · intro h0; exact absurd h0 hz
          · intro h0; exact absurd h0 hz
          · intro _ u' hu'; simp [ha] at hu'

theorem load_frame (e : Ext) (file : Option (List Nat)) (s : St) :
    (load e file s).1.valid = s.valid ∧ (load e file s).1.baseDir = s.baseDir := by
  unfold load
  repeat' split
  all_goals simp

/-- `_load` on an object without an array behaves like a fresh `numpy()` on the same file -/
theorem load_fresh {e : Ext} {s : St} (hv : s.valid = true) (ha : s.arr = none)
    (file : Option (List Nat)) :
    match e.numpy file with
    | .ok u => (load e file s).2 = none ∧ (load e file s).1.arr = some u ∧
        (prod e.dims ≠ 0 → (load e file s).1.raw = file)
    | .error err => (load e file s).2 = some err ∧ (load e file s).1.arr = none := by
  by_cases hz : prod e.dims = 0
  · unfold load Ext.numpy
    simp only [hv, ha, hz]
    cases hnp : e.dtype.npName.isSome <;> simp [ha]
  · cases file with
    | none =>
      unfold load Ext.numpy
      simp [hv, ha, hz]
    | some bytes =>
      by_cases hb : bytes = []
      · subst hb
        unfold load Ext.numpy
        simp [hv, ha, hz]
      · rw [numpy_eq_decode e bytes hz hb]
        unfold load
        simp only [hv, ha, hz, hb]
        cases hd : decode e bytes <;> simp

/-- the file content the mapping-based entry points answer from, as a function of the state -/
def seenS (s : St) (file : Option (List Nat)) : Option (List Nat) :=
  match s.arr, s.raw with
  | some _, some b => some b
  | _, _ => file

theorem seen_eq (w : World) : seen w = seenS w.st (cur w) := rfl

/-- `numpy()` / `__array__()` of a valid object is the fresh `numpy()` on the seen file -/
theorem doNumpy_obs {e : Ext} {s : St} (h : Inv e s) (hv : s.valid = true)
    (file : Option (List Nat)) (hold : Bool) :
    (doNumpy e file s hold).2 =
      (match e.numpy (seenS s file) with | .ok u => Obs.units u | .error err => Obs.raised err) := by
  unfold doNumpy
  simp only [hv]
  cases ha : s.arr with
  | none =>
    have L := load_fresh (e := e) hv ha file
    simp only [seenS, ha]
    cases hn : e.numpy file with
    | ok u => rw [hn] at L; simp [L.1, L.2.1]
    | error err => rw [hn] at L; simp [L.1]
  | some u =>
    simp only [Option.isNone_some]
    by_cases hz : prod e.dims = 0
    · have hr := h.rawZero hz
      have hu := (h.arrZero hz u ha)
      obtain ⟨hu1, hu2⟩ := hu
      subst hu1
      simp only [seenS, ha, hr]
      unfold Ext.numpy
      simp [hz, hu2, ha]
    · obtain ⟨b, hb, hd⟩ := h.arrPos hz u ha
      simp only [seenS, ha, hb]
      rw [numpy_eq_decode e b hz (h.rawNe b hb), hd]
      simp [ha]

theorem numpy_none_err (e : Ext) (hz : prod e.dims ≠ 0) : e.numpy none = .error "FileNotFoundError" := by
  unfold Ext.numpy; simp [hz]

/-- `tobytes()` of a valid object is the fresh `tobytes()` on the seen file -/
theorem doTobytes_obs {e : Ext} {s : St} (h : Inv e s) (hv : s.valid = true)
    (file : Option (List Nat)) :
    (doTobytes e file s).2 =
      (match e.tobytes (seenS s file) with | .ok b => Obs.bytes b | .error err => Obs.raised err) := by
  unfold doTobytes
  by_cases hz : prod e.dims = 0
  · unfold Ext.tobytes; simp [hv, hz]
  · cases ha : s.arr with
    | none =>
      have L := load_fresh (e := e) hv ha file
      simp only [hv, hz, seenS, ha, Option.isNone_none, Bool.or_true, Bool.not_true,
        Bool.false_eq_true, ↓reduceIte]
      unfold Ext.tobytes
      simp only [hz, ↓reduceIte]
      cases hn : e.numpy file with
      | error err => rw [hn] at L; simp [L.1]
      | ok u =>
        rw [hn] at L
        dsimp only at L
        cases file with
        | none => rw [numpy_none_err e hz] at hn; cases hn
        | some bytes =>
          obtain ⟨L1, _, L3⟩ := L
          rw [L1]
          dsimp only
          rw [L3 hz]
          cases e.byteCount <;> simp
    | some u =>
      obtain ⟨b, hb, hd⟩ := h.arrPos hz u ha
      simp only [hv, hz, seenS, ha, hb, Option.isNone_some, Bool.or_self, Bool.not_true,
        Bool.false_eq_true, ↓reduceIte]
      unfold Ext.tobytes
      simp only [hz, ↓reduceIte]
      rw [numpy_eq_decode e b hz (h.rawNe b hb), hd]
      cases e.byteCount <;> simp

/-- `tofile()` of a valid object is the fresh `tofile()` on the CURRENT file -/
theorem doTofile_obs (e : Ext) (s : St) (hv : s.valid = true) (file : Option (List Nat)) :
    (doTofile e file s).2 =
      (match e.tofile file with | .ok (b, r) => Obs.wrote b r | .error err => Obs.raised err) := by
  unfold doTofile
  simp only [hv]
  cases e.tofile file with
  | ok p => cases p; simp
  | error err => simp

/-- an invalidated object raises from every read -/
theorem read_invalid (e : Ext) (s : St) (hv : s.valid = false) (file : Option (List Nat)) (hold : Bool) :
    (doNumpy e file s hold).2 = .raised "ValueError" ∧ (doTobytes e file s).2 = .raised "ValueError" ∧
    (doTofile e file s).2 = .raised "ValueError" ∧
    (doNumpy e file s hold).1 = s ∧ (doTobytes e file s).1 = s ∧ (doTofile e file s).1 = s := by
  simp [doNumpy, doTobytes, doTofile, hv]

/-! ### the invariant is preserved by every call -/

theorem inv_doNumpy {e : Ext} {s : St} (h : Inv e s) (file : Option (List Nat)) (hold : Bool) :
    Inv e (doNumpy e file s hold).1 := by
  unfold doNumpy
  by_cases hv : s.valid = true
  · simp only [hv, Bool.not_true, Bool.false_eq_true, ↓reduceIte]
    generalize hr : (if s.arr.isNone = true then load e file s else (s, none)) = r
    have hl : Inv e r.1 := by
      rw [← hr]; split
      · exact inv_load h file
      · exact h
    split
    · exact hl
    · exact ⟨hl.rawNe, hl.rawZero, hl.arrZero, hl.arrPos⟩
    · exact hl
  · have hv' : s.valid = false := by simpa using hv
    simp only [hv', Bool.not_false, ↓reduceIte]
    exact h

theorem inv_doTobytes {e : Ext} {s : St} (h : Inv e s) (file : Option (List Nat)) :
    Inv e (doTobytes e file s).1 := by
  unfold doTobytes
  by_cases hv : s.valid = true
  · simp only [hv, Bool.not_true, Bool.false_eq_true, ↓reduceIte]
    split
    · exact h
    · generalize hr : (if (s.raw.isNone || s.arr.isNone) = true then load e file s else (s, none)) = r
      have hl : Inv e r.1 := by
        rw [← hr]; split
        · exact inv_load h file
        · exact h
      split
      · exact hl
      · split <;> exact hl
  · have hv' : s.valid = false := by simpa using hv
    simp only [hv', Bool.not_false, ↓reduceIte]
    exact h

theorem inv_doTofile {e : Ext} {s : St} (h : Inv e s) (file : Option (List Nat)) :
    Inv e (doTofile e file s).1 := by
  unfold doTofile
  split
  · exact h
  · split <;> exact h

theorem inv_doRelease {e : Ext} {s : St} (h : Inv e s) : Inv e (doRelease s).1 := by
  unfold doRelease
  simp only
  split
  · exact inv_dropArr h
  · split
    · exact inv_dropArr h
    · exact ⟨by simp, by simp, by simp, by simp⟩

theorem inv_doSetBaseDir {e : Ext} {s : St} (h : Inv e s) (d : Nat) : Inv e (doSetBaseDir s d).1 := by
  unfold doSetBaseDir
  split
  · have hr := inv_doRelease (e := e) h
    dsimp only
    split
    · exact hr
    · exact ⟨hr.rawNe, hr.rawZero, hr.arrZero, hr.arrPos⟩
  · exact ⟨h.rawNe, h.rawZero, h.arrZero, h.arrPos⟩

theorem inv_step {e : Ext} {w : World} (h : Inv e w.st) (op : Op) : Inv e (step e w op).1.st := by
  cases op with
  | read en hold =>
    cases en
    · exact inv_doNumpy h _ _
    · exact inv_doNumpy h _ _
    · exact inv_doTobytes h _
    · exact inv_doTofile h _
  | release => exact inv_doRelease h
  | invalidate => exact ⟨h.rawNe, h.rawZero, h.arrZero, h.arrPos⟩
  | setBaseDir d => exact inv_doSetBaseDir h d
  | dropHolds => exact ⟨h.rawNe, h.rawZero, h.arrZero, h.arrPos⟩
  | put d c => exact h
  | del d => exact h

theorem inv_run {e : Ext} (ops : List Op) {w : World} (h : Inv e w.st) : Inv e (run e w ops).1.st := by
  induction ops generalizing w with
  | nil => exact h
  | cons op ops ih => exact ih (inv_step h op)

/-- every read of a valid object, in any state satisfying the invariant -/
theorem read_obs {e : Ext} {w : World} (h : Inv e w.st) (hv : w.st.valid = true) (en : Entry)
    (hold : Bool) :
    (step e w (.read en hold)).2 = fresh e en (if en = .tofile then cur w else seen w) := by
  cases en
  · simp only [step, fresh, seen_eq]; exact doNumpy_obs h hv _ _
  · simp only [step, fresh, seen_eq]; exact doNumpy_obs h hv _ _
  · simp only [step, fresh, seen_eq]; exact doTobytes_obs h hv _
  · simp only [step, fresh]; exact doTofile_obs e _ hv _

/-! ### validity is absorbing; appending histories -/

theorem step_valid_false {e : Ext} {w : World} (hv : w.st.valid = false) (op : Op) :
    (step e w op).1.st.valid = false := by
  cases op with
  | read en hold =>
    have R := read_invalid e w.st hv (cur w) hold
    cases en <;> simp [step, R, hv]
  | release =>
    simp only [step, doRelease]
    split
    · exact hv
    · split <;> exact hv
  | invalidate => rfl
  | setBaseDir d =>
    simp only [step, doSetBaseDir, doRelease]
    repeat' split
    all_goals exact hv
  | dropHolds => exact hv
  | put d c => exact hv
  | del d => exact hv

theorem run_valid_false {e : Ext} (ops : List Op) {w : World} (hv : w.st.valid = false) :
    (run e w ops).1.st.valid = false := by
  induction ops generalizing w with
  | nil => exact hv
  | cons op ops ih => exact ih (step_valid_false hv op)

theorem run_append (e : Ext) (w : World) (a b : List Op) :
    (run e w (a ++ b)).1 = (run e (run e w a).1 b).1 := by
  induction a generalizing w with
  | nil => rfl
  | cons op a ih => simp only [List.cons_append, run]; exact ih _

theorem read_obs_invalid (e : Ext) (w : World) (hv : w.st.valid = false) (en : Entry) (hold : Bool) :
    (step e w (.read en hold)).2 = .raised "ValueError" := by
  have R := read_invalid e w.st hv (cur w) hold
  cases en <;> simp [step, R]

/-! ### coherence -/

theorem seen_of_coherent {w : World} (h : coherent w = true) : seen w = cur w := by
  unfold coherent at h
  unfold seen
  cases ha : w.st.arr with
  | none => rfl
  | some u =>
    cases hr : w.st.raw with
    | none => rfl
    | some b =>
      simp only [ha, hr] at h
      simp only
      exact (beq_iff_eq.mp h).symm

theorem seen_of_arr_none {w : World} (h : w.st.arr = none) : seen w = cur w := by
  unfold seen; simp [h]

theorem coherent_of_arr_none {w : World} (h : w.st.arr = none) : coherent w = true := by
  unfold coherent; simp [h]

theorem fsGet_put_ne (fs : FS) (d b : Nat) (c : List Nat) (h : d ≠ b) : fsGet (fsPut fs d c) b = fsGet fs b := by
  unfold fsGet fsPut
  simp only [List.lookup]
  have : (b == d) = false := by simp; exact fun h' => h h'.symm
  simp [this]

theorem fsGet_del_ne (fs : FS) (d b : Nat) (h : d ≠ b) : fsGet (fsDel fs d) b = fsGet fs b := by
  unfold fsGet fsDel
  induction fs with
  | nil => rfl
  | cons p fs ih =>
    obtain ⟨k, v⟩ := p
    by_cases hp : k = d
    · subst hp
      have hb : (b == k) = false := by simp; exact fun h' => h h'.symm
      simp [List.lookup_cons, hb]
      simpa using ih
    · have : (k != d) = true := by simp [hp]
      simp only [List.filter_cons, this, ↓reduceIte, List.lookup_cons]
      split
      · rfl
      · simpa using ih

/-- a complete load made by `_load` maps the file the path names -/
theorem load_coherent {e : Ext} {s : St} (hi : Inv e s) (hv : s.valid = true) (ha : s.arr = none)
    (file : Option (List Nat)) (u b : List Nat)
    (h1 : (load e file s).1.arr = some u) (h2 : (load e file s).1.raw = some b) : file = some b := by
  have L := load_fresh (e := e) hv ha file
  by_cases hz : prod e.dims = 0
  · have := (inv_load hi file).rawZero hz
    rw [this] at h2; cases h2
  · cases hn : e.numpy file with
    | ok u' =>
      rw [hn] at L
      dsimp only at L
      rw [L.2.2 hz] at h2
      exact h2
    | error err =>
      rw [hn] at L
      dsimp only at L
      rw [L.2] at h1; cases h1

theorem coherent_mk (w : World) (h : ∀ u b, w.st.arr = some u → w.st.raw = some b → cur w = some b) :
    coherent w = true := by
  unfold coherent
  cases ha : w.st.arr with
  | none => rfl
  | some u =>
    cases hr : w.st.raw with
    | none => rfl
    | some b => simp only; exact beq_iff_eq.mpr (h u b ha hr)

theorem coherent_elim {w : World} (h : coherent w = true) (u b : List Nat) (ha : w.st.arr = some u)
    (hr : w.st.raw = some b) : cur w = some b := by
  unfold coherent at h
  simp only [ha, hr] at h
  exact beq_iff_eq.mp h

/-- how a read changes the state: the base directory never; array and mapping either not at all,
    or to what `_load` made of an object without an array -/
def ReadState (e : Ext) (file : Option (List Nat)) (s s' : St) : Prop :=
  s'.baseDir = s.baseDir ∧ s'.valid = s.valid ∧
  ((s'.arr = s.arr ∧ s'.raw = s.raw) ∨
   (s.valid = true ∧ s.arr = none ∧ s'.arr = (load e file s).1.arr ∧ s'.raw = (load e file s).1.raw))

theorem doNumpy_state {e : Ext} {s : St} (file : Option (List Nat)) (hold : Bool) :
    ReadState e file s (doNumpy e file s hold).1 := by
  unfold doNumpy ReadState
  have F := load_frame e file s
  by_cases hv : s.valid = true
  · simp only [hv, Bool.not_true, Bool.false_eq_true, ↓reduceIte]
    cases ha : s.arr with
    | none =>
      simp only [Option.isNone_none, ↓reduceIte]
      split <;> simp [F.2, F.1, hv]
    | some u =>
      simp only [Option.isNone_some, Bool.false_eq_true, ↓reduceIte, ha]
      simp [hv]
  · have hv' : s.valid = false := by simpa using hv
    simp [hv']

theorem doTobytes_state {e : Ext} {s : St} (hi : Inv e s) (file : Option (List Nat)) :
    ReadState e file s (doTobytes e file s).1 := by
  unfold doTobytes ReadState
  have F := load_frame e file s
  by_cases hv : s.valid = true
  · simp only [hv, Bool.not_true, Bool.false_eq_true, ↓reduceIte]
    by_cases hz : prod e.dims = 0
    · simp [hz, hv]
    · simp only [hz, ↓reduceIte]
      cases ha : s.arr with
      | none =>
        simp only [Option.isNone_none, Bool.or_true, ↓reduceIte]
        split
        · simp [F.2, F.1, hv]
        · split <;> simp [F.2, F.1, hv]
      | some u =>
        obtain ⟨b, hb, _⟩ := hi.arrPos hz u ha
        simp only [hb, Option.isNone_some, Bool.or_self, Bool.false_eq_true, ↓reduceIte]
        split <;> simp [ha, hb, hv]
  · have hv' : s.valid = false := by simpa using hv
    simp [hv']

theorem doTofile_state {e : Ext} {s : St} (file : Option (List Nat)) :
    ReadState e file s (doTofile e file s).1 := by
  unfold doTofile ReadState
  split
  · simp
  · split <;> simp

theorem step_read_state {e : Ext} {w : World} (hi : Inv e w.st) (en : Entry) (hold : Bool) :
    ReadState e (cur w) w.st (step e w (.read en hold)).1.st ∧ (step e w (.read en hold)).1.fs = w.fs := by
  cases en
  · exact ⟨doNumpy_state _ _, rfl⟩
  · exact ⟨doNumpy_state _ _, rfl⟩
  · exact ⟨doTobytes_state hi _, rfl⟩
  · exact ⟨doTofile_state _, rfl⟩

theorem coherent_step {e : Ext} {w : World} (hi : Inv e w.st) (hc : coherent w = true) (op : Op)
    (hq : op.disturbs w = false) : coherent (step e w op).1 = true := by
  cases op with
  | read en hold =>
    obtain ⟨⟨hb, _, hs⟩, hfs⟩ := step_read_state hi en hold
    apply coherent_mk
    intro u b h1 h2
    show fsGet (step e w (.read en hold)).1.fs (step e w (.read en hold)).1.st.baseDir = some b
    rw [hfs, hb]
    rcases hs with ⟨ha, hr⟩ | ⟨hv, ha, ha', hr'⟩
    · exact coherent_elim hc u b (ha ▸ h1) (hr ▸ h2)
    · exact load_coherent hi hv ha (cur w) u b (ha' ▸ h1) (hr' ▸ h2)
  | release =>
    apply coherent_of_arr_none
    simp only [step, doRelease]
    repeat' split
    all_goals rfl
  | invalidate => exact coherent_mk _ (fun u b h1 h2 => coherent_elim hc u b h1 h2)
  | setBaseDir d =>
    by_cases hd : d = w.st.baseDir
    · apply coherent_mk
      intro u b h1 h2
      simp only [step, doSetBaseDir, hd, ne_eq, not_true_eq_false, ↓reduceIte] at h1 h2
      show fsGet w.fs _ = some b
      simp only [step, doSetBaseDir, hd, ne_eq, not_true_eq_false, ↓reduceIte]
      exact coherent_elim hc u b h1 h2
    · apply coherent_of_arr_none
      simp only [step, doSetBaseDir, doRelease, ne_eq, hd, not_false_eq_true, ↓reduceIte]
      repeat' split
      all_goals rfl
  | dropHolds => exact coherent_mk _ (fun u b h1 h2 => coherent_elim hc u b h1 h2)
  | put d c =>
    apply coherent_mk
    intro u b h1 h2
    simp only [step] at h1 h2
    have hl : loaded w.st = true := by simp [loaded, h1, h2]
    simp only [Op.disturbs, hl, Bool.true_and, beq_eq_false_iff_ne, ne_eq] at hq
    show fsGet (fsPut w.fs d c) w.st.baseDir = some b
    rw [fsGet_put_ne _ _ _ _ hq]
    exact coherent_elim hc u b h1 h2
  | del d =>
    apply coherent_mk
    intro u b h1 h2
    simp only [step] at h1 h2
    have hl : loaded w.st = true := by simp [loaded, h1, h2]
    simp only [Op.disturbs, hl, Bool.true_and, beq_eq_false_iff_ne, ne_eq] at hq
    show fsGet (fsDel w.fs d) w.st.baseDir = some b
    rw [fsGet_del_ne _ _ _ hq]
    exact coherent_elim hc u b h1 h2

theorem coherent_run {e : Ext} (ops : List Op) {w : World} (hi : Inv e w.st) (hc : coherent w = true)
    (hq : quiet e w ops = true) : coherent (run e w ops).1 = true := by
  induction ops generalizing w with
  | nil => exact hc
  | cons op ops ih =>
    simp only [quiet, Bool.and_eq_true, Bool.not_eq_true'] at hq
    exact ih (inv_step hi op) (coherent_step hi hc op hq.1) hq.2

/-- after `release()` (also one that raised BufferError) no array is held -/
theorem release_arr (s : St) : (doRelease s).1.arr = none ∧ (doRelease s).1.valid = s.valid ∧
    (doRelease s).1.baseDir = s.baseDir := by
  unfold doRelease
  simp only
  repeat' split
  all_goals simp

end IrVerif.ExtLife

/-
Frame facts for the helpers of `IrVerif.Scope.deserGraph`: which cells they touch, that they never
touch the link fields (uses, producer, index, graph, flags), bounds of the ids they return.
-/
import IrVerif.Lemmas.ScopeBasic
namespace IrVerif.Scope

/-- the link fields of a value cell -/
def linksOf (c : ValueS) : List (Nat × Nat) × Option Nat × Option Nat × Option Nat × Bool × Bool × Bool :=
  (c.uses, c.producer, c.index, c.graph, c.isIn, c.isOut, c.isInit)

/-- all cells at or beyond the allocation counter are untouched defaults -/
def Fresh (st : Store) : Prop := ∀ v, st.nv ≤ v → st.vals v = {}

/-- every id bound in the tables is allocated -/
def TablesLt (st : Store) (scopes : List Table) : Prop := ∀ t ∈ scopes, ∀ e ∈ t, e.2 < st.nv

def TableLt (st : Store) (t : Table) : Prop := ∀ e ∈ t, e.2 < st.nv

/-- every id bound in the table was allocated at or after `b` -/
def TableGe (b : Nat) (t : Table) : Prop := ∀ e ∈ t, b ≤ e.2

/-- what a helper that neither builds nodes nor graphs does to the store -/
structure Quiet (st st' : Store) : Prop where
  nv_le : st.nv ≤ st'.nv
  nn_eq : st'.nn = st.nn
  ng_eq : st'.ng = st.ng
  beyond : ∀ v, st'.nv ≤ v → st'.vals v = st.vals v
  links : Fresh st → ∀ v, linksOf (st'.vals v) = linksOf (st.vals v)
  names : ∀ v, v < st.nv → (st'.vals v).name = (st.vals v).name

theorem Quiet.refl (st : Store) : Quiet st st :=
  ⟨Nat.le_refl _, rfl, rfl, fun _ _ => rfl, fun _ _ => rfl, fun _ _ => rfl⟩

theorem Quiet.fresh {st st' : Store} (q : Quiet st st') (h : Fresh st) : Fresh st' := by
  intro v hv
  rw [q.beyond v hv]
  exact h v (Nat.le_trans q.nv_le hv)

theorem Quiet.trans {a b c : Store} (h1 : Quiet a b) (h2 : Quiet b c) : Quiet a c where
  nv_le := Nat.le_trans h1.nv_le h2.nv_le
  nn_eq := by rw [h2.nn_eq, h1.nn_eq]
  ng_eq := by rw [h2.ng_eq, h1.ng_eq]
  beyond := fun v hv => by
    rw [h2.beyond v hv, h1.beyond v (Nat.le_trans h2.nv_le hv)]
  links := fun hf v => by
    rw [h2.links (h1.fresh hf) v, h1.links hf v]
  names := fun v hv => by
    rw [h2.names v (Nat.lt_of_lt_of_le hv h1.nv_le), h1.names v hv]

theorem Quiet.alloc (st : Store) (c : ValueS) (hc : linksOf c = linksOf {}) : Quiet st (st.alloc c).1 where
  nv_le := by simp
  nn_eq := rfl
  ng_eq := rfl
  beyond := fun v hv => by
    simp only [alloc_nv] at hv
    rw [alloc_vals]
    have : v ≠ st.nv := by omega
    simp [this]
  links := fun hf v => by
    rw [alloc_vals]
    split
    · rename_i h
      subst h
      rw [hf st.nv (Nat.le_refl _)]
      exact hc
    · rfl
  names := fun v hv => by
    rw [alloc_vals_lt _ _ hv]

theorem Quiet.modify (st : Store) (v : Nat) (f : ValueS → ValueS) (hv : v < st.nv)
    (hf : ∀ c, linksOf (f c) = linksOf c ∧ (f c).name = c.name) : Quiet st (st.modify v f) where
  nv_le := by simp
  nn_eq := rfl
  ng_eq := rfl
  beyond := fun i hi => by
    simp only [modify_nv] at hi
    rw [modify_vals]
    have : i ≠ v := by omega
    simp [this]
  links := fun _ i => by
    rw [modify_vals]
    split
    · exact (hf _).1
    · rfl
  names := fun i _ => by
    rw [modify_vals]
    split
    · exact (hf _).2
    · rfl

theorem Quiet.allocTensor (st : Store) (t : TensorS) : Quiet st (st.allocTensor t).1 :=
  ⟨Nat.le_refl _, rfl, rfl, fun _ _ => rfl, fun _ _ => rfl, fun _ _ => rfl⟩

theorem TableLt.mono {st st' : Store} {t : Table} (h : TableLt st t) (hle : st.nv ≤ st'.nv) :
    TableLt st' t := fun e he => Nat.lt_of_lt_of_le (h e he) hle

theorem TablesLt.mono {st st' : Store} {ts : List Table} (h : TablesLt st ts) (hle : st.nv ≤ st'.nv) :
    TablesLt st' ts := fun t ht e he => Nat.lt_of_lt_of_le (h t ht e he) hle

/-! ### deserInputs -/

theorem deserInputs_spec (st : Store) (is : List VInfoP) :
    Quiet st (deserInputs st is).1 ∧
    (deserInputs st is).1.nv = st.nv + is.length ∧
    (deserInputs st is).2 = List.range' st.nv is.length := by
  induction is generalizing st with
  | nil => exact ⟨Quiet.refl _, by simp [deserInputs], by simp [deserInputs]⟩
  | cons i is ih =>
    simp only [deserInputs]
    have q1 := Quiet.alloc st { name := some i.name, info := i.info } rfl
    obtain ⟨q2, hnv, hvs⟩ := ih (st.alloc { name := some i.name, info := i.info }).1
    refine ⟨q1.trans q2, ?_, ?_⟩
    · rw [hnv]; simp; omega
    · rw [hvs]; simp [List.range'_succ]

/-! ### table invariants -/

/-- the table of the graph whose deserialization started at allocation counter `b` -/
structure TblOK (st : Store) (b : Nat) (t : Table) : Prop where
  lt : TableLt st t
  ge : TableGe b t
  nodup : (t.map (·.2)).Nodup

/-- `t'` is `t` plus bindings of names that `t` did not bind, to ids `≥ lb` -/
structure Stable (lb : Nat) (t t' : Table) : Prop where
  lookup : ∀ x v, t.lookup x = some v → t'.lookup x = some v
  mem : ∀ e ∈ t, e ∈ t'
  grow : ∀ e ∈ t', e ∈ t ∨ lb ≤ e.2

theorem Stable.refl (lb : Nat) (t : Table) : Stable lb t t := ⟨fun _ _ h => h, fun _ h => h, fun _ h => .inl h⟩

theorem Stable.weaken {lb lb' : Nat} {a b : Table} (h : Stable lb a b) (hle : lb' ≤ lb) : Stable lb' a b :=
  ⟨h.lookup, h.mem, fun e he => (h.grow e he).imp id (fun x => Nat.le_trans hle x)⟩

theorem Stable.trans {lb : Nat} {a b c : Table} (h1 : Stable lb a b) (h2 : Stable lb b c) : Stable lb a c :=
  ⟨fun x v h => h2.lookup x v (h1.lookup x v h), fun e he => h2.mem e (h1.mem e he), fun e he => by
    rcases h2.grow e he with h | h
    · exact h1.grow e h
    · exact .inr h⟩

theorem Stable.cons (lb : Nat) (t : Table) (x : Name) (v : Nat) (h : t.lookup x = none) (hv : lb ≤ v) :
    Stable lb t ((x, v) :: t) := by
  refine ⟨fun y w hy => ?_, fun e he => List.mem_cons_of_mem _ he, fun e he => ?_⟩
  · have : y ≠ x := by
      intro e; subst e; rw [h] at hy; cases hy
    rw [lookup_cons_ne _ _ _ _ this]; exact hy
  · simp only [List.mem_cons] at he
    rcases he with rfl | he
    · exact .inr hv
    · exact .inl he

theorem TblOK.mono {st st' : Store} {b : Nat} {t : Table} (h : TblOK st b t) (hle : st.nv ≤ st'.nv) :
    TblOK st' b t := ⟨h.lt.mono hle, h.ge, h.nodup⟩

theorem TblOK.cons_alloc {st : Store} {b : Nat} {t : Table} (h : TblOK st b t) (hb : b ≤ st.nv)
    (x : Name) (c : ValueS) : TblOK (st.alloc c).1 b ((x, st.nv) :: t) := by
  refine ⟨?_, ?_, ?_⟩
  · intro e he
    simp only [List.mem_cons] at he
    rcases he with rfl | he
    · simp
    · have := h.lt e he
      simp; omega
  · intro e he
    simp only [List.mem_cons] at he
    rcases he with rfl | he
    · exact hb
    · exact h.ge e he
  · simp only [List.map_cons, List.nodup_cons]
    refine ⟨?_, h.nodup⟩
    intro hm
    simp only [List.mem_map] at hm
    obtain ⟨e, he, heq⟩ := hm
    have := h.lt e he
    omega

/-- two entries of a table with pairwise distinct values that hold the same value have the same key -/
theorem TblOK.mem_inj {st : Store} {b : Nat} {t : Table} (h : TblOK st b t) {x y : Name} {v : Nat}
    (hx : (x, v) ∈ t) (hy : (y, v) ∈ t) : x = y := by
  have key : ∀ (t : Table), (t.map (·.2)).Nodup → ∀ x y v, (x, v) ∈ t → (y, v) ∈ t → x = y := by
    intro t
    induction t with
    | nil => intro _ x y v h; simp at h
    | cons e t ih =>
      intro hn x y v h1 h2
      simp only [List.map_cons, List.nodup_cons, List.mem_map, not_exists, not_and] at hn
      simp only [List.mem_cons] at h1 h2
      rcases h1 with rfl | h1 <;> rcases h2 with h2 | h2
      · exact (congrArg Prod.fst h2).symm
      · exact absurd rfl (hn.1 (y, v) h2)
      · subst h2; exact absurd rfl (hn.1 (x, v) h1)
      · exact ih hn.2 x y v h1 h2
  exact key t h.nodup x y v hx hy

/-- distinct names bound in a table with pairwise distinct values are bound to distinct values -/
theorem TblOK.inj {st : Store} {b : Nat} {t : Table} (h : TblOK st b t) {x y : Name} {v : Nat}
    (hx : t.lookup x = some v) (hy : t.lookup y = some v) : x = y :=
  h.mem_inj (lookup_mem _ _ _ hx) (lookup_mem _ _ _ hy)

theorem lookup_ne_none_of_mem {α : Type} (x : Name) (v : α) (t : List (Name × α)) (h : (x, v) ∈ t) :
    t.lookup x ≠ none := by
  induction t with
  | nil => simp at h
  | cons e t ih =>
    obtain ⟨k, w⟩ := e
    simp only [List.mem_cons, Prod.mk.injEq] at h
    by_cases hk : x = k
    · subst hk; simp
    · rw [lookup_cons_ne _ _ _ _ hk]
      rcases h with ⟨rfl, _⟩ | h
      · exact absurd rfl hk
      · exact ih h

/-! ### the input table -/

theorem nodup_reverse {α : Type} (l : List α) : l.reverse.Nodup ↔ l.Nodup := by
  simp only [List.Nodup, List.pairwise_reverse]
  constructor <;> intro h <;> exact h.imp (fun hab => Ne.symm hab)

theorem inputTable_mem (is : List VInfoP) (b : Nat) (e : Name × Nat)
    (he : e ∈ inputTable is (List.range' b is.length)) : b ≤ e.2 ∧ e.2 < b + is.length := by
  simp only [inputTable, List.mem_reverse] at he
  have := List.of_mem_zip he
  have h2 := this.2
  simp only [List.mem_range'_1] at h2
  exact h2

theorem inputTable_vals (is : List VInfoP) (b : Nat) (v : Nat) (hv : v ∈ List.range' b is.length) :
    ∃ x, (x, v) ∈ inputTable is (List.range' b is.length) := by
  simp only [inputTable, List.mem_reverse]
  rw [List.mem_iff_getElem] at hv
  obtain ⟨k, hk, hkv⟩ := hv
  simp only [List.length_range'] at hk
  refine ⟨(is.map (·.name))[k]'(by simpa using hk), ?_⟩
  rw [List.mem_iff_getElem]
  refine ⟨k, by simpa using hk, ?_⟩
  simp [hkv]

theorem inputTable_ok (st : Store) (is : List VInfoP) :
    TblOK (deserInputs st is).1 st.nv (inputTable is (deserInputs st is).2) := by
  obtain ⟨_, hnv, hvs⟩ := deserInputs_spec st is
  rw [hvs]
  refine ⟨fun e he => ?_, fun e he => (inputTable_mem is st.nv e he).1, ?_⟩
  · rw [hnv]; exact (inputTable_mem is st.nv e he).2
  · simp only [inputTable, List.map_reverse, nodup_reverse]
    have : (List.map (fun x => x.2) ((List.map (·.name) is).zip (List.range' st.nv is.length))) =
        List.range' st.nv is.length := by
      rw [List.map_snd_zip]
      simp
    rw [this]
    exact List.nodup_range' (step := 1) (by omega)

/-! ### deserInits -/

theorem newInit_quiet (st : Store) (vi : List (Name × Info)) (t : TensorP) (tid : Nat) :
    Quiet st (newInit st vi t tid) ∧ (newInit st vi t tid).nv = st.nv + 1 := by
  unfold newInit
  split
  · rename_i i _
    have hlt : st.nv < (st.alloc { name := some t.name, info := tensorInfo t.ty t.sh, const := some tid }).1.nv := by
      simp
    exact ⟨(Quiet.alloc st { name := some t.name, info := tensorInfo t.ty t.sh, const := some tid } rfl).trans
      (Quiet.modify _ st.nv (fun c => { c with info := i.orTensor (tensorInfo t.ty t.sh) }) hlt
        (fun _ => ⟨rfl, rfl⟩)), rfl⟩
  · exact ⟨Quiet.alloc st _ rfl, rfl⟩

theorem newInit_tbl {st : Store} {b : Nat} {tb : Table} (h : TblOK st b tb) (hb : b ≤ st.nv)
    (vi : List (Name × Info)) (t : TensorP) (tid : Nat) : TblOK (newInit st vi t tid) b ((t.name, st.nv) :: tb) := by
  have := TblOK.cons_alloc h hb t.name { name := some t.name, info := tensorInfo t.ty t.sh, const := some tid }
  unfold newInit
  split
  · exact ⟨this.lt, this.ge, this.nodup⟩
  · exact this

theorem deserInits_spec (vi : List (Name × Info)) (ts : List TensorP) :
    ∀ (st : Store) (tbl : Table) (b : Nat), TblOK st b tbl → b ≤ st.nv →
      Quiet st (deserInits st tbl vi ts).1 ∧ TblOK (deserInits st tbl vi ts).1 b (deserInits st tbl vi ts).2.1 ∧
      Stable st.nv tbl (deserInits st tbl vi ts).2.1 ∧
      ∀ v ∈ (deserInits st tbl vi ts).2.2, ∃ x, x ≠ "" ∧ (x, v) ∈ (deserInits st tbl vi ts).2.1 := by
  induction ts with
  | nil =>
    intro st tbl b h _
    exact ⟨Quiet.refl _, h, Stable.refl _ _, by simp [deserInits]⟩
  | cons t ts ih =>
    intro st tbl b h hb
    simp only [deserInits]
    split
    · exact ih st tbl b h hb
    · rename_i hne
      have qt := Quiet.allocTensor st { name := some t.name, data := t.data, ty := t.ty, sh := t.sh }
      split
      · rename_i v hv
        have hvlt : v < st.nv := h.lt _ (lookup_mem _ _ _ hv)
        have q2 := Quiet.modify (st.allocTensor { name := some t.name, data := t.data, ty := t.ty, sh := t.sh }).1 v
          (fun c => { c with const := some st.nt }) (by simpa using hvlt) (fun _ => ⟨rfl, rfl⟩)
        have hok : TblOK ((st.allocTensor { name := some t.name, data := t.data, ty := t.ty, sh := t.sh }).1.modify v
            fun c => { c with const := some st.nt }) b tbl := ⟨h.lt, h.ge, h.nodup⟩
        obtain ⟨q3, ok3, s3, m3⟩ := ih _ tbl b hok (by simpa using hb)
        refine ⟨(qt.trans q2).trans q3, ok3, s3, ?_⟩
        intro w hw
        simp only [List.mem_cons] at hw
        rcases hw with rfl | hw
        · exact ⟨t.name, hne, s3.mem _ (lookup_mem _ _ _ hv)⟩
        · exact m3 w hw
      · rename_i hnone
        obtain ⟨q2, hnv2⟩ := newInit_quiet (st.allocTensor { name := some t.name, data := t.data, ty := t.ty, sh := t.sh }).1
          vi t st.nt
        have ok2 : TblOK (newInit (st.allocTensor { name := some t.name, data := t.data, ty := t.ty, sh := t.sh }).1
            vi t st.nt) b ((t.name, st.nv) :: tbl) :=
          newInit_tbl (st := (st.allocTensor { name := some t.name, data := t.data, ty := t.ty, sh := t.sh }).1)
            ⟨h.lt, h.ge, h.nodup⟩ hb vi t st.nt
        have hle : st.nv ≤ (newInit (st.allocTensor { name := some t.name, data := t.data, ty := t.ty, sh := t.sh }).1
            vi t st.nt).nv := by rw [hnv2]; simp
        obtain ⟨q4, ok4, s4, m4⟩ := ih _ ((t.name, st.nv) :: tbl) b ok2 (Nat.le_trans hb hle)
        refine ⟨(qt.trans q2).trans q4, ok4,
          (Stable.cons st.nv tbl t.name st.nv hnone (Nat.le_refl _)).trans (s4.weaken hle), ?_⟩
        intro w hw
        simp only [List.mem_cons] at hw
        rcases hw with rfl | hw
        · exact ⟨t.name, hne, s4.mem _ (by simp)⟩
        · exact m4 w hw

/-! ### declaring node outputs -/

theorem newNamed_quiet (st : Store) (vi : List (Name × Info)) (x : Name) :
    Quiet st (newNamed st vi x) ∧ (newNamed st vi x).nv = st.nv + 1 := by
  unfold newNamed
  split
  · rename_i i _
    have hlt : st.nv < (st.alloc { name := some x }).1.nv := by simp
    exact ⟨(Quiet.alloc st { name := some x } rfl).trans
      (Quiet.modify (st.alloc { name := some x }).1 st.nv (fun c => { c with info := i }) hlt (fun _ => ⟨rfl, rfl⟩)), rfl⟩
  · exact ⟨Quiet.alloc st _ rfl, rfl⟩

theorem newNamed_tbl {st : Store} {b : Nat} {t : Table} (h : TblOK st b t) (hb : b ≤ st.nv)
    (vi : List (Name × Info)) (x : Name) : TblOK (newNamed st vi x) b ((x, st.nv) :: t) := by
  have := TblOK.cons_alloc h hb x { name := some x }
  unfold newNamed
  split
  · exact ⟨this.lt, this.ge, this.nodup⟩
  · exact this

theorem declareOutputs_spec (vi : List (Name × Info)) (xs : List Name) :
    ∀ (st : Store) (tbl : Table) (b : Nat) (st' : Store) (tbl' : Table), TblOK st b tbl → b ≤ st.nv →
      declareOutputs st tbl vi xs = .ok (st', tbl') →
      Quiet st st' ∧ TblOK st' b tbl' ∧ Stable st.nv tbl tbl' ∧
      (∀ x ∈ xs, x ≠ "" → tbl.lookup x = none ∧ ∃ v, tbl'.lookup x = some v ∧ st.nv ≤ v) ∧
      (xs.filter (· ≠ "")).Nodup := by
  induction xs with
  | nil =>
    intro st tbl b st' tbl' h _ he
    simp only [declareOutputs, Except.ok.injEq, Prod.mk.injEq] at he
    obtain ⟨rfl, rfl⟩ := he
    exact ⟨Quiet.refl _, h, Stable.refl _ _, by simp, by simp⟩
  | cons x xs ih =>
    intro st tbl b st' tbl' h hb he
    simp only [declareOutputs] at he
    split at he
    · rename_i hx
      obtain ⟨q, ok, s, m, nd⟩ := ih st tbl b st' tbl' h hb he
      refine ⟨q, ok, s, ?_, ?_⟩
      · intro y hy hne
        simp only [List.mem_cons] at hy
        rcases hy with rfl | hy
        · exact absurd hx hne
        · exact m y hy hne
      · simpa [List.filter_cons, hx] using nd
    · rename_i hx
      split at he
      · simp at he
      · rename_i hnone
        have heq : declareOutputs (newNamed st vi x) ((x, st.nv) :: tbl) vi xs = .ok (st', tbl') := he
        obtain ⟨q1, hnv1⟩ := newNamed_quiet st vi x
        obtain ⟨q, ok, s, m, nd⟩ := ih _ _ b st' tbl' (newNamed_tbl h hb vi x) (by omega) heq
        refine ⟨q1.trans q, ok, (Stable.cons st.nv tbl x st.nv hnone (Nat.le_refl _)).trans (s.weaken q1.nv_le), ?_, ?_⟩
        · intro y hy hne
          simp only [List.mem_cons] at hy
          rcases hy with rfl | hy
          · exact ⟨hnone, st.nv, s.lookup _ _ (lookup_cons_self _ _ _), Nat.le_refl _⟩
          · obtain ⟨h1, v, h2, h3⟩ := m y hy hne
            have hyx : y ≠ x := by
              intro e; subst e; simp at h1
            rw [lookup_cons_ne _ _ _ _ hyx] at h1
            exact ⟨h1, v, h2, by omega⟩
        · have hxne : (x ≠ "") := hx
          simp only [List.filter_cons, ne_eq, hxne, not_false_eq_true, decide_true, ite_true, List.nodup_cons]
          refine ⟨?_, nd⟩
          intro hm
          simp only [List.mem_filter, decide_eq_true_eq] at hm
          obtain ⟨h1, _, _⟩ := m x hm.1 hm.2
          simp at h1

/-- the non-empty output names of a list of node protos, in order -/
def outNames (ns : List NodeP) : List Name := (ns.flatMap NodeP.outputs).filter (· ≠ "")

theorem declareNodes_spec (vi : List (Name × Info)) (ns : List NodeP) :
    ∀ (st : Store) (tbl : Table) (b : Nat) (st' : Store) (tbl' : Table), TblOK st b tbl → b ≤ st.nv →
      declareNodes st tbl vi ns = .ok (st', tbl') →
      Quiet st st' ∧ TblOK st' b tbl' ∧ Stable st.nv tbl tbl' ∧
      (∀ x ∈ outNames ns, tbl.lookup x = none ∧ ∃ v, tbl'.lookup x = some v ∧ st.nv ≤ v) ∧
      (outNames ns).Nodup := by
  induction ns with
  | nil =>
    intro st tbl b st' tbl' h _ he
    simp only [declareNodes, Except.ok.injEq, Prod.mk.injEq] at he
    obtain ⟨rfl, rfl⟩ := he
    exact ⟨Quiet.refl _, h, Stable.refl _ _, by simp [outNames], by simp [outNames]⟩
  | cons n ns ih =>
    intro st tbl b st' tbl' h hb he
    simp only [declareNodes] at he
    split at he
    · simp at he
    · rename_i st1 tbl1 h1
      obtain ⟨q1, ok1, s1, m1, nd1⟩ := declareOutputs_spec vi n.outputs st tbl b st1 tbl1 h hb h1
      obtain ⟨q2, ok2, s2, m2, nd2⟩ := ih st1 tbl1 b st' tbl' ok1 (Nat.le_trans hb q1.nv_le) he
      have hsplit : outNames (n :: ns) = n.outputs.filter (· ≠ "") ++ outNames ns := by
        simp [outNames, List.flatMap_cons, List.filter_append]
      refine ⟨q1.trans q2, ok2, s1.trans (s2.weaken q1.nv_le), ?_, ?_⟩
      · intro x hx
        rw [hsplit, List.mem_append] at hx
        rcases hx with hx | hx
        · simp only [List.mem_filter, ne_eq, decide_eq_true_eq] at hx
          obtain ⟨a, v, b', c⟩ := m1 x hx.1 hx.2
          exact ⟨a, v, s2.lookup _ _ b', c⟩
        · obtain ⟨a, v, b', c⟩ := m2 x hx
          refine ⟨?_, v, b', Nat.le_trans q1.nv_le c⟩
          cases hl : tbl.lookup x with
          | none => rfl
          | some w => rw [s1.lookup _ _ hl] at a; cases a
      · rw [hsplit, List.nodup_append]
        refine ⟨nd1, nd2, ?_⟩
        intro x hx y hy hxy
        subst hxy
        simp only [List.mem_filter, ne_eq, decide_eq_true_eq] at hx
        obtain ⟨_, v, hv, _⟩ := m1 x hx.1 hx.2
        obtain ⟨hnone, _⟩ := m2 x hy
        rw [hv] at hnone; cases hnone

/-! ### resolving inputs -/

theorem resolve_none_top (x : Name) (top : Table) (outer : List Table)
    (h : resolve x (top :: outer) = none) : top.lookup x = none := by
  simp only [resolve] at h
  split at h
  · cases h
  · assumption

theorem resolveInputs_spec (outer : List Table) (vi : List (Name × Info)) (xs : List Name) :
    ∀ (st : Store) (top : Table) (b : Nat), TblOK st b top → TablesLt st outer → b ≤ st.nv →
      Quiet st (resolveInputs st top outer vi xs).1 ∧
      TblOK (resolveInputs st top outer vi xs).1 b (resolveInputs st top outer vi xs).2.1 ∧
      Stable st.nv top (resolveInputs st top outer vi xs).2.1 ∧
      ∀ v, some v ∈ (resolveInputs st top outer vi xs).2.2 → v < (resolveInputs st top outer vi xs).1.nv := by
  induction xs with
  | nil =>
    intro st top b h _ _
    exact ⟨Quiet.refl _, h, Stable.refl _ _, by simp [resolveInputs]⟩
  | cons x xs ih =>
    intro st top b h ho hb
    simp only [resolveInputs]
    split
    · obtain ⟨q, ok, s, m⟩ := ih st top b h ho hb
      refine ⟨q, ok, s, ?_⟩
      intro v hv
      simp only [List.mem_cons] at hv
      rcases hv with hv | hv
      · cases hv
      · exact m v hv
    · split
      · rename_i v hv
        obtain ⟨q, ok, s, m⟩ := ih st top b h ho hb
        refine ⟨q, ok, s, ?_⟩
        intro w hw
        simp only [List.mem_cons, Option.some.injEq] at hw
        rcases hw with rfl | hw
        · obtain ⟨t, ht, hm⟩ := resolve_mem _ _ _ hv
          have hlt : w < st.nv := by
            simp only [List.mem_cons] at ht
            rcases ht with rfl | ht
            · exact h.lt _ hm
            · exact ho t ht _ hm
          exact Nat.lt_of_lt_of_le hlt q.nv_le
        · exact m w hw
      · rename_i hnone
        have hl := resolve_none_top _ _ _ hnone
        obtain ⟨q1, hnv1⟩ := newNamed_quiet st vi x
        have ok1 := newNamed_tbl h hb vi x
        have ho1 : TablesLt (newNamed st vi x) outer := ho.mono q1.nv_le
        obtain ⟨q, ok, s, m⟩ := ih (newNamed st vi x) ((x, st.nv) :: top) b ok1 ho1 (by omega)
        refine ⟨q1.trans q, ok, (Stable.cons st.nv top x st.nv hl (Nat.le_refl _)).trans (s.weaken q1.nv_le), ?_⟩
        intro w hw
        simp only [List.mem_cons, Option.some.injEq] at hw
        rcases hw with rfl | hw
        · have := q.nv_le
          show st.nv < (resolveInputs (newNamed st vi x) ((x, st.nv) :: top) outer vi xs).1.nv
          omega
        · exact m w hw

/-! ### output values of a node -/

theorem lookupOutputs_spec (top : Table) (xs : List Name) :
    ∀ (st st' : Store) (outs : List Nat), lookupOutputs st top xs = .ok (st', outs) →
      Quiet st st' ∧ outs.length = xs.length ∧
      (∀ w ∈ outs, (∃ y ∈ xs, y ≠ "" ∧ top.lookup y = some w) ∨ (st.nv ≤ w ∧ w < st'.nv)) ∧
      (∀ y ∈ xs, y ≠ "" → ∃ w ∈ outs, top.lookup y = some w) ∧
      (∀ b, TblOK st b top → (xs.filter (· ≠ "")).Nodup → outs.Nodup) := by
  induction xs with
  | nil =>
    intro st st' outs he
    simp only [lookupOutputs, Except.ok.injEq, Prod.mk.injEq] at he
    obtain ⟨rfl, rfl⟩ := he
    exact ⟨Quiet.refl _, rfl, by simp, by simp, by simp⟩
  | cons x xs ih =>
    intro st st' outs he
    simp only [lookupOutputs] at he
    split at he
    · rename_i hx
      split at he
      · simp at he
      · rename_i st2 vs h2
        simp only [Except.ok.injEq, Prod.mk.injEq] at he
        obtain ⟨rfl, rfl⟩ := he
        have q1 := Quiet.alloc st { name := some "" } rfl
        obtain ⟨q2, hl, hm, hc, hn⟩ := ih _ _ _ h2
        refine ⟨q1.trans q2, by simp [hl], ?_, ?_, ?_⟩
        · intro w hw
          simp only [alloc_snd, List.mem_cons] at hw
          rcases hw with rfl | hw
          · right
            have := q2.nv_le
            simp at this
            omega
          · rcases hm w hw with ⟨y, hy, h⟩ | ⟨h1, h2⟩
            · exact .inl ⟨y, by simp [hy], h⟩
            · right; simp at h1; omega
        · intro y hy hne
          simp only [List.mem_cons] at hy
          rcases hy with rfl | hy
          · exact absurd hx hne
          · obtain ⟨w, hw, h⟩ := hc y hy hne
            exact ⟨w, by simp [hw], h⟩
        · intro b hok hnd
          have hnd' : (xs.filter (· ≠ "")).Nodup := by simpa [List.filter_cons, hx] using hnd
          have hvs := hn b (hok.mono (by simp)) hnd'
          simp only [alloc_snd, List.nodup_cons]
          refine ⟨?_, hvs⟩
          intro hmem
          rcases hm _ hmem with ⟨y, _, _, hl'⟩ | ⟨h1, _⟩
          · have := hok.lt _ (lookup_mem _ _ _ hl')
            simp at this
          · simp at h1
            omega
    · rename_i hx
      split at he
      · simp at he
      · rename_i v hv
        split at he
        · simp at he
        · rename_i st1 vs h2
          simp only [Except.ok.injEq, Prod.mk.injEq] at he
          obtain ⟨rfl, rfl⟩ := he
          obtain ⟨q2, hl, hm, hc, hn⟩ := ih _ _ _ h2
          refine ⟨q2, by simp [hl], ?_, ?_, ?_⟩
          · intro w hw
            simp only [List.mem_cons] at hw
            rcases hw with rfl | hw
            · exact .inl ⟨x, by simp, hx, hv⟩
            · rcases hm w hw with ⟨y, hy, h⟩ | h
              · exact .inl ⟨y, by simp [hy], h⟩
              · exact .inr h
          · intro y hy hne
            simp only [List.mem_cons] at hy
            rcases hy with rfl | hy
            · exact ⟨v, by simp, hv⟩
            · obtain ⟨w, hw, h⟩ := hc y hy hne
              exact ⟨w, by simp [hw], h⟩
          · intro b hok hnd
            have hxne : x ≠ "" := hx
            simp only [List.filter_cons, ne_eq, hxne, not_false_eq_true, decide_true, ite_true,
              List.nodup_cons] at hnd
            refine List.nodup_cons.mpr ⟨?_, hn b hok hnd.2⟩
            intro hmem
            rcases hm _ hmem with ⟨y, hy, hyne, hl'⟩ | ⟨h1, _⟩
            · have := hok.inj hv hl'
              subst this
              exact hnd.1 (by simp [List.mem_filter, hy, hyne])
            · have := hok.lt _ (lookup_mem _ _ _ hv)
              omega

/-! ### graph outputs -/

theorem deserOutputs_spec (tbl : Table) (os : List VInfoP) :
    ∀ (st : Store) (b : Nat), TblOK st b tbl →
      Quiet st (deserOutputs st tbl os).1 ∧
      ∀ w ∈ (deserOutputs st tbl os).2,
        (∃ x, (x, w) ∈ tbl) ∨ (st.nv ≤ w ∧ w < (deserOutputs st tbl os).1.nv) := by
  induction os with
  | nil =>
    intro st b _
    exact ⟨Quiet.refl _, by simp [deserOutputs]⟩
  | cons o os ih =>
    intro st b h
    simp only [deserOutputs]
    split
    · rename_i v hv
      have hvlt := h.lt _ (lookup_mem _ _ _ hv)
      have q1 := Quiet.modify st v (fun c => { c with info := o.info }) hvlt (fun _ => ⟨rfl, rfl⟩)
      obtain ⟨q2, m⟩ := ih (st.modify v fun c => { c with info := o.info }) b ⟨h.lt, h.ge, h.nodup⟩
      refine ⟨q1.trans q2, ?_⟩
      intro w hw
      simp only [List.mem_cons] at hw
      rcases hw with rfl | hw
      · exact .inl ⟨_, lookup_mem _ _ _ hv⟩
      · exact m w hw
    · have q1 := Quiet.alloc st { name := some o.name, info := o.info } rfl
      obtain ⟨q2, m⟩ := ih (st.alloc { name := some o.name, info := o.info }).1 b (h.mono (by simp))
      refine ⟨q1.trans q2, ?_⟩
      intro w hw
      simp only [alloc_snd, List.mem_cons] at hw
      rcases hw with rfl | hw
      · right
        have := q2.nv_le
        simp at this
        show st.nv ≤ st.nv ∧ st.nv < (deserOutputs (st.alloc { name := some o.name, info := o.info }).1 tbl os).1.nv
        omega
      · rcases m w hw with h1 | ⟨h1, h2⟩
        · exact .inl h1
        · right
          simp at h1
          exact ⟨by omega, h2⟩

end IrVerif.Scope

/-
Extended model, MODELS WITH FUNCTIONS (IR version >= 10 format): shared definitions.

* `extF`: the certificate of the extension state of one function body (next to `replF`): equally (truthy-)named
  inputs carry the same merged metadata (they were all created with the metadata of the one value_info entry of
  their name), and the node list satisfies `extNs` along the tables of `replF` (no enclosing scope);
* `ReloadableME`: the certificate of an extended model with functions;
* `emitQF` / `emitQM`: the values whose annotation the serializer of a function / a model looks at (a function
  writes no annotations of its own: only the graphs nested in its nodes do);
* `DevSpecFs`: the positional form of the device-configuration description of the function bodies.
-/
import IrVerif.Lemmas.ScopeExtTop
import IrVerif.Lemmas.ScopeExtSerOk
import IrVerif.Lemmas.ScopeModelDup
namespace IrVerif.Scope

/-- the certificate of the extension state of a function body -/
def extF (V : Nat → ValueS) (x : Ext) : GraphT → Prop
  | .mk _ ins _ nodes _ =>
    (∀ a ∈ ins, ∀ b ∈ ins, nameTruthy (V a).name = true → (V a).name = (V b).name → x.vmeta a = x.vmeta b) ∧
    extNs V x [] (replDecl V (tblIns V ins) (nodes.flatMap (liveOuts V))).tbl nodes

/-- the values of a function whose quantization annotation `serFunctionE` looks at: those of the nested graphs -/
def emitQF (V : Nat → ValueS) : GraphT → List Nat
  | .mk _ _ _ nodes _ => emitQSubNs V nodes

/-- **ReloadableME**: the resolution certificate of the core model with functions, the certificates of the
    extension state of the main graph and of every function body, and the representation invariant -/
def ReloadableME (w : MWorldE) : Prop :=
  ReloadableM w.core ∧ extG w.st.vals w.ext [] w.root ∧ (∀ f ∈ w.funcs, extF w.st.vals w.ext f.2) ∧ ExtWF w.ext

/-- the values of a model whose annotation the serializer looks at -/
def emitQM (w : MWorldE) : List Nat :=
  emitQG w.st.vals w.root ++ w.funcs.flatMap fun f => emitQF w.st.vals f.2

/-- device configurations of the function bodies, function by function -/
def DevSpecFs (s : Store) (x : Ext) : List FuncE → List (FId × GraphT) → Prop
  | [], [] => True
  | f :: fs, g :: gs => DevSpecNs s x f.nodes g.2.nodes ∧ DevSpecFs s x fs gs
  | _, _ => False

end IrVerif.Scope

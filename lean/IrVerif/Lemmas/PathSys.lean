/-
C10 helper lemmas: system calls that are RESTRICTIONS of the kernel's (they may fail where the kernel
would resolve - ENAMETOOLONG, EACCES - but what they return is what the kernel returns), and the two
instances: PATH_MAX only (`sysP`), PATH_MAX + search permissions (`sysA`).
-/
import IrVerif.Lemmas.PathNoLink
namespace IrVerif.Path

/-- `sys` is a restriction of the kernel's system calls on the tree `fs` (for the process whose working
directory is `cwd`), and an `open` that succeeds implies that `os.stat` of the same string does (the same
resolution; `open` needs more permissions, never fewer) -/
structure SysOK (fs : FS) (kfuel : Nat) (cwd : Loc) (sys : Sys) : Prop where
  lstat_r : ∀ p nd, sys.lstat p = some nd → lstat fs kfuel cwd p = some nd
  statFile_r : ∀ p x, sys.statFile p = some x → statFile fs kfuel cwd p = some x
  statId_r : ∀ p x, sys.statId p = some x → statId fs kfuel cwd p = some x
  open_r : ∀ p x, sys.openF p = some x → openFile fs kfuel cwd p = some x
  open_stat : ∀ p x, sys.openF p = some x → sys.statFile p ≠ none ∧ sys.statId p ≠ none

theorem openFile_some' (fs : FS) (kfuel : Nat) (cwd : Loc) (p : Str) (i : Nat) (reg : Bool)
    (h : openFile fs kfuel cwd p = some (i, reg)) :
    ∃ l, kresolve fs kfuel cwd p true = some l ∧
      ((reg = true ∧ fs.get l = some (Node.file i)) ∨ (reg = false ∧ fs.get l = some (Node.other i))) := by
  unfold openFile at h
  split at h
  · exact absurd h (by simp)
  cases hk : kresolve fs kfuel cwd p true with
  | none => simp [hk] at h
  | some l =>
    simp only [hk] at h
    cases hg : fs.get l with
    | none => simp [hg] at h
    | some n =>
      cases n with
      | dir => simp [hg] at h
      | link t => simp [hg] at h
      | file j =>
        simp only [hg, Option.some.injEq, Prod.mk.injEq] at h
        obtain ⟨rfl, rfl⟩ := h
        exact ⟨l, rfl, Or.inl ⟨rfl, hg⟩⟩
      | other j =>
        simp only [hg, Option.some.injEq, Prod.mk.injEq] at h
        obtain ⟨rfl, rfl⟩ := h
        exact ⟨l, rfl, Or.inr ⟨rfl, hg⟩⟩

theorem sysP_ok (fs : FS) (kfuel : Nat) (cwd : Loc) : SysOK fs kfuel cwd (sysP fs kfuel cwd) where
  lstat_r := lstatRestr_P fs kfuel cwd
  statFile_r := by
    intro p x h
    simp only [sysP, statFileP] at h
    split at h
    · exact absurd h (by simp)
    · exact h
  statId_r := by
    intro p x h
    simp only [sysP, statIdP] at h
    split at h
    · exact absurd h (by simp)
    · exact h
  open_r := fun _ _ h => h
  open_stat := by
    intro p x h
    simp only [sysP] at h ⊢
    have hlen : ¬ PATH_MAX ≤ p.length := by
      intro hl; unfold openFile at h; simp [hl] at h
    obtain ⟨l, hk, hkind⟩ := openFile_some' fs kfuel cwd p x.1 x.2 h
    unfold statFileP statIdP statFile statId
    simp only [hlen, if_false, hk]
    rcases hkind with ⟨_, hg⟩ | ⟨_, hg⟩ <;> simp [hg]

/-- the walk with search permissions is a restriction of the walk -/
theorem walkA_restr (fs : FS) (search : Loc → Bool) : ∀ (f : Nat) (comps : List Str) (cur l : Loc) (fl : Bool),
    walkA fs search f cur comps fl = some l → walk fs f cur comps fl = some l := by
  intro f
  induction f using Nat.strongRecOn with
  | _ f ihf =>
    intro comps
    induction comps with
    | nil => intro cur l fl h; rw [walkA] at h; rw [walk_nil]; exact h
    | cons c rest ih =>
      intro cur l fl h
      rw [walkA] at h
      cases hg : fs.get cur with
      | none => simp [hg] at h
      | some nd =>
        cases nd with
        | file i => simp [hg] at h
        | other i => simp [hg] at h
        | link t => simp [hg] at h
        | dir =>
          simp only [hg] at h
          by_cases hc0 : c = []
          · simp only [hc0, if_true] at h
            rw [hc0, walk_step_skip fs f cur [] rest fl hg (Or.inl rfl)]
            exact ih _ _ _ h
          · simp only [hc0, if_false] at h
            by_cases hs : search cur = false
            · simp [hs] at h
            · simp only [hs, if_false] at h
              by_cases hc1 : c = DOT
              · simp only [hc1, if_true] at h
                rw [hc1, walk_step_skip fs f cur DOT rest fl hg (Or.inr rfl)]
                exact ih _ _ _ h
              · simp only [hc1, if_false] at h
                by_cases hc2 : c = DOTDOT
                · simp only [hc2, if_true] at h
                  rw [hc2, walk_step_up fs f cur rest fl hg]
                  exact ih _ _ _ h
                · simp only [hc2, if_false] at h
                  have h1 : ¬ (c = [] ∨ c = DOT) := by rintro (e | e); exact hc0 e; exact hc1 e
                  cases hn : fs.get (cur ++ [c]) with
                  | none => simp [hn] at h
                  | some n =>
                    cases n with
                    | dir =>
                      simp only [hn] at h
                      rw [walk_step_plain fs f cur c rest fl hg h1 hc2 Node.dir hn (by intro t; simp)]
                      exact ih _ _ _ h
                    | file i =>
                      simp only [hn] at h
                      rw [walk_step_plain fs f cur c rest fl hg h1 hc2 (Node.file i) hn (by intro t; simp)]
                      exact ih _ _ _ h
                    | other i =>
                      simp only [hn] at h
                      rw [walk_step_plain fs f cur c rest fl hg h1 hc2 (Node.other i) hn (by intro t; simp)]
                      exact ih _ _ _ h
                    | link t =>
                      simp only [hn] at h
                      rw [walk]
                      simp only [hg, h1, hc2, if_false, hn]
                      by_cases hlast : rest = [] ∧ fl = false
                      · simp only [hlast, and_self, if_true] at h ⊢
                        exact h
                      · simp only [hlast, if_false] at h ⊢
                        cases f with
                        | zero => simp at h
                        | succ f' =>
                          simp only at h ⊢
                          exact ihf f' (by omega) _ _ _ _ h

theorem kresolveA_restr (fs : FS) (search : Loc → Bool) (f : Nat) (cwd : Loc) (p : Str) (fl : Bool) (l : Loc)
    (h : kresolveA fs search f cwd p fl = some l) :
    kresolve fs f cwd p fl = some l ∧ ¬ PATH_MAX ≤ p.length := by
  unfold kresolveA at h
  split at h
  · exact absurd h (by simp)
  · rename_i hc
    have hne : p ≠ [] := fun e => hc (Or.inl e)
    have hlen : ¬ PATH_MAX ≤ p.length := fun e => hc (Or.inr e)
    refine ⟨?_, hlen⟩
    unfold kresolve
    simp only [hne, if_false]
    exact walkA_restr fs search f _ _ _ _ h

theorem sysA_ok (fs : FS) (search : Loc → Bool) (kfuel : Nat) (cwd : Loc) :
    SysOK fs kfuel cwd (sysA fs search kfuel cwd) where
  lstat_r := by
    intro p nd h
    simp only [sysA] at h
    cases hk : kresolveA fs search kfuel cwd p false with
    | none => simp [hk] at h
    | some l =>
      simp only [hk] at h
      unfold lstat
      rw [(kresolveA_restr fs search kfuel cwd p false l hk).1]
      exact h
  statFile_r := by
    intro p x h
    simp only [sysA] at h
    cases hk : kresolveA fs search kfuel cwd p true with
    | none => simp [hk] at h
    | some l =>
      simp only [hk] at h
      unfold statFile
      rw [(kresolveA_restr fs search kfuel cwd p true l hk).1]
      exact h
  statId_r := by
    intro p x h
    simp only [sysA] at h
    cases hk : kresolveA fs search kfuel cwd p true with
    | none => simp [hk] at h
    | some l =>
      simp only [hk] at h
      unfold statId
      rw [(kresolveA_restr fs search kfuel cwd p true l hk).1]
      exact h
  open_r := by
    intro p x h
    simp only [sysA] at h
    cases hk : kresolveA fs search kfuel cwd p true with
    | none => simp [hk] at h
    | some l =>
      simp only [hk] at h
      obtain ⟨hk', hlen⟩ := kresolveA_restr fs search kfuel cwd p true l hk
      unfold openFile
      simp only [hlen, if_false, hk']
      exact h
  open_stat := by
    intro p x h
    simp only [sysA] at h ⊢
    cases hk : kresolveA fs search kfuel cwd p true with
    | none => simp [hk] at h
    | some l =>
      simp only [hk] at h ⊢
      cases hg : fs.get l with
      | none => simp [hg] at h
      | some nd =>
        cases nd with
        | link t => simp [hg] at h
        | dir => simp [hg] at h
        | file i => simp
        | other i => simp


/-! ### the PATH_MAX model is the instance `sysP` of the general model -/

@[simp] theorem sysP_lstat (fs : FS) (kf : Nat) (cwd : Loc) (p : Str) :
    (sysP fs kf cwd).lstat p = lstatP fs kf cwd p := rfl

theorem joinRealP_eq_V (fs : FS) (kf : Nat) (cwd : Loc) : ∀ fuel path rest seen,
    joinRealP fs kf cwd fuel path rest seen = joinRealV (sysP fs kf cwd) fuel path rest seen := by
  intro fuel path rest seen
  fun_induction joinRealP fs kf cwd fuel path rest seen
  all_goals (try rw [joinRealV])
  all_goals (try simp_all +zetaDelta)
  all_goals (split <;> first | rfl | simp_all +zetaDelta | skip)

theorem realpathP_eq_V (fs : FS) (kf fuel : Nat) (cwdS : Str) (cwd : Loc) (p : Str) :
    realpathP fs kf fuel cwdS cwd p = realpathV (sysP fs kf cwd) fuel cwdS p := by
  unfold realpathP realpathV
  rw [joinRealP_eq_V]

theorem checkContainmentP_eq_V (fs : FS) (kf fuel : Nat) (cwdS : Str) (cwd : Loc) (base loc : Str) :
    checkContainmentP fs kf fuel cwdS cwd base loc = checkContainmentV (sysP fs kf cwd) fuel cwdS base loc := by
  unfold checkContainmentP checkContainmentV
  simp only [realpathP_eq_V]
  rfl

theorem readP_eq_V (fs : FS) (kf fuel : Nat) (cwdS : Str) (cwd : Loc) (base loc : Str) (offset length : Nat) :
    readP fs kf fuel cwdS cwd base loc offset length =
      readV (sysP fs kf cwd) fs.data fuel cwdS base loc offset length := by
  unfold readP readV
  simp only [checkContainmentP_eq_V]
  rfl

/-! ### evaluating the non-strict `realpath` on the rendering of a location none of whose prefixes it
takes for a link -/

theorem joinRealV_plain (sys : Sys) (fuel : Nat) : ∀ (suf : List Str) (pre : Loc) (seen : Seen),
    (∀ c ∈ pre, Clean c) → (∀ c ∈ suf, Clean c) →
    (∀ k, k < suf.length → ∀ t, sys.lstat (render (pre ++ suf.take (k + 1))) ≠ some (Node.link t)) →
    joinRealV sys fuel (render pre) suf seen = (render (pre ++ suf), true, seen) := by
  intro suf
  induction suf with
  | nil => intro pre seen _ _ _; rw [joinRealV]; simp
  | cons c rest ih =>
    intro pre seen hpre hsuf hnl
    have hc : Clean c := hsuf c (by simp)
    have hj : pjoin (render pre) c = render (pre ++ [c]) :=
      pjoin_render pre c (fun x hx => (hpre x hx).piece) hc.piece
    have h0 := hnl 0 (by simp)
    simp only [Nat.zero_add, List.take_succ_cons, List.take_zero] at h0
    rw [joinRealV]
    simp only [(not_special_of_clean hc).1, (not_special_of_clean hc).2, if_false, hj]
    have hrec := ih (pre ++ [c]) seen
      (by
        intro x hx
        rcases List.mem_append.mp hx with h | h
        · exact hpre x h
        · simp at h; subst h; exact hc)
      (fun x hx => hsuf x (by simp [hx]))
      (by
        intro k hk t
        have := hnl (k + 1) (by simp; omega) t
        simpa [List.take_succ_cons] using this)
    have e : pre ++ [c] ++ rest = pre ++ c :: rest := by simp
    rw [e] at hrec
    cases hl : sys.lstat (render (pre ++ [c])) with
    | none => exact hrec
    | some nd =>
      cases nd with
      | link t => exact absurd hl (h0 t)
      | dir => exact hrec
      | file i => exact hrec
      | other i => exact hrec

/-- the non-strict `realpath` over ANY system calls leaves the rendering of a location alone when it
takes none of its prefixes for a link (with the working directory "/") -/
theorem realpathV_render (sys : Sys) (fuel : Nat) (l : Loc) (hl : ∀ c ∈ l, Clean c)
    (hnl : ∀ k, k < l.length → ∀ t, sys.lstat (render (l.take (k + 1))) ≠ some (Node.link t)) :
    realpathV sys fuel (render []) (render l) = render l := by
  have hre : Rep [] (render l) l := Rep.abs l hl
  unfold realpathV
  simp only [isabs_render, if_true]
  have ht : (render l).tail = joinSep l := by simp [render]
  rw [ht]
  by_cases hne : l = []
  · subst hne
    have : splitSep (joinSep ([] : Loc)) = [[]] := by decide
    rw [this, joinRealV]
    simp only [true_or, if_true]
    rw [joinRealV]
    decide
  · rw [splitSep_joinSep l (fun c hc => (hl c hc).2.2.2) hne]
    have e : (['/'] : Str) = render [] := by simp [render, joinSep]
    rw [e, joinRealV_plain sys fuel l [] [] (by simp) hl (by simpa using hnl)]
    simp only [List.nil_append]
    exact hre.abspath_eq (by simp)

end IrVerif.Path

/-
C14: flag honesty and measures of the built-in passes on C05's pass models.  Core Lean only.
-/
import IrVerif.Model.PassFlags
import IrVerif.Lemmas.Sem
namespace IrVerif.PassFlags
open IrVerif.Sem IrVerif.Passes

/-! ## LiftConstantsToInitializers -/

mutual
theorem liftG_cnt0 (la : Bool) (lim : Nat) : ∀ g : Graph, liftCntG la lim g = 0 → liftG la lim g = g
  | .mk inputs outputs inits nodes, h => by
    simp only [liftCntG] at h
    simp [liftG, liftNodes_cnt0 la lim outputs nodes h]
theorem liftNodes_cnt0 (la : Bool) (lim : Nat) : ∀ (gouts : List VId) (ns : List Node),
    liftCntNodes la lim gouts ns = 0 → liftNodes la lim gouts ns = (ns, [])
  | _, [], _ => rfl
  | gouts, .mk op attrs ins outs bodies :: ns, h => by
    simp only [liftCntNodes] at h
    simp only [liftNodes]
    split at h
    · omega
    · next hc =>
      have h1 : liftCntBodies la lim bodies = 0 := by omega
      have h2 : liftCntNodes la lim gouts ns = 0 := by omega
      simp [hc, liftNodes_cnt0 la lim gouts ns h2, liftBodies_cnt0 la lim bodies h1]
theorem liftBodies_cnt0 (la : Bool) (lim : Nat) : ∀ bs : List Graph,
    liftCntBodies la lim bs = 0 → liftBodies la lim bs = bs
  | [], _ => rfl
  | b :: bs, h => by
    simp only [liftCntBodies] at h
    simp [liftBodies, liftG_cnt0 la lim b (by omega), liftBodies_cnt0 la lim bs (by omega)]
end

mutual
theorem liftG_nodes (la : Bool) (lim : Nat) : ∀ g : Graph,
    nodesG (liftG la lim g) + liftCntG la lim g ≤ nodesG g
  | .mk inputs outputs inits nodes => by
    simp only [liftG, nodesG, liftCntG]
    exact liftNodes_nodes la lim outputs nodes
theorem liftNodes_nodes (la : Bool) (lim : Nat) : ∀ (gouts : List VId) (ns : List Node),
    nodesNodes (liftNodes la lim gouts ns).1 + liftCntNodes la lim gouts ns ≤ nodesNodes ns
  | _, [] => Nat.le_refl _
  | gouts, .mk op attrs ins outs bodies :: ns => by
    have ih := liftNodes_nodes la lim gouts ns
    have ihb := liftBodies_nodes la lim bodies
    cases hc : liftCandidate la lim gouts op attrs outs with
    | some p => simp only [liftNodes, liftCntNodes, nodesNodes, hc]; omega
    | none =>
      simp only [liftNodes, liftCntNodes, nodesNodes, hc]
      have e : nodesBodies (liftBodies la lim bodies) + liftCntBodies la lim bodies ≤ nodesBodies bodies := ihb
      omega
theorem liftBodies_nodes (la : Bool) (lim : Nat) : ∀ bs : List Graph,
    nodesBodies (liftBodies la lim bs) + liftCntBodies la lim bs ≤ nodesBodies bs
  | [] => Nat.le_refl _
  | b :: bs => by
    have := liftG_nodes la lim b
    have := liftBodies_nodes la lim bs
    simp only [liftBodies, liftCntBodies, nodesBodies]; omega
end

/-! ## DeduplicateInitializers -/

theorem dedupInits_nil (lim : Nat) (io : List VId) : ∀ (l : List (VId × Tensor)) (seen : List (DedupKey × VId)),
    (dedupInits lim io seen l).2 = [] → (dedupInits lim io seen l).1 = l
  | [], _, _ => rfl
  | (v, t) :: rest, seen, h => by
    simp only [dedupInits] at h ⊢
    split at h
    · next hc => simp only [hc, if_true]; rw [dedupInits_nil lim io rest seen h]
    · next hc =>
      simp only [hc]
      cases hl : seen.lookup (dedupKey t) with
      | some k => simp [hl] at h
      | none =>
        simp only [hl] at h ⊢
        rw [dedupInits_nil lim io rest _ h]; rfl

theorem dedupInits_len (lim : Nat) (io : List VId) : ∀ (l : List (VId × Tensor)) (seen : List (DedupKey × VId)),
    (dedupInits lim io seen l).1.length + (dedupInits lim io seen l).2.length = l.length
  | [], _ => rfl
  | (v, t) :: rest, seen => by
    simp only [dedupInits]
    split
    · have := dedupInits_len lim io rest seen
      simp only [List.length_cons]; omega
    · cases hl : seen.lookup (dedupKey t) with
      | some k =>
        have := dedupInits_len lim io rest seen
        simp only [List.length_cons]; omega
      | none =>
        have := dedupInits_len lim io rest ((dedupKey t, v) :: seen)
        simp only [List.length_cons]; omega

theorem substIns_nil' (ins : List (Option VId)) : substIns [] ins = ins := by
  simp only [substIns]
  induction ins with
  | nil => rfl
  | cons a l ih =>
    cases a <;> simp_all [Subst.app]

mutual
theorem dedupG_cnt0 (lim : Nat) : ∀ g : Graph, dedupCntG lim g = 0 → dedupG lim [] g = g
  | .mk inputs outputs inits nodes, h => by
    simp only [dedupCntG] at h
    have h1 : (dedupInits lim (inputs ++ outputs) [] inits).2 = [] := List.eq_nil_of_length_eq_zero (by omega)
    have h2 : dedupCntNodes lim nodes = 0 := by omega
    simp only [dedupG, h1, List.nil_append, dedupInits_nil lim _ inits [] h1, dedupNodes_cnt0 lim nodes h2]
theorem dedupNodes_cnt0 (lim : Nat) : ∀ ns : List Node, dedupCntNodes lim ns = 0 → dedupNodes lim [] ns = ns
  | [], _ => rfl
  | .mk op attrs ins outs bodies :: ns, h => by
    simp only [dedupCntNodes] at h
    simp only [dedupNodes, substIns_nil', dedupBodies_cnt0 lim bodies (by omega),
      dedupNodes_cnt0 lim ns (by omega)]
theorem dedupBodies_cnt0 (lim : Nat) : ∀ bs : List Graph, dedupCntBodies lim bs = 0 → dedupBodies lim [] bs = bs
  | [], _ => rfl
  | b :: bs, h => by
    simp only [dedupCntBodies] at h
    simp only [dedupBodies, dedupG_cnt0 lim b (by omega), dedupBodies_cnt0 lim bs (by omega)]
end

mutual
theorem dedupG_inits (lim : Nat) : ∀ (σ : Subst) (g : Graph),
    initsG (dedupG lim σ g) + dedupCntG lim g = initsG g
  | σ, .mk inputs outputs inits nodes => by
    have h1 := dedupInits_len lim (inputs ++ outputs) inits []
    have h2 := dedupNodes_inits lim ((dedupInits lim (inputs ++ outputs) [] inits).2 ++ σ) nodes
    simp only [dedupG, initsG, dedupCntG]; omega
theorem dedupNodes_inits (lim : Nat) : ∀ (σ : Subst) (ns : List Node),
    initsNodes (dedupNodes lim σ ns) + dedupCntNodes lim ns = initsNodes ns
  | _, [] => rfl
  | σ, .mk op attrs ins outs bodies :: ns => by
    have h1 := dedupBodies_inits lim σ bodies
    have h2 := dedupNodes_inits lim σ ns
    simp only [dedupNodes, initsNodes, dedupCntNodes]; omega
theorem dedupBodies_inits (lim : Nat) : ∀ (σ : Subst) (bs : List Graph),
    initsBodies (dedupBodies lim σ bs) + dedupCntBodies lim bs = initsBodies bs
  | _, [] => rfl
  | σ, b :: bs => by
    have h1 := dedupG_inits lim σ b
    have h2 := dedupBodies_inits lim σ bs
    simp only [dedupBodies, initsBodies, dedupCntBodies]; omega
end

/-! ## RemoveUnusedNodes -/

theorem trim_len (ins : List (Option VId)) :
    (trimNone ins).length + (if trimNone ins != ins then 1 else 0) ≤ ins.length := by
  have hp := trimNone_prefix ins
  have hle := hp.length_le
  split
  · next hne =>
    have : (trimNone ins).length ≠ ins.length := by
      intro he
      have := hp.eq_of_length he
      simp [this] at hne
    omega
  · omega

theorem trim_eq_of_zero (ins : List (Option VId))
    (h : (if trimNone ins != ins then 1 else 0) = 0) : trimNone ins = ins := by
  split at h
  · omega
  · next hne => simpa using hne

mutual
theorem dceG_cnt0 : ∀ g : Graph, dceCntG g = 0 → (dceG g).1 = g
  | .mk inputs outputs inits nodes, h => by
    simp only [dceCntG] at h
    simp only [dceG, dceNodes_cnt0 outputs [] nodes h]
theorem dceNodes_cnt0 : ∀ (gouts pre : List VId) (ns : List Node),
    dceCntNodes gouts pre ns = 0 → (dceNodes gouts pre ns).1 = ns
  | _, _, [], _ => rfl
  | gouts, pre, .mk op attrs ins outs bodies :: ns, h => by
    simp only [dceCntNodes] at h
    simp only [dceNodes]
    split at h
    · omega
    · next hc =>
      have h1 : (if trimNone ins != ins then 1 else 0) = 0 := by
        simp only [trimTrailingNone] at h; omega
      have h2 : dceCntBodies bodies = 0 := by omega
      have h3 : dceCntNodes gouts (pre ++ usesN (.mk op attrs ins outs bodies)) ns = 0 := by omega
      rw [if_neg hc]
      simp only [trimTrailingNone, trim_eq_of_zero ins h1, dceBodies_cnt0 bodies h2,
        dceNodes_cnt0 gouts _ ns h3]
theorem dceBodies_cnt0 : ∀ bs : List Graph, dceCntBodies bs = 0 → (dceBodies bs).1 = bs
  | [], _ => rfl
  | b :: bs, h => by
    simp only [dceCntBodies] at h
    simp only [dceBodies, dceG_cnt0 b (by omega), dceBodies_cnt0 bs (by omega)]
end

mutual
theorem dceG_slots : ∀ g : Graph, slotsG (dceG g).1 + dceCntG g ≤ slotsG g
  | .mk inputs outputs inits nodes => by
    simp only [dceG, slotsG, dceCntG]
    exact dceNodes_slots outputs [] nodes
theorem dceNodes_slots : ∀ (gouts pre : List VId) (ns : List Node),
    slotsNodes (dceNodes gouts pre ns).1 + dceCntNodes gouts pre ns ≤ slotsNodes ns
  | _, _, [] => Nat.le_refl _
  | gouts, pre, .mk op attrs ins outs bodies :: ns => by
    have ih := dceNodes_slots gouts (pre ++ usesN (.mk op attrs ins outs bodies)) ns
    have ihb := dceBodies_slots bodies
    have ht := trim_len ins
    simp only [dceNodes, dceCntNodes]
    split
    · simp only [slotsNodes]; omega
    · simp only [slotsNodes, trimTrailingNone]; omega
theorem dceBodies_slots : ∀ bs : List Graph, slotsBodies (dceBodies bs).1 + dceCntBodies bs ≤ slotsBodies bs
  | [] => Nat.le_refl _
  | b :: bs => by
    have := dceG_slots b
    have := dceBodies_slots bs
    simp only [dceBodies, slotsBodies, dceCntBodies]; omega
end

theorem dceG_keeps : ∀ g : Graph, (dceG g).1.inputs = g.inputs ∧ (dceG g).1.outputs = g.outputs ∧
    (dceG g).1.inits = g.inits
  | .mk _ _ _ _ => ⟨rfl, rfl, rfl⟩

theorem filter_eq_of_length {α : Type} (p : α → Bool) : ∀ l : List α,
    (l.filter p).length = l.length → l.filter p = l
  | [], _ => rfl
  | a :: l, h => by
    have hle := List.length_filter_le p l
    simp only [List.filter_cons] at h ⊢
    split at h
    · next hp => simp only [hp, if_true]; rw [filter_eq_of_length p l (by simpa using h)]
    · simp only [List.length_cons] at h; omega

theorem sum_map_zero {α : Type} (f : α → Nat) : ∀ l : List α, (l.map f).sum = 0 → ∀ a ∈ l, f a = 0
  | [], _, _, h => by simp at h
  | b :: l, h, a, ha => by
    simp only [List.map_cons, List.sum_cons] at h
    rcases List.mem_cons.1 ha with rfl | ha
    · omega
    · exact sum_map_zero f l (by omega) a ha

theorem funcs_slots : ∀ fs : List Graph,
    ((fs.map (fun f => (dceG f).1)).map slotsG).sum + (fs.map dceCntG).sum ≤ (fs.map slotsG).sum
  | [] => Nat.le_refl _
  | f :: fs => by
    have := dceG_slots f
    have := funcs_slots fs
    simp only [List.map_cons, List.sum_cons]; omega

end IrVerif.PassFlags

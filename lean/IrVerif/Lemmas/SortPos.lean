/-
C12 — glue between positions in the universe (what the Kahn loop works on) and node ids
(what the tree and the result are expressed in).
-/
import IrVerif.Lemmas.SortTree

namespace IrVerif.Sort
open List

/-- position `i` of the universe holds entry `e` -/
def At (U : List Ent) (i : Nat) (e : Ent) : Prop := U[i]? = some e

theorem At.lt {U : List Ent} {i : Nat} {e : Ent} (h : At U i e) : i < U.length := by
  unfold At at h
  by_contra hc
  rw [List.getElem?_eq_none (Nat.le_of_not_lt hc)] at h
  simp at h

theorem At.mem {U : List Ent} {i : Nat} {e : Ent} (h : At U i e) : e ∈ U :=
  List.mem_of_getElem? h

theorem At.getElem {U : List Ent} {i : Nat} {e : Ent} (h : At U i e) : U[i]'h.lt = e := by
  have := h; unfold At at this
  rw [List.getElem?_eq_getElem h.lt] at this
  exact Option.some.inj this

theorem at_of_lt {U : List Ent} {i : Nat} (h : i < U.length) : At U i U[i] :=
  List.getElem?_eq_getElem h

theorem at_of_mem {U : List Ent} {e : Ent} (h : e ∈ U) : ∃ i, At U i e := by
  obtain ⟨i, hi, rfl⟩ := List.mem_iff_getElem.1 h
  exact ⟨i, at_of_lt hi⟩

theorem At.fun {U : List Ent} {i : Nat} {e e' : Ent} (h : At U i e) (h' : At U i e') : e = e' := by
  unfold At at h h'; rw [h] at h'; exact Option.some.inj h'

theorem At.inj {U : List Ent} (hnd : (idsOf U).Nodup) {i j : Nat} {e e' : Ent}
    (h : At U i e) (h' : At U j e') (hid : e.id = e'.id) : i = j := by
  have hi : i < (idsOf U).length := by simp [idsOf, h.lt]
  have hj : j < (idsOf U).length := by simp [idsOf, h'.lt]
  apply (hnd.getElem_inj_iff (hi := hi) (hj := hj)).1
  simp only [idsOf, List.getElem_map, h.getElem, h'.getElem, hid]

theorem indexOfId_some {U : List Ent} {a i : Nat} (h : indexOfId U a = some i) :
    ∃ e, At U i e ∧ e.id = a := by
  unfold indexOfId at h
  obtain ⟨hi, hp, _⟩ := List.findIdx?_eq_some_iff_getElem.1 h
  exact ⟨U[i], at_of_lt hi, by simpa using hp⟩

theorem indexOfId_at {U : List Ent} (hnd : (idsOf U).Nodup) {i : Nat} {e : Ent} (h : At U i e) :
    indexOfId U e.id = some i := by
  unfold indexOfId
  rw [List.findIdx?_eq_some_iff_getElem]
  refine ⟨h.lt, by simp [h.getElem], ?_⟩
  intro j hji hp
  have hj : j < U.length := Nat.lt_trans hji h.lt
  have hid : (U[j]).id = e.id := by simpa using hp
  have := At.inj hnd (at_of_lt hj) h hid
  omega

theorem mem_predsAt {U : List Ent} {j : Nat} {ec : Ent} (hj : At U j ec) {i : Nat} :
    i ∈ predsAt U j ↔
      ∃ a, (some a ∈ ec.inputs ∨ a ∈ ec.subNodes) ∧ indexOfId U a = some i := by
  have hj' : U[j]? = some ec := hj
  simp only [predsAt, hj', predsOfEnt, List.mem_append, List.mem_filterMap]
  constructor
  · rintro (⟨o, ho, hb⟩ | ⟨a, ha, hb⟩)
    · cases o with
      | none => simp at hb
      | some a => exact ⟨a, Or.inl ho, by simpa using hb⟩
    · exact ⟨a, Or.inr ha, hb⟩
  · rintro ⟨a, ha | ha, hb⟩
    · exact Or.inl ⟨some a, ha, by simpa using hb⟩
    · exact Or.inr ⟨a, ha, hb⟩

/-- predecessor lists only mention positions of the universe -/
theorem predsAt_lt (U : List Ent) : ∀ c, c < U.length → ∀ p ∈ predsAt U c, p < U.length := by
  intro c hc p hp
  obtain ⟨a, _, hb⟩ := (mem_predsAt (at_of_lt hc)).1 hp
  obtain ⟨e, he, _⟩ := indexOfId_some hb
  exact he.lt

/-- the position-level edge relation, read on entries -/
theorem edge_iff {U : List Ent} (hnd : (idsOf U).Nodup) {i j : Nat} {e ec : Ent}
    (hi : At U i e) (hj : At U j ec) :
    Edge U.length (predsAt U) i j ↔ (some e.id ∈ ec.inputs ∨ e.id ∈ ec.subNodes) := by
  constructor
  · rintro ⟨_, _, hmem⟩
    obtain ⟨a, ha, hb⟩ := (mem_predsAt hj).1 hmem
    obtain ⟨e', he', hid⟩ := indexOfId_some hb
    have := hi.fun he'
    subst this
    rw [hid]; exact ha
  · intro h
    exact ⟨hi.lt, hj.lt, (mem_predsAt hj).2 ⟨e.id, h, indexOfId_at hnd hi⟩⟩

/-- the dependency relation of `Graph.sort` on node ids: `a` is in the universe and is the
    producer of an input of `b` or a direct node of an attribute graph of `b` -/
def Dep (U : List Ent) (a b : Nat) : Prop :=
  ∃ ea ∈ U, ∃ eb ∈ U, ea.id = a ∧ eb.id = b ∧ (some a ∈ eb.inputs ∨ a ∈ eb.subNodes)

/-- position of the node with id `a` -/
def posOf (U : List Ent) (a : Nat) : Nat := (idsOf U).idxOf a

/-- id of the node at position `i` -/
def idAt (U : List Ent) (i : Nat) : Nat := ((U[i]?).map Ent.id).getD 0

theorem at_posOf {U : List Ent} (hnd : (idsOf U).Nodup) {e : Ent} (he : e ∈ U) :
    At U (posOf U e.id) e := by
  obtain ⟨i, hi⟩ := at_of_mem he
  have : posOf U e.id = i := by
    unfold posOf
    have hlt : i < (idsOf U).length := by simp [idsOf, hi.lt]
    have hget : (idsOf U)[i] = e.id := by simp [idsOf, hi.getElem]
    rw [← hget]; exact hnd.idxOf_getElem i hlt
  rw [this]; exact hi

theorem idAt_at {U : List Ent} {i : Nat} {e : Ent} (h : At U i e) : idAt U i = e.id := by
  have h' : U[i]? = some e := h
  simp [idAt, h']

theorem edge_of_dep {U : List Ent} (hnd : (idsOf U).Nodup) {a b : Nat} (h : Dep U a b) :
    Edge U.length (predsAt U) (posOf U a) (posOf U b) := by
  obtain ⟨ea, hea, eb, heb, rfl, rfl, hc⟩ := h
  exact (edge_iff hnd (at_posOf hnd hea) (at_posOf hnd heb)).2 hc

theorem dep_of_edge {U : List Ent} (hnd : (idsOf U).Nodup) {i j : Nat}
    (h : Edge U.length (predsAt U) i j) : Dep U (idAt U i) (idAt U j) := by
  have hi := at_of_lt h.1
  have hj := at_of_lt h.2.1
  rw [idAt_at hi, idAt_at hj]
  exact ⟨_, hi.mem, _, hj.mem, rfl, rfl, (edge_iff hnd hi hj).1 h⟩

theorem cycle_pos_iff {U : List Ent} (hnd : (idsOf U).Nodup) :
    (∃ x, Relation.TransGen (Edge U.length (predsAt U)) x x) ↔
    (∃ a, Relation.TransGen (Dep U) a a) := by
  constructor
  · rintro ⟨x, hx⟩
    exact ⟨idAt U x, Relation.TransGen.lift (idAt U) (fun _ _ h => dep_of_edge hnd h) _ _ hx⟩
  · rintro ⟨a, ha⟩
    exact ⟨posOf U a, Relation.TransGen.lift (posOf U) (fun _ _ h => edge_of_dep hnd h) _ _ ha⟩

/-! ## re-linking -/

theorem appendMove_eq {l : List Nat} (hnd : l.Nodup) (x : Nat) :
    appendMove l x = l.erase x ++ [x] := by
  unfold appendMove
  split
  · rename_i h
    obtain ⟨ys, rfl⟩ := List.getLast?_eq_some_iff.1 h
    have hx : x ∉ ys := by
      intro hm
      exact (List.nodup_append.1 hnd).2.2 x hm x (by simp) rfl
    rw [List.erase_append_right _ hx]; simp
  · rfl

theorem relink_eq (cur xs : List Nat) (hc : cur.Nodup) (hx : xs.Nodup) :
    relink cur xs = cur.filter (fun a => decide (a ∉ xs)) ++ xs := by
  induction xs generalizing cur with
  | nil => simp [relink]
  | cons x xs ih =>
    rw [List.nodup_cons] at hx
    have hstep : relink cur (x :: xs) = relink (cur.erase x ++ [x]) xs := by
      simp only [relink, List.foldl_cons, appendMove_eq hc x]
    have hnd' : (cur.erase x ++ [x]).Nodup := by
      rw [List.nodup_append]
      refine ⟨hc.erase x, by simp, ?_⟩
      intro a ha b hb
      simp at hb; subst hb
      exact ((hc.mem_erase_iff).1 ha).1
    rw [hstep, ih _ hnd' hx.2, List.filter_append, hc.erase_eq_filter, List.filter_filter]
    have hx1 : decide (x ∉ xs) = true := by simp [hx.1]
    simp only [List.filter_cons, hx1, if_true, List.filter_nil, List.append_assoc,
      List.singleton_append]
    congr 1
    apply List.filter_congr
    intro a _
    by_cases hax : a = x <;> simp [hax, hx.1]

/-- re-linking a graph with a duplicate-free arrangement of all its nodes yields that arrangement -/
theorem relink_perm {cur xs : List Nat} (hc : cur.Nodup) (hp : xs.Perm cur) : relink cur xs = xs := by
  have hx : xs.Nodup := hp.nodup_iff.2 hc
  rw [relink_eq cur xs hc hx]
  have : cur.filter (fun a => decide (a ∉ xs)) = [] := by
    rw [List.filter_eq_nil_iff]
    intro a ha; simp [hp.mem_iff.2 ha]
  rw [this]; simp

/-! ## buckets -/

theorem filterMap_range_getElem? (A U : List Ent) :
    (List.range' A.length U.length).filterMap (fun i => (A ++ U)[i]?) = U := by
  induction U generalizing A with
  | nil => simp
  | cons e U ih =>
    have h1 : (A ++ e :: U)[A.length]? = some e := by simp
    have h2 := ih (A ++ [e])
    simp only [List.length_append, List.length_singleton, List.append_assoc,
      List.singleton_append] at h2
    simp only [List.length_cons, List.range'_succ, List.filterMap_cons, h1]
    rw [h2]

theorem filterMap_range (U : List Ent) : (List.range U.length).filterMap (fun i => U[i]?) = U := by
  have := filterMap_range_getElem? [] U
  simpa [List.range_eq_range'] using this

theorem Run.perm_range {n : Nat} {preds : Nat → List Nat} {P : List Nat} (h : Run n preds P)
    (hl : P.length = n) : P.Perm (List.range n) := by
  have hs : P ⊆ List.range n := fun x hx => List.mem_range.2 (h.lt x hx)
  exact (List.subperm_of_subset h.nodup hs).perm_of_length_le (by simp [hl])

/-- after a complete run, a bucket holds the ids of the entries labelled with that graph -/
theorem bucket_perm {U : List Ent} {out : List Nat} (hp : out.Perm (List.range U.length))
    (k : Nat) : (bucket U out k).Perm ((U.filter (fun e => e.gid == k)).map Ent.id) := by
  unfold bucket
  have h1 : (out.filterMap (fun i => U[i]?)).Perm U := by
    have := hp.filterMap (fun i => U[i]?)
    rwa [filterMap_range] at this
  exact (h1.filter _).map _

theorem bucket_append (U : List Ent) (l1 l2 : List Nat) (k : Nat) :
    bucket U (l1 ++ l2) k = bucket U l1 k ++ bucket U l2 k := by
  simp [bucket, List.filterMap_append, List.filter_append]

theorem bucket_single {U : List Ent} {i : Nat} {e : Ent} (h : At U i e) (k : Nat) (hk : e.gid = k) :
    bucket U [i] k = [e.id] := by
  have h' : U[i]? = some e := h
  simp [bucket, h', hk]

theorem mem_bucket {U : List Ent} {l : List Nat} {i : Nat} {e : Ent} (hi : i ∈ l) (h : At U i e)
    (k : Nat) (hk : e.gid = k) : e.id ∈ bucket U l k := by
  have h' : U[i]? = some e := h
  simp only [bucket, List.mem_map, List.mem_filter, List.mem_filterMap]
  exact ⟨e, ⟨⟨i, hi, h'⟩, by simp [hk]⟩, rfl⟩

/-- order in the popped list carries over to the bucket of a graph -/
theorem bucket_before {U : List Ent} {out : List Nat} {i j : Nat} {ei ej : Ent}
    (hb : Before out i j) (hi : At U i ei) (hj : At U j ej) (k : Nat) (hki : ei.gid = k)
    (hkj : ej.gid = k) : Before (bucket U out k) ei.id ej.id := by
  obtain ⟨l1, l2, rfl, hj2⟩ := hb
  refine ⟨bucket U l1 k, bucket U l2 k, ?_, mem_bucket hj2 hj k hkj⟩
  rw [bucket_append, show i :: l2 = [i] ++ l2 from rfl, bucket_append, bucket_single hi k hki]
  simp

/-- inside a span every entry reaches the span's root along "direct node of an attribute graph of" -/
theorem owner_chain (U : List Ent) : ∀ m : MNode, ∀ k, entsN k m ⊆ U → ∀ e ∈ entsN k m,
    e = entOf k m ∨ Relation.TransGen (Dep U) e.id m.id := by
  intro m
  induction m using MNode.ind with
  | h n ih =>
    intro k hsub e he
    rcases mem_entsN.1 he with rfl | ⟨g, hg, m', hm', hin⟩
    · exact Or.inl rfl
    · right
      have hsub' : entsN g.1 m' ⊆ entsN k n :=
        ((entsN_infix_entsNs hm').trans (entsNs_infix_entsN hg)).subset
      have hstep : Dep U m'.id n.id := by
        refine ⟨entOf g.1 m', hsub (hsub' (entOf_mem_entsN _ _)), entOf k n,
          hsub (entOf_mem_entsN _ _), rfl, rfl, Or.inr ?_⟩
        show m'.id ∈ subNodeIds n.subs
        simp only [subNodeIds, List.mem_flatMap, List.mem_map]
        exact ⟨g, hg, m', hm', rfl⟩
      rcases ih g hg m' hm' g.1 (fun x hx => hsub (hsub' hx)) e hin with rfl | hchain
      · exact Relation.TransGen.single hstep
      · exact Relation.TransGen.tail hchain hstep

end IrVerif.Sort

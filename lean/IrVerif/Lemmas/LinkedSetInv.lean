/-
Representation invariant `Inv s bs` (`bs` = the live boxes in list order) and its preservation by
the two primitive transitions: `remove` of a present value and `linkNew` of an absent one.
-/
import IrVerif.Lemmas.LinkedSetRep
namespace IrVerif.LinkedSet

/-! ### the `id -> box` dict -/

theorem lookup_mem : ∀ (ix : List (Nat × Nat)) (v b : Nat), ix.lookup v = some b → (v, b) ∈ ix
  | [], _, _, h => by simp [List.lookup] at h
  | (k, c) :: ix, v, b, h => by
      simp only [List.lookup] at h
      by_cases hk : v = k
      · subst hk; simp at h; subst h; simp
      · have : (v == k) = false := by simp [hk]
        simp only [this] at h
        exact List.mem_cons_of_mem _ (lookup_mem ix v b h)

theorem lookup_of_mem : ∀ (ix : List (Nat × Nat)) (v b : Nat), (ix.map Prod.fst).Nodup →
    (v, b) ∈ ix → ix.lookup v = some b
  | [], _, _, _, h => by simp at h
  | (k, c) :: ix, v, b, hk, h => by
      simp only [List.map_cons, List.nodup_cons, List.mem_map, not_exists, not_and] at hk
      simp only [List.mem_cons, Prod.mk.injEq] at h
      simp only [List.lookup]
      rcases h with ⟨h1, h2⟩ | h
      · subst h1 h2; simp
      · have : v ≠ k := by
          rintro rfl
          exact hk.1 (v, b) h rfl
        have hf : (v == k) = false := by simp [this]
        simp only [hf]
        exact lookup_of_mem ix v b hk.2 h

theorem lookup_none_iff (ix : List (Nat × Nat)) (v : Nat) :
    ix.lookup v = none ↔ ∀ b, (v, b) ∉ ix := by
  induction ix with
  | nil => simp [List.lookup]
  | cons e ix ih =>
    obtain ⟨k, c⟩ := e
    simp only [List.lookup]
    by_cases hk : v = k
    · subst hk
      simp only [BEq.rfl, reduceCtorEq, false_iff]
      intro h; exact h c (by simp)
    · have hf : (v == k) = false := by simp [hk]
      simp only [hf, ih]
      constructor
      · intro h b hb
        simp only [List.mem_cons, Prod.mk.injEq] at hb
        rcases hb with ⟨h1, _⟩ | hb
        · exact hk h1
        · exact h b hb
      · intro h b hb
        exact h b (List.mem_cons_of_mem _ hb)

theorem mem_dictDel (ix : List (Nat × Nat)) (v v' b : Nat) :
    (v', b) ∈ dictDel ix v ↔ (v', b) ∈ ix ∧ v' ≠ v := by
  simp [dictDel]

theorem keys_dictDel (ix : List (Nat × Nat)) (v : Nat) (h : (ix.map Prod.fst).Nodup) :
    ((dictDel ix v).map Prod.fst).Nodup := by
  unfold dictDel
  exact List.Nodup.sublist (List.Sublist.map _ List.filter_sublist) h

theorem length_dictDel : ∀ (ix : List (Nat × Nat)) (v b : Nat), (ix.map Prod.fst).Nodup →
    (v, b) ∈ ix → (dictDel ix v).length + 1 = ix.length
  | [], _, _, _, h => by simp at h
  | (k, c) :: ix, v, b, hk, h => by
      simp only [List.map_cons, List.nodup_cons, List.mem_map, not_exists, not_and] at hk
      simp only [List.mem_cons, Prod.mk.injEq] at h
      rcases h with ⟨h1, h2⟩ | h
      · subst h1 h2
        have : dictDel ix v = ix := by
          unfold dictDel
          apply List.filter_eq_self.mpr
          intro e he
          have := hk.1 e he
          simp; exact this
        have h2 : dictDel ((v, b) :: ix) v = dictDel ix v := by simp [dictDel]
        rw [h2, this]; simp
      · have : k ≠ v := by
          rintro rfl
          exact hk.1 (k, b) h rfl
        have ih := length_dictDel ix v b hk.2 h
        simp [dictDel, this] at ih ⊢
        omega

theorem dictSet_absent (ix : List (Nat × Nat)) (v b : Nat) (h : ix.lookup v = none) :
    dictSet ix v b = ix ++ [(v, b)] := by
  simp [dictSet, h]

/-! ### the invariant -/

structure Inv (s : LSet) (bs : List Nat) : Prop where
  size_pos : 0 < size s
  nodup : bs.Nodup
  live : ∀ b ∈ bs, 0 < b ∧ b < size s ∧ (val s b).isSome
  dead : ∀ b, b ∉ bs → val s b = none
  links : Links s (0 :: bs ++ [0])
  idx : ∀ v b, (v, b) ∈ s.index ↔ b ∈ bs ∧ val s b = some v
  keys : (s.index.map Prod.fst).Nodup
  len : s.length = bs.length
  ilen : s.index.length = bs.length
  clk : s.clock + s.length = size s
  bound : ∀ b, b < size s → nx s b < size s ∧ pv s b < size s ∧ stp s b < s.clock
  owned : ∀ b, own s b = true
  /-- tombstones: the stored pointers of an erased box lead to the root, a live box, or a box
      erased strictly later -/
  tomb : ∀ b, b < size s → b ≠ 0 → b ∉ bs →
    (nx s b = 0 ∨ nx s b ∈ bs ∨ stp s b < stp s (nx s b)) ∧
    (pv s b = 0 ∨ pv s b ∈ bs ∨ stp s b < stp s (pv s b))

theorem Inv.zero_notin {s : LSet} {bs : List Nat} (h : Inv s bs) : 0 ∉ bs := by
  intro h0; have := (h.live 0 h0).1; omega

theorem Inv.clock_pos {s : LSet} {bs : List Nat} (h : Inv s bs) : 0 < s.clock := by
  have := (h.bound 0 h.size_pos).2.2; omega

theorem Inv.val_inj {s : LSet} {bs : List Nat} (h : Inv s bs) {b1 b2 v : Nat}
    (h1 : b1 ∈ bs) (h2 : b2 ∈ bs) (e1 : val s b1 = some v) (e2 : val s b2 = some v) : b1 = b2 := by
  have m1 := (h.idx v b1).2 ⟨h1, e1⟩
  have m2 := (h.idx v b2).2 ⟨h2, e2⟩
  have l1 := lookup_of_mem _ _ _ h.keys m1
  have l2 := lookup_of_mem _ _ _ h.keys m2
  rw [l1] at l2; exact Option.some.inj l2

theorem Inv.lookup_some {s : LSet} {bs : List Nat} (h : Inv s bs) {b v : Nat}
    (hb : b ∈ bs) (hv : val s b = some v) : lookup s v = some b :=
  lookup_of_mem _ _ _ h.keys ((h.idx v b).2 ⟨hb, hv⟩)

theorem Inv.lookup_none {s : LSet} {bs : List Nat} (h : Inv s bs) {v : Nat}
    (hv : ∀ b ∈ bs, val s b ≠ some v) : lookup s v = none := by
  apply (lookup_none_iff _ _).2
  intro b hb
  have := (h.idx v b).1 hb
  exact hv b this.1 this.2

theorem Inv.lookup_spec {s : LSet} {bs : List Nat} (h : Inv s bs) {b v : Nat}
    (hl : lookup s v = some b) : b ∈ bs ∧ val s b = some v :=
  (h.idx v b).1 (lookup_mem _ _ _ hl)

/-- pointer values around a live box -/
theorem Inv.around {s : LSet} {l1 l2 : List Nat} {n : Nat} (h : Inv s (l1 ++ n :: l2)) :
    pv s n = lastOr 0 l1 ∧ nx s n = headOr 0 l2 ∧ nx s (lastOr 0 l1) = n ∧ pv s (headOr 0 l2) = n := by
  have hl := h.links
  have h1 := Links_into l1 0 n (l2 ++ [0]) (by simpa using hl)
  have h2 := Links_outof (0 :: l1) n l2 0 (by simpa using hl)
  exact ⟨h1.2, h2.1, h1.1, h2.2⟩

theorem Inv.lastOr_lt {s : LSet} {l1 l2 : List Nat} (h : Inv s (l1 ++ l2)) : lastOr 0 l1 < size s := by
  have hm := lastOr_mem l1 0
  simp only [List.mem_cons] at hm
  rcases hm with hm | hm
  · rw [hm]; exact h.size_pos
  · exact (h.live _ (by simp [hm])).2.1

theorem Inv.headOr_lt {s : LSet} {l1 l2 : List Nat} (h : Inv s (l1 ++ l2)) : headOr 0 l2 < size s := by
  have hm := headOr_mem l2 0
  simp only [List.mem_append, List.mem_singleton] at hm
  rcases hm with hm | hm
  · exact (h.live _ (by simp [hm])).2.1
  · rw [hm]; exact h.size_pos

/-! ### removing a present value -/

/-- the state `remove` returns for a value stored in box `n` -/
def rmv (s : LSet) (n v : Nat) : LSet :=
  { er s n with length := (er s n).length - 1, index := dictDel (er s n).index v }

theorem Inv.remove_eq {s : LSet} {bs : List Nat} (h : Inv s bs) {n v : Nat}
    (hn : n ∈ bs) (hv : val s n = some v) : remove s v = (rmv s n v, true) := by
  unfold remove
  rw [h.lookup_some hn hv]
  simp only
  rw [eraseBox_eq s n (by simp [hv])]
  rfl

theorem Inv.remove_absent {s : LSet} {bs : List Nat} (h : Inv s bs) {v : Nat}
    (hv : ∀ b ∈ bs, val s b ≠ some v) : remove s v = (s, false) := by
  unfold remove
  rw [h.lookup_none hv]

theorem inv_rmv {s : LSet} {l1 l2 : List Nat} {n v : Nat} (h : Inv s (l1 ++ n :: l2))
    (hv : val s n = some v) : Inv (rmv s n v) (l1 ++ l2) := by
  obtain ⟨hp, hq, hpn, hqn⟩ := h.around
  have hnd := h.nodup
  have hnl := (h.live n (by simp))
  have hplt : lastOr 0 l1 < size s := by
    have := h.lastOr_lt (l1 := l1) (l2 := n :: l2); exact this
  have hqlt : headOr 0 l2 < size s := by
    have : Inv s ((l1 ++ [n]) ++ l2) := by simpa using h
    exact this.headOr_lt
  have hpm := lastOr_mem l1 0
  have hqm := headOr_mem l2 0
  have h0 := h.zero_notin
  have enx : ∀ x, nx (rmv s n v) x = if x = lastOr 0 l1 then headOr 0 l2 else nx s x := by
    intro x
    show nx (er s n) x = _
    rw [nx_er, hp, hq]; simp [hplt]
  have epv : ∀ x, pv (rmv s n v) x = if x = headOr 0 l2 then lastOr 0 l1 else pv s x := by
    intro x
    show pv (er s n) x = _
    rw [pv_er, hp, hq]; simp [hqlt]
  have eval : ∀ x, val (rmv s n v) x = if x = n then none else val s x := by
    intro x
    show val (er s n) x = _
    rw [val_er]; simp [hnl.2.1]
  have estp : ∀ x, stp (rmv s n v) x = if x = n then s.clock else stp s x := by
    intro x
    show stp (er s n) x = _
    rw [stp_er]; simp [hnl.2.1]
  have esize : size (rmv s n v) = size s := by show size (er s n) = _; simp
  have eclock : (rmv s n v).clock = s.clock + 1 := by show (er s n).clock = _; simp
  have hpn' : lastOr 0 l1 ≠ n := by grind
  have hqn' : headOr 0 l2 ≠ n := by grind
  constructor
  · rw [esize]; exact h.size_pos
  · grind
  · intro b hb
    have hb' : b ∈ l1 ++ n :: l2 := by grind
    have := h.live b hb'
    have hbn : b ≠ n := by grind
    rw [esize, eval]; simp [hbn, this]
  · intro b hb
    rw [eval]
    by_cases hbn : b = n
    · simp [hbn]
    · simp [hbn]; exact h.dead b (by grind)
  · have := Links_unlink (s := s) (s' := rmv s n v) l1 0 n l2 0 (by simpa using h.links)
      (by grind) (by grind) enx epv
    simpa using this
  · intro v' b
    show (v', b) ∈ dictDel (er s n).index v ↔ _
    rw [mem_dictDel, index_er, h.idx, eval]
    constructor
    · rintro ⟨⟨hb, hvb⟩, hne⟩
      have hbn : b ≠ n := by
        rintro rfl
        rw [hv] at hvb; exact hne (Option.some.inj hvb).symm
      refine ⟨by grind, by simp [hbn, hvb]⟩
    · rintro ⟨hb, hvb⟩
      have hbn : b ≠ n := by grind
      simp only [hbn, if_false] at hvb
      refine ⟨⟨by grind, hvb⟩, ?_⟩
      rintro rfl
      exact hbn (h.val_inj (by grind) (by simp) hvb hv)
  · show ((dictDel (er s n).index v).map Prod.fst).Nodup
    rw [index_er]; exact keys_dictDel _ _ h.keys
  · show (er s n).length - 1 = _
    rw [length_er, h.len]; simp
  · show (dictDel (er s n).index v).length = _
    rw [index_er]
    have := length_dictDel s.index v n h.keys ((h.idx v n).2 ⟨by simp, hv⟩)
    have := h.ilen
    simp at *; omega
  · show (er s n).clock + ((er s n).length - 1) = size (er s n)
    have := h.clk; have := h.len
    simp at *; omega
  · intro b hb
    rw [esize] at hb ⊢
    have := h.bound b hb
    rw [enx, epv, estp, eclock]
    refine ⟨?_, ?_, ?_⟩
    · split <;> omega
    · split <;> omega
    · split <;> omega
  · intro b; show own (er s n) b = true; rw [own_er]; exact h.owned b
  · intro b hb hb0 hbn
    rw [esize] at hb
    rw [enx, epv]
    by_cases hbe : b = n
    · subst hbe
      simp only [hpn'.symm, hqn'.symm, if_false, hp, hq]
      constructor
      · simp only [List.mem_append, List.mem_singleton] at hqm; grind
      · simp only [List.mem_cons] at hpm; grind
    · have hbo : b ∉ l1 ++ n :: l2 := by grind
      have ht := h.tomb b hb hb0 hbo
      have hbp : b ≠ lastOr 0 l1 := by
        simp only [List.mem_cons] at hpm; grind
      have hbq : b ≠ headOr 0 l2 := by
        simp only [List.mem_append, List.mem_singleton] at hqm; grind
      simp only [hbp, hbq, if_false, estp, hbe]
      have hsb := (h.bound b hb).2.2
      constructor
      · by_cases e : nx s b = n
        · right; right; simp [e]; exact hsb
        · rcases ht.1 with t | t | t
          · exact Or.inl t
          · right; left; grind
          · right; right; simp [e]; exact t
      · by_cases e : pv s b = n
        · right; right; simp [e]; exact hsb
        · rcases ht.2 with t | t | t
          · exact Or.inl t
          · right; left; grind
          · right; right; simp [e]; exact t

/-! ### linking a new box for an absent value -/

theorem inv_lnk {s : LSet} {l1 l2 : List Nat} {v : Nat} (h : Inv s (l1 ++ l2))
    (hv : ∀ b ∈ l1 ++ l2, val s b ≠ some v) :
    Inv (linkNew s (lastOr 0 l1) v).1 (l1 ++ size s :: l2) := by
  rw [linkNew_eq]
  have hplt : lastOr 0 l1 < size s := h.lastOr_lt
  have hqlt : headOr 0 l2 < size s := h.headOr_lt
  have hpm := lastOr_mem l1 0
  have hqm := headOr_mem l2 0
  have h0 := h.zero_notin
  have hnd := h.nodup
  have hq : nx s (lastOr 0 l1) = headOr 0 l2 := by
    have hl := h.links
    cases l2 with
    | nil =>
      have := Links_into l1 0 0 [] (by simpa using hl)
      simpa using this.1
    | cons q l2 =>
      have := Links_into l1 0 q (l2 ++ [0]) (by simpa using hl)
      simpa using this.1
  have hm : ∀ b ∈ l1 ++ l2, b ≠ size s := by
    intro b hb; have := (h.live b hb).2.1; omega
  show Inv (lnkS s (lastOr 0 l1) v) _
  generalize hs' : lnkS s (lastOr 0 l1) v = s'
  have enx : ∀ x, nx s' x = if x = size s then headOr 0 l2 else if x = lastOr 0 l1 then size s else nx s x := by
    intro x; subst hs'
    rw [nx_lnkS, nx_lnk _ _ _ _ hplt, hq]
  have epv : ∀ x, pv s' x = if x = headOr 0 l2 then size s else if x = size s then lastOr 0 l1 else pv s x := by
    intro x; subst hs'
    rw [pv_lnkS, pv_lnk _ _ _ _ hplt (by rw [hq]; exact hqlt), hq]
  have eval : ∀ x, val s' x = if x = size s then some v else val s x := by
    intro x; subst hs'; rw [val_lnkS, val_lnk]
  have estp : ∀ x, stp s' x = if x = size s then 0 else stp s x := by
    intro x; subst hs'; rw [stp_lnkS, stp_lnk]
  have eown : ∀ x, own s' x = if x = size s then true else own s x := by
    intro x; subst hs'; rw [own_lnkS, own_lnk]
  have esize : size s' = size s + 1 := by subst hs'; rw [size_lnkS]; simp
  have eclock : s'.clock = s.clock := by subst hs'; rw [clock_lnkS]; simp
  have eindex : s'.index = s.index ++ [(v, size s)] := by
    subst hs'; rw [index_lnkS]
    exact dictSet_absent _ _ _ (h.lookup_none hv)
  have elength : s'.length = s.length + 1 := by subst hs'; rfl
  have hdead_m : val s (size s) = none := h.dead _ (by grind)
  constructor
  · omega
  · have : size s ∉ l1 ++ l2 := by grind
    grind
  · intro b hb
    rw [esize, eval]
    by_cases hbm : b = size s
    · subst hbm; simp; exact h.size_pos
    · have hb' : b ∈ l1 ++ l2 := by grind
      have := h.live b hb'
      simp [hbm]; exact ⟨this.1, by omega, this.2.2⟩
  · intro b hb
    rw [eval]
    have hbm : b ≠ size s := by grind
    simp [hbm]; exact h.dead b (by grind)
  · have := Links_link (s := s) (s' := s') l1 0 (size s) l2 0 (by simpa using h.links)
      (by grind) (by grind) (by
        have := h.size_pos
        simp only [List.cons_append, List.mem_cons, List.mem_append]
        grind) enx epv
    simpa using this
  · intro v' b
    rw [eindex, List.mem_append, h.idx, eval]
    simp only [List.mem_singleton, Prod.mk.injEq]
    constructor
    · rintro (⟨hb, hvb⟩ | ⟨rfl, rfl⟩)
      · have := hm b hb
        exact ⟨by grind, by simp [this, hvb]⟩
      · simp
    · rintro ⟨hb, hvb⟩
      by_cases hbm : b = size s
      · subst hbm; simp at hvb; right; exact ⟨hvb.symm, rfl⟩
      · simp only [hbm, if_false] at hvb; left; exact ⟨by grind, hvb⟩
  · rw [eindex, List.map_append, List.nodup_append]
    refine ⟨h.keys, by simp, ?_⟩
    intro a ha b hb
    simp only [List.map_cons, List.map_nil, List.mem_singleton] at hb
    subst hb
    rintro rfl
    simp only [List.mem_map] at ha
    obtain ⟨⟨k, c⟩, hmem, rfl⟩ := ha
    have := (h.idx k c).1 hmem
    exact hv c this.1 this.2
  · rw [elength, h.len]; simp only [List.length_append, List.length_cons]; omega
  · rw [eindex]; have := h.ilen; simp only [List.length_append, List.length_cons, List.length_nil] at *; omega
  · rw [eclock, elength, esize]; have := h.clk; omega
  · intro b hb
    rw [esize] at hb ⊢
    rw [enx, epv, estp, eclock]
    have hc := h.clock_pos
    by_cases hbm : b = size s
    · subst hbm
      simp only [if_true]
      refine ⟨by omega, ?_, hc⟩
      split <;> omega
    · have := h.bound b (by omega)
      simp only [hbm, if_false]
      refine ⟨by split <;> omega, by split <;> omega, this.2.2⟩
  · intro b; rw [eown]; split
    · rfl
    · exact h.owned b
  · intro b hb hb0 hbn
    rw [esize] at hb
    have hbm : b ≠ size s := by grind
    have hbo : b ∉ l1 ++ l2 := by grind
    have ht := h.tomb b (by omega) hb0 hbo
    have hbb := h.bound b (by omega)
    have hbp : b ≠ lastOr 0 l1 := by
      simp only [List.mem_cons] at hpm; grind
    have hbq : b ≠ headOr 0 l2 := by
      simp only [List.mem_append, List.mem_singleton] at hqm; grind
    rw [enx, epv]
    simp only [hbm, hbp, hbq, if_false, estp]
    have h1 : nx s b ≠ size s := by omega
    have h2 : pv s b ≠ size s := by omega
    simp only [h1, h2, if_false]
    constructor
    · rcases ht.1 with t | t | t
      · exact Or.inl t
      · right; left; grind
      · right; right; exact t
    · rcases ht.2 with t | t | t
      · exact Or.inl t
      · right; left; grind
      · right; right; exact t

end IrVerif.LinkedSet

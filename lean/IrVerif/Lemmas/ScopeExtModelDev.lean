/-
Extended model, MODELS WITH FUNCTIONS: the sharding values of the node device configurations are preserved BY
IDENTITY by the round trip (`reloadableME_roundtrip_devs`), for the main graph and for every function body: from the
traces exported by the lock-step inductions (`rtE_graph`: `DevTrG`; `rtE_funcs`: `DevTrFs`,
`Lemmas/ScopeExtFuncDevDefs.lean`) and the source-side certificate `DevCertM`, when the configurations are written
(IR version gate open), by `devIso_graph` / `devIso_nodes` (`Lemmas/ScopeExtDevIso.lean`).
-/
import IrVerif.Lemmas.ScopeExtModel
namespace IrVerif.Scope

/-- one function body: trace + certificate + serialization succeeded + gate open ⟹ `DevIsoG` -/
theorem devIso_func (V : Nat → ValueS) (x x' : Ext) (td : TData) (ver : Option Int) (hgate : GateOpen ver) (hi : Nat)
    (A : Assoc) :
    ∀ (id : FId) (g : GraphT) (fp : FuncE) (g' : GraphT) (ws : Writes),
      serFunctionE V x td ver (id, g) = .ok (fp, ws) → DevCertF V x g → DevTrF V x' hi A g fp g' →
      DevIsoG x x' (sig A) g g'
  | id, .mk gid ins inits nodes outs, fp, .mk _ _ _ nodes' _, ws, hser, hc, htr => by
    obtain ⟨vis1, nps, qs, vis2, _, hn, _, rfl⟩ := xserFunction_inv hser
    simp only [DevCertF] at hc
    simp only [DevTrF] at htr
    simp only [DevIsoG]
    exact devIso_nodes V x x' td ver hgate hi A nodes [] _ nps nodes' false [] qs vis2 ws hn hc htr

/-- the function list, positionally -/
theorem devIso_funcs (V : Nat → ValueS) (x x' : Ext) (td : TData) (ver : Option Int) (hgate : GateOpen ver) (hi : Nat)
    (A : Assoc) :
    ∀ (fs : List (FId × GraphT)) (fps : List FuncE) (gs : List (FId × GraphT)) (ws : Writes),
      serFuncsE V x td ver fs = .ok (fps, ws) → (∀ f ∈ fs, DevCertF V x f.2) → DevTrFs V x' hi A fs fps gs →
      DevIsoFs x x' (sig A) fs gs
  | [], [], [], _, _, _, _ => by simp only [DevIsoFs]
  | f :: fs, fp :: fps, g :: gs, ws, hser, hc, htr => by
    obtain ⟨fp0, ws1, fps', ws2, h1, h2, he, _⟩ := serFuncsE_inv hser
    simp only [List.cons.injEq] at he
    obtain ⟨rfl, rfl⟩ := he
    simp only [DevTrFs] at htr
    simp only [DevIsoFs]
    obtain ⟨id, g0⟩ := f
    exact ⟨devIso_func V x x' td ver hgate hi A id g0 fp g.2 ws1 h1 (hc (id, g0) (List.mem_cons_self ..)) htr.1,
      devIso_funcs V x x' td ver hgate hi A fs fps gs ws2 h2 (fun f' hf' => hc f' (List.mem_cons_of_mem _ hf')) htr.2⟩
  | [], [], _ :: _, _, _, _, h => by simp only [DevTrFs] at h
  | [], _ :: _, _, _, _, _, h => by simp only [DevTrFs] at h
  | _ :: _, [], _, _, _, _, h => by simp only [DevTrFs] at h
  | _ :: _, _ :: _, [], _, _, _, h => by simp only [DevTrFs] at h

/-- the round trip of `reloadableME_roundtrip` together with the traces of the device configurations of the main
    graph and of the function bodies, in the FINAL extension state / node counter / association -/
theorem reloadableME_roundtrip_tr (ver : Option Int) (w : MWorldE) (h : ReloadableME w) (w1 : MWorldE) (Q : ModelE)
    (hser : serializeME ver w = .ok (w1, Q)) :
    ∃ (D : MWorldE) (B : Assoc),
      deserializeME Q = .ok D ∧ RS w.st.vals D.st B ∧ B.map (·.1) = domM w.core ∧
      TreeRelG w.st.vals B w.root D.root ∧ TreeRelFs w.st.vals B w.funcs D.funcs ∧
      InfoOK2 w.st.vals D.st B (emitM w.core) ∧ ConstOK2 w.st.vals w.st.tdata D.st B (allInitsM w.core) ∧
      MetaOKk w.ext D.ext B (emitM w.core) ∧ QuantOKk w.ext D.ext B (emitQM w) ∧
      DevTrG w.st.vals D.ext D.st.nn B [] w.root Q.graph D.root ∧
      DevTrFs w.st.vals D.ext D.st.nn B w.funcs Q.funcs D.funcs := by
  obtain ⟨p, ws1, fps, ws2, hp, hf, rfl, _⟩ := serializeME_inv hser
  simp only [ReloadableME, ReloadableM, MWorldE.core] at h
  obtain ⟨⟨hok, hfok, hnd, hids⟩, hext, hextF, hwf⟩ := h
  rw [List.nodup_append] at hnd
  obtain ⟨s1, x1, g', B1, hd, hrs, _, hk, ht, f1, p1, hio, hco, xf1, xk1, _, hm, hq, _, _, htr⟩ :=
    rtE_graph w.st.vals w.ext w.st.tdata ver hwf w.root {} {} [] [] p ws1 hp hok hnd.1 hext
      (fun _ _ => by simp) (fun _ hT => by simp at hT)
      ⟨by simp, fun _ he => by simp at he, by simp, fun _ he => by simp at he⟩ (fun _ _ => rfl) extFresh_empty
  simp only [List.map_nil, List.nil_append] at hd hrs ht hio hco hm hq htr
  obtain ⟨s2, x2, gs, B2, e2, r2, _, k2, t2, f2, p2, io2, co2, xf2, xk2, mo2, qo2, nn2, fr2, dt2⟩ :=
    rtE_funcs w.st.vals w.ext w.st.tdata ver hwf w.funcs s1 x1 B1 [] fps ws2 hf hfok hextF hnd.2.1
      (fun v hv hm => by rw [hk] at hm; exact hnd.2.2 v hm v hv rfl)
      hids (fun _ _ hm => by simp at hm) hrs f1 xf1
  simp only [List.nil_append] at e2
  refine ⟨⟨s2, x2, g', gs⟩, B1 ++ B2, by simp only [deserializeME, hd, e2], r2,
    by simp [domM, MWorldE.core, hk, k2], TreeRelG.mono _ B1 B2 _ _ ht, t2, ?_, ?_, ?_, ?_,
    DevTrG.mono B2 nn2 fr2 [] w.root p g' htr, dt2⟩
  · have hio' := hio.step (B := B2) hrs p2
    intro v hv
    simp only [emitM, MWorldE.core, List.mem_append] at hv
    rcases hv with hv | hv
    · exact hio' v hv
    · exact io2 v hv
  · have hco' := hco.step (B := B2) hrs p2
    intro kv hkv
    simp only [allInitsM, MWorldE.core, List.mem_append] at hkv
    rcases hkv with hkv | hkv
    · exact hco' kv hkv
    · exact co2 kv hkv
  · have hm' := hm.step (B := B2) hrs xk2
    intro v hv
    simp only [emitM, MWorldE.core, List.mem_append] at hv
    rcases hv with hv | hv
    · exact hm' v hv
    · exact mo2 v hv
  · have hq' := hq.step (B := B2) hrs xk2
    intro v hv
    simp only [emitQM, List.mem_append] at hv
    rcases hv with hv | hv
    · exact hq' v hv
    · exact qo2 v hv

/-- **the round trip of a model with functions, with the device configurations**: when they are written (IR version
    gate open) and the source satisfies the certificate `DevCertM` (every sharding value is what its name resolves
    to at its node: in the scope tables of the main graph, resp. in the table of its function body), every reloaded
    node (main graph, nested graphs, function bodies) carries the source configurations with the sharding values
    renamed BY IDENTITY -/
theorem reloadableME_roundtrip_devs (ver : Option Int) (hgate : ver = none ∨ ∃ v, ver = some v ∧ ¬ v < 11) (w : MWorldE)
    (h : ReloadableME w) (hdc : DevCertM w) (w1 : MWorldE) (Q : ModelE) (hser : serializeME ver w = .ok (w1, Q)) :
    ∃ (D : MWorldE) (B : Assoc),
      deserializeME Q = .ok D ∧ RS w.st.vals D.st B ∧ B.map (·.1) = domM w.core ∧
      TreeRelG w.st.vals B w.root D.root ∧ TreeRelFs w.st.vals B w.funcs D.funcs ∧
      InfoOK2 w.st.vals D.st B (emitM w.core) ∧ ConstOK2 w.st.vals w.st.tdata D.st B (allInitsM w.core) ∧
      MetaOKk w.ext D.ext B (emitM w.core) ∧ QuantOKk w.ext D.ext B (emitQM w) ∧
      DevIsoM w.ext D.ext (sig B) w D := by
  obtain ⟨D, B, hD, hrs, hk, ht, htf, hio, hco, hm, hq, htr, htrf⟩ := reloadableME_roundtrip_tr ver w h w1 Q hser
  obtain ⟨p, ws1, fps, ws2, hp, hf, rfl, _⟩ := serializeME_inv hser
  exact ⟨D, B, hD, hrs, hk, ht, htf, hio, hco, hm, hq,
    devIso_graph w.st.vals w.ext D.ext w.st.tdata ver hgate D.st.nn B w.root [] p D.root ws1 hp hdc.1 htr,
    devIso_funcs w.st.vals w.ext D.ext w.st.tdata ver hgate D.st.nn B w.funcs fps D.funcs ws2 hf hdc.2 htrf⟩

end IrVerif.Scope

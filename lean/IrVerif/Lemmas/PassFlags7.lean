/-
C14 (deepening): passes that only delete (nodes, trailing empty inputs, initializers of nested graphs) leave a
topologically ordered model ordered.  "Ordered" = C05's `noFwdG` (no node reads a value that it or a later
node of its graph defines, nested graphs included).
-/
import IrVerif.Model.PassFlags2
import IrVerif.Lemmas.SemSyntax
namespace IrVerif.PassFlags
open IrVerif.Sem IrVerif.Passes

theorem disj_mono {a b a' b' : List VId} (h : disj a b = true) (ha : ∀ x ∈ a', x ∈ a) (hb : ∀ x ∈ b', x ∈ b) :
    disj a' b' = true := by
  rw [disj_iff] at h ⊢
  exact fun x hx hm => h x (ha x hx) (hb x hm)

/-- `ns'` is `ns` with some nodes deleted; a kept node may have lost inputs and parts of its bodies -/
inductive Shrink : List Node → List Node → Prop
  | nil : Shrink [] []
  | drop {ns' ns : List Node} (n : Node) : Shrink ns' ns → Shrink ns' (n :: ns)
  | keep {ns' ns : List Node} {op op' : OpId} {attrs attrs' : List (String × AttrData)}
      {ins ins' : List (Option VId)} {outs : List VId} {b b' : List Graph} :
      Shrink ns' ns → (∀ x ∈ ins'.filterMap id, x ∈ ins.filterMap id) →
      (∀ v ∈ defsBodies b', v ∈ defsBodies b) → (∀ v ∈ refsBodies b', v ∈ refsBodies b) →
      (noFwdBodies b = true → noFwdBodies b' = true) →
      Shrink (.mk op' attrs' ins' outs b' :: ns') (.mk op attrs ins outs b :: ns)

theorem Shrink.defs {ns' ns : List Node} (h : Shrink ns' ns) : ∀ v ∈ defsNodes ns', v ∈ defsNodes ns := by
  induction h with
  | nil => exact fun _ h => h
  | drop n _ ih => exact fun v hv => by simp only [defsNodes, List.mem_append]; exact Or.inr (ih v hv)
  | keep _ _ hd _ _ ih =>
    intro v hv
    simp only [defsNodes, defsN, List.mem_append] at hv ⊢
    rcases hv with (hv | hv) | hv
    · exact Or.inl (Or.inl hv)
    · exact Or.inl (Or.inr (hd v hv))
    · exact Or.inr (ih v hv)

theorem Shrink.refs {ns' ns : List Node} (h : Shrink ns' ns) : ∀ v ∈ refsNodes ns', v ∈ refsNodes ns := by
  induction h with
  | nil => exact fun _ h => h
  | drop n _ ih => exact fun v hv => by simp only [refsNodes, List.mem_append]; exact Or.inr (ih v hv)
  | keep _ hi _ hr _ ih =>
    intro v hv
    simp only [refsNodes, refsN, List.mem_append] at hv ⊢
    rcases hv with (hv | hv) | hv
    · exact Or.inl (Or.inl (hi v hv))
    · exact Or.inl (Or.inr (hr v hv))
    · exact Or.inr (ih v hv)

theorem Shrink.noFwd {ns' ns : List Node} (h : Shrink ns' ns) : noFwdNodes ns = true → noFwdNodes ns' = true := by
  induction h with
  | nil => exact fun h => h
  | drop n _ ih =>
    intro hf
    simp only [noFwdNodes, Bool.and_eq_true] at hf
    exact ih hf.2
  | @keep ns' ns op op' attrs attrs' ins ins' outs b b' hs hi hd hr hb ih =>
    intro hf
    simp only [noFwdNodes, noFwdN, Bool.and_eq_true, Node.ins, Node.bodies, Node.outs] at hf ⊢
    obtain ⟨⟨⟨h1, h2⟩, h3⟩, h4⟩ := hf
    refine ⟨⟨⟨disj_mono h1 hi ?_, disj_mono h2 hr ?_⟩, hb h3⟩, ih h4⟩
    · intro x hx
      simp only [defsNodes, defsN, List.mem_append] at hx ⊢
      rcases hx with (hx | hx) | hx
      · exact Or.inl (Or.inl hx)
      · exact Or.inl (Or.inr (hd x hx))
      · exact Or.inr (hs.defs x hx)
    · intro x hx
      simp only [List.mem_append] at hx ⊢
      exact hx.imp id (hs.defs x)

/-! ## RemoveUnusedNodes -/

theorem filterMap_trim {x : VId} {ins : List (Option VId)} (h : x ∈ (trimTrailingNone ins).filterMap id) :
    x ∈ ins.filterMap id := by
  simp only [List.mem_filterMap, id] at h ⊢
  obtain ⟨a, ha, e⟩ := h
  exact ⟨a, mem_of_mem_trimNone ha, e⟩

mutual
theorem dceG_shrink : ∀ g : Graph, (∀ v ∈ defsG (dceG g).1, v ∈ defsG g) ∧ (∀ v ∈ refsG (dceG g).1, v ∈ refsG g) ∧
    (noFwdG g = true → noFwdG (dceG g).1 = true)
  | .mk inputs outputs inits nodes => by
    have hs := dceNodes_shrink outputs [] nodes
    simp only [dceG, defsG, refsG, noFwdG, List.mem_append]
    exact ⟨fun v hv => hv.imp id (hs.defs v), fun v hv => hv.imp id (hs.refs v), hs.noFwd⟩
theorem dceNodes_shrink (gouts : List VId) : ∀ (pre : List VId) (ns : List Node), Shrink (dceNodes gouts pre ns).1 ns
  | _, [] => Shrink.nil
  | pre, .mk op attrs ins outs bodies :: ns => by
    have ih := dceNodes_shrink gouts (pre ++ usesN (.mk op attrs ins outs bodies)) ns
    have hb := dceBodies_shrink bodies
    simp only [dceNodes]
    split
    · exact Shrink.drop _ ih
    · exact Shrink.keep ih (fun x hx => filterMap_trim hx) hb.1 hb.2.1 hb.2.2
theorem dceBodies_shrink : ∀ bs : List Graph, (∀ v ∈ defsBodies (dceBodies bs).1, v ∈ defsBodies bs) ∧
    (∀ v ∈ refsBodies (dceBodies bs).1, v ∈ refsBodies bs) ∧
    (noFwdBodies bs = true → noFwdBodies (dceBodies bs).1 = true)
  | [] => ⟨fun _ h => h, fun _ h => h, fun h => h⟩
  | b :: bs => by
    obtain ⟨g1, g2, g3⟩ := dceG_shrink b
    obtain ⟨b1, b2, b3⟩ := dceBodies_shrink bs
    simp only [dceBodies, defsBodies, refsBodies, noFwdBodies, List.mem_append, Bool.and_eq_true]
    exact ⟨fun v hv => hv.elim (fun h => Or.inl (g1 v h)) (fun h => Or.inr (b1 v h)),
      fun v hv => hv.elim (fun h => Or.inl (g2 v h)) (fun h => Or.inr (b2 v h)),
      fun h => ⟨g3 h.1, b3 h.2⟩⟩
end

/-! ## LiftConstantsToInitializers -/

theorem liftCandidate_out {la : Bool} {lim : Nat} {gouts : List VId} {op : OpId} {attrs : List (String × AttrData)}
    {outs : List VId} {p : VId × Tensor} (h : liftCandidate la lim gouts op attrs outs = some p) : outs = [p.1] := by
  unfold liftCandidate at h
  split at h
  · next y t _ =>
    split at h
    · simp at h
    · simp only [Option.some.injEq] at h; rw [← h]
  · simp at h

mutual
theorem liftG_shrink (la : Bool) (lim : Nat) : ∀ g : Graph,
    (∀ v ∈ defsG (liftG la lim g), v ∈ defsG g) ∧ (∀ v ∈ refsG (liftG la lim g), v ∈ refsG g) ∧
    (noFwdG g = true → noFwdG (liftG la lim g) = true)
  | .mk inputs outputs inits nodes => by
    obtain ⟨hs, hl⟩ := liftNodes_shrink la lim outputs nodes
    simp only [liftG, defsG, refsG, noFwdG, List.mem_append, List.map_append]
    refine ⟨fun v hv => ?_, fun v hv => hv.imp id (hs.refs v), hs.noFwd⟩
    rcases hv with (hv | hv | hv) | hv
    · exact Or.inl (Or.inl hv)
    · exact Or.inl (Or.inr hv)
    · exact Or.inr (hl v hv)
    · exact Or.inr (hs.defs v hv)
theorem liftNodes_shrink (la : Bool) (lim : Nat) (gouts : List VId) : ∀ ns : List Node,
    Shrink (liftNodes la lim gouts ns).1 ns ∧
    ∀ v ∈ (liftNodes la lim gouts ns).2.map Prod.fst, v ∈ defsNodes ns
  | [] => ⟨Shrink.nil, fun _ h => by simp [liftNodes] at h⟩
  | .mk op attrs ins outs bodies :: ns => by
    obtain ⟨ih, il⟩ := liftNodes_shrink la lim gouts ns
    have hb := liftBodies_shrink la lim bodies
    cases hc : liftCandidate la lim gouts op attrs outs with
    | some p =>
      simp only [liftNodes, hc]
      refine ⟨Shrink.drop _ ih, fun v hv => ?_⟩
      simp only [List.map_cons, List.mem_cons] at hv
      simp only [defsNodes, defsN, List.mem_append]
      rcases hv with hv | hv
      · exact Or.inl (Or.inl (by rw [liftCandidate_out hc, hv]; exact List.mem_cons_self))
      · exact Or.inr (il v hv)
    | none =>
      simp only [liftNodes, hc]
      refine ⟨Shrink.keep ih (fun x hx => hx) hb.1 hb.2.1 hb.2.2, fun v hv => ?_⟩
      simp only [defsNodes, List.mem_append]
      exact Or.inr (il v hv)
theorem liftBodies_shrink (la : Bool) (lim : Nat) : ∀ bs : List Graph,
    (∀ v ∈ defsBodies (liftBodies la lim bs), v ∈ defsBodies bs) ∧
    (∀ v ∈ refsBodies (liftBodies la lim bs), v ∈ refsBodies bs) ∧
    (noFwdBodies bs = true → noFwdBodies (liftBodies la lim bs) = true)
  | [] => ⟨fun _ h => h, fun _ h => h, fun h => h⟩
  | b :: bs => by
    obtain ⟨g1, g2, g3⟩ := liftG_shrink la lim b
    obtain ⟨b1, b2, b3⟩ := liftBodies_shrink la lim bs
    simp only [liftBodies, defsBodies, refsBodies, noFwdBodies, List.mem_append, Bool.and_eq_true]
    exact ⟨fun v hv => hv.elim (fun h => Or.inl (g1 v h)) (fun h => Or.inr (b1 v h)),
      fun v hv => hv.elim (fun h => Or.inl (g2 v h)) (fun h => Or.inr (b2 v h)),
      fun h => ⟨g3 h.1, b3 h.2⟩⟩
end

/-! ## LiftSubgraphInitializers -/

mutual
theorem lsiG_shrink : ∀ g : Graph, (∀ v ∈ defsG (lsiG g).1, v ∈ defsG g) ∧ (∀ v ∈ refsG (lsiG g).1, v ∈ refsG g) ∧
    (noFwdG g = true → noFwdG (lsiG g).1 = true)
  | .mk inputs outputs inits nodes => by
    have hs := lsiNodes_shrink nodes
    simp only [lsiG, defsG, refsG, noFwdG, List.mem_append]
    refine ⟨fun v hv => ?_, fun v hv => hv.imp id (hs.refs v), hs.noFwd⟩
    rcases hv with (hv | hv) | hv
    · exact Or.inl (Or.inl hv)
    · refine Or.inl (Or.inr ?_)
      simp only [List.mem_map] at hv ⊢
      obtain ⟨p, hp, e⟩ := hv
      exact ⟨p, (List.mem_filter.1 hp).1, e⟩
    · exact Or.inr (hs.defs v hv)
theorem lsiNodes_shrink : ∀ ns : List Node, Shrink (lsiNodes ns).1 ns
  | [] => Shrink.nil
  | .mk op attrs ins outs bodies :: ns => by
    have hb := lsiBodies_shrink bodies
    simp only [lsiNodes]
    exact Shrink.keep (lsiNodes_shrink ns) (fun x hx => hx) hb.1 hb.2.1 hb.2.2
theorem lsiBodies_shrink : ∀ bs : List Graph, (∀ v ∈ defsBodies (lsiBodies bs).1, v ∈ defsBodies bs) ∧
    (∀ v ∈ refsBodies (lsiBodies bs).1, v ∈ refsBodies bs) ∧
    (noFwdBodies bs = true → noFwdBodies (lsiBodies bs).1 = true)
  | [] => ⟨fun _ h => h, fun _ h => h, fun h => h⟩
  | b :: bs => by
    obtain ⟨g1, g2, g3⟩ := lsiG_shrink b
    obtain ⟨b1, b2, b3⟩ := lsiBodies_shrink bs
    simp only [lsiBodies, defsBodies, refsBodies, noFwdBodies, List.mem_append, Bool.and_eq_true]
    exact ⟨fun v hv => hv.elim (fun h => Or.inl (g1 v h)) (fun h => Or.inr (b1 v h)),
      fun v hv => hv.elim (fun h => Or.inl (g2 v h)) (fun h => Or.inr (b2 v h)),
      fun h => ⟨g3 h.1, b3 h.2⟩⟩
end

theorem all_noFwd_map (f : Graph → Graph) (hf : ∀ g, noFwdG g = true → noFwdG (f g) = true) :
    ∀ fs : List Graph, fs.all noFwdG = true → (fs.map f).all noFwdG = true
  | [], _ => rfl
  | g :: fs, h => by
    simp only [List.all_cons, Bool.and_eq_true] at h
    simp only [List.map_cons, List.all_cons, Bool.and_eq_true]
    exact ⟨hf g h.1, all_noFwd_map f hf fs h.2⟩

end IrVerif.PassFlags

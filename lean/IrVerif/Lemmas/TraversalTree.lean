/-
`TWorld.treeShape` implies that the pre-order stream of a complete recursive iteration yields every
node of the nest exactly once.

Part 1 is pure combinatorics over an abstract forest (`nodes g` = the nodes of graph `g` in
iteration order, `sub v` = the subgraphs entered from node `v`): when every graph has at most one
parent position and the root has none, the pre-order listing to any depth has no duplicates.  The
argument walks *backwards* along the unique parents (`ReachN`: reachability in exactly `j` steps).
Part 2 instantiates it with the world of Model/Traversal.lean.
-/
import IrVerif.Lemmas.TraversalRun
import IrVerif.Lemmas.LinkedSetCycle
namespace IrVerif.LinkedSet

/-! ### lists -/

theorem nodup_flatMap_of {α β : Type} (f : α → List β) : ∀ (l : List α), l.Nodup → (∀ x ∈ l, (f x).Nodup) →
    (∀ x ∈ l, ∀ y ∈ l, x ≠ y → ∀ b ∈ f x, b ∉ f y) → (l.flatMap f).Nodup
  | [], _, _, _ => by simp
  | a :: l, hnd, hf, hd => by
      have hnd' := List.nodup_cons.1 hnd
      simp only [List.flatMap_cons]
      refine List.nodup_append.2 ⟨hf a (by simp), ?_, ?_⟩
      · exact nodup_flatMap_of f l hnd'.2 (fun x hx => hf x (by simp [hx]))
          (fun x hx y hy => hd x (by simp [hx]) y (by simp [hy]))
      · intro b hb c hc e
        subst e
        obtain ⟨y, hy, hby⟩ := List.mem_flatMap.1 hc
        have hne : a ≠ y := by rintro rfl; exact hnd'.1 hy
        exact hd a (by simp) y (by simp [hy]) hne b hb hby

theorem sublist_flatMap_of_mem {α β : Type} (f : α → List β) : ∀ (l : List α) (x : α), x ∈ l →
    (f x).Sublist (l.flatMap f)
  | [], _, h => by cases h
  | a :: l, x, h => by
      simp only [List.flatMap_cons]
      rcases List.mem_cons.1 h with rfl | h
      · exact List.sublist_append_left _ _
      · exact (sublist_flatMap_of_mem f l x h).trans (List.sublist_append_right _ _)

theorem flatMap_nodup_disjoint {α β : Type} (f : α → List β) : ∀ (l : List α), (l.flatMap f).Nodup →
    ∀ x ∈ l, ∀ y ∈ l, x ≠ y → ∀ b ∈ f x, b ∉ f y
  | [], _, _, hx, _, _, _, _, _ => by cases hx
  | a :: l, hnd, x, hx, y, hy, hne, b, hbx => by
      simp only [List.flatMap_cons] at hnd
      obtain ⟨_, h2, h3⟩ := List.nodup_append.1 hnd
      intro hby
      rcases List.mem_cons.1 hx with rfl | hx' <;> rcases List.mem_cons.1 hy with rfl | hy'
      · exact hne rfl
      · exact h3 b hbx b (List.mem_flatMap.2 ⟨y, hy', hby⟩) rfl
      · exact h3 b hby b (List.mem_flatMap.2 ⟨x, hx', hbx⟩) rfl
      · exact flatMap_nodup_disjoint f l h2 x hx' y hy' hne b hbx hby

/-! ### reachability in exactly `j` steps -/

inductive ReachN (E : Nat → Nat → Prop) : Nat → Nat → Nat → Prop
  | zero (g : Nat) : ReachN E 0 g g
  | snoc {j g y x : Nat} : ReachN E j g y → E y x → ReachN E (j + 1) g x

theorem ReachN.cons {E : Nat → Nat → Prop} {j g h x : Nat} (e : E g h) (r : ReachN E j h x) :
    ReachN E (j + 1) g x := by
  induction r with
  | zero => exact .snoc (.zero g) e
  | snoc _ e' ih => exact .snoc (ih e) e'

theorem ReachN.zero_eq {E : Nat → Nat → Prop} {g x : Nat} (r : ReachN E 0 g x) : x = g := by
  cases r; rfl

/-- peel the first edge -/
theorem ReachN.uncons {E : Nat → Nat → Prop} : ∀ {j g x : Nat}, ReachN E (j + 1) g x →
    ∃ h, E g h ∧ ReachN E j h x
  | 0, g, x, r => by
      cases r with
      | snoc r' e => have := r'.zero_eq; subst this; exact ⟨x, e, .zero x⟩
  | j + 1, g, x, r => by
      cases r with
      | snoc r' e =>
        obtain ⟨h, eh, rh⟩ := ReachN.uncons r'
        exact ⟨h, eh, .snoc rh e⟩

/-- with unique parents, walking back `j` steps from `x` ends in one place -/
theorem ReachN.unique {E : Nat → Nat → Prop} (hu : ∀ x y y', E y x → E y' x → y = y') :
    ∀ {j g g' x : Nat}, ReachN E j g x → ReachN E j g' x → g = g'
  | 0, _, _, _, r, r' => by rw [← r.zero_eq, ← r'.zero_eq]
  | j + 1, g, g', x, r, r' => by
      cases r with
      | snoc r1 e1 =>
        cases r' with
        | snoc r2 e2 =>
          have := hu _ _ _ e1 e2
          subst this
          exact ReachN.unique hu r1 r2

/-- with unique parents, a longer walk back from `x` passes through the start of a shorter one -/
theorem ReachN.back {E : Nat → Nat → Prop} (hu : ∀ x y y', E y x → E y' x → y = y') (c : Nat) :
    ∀ {j g g' x : Nat}, ReachN E j g x → ReachN E (j + c) g' x → ReachN E c g' g
  | 0, _, _, _, r, r' => by
      have := r.zero_eq; subst this; simpa using r'
  | j + 1, g, g', x, r, r' => by
      cases r with
      | snoc r1 e1 =>
        have e : j + 1 + c = (j + c) + 1 := by omega
        rw [e] at r'
        cases r' with
        | snoc r2 e2 =>
          have := hu _ _ _ e1 e2
          subst this
          exact ReachN.back hu c r1 r2

theorem ReachN.nested {kids : Nat → List Nat} : ∀ {j g x : Nat}, ReachN (fun a b => b ∈ kids a) (j + 1) g x →
    Nested kids g x
  | 0, g, x, r => by
      obtain ⟨h, e, r'⟩ := r.uncons
      have := r'.zero_eq; subst this; exact .one e
  | j + 1, g, x, r => by
      obtain ⟨h, e, r'⟩ := r.uncons
      exact .cons e (ReachN.nested r')

theorem Nested.reachN {kids : Nat → List Nat} {g x : Nat} (h : Nested kids g x) :
    ∃ j, ReachN (fun a b => b ∈ kids a) (j + 1) g x := by
  induction h with
  | one e => exact ⟨0, .snoc (.zero _) e⟩
  | cons e _ ih => obtain ⟨j, r⟩ := ih; exact ⟨j + 1, ReachN.cons e r⟩

/-! ### part 1: an abstract forest -/

section Forest
variable (nodes sub : Nat → List Nat) (E : Nat → Nat → Prop)

/-- unique parents: a node is in one graph, at one place; a graph hangs under one node, at one
    place; the root under none -/
structure Forest (g0 : Nat) : Prop where
  edge : ∀ g h, E g h ↔ ∃ v ∈ nodes g, h ∈ sub v
  nd : ∀ g, (nodes g).Nodup
  one : ∀ g g' v, v ∈ nodes g → v ∈ nodes g' → g = g'
  snd : ∀ g v, v ∈ nodes g → (sub v).Nodup
  par : ∀ g g' v v' h, v ∈ nodes g → v' ∈ nodes g' → h ∈ sub v → h ∈ sub v' → v = v'
  root : ∀ g v, v ∈ nodes g → g0 ∉ sub v

variable {nodes sub E}

theorem Forest.uparent {g0 : Nat} (F : Forest nodes sub E g0) : ∀ x y y', E y x → E y' x → y = y' := by
  intro x y y' e e'
  obtain ⟨v, hv, hx⟩ := (F.edge y x).1 e
  obtain ⟨v', hv', hx'⟩ := (F.edge y' x).1 e'
  have := F.par y y' v v' x hv hv' hx hx'
  subst this
  exact F.one y y' v hv hv'

theorem mem_preord (hE : ∀ g h, E g h ↔ ∃ v ∈ nodes g, h ∈ sub v) : ∀ (k g u : Nat), u ∈ preord nodes sub k g →
    ∃ j, j < k ∧ ∃ x, ReachN E j g x ∧ u ∈ nodes x
  | 0, _, _, h => by cases h
  | k + 1, g, u, h => by
      simp only [preord, List.mem_flatMap, List.mem_cons] at h
      obtain ⟨v, hv, hu | ⟨hh, hhv, hu⟩⟩ := h
      · subst hu; exact ⟨0, by omega, g, .zero g, hv⟩
      · obtain ⟨j, hj, x, r, hx⟩ := mem_preord hE k hh u hu
        exact ⟨j + 1, by omega, x, ReachN.cons ((hE g hh).2 ⟨v, hv, hhv⟩) r, hx⟩

theorem preord_mem (hE : ∀ g h, E g h ↔ ∃ v ∈ nodes g, h ∈ sub v) : ∀ (k j g x u : Nat), j < k → ReachN E j g x →
    u ∈ nodes x → u ∈ preord nodes sub k g
  | 0, _, _, _, _, h, _, _ => by omega
  | k + 1, 0, g, x, u, _, r, hu => by
      have := r.zero_eq; subst this
      simp only [preord, List.mem_flatMap, List.mem_cons]
      exact ⟨u, hu, Or.inl rfl⟩
  | k + 1, j + 1, g, x, u, hj, r, hu => by
      obtain ⟨h, e, r'⟩ := r.uncons
      obtain ⟨v, hv, hh⟩ := (hE g h).1 e
      simp only [preord, List.mem_flatMap, List.mem_cons]
      exact ⟨v, hv, Or.inr ⟨h, hh, preord_mem hE k j h x u (by omega) r' hu⟩⟩

/-- from `g` every graph is reached in one number of steps only -/
def OneDepth (E : Nat → Nat → Prop) (g : Nat) : Prop := ∀ x j j', ReachN E j g x → ReachN E j' g x → j = j'

theorem oneDepth_root {g0 : Nat} (F : Forest nodes sub E g0) : OneDepth E g0 := by
  have key : ∀ x j c, ReachN E j g0 x → ReachN E (j + (c + 1)) g0 x → False := by
    intro x j c r r'
    have := ReachN.back F.uparent (c + 1) r r'
    cases this with
    | snoc _ e =>
      obtain ⟨v, hv, hx⟩ := (F.edge _ _).1 e
      exact F.root _ v hv hx
  intro x j j' r r'
  rcases Nat.lt_trichotomy j j' with h | h | h
  · obtain ⟨c, rfl⟩ : ∃ c, j' = j + (c + 1) := ⟨j' - j - 1, by omega⟩
    exact (key x j c r r').elim
  · exact h
  · obtain ⟨c, rfl⟩ : ∃ c, j = j' + (c + 1) := ⟨j - j' - 1, by omega⟩
    exact (key x j' c r' r).elim

theorem oneDepth_child {g h : Nat} (H : OneDepth E g) (e : E g h) : OneDepth E h := by
  intro x j j' r r'
  have := H x (j + 1) (j' + 1) (ReachN.cons e r) (ReachN.cons e r')
  omega

/-- **the pre-order listing of a forest has no duplicates** -/
theorem preord_nodup {g0 : Nat} (F : Forest nodes sub E g0) : ∀ (k g : Nat), OneDepth E g →
    (preord nodes sub k g).Nodup
  | 0, _, _ => by simp [preord]
  | k + 1, g, H => by
      -- a node of `g` is not listed again below `g`
      have notBelow : ∀ u v h, u ∈ nodes g → v ∈ nodes g → h ∈ sub v → u ∉ preord nodes sub k h := by
        intro u v h hu hv hh hm
        obtain ⟨j, _, x, r, hx⟩ := mem_preord F.edge k h u hm
        have := F.one x g u hx hu
        subst this
        have e := (F.edge x h).2 ⟨v, hv, hh⟩
        have := H x 0 (j + 1) (.zero x) (ReachN.cons e r)
        omega
      -- two subgraphs entered from nodes of `g` that list a common node are the same subgraph
      have sameSub : ∀ u v v' h h', v ∈ nodes g → v' ∈ nodes g → h ∈ sub v → h' ∈ sub v' →
          u ∈ preord nodes sub k h → u ∈ preord nodes sub k h' → h = h' := by
        intro u v v' h h' hv hv' hh hh' hm hm'
        obtain ⟨j, _, x, r, hx⟩ := mem_preord F.edge k h u hm
        obtain ⟨j', _, x', r', hx'⟩ := mem_preord F.edge k h' u hm'
        have := F.one x x' u hx hx'
        subst this
        have e := (F.edge g h).2 ⟨v, hv, hh⟩
        have e' := (F.edge g h').2 ⟨v', hv', hh'⟩
        have hj := H x (j + 1) (j' + 1) (ReachN.cons e r) (ReachN.cons e' r')
        have : j = j' := by omega
        subst this
        exact ReachN.unique F.uparent r r'
      simp only [preord]
      apply nodup_flatMap_of _ _ (F.nd g)
      · intro v hv
        refine List.nodup_cons.2 ⟨?_, ?_⟩
        · intro hm
          obtain ⟨h, hh, hm⟩ := List.mem_flatMap.1 hm
          exact notBelow v v h hv hv hh hm
        · apply nodup_flatMap_of _ _ (F.snd g v hv)
          · intro h hh
            exact preord_nodup F k h (oneDepth_child H ((F.edge g h).2 ⟨v, hv, hh⟩))
          · intro h hh h' hh' hne u hu hu'
            exact hne (sameSub u v v h h' hv hv hh hh' hu hu')
      · intro v hv v' hv' hne u hu hu'
        rcases List.mem_cons.1 hu with rfl | hu <;> rcases List.mem_cons.1 hu' with e | hu'
        · exact hne e
        · obtain ⟨h', hh', hm'⟩ := List.mem_flatMap.1 hu'
          exact notBelow _ v' h' hv hv' hh' hm'
        · obtain ⟨h, hh, hm⟩ := List.mem_flatMap.1 hu
          subst e
          exact notBelow _ v h hv' hv hh hm
        · obtain ⟨h, hh, hm⟩ := List.mem_flatMap.1 hu
          obtain ⟨h', hh', hm'⟩ := List.mem_flatMap.1 hu'
          have := sameSub u v v' h h' hv hv' hh hh' hm hm'
          subst this
          exact hne (F.par g g v v' h hv hv' hh hh')

end Forest

/-! ### part 2: the world of Model/Traversal.lean -/

theorem rest_notStarted_eq {s : LSet} (h : WF s) (d : Dir) :
    rest s d .notStarted = match d with
      | .fwd => toList s
      | .rev => (toList s).reverse := by
  obtain ⟨bs, hi⟩ := h
  cases d
  · rfl
  · show toListRev s = _
    rw [hi.toListRev_eq, hi.toList_eq]

theorem toList_nodup {s : LSet} (h : WF s) : (toList s).Nodup := by
  obtain ⟨bs, hi⟩ := h
  rw [hi.toList_eq]; exact hi.vals_nodup

theorem mem_nodesD {w : TWorld} (hw : TWorldWF w) (d : Dir) (g v : Nat) :
    v ∈ w.nodesD d g ↔ v ∈ toList (w.setOf g) := by
  unfold TWorld.nodesD
  rw [rest_notStarted_eq (hw.setOf g) d]
  cases d <;> simp

theorem nodesD_nodup {w : TWorld} (hw : TWorldWF w) (d : Dir) (g : Nat) : (w.nodesD d g).Nodup := by
  unfold TWorld.nodesD
  rw [rest_notStarted_eq (hw.setOf g) d]
  cases d
  · exact toList_nodup (hw.setOf g)
  · exact (List.reverse_perm _).nodup_iff.2 (toList_nodup (hw.setOf g))

theorem tsetOf_ge_empty (w : TWorld) (g : Nat) (hg : w.sets.length ≤ g) : w.setOf g = empty := by
  simp [TWorld.setOf, List.getD, List.getElem?_eq_none hg]

theorem mem_toList_lt {w : TWorld} {g v : Nat} (h : v ∈ toList (w.setOf g)) : g < w.sets.length := by
  apply Nat.lt_of_not_le
  intro hle
  rw [tsetOf_ge_empty w g hle, toList_empty] at h
  cases h

theorem mem_members {w : TWorld} {g v : Nat} (h : v ∈ toList (w.setOf g)) : v ∈ w.members :=
  List.mem_flatMap.2 ⟨g, List.mem_range.2 (mem_toList_lt h), h⟩

theorem mem_kids_iff {w : TWorld} (hw : TWorldWF w) (d : Dir) (g h : Nat) :
    h ∈ w.kids d g ↔ ∃ v ∈ w.nodesD d g, h ∈ w.subD d v := by
  simp only [TWorld.kids, List.mem_flatMap, List.mem_filter, TWorld.subD]
  constructor
  · rintro ⟨v, ⟨hv, hr⟩, hh⟩
    exact ⟨v, (mem_nodesD hw d g v).2 hv, by simpa [hr] using hh⟩
  · rintro ⟨v, hv, hh⟩
    by_cases hr : w.recurse v = true
    · exact ⟨v, ⟨(mem_nodesD hw d g v).1 hv, hr⟩, by simpa [hr] using hh⟩
    · simp [hr] at hh

/-- the decidable tree-shape predicate gives the forest hypotheses -/
theorem forest_of_treeShape {w : TWorld} {d : Dir} (hw : TWorldWF w) (g0 : Nat)
    (ht : w.treeShape d g0 = true) :
    Forest (w.nodesD d) (w.subD d) (fun a b => b ∈ w.kids d a) g0 := by
  simp only [TWorld.treeShape, Bool.and_eq_true, decide_eq_true_eq, Bool.not_eq_true',
    List.contains_eq_mem, decide_eq_false_iff_not] at ht
  obtain ⟨⟨⟨_, hmem⟩, hrefs⟩, hroot⟩ := ht
  have inRefs : ∀ g v, v ∈ w.nodesD d g → w.recurse v = true → v ∈ w.members.filter w.recurse := by
    intro g v hv hr
    exact List.mem_filter.2 ⟨mem_members ((mem_nodesD hw d g v).1 hv), hr⟩
  refine ⟨fun g h => mem_kids_iff hw d g h, nodesD_nodup hw d, ?_, ?_, ?_, ?_⟩
  · intro g g' v hv hv'
    have h1 := (mem_nodesD hw d g v).1 hv
    have h2 := (mem_nodesD hw d g' v).1 hv'
    apply Classical.byContradiction
    intro hne
    exact flatMap_nodup_disjoint _ _ hmem g (List.mem_range.2 (mem_toList_lt h1)) g'
      (List.mem_range.2 (mem_toList_lt h2)) hne v h1 h2
  · intro g v hv
    unfold TWorld.subD
    by_cases hr : w.recurse v = true
    · simp only [hr, if_true]
      exact (sublist_flatMap_of_mem (w.visit d) _ v (inRefs g v hv hr)).nodup hrefs
    · simp [hr]
  · intro g g' v v' h hv hv' hh hh'
    unfold TWorld.subD at hh hh'
    by_cases hr : w.recurse v = true
    · by_cases hr' : w.recurse v' = true
      · simp only [hr, hr', if_true] at hh hh'
        apply Classical.byContradiction
        intro hne
        exact flatMap_nodup_disjoint _ _ hrefs v (inRefs g v hv hr) v' (inRefs g' v' hv' hr') hne h hh hh'
      · simp [hr'] at hh'
    · simp [hr] at hh
  · intro g v hv hh
    unfold TWorld.subD at hh
    by_cases hr : w.recurse v = true
    · simp only [hr, if_true] at hh
      exact hroot (List.mem_flatMap.2 ⟨v, inRefs g v hv hr, hh⟩)
    · simp [hr] at hh

/-! #### the yields of the specification stream are the pre-order listing -/

theorem yieldsOf_append (a b : List Out) : yieldsOf (a ++ b) = yieldsOf a ++ yieldsOf b := by
  simp [yieldsOf, List.filterMap_append]

theorem yieldsOf_flatMap {α : Type} (f : α → List Out) : ∀ (l : List α),
    yieldsOf (l.flatMap f) = l.flatMap (fun x => yieldsOf (f x))
  | [] => rfl
  | a :: l => by simp only [List.flatMap_cons, yieldsOf_append, yieldsOf_flatMap f l]

theorem yieldsOf_tAfter (V : Nat → List Out) (w : TWorld) (d : Dir) (v : Nat) :
    yieldsOf (tAfter V w d v) = (w.subD d v).flatMap (fun h => yieldsOf (V h)) := by
  unfold tAfter TWorld.subD
  rw [yieldsOf_append]
  have : yieldsOf (if w.recf.isSome then [Out.pred v] else []) = [] := by split <;> rfl
  rw [this]
  split
  · simp [yieldsOf_flatMap]
  · rfl

theorem yieldsOf_tLoop (V : Nat → List Out) (w : TWorld) (d : Dir) (g : Nat) (ns : List Nat) :
    yieldsOf (tLoop V w d g ns) = ns.flatMap (fun v => v :: (w.subD d v).flatMap (fun h => yieldsOf (V h))) := by
  unfold tLoop
  rw [yieldsOf_append, yieldsOf_flatMap]
  have : yieldsOf [Out.exit g] = [] := rfl
  rw [this, List.append_nil]
  congr 1
  funext v
  show yieldsOf ([Out.yield g v] ++ tAfter V w d v) = _
  rw [yieldsOf_append, yieldsOf_tAfter]; rfl

theorem yieldsOf_tVisit (w : TWorld) (d : Dir) : ∀ (k h : Nat),
    yieldsOf (tVisit w d k h) = preord (w.nodesD d) (w.subD d) k h
  | 0, _ => rfl
  | k + 1, h => by
      have ih : (fun h => yieldsOf (tVisit w d k h)) = preord (w.nodesD d) (w.subD d) k :=
        funext (yieldsOf_tVisit w d k)
      simp only [tVisit, yieldsOf_append, yieldsOf_tLoop, ih, preord]
      show [] ++ _ ++ [] = _
      simp [TWorld.nodesD]

/-- the yields of a complete run of a fresh iterator (`C11_trav_preorder`) -/
theorem yieldsOf_top (w : TWorld) (d : Dir) (k g : Nat) :
    yieldsOf (Out.enter g :: tLoop (tVisit w d k) w d g (rest (w.setOf g) d .notStarted)) =
      preord (w.nodesD d) (w.subD d) (k + 1) g := by
  have ih : (fun h => yieldsOf (tVisit w d k h)) = preord (w.nodesD d) (w.subD d) k :=
    funext (yieldsOf_tVisit w d k)
  have e : ∀ l, yieldsOf (Out.enter g :: l) = yieldsOf l := fun _ => rfl
  rw [e, yieldsOf_tLoop, ih]
  rfl

/-- under stable heights, a graph reached in `j` steps is `j` lower -/
theorem hgt_reachN {w : TWorld} {d : Dir} (hw : TWorldWF w) (ha : w.acyclic d = true) :
    ∀ {j g x : Nat}, ReachN (fun a b => b ∈ w.kids d a) j g x → w.hgt d x + j ≤ w.hgt d g
  | 0, _, _, r => by have := r.zero_eq; subst this; omega
  | j + 1, g, x, r => by
      cases r with
      | snoc r' e =>
        have ih := hgt_reachN hw ha r'
        obtain ⟨v, hv, hh⟩ := (mem_kids_iff hw d _ x).1 e
        have hr : w.recurse v = true := by
          unfold TWorld.subD at hh
          by_cases hr : w.recurse v = true
          · exact hr
          · simp [hr] at hh
        have hvis : x ∈ w.visit d v := by simpa [TWorld.subD, hr] using hh
        have := tranked_of_acyclic ha _ v x ((mem_nodesD hw d _ v).1 hv) hr hvis
        omega

end IrVerif.LinkedSet

/-
Lemmas/InlineRun.lean — the run of the InlinePass model on a model with a non-recursive call graph: the unrolling
budget (number of functions) suffices (`stuck` stays false), no call that the criterion accepts is left, and only
functions that the criterion accepts are recorded as inlined.  Call depth is measured in the function table `T0`
of the model before the pass (`lvl T0`); the table `tbl` that is cloned from may already contain rewritten bodies.
-/
import IrVerif.Lemmas.InlineSyn
namespace IrVerif.Inline
open IrVerif.Sem IrVerif.Passes

/-- not a call that the criterion accepts -/
def notAcc (tbl : List Func) (crit : OpId → Bool) (op : OpId) : Bool := !(crit op && (findFunc tbl op).isSome)

section
variable (T0 tbl : List Func) (crit : OpId → Bool)

/-- `deeper` on a node list whose calls have call depth at most `j`: the budget is not exhausted, no accepted call
    is left, the recorded functions are accepted ones, nothing is forgotten -/
def DeepL (j : Nat) (deeper : Deeper) : Prop :=
  ∀ (st : ISt) (ns : List FNode), opsAllNodes (lvl T0 j) ns = true →
    (deeper st ns).1.stuck = st.stuck ∧ opsAllNodes (notAcc tbl crit) (deeper st ns).2.1 = true ∧
    (∀ op ∈ (deeper st ns).1.inlined, op ∈ st.inlined ∨ crit op = true) ∧
    (∀ op ∈ st.inlined, op ∈ (deeper st ns).1.inlined)

theorem mem_addInlined {st : ISt} {op o : OpId} {next : Nat} {bad : Bool} :
    o ∈ (st.addInlined op next bad).inlined ↔ o ∈ st.inlined ∨ o = op := by
  simp only [ISt.addInlined]
  split
  · rename_i h
    constructor
    · exact Or.inl
    · rintro (h' | h')
      · exact h'
      · rw [h']; simpa using h
  · simp [List.mem_append]

mutual
theorem inlG_lvl (deeper : Deeper) (j : Nat) (hid0 : findFunc T0 identityOp = none)
    (hsome : ∀ op, (findFunc tbl op).isSome = (findFunc T0 op).isSome)
    (ht : ∀ op f, findFunc tbl op = some f → lvl T0 (j + 1) op = true → opsAllNodes (lvl T0 j) f.nodes = true)
    (hd : DeepL T0 tbl crit j deeper) :
    ∀ (g : FGraph) (st : ISt) (σ : Subst), opsAllG (lvl T0 (j + 1)) g = true →
    (inlG tbl crit deeper st σ g).1.stuck = st.stuck ∧ opsAllG (notAcc tbl crit) (inlG tbl crit deeper st σ g).2 = true ∧
    (∀ op ∈ (inlG tbl crit deeper st σ g).1.inlined, op ∈ st.inlined ∨ crit op = true) ∧
    (∀ op ∈ st.inlined, op ∈ (inlG tbl crit deeper st σ g).1.inlined)
  | .mk inputs outputs inits nodes, st, σ, h => by
    simp only [opsAllG] at h
    simp only [inlG, opsAllG]
    exact inlNodes_lvl deeper j hid0 hsome ht hd nodes st σ outputs h
theorem inlNodes_lvl (deeper : Deeper) (j : Nat) (hid0 : findFunc T0 identityOp = none)
    (hsome : ∀ op, (findFunc tbl op).isSome = (findFunc T0 op).isSome)
    (ht : ∀ op f, findFunc tbl op = some f → lvl T0 (j + 1) op = true → opsAllNodes (lvl T0 j) f.nodes = true)
    (hd : DeepL T0 tbl crit j deeper) :
    ∀ (ns : List FNode) (st : ISt) (σ : Subst) (outs : List VId), opsAllNodes (lvl T0 (j + 1)) ns = true →
    (inlNodes tbl crit deeper st σ outs ns).st.stuck = st.stuck ∧
    opsAllNodes (notAcc tbl crit) (inlNodes tbl crit deeper st σ outs ns).nodes = true ∧
    (∀ op ∈ (inlNodes tbl crit deeper st σ outs ns).st.inlined, op ∈ st.inlined ∨ crit op = true) ∧
    (∀ op ∈ st.inlined, op ∈ (inlNodes tbl crit deeper st σ outs ns).st.inlined)
  | [], st, _, _, _ => by
    simp only [inlNodes, opsAllNodes]
    exact ⟨trivial, trivial, fun op h => Or.inl h, fun op h => h⟩
  | .mk op attrs ins nouts bodies :: ns, st, σ, outs, h => by
    simp only [opsAllNodes, opsAllN, Bool.and_eq_true] at h
    simp only [inlNodes]
    split
    · rename_i f hsel
      have hcrit : crit op = true := by
        by_cases h' : crit op = true
        · exact h'
        · simp [h'] at hsel
      have hff : findFunc tbl op = some f := by simpa [hcrit] using hsel
      have hbody := ht op f hff h.1.1
      have hidl : lvl T0 j identityOp = true := lvl_mono_le T0 (Nat.zero_le _) identityOp (by simp [lvl, hid0])
      have hinst : opsAllNodes (lvl T0 j) (instantiate f attrs (substIns σ ins) st.next).nodes = true := by
        simp only [instantiate]
        rw [opsAllNodes_append, cloneNodes_ops, hbody, (fwdOuts_syn (lvl T0 j) hidl _ _ _ _).1]; rfl
      obtain ⟨d1, d2, d3, d4⟩ := hd (st.addInlined op (instantiate f attrs (substIns σ ins) st.next).next
        ((instantiate f attrs (substIns σ ins) st.next).bad || nouts.length != f.outputs.length)) _ hinst
      obtain ⟨k1, k2, k3, k4⟩ := inlNodes_lvl deeper j hid0 hsome ht hd ns
        (deeper (st.addInlined op (instantiate f attrs (substIns σ ins) st.next).next
          ((instantiate f attrs (substIns σ ins) st.next).bad || nouts.length != f.outputs.length)) (instantiate f attrs (substIns σ ins) st.next).nodes).1
        (nouts.zip ((instantiate f attrs (substIns σ ins) st.next).outvals.map
          (deeper (st.addInlined op (instantiate f attrs (substIns σ ins) st.next).next
          ((instantiate f attrs (substIns σ ins) st.next).bad || nouts.length != f.outputs.length)) (instantiate f attrs (substIns σ ins) st.next).nodes).2.2.app) ++ σ)
        (outs.map (fun o => ((nouts.zip ((instantiate f attrs (substIns σ ins) st.next).outvals.map
          (deeper (st.addInlined op (instantiate f attrs (substIns σ ins) st.next).next
          ((instantiate f attrs (substIns σ ins) st.next).bad || nouts.length != f.outputs.length)) (instantiate f attrs (substIns σ ins) st.next).nodes).2.2.app)).lookup o).getD o))
        h.2
      refine ⟨by rw [k1, d1]; rfl, by rw [opsAllNodes_append, d2, k2]; rfl, fun o ho => ?_, fun o ho => ?_⟩
      · rcases k3 o ho with h' | h'
        · rcases d3 o h' with h'' | h''
          · rcases mem_addInlined.1 h'' with h3 | h3
            · exact Or.inl h3
            · exact Or.inr (h3 ▸ hcrit)
          · exact Or.inr h''
        · exact Or.inr h'
      · exact k4 o (d4 o (mem_addInlined.2 (Or.inl ho)))
    · rename_i hsel
      have hna : notAcc tbl crit op = true := by
        simp only [notAcc, Bool.not_eq_true', Bool.and_eq_false_iff]
        by_cases hc : crit op = true
        · right
          simp only [hc, if_true] at hsel
          cases hf : findFunc tbl op with
          | none => rfl
          | some f => rw [hf] at hsel; cases hsel
        · left; simpa using hc
      obtain ⟨b1, b2, b3, b4⟩ := inlBodies_lvl deeper j hid0 hsome ht hd bodies st σ h.1.2
      obtain ⟨k1, k2, k3, k4⟩ := inlNodes_lvl deeper j hid0 hsome ht hd ns (inlBodies tbl crit deeper st σ bodies).1 σ outs h.2
      refine ⟨by rw [k1, b1], ?_, fun o ho => ?_, fun o ho => k4 o (b4 o ho)⟩
      · simp only [opsAllNodes, opsAllN, Bool.and_eq_true]; exact ⟨⟨hna, b2⟩, k2⟩
      · rcases k3 o ho with h' | h'
        · exact b3 o h'
        · exact Or.inr h'
theorem inlBodies_lvl (deeper : Deeper) (j : Nat) (hid0 : findFunc T0 identityOp = none)
    (hsome : ∀ op, (findFunc tbl op).isSome = (findFunc T0 op).isSome)
    (ht : ∀ op f, findFunc tbl op = some f → lvl T0 (j + 1) op = true → opsAllNodes (lvl T0 j) f.nodes = true)
    (hd : DeepL T0 tbl crit j deeper) :
    ∀ (bs : List FGraph) (st : ISt) (σ : Subst), opsAllBodies (lvl T0 (j + 1)) bs = true →
    (inlBodies tbl crit deeper st σ bs).1.stuck = st.stuck ∧
    opsAllBodies (notAcc tbl crit) (inlBodies tbl crit deeper st σ bs).2 = true ∧
    (∀ op ∈ (inlBodies tbl crit deeper st σ bs).1.inlined, op ∈ st.inlined ∨ crit op = true) ∧
    (∀ op ∈ st.inlined, op ∈ (inlBodies tbl crit deeper st σ bs).1.inlined)
  | [], st, _, _ => by
    simp only [inlBodies, opsAllBodies]
    exact ⟨trivial, trivial, fun op h => Or.inl h, fun op h => h⟩
  | b :: bs, st, σ, h => by
    simp only [opsAllBodies, Bool.and_eq_true] at h
    obtain ⟨g1, g2, g3, g4⟩ := inlG_lvl deeper j hid0 hsome ht hd b st σ h.1
    obtain ⟨k1, k2, k3, k4⟩ := inlBodies_lvl deeper j hid0 hsome ht hd bs (inlG tbl crit deeper st σ b).1 σ h.2
    simp only [inlBodies, opsAllBodies, Bool.and_eq_true]
    refine ⟨by rw [k1, g1], ⟨g2, k2⟩, fun o ho => ?_, fun o ho => k4 o (g4 o ho)⟩
    rcases k3 o ho with h' | h'
    · exact g3 o h'
    · exact Or.inr h'
end

/-- a budget of `k` levels suffices for node lists of call depth at most `j ≤ k` -/
theorem deepL_inlAt (hid0 : findFunc T0 identityOp = none)
    (hsome : ∀ op, (findFunc tbl op).isSome = (findFunc T0 op).isSome)
    (ht : ∀ j op f, findFunc tbl op = some f → lvl T0 (j + 1) op = true → opsAllNodes (lvl T0 j) f.nodes = true) :
    ∀ (k j : Nat), j ≤ k → DeepL T0 tbl crit j (inlAt tbl crit k)
  | 0, j, hj => by
    have hj0 : j = 0 := Nat.le_zero.1 hj
    subst hj0
    intro st ns h
    have hna : opsAllNodes (fun op => !(crit op && (findFunc tbl op).isSome)) ns = true := by
      refine opsAllNodes_mono (fun op hop => ?_) ns h
      simp only [lvl, Option.isNone_iff_eq_none] at hop
      have := hsome op
      rw [hop] at this
      simp only [Option.isSome_none] at this
      simp [this]
    simp only [inlAt, hna, Bool.not_true, Bool.or_false]
    exact ⟨trivial, hna, fun op h => Or.inl h, fun op h => h⟩
  | k + 1, j, hj => by
    intro st ns h
    simp only [inlAt]
    cases j with
    | zero =>
      exact inlNodes_lvl T0 tbl crit (inlAt tbl crit k) 0 hid0 hsome (ht 0) (deepL_inlAt hid0 hsome ht k 0 (Nat.zero_le _))
        ns st [] [] (opsAllNodes_mono (lvl_mono T0 0) ns h)
    | succ j' =>
      exact inlNodes_lvl T0 tbl crit (inlAt tbl crit k) j' hid0 hsome (ht j')
        (deepL_inlAt hid0 hsome ht k j' (Nat.le_of_succ_le_succ hj)) ns st [] [] h

end

end IrVerif.Inline

/-
C14 (deepening): IdentityEliminationPass applied to its own result changes nothing (on well-formed models).
-/
import IrVerif.Model.PassFlags2
import IrVerif.Lemmas.PassFlags2
import IrVerif.Lemmas.SemSyntax
namespace IrVerif.PassFlags
open IrVerif.Sem IrVerif.Passes

/-- the keep rules 3 / 3b / 3c of the pass for one node, against fixed outputs and local values -/
def ieKept (ii loc outs : List VId) (op : OpId) (ins : List (Option VId)) (nouts : List VId) : Bool :=
  match ieCandidate op ins nouts with
  | some (x, y) => outs.contains y && (ii.contains x || !loc.contains x || outs.contains x)
  | none => true

mutual
/-- every Identity candidate of the nest is blocked by a keep rule -/
def ieStableG (ii : List VId) : Graph → Bool
  | .mk inputs outputs inits nodes =>
    ieStableNodes ii (inputs ++ inits.map Prod.fst ++ outsTop nodes) outputs nodes
def ieStableNodes (ii loc outs : List VId) : List Node → Bool
  | [] => true
  | .mk op _ ins nouts bodies :: ns =>
    ieKept ii loc outs op ins nouts && ieStableBodies ii bodies && ieStableNodes ii loc outs ns
def ieStableBodies (ii : List VId) : List Graph → Bool
  | [] => true
  | b :: bs => ieStableG ii b && ieStableBodies ii bs
end

mutual
theorem ieStableG_cnt0 (ii : List VId) : ∀ g : Graph, ieStableG ii g = true → ieCntG ii [] g = 0
  | .mk inputs outputs inits nodes, h => by
    simp only [ieStableG] at h
    simp only [ieCntG, ieStableNodes_cnt0 ii _ outputs nodes h]
theorem ieStableNodes_cnt0 (ii loc outs : List VId) : ∀ ns : List Node, ieStableNodes ii loc outs ns = true →
    ieCntNodes ii loc [] outs ns = 0
  | [], _ => rfl
  | .mk op attrs ins nouts bodies :: ns, h => by
    simp only [ieStableNodes, Bool.and_eq_true] at h
    obtain ⟨⟨hk, hb⟩, hn⟩ := h
    have ihb := ieStableBodies_cnt0 ii bodies hb
    have ihn := ieStableNodes_cnt0 ii loc outs ns hn
    simp only [ieCntNodes, substIns_nil']
    simp only [ieKept] at hk
    cases hc : ieCandidate op ins nouts with
    | none => simp only [ihb, ihn]
    | some p =>
      obtain ⟨x, y⟩ := p
      simp only [hc] at hk
      simp only [hk, if_true, ihb, ihn]
theorem ieStableBodies_cnt0 (ii : List VId) : ∀ bs : List Graph, ieStableBodies ii bs = true →
    ieCntBodies ii [] bs = 0
  | [], _ => rfl
  | b :: bs, h => by
    simp only [ieStableBodies, Bool.and_eq_true] at h
    simp only [ieCntBodies, ieStableG_cnt0 ii b h.1, ieStableBodies_cnt0 ii bs h.2]
end

theorem ieCandidate_some {op : OpId} {ins : List (Option VId)} {nouts : List VId} {x y : VId}
    (h : ieCandidate op ins nouts = some (x, y)) : isIdentityOp op = true ∧ ins = [some x] ∧ nouts = [y] := by
  unfold ieCandidate at h
  split at h
  · next hop =>
    split at h
    · next x' y' =>
      simp only [Option.some.injEq, Prod.mk.injEq] at h
      exact ⟨hop, by rw [h.1], by rw [h.2]⟩
    · simp at h
  · simp at h

theorem mem_of_lookup {σ : Subst} {k a : VId} (h : σ.lookup k = some a) : (k, a) ∈ σ := by
  induction σ with
  | nil => simp at h
  | cons p σ ih =>
    obtain ⟨k', a'⟩ := p
    simp only [List.lookup_cons] at h
    split at h
    · next heq =>
      simp only [Option.some.injEq] at h
      have : k = k' := by simpa using heq
      rw [this, h]; exact List.mem_cons_self
    · exact List.mem_cons_of_mem _ (ih h)

/-- the value an input is mapped to is not defined by `D` when neither the input nor the range of the
    substitution is -/
theorem app_not_mem {σ : Subst} {D : List VId} (hJ : ∀ p ∈ σ, p.2 ∉ D) {v : VId} (hv : v ∉ D) : σ.app v ∉ D := by
  unfold Subst.app
  cases h : σ.lookup v with
  | none => simpa using hv
  | some a => simpa using hJ _ (mem_of_lookup h)

theorem outsTop_sub_defs {v : VId} : ∀ ns : List Node, v ∈ outsTop ns → v ∈ defsNodes ns
  | [], h => by simp [outsTop] at h
  | .mk op attrs ins outs bodies :: ns, h => by
    simp only [outsTop, Node.outs, List.mem_append] at h
    simp only [defsNodes, defsN, List.mem_append]
    rcases h with h | h
    · exact Or.inl (Or.inl h)
    · exact Or.inr (outsTop_sub_defs ns h)

/-- an output that no remaining node produces stays an output -/
theorem ieNodes_outs_keep (ii loc : List VId) : ∀ (ns : List Node) (σ : Subst) (outs : List VId) (v : VId),
    v ∈ outs → v ∉ outsTop ns → v ∈ (ieNodes ii loc σ outs ns).outs
  | [], _, _, _, h, _ => h
  | .mk op attrs ins nouts bodies :: ns, σ, outs, v, h, hn => by
    have hn' : v ∉ outsTop ns := fun hm => hn (by simp [outsTop, hm])
    cases hc : ieCandidate op (substIns σ ins) nouts with
    | none => simp only [ieNodes, hc]; exact ieNodes_outs_keep ii loc ns σ outs v h hn'
    | some p =>
      obtain ⟨x, y⟩ := p
      by_cases hk : (outs.contains y && (ii.contains x || !loc.contains x || outs.contains x)) = true
      · simp only [ieNodes, hc, hk, if_true]; exact ieNodes_outs_keep ii loc ns σ outs v h hn'
      · simp only [ieNodes, hc, hk, Bool.false_eq_true, if_false]
        apply ieNodes_outs_keep ii loc ns _ _ v _ hn'
        have hy : v ≠ y := by
          intro e
          apply hn
          rw [e, (ieCandidate_some hc).2.2]
          simp [outsTop, Node.outs]
        exact List.mem_map.2 ⟨v, h, by simp [hy]⟩

theorem ieNodes_outsTop (ii loc : List VId) : ∀ (ns : List Node) (σ : Subst) (outs : List VId) (v : VId),
    v ∈ outsTop (ieNodes ii loc σ outs ns).nodes → v ∈ outsTop ns
  | [], _, _, _, h => by simpa [ieNodes] using h
  | .mk op attrs ins nouts bodies :: ns, σ, outs, v, h => by
    cases hc : ieCandidate op (substIns σ ins) nouts with
    | none =>
      simp only [ieNodes, hc, outsTop, Node.outs, List.mem_append] at h ⊢
      exact h.imp id (ieNodes_outsTop ii loc ns σ outs v)
    | some p =>
      obtain ⟨x, y⟩ := p
      by_cases hk : (outs.contains y && (ii.contains x || !loc.contains x || outs.contains x)) = true
      · simp only [ieNodes, hc, hk, if_true, outsTop, Node.outs, List.mem_append] at h ⊢
        exact h.imp id (ieNodes_outsTop ii loc ns σ outs v)
      · simp only [ieNodes, hc, hk, Bool.false_eq_true, if_false] at h
        simp only [outsTop, List.mem_append]
        exact Or.inr (ieNodes_outsTop ii loc ns _ _ v h)

mutual
theorem ieG_stable (ii : List VId) : ∀ (g : Graph) (σ : Subst), ssaG g = true → noFwdG g = true →
    (∀ p ∈ σ, p.2 ∉ defsG g) → ieStableG ii (ieG ii σ g) = true
  | .mk inputs outputs inits nodes, σ, hs, hf, hJ => by
    simp only [ssaG, Bool.and_eq_true] at hs
    simp only [noFwdG] at hf
    simp only [ieG, ieStableG]
    apply ieNodes_stable ii _ _ nodes σ outputs hs.2 hf
      (fun p hp hm => hJ p hp (by simp [defsG, hm]))
    intro v hv
    simp only [List.mem_append] at hv ⊢
    exact hv.imp id (ieNodes_outsTop ii _ nodes σ outputs v)
theorem ieNodes_stable (ii loc loc' : List VId) : ∀ (ns : List Node) (σ : Subst) (outs : List VId),
    ssaNodes ns = true → noFwdNodes ns = true → (∀ p ∈ σ, p.2 ∉ defsNodes ns) → (∀ v ∈ loc', v ∈ loc) →
    ieStableNodes ii loc' (ieNodes ii loc σ outs ns).outs (ieNodes ii loc σ outs ns).nodes = true
  | [], _, _, _, _, _, _ => rfl
  | .mk op attrs ins nouts bodies :: ns, σ, outs, hs, hf, hJ, hl => by
    simp only [ssaNodes, ssaN, Bool.and_eq_true, disj_iff] at hs
    simp only [noFwdNodes, noFwdN, Bool.and_eq_true, disj_iff, Node.ins, Node.bodies, Node.outs] at hf
    obtain ⟨⟨⟨hf1, hf2⟩, hfb⟩, hfn⟩ := hf
    have hJ' : ∀ p ∈ σ, p.2 ∉ defsNodes ns := fun p hp hm => hJ p hp (by simp [defsNodes, hm])
    have hJb : ∀ p ∈ σ, p.2 ∉ defsBodies bodies := fun p hp hm => hJ p hp (by simp [defsNodes, defsN, hm])
    have hbod := ieBodies_stable ii bodies σ hs.1.1.2 hfb hJb
    -- what is known about a candidate's values
    have hcand : ∀ x y, ieCandidate op (substIns σ ins) nouts = some (x, y) →
        x ∉ defsNodes (.mk op attrs ins nouts bodies :: ns) ∧ y ∉ outsTop ns := by
      intro x y hc
      obtain ⟨_, hi, ho⟩ := ieCandidate_some hc
      constructor
      · -- x = σ.app x0 for an input x0 of the node
        cases ins with
        | nil => simp [substIns] at hi
        | cons a rest =>
          cases a with
          | none => simp [substIns] at hi
          | some x0 =>
            simp only [substIns, List.map_cons, Option.map_some, List.cons.injEq, Option.some.injEq] at hi
            rw [← hi.1]
            exact app_not_mem hJ (hf1 x0 (by simp))
      · intro hm
        exact hs.1.2 y (by rw [ho]; simp [defsN]) (outsTop_sub_defs ns hm)
    have keep : ieStableNodes ii loc' (ieNodes ii loc σ outs ns).outs
        (.mk op attrs (substIns σ ins) nouts (ieBodies ii σ bodies) :: (ieNodes ii loc σ outs ns).nodes) = true ↔
        ieKept ii loc' (ieNodes ii loc σ outs ns).outs op (substIns σ ins) nouts = true := by
      simp only [ieStableNodes, Bool.and_eq_true, hbod, ieNodes_stable ii loc loc' ns σ outs hs.2 hfn hJ' hl, and_true]
    cases hc : ieCandidate op (substIns σ ins) nouts with
    | none =>
      simp only [ieNodes, hc]
      rw [keep]; simp only [ieKept, hc]
    | some p =>
      obtain ⟨x, y⟩ := p
      obtain ⟨hx, hy⟩ := hcand x y hc
      have hx' : x ∉ outsTop ns := fun hm => hx (by simp [defsNodes, outsTop_sub_defs ns hm])
      by_cases hk : (outs.contains y && (ii.contains x || !loc.contains x || outs.contains x)) = true
      · simp only [ieNodes, hc, hk, if_true]
        rw [keep]
        simp only [ieKept, hc]
        simp only [Bool.and_eq_true, Bool.or_eq_true, List.contains_iff_mem, Bool.not_eq_eq_eq_not, Bool.not_true]
          at hk ⊢
        refine ⟨ieNodes_outs_keep ii loc ns σ outs y hk.1 hy, ?_⟩
        rcases hk.2 with (h | h) | h
        · exact Or.inl (Or.inl h)
        · refine Or.inl (Or.inr ?_)
          cases hq : loc'.contains x with
          | false => rfl
          | true =>
            have hm := hl x (by simpa using hq)
            simp [hm] at h
        · exact Or.inr (ieNodes_outs_keep ii loc ns σ outs x h hx')
      · simp only [ieNodes, hc, hk, Bool.false_eq_true, if_false]
        apply ieNodes_stable ii loc loc' ns _ _ hs.2 hfn _ hl
        intro p hp
        rcases List.mem_cons.1 hp with hp | hp
        · rw [hp]; exact fun hm => hx (by simp [defsNodes, hm])
        · exact hJ' p hp
theorem ieBodies_stable (ii : List VId) : ∀ (bs : List Graph) (σ : Subst), ssaBodies bs = true →
    noFwdBodies bs = true → (∀ p ∈ σ, p.2 ∉ defsBodies bs) → ieStableBodies ii (ieBodies ii σ bs) = true
  | [], _, _, _, _ => rfl
  | b :: bs, σ, hs, hf, hJ => by
    simp only [ssaBodies, Bool.and_eq_true] at hs
    simp only [noFwdBodies, Bool.and_eq_true] at hf
    simp only [ieBodies, ieStableBodies, Bool.and_eq_true]
    exact ⟨ieG_stable ii b σ hs.1.1 hf.1 (fun p hp hm => hJ p hp (by simp [defsBodies, hm])),
      ieBodies_stable ii bs σ hs.2 hf.2 (fun p hp hm => hJ p hp (by simp [defsBodies, hm]))⟩
end

/-! ## inputs and initializers of the nest are untouched (Identity nodes hold no graphs) -/

mutual
theorem ieG_ii (ii : List VId) : ∀ (g : Graph) (σ : Subst), idNoBodiesG g = true → iiG (ieG ii σ g) = iiG g
  | .mk inputs outputs inits nodes, σ, h => by
    simp only [idNoBodiesG] at h
    simp only [ieG, iiG, ieNodes_ii ii _ nodes σ outputs h]
theorem ieNodes_ii (ii loc : List VId) : ∀ (ns : List Node) (σ : Subst) (outs : List VId),
    idNoBodiesNodes ns = true → iiNodes (ieNodes ii loc σ outs ns).nodes = iiNodes ns
  | [], _, _, _ => rfl
  | .mk op attrs ins nouts bodies :: ns, σ, outs, h => by
    simp only [idNoBodiesNodes, Bool.and_eq_true] at h
    obtain ⟨⟨h1, h2⟩, h3⟩ := h
    cases hc : ieCandidate op (substIns σ ins) nouts with
    | none =>
      simp only [ieNodes, hc, iiNodes, ieBodies_ii ii bodies σ h2, ieNodes_ii ii loc ns σ outs h3]
    | some p =>
      obtain ⟨x, y⟩ := p
      by_cases hk : (outs.contains y && (ii.contains x || !loc.contains x || outs.contains x)) = true
      · simp only [ieNodes, hc, hk, if_true, iiNodes, ieBodies_ii ii bodies σ h2, ieNodes_ii ii loc ns σ outs h3]
      · have hb : bodies = [] := by
          have := (ieCandidate_some hc).1
          simp only [this, Bool.not_true, Bool.false_or, List.isEmpty_iff] at h1
          exact h1
        subst hb
        simp only [ieNodes, hc, hk, Bool.false_eq_true, if_false, iiNodes, iiBodies, List.nil_append]
        exact ieNodes_ii ii loc ns _ _ h3
theorem ieBodies_ii (ii : List VId) : ∀ (bs : List Graph) (σ : Subst), idNoBodiesBodies bs = true →
    iiBodies (ieBodies ii σ bs) = iiBodies bs
  | [], _, _ => rfl
  | b :: bs, σ, h => by
    simp only [idNoBodiesBodies, Bool.and_eq_true] at h
    simp only [ieBodies, iiBodies, ieG_ii ii b σ h.1, ieBodies_ii ii bs σ h.2]
end

theorem flatMap_ii (ii : List VId) : ∀ fs : List Graph, idNoBodiesBodies fs = true →
    (fs.map (ieG ii [])).flatMap iiG = fs.flatMap iiG
  | [], _ => rfl
  | f :: fs, h => by
    simp only [idNoBodiesBodies, Bool.and_eq_true] at h
    simp only [List.map_cons, List.flatMap_cons, ieG_ii ii f [] h.1, flatMap_ii ii fs h.2]

theorem funcs_stable (ii : List VId) : ∀ fs : List Graph, fs.all validG = true →
    ((fs.map (ieG ii [])).map (ieCntG ii [])).sum = 0
  | [], _ => rfl
  | f :: fs, h => by
    simp only [List.all_cons, Bool.and_eq_true] at h
    have hv := h.1
    simp only [validG, Bool.and_eq_true] at hv
    have := ieStableG_cnt0 ii _ (ieG_stable ii f [] hv.1.1.1 hv.1.2 (by simp))
    simp only [List.map_cons, List.sum_cons, this, funcs_stable ii fs h.2]

end IrVerif.PassFlags

/-
Lemmas/SemSyntax.lean — list-level facts about defs / uses / refs and the validity predicates.
-/
import IrVerif.Model.Sem
import IrVerif.Lemmas.Sem
import Mathlib.Tactic.Tauto
namespace IrVerif.Sem

theorem disj_iff {a b : List VId} : disj a b = true ↔ ∀ x ∈ a, x ∉ b := by
  simp [disj]

theorem nodupB_iff : ∀ {l : List VId}, nodupB l = true ↔ l.Nodup
  | [] => by simp [nodupB]
  | x :: xs => by simp [nodupB, nodupB_iff (l := xs)]

theorem eq_of_nodup_map_fst' : ∀ {l : List (VId × Tensor)}, (l.map Prod.fst).Nodup →
    ∀ {a b : VId × Tensor}, a ∈ l → b ∈ l → a.1 = b.1 → a = b
  | [], _, _, _, ha, _, _ => by simp at ha
  | c :: l, hnd, a, b, ha, hb, h => by
    simp only [List.map_cons, List.nodup_cons, List.mem_map, not_exists, not_and] at hnd
    rcases List.mem_cons.1 ha with ha' | ha' <;> rcases List.mem_cons.1 hb with hb' | hb'
    · rw [ha', hb']
    · rw [ha'] at h; exact absurd h.symm (hnd.1 b hb')
    · rw [hb'] at h; exact absurd h (hnd.1 a ha')
    · exact eq_of_nodup_map_fst' hnd.2 ha' hb' h

/-! deep outputs of nested bodies: `refs = uses ∪ bouts` -/
mutual
def boutsG : Graph → List VId
  | .mk _ outputs _ nodes => outputs ++ boutsNodes nodes
def boutsNodes : List Node → List VId
  | [] => []
  | n :: ns => boutsN n ++ boutsNodes ns
def boutsN : Node → List VId
  | .mk _ _ _ _ bodies => boutsBodies bodies
def boutsBodies : List Graph → List VId
  | [] => []
  | b :: bs => boutsG b ++ boutsBodies bs
end

mutual
theorem mem_refsG (v : VId) : ∀ g : Graph, v ∈ refsG g ↔ (v ∈ usesG g ∨ v ∈ boutsG g)
  | .mk _ outputs _ nodes => by
    have h := mem_refsNodes v nodes
    simp only [refsG, usesG, boutsG, List.mem_append, h]; tauto
theorem mem_refsNodes (v : VId) : ∀ ns : List Node, v ∈ refsNodes ns ↔ (v ∈ usesNodes ns ∨ v ∈ boutsNodes ns)
  | [] => by simp [refsNodes, usesNodes, boutsNodes]
  | n :: ns => by
    have h1 := mem_refsN v n
    have h2 := mem_refsNodes v ns
    simp only [refsNodes, usesNodes, boutsNodes, List.mem_append, h1, h2]; tauto
theorem mem_refsN (v : VId) : ∀ n : Node, v ∈ refsN n ↔ (v ∈ usesN n ∨ v ∈ boutsN n)
  | .mk _ _ ins _ bodies => by
    have h := mem_refsBodies v bodies
    simp only [refsN, usesN, boutsN, List.mem_append, h]; tauto
theorem mem_refsBodies (v : VId) : ∀ bs : List Graph, v ∈ refsBodies bs ↔ (v ∈ usesBodies bs ∨ v ∈ boutsBodies bs)
  | [] => by simp [refsBodies, usesBodies, boutsBodies]
  | b :: bs => by
    have h1 := mem_refsG v b
    have h2 := mem_refsBodies v bs
    simp only [refsBodies, usesBodies, boutsBodies, List.mem_append, h1, h2]; tauto
end

theorem outsTop_sub_defsNodes {v : VId} : ∀ ns : List Node, v ∈ outsTop ns → v ∈ defsNodes ns
  | [], h => by simp [outsTop] at h
  | .mk _ _ _ outs bodies :: ns, h => by
    simp only [outsTop, Node.outs, List.mem_append] at h
    simp only [defsNodes, defsN, List.mem_append]
    rcases h with h | h
    · exact Or.inl (Or.inl h)
    · exact Or.inr (outsTop_sub_defsNodes ns h)

theorem mem_topDefs_defsG {v : VId} (g : Graph) (h : v ∈ topDefs g) : v ∈ defsG g := by
  cases g with
  | mk inputs outputs inits nodes =>
    simp only [topDefs, Graph.inputs, Graph.inits, Graph.nodes, List.mem_append] at h
    simp only [defsG, List.mem_append]
    rcases h with (h | h) | h
    · exact Or.inl (Or.inl h)
    · exact Or.inl (Or.inr h)
    · exact Or.inr (outsTop_sub_defsNodes nodes h)

mutual
theorem bouts_sub_defsG {v : VId} : ∀ g : Graph, closedG g = true → v ∈ boutsG g → v ∈ defsG g
  | .mk inputs outputs inits nodes, hc, h => by
    simp only [closedG, Bool.and_eq_true, List.all_eq_true] at hc
    simp only [boutsG, List.mem_append] at h
    rcases h with h | h
    · have := hc.1 v h
      exact mem_topDefs_defsG (.mk inputs outputs inits nodes) (by simpa [topDefs, Graph.inputs, Graph.inits, Graph.nodes] using this)
    · simp only [defsG, List.mem_append]
      exact Or.inr (bouts_sub_defsNodes nodes hc.2 h)
theorem bouts_sub_defsNodes {v : VId} : ∀ ns : List Node, closedNodes ns = true → v ∈ boutsNodes ns → v ∈ defsNodes ns
  | [], _, h => by simp [boutsNodes] at h
  | n :: ns, hc, h => by
    simp only [closedNodes, Bool.and_eq_true] at hc
    simp only [boutsNodes, List.mem_append] at h
    simp only [defsNodes, List.mem_append]
    rcases h with h | h
    · exact Or.inl (bouts_sub_defsN n hc.1 h)
    · exact Or.inr (bouts_sub_defsNodes ns hc.2 h)
theorem bouts_sub_defsN {v : VId} : ∀ n : Node, closedN n = true → v ∈ boutsN n → v ∈ defsN n
  | .mk _ _ _ outs bodies, hc, h => by
    simp only [closedN] at hc
    simp only [boutsN] at h
    simp only [defsN, List.mem_append]
    exact Or.inr (bouts_sub_defsBodies bodies hc h)
theorem bouts_sub_defsBodies {v : VId} : ∀ bs : List Graph, closedBodies bs = true → v ∈ boutsBodies bs → v ∈ defsBodies bs
  | [], _, h => by simp [boutsBodies] at h
  | b :: bs, hc, h => by
    simp only [closedBodies, Bool.and_eq_true] at hc
    simp only [boutsBodies, List.mem_append] at h
    simp only [defsBodies, List.mem_append]
    rcases h with h | h
    · exact Or.inl (bouts_sub_defsG b hc.1 h)
    · exact Or.inr (bouts_sub_defsBodies bs hc.2 h)
end

/-- in an SSA, closed node list no top-level node output is listed as an output of a nested body -/
theorem outsTop_not_bouts {v : VId} : ∀ ns : List Node, ssaNodes ns = true → closedNodes ns = true →
    v ∈ outsTop ns → v ∉ boutsNodes ns
  | [], _, _, h => by simp [outsTop] at h
  | .mk op attrs ins outs bodies :: ns, hs, hc, h => by
    simp only [ssaNodes, ssaN, Bool.and_eq_true, disj_iff] at hs
    simp only [closedNodes, closedN, Bool.and_eq_true] at hc
    simp only [outsTop, Node.outs, List.mem_append] at h
    simp only [boutsNodes, boutsN, List.mem_append, not_or]
    obtain ⟨⟨⟨⟨_, hob⟩, _⟩, hdn⟩, hsn⟩ := hs
    rcases h with h | h
    · refine ⟨fun hb => hob v h (bouts_sub_defsBodies bodies hc.1 hb), fun hb => ?_⟩
      exact hdn v (by simp [defsN, h]) (bouts_sub_defsNodes ns hc.2 hb)
    · refine ⟨fun hb => ?_, outsTop_not_bouts ns hsn hc.2 h⟩
      exact hdn v (by simp [defsN, bouts_sub_defsBodies bodies hc.1 hb]) (outsTop_sub_defsNodes ns h)

end IrVerif.Sem

import IrVerif.Lemmas.SerdeAssemble
/-! C02 stage B: the mutual induction over attributes, nodes and graphs (arbitrary nesting). -/
namespace IrVerif.Serde
open IrVerif.Proto

theorem desAttrsLast_eq {scopes : Scopes} {as : List AttrP} (h : (as.map AttrP.name).Nodup) :
    desAttrsLast scopes as = desAttrs scopes as := by
  induction as with
  | nil => rfl
  | cons a as ih =>
    simp only [List.map_cons, List.nodup_cons] at h
    have : as.any (fun b => b.name = a.name) = false := by
      rw [Bool.eq_false_iff]
      intro hc
      obtain ⟨b, hb, hbn⟩ := List.any_eq_true.1 hc
      simp only [decide_eq_true_eq] at hbn
      exact h.1 (by rw [← hbn]; exact List.mem_map_of_mem hb)
    simp only [desAttrsLast, this, Bool.false_eq_true, if_false, desAttrs, ih h.2]

theorem filterMap_congr' {α β : Type} {f g : α → Option β} {l : List α}
    (h : ∀ a ∈ l, f a = g a) : l.filterMap f = l.filterMap g := by
  induction l with
  | nil => rfl
  | cons x xs ih =>
    simp only [List.filterMap_cons, h x (by simp)]
    rw [ih (fun a ha => h a (List.mem_cons_of_mem _ ha))]

theorem dedupStr_of_nodup {l : List String} (h : l.Nodup) : dedupStr l = l := by
  induction l with
  | nil => rfl
  | cons x xs ih =>
    rw [List.nodup_cons] at h
    simp only [dedupStr, ih h.2]
    congr 1
    rw [List.filter_eq_self]
    intro y hy
    simp only [ne_eq, decide_not, Bool.not_eq_eq_eq_not, Bool.not_true, decide_eq_false_iff_not]
    intro e; subst e; exact h.1 hy

theorem orderByFirst_self {xs : List IRAttr} (h : (xs.map IRAttr.name).Nodup) :
    orderByFirst (xs.map IRAttr.name) xs = xs := by
  unfold orderByFirst
  rw [dedupStr_of_nodup h]
  induction xs with
  | nil => rfl
  | cons x xs ih =>
    simp only [List.map_cons, List.nodup_cons] at h
    simp only [List.map_cons, List.filterMap_cons, List.find?_cons, decide_true]
    congr 1
    conv => rhs; rw [← ih h.2]
    apply filterMap_congr'
    intro n hn
    have : ¬ x.name = n := by intro e; rw [e] at h; exact h.1 hn
    simp [this]

theorem inputs_back (scopes : Scopes) (ins : List String)
    (h : ins.all (fun n => n.isEmpty || (resolve scopes n).isSome) = true) :
    (ins.map (fun n => if n = "" then none else resolve scopes n)).map
      (fun o : Option Ref => match o with | none => "" | some r => refName scopes r) = ins := by
  induction ins with
  | nil => rfl
  | cons n ns ih =>
    simp only [List.all_cons, Bool.and_eq_true] at h
    simp only [List.map_cons, ih h.2, List.cons.injEq, and_true]
    by_cases hn : n = ""
    · simp [hn]
    · simp only [hn, if_false]
      cases hr : resolve scopes n with
      | none =>
        have := h.1
        simp [hr, String.isEmpty_iff, hn] at this
      | some r => simp [resolve_refName hr]

theorem outputs_back (names : List String) (outer : Scopes) (outs : List String)
    (h : outs.all (fun n => n.isEmpty || names.contains n) = true) :
    (outs.map (fun n => if n = "" then none else lookupLast names n)).map
      (fun o : Option Nat => match o with | none => "" | some j => refName (names :: outer) ⟨0, j⟩) = outs := by
  induction outs with
  | nil => rfl
  | cons n ns ih =>
    simp only [List.all_cons, Bool.and_eq_true] at h
    simp only [List.map_cons, ih h.2, List.cons.injEq, and_true]
    by_cases hn : n = ""
    · simp [hn]
    · simp only [hn, if_false]
      have hm : n ∈ names := by
        rcases Bool.or_eq_true_iff.1 h.1 with h1 | h1
        · simp [String.isEmpty_iff] at h1; exact absurd h1 hn
        · simpa using h1
      obtain ⟨i, hi⟩ := lookupLast_exists hm
      simp [hi, refName, List.getD, lookupLast_getElem hi]

mutual
theorem attr_rt (scopes : Scopes) (ver : Option Int) : ∀ a : AttrP, wfAttr scopes a = true →
    (verAllows ver = true ∨ attrHasDevCfg a = false) →
    ∃ x, desAttr scopes a = .ok x ∧ serAttr scopes ver x = .ok (normAttr a) ∧ x.name = a.name
  | .ref n d r t, h, _ => by
    simp only [wfAttr, Bool.and_eq_true, decide_eq_true_eq] at h
    exact ⟨.ref n d r t, by simp [desAttr, h.2], rfl, rfl⟩
  | .int n d i, _, _ => ⟨.int n d i, rfl, rfl, rfl⟩
  | .float n d b, _, _ => ⟨.float n d b, rfl, rfl, rfl⟩
  | .string n d s, _, _ => ⟨.string n d s, rfl, rfl, rfl⟩
  | .ints n d xs, _, _ => ⟨.ints n d xs, rfl, rfl, rfl⟩
  | .floats n d xs, _, _ => ⟨.floats n d xs, rfl, rfl, rfl⟩
  | .strings n d xs, h, _ => by
    simp only [wfAttr] at h
    obtain ⟨ys, h1, h2⟩ := desBStrs_utf8 xs h
    exact ⟨.strings n d ys, by simp [desAttr, h1, bind, Except.bind], by simp [serAttr, h2, normAttr], rfl⟩
  | .tensor n d t, h, _ => by
    simp only [wfAttr] at h
    obtain ⟨x, g1, g2, _⟩ := tensor_roundtrip t h
    exact ⟨.tensor n d x, by simp [desAttr, g1, bind, Except.bind], by simp [serAttr, g2, normAttr], rfl⟩
  | .tensors n d ts, h, _ => by
    simp only [wfAttr] at h
    obtain ⟨xs, h1, h2⟩ := desTensors_roundtrip ts h
    exact ⟨.tensors n d xs, by simp [desAttr, h1, bind, Except.bind], by simp [serAttr, h2, normAttr], rfl⟩
  | .graph n d g, h, hv => by
    simp only [wfAttr] at h
    obtain ⟨x, g1, g2⟩ := graph_rt scopes ver g h (by simpa [attrHasDevCfg] using hv)
    exact ⟨.graph n d x, by simp [desAttr, g1, bind, Except.bind],
      by simp [serAttr, g2, normAttr, bind, Except.bind], rfl⟩
  | .graphs n d gs, h, hv => by
    simp only [wfAttr] at h
    obtain ⟨xs, g1, g2⟩ := graphs_rt scopes ver gs h (by simpa [attrHasDevCfg] using hv)
    exact ⟨.graphs n d xs, by simp [desAttr, g1, bind, Except.bind],
      by simp [serAttr, g2, normAttr, bind, Except.bind], rfl⟩
  | .typeProto n d tp, h, _ => by
    simp only [wfAttr] at h
    obtain ⟨ty, sh, g1, g2⟩ := typeAndShape_roundtrip tp h
    exact ⟨.typeProto n d ty sh, by simp [desAttr, g1, bind, Except.bind], by simp [serAttr, g2, normAttr], rfl⟩
  | .typeProtos n d tps, h, _ => by
    simp only [wfAttr] at h
    obtain ⟨xs, h1, h2⟩ := desTypeAndShapes_roundtrip tps h
    exact ⟨.typeProtos n d xs, by simp [desAttr, h1, bind, Except.bind], by simp [serAttr, h2, normAttr], rfl⟩
  | .undefined _ _, h, _ => by simp [wfAttr] at h
  | .sparse _ _ _, h, _ => by simp [wfAttr] at h
  | .unknown _ _ _, h, _ => by simp [wfAttr] at h

theorem graphs_rt (scopes : Scopes) (ver : Option Int) : ∀ gs : List GraphP, wfGraphs scopes gs = true →
    (verAllows ver = true ∨ graphsHaveDevCfg gs = false) →
    ∃ xs, desGraphs scopes gs = .ok xs ∧ serGraphs scopes ver xs = .ok (normGraphs gs)
  | [], _, _ => ⟨[], rfl, rfl⟩
  | g :: gs, h, hv => by
    simp only [wfGraphs, Bool.and_eq_true] at h
    have hv1 : verAllows ver = true ∨ graphHasDevCfg g = false := by
      rcases hv with hv | hv
      · exact Or.inl hv
      · simp only [graphsHaveDevCfg, Bool.or_eq_false_iff] at hv; exact Or.inr hv.1
    have hv2 : verAllows ver = true ∨ graphsHaveDevCfg gs = false := by
      rcases hv with hv | hv
      · exact Or.inl hv
      · simp only [graphsHaveDevCfg, Bool.or_eq_false_iff] at hv; exact Or.inr hv.2
    obtain ⟨x, g1, g2⟩ := graph_rt scopes ver g h.1 hv1
    obtain ⟨xs, h1, h2⟩ := graphs_rt scopes ver gs h.2 hv2
    exact ⟨x :: xs, by simp [desGraphs, g1, h1, bind, Except.bind],
      by simp [serGraphs, g2, h2, normGraphs, bind, Except.bind]⟩

theorem attrs_rt (scopes : Scopes) (ver : Option Int) : ∀ as : List AttrP, wfAttrs scopes as = true →
    (verAllows ver = true ∨ attrsHaveDevCfg as = false) →
    ∃ xs, desAttrs scopes as = .ok xs ∧ serAttrs scopes ver xs = .ok (normAttrs as) ∧
      xs.map IRAttr.name = as.map AttrP.name
  | [], _, _ => ⟨[], rfl, rfl, rfl⟩
  | a :: as, h, hv => by
    simp only [wfAttrs, Bool.and_eq_true] at h
    have hv1 : verAllows ver = true ∨ attrHasDevCfg a = false := by
      rcases hv with hv | hv
      · exact Or.inl hv
      · simp only [attrsHaveDevCfg, Bool.or_eq_false_iff] at hv; exact Or.inr hv.1
    have hv2 : verAllows ver = true ∨ attrsHaveDevCfg as = false := by
      rcases hv with hv | hv
      · exact Or.inl hv
      · simp only [attrsHaveDevCfg, Bool.or_eq_false_iff] at hv; exact Or.inr hv.2
    obtain ⟨x, g1, g2, g3⟩ := attr_rt scopes ver a h.1 hv1
    obtain ⟨xs, h1, h2, h3⟩ := attrs_rt scopes ver as h.2 hv2
    exact ⟨x :: xs, by simp [desAttrs, g1, h1, bind, Except.bind],
      by simp [serAttrs, g2, h2, normAttrs, bind, Except.bind], by simp [g3, h3]⟩

theorem node_rt (outer : Scopes) (vis : List ValueInfoP) (q : List AnnotP) (ver : Option Int)
    (tbl : List IRValue) : ∀ n : NodeP, wfNode (tableNames tbl :: outer) n = true →
    (verAllows ver = true ∨ nodeHasDevCfg n = false) →
    ∃ x, desNode outer vis q tbl n = .ok (x, tbl) ∧
      serNode (tableNames tbl :: outer) ver x = .ok (normNode n) ∧
      x.outputs = n.outputs.map (fun s => if s = "" then none else lookupLast (tableNames tbl) s)
  | .mk inputs outputs name opType domain overload doc attrs metadata devcfgs, h, hver => by
    simp only [wfNode, Bool.and_eq_true, List.headD_cons] at h
    obtain ⟨⟨⟨⟨⟨hin, hout⟩, hnd⟩, hattrs⟩, _hmeta⟩, hdev⟩ := h
    obtain ⟨xs, a1, a2, a3⟩ := attrs_rt (tableNames tbl :: outer) ver attrs hattrs
      (by rcases hver with hv | hv
          · exact Or.inl hv
          · simp only [nodeHasDevCfg, Bool.or_eq_false_iff] at hv; exact Or.inr hv.2)
    have hnd' := nodupStr_iff.1 hnd
    have hord : orderByFirst (attrs.map AttrP.name) xs = xs := by
      rw [← a3]; exact orderByFirst_self (by rw [a3]; exact hnd')
    have hdc : devcfgs ≠ [] → serNodeDevCfgsGated (tableNames tbl :: outer) ver
          (devcfgs.map (desNodeDevCfg (tableNames tbl :: outer))) = Except.ok devcfgs := by
      intro hne
      have hva : verAllows ver = true := by
        rcases hver with hv | hv
        · exact hv
        · cases devcfgs with
          | nil => exact absurd rfl hne
          | cons c cs => simp [nodeHasDevCfg] at hv
      have := nodeDevCfgs_roundtrip (tableNames tbl :: outer) devcfgs hdev
      cases ver with
      | none => simpa [serNodeDevCfgsGated] using this
      | some v =>
        have hv : ¬ v < 11 := by simp [verAllows] at hva; omega
        simpa [serNodeDevCfgsGated, hv] using this
    refine ⟨IRNode.mk (normDomain domain) opType overload name doc
      (inputs.map (fun n => if n = "" then none else resolve (tableNames tbl :: outer) n))
      (outputs.map (fun n => if n = "" then none else lookupLast (tableNames tbl) n))
      xs (dictOfEntries metadata) (devcfgs.map (desNodeDevCfg (tableNames tbl :: outer))), ?_, ?_, ?_⟩
    · simp only [desNode, desNodeInputs_wf outer vis q tbl inputs hin, desNodeOutputs_wf _ outputs hout,
        desAttrsLast_eq hnd', a1, bind, Except.bind, hord]
    · have e1 := inputs_back (tableNames tbl :: outer) inputs hin
      have e2 := outputs_back (tableNames tbl) outer outputs hout
      cases devcfgs with
      | nil =>
        simp only [serNode, a2, bind, Except.bind, normNode, normEntries, List.map_nil,
          List.isEmpty_nil, if_true, Except.ok.injEq, NodeP.mk.injEq, true_and, and_true]
        exact ⟨e1, congrArg trimTrailingEmpty e2⟩
      | cons c cs =>
        have := hdc (by simp)
        simp only [List.map_cons] at this
        simp only [serNode, a2, bind, Except.bind, normNode, normEntries, List.map_cons,
          List.isEmpty_cons, Bool.false_eq_true, if_false, this, Except.ok.injEq, NodeP.mk.injEq,
          true_and, and_true]
        exact ⟨e1, congrArg trimTrailingEmpty e2⟩
    · rfl

theorem nodes_rt (outer : Scopes) (vis : List ValueInfoP) (q : List AnnotP) (ver : Option Int) :
    ∀ (nodes : List NodeP) (tbl : List IRValue), wfNodes (tableNames tbl :: outer) nodes = true →
    (verAllows ver = true ∨ nodesHaveDevCfg nodes = false) →
    ∃ xs, desNodes outer vis q nodes tbl = .ok (xs, tbl) ∧
      serNodes (tableNames tbl :: outer) ver xs = .ok (normNodes nodes) ∧
      xs.flatMap IRNode.outputs =
        (nodes.flatMap NodeP.outputs).map
          (fun s => if s = "" then none else lookupLast (tableNames tbl) s)
  | [], tbl, _, _ => ⟨[], rfl, rfl, rfl⟩
  | n :: ns, tbl, h, hver => by
    simp only [wfNodes, Bool.and_eq_true] at h
    have hv1 : verAllows ver = true ∨ nodeHasDevCfg n = false := by
      rcases hver with hv | hv
      · exact Or.inl hv
      · simp only [nodesHaveDevCfg, Bool.or_eq_false_iff] at hv; exact Or.inr hv.1
    have hv2 : verAllows ver = true ∨ nodesHaveDevCfg ns = false := by
      rcases hver with hv | hv
      · exact Or.inl hv
      · simp only [nodesHaveDevCfg, Bool.or_eq_false_iff] at hv; exact Or.inr hv.2
    obtain ⟨x, g1, g2, g3⟩ := node_rt outer vis q ver tbl n h.1 hv1
    obtain ⟨xs, h1, h2, h3⟩ := nodes_rt outer vis q ver ns tbl h.2 hv2
    exact ⟨x :: xs, by simp [desNodes, g1, h1, bind, Except.bind],
      by simp [serNodes, g2, h2, normNodes, bind, Except.bind],
      by simp [g3, h3]⟩

theorem graph_rt (outer : Scopes) (ver : Option Int) : ∀ g : GraphP, wfGraph outer g = true →
    (verAllows ver = true ∨ graphHasDevCfg g = false) →
    ∃ x, desGraph outer g = .ok x ∧ serGraph outer ver x = .ok (normGraph g)
  | .mk name doc nodes inits inputs outputs vis quant metadata, h, hver => by
    apply graph_core outer ver name doc nodes inits inputs outputs vis quant metadata h
    intro tbl hw
    exact nodes_rt outer vis quant ver nodes tbl hw
      (by rcases hver with hv | hv
          · exact Or.inl hv
          · exact Or.inr (by simpa [graphHasDevCfg] using hv))
end

end IrVerif.Serde

/-
Lemmas/SemOutputFix.lean — OutputFixPass model (`ofixG`, `ofixModel`) preserves the denotation:
Identity nodes with fresh outputs appended at the end of a graph alias its outputs.
-/
import IrVerif.Lemmas.SemCse
namespace IrVerif.Passes
open IrVerif.Sem
variable {Val : Type}

theorem le_foldl_max : ∀ (l : List Nat) (a v : Nat), (v ∈ l ∨ v ≤ a) → v ≤ l.foldl max a
  | [], a, v, h => by simpa using h
  | x :: l, a, v, h => by
    simp only [List.foldl_cons]
    apply le_foldl_max l
    rcases h with h | h
    · rcases List.mem_cons.1 h with h | h
      · right; rw [h]; exact Nat.le_max_right _ _
      · exact Or.inl h
    · right; exact Nat.le_trans h (Nat.le_max_left _ _)

theorem ofixMulti_mono : ∀ (outs seen : List VId) (next : Nat), next ≤ (ofixMulti seen outs next).2.2
  | [], _, _ => by simp [ofixMulti]
  | o :: rest, seen, next => by
    simp only [ofixMulti]
    split
    · have := ofixMulti_mono rest seen (next + 1); simp only; omega
    · exact ofixMulti_mono rest (o :: seen) next

theorem ofixMulti_lt : ∀ (outs seen : List VId) (next : Nat), (∀ o ∈ outs, o < next) →
    ∀ o ∈ (ofixMulti seen outs next).1, o < (ofixMulti seen outs next).2.2
  | [], _, _, _, o, ho => by simp [ofixMulti] at ho
  | o0 :: rest, seen, next, h, o, ho => by
    have hrest : ∀ o' ∈ rest, o' < next := fun o' ho' => h o' (List.mem_cons_of_mem _ ho')
    simp only [ofixMulti] at ho ⊢
    split at ho
    · rename_i hc
      simp only [hc, if_true]
      rcases List.mem_cons.1 ho with ho | ho
      · have := ofixMulti_mono rest seen (next + 1); rw [ho]; exact Nat.lt_of_succ_le this
      · exact ofixMulti_lt rest seen (next + 1) (fun o' ho' => Nat.lt_succ_of_lt (hrest o' ho')) o ho
    · rename_i hc
      simp only [hc]
      rcases List.mem_cons.1 ho with ho | ho
      · have h1 := ofixMulti_mono rest (o0 :: seen) next
        have h2 := h o0 (by simp)
        rw [ho]; simp only [Bool.false_eq_true, if_false]; exact Nat.lt_of_lt_of_le h2 h1
      · simpa using ofixMulti_lt rest (o0 :: seen) next hrest o ho

theorem ofixDirect_mono (gi : List VId) : ∀ (outs : List VId) (next : Nat), next ≤ (ofixDirect gi outs next).2.2
  | [], _ => by simp [ofixDirect]
  | o :: rest, next => by
    simp only [ofixDirect]
    split
    · have := ofixDirect_mono gi rest (next + 1); simp only; omega
    · exact ofixDirect_mono gi rest next

theorem ofixDirect_lt (gi : List VId) : ∀ (outs : List VId) (next : Nat), (∀ o ∈ outs, o < next) →
    ∀ o ∈ (ofixDirect gi outs next).1, o < (ofixDirect gi outs next).2.2
  | [], _, _, o, ho => by simp [ofixDirect] at ho
  | o0 :: rest, next, h, o, ho => by
    have hrest : ∀ o' ∈ rest, o' < next := fun o' ho' => h o' (List.mem_cons_of_mem _ ho')
    simp only [ofixDirect] at ho ⊢
    split at ho
    · rename_i hc
      simp only [hc, if_true]
      rcases List.mem_cons.1 ho with ho | ho
      · have := ofixDirect_mono gi rest (next + 1); rw [ho]; exact Nat.lt_of_succ_le this
      · exact ofixDirect_lt gi rest (next + 1) (fun o' ho' => Nat.lt_succ_of_lt (hrest o' ho')) o ho
    · rename_i hc
      simp only [hc]
      rcases List.mem_cons.1 ho with ho | ho
      · have h1 := ofixDirect_mono gi rest next
        have h2 := h o0 (by simp)
        rw [ho]; simp only [Bool.false_eq_true, if_false]; exact Nat.lt_of_lt_of_le h2 h1
      · simpa using ofixDirect_lt gi rest next hrest o ho

theorem ofixMulti_spec (I : Interp Val) : ∀ (outs seen : List VId) (next : Nat) (E : Env Val),
    (∀ o ∈ outs, o < next) →
    (ofixMulti seen outs next).1.map (evalNodes I (ofixMulti seen outs next).2.1 E) = outs.map E ∧
    (∀ v, v < next → evalNodes I (ofixMulti seen outs next).2.1 E v = E v)
  | [], _, next, E, _ => by simp [ofixMulti, evalNodes]
  | o :: rest, seen, next, E, h => by
    have ho : o < next := h o (by simp)
    have hrest : ∀ o' ∈ rest, o' < next := fun o' ho' => h o' (List.mem_cons_of_mem _ ho')
    simp only [ofixMulti]
    split
    · obtain ⟨h1, h2⟩ := ofixMulti_spec I rest seen (next + 1) (E.bind [next] [E o])
        (fun o' ho' => Nat.lt_succ_of_lt (hrest o' ho'))
      have hne : ∀ v, v < next → (E.bind [next] [E o]) v = E v := fun v hv =>
        Env.bind_of_not_mem _ _ (fun h => by simp only [List.mem_singleton] at h; exact absurd (h ▸ hv) (Nat.lt_irrefl _))
      simp only [evalNodes, evalN_identityNode, List.map_cons]
      refine ⟨?_, ?_⟩
      · rw [h1, h2 next (by omega)]
        congr 1
        · simp [Env.bind]
        · exact List.map_congr_left (fun o' ho' => hne o' (hrest o' ho'))
      · intro v hv
        rw [h2 v (by omega), hne v hv]
    · obtain ⟨h1, h2⟩ := ofixMulti_spec I rest (o :: seen) next E hrest
      simp only [List.map_cons]
      exact ⟨by rw [h1, h2 o ho], h2⟩

theorem ofixDirect_spec (I : Interp Val) (gi : List VId) : ∀ (outs : List VId) (next : Nat) (E : Env Val),
    (∀ o ∈ outs, o < next) →
    (ofixDirect gi outs next).1.map (evalNodes I (ofixDirect gi outs next).2.1 E) = outs.map E ∧
    (∀ v, v < next → evalNodes I (ofixDirect gi outs next).2.1 E v = E v)
  | [], next, E, _ => by simp [ofixDirect, evalNodes]
  | o :: rest, next, E, h => by
    have ho : o < next := h o (by simp)
    have hrest : ∀ o' ∈ rest, o' < next := fun o' ho' => h o' (List.mem_cons_of_mem _ ho')
    simp only [ofixDirect]
    split
    · obtain ⟨h1, h2⟩ := ofixDirect_spec I gi rest (next + 1) (E.bind [next] [E o])
        (fun o' ho' => Nat.lt_succ_of_lt (hrest o' ho'))
      have hne : ∀ v, v < next → (E.bind [next] [E o]) v = E v := fun v hv =>
        Env.bind_of_not_mem _ _ (fun h => by simp only [List.mem_singleton] at h; exact absurd (h ▸ hv) (Nat.lt_irrefl _))
      simp only [evalNodes, evalN_identityNode, List.map_cons]
      refine ⟨?_, ?_⟩
      · rw [h1, h2 next (by omega)]
        congr 1
        · simp [Env.bind]
        · exact List.map_congr_left (fun o' ho' => hne o' (hrest o' ho'))
      · intro v hv
        rw [h2 v (by omega), hne v hv]
    · obtain ⟨h1, h2⟩ := ofixDirect_spec I gi rest next E hrest
      simp only [List.map_cons]
      exact ⟨by rw [h1, h2 o ho], h2⟩

/-- the order of the initializer list is irrelevant when the ids are distinct -/
theorem evalG_inits_equiv (I : Interp Val) (inputs outputs : List VId) (inits inits' : List (VId × Tensor))
    (nodes : List Node) (hnd : (inits.map Prod.fst).Nodup) (hnd' : (inits'.map Prod.fst).Nodup)
    (hmem : ∀ p, p ∈ inits' ↔ p ∈ inits) (ρ : Env Val) :
    evalG I (.mk inputs outputs inits' nodes) ρ = evalG I (.mk inputs outputs inits nodes) ρ := by
  funext xs
  simp only [evalG]
  have hids : ∀ v, v ∈ inits'.map Prod.fst ↔ v ∈ inits.map Prod.fst := by
    intro v
    simp only [List.mem_map]
    constructor
    · rintro ⟨p, hp, rfl⟩; exact ⟨p, (hmem p).1 hp, rfl⟩
    · rintro ⟨p, hp, rfl⟩; exact ⟨p, (hmem p).2 hp, rfl⟩
  have hfree : inputs.filter (fun v => !(inits'.map Prod.fst).contains v)
      = inputs.filter (fun v => !(inits.map Prod.fst).contains v) := by
    apply List.filter_congr
    intro v _
    congr 1
    rw [Bool.eq_iff_iff]
    simp only [List.contains_iff_mem]
    exact hids v
  rw [hfree]
  have henv : bindInits I ρ inits' = bindInits I ρ inits := by
    funext v
    simp only [bindInits]
    by_cases hv : v ∈ inits.map Prod.fst
    · obtain ⟨p, hp, rfl⟩ := List.mem_map.1 hv
      rw [Env.bind_map_of_mem ρ Prod.fst (fun p => some (I.tv p.2)) _ p hnd hp,
        Env.bind_map_of_mem ρ Prod.fst (fun p => some (I.tv p.2)) _ p hnd' ((hmem p).2 hp)]
    · rw [Env.bind_of_not_mem _ _ hv, Env.bind_of_not_mem _ _ (fun h => hv ((hids v).1 h))]
  rw [henv]

theorem moveToEnd_mem (o : VId) (l : List (VId × Tensor)) (p : VId × Tensor) :
    p ∈ moveToEnd o l ↔ p ∈ l := by
  simp only [moveToEnd, List.mem_append, List.mem_filter]
  constructor
  · rintro (h | h) <;> exact h.1
  · intro h
    by_cases hp : (p.1 != o) = true
    · exact Or.inl ⟨h, hp⟩
    · exact Or.inr ⟨h, by simpa using hp⟩

theorem moveToEnd_nodup (o : VId) (l : List (VId × Tensor)) (h : (l.map Prod.fst).Nodup) :
    ((moveToEnd o l).map Prod.fst).Nodup := by
  have hp : List.Perm (moveToEnd o l) l := by
    simp only [moveToEnd]
    exact List.filter_append_perm _ l
  exact (hp.map Prod.fst).nodup_iff.2 h

theorem foldl_moveToEnd (F : List VId) : ∀ (l : List (VId × Tensor)), (l.map Prod.fst).Nodup →
    ((F.foldl (fun acc o => moveToEnd o acc) l).map Prod.fst).Nodup ∧
    ∀ p, p ∈ F.foldl (fun acc o => moveToEnd o acc) l ↔ p ∈ l := by
  induction F with
  | nil => intro l h; exact ⟨h, fun _ => Iff.rfl⟩
  | cons o F ih =>
    intro l h
    obtain ⟨h1, h2⟩ := ih (moveToEnd o l) (moveToEnd_nodup o l h)
    exact ⟨h1, fun p => (h2 p).trans (moveToEnd_mem o l p)⟩

mutual
theorem ofixG_mono (gi : List VId) : ∀ (g : Graph) (next : Nat), next ≤ (ofixG gi next g).2
  | .mk inputs outputs inits nodes, next => by
    simp only [ofixG]
    exact Nat.le_trans (ofixNodes_mono gi nodes next)
      (Nat.le_trans (ofixMulti_mono outputs [] _) (ofixDirect_mono gi _ _))
theorem ofixNodes_mono (gi : List VId) : ∀ (ns : List Node) (next : Nat), next ≤ (ofixNodes gi next ns).2
  | [], next => by simp [ofixNodes]
  | .mk op attrs ins outs bodies :: ns, next => by
    simp only [ofixNodes]
    exact Nat.le_trans (ofixBodies_mono gi bodies next) (ofixNodes_mono gi ns _)
theorem ofixBodies_mono (gi : List VId) : ∀ (bs : List Graph) (next : Nat), next ≤ (ofixBodies gi next bs).2
  | [], next => by simp [ofixBodies]
  | b :: bs, next => by
    simp only [ofixBodies]
    exact Nat.le_trans (ofixG_mono gi b next) (ofixBodies_mono gi bs _)
end

mutual
theorem ofixG_sound (I : Interp Val) (gi : List VId) : ∀ (g : Graph) (next : Nat), ssaG g = true →
    (∀ v ∈ boutsG g, v < next) → ∀ ρ : Env Val, evalG I (ofixG gi next g).1 ρ = evalG I g ρ
  | .mk inputs outputs inits nodes, next, hs, hb, ρ => by
    simp only [ssaG, Bool.and_eq_true, nodupB_iff] at hs
    obtain ⟨hnd1, hmem1⟩ := foldl_moveToEnd
      (fixedInputs (ofixDirect gi (ofixMulti [] outputs (ofixNodes gi next nodes).2).1
        (ofixMulti [] outputs (ofixNodes gi next nodes).2).2.2).2.1) inits hs.1.1.2
    simp only [ofixG]
    rw [evalG_inits_equiv I _ _ inits _ _ hs.1.1.2 hnd1 hmem1]
    funext xs
    have hbo : ∀ v ∈ outputs, v < next := fun v hv => hb v (by simp [boutsG, hv])
    have hbn : ∀ v ∈ boutsNodes nodes, v < next := fun v hv => hb v (by simp [boutsG, hv])
    have hm := ofixNodes_mono gi nodes next
    simp only [evalG, evalNodes_append]
    rw [ofixNodes_sound I gi nodes next hs.2 hbn]
    have ho1 : ∀ o ∈ outputs, o < (ofixNodes gi next nodes).2 := fun o ho => Nat.lt_of_lt_of_le (hbo o ho) hm
    obtain ⟨h1, _⟩ := ofixMulti_spec I outputs [] (ofixNodes gi next nodes).2
      (evalNodes I nodes ((bindInits I ρ inits).bind
        (inputs.filter (fun v => !(inits.map Prod.fst).contains v)) (xs.map some))) ho1
    obtain ⟨h3, _⟩ := ofixDirect_spec I gi (ofixMulti [] outputs (ofixNodes gi next nodes).2).1
      (ofixMulti [] outputs (ofixNodes gi next nodes).2).2.2
      (evalNodes I (ofixMulti [] outputs (ofixNodes gi next nodes).2).2.1
        (evalNodes I nodes ((bindInits I ρ inits).bind
          (inputs.filter (fun v => !(inits.map Prod.fst).contains v)) (xs.map some))))
      (ofixMulti_lt outputs [] _ ho1)
    rw [h3, h1]
theorem ofixNodes_sound (I : Interp Val) (gi : List VId) : ∀ (ns : List Node) (next : Nat), ssaNodes ns = true →
    (∀ v ∈ boutsNodes ns, v < next) → ∀ ρ : Env Val, evalNodes I (ofixNodes gi next ns).1 ρ = evalNodes I ns ρ
  | [], _, _, _, _ => by simp [ofixNodes]
  | .mk op attrs ins outs bodies :: ns, next, hs, hb, ρ => by
    simp only [ssaNodes, ssaN, Bool.and_eq_true] at hs
    simp only [ofixNodes, evalNodes, evalN]
    rw [ofixBodies_sound I gi bodies next hs.1.1.2 (fun v hv => hb v (by simp [boutsNodes, boutsN, hv])) ρ]
    exact ofixNodes_sound I gi ns _ hs.2 (fun v hv => Nat.lt_of_lt_of_le
      (hb v (by simp [boutsNodes, hv])) (ofixBodies_mono gi bodies next)) _
theorem ofixBodies_sound (I : Interp Val) (gi : List VId) : ∀ (bs : List Graph) (next : Nat), ssaBodies bs = true →
    (∀ v ∈ boutsBodies bs, v < next) → ∀ ρ : Env Val, evalBodies I (ofixBodies gi next bs).1 ρ = evalBodies I bs ρ
  | [], _, _, _, _ => by simp [ofixBodies]
  | b :: bs, next, hs, hb, ρ => by
    simp only [ssaBodies, Bool.and_eq_true] at hs
    simp only [ofixBodies, evalBodies]
    rw [ofixG_sound I gi b next hs.1.1 (fun v hv => hb v (by simp [boutsBodies, hv])) ρ,
      ofixBodies_sound I gi bs _ hs.2 (fun v hv => Nat.lt_of_lt_of_le
        (hb v (by simp [boutsBodies, hv])) (ofixG_mono gi b next)) ρ]
end

theorem ofixMulti_length : ∀ (outs seen : List VId) (next : Nat),
    (ofixMulti seen outs next).1.length = outs.length
  | [], _, _ => by simp [ofixMulti]
  | o :: rest, seen, next => by
    simp only [ofixMulti]
    split <;> simp [ofixMulti_length rest]

theorem ofixDirect_length (gi : List VId) : ∀ (outs : List VId) (next : Nat),
    (ofixDirect gi outs next).1.length = outs.length
  | [], _ => by simp [ofixDirect]
  | o :: rest, next => by
    simp only [ofixDirect]
    split <;> simp [ofixDirect_length gi rest]

theorem ofixBodies_length (gi : List VId) : ∀ (bs : List Graph) (next : Nat),
    (ofixBodies gi next bs).1.length = bs.length
  | [], _ => by simp [ofixBodies]
  | b :: bs, next => by simp [ofixBodies, ofixBodies_length gi bs]

theorem ofixBodies_getElem? (gi : List VId) : ∀ (bs : List Graph) (next : Nat) (k : Nat),
    match bs[k]? with
    | some b => ∃ n', next ≤ n' ∧ (ofixBodies gi next bs).1[k]? = some (ofixG gi n' b).1
    | none => (ofixBodies gi next bs).1[k]? = none
  | [], _, k => by simp [ofixBodies]
  | b :: bs, next, 0 => by
    simp only [List.getElem?_cons_zero, ofixBodies]
    exact ⟨next, Nat.le_refl _, rfl⟩
  | b :: bs, next, k + 1 => by
    have ih := ofixBodies_getElem? gi bs (ofixG gi next b).2 k
    simp only [List.getElem?_cons_succ, ofixBodies]
    cases hk : bs[k]? with
    | none => simpa [hk] using ih
    | some b' =>
      simp only [hk] at ih ⊢
      obtain ⟨n', h1, h2⟩ := ih
      exact ⟨n', Nat.le_trans (ofixG_mono gi b next) h1, h2⟩

theorem lt_freshId_of_mem (m : Model) {v : VId}
    (h : v ∈ refsG m.graph ++ defsG m.graph ++ refsBodies m.funcs ++ defsBodies m.funcs) : v < freshId m := by
  have := le_foldl_max _ 0 v (Or.inl h)
  simp only [freshId]
  exact Nat.lt_of_le_of_lt this (by rw [Nat.add_comm]; exact Nat.lt_succ_self _)

end IrVerif.Passes

/-
C18: the structural (back-pointer independent) notions — free variables of a nested graph — and their
relation to what the code computes from the `.graph` back pointers.
-/
import IrVerif.Lemmas.Extract
namespace IrVerif.Extract

/-! ## `defsG` / `outsTop` membership -/

mutual
  theorem mem_defsG : ∀ (g : GraphT) (v : VId), v ∈ defsG g ↔ DefInG g v
    | .mk gid i w o ns, v => by
      rw [defsG, List.mem_append, List.mem_append, mem_defsNs ns v]
      constructor
      · rintro ((h | h) | ⟨n, hn, h⟩)
        · exact DefInG.input (g := .mk gid i w o ns) h
        · exact DefInG.init (g := .mk gid i w o ns) h
        · exact DefInG.node (g := .mk gid i w o ns) hn h
      · intro h
        cases h with
        | input h => exact Or.inl (Or.inl h)
        | init h => exact Or.inl (Or.inr h)
        | node hn h => exact Or.inr ⟨_, hn, h⟩
  theorem mem_defsNs : ∀ (ns : List NodeT) (v : VId), v ∈ defsNs ns ↔ ∃ n, n ∈ ns ∧ DefInN n v
    | [], v => by simp [defsNs]
    | n :: ns, v => by
      rw [defsNs, List.mem_append, mem_defsN n v, mem_defsNs ns v]
      simp
  theorem mem_defsN : ∀ (n : NodeT) (v : VId), v ∈ defsN n ↔ DefInN n v
    | .mk ins outs bs, v => by
      rw [defsN, List.mem_append, mem_defsGs bs v]
      constructor
      · rintro (h | ⟨b, hb, h⟩)
        · exact DefInN.out (n := .mk ins outs bs) h
        · exact DefInN.nested (n := .mk ins outs bs) hb h
      · intro h
        cases h with
        | out h => exact Or.inl h
        | nested hb h => exact Or.inr ⟨_, hb, h⟩
  theorem mem_defsGs : ∀ (gs : List GraphT) (v : VId), v ∈ defsGs gs ↔ ∃ g, g ∈ gs ∧ DefInG g v
    | [], v => by simp [defsGs]
    | g :: gs, v => by
      rw [defsGs, List.mem_append, mem_defsG g v, mem_defsGs gs v]
      simp
end

theorem mem_outsTop : ∀ (ns : List NodeT) (v : VId), v ∈ outsTop ns ↔ ∃ n, n ∈ ns ∧ v ∈ n.outputs
  | [], v => by simp [outsTop]
  | n :: ns, v => by
    rw [outsTop, List.mem_append, mem_outsTop ns v]
    simp

/-! ## free variables, structurally -/

/-- `v` is a free variable of the nested graph `b`: some node of `b` or of a graph nested in `b` reads it, and
    neither `b` nor a graph nested in `b` defines it.  Purely structural: no back pointer is consulted. -/
def FreeOf (b : GraphT) (v : VId) : Prop := UsedInG b v ∧ ¬ DefInG b v

/-- the `.graph` back pointers are consistent with the structure on the subtree of `b` -/
def BackPtrOK (W : World) (b : GraphT) : Prop :=
  ∀ v, DefInG b v ↔ ∃ k, NestedIn b k ∧ W.graphOf v = some k

theorem backPtrB_sound {W : World} {b : GraphT} (h : backPtrB W b = true)
    (hrange : ∀ v, W.vals.length ≤ v → W.graphOf v = none) : BackPtrOK W b := by
  intro v
  unfold backPtrB at h
  rw [List.all_eq_true] at h
  have key : ∀ v, (v < W.vals.length ∨ v ∈ defsG b) →
      (v ∈ defsG b ↔ W.graphOf v ∈ (gidsG b).map some) := by
    intro v hv
    have := h v (by
      rw [List.mem_append, List.mem_range]; exact hv)
    simp only [List.contains_eq_mem, beq_iff_eq, decide_eq_decide] at this
    exact this
  have hmap : ∀ v, W.graphOf v ∈ (gidsG b).map some ↔ ∃ k, NestedIn b k ∧ W.graphOf v = some k := by
    intro v
    rw [List.mem_map]
    constructor
    · rintro ⟨k, hk, e⟩; exact ⟨k, (mem_gidsG b k).mp hk, e.symm⟩
    · rintro ⟨k, hk, e⟩; exact ⟨k, (mem_gidsG b k).mpr hk, e.symm⟩
  by_cases hv : v < W.vals.length ∨ v ∈ defsG b
  · rw [← mem_defsG, key v hv, hmap]
  · have h1 : ¬ v ∈ defsG b := fun h => hv (Or.inr h)
    have h0 : ¬ v < W.vals.length := fun h => hv (Or.inl h)
    have h2 : W.graphOf v = none := hrange v (Nat.le_of_not_lt h0)
    constructor
    · intro hd; exact absurd ((mem_defsG b v).mpr hd) h1
    · rintro ⟨k, _, e⟩; rw [h2] at e; cases e

/-- what the code computes from the back pointers (`Outside`) is "not defined inside" when the back pointers
    are consistent and the region's own graph is not nested in the body -/
theorem outside_iff_not_def {W : World} {p : GId} {b : GraphT} {v : VId}
    (hb : BackPtrOK W b) (hp : ¬ NestedIn b p) : Outside W p b v ↔ ¬ DefInG b v := by
  unfold Outside
  constructor
  · rintro (h | h) hd
    · obtain ⟨k, hk, e⟩ := (hb v).mp hd
      rw [h] at e; cases e; exact hp hk
    · obtain ⟨k, hk, e⟩ := (hb v).mp hd
      exact h k hk e
  · intro hnd
    right
    intro k hk e
    exact hnd ((hb v).mpr ⟨k, hk, e⟩)

/-- structural "needs": an input of the node, or a free variable of one of its graph attributes -/
def NeedsS (W : World) (n : NId) (u : VId) : Prop :=
  some u ∈ (W.nodeD n).inputs ∨ ∃ b, b ∈ (W.nodeD n).bodies ∧ FreeOf b u

/-- the back pointers of every graph attribute of node `n` are consistent, and the region's graph `p` is not
    nested in them -/
def BodiesPtrOK (W : World) (p : GId) (n : NId) : Prop :=
  ∀ b, b ∈ (W.nodeD n).bodies → BackPtrOK W b ∧ ¬ NestedIn b p

theorem needs_iff_struct {W : World} {p : GId} {n : NId} {u : VId} (h : BodiesPtrOK W p n) :
    Needs W p n u ↔ NeedsS W n u := by
  unfold Needs NeedsS FreeOf
  constructor
  · rintro (h1 | ⟨b, hb, hu, ho⟩)
    · exact Or.inl h1
    · exact Or.inr ⟨b, hb, hu, (outside_iff_not_def (h b hb).1 (h b hb).2).mp ho⟩
  · rintro (h1 | ⟨b, hb, hu, hd⟩)
    · exact Or.inl h1
    · exact Or.inr ⟨b, hb, hu, (outside_iff_not_def (h b hb).1 (h b hb).2).mpr hd⟩

/-- the required values / nodes, defined from the structure alone -/
inductive ReachS (W : World) (I O : List VId) : VId → Prop
  | out {v : VId} : v ∈ O → ¬ v ∈ I → ReachS W I O v
  | step {v u : VId} {n : NId} : ReachS W I O v → W.prod v = some n → NeedsS W n u → ¬ u ∈ I →
      ReachS W I O u

def NeedNS (W : World) (I O : List VId) (n : NId) : Prop :=
  ∃ v, ReachS W I O v ∧ W.prod v = some n

theorem reach_iff_struct {W : World} {p : GId} {I O : List VId} (h : ∀ n, BodiesPtrOK W p n) (v : VId) :
    Reach W p I O v ↔ ReachS W I O v := by
  constructor
  · intro hr
    induction hr with
    | out ho hi => exact ReachS.out ho hi
    | step _ hp hn hi ih => exact ReachS.step ih hp ((needs_iff_struct (h _)).mp hn) hi
  · intro hr
    induction hr with
    | out ho hi => exact Reach.out ho hi
    | step _ hp hn hi ih => exact Reach.step ih hp ((needs_iff_struct (h _)).mpr hn) hi

theorem needN_iff_struct {W : World} {p : GId} {I O : List VId} (h : ∀ n, BodiesPtrOK W p n) (n : NId) :
    NeedN W p I O n ↔ NeedNS W I O n := by
  unfold NeedN NeedNS
  constructor
  · rintro ⟨v, hr, hp⟩; exact ⟨v, (reach_iff_struct h v).mp hr, hp⟩
  · rintro ⟨v, hr, hp⟩; exact ⟨v, (reach_iff_struct h v).mpr hr, hp⟩

/-! ## lexical free variables are uses (in closed graphs) -/

mutual
  theorem used_of_freeG : ∀ (g : GraphT) (v : VId), closedG g = true → v ∈ freeG g → UsedInG g v
    | .mk gid i w o ns, v, hc, hv => by
      rw [closedG, Bool.and_eq_true] at hc
      rw [freeG, List.mem_filter, List.mem_append] at hv
      obtain ⟨hv, hnb⟩ := hv
      rcases hv with hv | hv
      · obtain ⟨n, hn, hu⟩ := used_of_freeNs ns v hc.2 hv
        exact UsedInG.node (g := .mk gid i w o ns) hn hu
      · exfalso
        rw [List.mem_filter] at hv
        have h1 := List.all_eq_true.mp hc.1 v hv.1
        simp only [List.contains_eq_mem, decide_eq_true_eq, List.mem_append] at h1
        simp only [List.contains_eq_mem, Bool.not_eq_eq_eq_not, Bool.not_true, decide_eq_false_iff_not,
          List.mem_append] at hnb
        rcases h1 with h1 | h1
        · exact hnb h1
        · have := hv.2; simp at this; exact this h1
  theorem used_of_freeNs : ∀ (ns : List NodeT) (v : VId), closedNs ns = true → v ∈ freeNs ns →
      ∃ n, n ∈ ns ∧ UsedInN n v
    | [], v, _, hv => by simp [freeNs] at hv
    | n :: ns, v, hc, hv => by
      rw [closedNs, Bool.and_eq_true] at hc
      rw [freeNs, List.mem_append] at hv
      rcases hv with hv | hv
      · exact ⟨n, List.mem_cons_self, used_of_freeN n v hc.1 hv⟩
      · obtain ⟨m, hm, hu⟩ := used_of_freeNs ns v hc.2 (List.mem_filter.mp hv).1
        exact ⟨m, List.mem_cons_of_mem _ hm, hu⟩
  theorem used_of_freeN : ∀ (n : NodeT) (v : VId), closedN n = true → v ∈ freeN n → UsedInN n v
    | .mk ins outs bs, v, hc, hv => by
      rw [closedN] at hc
      rw [freeN, List.mem_append] at hv
      rcases hv with hv | hv
      · exact UsedInN.direct (n := .mk ins outs bs) (by simpa [List.mem_filterMap] using hv)
      · obtain ⟨b, hb, hu⟩ := used_of_freeGs bs v hc hv
        exact UsedInN.nested (n := .mk ins outs bs) hb hu
  theorem used_of_freeGs : ∀ (gs : List GraphT) (v : VId), closedGs gs = true → v ∈ freeGs gs →
      ∃ g, g ∈ gs ∧ UsedInG g v
    | [], v, _, hv => by simp [freeGs] at hv
    | g :: gs, v, hc, hv => by
      rw [closedGs, Bool.and_eq_true] at hc
      rw [freeGs, List.mem_append] at hv
      rcases hv with hv | hv
      · exact ⟨g, List.mem_cons_self, used_of_freeG g v hc.1 hv⟩
      · obtain ⟨m, hm, hu⟩ := used_of_freeGs gs v hc.2 hv
        exact ⟨m, List.mem_cons_of_mem _ hm, hu⟩
end

theorem mem_freeGs {gs : List GraphT} {v : VId} : v ∈ freeGs gs ↔ ∃ g, g ∈ gs ∧ v ∈ freeG g := by
  induction gs with
  | nil => simp [freeGs]
  | cons g gs ih => rw [freeGs, List.mem_append, ih]; simp

theorem closedGs_mem {gs : List GraphT} {g : GraphT} (h : closedGs gs = true) (hg : g ∈ gs) :
    closedG g = true := by
  induction gs with
  | nil => cases hg
  | cons a t ih =>
    rw [closedGs, Bool.and_eq_true] at h
    rcases List.mem_cons.mp hg with rfl | hg
    · exact h.1
    · exact ih h.2 hg

/-- what the lexical scoping of the semantics lets node `n` read is covered by what the code collects:
    every lexical free variable of a graph attribute is needed -/
def CapturesCover (W : World) (p : GId) (n : NId) : Prop :=
  ∀ u, u ∈ freeN (W.nodeD n) → Needs W p n u

/-- the structural hypotheses on the graphs nested in `n` under which `CapturesCover` holds -/
structure BodiesOK (W : World) (p : GId) (n : NId) : Prop where
  closed : ∀ b, b ∈ (W.nodeD n).bodies → closedG b = true
  wellScoped : ∀ b, b ∈ (W.nodeD n).bodies → ∀ u, u ∈ freeG b → ¬ DefInG b u
  ptr : BodiesPtrOK W p n

theorem capturesCover_of_bodiesOK {W : World} {p : GId} {n : NId} (h : BodiesOK W p n) :
    CapturesCover W p n := by
  intro u hu
  cases hnd : W.nodeD n with
  | mk ins outs bs =>
    rw [hnd, freeN, List.mem_append] at hu
    rcases hu with hu | hu
    · left; rw [hnd]; simpa [List.mem_filterMap] using hu
    · right
      obtain ⟨b, hb, hfb⟩ := mem_freeGs.mp hu
      have hb' : b ∈ (W.nodeD n).bodies := by rw [hnd]; exact hb
      refine ⟨b, hb', used_of_freeG b u (h.closed b hb') hfb, ?_⟩
      exact (outside_iff_not_def (h.ptr b hb').1 (h.ptr b hb').2).mpr (h.wellScoped b hb' u hfb)

theorem bodiesOKB_sound {W : World} {p : GId} {n : NId} (h : bodiesOKB W p n = true)
    (hrange : ∀ v, W.vals.length ≤ v → W.graphOf v = none) : BodiesOK W p n := by
  unfold bodiesOKB at h
  rw [List.all_eq_true] at h
  refine ⟨?_, ?_, ?_⟩
  · intro b hb
    have := h b hb
    simp only [Bool.and_eq_true] at this
    exact this.1.1.1
  · intro b hb u hu hd
    have := h b hb
    simp only [Bool.and_eq_true] at this
    have hw := this.1.1.2
    unfold wellScopedB at hw
    have := List.all_eq_true.mp hw u hu
    simp only [List.contains_eq_mem, Bool.not_eq_eq_eq_not, Bool.not_true, decide_eq_false_iff_not] at this
    exact this ((mem_defsG b u).mpr hd)
  · intro b hb
    have := h b hb
    simp only [Bool.and_eq_true] at this
    refine ⟨backPtrB_sound this.1.2 hrange, ?_⟩
    have hp := this.2
    simp only [List.contains_eq_mem, Bool.not_eq_eq_eq_not, Bool.not_true, decide_eq_false_iff_not] at hp
    exact fun hn => hp ((mem_gidsG b p).mpr hn)

end IrVerif.Extract

/-
Lemmas/SemSubst.lean — substitutions: relation between the old and the new environment restricted to
a set of "old" value ids (`RelOn`), and soundness of the deep substitution `substG`.
-/
import IrVerif.Lemmas.SemIdentity
namespace IrVerif.Passes
open IrVerif.Sem
variable {Val : Type}

/-- on the ids in `P`, the new environment read through the substitution is the old environment -/
def RelOn (P : VId → Prop) (σ : Subst) (ρ ρ' : Env Val) : Prop := ∀ v, P v → ρ v = ρ' (σ.app v)

theorem RelOn.bind {P : VId → Prop} {σ : Subst} {ρ ρ' : Env Val} (h : RelOn P σ ρ ρ') {vs : List VId}
    (hok : SubstOK σ vs) (rs : List (Option Val)) : RelOn P σ (ρ.bind vs rs) (ρ'.bind vs rs) := by
  intro v hP
  by_cases hv : v ∈ vs
  · rw [hok.app_of_mem hv]
    simp [Env.bind, hv]
  · rw [Env.bind_of_not_mem _ _ hv, Env.bind_of_not_mem _ _ (hok.app_not_mem hv)]
    exact h v hP

theorem RelOn.args {P : VId → Prop} {σ : Subst} {ρ ρ' : Env Val} (h : RelOn P σ ρ ρ')
    (ins : List (Option VId)) (hP : ∀ v ∈ ins.filterMap id, P v) :
    evalArgs ρ (trimNone ins) = evalArgs ρ' (trimNone (substIns σ ins)) := by
  unfold substIns
  rw [trimNone_map]
  unfold evalArgs
  rw [List.map_map]
  apply List.map_congr_left
  intro o ho
  cases o with
  | none => rfl
  | some v =>
    simp only [Function.comp, Option.map, Option.bind]
    exact h v (hP v (by simp only [List.mem_filterMap, id]; exact ⟨_, mem_of_mem_trimNone ho, rfl⟩))

mutual
theorem substG_sound (I : Interp Val) (P : VId → Prop) : ∀ (g : Graph) (σ : Subst) (ρ ρ' : Env Val),
    RelOn P σ ρ ρ' → SubstOK σ (defsG g) → (∀ v ∈ refsG g, P v) → closedG g = true →
    evalG I g ρ = evalG I (substG σ g) ρ'
  | .mk inputs outputs inits nodes, σ, ρ, ρ', hrel, hok, hP, hc => by
    funext xs
    simp only [closedG, Bool.and_eq_true, List.all_eq_true] at hc
    simp only [substG, evalG]
    apply List.map_congr_left
    intro v hv
    have hrel1 : RelOn P σ ((bindInits I ρ inits).bind
          (inputs.filter (fun v => !(inits.map Prod.fst).contains v)) (xs.map some))
        ((bindInits I ρ' inits).bind
          (inputs.filter (fun v => !(inits.map Prod.fst).contains v)) (xs.map some)) := by
      refine RelOn.bind (RelOn.bind hrel ?_ _) ?_ _
      · exact hok.mono (fun v hv => by simp only [defsG, List.mem_append]; exact Or.inl (Or.inr hv))
      · exact hok.mono (fun v hv => by
          simp only [defsG, List.mem_append]; exact Or.inl (Or.inl (List.mem_filter.1 hv).1))
    have key := substNodes_sound I P nodes σ _ _ hrel1
      (hok.mono (fun v hv => by simp only [defsG, List.mem_append]; exact Or.inr hv))
      (fun v hv => hP v (by simp only [refsG, List.mem_append]; exact Or.inr hv)) hc.2
    have hv' : σ.app v = v := by
      refine hok.app_of_mem ?_
      have := hc.1 v hv
      exact mem_topDefs_defsG (.mk inputs outputs inits nodes)
        (by simpa [topDefs, Graph.inputs, Graph.inits, Graph.nodes] using this)
    have := key v (hP v (by simp only [refsG, List.mem_append]; exact Or.inl hv))
    rw [hv'] at this
    exact this
theorem substNodes_sound (I : Interp Val) (P : VId → Prop) : ∀ (ns : List Node) (σ : Subst) (ρ ρ' : Env Val),
    RelOn P σ ρ ρ' → SubstOK σ (defsNodes ns) → (∀ v ∈ refsNodes ns, P v) → closedNodes ns = true →
    RelOn P σ (evalNodes I ns ρ) (evalNodes I (substNodes σ ns) ρ')
  | [], _, _, _, hrel, _, _, _ => by simpa [substNodes, evalNodes] using hrel
  | n :: ns, σ, ρ, ρ', hrel, hok, hP, hc => by
    simp only [closedNodes, Bool.and_eq_true] at hc
    simp only [substNodes, evalNodes]
    refine substNodes_sound I P ns σ _ _ ?_
      (hok.mono (fun v hv => by simp only [defsNodes, List.mem_append]; exact Or.inr hv))
      (fun v hv => hP v (by simp only [refsNodes, List.mem_append]; exact Or.inr hv)) hc.2
    exact substN_sound I P n σ ρ ρ' hrel
      (hok.mono (fun v hv => by simp only [defsNodes, List.mem_append]; exact Or.inl hv))
      (fun v hv => hP v (by simp only [refsNodes, List.mem_append]; exact Or.inl hv)) hc.1
theorem substN_sound (I : Interp Val) (P : VId → Prop) : ∀ (n : Node) (σ : Subst) (ρ ρ' : Env Val),
    RelOn P σ ρ ρ' → SubstOK σ (defsN n) → (∀ v ∈ refsN n, P v) → closedN n = true →
    RelOn P σ (evalN I n ρ) (evalN I (substN σ n) ρ')
  | .mk op attrs ins outs bodies, σ, ρ, ρ', hrel, hok, hP, hc => by
    simp only [closedN] at hc
    simp only [substN, evalN]
    rw [hrel.args ins (fun v hv => hP v (by simp only [refsN, List.mem_append]; exact Or.inl hv)),
      substBodies_sound I P bodies σ ρ ρ' hrel
        (hok.mono (fun v hv => by simp only [defsN, List.mem_append]; exact Or.inr hv))
        (fun v hv => hP v (by simp only [refsN, List.mem_append]; exact Or.inr hv)) hc]
    exact RelOn.bind hrel (hok.mono (fun v hv => by simp only [defsN, List.mem_append]; exact Or.inl hv)) _
theorem substBodies_sound (I : Interp Val) (P : VId → Prop) : ∀ (bs : List Graph) (σ : Subst) (ρ ρ' : Env Val),
    RelOn P σ ρ ρ' → SubstOK σ (defsBodies bs) → (∀ v ∈ refsBodies bs, P v) → closedBodies bs = true →
    evalBodies I bs ρ = evalBodies I (substBodies σ bs) ρ'
  | [], _, _, _, _, _, _, _ => by simp [substBodies, evalBodies]
  | b :: bs, σ, ρ, ρ', hrel, hok, hP, hc => by
    simp only [closedBodies, Bool.and_eq_true] at hc
    simp only [substBodies, evalBodies]
    rw [substG_sound I P b σ ρ ρ' hrel
          (hok.mono (fun v hv => by simp only [defsBodies, List.mem_append]; exact Or.inl hv))
          (fun v hv => hP v (by simp only [refsBodies, List.mem_append]; exact Or.inl hv)) hc.1,
        substBodies_sound I P bs σ ρ ρ' hrel
          (hok.mono (fun v hv => by simp only [defsBodies, List.mem_append]; exact Or.inr hv))
          (fun v hv => hP v (by simp only [refsBodies, List.mem_append]; exact Or.inr hv)) hc.2]
end

end IrVerif.Passes

/-
Structural invariants of `deserGraph` / `deserNodes` / `deserNode` / `deserSubs`:
freshness of the unallocated part of the store, table invariants, monotone counters, and the frame
"cells allocated before a (sub)graph started keep every link field except `uses`".
-/
import IrVerif.Lemmas.ScopeLinks
namespace IrVerif.Scope

/-- counters grow; cells below `b` keep producer, index, owner and flags -/
structure Mono (b : Nat) (st st' : Store) : Prop where
  nv_le : st.nv ≤ st'.nv
  nn_le : st.nn ≤ st'.nn
  ng_le : st.ng ≤ st'.ng
  keep : ∀ v, v < b → (linksOf (st'.vals v)).2 = (linksOf (st.vals v)).2
  names : ∀ v, v < st.nv → (st'.vals v).name = (st.vals v).name

theorem Mono.refl (b : Nat) (st : Store) : Mono b st st :=
  ⟨Nat.le_refl _, Nat.le_refl _, Nat.le_refl _, fun _ _ => rfl, fun _ _ => rfl⟩

theorem Mono.trans {b : Nat} {s1 s2 s3 : Store} (h1 : Mono b s1 s2) (h2 : Mono b s2 s3) : Mono b s1 s3 :=
  ⟨Nat.le_trans h1.nv_le h2.nv_le, Nat.le_trans h1.nn_le h2.nn_le, Nat.le_trans h1.ng_le h2.ng_le,
    fun v hv => by rw [h2.keep v hv, h1.keep v hv],
    fun v hv => by rw [h2.names v (Nat.lt_of_lt_of_le hv h1.nv_le), h1.names v hv]⟩

theorem Mono.weaken {b b' : Nat} {s1 s2 : Store} (h : Mono b s1 s2) (hb : b' ≤ b) : Mono b' s1 s2 :=
  ⟨h.nv_le, h.nn_le, h.ng_le, fun v hv => h.keep v (Nat.lt_of_lt_of_le hv hb), h.names⟩

theorem Quiet.mono {st st' : Store} (q : Quiet st st') (hf : Fresh st) (b : Nat) : Mono b st st' :=
  ⟨q.nv_le, by rw [q.nn_eq]; exact Nat.le_refl _, by rw [q.ng_eq]; exact Nat.le_refl _,
    fun v _ => by rw [q.links hf v], q.names⟩

/-! ### mkNode -/

theorem mkNode_fresh (st : Store) (ins : List (Option Nat)) (outs : List Nat) (gs : List GraphT)
    (hf : Fresh st) (hi : ∀ v, some v ∈ ins → v < st.nv) (ho : ∀ v ∈ outs, v < st.nv) :
    Fresh (mkNode st ins outs gs).1 := by
  intro v hv
  rw [mkNode_fst_nv] at hv
  rw [mkNode_vals]
  have h1 : v ∉ outs := fun h => by have := ho v h; omega
  rw [setProducers_not_mem _ _ _ _ _ h1, hf v hv]
  have h2 : slotsOf v st.nn 0 ins = [] := by
    have key : ∀ (ins : List (Option Nat)) (i : Nat), (∀ w, some w ∈ ins → w < st.nv) →
        slotsOf v st.nn i ins = [] := by
      intro ins
      induction ins with
      | nil => intro i _; rfl
      | cons a r ih =>
        intro i h
        cases a with
        | none => simp only [slotsOf]; exact ih _ (fun w hw => h w (by simp [hw]))
        | some w =>
          have hw := h w (by simp)
          have : w ≠ v := by omega
          simp only [slotsOf, this, if_false]
          exact ih _ (fun w hw => h w (by simp [hw]))
    exact key ins 0 hi
  simp [h2]

theorem mkNode_mono (st : Store) (ins : List (Option Nat)) (outs : List Nat) (gs : List GraphT) (b : Nat)
    (ho : ∀ v ∈ outs, b ≤ v) : Mono b st (mkNode st ins outs gs).1 := by
  refine ⟨by rw [mkNode_fst_nv]; exact Nat.le_refl _, by rw [mkNode_fst_nn]; omega,
    by rw [mkNode_fst_ng]; exact Nat.le_refl _, ?_, fun v _ => (mkNode_keeps st ins outs gs v).1⟩
  intro v hv
  rw [mkNode_vals]
  have h1 : v ∉ outs := fun h => by have := ho v h; omega
  rw [setProducers_not_mem _ _ _ _ _ h1]
  rfl

/-! ### mkGraph -/

theorem dictInsert_vals (d : List (Name × Nat)) (k : Name) (v : Nat) :
    ∀ e ∈ dictInsert d k v, e ∈ d ∨ e.2 = v := by
  induction d with
  | nil => intro e he; simp [dictInsert] at he; exact .inr (by simp [he])
  | cons a r ih =>
    obtain ⟨k', v'⟩ := a
    intro e he
    simp only [dictInsert] at he
    split at he
    · simp only [List.mem_cons] at he
      rcases he with rfl | he
      · exact .inr rfl
      · exact .inl (by simp [he])
    · simp only [List.mem_cons] at he
      rcases he with rfl | he
      · exact .inl (by simp)
      · rcases ih e he with h | h
        · exact .inl (by simp [h])
        · exact .inr h

theorem initDict_vals (st : Store) (vs : List Nat) :
    ∀ (d : List (Name × Nat)), ∀ e ∈ initDict st d vs, e ∈ d ∨ e.2 ∈ vs := by
  induction vs with
  | nil => intro d e he; exact .inl he
  | cons a r ih =>
    intro d e he
    simp only [initDict] at he
    rcases ih _ e he with h | h
    · rcases dictInsert_vals _ _ _ e h with h | h
      · exact .inl h
      · exact .inr (by simp [h])
    · exact .inr (by simp [h])

def setIn (c : ValueS) : ValueS := { c with isIn := true }
def setOut (c : ValueS) : ValueS := { c with isOut := true }
def setInit (c : ValueS) : ValueS := { c with isInit := true }

theorem mkGraph_fst_counters (st : Store) (ins outs : List Nat) (ns : List NodeT) (iv : List Nat) :
    (mkGraph st ins outs ns iv).1.nv = st.nv ∧ (mkGraph st ins outs ns iv).1.nn = st.nn ∧
    (mkGraph st ins outs ns iv).1.ng = st.ng + 1 := by
  simp only [mkGraph]
  have h1 := setOwner_counters st st.ng (fun c => { c with isIn := true }) ins
  have h2 := setOwner_counters (setOwner st st.ng (fun c => { c with isIn := true }) ins) st.ng
    (fun c => { c with isOut := true }) outs
  have h3 := setOwner_counters (setOwner (setOwner st st.ng (fun c => { c with isIn := true }) ins) st.ng
    (fun c => { c with isOut := true }) outs) st.ng (fun c => { c with isInit := true })
    ((initDict (setOwner (setOwner st st.ng (fun c => { c with isIn := true }) ins) st.ng
      (fun c => { c with isOut := true }) outs) [] iv).map (·.2))
  refine ⟨?_, ?_, trivial⟩
  · show (setOwner _ _ _ _).nv = _
    rw [h3.1, h2.1, h1.1]
  · show (setOwner _ _ _ _).nn = _
    rw [h3.2.1, h2.2.1, h1.2.1]

/-- a cell that is none of the graph's inputs, outputs, initializer values is untouched by `mkGraph` -/
theorem mkGraph_not_mem (st : Store) (ins outs : List Nat) (ns : List NodeT) (iv : List Nat) (v : Nat)
    (h1 : v ∉ ins) (h2 : v ∉ outs) (h3 : v ∉ iv) : (mkGraph st ins outs ns iv).1.vals v = st.vals v := by
  simp only [mkGraph]
  show (setOwner _ _ _ _).vals v = _
  rw [setOwner_not_mem, setOwner_not_mem _ _ _ _ _ h2, setOwner_not_mem _ _ _ _ _ h1]
  intro hm
  simp only [List.mem_map] at hm
  obtain ⟨e, he, rfl⟩ := hm
  rcases initDict_vals _ _ _ e he with h | h
  · simp at h
  · exact h3 h

theorem mkGraph_fresh (st : Store) (ins outs : List Nat) (ns : List NodeT) (iv : List Nat) (hf : Fresh st)
    (h1 : ∀ v ∈ ins, v < st.nv) (h2 : ∀ v ∈ outs, v < st.nv) (h3 : ∀ v ∈ iv, v < st.nv) :
    Fresh (mkGraph st ins outs ns iv).1 := by
  intro v hv
  rw [(mkGraph_fst_counters st ins outs ns iv).1] at hv
  rw [mkGraph_not_mem _ _ _ _ _ _ (fun h => by have := h1 v h; omega) (fun h => by have := h2 v h; omega)
    (fun h => by have := h3 v h; omega)]
  exact hf v hv

theorem mkGraph_mono (st : Store) (ins outs : List Nat) (ns : List NodeT) (iv : List Nat) (b : Nat)
    (h1 : ∀ v ∈ ins, b ≤ v) (h2 : ∀ v ∈ outs, b ≤ v) (h3 : ∀ v ∈ iv, b ≤ v) :
    Mono b st (mkGraph st ins outs ns iv).1 := by
  obtain ⟨c1, c2, c3⟩ := mkGraph_fst_counters st ins outs ns iv
  refine ⟨by rw [c1]; exact Nat.le_refl _, by rw [c2]; exact Nat.le_refl _, by rw [c3]; omega, ?_, ?_⟩
  rotate_left
  · intro v _
    show ((setOwner _ _ _ _).vals v).name = _
    exact (setOwner_name _ _ (fun c => { c with isInit := true }) (fun _ => rfl) _ _).trans
      ((setOwner_name _ _ (fun c => { c with isOut := true }) (fun _ => rfl) _ _).trans
        (setOwner_name _ _ (fun c => { c with isIn := true }) (fun _ => rfl) _ _))
  intro v hv
  rw [mkGraph_not_mem _ _ _ _ _ _ (fun h => by have := h1 v h; omega) (fun h => by have := h2 v h; omega)
    (fun h => by have := h3 v h; omega)]

/-! ### inversion of the four mutually recursive functions -/

theorem deserGraph_inv {st : Store} {outer : List Table} {inputs : List VInfoP} {inits : List TensorP}
    {vinfo : List VInfoP} {nodes : List NodeP} {outputs : List VInfoP} {st' : Store} {g : GraphT}
    (h : deserGraph st outer (.mk inputs inits vinfo nodes outputs) = .ok (st', g)) :
    ∃ st3 tbl3 st4 tbl4 ns,
      declareNodes (deserInits (deserInputs st inputs).1 (inputTable inputs (deserInputs st inputs).2)
          (vinfoTable vinfo) inits).1
        (deserInits (deserInputs st inputs).1 (inputTable inputs (deserInputs st inputs).2)
          (vinfoTable vinfo) inits).2.1 (vinfoTable vinfo) nodes = .ok (st3, tbl3) ∧
      deserNodes st3 tbl3 outer (vinfoTable vinfo) nodes = .ok (st4, tbl4, ns) ∧
      mkGraph (deserOutputs st4 tbl4 outputs).1 (deserInputs st inputs).2 (deserOutputs st4 tbl4 outputs).2 ns
        (deserInits (deserInputs st inputs).1 (inputTable inputs (deserInputs st inputs).2)
          (vinfoTable vinfo) inits).2.2 = (st', g) := by
  simp only [deserGraph] at h
  split at h
  · simp at h
  · rename_i st3 tbl3 h3
    split at h
    · simp at h
    · rename_i st4 tbl4 ns h4
      simp only [Except.ok.injEq] at h
      exact ⟨st3, tbl3, st4, tbl4, ns, h3, h4, h⟩

theorem deserNodes_inv {st : Store} {top : Table} {outer : List Table} {vi : List (Name × Info)}
    {n : NodeP} {ns : List NodeP} {st' : Store} {top' : Table} {nts : List NodeT}
    (h : deserNodes st top outer vi (n :: ns) = .ok (st', top', nts)) :
    ∃ st1 top1 nt nts', deserNode st top outer vi n = .ok (st1, top1, nt) ∧
      deserNodes st1 top1 outer vi ns = .ok (st', top', nts') ∧ nts = nt :: nts' := by
  simp only [deserNodes] at h
  split at h
  · simp at h
  · rename_i st1 top1 nt h1
    split at h
    · simp at h
    · rename_i st2 top2 nts' h2
      simp only [Except.ok.injEq, Prod.mk.injEq] at h
      obtain ⟨rfl, rfl, rfl⟩ := h
      exact ⟨st1, top1, nt, nts', h1, h2, rfl⟩

theorem deserNode_inv {st : Store} {top : Table} {outer : List Table} {vi : List (Name × Info)}
    {inputs outputs : List Name} {subs : List GraphP} {st' : Store} {top' : Table} {nt : NodeT}
    (h : deserNode st top outer vi (.mk inputs outputs subs) = .ok (st', top', nt)) :
    ∃ st2 outs st3 gs,
      lookupOutputs (resolveInputs st top outer vi inputs).1 (resolveInputs st top outer vi inputs).2.1 outputs
        = .ok (st2, outs) ∧
      deserSubs st2 ((resolveInputs st top outer vi inputs).2.1 :: outer) subs = .ok (st3, gs) ∧
      st' = (mkNode st3 (resolveInputs st top outer vi inputs).2.2 outs gs).1 ∧
      top' = (resolveInputs st top outer vi inputs).2.1 ∧
      nt = (mkNode st3 (resolveInputs st top outer vi inputs).2.2 outs gs).2 := by
  simp only [deserNode] at h
  split at h
  · simp at h
  · rename_i st2 outs h2
    split at h
    · simp at h
    · rename_i st3 gs h3
      simp only [Except.ok.injEq, Prod.mk.injEq] at h
      obtain ⟨rfl, rfl, rfl⟩ := h
      exact ⟨st2, outs, st3, gs, h2, h3, rfl, rfl, rfl⟩

theorem deserSubs_inv {st : Store} {scopes : List Table} {g : GraphP} {gs : List GraphP} {st' : Store}
    {gts : List GraphT} (h : deserSubs st scopes (g :: gs) = .ok (st', gts)) :
    ∃ st1 gt gts', deserGraph st scopes g = .ok (st1, gt) ∧ deserSubs st1 scopes gs = .ok (st', gts') ∧
      gts = gt :: gts' := by
  simp only [deserSubs] at h
  split at h
  · simp at h
  · rename_i st1 gt h1
    split at h
    · simp at h
    · rename_i st2 gts' h2
      simp only [Except.ok.injEq, Prod.mk.injEq] at h
      obtain ⟨rfl, rfl⟩ := h
      exact ⟨st1, gt, gts', h1, h2, rfl⟩

/-! ### the structural invariant -/

theorem TablesLt.cons {st : Store} {t : Table} {ts : List Table} (h1 : TableLt st t) (h2 : TablesLt st ts) :
    TablesLt st (t :: ts) := by
  intro t' ht'
  simp only [List.mem_cons] at ht'
  rcases ht' with rfl | ht'
  · exact h1
  · exact h2 t' ht'

mutual
theorem deserGraph_struct :
    ∀ (p : GraphP) (st : Store) (outer : List Table) (st' : Store) (g : GraphT),
      Fresh st → TablesLt st outer → deserGraph st outer p = .ok (st', g) →
      Fresh st' ∧ Mono st.nv st st'
  | .mk inputs inits vinfo nodes outputs, st, outer, st', g, hf, ho, h => by
    obtain ⟨st3, tbl3, st4, tbl4, ns, h3, h4, h5⟩ := deserGraph_inv h
    obtain ⟨q1, hnv1, hins⟩ := deserInputs_spec st inputs
    have ok1 := inputTable_ok st inputs
    have f1 := q1.fresh hf
    obtain ⟨q2, ok2, _, miv⟩ := deserInits_spec (vinfoTable vinfo) inits _ _ st.nv ok1 q1.nv_le
    have f2 := q2.fresh f1
    have le2 : st.nv ≤ (deserInits (deserInputs st inputs).1 (inputTable inputs (deserInputs st inputs).2)
        (vinfoTable vinfo) inits).1.nv := Nat.le_trans q1.nv_le q2.nv_le
    obtain ⟨q3, ok3, _, _, _⟩ := declareNodes_spec (vinfoTable vinfo) nodes _ _ st.nv st3 tbl3 ok2 le2 h3
    have f3 := q3.fresh f2
    have le3 : st.nv ≤ st3.nv := Nat.le_trans le2 q3.nv_le
    obtain ⟨f4, m4, ok4, _⟩ := deserNodes_struct nodes st3 tbl3 outer (vinfoTable vinfo) st.nv st4 tbl4 ns f3 ok3
      (ho.mono le3) le3 h4
    obtain ⟨q5, mo⟩ := deserOutputs_spec tbl4 outputs st4 st.nv ok4
    have f5 := q5.fresh f4
    have le4 : st.nv ≤ st4.nv := Nat.le_trans le3 m4.nv_le
    -- bounds of the ids handed to `mkGraph`
    have bins : ∀ v ∈ (deserInputs st inputs).2, st.nv ≤ v ∧ v < (deserOutputs st4 tbl4 outputs).1.nv := by
      intro v hv
      rw [hins, List.mem_range'_1] at hv
      have := q5.nv_le
      have := m4.nv_le
      have := q3.nv_le
      have := q2.nv_le
      omega
    have bouts : ∀ v ∈ (deserOutputs st4 tbl4 outputs).2, st.nv ≤ v ∧ v < (deserOutputs st4 tbl4 outputs).1.nv := by
      intro v hv
      rcases mo v hv with ⟨x, hx⟩ | ⟨h1, h2⟩
      · exact ⟨ok4.ge _ hx, Nat.lt_of_lt_of_le (ok4.lt _ hx) q5.nv_le⟩
      · exact ⟨Nat.le_trans le4 h1, h2⟩
    have biv : ∀ v ∈ (deserInits (deserInputs st inputs).1 (inputTable inputs (deserInputs st inputs).2)
        (vinfoTable vinfo) inits).2.2, st.nv ≤ v ∧ v < (deserOutputs st4 tbl4 outputs).1.nv := by
      intro v hv
      obtain ⟨x, _, hx⟩ := miv v hv
      refine ⟨ok2.ge _ hx, ?_⟩
      have := ok2.lt _ hx
      have := q5.nv_le
      have := m4.nv_le
      have := q3.nv_le
      omega
    have hst' : st' = (mkGraph (deserOutputs st4 tbl4 outputs).1 (deserInputs st inputs).2
        (deserOutputs st4 tbl4 outputs).2 ns (deserInits (deserInputs st inputs).1
          (inputTable inputs (deserInputs st inputs).2) (vinfoTable vinfo) inits).2.2).1 := by rw [h5]
    subst hst'
    refine ⟨mkGraph_fresh _ _ _ _ _ f5 (fun v hv => (bins v hv).2) (fun v hv => (bouts v hv).2)
      (fun v hv => (biv v hv).2), ?_⟩
    have mg := mkGraph_mono (deserOutputs st4 tbl4 outputs).1 (deserInputs st inputs).2
      (deserOutputs st4 tbl4 outputs).2 ns (deserInits (deserInputs st inputs).1
        (inputTable inputs (deserInputs st inputs).2) (vinfoTable vinfo) inits).2.2 st.nv
      (fun v hv => (bins v hv).1) (fun v hv => (bouts v hv).1) (fun v hv => (biv v hv).1)
    exact ((((q1.mono hf st.nv).trans (q2.mono f1 st.nv)).trans (q3.mono f2 st.nv)).trans m4).trans
      ((q5.mono f4 st.nv).trans mg)
theorem deserNodes_struct :
    ∀ (ns : List NodeP) (st : Store) (top : Table) (outer : List Table) (vi : List (Name × Info)) (b : Nat)
      (st' : Store) (top' : Table) (nts : List NodeT),
      Fresh st → TblOK st b top → TablesLt st outer → b ≤ st.nv →
      deserNodes st top outer vi ns = .ok (st', top', nts) →
      Fresh st' ∧ Mono b st st' ∧ TblOK st' b top' ∧ Stable st.nv top top'
  | [], st, top, outer, vi, b, st', top', nts, hf, hok, _, _, h => by
    simp only [deserNodes, Except.ok.injEq, Prod.mk.injEq] at h
    obtain ⟨rfl, rfl, rfl⟩ := h
    exact ⟨hf, Mono.refl _ _, hok, Stable.refl _ _⟩
  | n :: ns, st, top, outer, vi, b, st', top', nts, hf, hok, ho, hb, h => by
    obtain ⟨st1, top1, nt, nts', h1, h2, _⟩ := deserNodes_inv h
    obtain ⟨f1, m1, ok1, s1⟩ := deserNode_struct n st top outer vi b st1 top1 nt hf hok ho hb h1
    obtain ⟨f2, m2, ok2, s2⟩ := deserNodes_struct ns st1 top1 outer vi b st' top' nts' f1 ok1
      (ho.mono m1.nv_le) (Nat.le_trans hb m1.nv_le) h2
    exact ⟨f2, m1.trans m2, ok2, s1.trans (s2.weaken m1.nv_le)⟩
theorem deserNode_struct :
    ∀ (n : NodeP) (st : Store) (top : Table) (outer : List Table) (vi : List (Name × Info)) (b : Nat)
      (st' : Store) (top' : Table) (nt : NodeT),
      Fresh st → TblOK st b top → TablesLt st outer → b ≤ st.nv →
      deserNode st top outer vi n = .ok (st', top', nt) →
      Fresh st' ∧ Mono b st st' ∧ TblOK st' b top' ∧ Stable st.nv top top'
  | .mk inputs outputs subs, st, top, outer, vi, b, st', top', nt, hf, hok, ho, hb, h => by
    obtain ⟨st2, outs, st3, gs, h2, h3, rfl, rfl, _⟩ := deserNode_inv h
    obtain ⟨q1, ok1, s1, mi⟩ := resolveInputs_spec outer vi inputs st top b hok ho hb
    have f1 := q1.fresh hf
    obtain ⟨q2, _, mo, _, _⟩ := lookupOutputs_spec _ outputs _ _ _ h2
    have f2 := q2.fresh f1
    have le1 : b ≤ (resolveInputs st top outer vi inputs).1.nv := Nat.le_trans hb q1.nv_le
    have le2 : b ≤ st2.nv := Nat.le_trans le1 q2.nv_le
    have hts : TablesLt st2 ((resolveInputs st top outer vi inputs).2.1 :: outer) :=
      TablesLt.cons (ok1.lt.mono q2.nv_le) (ho.mono (Nat.le_trans q1.nv_le q2.nv_le))
    obtain ⟨f3, m3⟩ := deserSubs_struct subs st2 _ st3 gs f2 hts h3
    have bouts : ∀ v ∈ outs, b ≤ v ∧ v < st3.nv := by
      intro v hv
      rcases mo v hv with ⟨y, _, _, hl⟩ | ⟨h1, h2'⟩
      · have hm := lookup_mem _ _ _ hl
        refine ⟨ok1.ge _ hm, ?_⟩
        have := ok1.lt _ hm
        have := q2.nv_le
        have := m3.nv_le
        omega
      · exact ⟨Nat.le_trans le1 h1, Nat.lt_of_lt_of_le h2' m3.nv_le⟩
    have bins : ∀ v, some v ∈ (resolveInputs st top outer vi inputs).2.2 → v < st3.nv := by
      intro v hv
      have := mi v hv
      have := q2.nv_le
      have := m3.nv_le
      omega
    refine ⟨mkNode_fresh _ _ _ _ f3 bins (fun v hv => (bouts v hv).2), ?_, ?_, s1⟩
    · exact (((q1.mono hf b).trans (q2.mono f1 b)).trans (m3.weaken le2)).trans
        (mkNode_mono _ _ _ _ b (fun v hv => (bouts v hv).1))
    · refine ok1.mono ?_
      rw [mkNode_fst_nv]
      exact Nat.le_trans q2.nv_le m3.nv_le
theorem deserSubs_struct :
    ∀ (gs : List GraphP) (st : Store) (scopes : List Table) (st' : Store) (gts : List GraphT),
      Fresh st → TablesLt st scopes → deserSubs st scopes gs = .ok (st', gts) →
      Fresh st' ∧ Mono st.nv st st'
  | [], st, scopes, st', gts, hf, _, h => by
    simp only [deserSubs, Except.ok.injEq, Prod.mk.injEq] at h
    obtain ⟨rfl, rfl⟩ := h
    exact ⟨hf, Mono.refl _ _⟩
  | g :: gs, st, scopes, st', gts, hf, hs, h => by
    obtain ⟨st1, gt, gts', h1, h2, _⟩ := deserSubs_inv h
    obtain ⟨f1, m1⟩ := deserGraph_struct g st scopes st1 gt hf hs h1
    obtain ⟨f2, m2⟩ := deserSubs_struct gs st1 scopes st' gts' f1 (hs.mono m1.nv_le) h2
    exact ⟨f2, m1.trans (m2.weaken m1.nv_le)⟩
end

end IrVerif.Scope

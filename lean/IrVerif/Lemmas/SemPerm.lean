/-
Lemmas/SemPerm.lean — independence of the node order: for an SSA node list in which no node reads a
value bound by itself or later, the environment after evaluation is the unique solution of the
dataflow equations, so any two such orders of the same nodes denote the same function
(TopologicalSortPass as a permutation).
-/
import IrVerif.Model.Passes
import IrVerif.Lemmas.SemSyntax
namespace IrVerif.Passes
open IrVerif.Sem
variable {Val : Type}

/-- the outputs a node binds depend only on the values it reads -/
theorem evalN_outs_congr (I : Interp Val) : ∀ (n : Node) (F G : Env Val),
    (∀ u ∈ refsN n, F u = G u) → ∀ v ∈ n.outs, evalN I n F v = evalN I n G v
  | .mk op attrs ins outs bodies, F, G, h, v, hv => by
    simp only [Node.outs] at hv
    simp only [evalN]
    rw [Env.bind_of_mem _ _ hv, Env.bind_of_mem _ _ hv]
    have ha : evalArgs F (trimNone ins) = evalArgs G (trimNone ins) :=
      evalArgs_congr (S := (· ∈ refsN (.mk op attrs ins outs bodies))) (fun u hu => h u hu) _
        (fun u hu => by
          simp only [refsN, List.mem_append]; left
          simp only [List.mem_filterMap, id] at hu ⊢
          obtain ⟨a, ha, rfl⟩ := hu
          exact ⟨_, mem_of_mem_trimNone ha, rfl⟩)
    have hb : evalBodies I bodies F = evalBodies I bodies G :=
      evalBodies_congr I bodies F G (fun u hu => h u (by simp only [refsN, List.mem_append]; exact Or.inr hu))
    rw [ha, hb]

theorem evalN_not_outs (I : Interp Val) (n : Node) (ρ : Env Val) (v : VId) (hv : v ∉ n.outs) :
    evalN I n ρ v = ρ v := by
  cases n with
  | mk op attrs ins outs bodies =>
    simp only [Node.outs] at hv
    simp only [evalN]
    exact Env.bind_of_not_mem _ _ hv

theorem evalNodes_not_outs (I : Interp Val) : ∀ (ns : List Node) (ρ : Env Val) (v : VId),
    v ∉ outsTop ns → evalNodes I ns ρ v = ρ v
  | [], _, _, _ => by simp [evalNodes]
  | n :: ns, ρ, v, hv => by
    simp only [outsTop, List.mem_append, not_or] at hv
    simp only [evalNodes]
    rw [evalNodes_not_outs I ns _ v hv.2, evalN_not_outs I n ρ v hv.1]

/-- what the order-independence argument needs of a node list: distinct outputs, and no node reads
    (directly or inside its bodies) an output of itself or of a later node -/
def OrderOK : List Node → Prop
  | [] => True
  | n :: ns => (∀ v ∈ n.outs, v ∉ outsTop ns) ∧ (∀ u ∈ refsN n, u ∉ n.outs ∧ u ∉ outsTop ns) ∧ OrderOK ns

theorem orderOK_of_valid : ∀ ns : List Node, ssaNodes ns = true → noFwdNodes ns = true → OrderOK ns
  | [], _, _ => trivial
  | .mk op attrs ins outs bodies :: ns, hs, hf => by
    simp only [ssaNodes, ssaN, Bool.and_eq_true, disj_iff] at hs
    simp only [noFwdNodes, noFwdN, Bool.and_eq_true, disj_iff, Node.ins, Node.bodies, Node.outs] at hf
    obtain ⟨⟨⟨_, _⟩, hdn⟩, hsn⟩ := hs
    obtain ⟨⟨⟨hfw, hfr⟩, _⟩, hfn⟩ := hf
    refine ⟨fun v hv h => hdn v (by simp [defsN, Node.outs] at hv ⊢; exact Or.inl hv)
      (outsTop_sub_defsNodes ns h), ?_, orderOK_of_valid ns hsn hfn⟩
    intro u hu
    simp only [refsN, List.mem_append] at hu
    simp only [Node.outs]
    rcases hu with hu | hu
    · have := hfw u hu
      simp only [defsNodes, defsN, List.mem_append, not_or] at this
      exact ⟨this.1.1, fun h => this.2 (outsTop_sub_defsNodes ns h)⟩
    · have := hfr u hu
      simp only [List.mem_append, not_or] at this
      exact ⟨this.1, fun h => this.2 (outsTop_sub_defsNodes ns h)⟩

/-- Lemma A: the final environment solves every node's equation -/
theorem evalNodes_fix (I : Interp Val) : ∀ (ns : List Node) (ρ : Env Val), OrderOK ns →
    ∀ n ∈ ns, ∀ v ∈ n.outs, evalNodes I ns ρ v = evalN I n (evalNodes I ns ρ) v
  | [], _, _, n, hn, _, _ => by simp at hn
  | m :: ns, ρ, hok, n, hn, v, hv => by
    obtain ⟨hout, href, hrest⟩ := hok
    simp only [evalNodes]
    rcases List.mem_cons.1 hn with hn | hn
    · subst hn
      rw [evalNodes_not_outs I ns _ v (hout v hv)]
      refine evalN_outs_congr I n _ _ (fun u hu => ?_) v hv
      rw [evalNodes_not_outs I ns _ u (href u hu).2, evalN_not_outs I n ρ u (href u hu).1]
    · exact evalNodes_fix I ns _ hrest n hn v hv

/-- Lemma B: a solution of the equations that agrees with ρ elsewhere is the final environment -/
theorem evalNodes_unique (I : Interp Val) : ∀ (ns : List Node) (ρ F : Env Val), OrderOK ns →
    (∀ n ∈ ns, ∀ v ∈ n.outs, F v = evalN I n F v) → (∀ v, v ∉ outsTop ns → F v = ρ v) →
    ∀ v, F v = evalNodes I ns ρ v
  | [], ρ, F, _, _, h2, v => by simpa [evalNodes] using h2 v (by simp [outsTop])
  | n :: ns, ρ, F, hok, h1, h2, v => by
    obtain ⟨hout, href, hrest⟩ := hok
    simp only [evalNodes]
    refine evalNodes_unique I ns _ F hrest (fun m hm => h1 m (List.mem_cons_of_mem _ hm)) ?_ v
    intro w hw
    by_cases hwn : w ∈ n.outs
    · rw [h1 n List.mem_cons_self w hwn]
      refine evalN_outs_congr I n _ _ (fun u hu => ?_) w hwn
      exact h2 u (by simp only [outsTop, List.mem_append, not_or]; exact href u hu)
    · rw [evalN_not_outs I n ρ w hwn]
      exact h2 w (by simp only [outsTop, List.mem_append, not_or]; exact ⟨hwn, hw⟩)

theorem ssaNodes_mem : ∀ {ns : List Node} {n : Node}, ssaNodes ns = true → n ∈ ns → ssaN n = true
  | [], _, _, h => by simp at h
  | m :: ns, n, hs, h => by
    simp only [ssaNodes, Bool.and_eq_true] at hs
    rcases List.mem_cons.1 h with h | h
    · rw [h]; exact hs.1.1
    · exact ssaNodes_mem hs.2 h

theorem noFwdNodes_mem : ∀ {ns : List Node} {n : Node}, noFwdNodes ns = true → n ∈ ns → noFwdN n = true
  | [], _, _, h => by simp at h
  | m :: ns, n, hs, h => by
    simp only [noFwdNodes, Bool.and_eq_true] at hs
    rcases List.mem_cons.1 h with h | h
    · rw [h]; exact hs.1.2
    · exact noFwdNodes_mem hs.2 h

theorem ssaBodies_mem : ∀ {bs : List Graph} {b : Graph}, ssaBodies bs = true → b ∈ bs → ssaG b = true
  | [], _, _, h => by simp at h
  | c :: bs, b, hs, h => by
    simp only [ssaBodies, Bool.and_eq_true] at hs
    rcases List.mem_cons.1 h with h | h
    · rw [h]; exact hs.1.1
    · exact ssaBodies_mem hs.2 h

theorem noFwdBodies_mem : ∀ {bs : List Graph} {b : Graph}, noFwdBodies bs = true → b ∈ bs → noFwdG b = true
  | [], _, _, h => by simp at h
  | c :: bs, b, hs, h => by
    simp only [noFwdBodies, Bool.and_eq_true] at hs
    rcases List.mem_cons.1 h with h | h
    · rw [h]; exact hs.1
    · exact noFwdBodies_mem hs.2 h

/-- sub-structures of a node are valid when the node is -/
def NodeOK (n : Node) : Prop := ssaN n = true ∧ noFwdN n = true
def GraphOK (g : Graph) : Prop := ssaG g = true ∧ noFwdG g = true

/-- two orders of "the same" nodes give the same environment -/
theorem reorder_nodes_eval (I : Interp Val) (ns ns' : List Node) (hok : OrderOK ns) (hok' : OrderOK ns')
    (hmatch : ∀ n ∈ ns, ∃ n' ∈ ns', n'.outs = n.outs ∧ ∀ ρ : Env Val, evalN I n ρ = evalN I n' ρ)
    (houts : ∀ v ∈ outsTop ns', v ∈ outsTop ns) (ρ : Env Val) (v : VId) :
    evalNodes I ns ρ v = evalNodes I ns' ρ v := by
  symm
  refine evalNodes_unique I ns ρ (evalNodes I ns' ρ) hok ?_ ?_ v
  · intro n hn w hw
    obtain ⟨n', hn', ho, he⟩ := hmatch n hn
    rw [he]
    exact evalNodes_fix I ns' ρ hok' n' hn' w (by rw [ho]; exact hw)
  · intro w hw
    exact evalNodes_not_outs I ns' ρ w (fun h => hw (houts w h))

theorem outsTop_eraseIdx {v : VId} : ∀ (ns : List Node) (k : Nat) (n' : Node), ns[k]? = some n' →
    v ∈ outsTop ns → v ∈ n'.outs ∨ v ∈ outsTop (ns.eraseIdx k)
  | [], _, _, h, _ => by simp at h
  | m :: ns, 0, n', h, hv => by
    simp only [List.getElem?_cons_zero, Option.some.injEq] at h
    subst h
    simpa [outsTop] using hv
  | m :: ns, k + 1, n', h, hv => by
    simp only [List.getElem?_cons_succ] at h
    simp only [outsTop, List.mem_append, List.eraseIdx_cons_succ] at hv ⊢
    rcases hv with hv | hv
    · exact Or.inr (Or.inl hv)
    · exact (outsTop_eraseIdx ns k n' h hv).imp id Or.inr

mutual
theorem reorderG_sound (I : Interp Val) : ∀ (g g' : Graph), reorderG g g' = true → GraphOK g → GraphOK g' →
    ∀ ρ : Env Val, evalG I g ρ = evalG I g' ρ
  | .mk inputs outputs inits nodes, g', h, hok, hok', ρ => by
    cases g' with
    | mk inputs' outputs' inits' nodes' =>
    simp only [reorderG, Graph.inputs, Graph.outputs, Graph.inits, Graph.nodes, Bool.and_eq_true,
      beq_iff_eq] at h
    obtain ⟨⟨⟨rfl, rfl⟩, rfl⟩, hn⟩ := h
    obtain ⟨hs, hf⟩ := hok
    obtain ⟨hs', hf'⟩ := hok'
    simp only [ssaG, Bool.and_eq_true] at hs hs'
    simp only [noFwdG] at hf hf'
    funext xs
    simp only [evalG]
    apply List.map_congr_left
    intro o _
    obtain ⟨hm, ho⟩ := reorderNodes_match I nodes nodes' hn
      (fun n hn => ⟨ssaNodes_mem hs.2 hn, noFwdNodes_mem hf hn⟩)
      (fun n hn => ⟨ssaNodes_mem hs'.2 hn, noFwdNodes_mem hf' hn⟩)
    exact reorder_nodes_eval I nodes nodes' (orderOK_of_valid nodes hs.2 hf)
      (orderOK_of_valid nodes' hs'.2 hf') hm ho _ o
theorem reorderNodes_match (I : Interp Val) : ∀ (ns ns' : List Node), reorderNodes ns ns' = true →
    (∀ n ∈ ns, NodeOK n) → (∀ n' ∈ ns', NodeOK n') →
    (∀ n ∈ ns, ∃ n' ∈ ns', n'.outs = n.outs ∧ ∀ ρ : Env Val, evalN I n ρ = evalN I n' ρ) ∧
    (∀ v ∈ outsTop ns', v ∈ outsTop ns)
  | [], ns', h, _, _ => by
    simp only [reorderNodes, List.isEmpty_iff] at h
    subst h
    simp [outsTop]
  | .mk op attrs ins outs bodies :: ns, ns', h, hok, hok' => by
    simp only [reorderNodes] at h
    split at h
    · rename_i k hk
      simp only [Bool.and_eq_true] at h
      obtain ⟨hhead, hrest⟩ := h
      split at hhead
      · rename_i n' hn'
        simp only [Bool.and_eq_true, beq_iff_eq] at hhead
        obtain ⟨⟨⟨hop, hattrs⟩, hins⟩, hbodies⟩ := hhead
        have hn'mem : n' ∈ ns' := List.mem_of_getElem? hn'
        have houts : n'.outs = outs := by
          have := List.findIdx?_eq_some_iff_getElem.1 hk
          obtain ⟨hlt, hp, _⟩ := this
          have h1 : ns'[k] = n' := by
            have := List.getElem?_eq_some_iff.1 hn'
            exact this.2
          rw [h1] at hp
          simpa using hp
        obtain ⟨hm, ho⟩ := reorderNodes_match I ns (ns'.eraseIdx k) hrest
          (fun n hn => hok n (List.mem_cons_of_mem _ hn))
          (fun n hn => hok' n (List.mem_of_mem_eraseIdx hn))
        have hokn := hok _ List.mem_cons_self
        have hokn' := hok' n' hn'mem
        cases n' with
        | mk op' attrs' ins' outs' bodies' =>
        simp only [Node.op, Node.attrs, Node.ins, Node.outs, Node.bodies] at hop hattrs hins houts hbodies
        subst hop hattrs hins houts
        have hb : ∀ ρ : Env Val, evalBodies I bodies ρ = evalBodies I bodies' ρ := by
          refine reorderBodies_sound I bodies bodies' hbodies ?_ ?_
          · intro b hb
            simp only [NodeOK, ssaN, noFwdN, Bool.and_eq_true] at hokn
            exact ⟨ssaBodies_mem hokn.1.2 hb, noFwdBodies_mem hokn.2 hb⟩
          · intro b hb
            simp only [NodeOK, ssaN, noFwdN, Bool.and_eq_true] at hokn'
            exact ⟨ssaBodies_mem hokn'.1.2 hb, noFwdBodies_mem hokn'.2 hb⟩
        refine ⟨?_, ?_⟩
        · intro n hn
          rcases List.mem_cons.1 hn with hn | hn
          · subst hn
            refine ⟨_, hn'mem, rfl, fun ρ => ?_⟩
            simp only [evalN, hb ρ]
          · obtain ⟨m', hm', h1, h2⟩ := hm n hn
            exact ⟨m', List.mem_of_mem_eraseIdx hm', h1, h2⟩
        · intro v hv
          simp only [outsTop, Node.outs, List.mem_append]
          rcases outsTop_eraseIdx ns' k _ hn' hv with h1 | h1
          · exact Or.inl (by simpa [Node.outs] using h1)
          · exact Or.inr (ho v h1)
      · simp at hhead
    · simp at h
theorem reorderBodies_sound (I : Interp Val) : ∀ (bs bs' : List Graph), reorderBodies bs bs' = true →
    (∀ b ∈ bs, GraphOK b) → (∀ b' ∈ bs', GraphOK b') → ∀ ρ : Env Val, evalBodies I bs ρ = evalBodies I bs' ρ
  | [], bs', h, _, _, ρ => by
    simp only [reorderBodies, List.isEmpty_iff] at h
    subst h; rfl
  | b :: bs, bs', h, hok, hok', ρ => by
    cases bs' with
    | nil => simp [reorderBodies] at h
    | cons b' rest =>
      simp only [reorderBodies, Bool.and_eq_true] at h
      simp only [evalBodies]
      rw [reorderG_sound I b b' h.1 (hok b List.mem_cons_self) (hok' b' List.mem_cons_self) ρ,
        reorderBodies_sound I bs rest h.2 (fun c hc => hok c (List.mem_cons_of_mem _ hc))
          (fun c hc => hok' c (List.mem_cons_of_mem _ hc)) ρ]
end

theorem reorderBodies_getElem? (I : Interp Val) : ∀ (bs bs' : List Graph), reorderBodies bs bs' = true →
    (∀ b ∈ bs, GraphOK b) → (∀ b' ∈ bs', GraphOK b') → ∀ (k : Nat) (ρ : Env Val),
    match bs[k]?, bs'[k]? with
    | some b, some b' => evalG I b ρ = evalG I b' ρ
    | none, none => True
    | _, _ => False
  | [], bs', h, _, _, k, _ => by
    simp only [reorderBodies, List.isEmpty_iff] at h
    subst h; simp
  | b :: bs, bs', h, hok, hok', k, ρ => by
    cases bs' with
    | nil => simp [reorderBodies] at h
    | cons b' rest =>
      simp only [reorderBodies, Bool.and_eq_true] at h
      cases k with
      | zero =>
        simp only [List.getElem?_cons_zero]
        exact reorderG_sound I b b' h.1 (hok b List.mem_cons_self) (hok' b' List.mem_cons_self) ρ
      | succ k =>
        simp only [List.getElem?_cons_succ]
        exact reorderBodies_getElem? I bs rest h.2 (fun c hc => hok c (List.mem_cons_of_mem _ hc))
          (fun c hc => hok' c (List.mem_cons_of_mem _ hc)) k ρ

end IrVerif.Passes

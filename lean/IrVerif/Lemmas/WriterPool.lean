/-
C09 helper development: pool accounting (`PInv`): idle + exited + running pool threads =
workers; the shutdown flag and the main thread's phase; waiters' predicates are false (`WInv`).
-/
import IrVerif.Lemmas.WriterLocks
namespace IrVerif.Writer

/-- a pool thread is working on this tensor -/
def act : Pc → Bool
  | .notStarted | .done _ => false
  | _ => true

def fAct (_ : Nat) (p : Pc) : Nat := if act p = true then 1 else 0

@[simp] theorem act_notStarted : act .notStarted = false := rfl
@[simp] theorem act_done (b : Bool) : act (.done b) = false := rfl
@[simp] theorem act_cbAcq : act .cbAcq = true := rfl
@[simp] theorem act_cbBody : act .cbBody = true := rfl
@[simp] theorem act_tAcq : act .tAcq = true := rfl
@[simp] theorem act_bAcq : act .bAcq = true := rfl
@[simp] theorem act_waiting : act .waiting = true := rfl
@[simp] theorem act_woken : act .woken = true := rfl
@[simp] theorem act_write : act .write = true := rfl
@[simp] theorem act_bRel (b : Bool) : act (.bRel b) = true := rfl

theorem act_wake (p : Pc) : act (wake p) = act p := by cases p <;> rfl

structure PInv (cfg : Cfg) (s : State) : Prop where
  pool : s.idle + s.exited + wsum fAct 0 s.tasks = cfg.workers
  exited_sd : s.exited > 0 → s.shutdown = true
  sd_main : s.shutdown = true ↔ ∃ e, s.main = .join e ∨ s.main = .finished e
  fin_exit : ∀ e, s.main = .finished e → s.exited = cfg.workers
  sub_lt : ∀ k, s.main = .submit k → k < cfg.nJobs

theorem PInv_init {cfg : Cfg} (wf : WF cfg) : PInv cfg (init cfg) := by
  refine ⟨?_, by simp [init], by simp [init], by simp [init],
    by intro k hk; simp [init] at hk; subst hk; exact wf.jobs_pos⟩
  simp [init]; rw [wsum_replicate]; simp [fAct]

theorem wsum_fAct_finish {cfg : Cfg} {s : State} (h : SInv cfg s) {i : Nat} {p : Pc} (ok : Bool)
    (hi : s.tasks[i]? = some p) (hp : act p = true) :
    wsum fAct 0 (finishTask cfg s i ok).tasks + (finishTask cfg s i ok).idle
      = wsum fAct 0 s.tasks + s.idle := by
  have hpd : p ≠ .done true := by intro e; subst e; simp [act] at hp
  rcases finishTask_cases cfg s i ok with ⟨rfl, hn, e⟩ | ⟨_, e⟩
  · rw [e]
    have hnext := h.next_notStarted hi hpd hn
    have h1 := wsum_set0 fAct s.tasks i p (.done true) hi
    have h2 := wsum_set0 fAct (s.tasks.set i (.done true)) (i + 1) .notStarted .tAcq
      (by simp only [List.getElem?_set]; simp; exact hnext)
    simp [fAct, hp] at h1 h2 ⊢
    omega
  · rw [e]
    have h1 := wsum_set0 fAct s.tasks i p (.done ok) hi
    simp [fAct, hp] at h1 ⊢
    omega

theorem wsum_fAct_wake (l : List Pc) : wsum fAct 0 (l.map wake) = wsum fAct 0 l :=
  wsum_map fAct wake (by intro i p; simp [fAct, act_wake]) l 0

/-- a task step that keeps the thread on its tensor -/
theorem PInv_set {cfg : Cfg} {s s' : State} (h : PInv cfg s) {i : Nat} {p x : Pc}
    (hi : s.tasks[i]? = some p) (hp : act p = true) (hx : act x = true)
    (ht : s'.tasks = s.tasks.set i x) (hidle : s'.idle = s.idle) (hex : s'.exited = s.exited)
    (hsd : s'.shutdown = s.shutdown) (hm : s'.main = s.main) : PInv cfg s' := by
  have h1 := wsum_set0 fAct s.tasks i p x hi
  simp [fAct, hp, hx] at h1
  exact ⟨by rw [ht, hidle, hex, h1]; exact h.pool, by rw [hex, hsd]; exact h.exited_sd,
    by rw [hsd, hm]; exact h.sd_main, by rw [hm, hex]; exact h.fin_exit, by rw [hm]; exact h.sub_lt⟩

theorem PInv_finish {cfg : Cfg} {s s0 : State} (h : PInv cfg s) (hs : SInv cfg s0) {i : Nat} {p : Pc}
    (ok : Bool) (hi : s0.tasks[i]? = some p) (hp : act p = true)
    (hw : wsum fAct 0 s0.tasks = wsum fAct 0 s.tasks) (hidle : s0.idle = s.idle)
    (hex : s0.exited = s.exited) (hsd : s0.shutdown = s.shutdown) (hm : s0.main = s.main) :
    PInv cfg (finishTask cfg s0 i ok) := by
  have h1 := wsum_fAct_finish hs ok hi hp
  refine ⟨?_, ?_, ?_, ?_, by simp only [finishTask_main, hm]; exact h.sub_lt⟩
  · have := h.pool; simp only [finishTask_exited]; omega
  · simp only [finishTask_exited, finishTask_shutdown, hex, hsd]; exact h.exited_sd
  · simp only [finishTask_shutdown, finishTask_main, hsd, hm]; exact h.sd_main
  · simp only [finishTask_main, finishTask_exited, hm, hex]; exact h.fin_exit

theorem PInv_step {cfg : Cfg} (wf : WF cfg) {s s' : State} {l : Label} (hs : SInv cfg s)
    (h : PInv cfg s) (hst : StepRel cfg s l s') : PInv cfg s' := by
  cases hst with
  | submit c k hm hk =>
      have hsd : s.shutdown = false := by
        cases hsd : s.shutdown
        · rfl
        · obtain ⟨e, he | he⟩ := h.sd_main.1 hsd <;> simp [hm] at he
      refine ⟨h.pool, h.exited_sd, ?_, ?_, ?_⟩
      rotate_left 2
      · intro k' hk'; simp only at hk'; split at hk' <;> simp at hk'; omega
      · simp only [hsd]; constructor
        · intro h'; simp at h'
        · rintro ⟨e, he | he⟩ <;> (split at he <;> simp at he)
      · intro e he; simp only at he; split at he <;> simp at he
  | collect c j ok hm hj hf =>
      have hsd : s.shutdown = false := by
        cases hsd : s.shutdown
        · rfl
        · obtain ⟨e, he | he⟩ := h.sd_main.1 hsd <;> simp [hm] at he
      have hex : s.exited = 0 := by
        rcases Nat.eq_zero_or_pos s.exited with h0 | h0
        · exact h0
        · have := h.exited_sd h0; simp [hsd] at this
      unfold collectOne
      cases ok
      · cases cfg.mode <;>
          exact ⟨h.pool, by simp, by simp, by simp, by simp⟩
      · simp only [if_true]
        split
        · exact ⟨h.pool, by simp, by simp, by simp, by simp⟩
        · exact ⟨h.pool, by simp [hex], by simp [hsd, hm], by simp [hm], by simp [hm]⟩
  | join c e hm he =>
      have hsd : s.shutdown = true := h.sd_main.2 ⟨e, Or.inl hm⟩
      exact ⟨h.pool, h.exited_sd, by simp [hsd], by simp [he], by simp⟩
  | take j q hq hidle =>
      have hj : j ∈ s.queue := by simp [hq]
      have h1 := wsum_set0 fAct s.tasks _ .notStarted .tAcq (hs.start_notStarted wf hj)
      simp only [fAct, act_notStarted, act_tAcq, if_true, Bool.false_eq_true, if_false] at h1
      refine ⟨?_, h.exited_sd, h.sd_main, h.fin_exit, h.sub_lt⟩
      have := h.pool
      show s.idle - 1 + s.exited + wsum fAct 0 (s.tasks.set _ _) = cfg.workers
      omega
  | exit hq hsd hidle =>
      refine ⟨?_, fun _ => hsd, h.sd_main, ?_, h.sub_lt⟩
      · have := h.pool
        show s.idle - 1 + (s.exited + 1) + wsum fAct 0 s.tasks = cfg.workers
        omega
      · intro e he
        have := h.fin_exit e he
        have := h.pool
        omega
  | cbAcq i hi hl => exact PInv_set h hi rfl rfl rfl rfl rfl rfl rfl
  | cbFail i hi hf =>
      exact PInv_finish (s0 := { s with log := s.log ++ [i], cbLock := false, tLocks := s.tLocks.set (cfg.obj i) false }) h
        (SInv_congr hs rfl rfl (by simp) rfl rfl) false hi rfl rfl rfl rfl rfl rfl
  | cbOk i hi hf => exact PInv_set h hi rfl rfl rfl rfl rfl rfl rfl
  | tAcq i hi hl => exact PInv_set h hi rfl rfl rfl rfl rfl rfl rfl
  | bTry i p hi hp =>
      have hp1 : act p = true := by rcases hp with rfl | rfl <;> rfl
      rcases budgetTry_cases cfg s i with ⟨_, _, e⟩ | ⟨_, _, e⟩ | ⟨_, _, e⟩ | ⟨_, _, e⟩ <;> rw [e] <;>
        exact PInv_set h hi hp1 rfl rfl rfl rfl rfl rfl
  | writeFail i hi hf => exact PInv_set h hi rfl rfl rfl rfl rfl rfl rfl
  | writeOk i hi hf => exact PInv_set h hi rfl rfl rfl rfl rfl rfl rfl
  | bRel i ok hi =>
      unfold budgetRelease
      refine PInv_finish (p := .bRel ok) h ?_ ok (by simp [hi, wake]) rfl (by simp [wsum_fAct_wake])
        rfl rfl rfl rfl
      exact SInv_congr (s := { s with tasks := s.tasks.map wake }) (SInv_wake hs) rfl rfl
        (by simp) rfl rfl

end IrVerif.Writer

namespace IrVerif.Writer

/-- every thread in the wait set (not notified) has a false `wait_for` predicate: no lost wake-up -/
def WInv (cfg : Cfg) (s : State) : Prop :=
  ∀ i, s.tasks[i]? = some .waiting →
    (cfg.size i > cfg.capacity → s.oversized = true) ∧
    (cfg.size i ≤ cfg.capacity → ¬ s.inFlight + cfg.size i ≤ cfg.capacity)

theorem WInv_init (cfg : Cfg) : WInv cfg (init cfg) := by
  intro i hi
  simp [init, List.getElem?_replicate] at hi

theorem finishTask_waiting {cfg : Cfg} {s : State} {i k : Nat} {ok : Bool}
    (h : (finishTask cfg s i ok).tasks[k]? = some .waiting) : s.tasks[k]? = some .waiting := by
  rcases finishTask_cases cfg s i ok with ⟨_, _, e⟩ | ⟨_, e⟩ <;> rw [e] at h <;>
    simp only [List.getElem?_set] at h <;> (repeat' split at h) <;> simp_all

theorem set_waiting {l : List Pc} {i k : Nat} {x : Pc} (hx : x ≠ .waiting)
    (h : (l.set i x)[k]? = some .waiting) : l[k]? = some .waiting := by
  simp only [List.getElem?_set] at h
  (repeat' split at h) <;> simp_all

theorem WInv_step {cfg : Cfg} {s s' : State} {l : Label} (h : WInv cfg s)
    (hst : StepRel cfg s l s') : WInv cfg s' := by
  cases hst with
  | submit c k hm hk => exact h
  | collect c j ok hm hj hf =>
      unfold collectOne
      cases ok
      · cases cfg.mode <;> exact h
      · simp only [if_true]; split <;> exact h
  | join c e hm he => exact h
  | take j q hq hidle => intro k hk; exact h k (set_waiting (by simp) hk)
  | exit hq hsd hidle => exact h
  | cbAcq i hi hl => intro k hk; exact h k (set_waiting (by simp) hk)
  | cbFail i hi hf =>
      intro k hk
      have := finishTask_waiting hk
      simpa using h k this
  | cbOk i hi hf => intro k hk; exact h k (set_waiting (by simp) hk)
  | tAcq i hi hl => intro k hk; exact h k (set_waiting (by simp) hk)
  | bTry i p hi hp =>
      rcases budgetTry_cases cfg s i with ⟨h1, h2, e⟩ | ⟨h1, h2, e⟩ | ⟨h1, h2, e⟩ | ⟨h1, h2, e⟩ <;>
        rw [e] <;> intro k hk
      · by_cases hik : i = k
        · subst hik; exact ⟨fun _ => h2, fun h3 => by omega⟩
        · simp only [List.getElem?_set, hik, if_false] at hk; exact h k hk
      · have := h k (set_waiting (by simp) hk)
        exact ⟨fun _ => rfl, this.2⟩
      · have := h k (set_waiting (by simp) hk)
        refine ⟨this.1, fun h3 => ?_⟩
        have := this.2 h3
        show ¬ s.inFlight + cfg.size i + cfg.size k ≤ cfg.capacity
        omega
      · by_cases hik : i = k
        · subst hik; exact ⟨fun h3 => by omega, fun _ => h2⟩
        · simp only [List.getElem?_set, hik, if_false] at hk; exact h k hk
  | writeFail i hi hf => intro k hk; exact h k (set_waiting (by simp) hk)
  | writeOk i hi hf => intro k hk; exact h k (set_waiting (by simp) hk)
  | bRel i ok hi =>
      intro k hk
      unfold budgetRelease at hk
      have := finishTask_waiting hk
      simp only [List.getElem?_map, Option.map_eq_some_iff] at this
      obtain ⟨q, _, hq⟩ := this
      cases q <;> simp [wake] at hq

end IrVerif.Writer

/-
Congruence of the EXTENDED serializer under the round-trip isomorphism: `serGraphE` reads, besides what the core
serializer reads, the merged metadata of every value it emits, the quantization annotation of every value it
looks at (`emitQG`) and the device configurations of the nodes.  When the reloaded extension state carries the
written-and-read-once payloads (`MetaOK2`, `QuantOK2`, `DevSpecG`), serializing the reloaded model gives the same
proto (`img2E_serGraph`; template: `img2_serGraph` in `ScopeReplIdem.lean`).
-/
import IrVerif.Lemmas.ScopeExtRTDefs
namespace IrVerif.Scope

/-! ### small facts -/

theorem liftS_ok {α : Type} {e : Except SErr α} {a : α} (h : liftS e = .ok a) : e = .ok a := by
  cases e with
  | ok b =>
    simp only [liftS, Except.ok.injEq] at h
    rw [h]
  | error _ => simp [liftS] at h

theorem ssSorted_isEmpty (m : SS) : (ssSorted m).isEmpty = m.isEmpty := by
  cases m with
  | nil => simp [ssSorted]
  | cons e r =>
    have h0 := ssSorted_ne_nil (e :: r) (by simp)
    cases hs : ssSorted (e :: r) with
    | nil => exact absurd hs h0
    | cons _ _ => rfl

theorem normM_eq (m : SS) (hn : (m.map (·.1)).Nodup) : normM m = ssSorted m := (meta_payload_fix m hn).1

theorem ssSorted_normM (m : SS) (hn : (m.map (·.1)).Nodup) : ssSorted (normM m) = ssSorted m :=
  (meta_payload_fix m hn).2.2

theorem normM_isEmpty (m : SS) (hn : (m.map (·.1)).Nodup) : (normM m).isEmpty = m.isEmpty := by
  rw [normM_eq m hn, ssSorted_isEmpty]

/-! ### what the extended serializer reads of a value and of its image -/

/-- the pointwise agreement of the two extended states: on the images of the emitted values `E` the merged
    metadata is written as in the source; on the images of the values `EQ` (that have an image at all) the
    annotation is written as in the source -/
structure ExtImg (V V' : Nat → ValueS) (x x' : Ext) (A : Assoc) (E EQ : List Nat) : Prop where
  sorted : ∀ v ∈ E, ssSorted (x'.vmeta (sig A v)) = ssSorted (x.vmeta v)
  empty : ∀ v ∈ E, (x'.vmeta (sig A v)).isEmpty = (x.vmeta v).isEmpty
  quant : ∀ v ∈ EQ, v ∈ A.map (·.1) → quantOfE V' x' (sig A v) = quantOfE V x v

theorem quantOfE_norm {V V' : Nat → ValueS} {x x' : Ext} {v v' : Nat} (hwf : ExtWF x)
    (hname : (V' v').name = (V v).name) (hq : x'.quant v' = normQ (x.quant v)) :
    quantOfE V' x' v' = quantOfE V x v := by
  simp only [quantOfE, hq, hname]
  cases hx : x.quant v with
  | none => simp only [normQ]
  | some ps =>
    obtain ⟨hnd, hne⟩ := (hwf v).2 ps hx
    obtain ⟨_, h2, h3⟩ := quant_payload_fix ps hnd hne
    have e1 : (ssOfEntries (ssSorted ps)).isEmpty = false := by
      cases hs : ssOfEntries (ssSorted ps) with
      | nil => exact absurd hs h2
      | cons _ _ => rfl
    have e2 : ps.isEmpty = false := by
      cases ps with
      | nil => exact absurd rfl hne
      | cons _ _ => rfl
    simp only [normQ, e1, e2, h3]

theorem ExtImg.mk' {V V' : Nat → ValueS} {x x' : Ext} {A : Assoc} {E EQ : List Nat}
    (hn : ∀ v ∈ A.map (·.1), (V' (sig A v)).name = (V v).name)
    (hm : MetaOK2 x x' A E) (hq : QuantOK2 x x' A EQ) (hwf : ExtWF x) : ExtImg V V' x x' A E EQ :=
  ⟨fun v hv => by rw [hm v hv, ssSorted_normM _ (hwf v).1],
   fun v hv => by rw [hm v hv, normM_isEmpty _ (hwf v).1],
   fun v hv hk => quantOfE_norm hwf (hn v hk) (hq v hv)⟩

section
variable {V V' : Nat → ValueS} {x x' : Ext} {A : Assoc} {E EQ : List Nat}

theorem ExtImg.serValue (H : ExtImg V V' x x' A E EQ) (h : Img V V' (sig A) E) {v : Nat} (hv : v ∈ E) :
    serValueE (V' (sig A v)) (x'.vmeta (sig A v)) = serValueE (V v) (x.vmeta v) := by
  simp only [serValueE, h.name v hv, h.info v hv, emit_emit, H.sorted v hv]

theorem ExtImg.shouldCreate (H : ExtImg V V' x x' A E EQ) (h : Img V V' (sig A) E) {v : Nat} (hv : v ∈ E) :
    shouldCreateE (V' (sig A v)) (x'.vmeta (sig A v)) = shouldCreateE (V v) (x.vmeta v) := by
  simp only [shouldCreateE, presentE, h.name v hv, h.info v hv, present_emit, H.empty v hv]

theorem contains_map_sig (hinj : ∀ a ∈ A.map (·.1), ∀ b ∈ A.map (·.1), sig A a = sig A b → a = b)
    (l : List Nat) (hl : ∀ v ∈ l, v ∈ A.map (·.1)) (a : Nat) (ha : a ∈ A.map (·.1)) :
    (l.map (sig A)).contains (sig A a) = l.contains a := by
  simp only [List.contains_eq_mem, List.mem_map, decide_eq_decide]
  constructor
  · rintro ⟨b, hb, he⟩
    rw [← hinj b (hl b hb) a ha he]; exact hb
  · exact fun hm => ⟨a, hm, rfl⟩

theorem img2E_serValues (H : ExtImg V V' x x' A E EQ) (h : Img V V' (sig A) E) :
    ∀ (vs : List Nat), (∀ v ∈ vs, v ∈ E) → serValuesE V' x' (vs.map (sig A)) = serValuesE V x vs := by
  intro vs
  induction vs with
  | nil => intro _; rfl
  | cons a r ih =>
    intro hU
    simp only [List.map_cons, serValuesE, H.serValue h (hU a (by simp)), ih (fun v hv => hU v (by simp [hv]))]

/-- the annotations of the input loop -/
theorem img2E_quantInputs (H : ExtImg V V' x x' A E EQ)
    (hn : ∀ v ∈ A.map (·.1), (V' (sig A v)).name = (V v).name)
    (hinj : ∀ a ∈ A.map (·.1), ∀ b ∈ A.map (·.1), sig A a = sig A b → a = b) (ik : List Name) :
    ∀ (vs seen : List Nat) (r : List QuantP) (seen' : List Nat), (∀ v ∈ vs, v ∈ A.map (·.1)) → (∀ v ∈ vs, v ∈ EQ) →
      (∀ v ∈ seen, v ∈ A.map (·.1)) → quantInputsE V x ik vs seen = .ok (r, seen') →
      quantInputsE V' x' ik (vs.map (sig A)) (seen.map (sig A)) = .ok (r, seen'.map (sig A)) ∧
      ∀ v ∈ seen', v ∈ A.map (·.1)
  | [], seen, r, seen', _, _, hs, hser => by
    simp only [quantInputsE, Except.ok.injEq, Prod.mk.injEq] at hser
    obtain ⟨rfl, rfl⟩ := hser
    exact ⟨rfl, hs⟩
  | a :: vs, seen, r, seen', hK, hQ, hs, hser => by
    have ha := hK a (by simp)
    have hc := contains_map_sig hinj seen hs a ha
    simp only [quantInputsE] at hser
    simp only [List.map_cons, quantInputsE, hn a ha, hc]
    split at hser
    all_goals
      split at hser
      · rename_i hcond
        rw [if_pos hcond]
        split at hser
        · simp at hser
        · rename_i q hq
          split at hser
          · simp at hser
          · rename_i r' s' hr
            simp only [Except.ok.injEq, Prod.mk.injEq] at hser
            obtain ⟨rfl, rfl⟩ := hser
            obtain ⟨e, hk⟩ := img2E_quantInputs H hn hinj ik vs (a :: seen) r' s' (fun v hv => hK v (by simp [hv]))
              (fun v hv => hQ v (by simp [hv]))
              (fun v hv => by
                simp only [List.mem_cons] at hv
                rcases hv with rfl | hv
                · exact ha
                · exact hs v hv) hr
            simp only [List.map_cons] at e
            refine ⟨?_, hk⟩
            simp only [H.quant a (hQ a (by simp)) ha, hq, e]
      · rename_i hcond
        rw [if_neg hcond]
        exact img2E_quantInputs H hn hinj ik vs seen r seen' (fun v hv => hK v (by simp [hv]))
          (fun v hv => hQ v (by simp [hv])) hs hser

/-- the annotations of the initializer loop / of the output loop -/
theorem img2E_quantOnce (H : ExtImg V V' x x' A E EQ)
    (hinj : ∀ a ∈ A.map (·.1), ∀ b ∈ A.map (·.1), sig A a = sig A b → a = b) :
    ∀ (vs seen : List Nat) (r : List QuantP) (seen' : List Nat), (∀ v ∈ vs, v ∈ A.map (·.1)) → (∀ v ∈ vs, v ∈ EQ) →
      (∀ v ∈ seen, v ∈ A.map (·.1)) → quantOnceE V x vs seen = .ok (r, seen') →
      quantOnceE V' x' (vs.map (sig A)) (seen.map (sig A)) = .ok (r, seen'.map (sig A)) ∧
      ∀ v ∈ seen', v ∈ A.map (·.1)
  | [], seen, r, seen', _, _, hs, hser => by
    simp only [quantOnceE, Except.ok.injEq, Prod.mk.injEq] at hser
    obtain ⟨rfl, rfl⟩ := hser
    exact ⟨rfl, hs⟩
  | a :: vs, seen, r, seen', hK, hQ, hs, hser => by
    have ha := hK a (by simp)
    have hc := contains_map_sig hinj seen hs a ha
    simp only [quantOnceE] at hser
    simp only [List.map_cons, quantOnceE, hc]
    split at hser
    · rename_i hcond
      rw [if_pos hcond]
      split at hser
      · simp at hser
      · rename_i q hq
        split at hser
        · simp at hser
        · rename_i r' s' hr
          simp only [Except.ok.injEq, Prod.mk.injEq] at hser
          obtain ⟨rfl, rfl⟩ := hser
          obtain ⟨e, hk⟩ := img2E_quantOnce H hinj vs (a :: seen) r' s' (fun v hv => hK v (by simp [hv]))
            (fun v hv => hQ v (by simp [hv]))
            (fun v hv => by
              simp only [List.mem_cons] at hv
              rcases hv with rfl | hv
              · exact ha
              · exact hs v hv) hr
          simp only [List.map_cons] at e
          refine ⟨?_, hk⟩
          simp only [H.quant a (hQ a (by simp)) ha, hq, e]
    · rename_i hcond
      rw [if_neg hcond]
      exact img2E_quantOnce H hinj vs seen r seen' (fun v hv => hK v (by simp [hv]))
        (fun v hv => hQ v (by simp [hv])) hs hser

/-- the initializer loop: value_info entries and tensors -/
theorem img2E_serInits {td td' : TData} (H : ExtImg V V' x x' A E EQ) (h : Img V V' (sig A) E)
    (inames : List (Option Name)) :
    ∀ (its : List (Name × Nat)), (∀ kv ∈ its, kv.2 ∈ E) → ConstImg V V' td td' (sig A) its →
      (serInitsE V' x' td' inames (its.map fun kv => (kv.1, sig A kv.2))).1 = (serInitsE V x td inames its).1 ∧
      (serInitsE V' x' td' inames (its.map fun kv => (kv.1, sig A kv.2))).2.1 = (serInitsE V x td inames its).2.1 := by
  intro its
  induction its with
  | nil => intro _ _; exact ⟨rfl, rfl⟩
  | cons kv its ih =>
    obtain ⟨k, v⟩ := kv
    intro hU hc
    obtain ⟨i1, i2⟩ := ih (fun kv hkv => hU kv (by simp [hkv])) (fun kv hkv => hc kv (by simp [hkv]))
    have hv := hU (k, v) (by simp)
    obtain ⟨hne, hct⟩ := hc (k, v) (by simp)
    obtain ⟨t, h1⟩ : ∃ t, (V v).const = some t := by
      cases hcv : (V v).const with
      | none => exact absurd hcv hne
      | some t => exact ⟨t, rfl⟩
    obtain ⟨t', h2, h3⟩ := hct t h1
    simp only [List.map_cons, serInitsE, h1, h2, i1, i2, H.shouldCreate h hv, h.name v hv, h.info v hv, emit_emit,
      H.sorted v hv, h3]
    simp

/-- the loop over the outputs of a node: a stripped trailing output has no value_info entry and, when it
    carries no annotation, no annotation entry -/
theorem nodeOutsE_strip (V : Nat → ValueS) (x : Ext) (annot : Bool) (gouts : List Nat) :
    ∀ (outs : List Nat), (annot = true → ∀ v ∈ outs, nameTruthy (V v).name = false → x.quant v = none) →
      nodeOutsE V x annot gouts (stripTrailing V outs) = nodeOutsE V x annot gouts outs := by
  intro outs
  induction outs with
  | nil => intro _; rfl
  | cons a r ih =>
    intro hq
    have ih' := ih (fun ha v hv => hq ha v (by simp [hv]))
    by_cases hs : stripTrailing V r = []
    · rw [stripTrailing_cons_nil V a r hs]
      rw [hs] at ih'
      have hr : nodeOutsE V x annot gouts r = .ok ([], []) := by rw [← ih']; rfl
      split
      · simp only [nodeOutsE, hr]
      · rename_i hf
        have hf' : nameTruthy (V a).name = false := by simpa using hf
        have hsc : shouldCreateE (V a) (x.vmeta a) = false := by simp [shouldCreateE, hf']
        have hqa : (if annot = true then quantOfE V x a else .ok []) = .ok [] := by
          cases annot with
          | false => rfl
          | true => simp only [if_true, quantOfE, hq rfl a (by simp) hf']
        simp only [nodeOutsE, hr, hqa, hsc]
        split <;> simp
    · rw [stripTrailing_cons_ne V a r hs]
      simp only [nodeOutsE, ih']

theorem img2E_nodeOuts (H : ExtImg V V' x x' A E EQ) (h : Img V V' (sig A) E)
    (hn : ∀ v ∈ A.map (·.1), (V' (sig A v)).name = (V v).name)
    (hinj : ∀ a ∈ A.map (·.1), ∀ b ∈ A.map (·.1), sig A a = sig A b → a = b)
    (annot : Bool) (gouts : List Nat) (hg : ∀ v ∈ gouts, v ∈ A.map (·.1)) :
    ∀ (l : List Nat), (∀ v ∈ l, v ∈ A.map (·.1)) → (∀ v ∈ l, nameTruthy (V v).name = true → v ∈ E) →
      (annot = true → ∀ v ∈ l, v ∈ EQ) →
      nodeOutsE V' x' annot (gouts.map (sig A)) (l.map (sig A)) = nodeOutsE V x annot gouts l := by
  intro l
  induction l with
  | nil => intro _ _ _; rfl
  | cons a r ih =>
    intro hK hE hQ
    have ha := hK a (by simp)
    have ih' := ih (fun v hv => hK v (by simp [hv])) (fun v hv => hE v (by simp [hv]))
      (fun hA v hv => hQ hA v (by simp [hv]))
    have hc := contains_map_sig hinj gouts hg a ha
    have hqa : (if annot = true then quantOfE V' x' (sig A a) else .ok []) =
        (if annot = true then quantOfE V x a else .ok []) := by
      cases annot with
      | false => rfl
      | true => simp only [if_true, H.quant a (hQ rfl a (by simp)) ha]
    simp only [List.map_cons, nodeOutsE, ih', hc, hqa]
    by_cases ht : nameTruthy (V a).name = true
    · have haE := hE a (by simp) ht
      simp only [H.shouldCreate h haE, h.name a haE, h.info a haE, emit_emit, H.sorted a haE]
    · have hf : nameTruthy (V a).name = false := by simpa using ht
      have h1 : shouldCreateE (V a) (x.vmeta a) = false := by simp [shouldCreateE, hf]
      have h2 : shouldCreateE (V' (sig A a)) (x'.vmeta (sig A a)) = false := by simp [shouldCreateE, hn a ha, hf]
      simp only [h1, h2, Bool.false_eq_true, ↓reduceIte]

end

/-- device configurations: the proto configurations resolved in name-preserving scopes serialize to the proto
    configurations -/
theorem img2E_devs {V : Nat → ValueS} (s' : Store) (ver : Option Int) (scopes : List Table)
    (hs : ∀ t ∈ scopes, Named s' t) (ds : List DevR) (ps : List DevP)
    (h : serDevRsGated V ver ds = .ok ps) : serDevRsGated s'.vals ver (ps.map (deserDevR scopes)) = .ok ps := by
  have key : serDevRs V ds = .ok ps → serDevRs s'.vals (ps.map (deserDevR scopes)) = .ok ps :=
    devs_payload_fix V s'.vals scopes (fun t ht e he => hs t ht e he) ds ps
  cases ver with
  | none => exact key h
  | some v =>
    simp only [serDevRsGated] at h ⊢
    by_cases hv : v < 11
    · simp only [hv, if_true, Except.ok.injEq] at h ⊢
      subst h
      rfl
    · simp only [hv, if_false] at h ⊢
      exact key h

/-! ### inversion of the extended serializer -/

theorem serGraphE_inv {V : Nat → ValueS} {x : Ext} {td : TData} {ver : Option Int} {gid : Nat} {ins : List Nat}
    {inits : List (Name × Nat)} {nodes : List NodeT} {outs : List Nat} {q : GraphE} {ws : Writes}
    (h : serGraphE V x td ver (.mk gid ins inits nodes outs) = .ok (q, ws)) :
    ∃ insP qIn seen1 qInit seen2 nps qNodes vis2 ws2 outsP qOut seen3,
      serValuesE V x ins = .ok insP ∧
      quantInputsE V x (inits.map (·.1)) ins [] = .ok (qIn, seen1) ∧
      quantOnceE V x (inits.map (·.2)) seen1 = .ok (qInit, seen2) ∧
      serNodesE V x td ver true outs nodes = .ok (nps, qNodes, vis2, ws2) ∧
      serValuesE V x outs = .ok outsP ∧
      quantOnceE V x outs seen2 = .ok (qOut, seen3) ∧
      q = .mk insP (serInitsE V x td (ins.map fun v => (V v).name) inits).2.1
        ((serInitsE V x td (ins.map fun v => (V v).name) inits).1 ++ vis2) nps outsP
        (qIn ++ qInit ++ qNodes ++ qOut) := by
  simp only [serGraphE] at h
  split at h
  · simp at h
  · rename_i insP h1
    split at h
    · simp at h
    · rename_i qIn seen1 h2
      split at h
      · simp at h
      · rename_i qInit seen2 h3
        split at h
        · simp at h
        · rename_i nps qNodes vis2 ws2 h4
          split at h
          · simp at h
          · rename_i outsP h5
            split at h
            · simp at h
            · rename_i qOut seen3 h6
              simp only [Except.ok.injEq, Prod.mk.injEq] at h
              obtain ⟨rfl, _⟩ := h
              exact ⟨insP, qIn, seen1, qInit, seen2, nps, qNodes, vis2, ws2, outsP, qOut, seen3, liftS_ok h1,
                liftS_ok h2, liftS_ok h3, h4, liftS_ok h5, liftS_ok h6, rfl⟩

theorem serNodesE_inv {V : Nat → ValueS} {x : Ext} {td : TData} {ver : Option Int} {annot : Bool} {go : List Nat}
    {n : NodeT} {ns : List NodeT} {nps : List NodeE} {qs : List QuantP} {vis : List VInfoE} {ws : Writes}
    (h : serNodesE V x td ver annot go (n :: ns) = .ok (nps, qs, vis, ws)) :
    ∃ np q1 vi1 ws1 nps' qs' vis' ws2, serNodeE V x td ver annot go n = .ok (np, q1, vi1, ws1) ∧
      serNodesE V x td ver annot go ns = .ok (nps', qs', vis', ws2) ∧
      nps = np :: nps' ∧ qs = q1 ++ qs' ∧ vis = vi1 ++ vis' := by
  simp only [serNodesE] at h
  split at h
  · simp at h
  · rename_i np q1 vi1 ws1 h1
    split at h
    · simp at h
    · rename_i nps' qs' vis' ws2 h2
      simp only [Except.ok.injEq, Prod.mk.injEq] at h
      obtain ⟨rfl, rfl, rfl, _⟩ := h
      exact ⟨np, q1, vi1, ws1, nps', qs', vis', ws2, h1, h2, rfl, rfl, rfl⟩

theorem serNodeE_inv {V : Nat → ValueS} {x : Ext} {td : TData} {ver : Option Int} {annot : Bool} {go : List Nat}
    {i : Nat} {g : Option Nat} {ins : List (Option Nat)} {outs : List Nat} {subs : List GraphT} {np : NodeE}
    {q : List QuantP} {vi : List VInfoE} {ws : Writes}
    (h : serNodeE V x td ver annot go (.mk i g ins outs subs) = .ok (np, q, vi, ws)) :
    ∃ gps ws' ds, (∀ v, some v ∈ ins → (V v).name ≠ none) ∧ (∀ v ∈ stripTrailing V outs, (V v).name ≠ none) ∧
      serSubsE V x td ver subs = .ok (gps, ws') ∧ serDevRsGated V ver (x.devs i) = .ok ds ∧
      nodeOutsE V x annot go outs = .ok (q, vi) ∧
      np = .mk (ins.map (inName V)) ((stripTrailing V outs).map (nm V)) ds gps := by
  simp only [serNodeE] at h
  split at h
  · simp at h
  · rename_i insN hi
    split at h
    · simp at h
    · rename_i outsN ho
      split at h
      · simp at h
      · rename_i gps ws' hs
        split at h
        · simp at h
        · rename_i ds hd
          split at h
          · simp at h
          · rename_i q' vi' hq
            simp only [Except.ok.injEq, Prod.mk.injEq] at h
            obtain ⟨rfl, rfl, rfl, _⟩ := h
            have hi' := serInputs_ok (liftS_ok hi)
            have ho' := serOutNames_ok (liftS_ok ho)
            rw [hi'.1, ho'.1]
            exact ⟨gps, ws', ds, hi'.2, ho'.2, hs, hd, liftS_ok hq, rfl⟩

theorem serSubsE_inv {V : Nat → ValueS} {x : Ext} {td : TData} {ver : Option Int} {g : GraphT} {gs : List GraphT}
    {gps : List GraphE} {ws : Writes} (h : serSubsE V x td ver (g :: gs) = .ok (gps, ws)) :
    ∃ gp ws1 gps' ws2, serGraphE V x td ver g = .ok (gp, ws1) ∧ serSubsE V x td ver gs = .ok (gps', ws2) ∧
      gps = gp :: gps' := by
  simp only [serSubsE] at h
  split at h
  · simp at h
  · rename_i gp ws1 h1
    split at h
    · simp at h
    · rename_i gps' ws2 h2
      simp only [Except.ok.injEq, Prod.mk.injEq] at h
      obtain ⟨rfl, _⟩ := h
      exact ⟨gp, ws1, gps', ws2, h1, h2, rfl⟩

/-! ### the congruence -/

mutual
/-- serializing the renamed graph `g'` in the reloaded store / extension state gives the proto of `g` -/
theorem img2E_serGraph {V V' : Nat → ValueS} {td td' : TData} {A : Assoc} {E EQ : List Nat} {x x' : Ext}
    (s' : Store) (ver : Option Int) (hV' : V' = s'.vals)
    (h : Img V V' (sig A) E)
    (hn : ∀ v ∈ A.map (·.1), (V' (sig A v)).name = (V v).name)
    (hinj : ∀ a ∈ A.map (·.1), ∀ b ∈ A.map (·.1), sig A a = sig A b → a = b)
    (hm : MetaOK2 x x' A E) (hq : QuantOK2 x x' A EQ) (hwf : ExtWF x) :
    ∀ (g g' : GraphT) (q : GraphE) (ws : Writes), TreeRelG V A g g' → (∀ v ∈ emitG V g, v ∈ E) →
      (∀ v ∈ emitQG V g, v ∈ EQ) → QuietOutsG V x g →
      ConstImg V V' td td' (sig A) (allInitsG g) → DevSpecG s' x' q g' →
      serGraphE V x td ver g = .ok (q, ws) → ∃ ws', serGraphE V' x' td' ver g' = .ok (q, ws')
  | .mk _ ins inits nodes outs, .mk _ ins' inits' nodes' outs', q, ws, ht, hE, hEQ, hQ, hc, hD, hser => by
    have H : ExtImg V V' x x' A E EQ := ExtImg.mk' hn hm hq hwf
    simp only [TreeRelG] at ht
    obtain ⟨rfl, hinsK, rfl, hinitK, htn, rfl, houtK⟩ := ht
    obtain ⟨insP, qIn, seen1, qInit, seen2, nps, qNodes, vis2, ws2, outsP, qOut, seen3, h1, h2, h3, h4, h5, h6, rfl⟩ :=
      serGraphE_inv hser
    simp only [DevSpecG] at hD
    simp only [QuietOutsG] at hQ
    have hinsU : ∀ v ∈ ins, v ∈ E := fun v hv => hE v (by simp [emitG, hv])
    have hinitU : ∀ kv ∈ inits, kv.2 ∈ E := fun kv hkv => hE _ (by
      simp only [emitG, List.mem_append, List.mem_map]
      exact .inl (.inl (.inl (.inr ⟨kv, hkv, rfl⟩))))
    have houtU : ∀ v ∈ outs, v ∈ E := fun v hv => hE v (by simp [emitG, hv])
    have hliveU : ∀ v ∈ nodes.flatMap (liveOuts V), nameTruthy (V v).name = true → v ∈ E := fun v hv ht => hE v (by
      simp only [emitG, List.mem_append, List.mem_filter]
      exact .inl (.inl (.inr ⟨hv, ht⟩)))
    have hinsQ : ∀ v ∈ ins, v ∈ EQ := fun v hv => hEQ v (by simp [emitQG, hv])
    have hinitQ : ∀ v ∈ inits.map (·.2), v ∈ EQ := fun v hv => hEQ v (by
      simp only [emitQG, List.mem_append]
      exact .inl (.inl (.inl (.inr hv))))
    have hinitK' : ∀ v ∈ inits.map (·.2), v ∈ A.map (·.1) := by
      intro v hv
      simp only [List.mem_map] at hv
      obtain ⟨kv, hkv, rfl⟩ := hv
      exact hinitK kv hkv
    have houtQ : ∀ v ∈ outs, v ∈ EQ := fun v hv => hEQ v (by simp [emitQG, hv])
    have hliveQ : ∀ v ∈ nodes.flatMap (liveOuts V), v ∈ EQ := fun v hv => hEQ v (by
      simp only [emitQG, List.mem_append]
      exact .inl (.inl (.inr hv)))
    have e1 : serValuesE V' x' (ins.map (sig A)) = .ok insP := by rw [img2E_serValues H h ins hinsU, h1]
    have e6 : serValuesE V' x' (outs.map (sig A)) = .ok outsP := by rw [img2E_serValues H h outs houtU, h5]
    have hnames : (ins.map (sig A)).map (fun v => (V' v).name) = ins.map (fun v => (V v).name) := by
      rw [List.map_map]
      exact List.map_congr_left (fun v hv => h.name v (hinsU v hv))
    have hkeys : (inits.map fun kv => (kv.1, sig A kv.2)).map (·.1) = inits.map (·.1) := by
      rw [List.map_map]; rfl
    have hvals : (inits.map fun kv => (kv.1, sig A kv.2)).map (·.2) = (inits.map (·.2)).map (sig A) := by
      rw [List.map_map, List.map_map]; rfl
    obtain ⟨e2, hs1⟩ := img2E_quantInputs H hn hinj (inits.map (·.1)) ins [] qIn seen1 hinsK hinsQ
      (fun _ hv => by simp at hv) h2
    simp only [List.map_nil] at e2
    obtain ⟨e3, hs2⟩ := img2E_quantOnce H hinj (inits.map (·.2)) seen1 qInit seen2 hinitK' hinitQ hs1 h3
    obtain ⟨e4a, e4b⟩ := img2E_serInits (td := td) (td' := td') H h (ins.map fun v => (V v).name) inits hinitU
      (fun kv hkv => hc kv (by simp [allInitsG, hkv]))
    obtain ⟨ws2', e5⟩ := img2E_serNodes s' ver hV' h hn hinj hm hq hwf nodes nodes' true outs nps qNodes vis2 ws2
      htn houtK hliveU (fun v hv => hE v (by simp [emitG, hv])) (fun _ => hliveQ)
      (fun v hv => hEQ v (by simp [emitQG, hv])) hQ
      (fun kv hkv => hc kv (by simp [allInitsG, hkv])) hD h4
    obtain ⟨e7, _⟩ := img2E_quantOnce H hinj outs seen2 qOut seen3 houtK houtQ hs2 h6
    exact ⟨_, by simp only [serGraphE, e1, hkeys, hvals, e2, e3, hnames, e4a, e4b, e5, e6, e7, liftS]; rfl⟩
theorem img2E_serNodes {V V' : Nat → ValueS} {td td' : TData} {A : Assoc} {E EQ : List Nat} {x x' : Ext}
    (s' : Store) (ver : Option Int) (hV' : V' = s'.vals)
    (h : Img V V' (sig A) E)
    (hn : ∀ v ∈ A.map (·.1), (V' (sig A v)).name = (V v).name)
    (hinj : ∀ a ∈ A.map (·.1), ∀ b ∈ A.map (·.1), sig A a = sig A b → a = b)
    (hm : MetaOK2 x x' A E) (hq : QuantOK2 x x' A EQ) (hwf : ExtWF x) :
    ∀ (ns ns' : List NodeT) (annot : Bool) (gouts : List Nat) (nps : List NodeE) (qs : List QuantP)
      (vi : List VInfoE) (ws : Writes),
      TreeRelNs V A ns ns' → (∀ v ∈ gouts, v ∈ A.map (·.1)) →
      (∀ v ∈ ns.flatMap (liveOuts V), nameTruthy (V v).name = true → v ∈ E) → (∀ v ∈ emitSubNs V ns, v ∈ E) →
      (annot = true → ∀ v ∈ ns.flatMap (liveOuts V), v ∈ EQ) → (∀ v ∈ emitQSubNs V ns, v ∈ EQ) →
      QuietOutsNs V x ns → ConstImg V V' td td' (sig A) (allInitsNs ns) → DevSpecNs s' x' nps ns' →
      serNodesE V x td ver annot gouts ns = .ok (nps, qs, vi, ws) →
      ∃ ws', serNodesE V' x' td' ver annot (gouts.map (sig A)) ns' = .ok (nps, qs, vi, ws')
  | [], [], _, _, nps, qs, vi, ws, _, _, _, _, _, _, _, _, _, hser => by
    simp only [serNodesE, Except.ok.injEq, Prod.mk.injEq] at hser
    obtain ⟨rfl, rfl, rfl, _⟩ := hser
    exact ⟨[], rfl⟩
  | n :: ns, n' :: ns', annot, gouts, nps, qs, vi, ws, ht, hg, hL, hU, hLQ, hUQ, hQ, hc, hD, hser => by
    simp only [TreeRelNs] at ht
    simp only [QuietOutsNs] at hQ
    obtain ⟨np, q1, vi1, ws1, nps', qs', vis', ws2, h1, h2, rfl, rfl, rfl⟩ := serNodesE_inv hser
    simp only [DevSpecNs] at hD
    obtain ⟨w1, e1⟩ := img2E_serNode s' ver hV' h hn hinj hm hq hwf n n' annot gouts np q1 vi1 ws1 ht.1 hg
      (fun v hv => hL v (by simp [hv])) (fun v hv => hU v (by simp [emitSubNs, hv]))
      (fun ha v hv => hLQ ha v (by simp [hv])) (fun v hv => hUQ v (by simp [emitQSubNs, hv])) hQ.1
      (fun kv hkv => hc kv (by simp [allInitsNs, hkv])) hD.1 h1
    obtain ⟨w2, e2⟩ := img2E_serNodes s' ver hV' h hn hinj hm hq hwf ns ns' annot gouts nps' qs' vis' ws2 ht.2 hg
      (fun v hv => hL v (by simp [hv])) (fun v hv => hU v (by simp [emitSubNs, hv]))
      (fun ha v hv => hLQ ha v (by simp [hv])) (fun v hv => hUQ v (by simp [emitQSubNs, hv])) hQ.2
      (fun kv hkv => hc kv (by simp [allInitsNs, hkv])) hD.2 h2
    exact ⟨_, by simp only [serNodesE, e1, e2]; rfl⟩
  | [], _ :: _, _, _, _, _, _, _, ht, _, _, _, _, _, _, _, _, _ => by simp [TreeRelNs] at ht
  | _ :: _, [], _, _, _, _, _, _, ht, _, _, _, _, _, _, _, _, _ => by simp [TreeRelNs] at ht
theorem img2E_serNode {V V' : Nat → ValueS} {td td' : TData} {A : Assoc} {E EQ : List Nat} {x x' : Ext}
    (s' : Store) (ver : Option Int) (hV' : V' = s'.vals)
    (h : Img V V' (sig A) E)
    (hn : ∀ v ∈ A.map (·.1), (V' (sig A v)).name = (V v).name)
    (hinj : ∀ a ∈ A.map (·.1), ∀ b ∈ A.map (·.1), sig A a = sig A b → a = b)
    (hm : MetaOK2 x x' A E) (hq : QuantOK2 x x' A EQ) (hwf : ExtWF x) :
    ∀ (n n' : NodeT) (annot : Bool) (gouts : List Nat) (np : NodeE) (q : List QuantP) (vi : List VInfoE)
      (ws : Writes),
      TreeRelN V A n n' → (∀ v ∈ gouts, v ∈ A.map (·.1)) →
      (∀ v ∈ liveOuts V n, nameTruthy (V v).name = true → v ∈ E) → (∀ v ∈ emitSubN V n, v ∈ E) →
      (annot = true → ∀ v ∈ liveOuts V n, v ∈ EQ) → (∀ v ∈ emitQSubN V n, v ∈ EQ) →
      QuietOutsN V x n → ConstImg V V' td td' (sig A) (allInitsN n) → DevSpecN s' x' np n' →
      serNodeE V x td ver annot gouts n = .ok (np, q, vi, ws) →
      ∃ ws', serNodeE V' x' td' ver annot (gouts.map (sig A)) n' = .ok (np, q, vi, ws')
  | .mk id _ ins outs subs, .mk id' _ ins' outs' subs', annot, gouts, np, q, vi, ws, ht, hg, hL, hU, hLQ, hUQ, hQ,
      hc, hD, hser => by
    have H : ExtImg V V' x x' A E EQ := ExtImg.mk' hn hm hq hwf
    simp only [TreeRelN] at ht
    obtain ⟨rfl, hinK, rfl, hliveK, hts⟩ := ht
    obtain ⟨gps, ws', ds, hins_n, hlive_n, hs, hd, hno, rfl⟩ := serNodeE_inv hser
    simp only [DevSpecN] at hD
    obtain ⟨⟨scopes, hNamed, hdevs⟩, hDs⟩ := hD
    simp only [QuietOutsN] at hQ
    obtain ⟨hquiet, hQs⟩ := hQ
    simp only [liveOuts] at hL hLQ
    have e1 := img2_serInputs hn ins (fun v hv => ⟨hinK v hv, hins_n v hv⟩)
    have e2 : stripTrailing V' ((stripTrailing V outs).map (sig A)) = (stripTrailing V outs).map (sig A) := by
      rw [img2_stripTrailing hn _ hliveK, stripTrailing_idem]
    have e3 := img2_serOutNames hn (stripTrailing V outs) hliveK hlive_n
    obtain ⟨ws'', e4⟩ := img2E_serSubs s' ver hV' h hn hinj hm hq hwf subs subs' gps ws' hts
      (fun v hv => hU v (by simpa [emitSubN] using hv)) (fun v hv => hUQ v (by simpa [emitQSubN] using hv)) hQs
      (fun kv hkv => hc kv (by simpa [allInitsN] using hkv)) hDs hs
    have e5 : nodeOutsE V' x' annot (gouts.map (sig A)) ((stripTrailing V outs).map (sig A)) = .ok (q, vi) := by
      rw [img2E_nodeOuts H h hn hinj annot gouts hg _ hliveK hL hLQ,
        nodeOutsE_strip V x annot gouts outs (fun _ => hquiet), hno]
    have e6 : serDevRsGated V' ver (x'.devs id') = .ok ds := by
      rw [hdevs, hV']
      exact img2E_devs s' ver scopes hNamed _ ds hd
    exact ⟨_, by simp only [serNodeE, e1, e2, e3, e4, e5, e6, liftS]; rfl⟩
theorem img2E_serSubs {V V' : Nat → ValueS} {td td' : TData} {A : Assoc} {E EQ : List Nat} {x x' : Ext}
    (s' : Store) (ver : Option Int) (hV' : V' = s'.vals)
    (h : Img V V' (sig A) E)
    (hn : ∀ v ∈ A.map (·.1), (V' (sig A v)).name = (V v).name)
    (hinj : ∀ a ∈ A.map (·.1), ∀ b ∈ A.map (·.1), sig A a = sig A b → a = b)
    (hm : MetaOK2 x x' A E) (hq : QuantOK2 x x' A EQ) (hwf : ExtWF x) :
    ∀ (gs gs' : List GraphT) (gps : List GraphE) (ws : Writes),
      TreeRelGs V A gs gs' → (∀ v ∈ emitGs V gs, v ∈ E) → (∀ v ∈ emitQGs V gs, v ∈ EQ) → QuietOutsGs V x gs →
      ConstImg V V' td td' (sig A) (allInitsGs gs) → DevSpecGs s' x' gps gs' →
      serSubsE V x td ver gs = .ok (gps, ws) → ∃ ws', serSubsE V' x' td' ver gs' = .ok (gps, ws')
  | [], [], gps, ws, _, _, _, _, _, _, hser => by
    simp only [serSubsE, Except.ok.injEq, Prod.mk.injEq] at hser
    obtain ⟨rfl, _⟩ := hser
    exact ⟨[], rfl⟩
  | g :: gs, g' :: gs', gps, ws, ht, hU, hUQ, hQ, hc, hD, hser => by
    simp only [TreeRelGs] at ht
    simp only [QuietOutsGs] at hQ
    obtain ⟨gp, ws1, gps', ws2, h1, h2, rfl⟩ := serSubsE_inv hser
    simp only [DevSpecGs] at hD
    obtain ⟨w1, e1⟩ := img2E_serGraph s' ver hV' h hn hinj hm hq hwf g g' gp ws1 ht.1
      (fun v hv => hU v (by simp [emitGs, hv])) (fun v hv => hUQ v (by simp [emitQGs, hv])) hQ.1
      (fun kv hkv => hc kv (by simp [allInitsGs, hkv])) hD.1 h1
    obtain ⟨w2, e2⟩ := img2E_serSubs s' ver hV' h hn hinj hm hq hwf gs gs' gps' ws2 ht.2
      (fun v hv => hU v (by simp [emitGs, hv])) (fun v hv => hUQ v (by simp [emitQGs, hv])) hQ.2
      (fun kv hkv => hc kv (by simp [allInitsGs, hkv])) hD.2 h2
    exact ⟨_, by simp only [serSubsE, e1, e2]; rfl⟩
  | [], _ :: _, _, _, ht, _, _, _, _, _, _ => by simp [TreeRelGs] at ht
  | _ :: _, [], _, _, ht, _, _, _, _, _, _ => by simp [TreeRelGs] at ht
end

end IrVerif.Scope

/-
C15 part B: "the first holder keeps its name" — order vocabulary.  `before v L` = the elements of `L`
in front of the first occurrence of `v`; `FirstB orig fin L` = every element of `L` whose original
name is carried by no element in front of it has kept that name.  Core Lean only.
-/
import IrVerif.Model.Names
namespace IrVerif.Names

/-- the elements of `L` before the first occurrence of `v` -/
def before (v : Nat) : List Nat → List Nat
  | [] => []
  | x :: xs => if x = v then [] else x :: before v xs

theorem before_sub {v : Nat} : ∀ {L : List Nat} {u : Nat}, u ∈ before v L → u ∈ L
  | [], _, h => by simp [before] at h
  | x :: xs, u, h => by
    simp only [before] at h
    split at h
    · simp at h
    · rcases List.mem_cons.mp h with h | h
      · exact h ▸ List.mem_cons_self
      · exact List.mem_cons_of_mem _ (before_sub h)

theorem not_mem_before {v : Nat} : ∀ {L : List Nat}, v ∉ before v L
  | [] => by simp [before]
  | x :: xs => by
    simp only [before]
    split
    · simp
    · rename_i hx
      simp only [List.mem_cons, not_or]
      exact ⟨fun e => hx e.symm, not_mem_before⟩

theorem before_append_mem {v : Nat} : ∀ {L : List Nat} (E : List Nat), v ∈ L → before v (L ++ E) = before v L
  | [], _, h => by simp at h
  | x :: xs, E, h => by
    simp only [List.cons_append, before]
    split
    · rfl
    · rename_i hx
      rcases List.mem_cons.mp h with h | h
      · exact absurd h.symm hx
      · rw [before_append_mem E h]

theorem before_append_not_mem {v : Nat} : ∀ {L : List Nat} (E : List Nat), v ∉ L → before v (L ++ E) = L ++ before v E
  | [], _, _ => rfl
  | x :: xs, E, h => by
    simp only [List.mem_cons, not_or] at h
    simp only [List.cons_append, before]
    rw [if_neg (fun e => h.1 e.symm), before_append_not_mem E h.2]

theorem before_split {v : Nat} {A B : List Nat} (h : v ∉ A) : before v (A ++ v :: B) = A := by
  rw [before_append_not_mem _ h]
  simp [before]

/-- swapping a middle segment for one with the same members: an element in front of `x` stays in
front of `x`, unless both lie in the segment -/
theorem before_seg {P X Y Q : List Nat} (hXY : ∀ x, x ∈ X ↔ x ∈ Y) {x u : Nat}
    (hu : u ∈ before x (P ++ X ++ Q)) : u ∈ before x (P ++ Y ++ Q) ∨ (u ∈ X ∧ x ∈ X ∧ u ≠ x) := by
  by_cases hP : x ∈ P
  · rw [List.append_assoc, before_append_mem _ hP] at hu
    rw [List.append_assoc, before_append_mem _ hP]
    exact Or.inl hu
  · rw [List.append_assoc, before_append_not_mem _ hP] at hu
    rw [List.append_assoc, before_append_not_mem _ hP]
    by_cases hX : x ∈ X
    · rw [before_append_mem _ hX] at hu
      rcases List.mem_append.mp hu with hu | hu
      · exact Or.inl (List.mem_append_left _ hu)
      · exact Or.inr ⟨before_sub hu, hX, fun e => not_mem_before (e ▸ hu)⟩
    · have hY : x ∉ Y := fun h => hX ((hXY x).mpr h)
      rw [before_append_not_mem _ hX] at hu
      rw [before_append_not_mem _ hY]
      refine Or.inl ?_
      simp only [List.mem_append] at hu ⊢
      rcases hu with hu | hu | hu
      · exact Or.inl hu
      · exact Or.inr (Or.inl ((hXY u).mp hu))
      · exact Or.inr (Or.inr hu)

/-- **first holder keeps**: an element of `L` whose original (non-empty) name is carried by no element
in front of its first occurrence has that name in `fin` -/
def FirstB (orig fin : Nat → Option String) (L : List Nat) : Prop :=
  ∀ v ∈ L, truthy (orig v) = true → (∀ u ∈ before v L, orig u ≠ orig v) → fin v = orig v

theorem FirstB.nil (orig fin : Nat → Option String) : FirstB orig fin [] := fun _ h => by simp at h

theorem FirstB.transfer {orig fin : Nat → Option String} {L L' : List Nat} (h : FirstB orig fin L)
    (hm : ∀ v ∈ L', v ∈ L) (ho : ∀ v ∈ L', ∀ u ∈ before v L, u ∈ before v L' ∨ orig u ≠ orig v) :
    FirstB orig fin L' := by
  intro v hv ht hb
  refine h v (hm v hv) ht (fun u hu => ?_)
  rcases ho v hv u hu with h1 | h1
  · exact hb u h1
  · exact h1

theorem FirstB.fin_eq {orig fin fin' : Nat → Option String} {L : List Nat} (h : FirstB orig fin L)
    (e : ∀ x ∈ L, fin' x = fin x) : FirstB orig fin' L :=
  fun v hv ht hb => (e v hv).trans (h v hv ht hb)

theorem FirstB.orig_eq {orig orig' fin : Nat → Option String} {L : List Nat} (h : FirstB orig fin L)
    (e : ∀ x ∈ L, orig' x = orig x) : FirstB orig' fin L := by
  intro v hv ht hb
  rw [e v hv] at ht ⊢
  exact h v hv ht (fun u hu => by rw [← e u (before_sub hu), ← e v hv]; exact hb u hu)

/-- a list extended by elements it already contains -/
theorem FirstB.append_old {orig fin : Nat → Option String} {L E : List Nat} (h : FirstB orig fin L)
    (hE : ∀ x ∈ E, x ∈ L) : FirstB orig fin (L ++ E) :=
  h.transfer (fun v hv => (List.mem_append.mp hv).elim id (hE v))
    (fun v hv u hu => by
      have hvL : v ∈ L := (List.mem_append.mp hv).elim id (hE v)
      rw [before_append_mem _ hvL]; exact Or.inl hu)

theorem FirstB.prefix {orig fin : Nat → Option String} {L E : List Nat} (h : FirstB orig fin (L ++ E)) :
    FirstB orig fin L :=
  h.transfer (fun v hv => List.mem_append_left _ hv)
    (fun v hv u hu => by rw [before_append_mem _ hv] at hu; exact Or.inl hu)

/-- one new element at the end -/
theorem FirstB.snoc {orig fin : Nat → Option String} {V : List Nat} {v : Nat} (h : FirstB orig fin V) (hv : v ∉ V)
    (hnew : truthy (orig v) = true → (∀ u ∈ V, orig u ≠ orig v) → fin v = orig v) : FirstB orig fin (V ++ [v]) := by
  intro x hx ht hb
  rcases List.mem_append.mp hx with hx | hx
  · rw [before_append_mem _ hx] at hb
    exact h x hx ht hb
  · have : x = v := by simpa using hx
    subst this
    rw [before_append_not_mem _ hv] at hb
    exact hnew ht (fun u hu => hb u (List.mem_append_left _ hu))

/-- the readable form: split the list anywhere at `v` -/
theorem FirstB.split {orig fin : Nat → Option String} {L : List Nat} (h : FirstB orig fin L) (A : List Nat) (v : Nat)
    (B : List Nat) (e : L = A ++ v :: B) (ht : truthy (orig v) = true) (hA : ∀ u ∈ A, orig u ≠ orig v) :
    fin v = orig v := by
  have hvA : v ∉ A := fun hin => hA v hin rfl
  refine h v (by rw [e]; simp) ht (fun u hu => ?_)
  rw [e, before_split hvA] at hu
  exact hA u hu

end IrVerif.Names

/-
Round trip of the EXTENDED model (`Model/ScopeExt.lean`): shared definitions.

* `normM` / `normQ`: what merged metadata / a quantization annotation becomes when it is written (sorted) and
  read back;
* `MetaOK2` / `QuantOK2`: the extension state of the reloaded model on the images of the emitted values;
* `DevSpecG`: generic description of the device configurations an extended deserializer run stores
  (positional in the result tree);
* `extG`: the certificate of the extension state (next to `replG`): equally named values of one graph carry the
  same annotation, graph outputs that nothing binds and empty-named node outputs carry none.
-/
import IrVerif.Lemmas.ScopeReplIdem
import IrVerif.Lemmas.ScopeExt
import IrVerif.Lemmas.ScopeExtInv
import IrVerif.Lemmas.ScopeExtLocal
namespace IrVerif.Scope

/-- merged metadata after one write / read: `metadata_props.update(sorted entries)` on a fresh value -/
def normM (m : SS) : SS := ssUpdate [] (ssSorted m)

/-- an annotation after one write / read -/
def normQ : Option SS → Option SS
  | none => none
  | some ps => some (ssOfEntries (ssSorted ps))

/-- the `ValueInfoProto` that `serialize_value_into` writes for `v` in the extended model -/
def viOfE (V : Nat → ValueS) (x : Ext) (v : Nat) : VInfoE := ⟨nm V v, (V v).info.emit, ssSorted (x.vmeta v)⟩

/-- what `Ext.annotate` stores for a fresh value named `n` -/
def quantOf (qt : List (Name × SS)) (n : Name) : Option SS :=
  match qt.lookup n with
  | none => none
  | some ps => if ps.isEmpty then none else some (ssOfEntries ps)

/-- what `Ext.newNamed` merges into a fresh value named `n` -/
def metaOf (vt : List (Name × Info × SS)) (n : Name) : SS :=
  match vt.lookup n with
  | some e => ssUpdate [] e.2
  | none => []

/-- a fresh extension state above the allocation counter -/
def ExtFresh (st : Store) (x : Ext) : Prop := ∀ d, st.nv ≤ d → x.vmeta d = [] ∧ x.quant d = none

mutual
/-- the values whose quantization annotation `serGraphE` looks at: as `emitG`, with ALL live node outputs -/
def emitQG (V : Nat → ValueS) : GraphT → List Nat
  | .mk _ ins inits nodes outs =>
    ins ++ inits.map (·.2) ++ nodes.flatMap (liveOuts V) ++ outs ++ emitQSubNs V nodes
def emitQSubNs (V : Nat → ValueS) : List NodeT → List Nat
  | [] => []
  | n :: ns => emitQSubN V n ++ emitQSubNs V ns
def emitQSubN (V : Nat → ValueS) : NodeT → List Nat
  | .mk _ _ _ _ subs => emitQGs V subs
def emitQGs (V : Nat → ValueS) : List GraphT → List Nat
  | [] => []
  | g :: gs => emitQG V g ++ emitQGs V gs
end

/-- the images of the values `L` carry the source metadata (written and read once) -/
def MetaOK2 (x x' : Ext) (A : Assoc) (L : List Nat) : Prop :=
  ∀ v ∈ L, x'.vmeta (sig A v) = normM (x.vmeta v)

/-- the images of the values `L` carry the source annotation (written and read once) -/
def QuantOK2 (x x' : Ext) (A : Assoc) (L : List Nat) : Prop :=
  ∀ v ∈ L, x'.quant (sig A v) = normQ (x.quant v)

mutual
/-- no node output without a (truthy) name carries an annotation -/
def QuietOutsG (V : Nat → ValueS) (x : Ext) : GraphT → Prop
  | .mk _ _ _ nodes _ => QuietOutsNs V x nodes
def QuietOutsNs (V : Nat → ValueS) (x : Ext) : List NodeT → Prop
  | [] => True
  | n :: ns => QuietOutsN V x n ∧ QuietOutsNs V x ns
def QuietOutsN (V : Nat → ValueS) (x : Ext) : NodeT → Prop
  | .mk _ _ _ outs subs => (∀ v ∈ outs, nameTruthy (V v).name = false → x.quant v = none) ∧ QuietOutsGs V x subs
def QuietOutsGs (V : Nat → ValueS) (x : Ext) : List GraphT → Prop
  | [] => True
  | g :: gs => QuietOutsG V x g ∧ QuietOutsGs V x gs
end

mutual
/-- the device configurations stored by an extended deserializer run, node by node: the configurations of the
    proto node with their sharding names resolved in SOME scope stack whose tables bind names to values that
    carry them -/
def DevSpecG (s : Store) (x : Ext) : GraphE → GraphT → Prop
  | .mk _ _ _ nodes _ _, .mk _ _ _ nodes' _ => DevSpecNs s x nodes nodes'
def DevSpecNs (s : Store) (x : Ext) : List NodeE → List NodeT → Prop
  | [], [] => True
  | n :: ns, n' :: ns' => DevSpecN s x n n' ∧ DevSpecNs s x ns ns'
  | _, _ => False
def DevSpecN (s : Store) (x : Ext) : NodeE → NodeT → Prop
  | .mk _ _ devs subs, .mk id _ _ _ subs' =>
    (∃ scopes : List Table, (∀ t ∈ scopes, Named s t) ∧ x.devs id = devs.map (deserDevR scopes)) ∧
    DevSpecGs s x subs subs'
def DevSpecGs (s : Store) (x : Ext) : List GraphE → List GraphT → Prop
  | [], [] => True
  | g :: gs, g' :: gs' => DevSpecG s x g g' ∧ DevSpecGs s x gs gs'
  | _, _ => False
end

/-- the values of one graph whose annotation is written under their name -/
def qcRoles (V : Nat → ValueS) (ins : List Nat) (inits : List (Name × Nat)) (nodes : List NodeT) (outs : List Nat) :
    List Nat :=
  ins ++ inits.map (·.2) ++ (nodes.flatMap (liveOuts V)).filter (fun v => nameTruthy (V v).name) ++ outs

mutual
/-- the certificate of the extension state, along the tables of `replG` -/
def extG (V : Nat → ValueS) (x : Ext) (outer : List Table) : GraphT → Prop
  | .mk _ ins inits nodes outs =>
    (∀ a ∈ qcRoles V ins inits nodes outs, ∀ b ∈ qcRoles V ins inits nodes outs,
      (V a).name = (V b).name → x.quant a = x.quant b) ∧
    (∀ v ∈ (replOuts V (replNs V outer (replDecl V (replInits V outs (tblIns V ins) inits).tbl
        (nodes.flatMap (liveOuts V))).tbl nodes).tbl outs).new, x.quant v = none) ∧
    extNs V x outer (replDecl V (replInits V outs (tblIns V ins) inits).tbl (nodes.flatMap (liveOuts V))).tbl nodes
def extNs (V : Nat → ValueS) (x : Ext) (outer : List Table) : Table → List NodeT → Prop
  | _, [] => True
  | T, n :: ns => extN V x outer T n ∧ extNs V x outer (replN V outer T n).tbl ns
def extN (V : Nat → ValueS) (x : Ext) (outer : List Table) : Table → NodeT → Prop
  | T, .mk _ _ ins outs subs =>
    (∀ v ∈ outs, nameTruthy (V v).name = false → x.quant v = none) ∧
    extGs V x ((replRes V outer T ins).tbl :: outer) subs
def extGs (V : Nat → ValueS) (x : Ext) (scopes : List Table) : List GraphT → Prop
  | [] => True
  | g :: gs => extG V x scopes g ∧ extGs V x scopes gs
end

/-- **ReloadableE**: the resolution certificate of the core model, the certificate of the extension state and
    the representation invariant of the extension state (dicts with distinct keys, no empty annotation) -/
def ReloadableE (w : WorldE) : Prop :=
  Reloadable w.core ∧ extG w.st.vals w.ext [] w.root ∧ ExtWF w.ext

end IrVerif.Scope

/-
C19 - the weak invariant, part 3: no operation of the alphabet shrinks the value heap (so a ghost predicate that
contains every value id from a bound `N <= values.length` on keeps containing the ids that do not exist yet), the step
theorem for `Wk.DevOK`, and the bridge from `InlinePass`.  Core Lean only.
-/
import IrVerif.Lemmas.DeviceWkRT
import IrVerif.Lemmas.DeviceInlModels
namespace IrVerif.Device.Wk

variable {G : VId → Prop}

/-- the value heap did not shrink -/
def VLe (w w' : World) : Prop := w.values.length ≤ w'.values.length

theorem VLe.of_append {w w' : World} (extra : List ValueS) (h : w'.values = w.values ++ extra) : VLe w w' := by
  unfold VLe; rw [h, List.length_append]; exact Nat.le_add_right _ _

theorem VLe.of_eq {w w' : World} (h : w'.values = w.values) : VLe w w' := by
  unfold VLe; rw [h]; exact Nat.le_refl _

theorem stepD_vlen (w : World) [hGf : Fresh G w.values.length] (op : Op) (h : DevOK G w) (hpre : Pre w op) :
    VLe w (stepD w op).1 := by
  cases op with
  | newModel ir => exact VLe.of_eq (by simp [stepD, newModel])
  | newInput g name shape => exact VLe.of_append _ rfl
  | newSubgraph n => exact VLe.of_eq (by simp [stepD, newSubgraph, World.setNode])
  | newNode g ins outs => exact VLe.of_append _ rfl
  | removeNode g n safe =>
    apply VLe.of_eq
    simp only [stepD, removeNode]
    split
    · rfl
    · split
      · rfl
      · rfl
  | attachNode g n =>
    apply VLe.of_eq
    simp only [stepD, attachNode]
    split
    · rfl
    · split <;> rfl
  | newInit g name shape =>
    simp only [stepD, newInit]
    split
    · exact VLe.of_eq rfl
    · split
      · exact VLe.of_eq rfl
      · exact VLe.of_append _ rfl
  | setShape v' shape =>
    simp [stepD, setShape, VLe]
  | setDev n dev => exact VLe.of_eq (by simp [stepD, setDev, World.setNode])
  | setModelCfgs m cfgs => exact VLe.of_eq (by simp [stepD, setModelCfgs, World.setModel])
  | rename v' s =>
    simp only [stepD, rename]
    split
    · exact VLe.of_eq rfl
    · split
      · exact VLe.of_eq rfl
      · simp [VLe]
  | addCfg m name num names =>
    apply VLe.of_eq
    simp only [stepD, addCfg]
    split
    · rfl
    · split
      · rfl
      · split
        · rfl
        · split <;> rfl
  | removeCfg m r cascade =>
    apply VLe.of_eq
    simp only [stepD, removeCfg]
    split
    · rfl
    · split <;> rfl
  | shard n v' c axis k devs stage =>
    apply VLe.of_eq
    simp only [stepD, shard, shardCore]
    split
    · rfl
    · split <;> rfl
  | setStage n c stage =>
    apply VLe.of_eq
    simp only [stepD, setStage]
    split <;> rfl
  | replaceInput n i val =>
    apply VLe.of_eq
    simp only [stepD, replaceInput]
    split <;> rfl
  | resizeInputs n k => exact VLe.of_eq (by simp [stepD, resizeInputs, World.setNode])
  | resizeOutputs n k =>
    simp only [stepD, resizeOutputs]
    split
    · exact VLe.of_eq rfl
    · split
      · split
        · exact VLe.of_eq rfl
        · exact VLe.of_eq rfl
      · exact VLe.of_append _ rfl
  | newFunction m => exact VLe.of_eq (by simp [stepD, newFunction, World.setModel])
  | clone m =>
    have hcl : Closed w (w.model m) := hpre
    simp only [stepD, cloneModel]
    cases hcg : cloneRoots w (w.graphs.length + 1) { w := w } (w.model m).roots with
    | none => exact VLe.of_eq rfl
    | some r =>
      obtain ⟨st, gs'⟩ := r
      have hinit : CInv G w (w.model m).cfgs { w := w } := ⟨CloneInv.init w _, by simp⟩
      have hinv := cloneRoots_spec h (h.model m) hcl _ _ _ _ _ hcl.1 hcg hinit
      obtain ⟨extra, hex⟩ := hinv.inv.vals
      exact VLe.of_append extra hex
  | cloneFunc m i =>
    have hcl : Closed w (w.model m) := hpre
    simp only [stepD, cloneFunc]
    cases hf : (w.model m).funcs[i]? with
    | none => exact VLe.of_eq rfl
    | some g =>
      simp only
      have hgm : g ∈ (w.model m).graphs := hcl.1 g (by
        simp only [ModelS.roots, List.mem_cons]; right; exact List.mem_of_getElem? hf)
      cases hcg : cloneGraphF w (w.graphs.length + 1) { w := w } g with
      | none => exact VLe.of_eq rfl
      | some r =>
        obtain ⟨st, g'⟩ := r
        have hinit : CInv G w (w.model m).cfgs { w := w } := ⟨CloneInv.init w _, by simp⟩
        obtain ⟨hinv, _⟩ := cloneGraphF_spec h (h.model m) hcl _ _ g st g' hgm hcg hinit
        obtain ⟨extra, hex⟩ := hinv.inv.vals
        exact VLe.of_append extra (by simpa [World.setModel] using hex)
  | cloneSub n g =>
    obtain ⟨⟨msA, hmsA, hnA⟩, hall⟩ := hpre
    simp only [stepD, cloneSub]
    cases hcg : cloneGraphF w (w.graphs.length + 1) { w := w, allow := true } g with
    | none => exact VLe.of_eq rfl
    | some r =>
      obtain ⟨st, g'⟩ := r
      obtain ⟨hg, hcl⟩ := hall msA hmsA hnA
      have hinit : CInv G w msA.cfgs { w := w, allow := true } := ⟨CloneInv.init w _, by simp⟩
      obtain ⟨hinv, _⟩ := cloneGraphF_spec h (h.2 msA hmsA) hcl _ _ g st g' hg hcg hinit
      obtain ⟨extra, hex⟩ := hinv.inv.vals
      exact VLe.of_append extra (by simpa [World.setNode] using hex)
  | roundTrip m =>
    obtain ⟨hir, hcl, hU⟩ := hpre
    simp only [stepD, roundTrip]
    cases hser : serModelDev w m with
    | none => exact VLe.of_eq rfl
    | some protos =>
      simp only
      cases hd : deserModel w m with
      | none => exact VLe.of_eq rfl
      | some w' =>
        obtain ⟨st, newm, rfl, _, _, _, _, _, extra, hex⟩ := deserModel_spec h m hir hcl hU hser hd
        exact VLe.of_append extra (by simpa [rtFinish] using hex)


/-- every operation of the alphabet keeps the weak invariant, when the ghost predicate contains every value id that
    does not exist yet -/
theorem stepD_ok (w : World) [hGf : Fresh G w.values.length] (op : Op) (h : DevOK G w) (hpre : Pre w op) :
    DevOK G (stepD w op).1 := by
  cases op with
  | newModel ir => exact DevOK_newModel h ir
  | newInput m name shape => exact DevOK_newInput h m name shape
  | newSubgraph n => exact DevOK_newSubgraph h n
  | newNode m ins outs => exact DevOK_newNode h m ins outs hpre
  | removeNode m n safe => exact DevOK_removeNode h m n safe
  | attachNode g n => exact DevOK_attachNode h g n hpre
  | newInit g name shape => exact DevOK_newInit h g name shape
  | setShape v shape => exact DevOK_setShape h v shape hpre
  | setDev n dev => exact DevOK_setDev h n dev hpre
  | setModelCfgs m cfgs => exact DevOK_setModelCfgs h m cfgs hpre
  | rename v s => exact DevOK_rename h v s
  | addCfg m name num names => exact DevOK_addCfg h m name num names
  | removeCfg m r cascade =>
    have : cascade = true := hpre
    subst this
    exact DevOK_removeCfg h m r
  | shard n v c axis k devs stage => exact DevOK_shard h n v c axis k devs stage hpre
  | setStage n c stage => exact DevOK_setStage h n c stage hpre
  | replaceInput n i val => exact DevOK_replaceInput h n i val hpre
  | resizeInputs n k => exact DevOK_resizeInputs h n k
  | resizeOutputs n k => exact DevOK_resizeOutputs h n k
  | clone m => exact DevOK_clone h m hpre
  | roundTrip m => exact DevOK_roundTrip h m hpre
  | newFunction m => exact DevOK_newFunction h m
  | cloneFunc m i => exact DevOK_cloneFunc h m i hpre
  | cloneSub n g => exact DevOK_cloneSub h n g hpre

end IrVerif.Device.Wk
